/-
C01 — helper lemmas about stringification, `@N@` / `@name@` substitution and the `str` methods
(core Lean only).  The property statements built from them are in `Props/C01.lean`.
-/
import MesonModel.Eval.Model

namespace MesonModel.Eval
open MesonModel.Py

/-! ### generic list facts -/

theorem drop_takeWhile_length {α} (p : α → Bool) : ∀ l : List α, l.drop (l.takeWhile p).length = l.dropWhile p
  | [] => rfl
  | a :: r => by
    by_cases h : p a
    · simp [h, drop_takeWhile_length p r]
    · simp [h]

theorem dropWhile_idem {α} (p : α → Bool) : ∀ l : List α, (l.dropWhile p).dropWhile p = l.dropWhile p
  | [] => rfl
  | a :: r => by
    by_cases h : p a
    · simp [h, dropWhile_idem p r]
    · simp [h]

theorem dropWhile_eq_self_of_head {α} (p : α → Bool) (a : α) (r : List α) (h : p a = false) :
    (a :: r).dropWhile p = a :: r := by
  simp [h]

/-- the head of `dropWhile p l`, if any, fails `p` -/
theorem dropWhile_head_fails {α} (p : α → Bool) : ∀ (l : List α) (a : α) (r : List α),
    l.dropWhile p = a :: r → p a = false
  | [], a, r, h => by simp at h
  | b :: l, a, r, h => by
    by_cases hb : p b
    · simp only [List.dropWhile_cons, hb, ↓reduceIte] at h
      exact dropWhile_head_fails p l a r h
    · simp only [List.dropWhile_cons, hb] at h
      simp only [Bool.false_eq_true, ↓reduceIte, List.cons.injEq] at h
      rw [← h.1]
      simpa using hb

/-! ### trimming both ends (`str.strip()` / `str.strip(chars)`) -/

/-- both `strip` and `stripChars` are this, for the predicate "is a character to remove" -/
def trimBoth (p : Char → Bool) (s : Str) : Str := ((s.dropWhile p).reverse.dropWhile p).reverse

theorem strip_eq_trimBoth (s : Str) : strip s = trimBoth isSpace s := rfl

theorem stripChars_eq_trimBoth (s chars : Str) : stripChars s chars = trimBoth (fun c => chars.contains c) s := rfl

/-- what is left after trimming the end is a prefix of the input -/
theorem rtrim_prefix (p : Char → Bool) (t : Str) :
    ∃ w, t = (t.reverse.dropWhile p).reverse ++ w := by
  refine ⟨(t.reverse.takeWhile p).reverse, ?_⟩
  have h := List.takeWhile_append_dropWhile (p := p) (l := t.reverse)
  have h2 := congrArg List.reverse h
  simp only [List.reverse_append, List.reverse_reverse] at h2
  exact h2.symm

theorem trimBoth_idem (p : Char → Bool) (s : Str) : trimBoth p (trimBoth p s) = trimBoth p s := by
  unfold trimBoth
  generalize ht : s.dropWhile p = t
  -- `u` = `t` with its trailing `p`-characters removed
  generalize hu : (t.reverse.dropWhile p).reverse = u
  have hur : u.reverse = t.reverse.dropWhile p := by rw [← hu]; simp
  -- the front of `u` needs no more trimming
  have hfront : u.dropWhile p = u := by
    cases hcu : u with
    | nil => rfl
    | cons a r =>
      obtain ⟨w, hw⟩ := rtrim_prefix p t
      rw [hu, hcu] at hw
      have : s.dropWhile p = a :: (r ++ w) := by rw [ht, hw]; rfl
      exact dropWhile_eq_self_of_head p a r (dropWhile_head_fails p s a _ this)
  rw [hfront, hur, dropWhile_idem, ← hur]
  simp

/-- a trimmed string neither starts nor ends with a removed character -/
theorem trimBoth_ends (p : Char → Bool) (s : Str) :
    (∀ a r, trimBoth p s = a :: r → p a = false) ∧
    (∀ a r, (trimBoth p s).reverse = a :: r → p a = false) := by
  constructor
  · intro a r h
    have hi := trimBoth_idem p s
    rw [h] at hi
    unfold trimBoth at hi
    by_cases hp : p a
    · exfalso
      -- trimming `a :: r` would drop `a`, giving something shorter than `a :: r`
      have hlen := congrArg List.length hi
      simp only [List.length_reverse, List.length_cons] at hlen
      have h1 : ((a :: r).dropWhile p).length ≤ r.length := by
        simp only [List.dropWhile_cons, hp, ↓reduceIte]
        exact (List.dropWhile_sublist p).length_le
      have h2 : (((a :: r).dropWhile p).reverse.dropWhile p).length ≤ ((a :: r).dropWhile p).reverse.length :=
        (List.dropWhile_sublist p).length_le
      simp only [List.length_reverse] at h2
      omega
    · simpa using hp
  · intro a r h
    unfold trimBoth at h
    simp only [List.reverse_reverse] at h
    exact dropWhile_head_fails p _ a r h

/-! ### `str.join` / `str.split` / `str.replace` -/

theorem splitGo_ne_nil (sep : Str) : ∀ (s : Str) (k : Nat) (cur : Str), splitGo sep s k cur ≠ []
  | [], _, _ => by simp [splitGo]
  | _ :: r, k + 1, cur => by simp only [splitGo]; exact splitGo_ne_nil sep r k cur
  | c :: r, 0, cur => by
    simp only [splitGo]
    split
    · simp
    · exact splitGo_ne_nil sep r 0 (c :: cur)

theorem joinStr_cons_of_ne_nil (sep x : Str) (r : List Str) (h : r ≠ []) :
    joinStr sep (x :: r) = x ++ sep ++ joinStr sep r := by
  cases r with
  | nil => exact absurd rfl h
  | cons y t => rfl

theorem isPrefixOf_split {p l : Str} (h : p.isPrefixOf l = true) : l = p ++ l.drop p.length := by
  have := List.isPrefixOf_iff_prefix.mp h
  obtain ⟨t, rfl⟩ := this
  simp

/-- `new.join(s.split(old)) == s.replace(old, new)`, in the generalised form the scanners need:
`k` characters of a separator are still to be skipped, `cur` is the field collected so far -/
theorem join_splitGo (old new : Str) : ∀ (s : Str) (k : Nat) (cur : Str),
    joinStr new (splitGo old s k cur) = cur.reverse ++ replaceGo old new s k
  | [], k, cur => by simp [splitGo, replaceGo, joinStr]
  | c :: r, k + 1, cur => by simp only [splitGo, replaceGo]; exact join_splitGo old new r k cur
  | c :: r, 0, cur => by
    simp only [splitGo, replaceGo]
    split
    · rw [joinStr_cons_of_ne_nil _ _ _ (splitGo_ne_nil old r _ []), join_splitGo old new r _ []]
      simp
    · rw [join_splitGo old new r 0 (c :: cur)]
      simp

/-- replacing `old` by itself changes nothing (generalised over the skip counter) -/
theorem replaceGo_self (old : Str) (hne : old ≠ []) : ∀ (s : Str) (k : Nat), replaceGo old old s k = s.drop k
  | [], k => by simp [replaceGo]
  | c :: r, k + 1 => by simp only [replaceGo, List.drop_succ_cons]; exact replaceGo_self old hne r k
  | c :: r, 0 => by
    simp only [replaceGo, List.drop_zero]
    split
    · rename_i h
      rw [replaceGo_self old hne r (old.length - 1)]
      have hs := isPrefixOf_split h
      cases old with
      | nil => exact absurd rfl hne
      | cons o os =>
        simp only [List.length_cons, Nat.add_sub_cancel, List.drop_succ_cons] at hs ⊢
        exact hs.symm
    · rw [replaceGo_self old hne r 0]
      simp

/-! ### `str.contains` / `str.startswith` -/

theorem hasSub_iff (p : Str) : ∀ s : Str, hasSub p s = true ↔ ∃ a b, s = a ++ p ++ b
  | [] => by
    simp only [hasSub, List.isEmpty_iff]
    constructor
    · intro h; exact ⟨[], [], by simp [h]⟩
    · rintro ⟨a, b, h⟩
      have := congrArg List.length h
      simp at this
      exact List.eq_nil_of_length_eq_zero (by omega)
  | c :: r => by
    simp only [hasSub, Bool.or_eq_true]
    constructor
    · rintro (h | h)
      · obtain ⟨t, ht⟩ := List.isPrefixOf_iff_prefix.mp h
        exact ⟨[], t, by simp [ht]⟩
      · obtain ⟨a, b, hab⟩ := (hasSub_iff p r).mp h
        exact ⟨c :: a, b, by simp [hab]⟩
    · rintro ⟨a, b, h⟩
      cases a with
      | nil =>
        left
        apply List.isPrefixOf_iff_prefix.mpr
        exact ⟨b, by simpa using h.symm⟩
      | cons a0 a' =>
        right
        simp only [List.cons_append, List.cons.injEq] at h
        exact (hasSub_iff p r).mpr ⟨a', b, h.2⟩

/-! ### `str.substring` (Python slicing with step 1) -/

theorem sliceIdxGo_one_filterMap {α} (l : List α) (stop : Nat) (hstop : stop ≤ l.length) :
    ∀ (fuel i : Nat), stop - i ≤ fuel →
      (sliceIdxGo 1 (stop : Int) fuel (i : Int)).filterMap (fun j => l[j.toNat]?) = (l.drop i).take (stop - i)
  | 0, i, h => by
    have : stop - i = 0 := by omega
    simp [sliceIdxGo, this]
  | fuel + 1, i, h => by
    simp only [sliceIdxGo]
    by_cases hi : i < stop
    · have c : (((1 : Int) > 0 && decide ((i : Int) < (stop : Int))) || (decide ((1 : Int) < 0) && decide ((i : Int) > (stop : Int)))) = true := by
        simp; omega
      rw [if_pos c]
      have hil : i < l.length := by omega
      have ih := sliceIdxGo_one_filterMap l stop hstop fuel (i + 1) (by omega)
      have e : ((i : Int) + 1) = ((i + 1 : Nat) : Int) := by omega
      rw [List.filterMap_cons]
      simp only [Int.toNat_natCast, List.getElem?_eq_getElem hil, e, ih]
      have hd : l.drop i = l[i] :: l.drop (i + 1) := (List.drop_eq_getElem_cons hil)
      have hn : stop - i = (stop - (i + 1)) + 1 := by omega
      rw [hd, hn, List.take_succ_cons]
    · have c : (((1 : Int) > 0 && decide ((i : Int) < (stop : Int))) || (decide ((1 : Int) < 0) && decide ((i : Int) > (stop : Int)))) = false := by
        simp; omega
      rw [if_neg (by rw [c]; simp)]
      have : stop - i = 0 := by omega
      simp [this]

theorem sliceIndices_one (start stop : Option Int) (len : Nat) :
    sliceIndices start stop 1 len =
      sliceIdxGo 1 (match stop with | some x => adjustIdx x len false | none => (len : Int)) len
        (match start with | some x => adjustIdx x len false | none => 0) := by
  have hneg : decide ((1 : Int) < 0) = false := by decide
  have hlt : ¬ ((1 : Int) < 0) := by decide
  unfold sliceIndices
  simp only [hlt, decide_false, ↓reduceIte]
  cases start <;> cases stop <;> rfl

theorem adjustIdx_nat (a len : Nat) (h : a ≤ len) : adjustIdx (a : Int) (len : Int) false = a := by
  unfold adjustIdx
  have c1 : ¬ ((a : Int) < 0) := by omega
  rw [if_neg c1]
  by_cases c2 : (a : Int) ≥ (len : Int)
  · rw [if_pos c2]
    simp only [Bool.false_eq_true, ↓reduceIte]
    omega
  · rw [if_neg c2]

theorem adjustIdx_neg (k len : Nat) (h1 : 1 ≤ k) (h2 : k ≤ len) :
    adjustIdx (-(k : Int)) (len : Int) false = ((len - k : Nat) : Int) := by
  unfold adjustIdx
  have c1 : -(k : Int) < 0 := by omega
  have c2 : ¬ (-(k : Int) + (len : Int) < 0) := by omega
  simp only [c1, c2, ↓reduceIte]
  omega

theorem adjustIdx_ge (a : Int) (len : Nat) (h : a ≥ len) : adjustIdx a (len : Int) false = len := by
  unfold adjustIdx
  have c1 : ¬ (a < 0) := by omega
  simp [c1, h]

theorem adjustIdx_le (x : Int) (len : Nat) : adjustIdx x (len : Int) false ≤ len := by
  unfold adjustIdx
  by_cases h1 : x < 0
  · rw [if_pos h1]
    by_cases h2 : x + (len : Int) < 0
    · simp [h2]
    · simp only [h2, ↓reduceIte]; omega
  · rw [if_neg h1]
    by_cases h2 : x ≥ (len : Int)
    · simp [h2]
    · simp only [h2, ↓reduceIte]; omega

theorem sliceIdxGo_empty (sp i : Int) (fuel : Nat) (h : sp ≤ i) : sliceIdxGo 1 sp fuel i = [] := by
  cases fuel with
  | zero => rfl
  | succ n =>
    simp only [sliceIdxGo]
    have : ¬ ((((1 : Int) > 0 && decide (i < sp)) || (decide ((1 : Int) < 0) && decide (i > sp))) = true) := by
      simp; omega
    rw [if_neg this]

/-- `stringifyL l = some xs`, spelled out: element by element, each in quoted mode -/
def printedAs : List Val → List Str → Prop
  | [], [] => True
  | v :: r, x :: xs => stringify true v = some x ∧ printedAs r xs
  | _, _ => False

theorem stringifyL_spec : ∀ (l : List Val) (xs : List Str), stringifyL l = some xs ↔ printedAs l xs
  | [], [] => by simp [stringifyL, printedAs]
  | [], _ :: _ => by simp [stringifyL, printedAs]
  | v :: r, [] => by
    simp only [stringifyL, printedAs, iff_false]
    intro h
    split at h <;> cases h
  | v :: r, x :: xs => by
    simp only [stringifyL, printedAs]
    constructor
    · intro h
      split at h
      · rename_i a b ha hb
        cases h
        exact ⟨ha, (stringifyL_spec r xs).mp hb⟩
      · cases h
    · rintro ⟨ha, hr⟩
      rw [ha, (stringifyL_spec r xs).mpr hr]

/-! ### argument lists made of strings -/

theorem flattenL_strs : ∀ l : List Str, flattenL (l.map Val.str) = l.map Val.str
  | [] => rfl
  | x :: r => by simp [flattenL, flattenV, flattenL_strs r]

theorem strArgs_strs : ∀ l : List Str, strArgs (l.map Val.str) = l
  | [] => rfl
  | x :: r => by
    have := strArgs_strs r
    unfold strArgs at this ⊢
    simp [this]

/-! ### `str.to_upper` / `str.to_lower` / `str.underscorify` -/

theorem toNat_ofNat_small (k : Nat) (h : k < 55296) : (Char.ofNat k).toNat = k := by
  have hv : k.isValidChar := Or.inl h
  simp [Char.ofNat, hv, Char.ofNatAux, Char.toNat]

theorem upperC_idem (c : Char) : upperC (upperC c) = upperC c := by
  unfold upperC
  by_cases h : (97 ≤ c.toNat && c.toNat ≤ 122) = true
  · simp only [h, ↓reduceIte]
    have hb : 97 ≤ c.toNat ∧ c.toNat ≤ 122 := by simpa using h
    have : (Char.ofNat (c.toNat - 32)).toNat = c.toNat - 32 := toNat_ofNat_small _ (by omega)
    have h2 : ¬ ((97 ≤ (Char.ofNat (c.toNat - 32)).toNat && (Char.ofNat (c.toNat - 32)).toNat ≤ 122) = true) := by
      rw [this]; simp; omega
    rw [if_neg h2]
  · rw [if_neg h, if_neg h]

theorem lowerC_idem (c : Char) : lowerC (lowerC c) = lowerC c := by
  unfold lowerC
  by_cases h : (65 ≤ c.toNat && c.toNat ≤ 90) = true
  · simp only [h, ↓reduceIte]
    have hb : 65 ≤ c.toNat ∧ c.toNat ≤ 90 := by simpa using h
    have : (Char.ofNat (c.toNat + 32)).toNat = c.toNat + 32 := toNat_ofNat_small _ (by omega)
    have h2 : ¬ ((65 ≤ (Char.ofNat (c.toNat + 32)).toNat && (Char.ofNat (c.toNat + 32)).toNat ≤ 90) = true) := by
      rw [this]; simp; omega
    rw [if_neg h2]
  · rw [if_neg h, if_neg h]

/-! ### `str(int)` -/

theorem digitChar_toNat (d : Nat) (h : d < 10) : (digitChar d).toNat = 48 + d := by
  unfold digitChar
  simp only [h, ↓reduceIte]
  exact toNat_ofNat_small _ (by omega)

theorem digitChar_isDigit (d : Nat) (h : d < 10) : isDigit (digitChar d) = true := by
  unfold isDigit
  rw [digitChar_toNat d h]
  simp; omega

theorem digitVal_digitChar (d : Nat) (h : d < 10) : digitVal (digitChar d) = d := by
  unfold digitVal
  rw [digitChar_toNat d h]
  omega

theorem natDigitsGo_digits : ∀ (fuel n : Nat) (acc : Str), (∀ c ∈ acc, isDigit c = true) →
    ∀ c ∈ natDigitsGo 10 fuel n acc, isDigit c = true
  | 0, _, acc, h => by simpa [natDigitsGo] using h
  | fuel + 1, n, acc, h => by
    simp only [natDigitsGo]
    split
    · rename_i hn
      intro c hc
      rcases List.mem_cons.mp hc with rfl | hc
      · exact digitChar_isDigit n hn
      · exact h c hc
    · apply natDigitsGo_digits fuel (n / 10)
      intro c hc
      rcases List.mem_cons.mp hc with rfl | hc
      · exact digitChar_isDigit _ (Nat.mod_lt _ (by omega))
      · exact h c hc

theorem natDigitsGo_length : ∀ (fuel n : Nat) (acc : Str), acc.length < (natDigitsGo 10 (fuel + 1) n acc).length
  | 0, n, acc => by
    simp only [natDigitsGo]
    split <;> simp
  | fuel + 1, n, acc => by
    rw [natDigitsGo]
    split
    · simp
    · have := natDigitsGo_length fuel (n / 10) (digitChar (n % 10) :: acc)
      simp only [List.length_cons] at this
      omega

theorem natDigits_ne_nil (n : Nat) : natDigits 10 n ≠ [] := by
  intro h
  have := natDigitsGo_length n n []
  unfold natDigits at h
  rw [h] at this
  simp at this

/-- reading the digits back gives the number: `int(str(n)) == n` at the level of digit strings -/
theorem natDigitsGo_value : ∀ (fuel n : Nat) (acc : Str), n < fuel →
    (natDigitsGo 10 fuel n acc).foldl (fun a c => a * 10 + digitVal c) 0 =
      acc.foldl (fun a c => a * 10 + digitVal c) n
  | 0, _, _, h => by omega
  | fuel + 1, n, acc, h => by
    simp only [natDigitsGo]
    split
    · rename_i hn
      simp [List.foldl_cons, digitVal_digitChar n hn]
    · rename_i hn
      rw [natDigitsGo_value fuel (n / 10) _ (by omega)]
      simp only [List.foldl_cons]
      rw [digitVal_digitChar _ (Nat.mod_lt _ (by omega))]
      have : n / 10 * 10 + n % 10 = n := by omega
      rw [this]

theorem natOfDigits_natDigits (n : Nat) : natOfDigits (natDigits 10 n) = n := by
  unfold natOfDigits natDigits
  rw [natDigitsGo_value (n + 1) n [] (by omega)]
  rfl

theorem natDigits_injective (a b : Nat) (h : natDigits 10 a = natDigits 10 b) : a = b := by
  have := congrArg natOfDigits h
  simpa [natOfDigits_natDigits] using this

/-- the text of an integer: an optional `-`, then at least one decimal digit -/
theorem intStr_shape (i : Int) :
    intStr i = (if i < 0 then ['-'] else []) ++ natDigits 10 i.natAbs ∧
    natDigits 10 i.natAbs ≠ [] ∧ ∀ c ∈ natDigits 10 i.natAbs, isDigit c = true :=
  ⟨rfl, natDigits_ne_nil _, natDigitsGo_digits _ _ [] (by simp)⟩

theorem intStr_chars (i : Int) : ∀ c ∈ intStr i, c = '-' ∨ isDigit c = true := by
  intro c hc
  unfold intStr at hc
  rcases List.mem_append.mp hc with h | h
  · split at h
    · left; simpa using h
    · simp at h
  · right; exact natDigitsGo_digits _ _ [] (by simp) c h

theorem intStr_ne_nil (i : Int) : intStr i ≠ [] := by
  unfold intStr
  intro h
  have := (List.append_eq_nil_iff.mp h).2
  exact natDigits_ne_nil _ this

theorem intStr_injective (i j : Int) (h : intStr i = intStr j) : i = j := by
  unfold intStr at h
  have hd : ∀ n, ∀ r, natDigits 10 n ≠ '-' :: r := by
    intro n r hc
    have := natDigitsGo_digits (n + 1) n [] (by simp) '-' (by
      show '-' ∈ natDigits 10 n
      rw [hc]; simp)
    simp [isDigit] at this
  by_cases hi : i < 0 <;> by_cases hj : j < 0 <;> simp only [hi, hj, ↓reduceIte] at h
  · have := natDigits_injective _ _ (by simpa using h)
    omega
  · exact absurd h.symm (hd _ _)
  · exact absurd h (hd _ _)
  · have := natDigits_injective _ _ (by simpa using h)
    omega

/-! ### `@N@` substitution (`str.format`) as a split of the template followed by one fold -/

/-- the pieces of a `.format()` template: literal characters and `@digits@` placeholders.  Depends on
the template only — never on the arguments -/
def fmtPieces : Str → Nat → List FPiece
  | [], _ => []
  | _ :: r, skip + 1 => fmtPieces r skip
  | c :: r, 0 =>
    if c == '@' then
      match placeholder isDigit r with
      | some ds => .var ds :: fmtPieces r (ds.length + 1)
      | none => .lit c :: fmtPieces r 0
    else .lit c :: fmtPieces r 0

/-- one left-to-right pass over the pieces; `none` = a placeholder number without an argument -/
def substPieces (args : List Str) : List FPiece → Option Str
  | [] => some []
  | .lit c :: r => (substPieces args r).map (c :: ·)
  | .var ds :: r =>
    match args[natOfDigits ds]? with
    | some a => (substPieces args r).map (a ++ ·)
    | none => none

/-- the source text of a list of pieces -/
def renderPieces : List FPiece → Str
  | [] => []
  | .lit c :: r => c :: renderPieces r
  | .var n :: r => '@' :: n ++ '@' :: renderPieces r

/-- what one piece contributes to the result -/
def pieceText (args : List Str) : FPiece → Str
  | .lit c => [c]
  | .var ds => (args[natOfDigits ds]?).getD []

theorem formatGo_eq_pieces (args : List Str) : ∀ (s : Str) (k : Nat),
    formatGo args s k = substPieces args (fmtPieces s k)
  | [], k => by simp [formatGo, fmtPieces, substPieces]
  | c :: r, k + 1 => by simp only [formatGo, fmtPieces]; exact formatGo_eq_pieces args r k
  | c :: r, 0 => by
    simp only [formatGo, fmtPieces]
    by_cases hc : (c == '@') = true
    · simp only [hc, ↓reduceIte]
      cases hp : placeholder isDigit r with
      | some ds =>
        simp only [substPieces, formatGo_eq_pieces args r (ds.length + 1)]
        cases args[natOfDigits ds]? <;> rfl
      | none => simp only [substPieces, formatGo_eq_pieces args r 0]
    · simp only [hc, formatGo_eq_pieces args r 0]
      rfl

theorem mem_takeWhile_holds {α} (p : α → Bool) : ∀ (l : List α) (c : α), c ∈ l.takeWhile p → p c = true
  | [], c, h => by simp at h
  | a :: r, c, h => by
    by_cases ha : p a
    · simp only [List.takeWhile_cons, ha, ↓reduceIte] at h
      rcases List.mem_cons.mp h with rfl | h
      · exact ha
      · exact mem_takeWhile_holds p r c h
    · simp [ha] at h

theorem placeholder_spec (p : Char → Bool) (r run : Str) (h : placeholder p r = some run) :
    run ≠ [] ∧ (∀ c ∈ run, p c = true) ∧ ∃ tail, r = run ++ '@' :: tail ∧ r.drop (run.length + 1) = tail := by
  unfold placeholder at h
  simp only at h
  split at h
  · cases h
  · rename_i hne
    split at h
    · rename_i hhead
      cases h
      refine ⟨by simpa using hne, fun c hc => mem_takeWhile_holds p r c hc, ?_⟩
      rw [drop_takeWhile_length] at hhead
      cases hd : r.dropWhile p with
      | nil => rw [hd] at hhead; simp at hhead
      | cons a tail =>
        rw [hd] at hhead
        have ha : a = '@' := by simpa using hhead
        subst ha
        have e : r = r.takeWhile p ++ '@' :: tail := by
          rw [← hd]; exact (List.takeWhile_append_dropWhile).symm
        refine ⟨tail, e, ?_⟩
        have e2 : r.drop ((r.takeWhile p).length + 1) = (r.drop (r.takeWhile p).length).drop 1 := by
          rw [List.drop_drop]
        rw [e2, drop_takeWhile_length, hd]
        rfl
    · cases h

/-- the pieces are a partition of the template: nothing is dropped, nothing is invented -/
theorem renderPieces_fmtPieces : ∀ (s : Str) (k : Nat), renderPieces (fmtPieces s k) = s.drop k
  | [], k => by simp [fmtPieces, renderPieces]
  | c :: r, k + 1 => by simp only [fmtPieces, List.drop_succ_cons]; exact renderPieces_fmtPieces r k
  | c :: r, 0 => by
    simp only [fmtPieces, List.drop_zero]
    split
    · rename_i hc
      have hc' : c = '@' := by simpa using hc
      split
      · rename_i ds hds
        obtain ⟨_, _, tail, e, ed⟩ := placeholder_spec _ _ _ hds
        simp only [renderPieces, renderPieces_fmtPieces r (ds.length + 1), ed, hc']
        rw [e]
        simp
      · simp only [renderPieces, renderPieces_fmtPieces r 0, List.drop_zero]
    · simp only [renderPieces, renderPieces_fmtPieces r 0, List.drop_zero]

/-- every placeholder piece is a non-empty run of decimal digits -/
theorem fmtPieces_vars : ∀ (s : Str) (k : Nat) (ds : Str), .var ds ∈ fmtPieces s k →
    ds ≠ [] ∧ ∀ c ∈ ds, isDigit c = true
  | [], k, ds, h => by simp [fmtPieces] at h
  | c :: r, k + 1, ds, h => by simp only [fmtPieces] at h; exact fmtPieces_vars r k ds h
  | c :: r, 0, ds, h => by
    simp only [fmtPieces] at h
    split at h
    · split at h
      · rename_i ds' hds
        rcases List.mem_cons.mp h with h | h
        · cases h
          have := placeholder_spec _ _ _ hds
          exact ⟨this.1, this.2.1⟩
        · exact fmtPieces_vars r _ ds h
      · rcases List.mem_cons.mp h with h | h
        · cases h
        · exact fmtPieces_vars r _ ds h
    · rcases List.mem_cons.mp h with h | h
      · cases h
      · exact fmtPieces_vars r _ ds h

/-- the pass fails exactly when some placeholder number has no argument -/
theorem substPieces_none_iff (args : List Str) : ∀ ps : List FPiece,
    substPieces args ps = none ↔ ∃ ds, .var ds ∈ ps ∧ args.length ≤ natOfDigits ds
  | [] => by simp [substPieces]
  | .lit c :: r => by
    simp only [substPieces, Option.map_eq_none_iff, substPieces_none_iff args r, List.mem_cons]
    constructor
    · rintro ⟨ds, h1, h2⟩; exact ⟨ds, Or.inr h1, h2⟩
    · rintro ⟨ds, h1 | h1, h2⟩
      · cases h1
      · exact ⟨ds, h1, h2⟩
  | .var d :: r => by
    simp only [substPieces, List.mem_cons]
    cases hg : args[natOfDigits d]? with
    | none =>
      simp only [true_iff]
      exact ⟨d, Or.inl rfl, List.getElem?_eq_none_iff.mp hg⟩
    | some a =>
      simp only [Option.map_eq_none_iff, substPieces_none_iff args r]
      constructor
      · rintro ⟨ds, h1, h2⟩; exact ⟨ds, Or.inr h1, h2⟩
      · rintro ⟨ds, h1 | h1, h2⟩
        · cases h1
          have := List.getElem?_eq_none_iff.mpr h2
          rw [this] at hg; cases hg
        · exact ⟨ds, h1, h2⟩

/-- when it succeeds, the result is the concatenation, in template order, of what each piece
contributes — each placeholder's argument verbatim, never looked at again -/
theorem substPieces_some (args : List Str) : ∀ (ps : List FPiece) (out : Str),
    substPieces args ps = some out → out = (ps.map (pieceText args)).flatten
  | [], out, h => by simp [substPieces] at h; simp [h]
  | .lit c :: r, out, h => by
    simp only [substPieces, Option.map_eq_some_iff] at h
    obtain ⟨t, ht, rfl⟩ := h
    simp [pieceText, substPieces_some args r t ht]
  | .var d :: r, out, h => by
    simp only [substPieces] at h
    cases hg : args[natOfDigits d]? with
    | none => rw [hg] at h; cases h
    | some a =>
      rw [hg] at h
      simp only [Option.map_eq_some_iff] at h
      obtain ⟨t, ht, rfl⟩ := h
      simp [pieceText, hg, substPieces_some args r t ht]

/-! ### f-strings: the same split with identifier placeholders, values read from the variable table -/

/-- the pure content of `fstringGo`: look each name up, stringify, concatenate -/
def fstrSubst (vars : List (Str × Val)) : List FPiece → Except ErrK Str
  | [] => .ok []
  | .lit c :: r => (fstrSubst vars r).map (c :: ·)
  | .var nm :: r =>
    match lookup nm vars with
    | none => .error .invalidCode
    | some v =>
      match stringify false v with
      | none => .error .invalidArguments
      | some txt => (fstrSubst vars r).map (txt ++ ·)

theorem fstringGo_eq (ps : List FPiece) (st : St) :
    fstringGo ps st = (match fstrSubst st.vars ps with
                       | .ok t => .ok t st
                       | .error e => .err e st) := by
  induction ps with
  | nil => rfl
  | cons p r ih =>
    cases p with
    | lit c =>
      simp only [fstringGo, bind, EvalM.bind, ih, fstrSubst]
      cases fstrSubst st.vars r <;> rfl
    | var nm =>
      simp only [fstringGo, bind, EvalM.bind, getSt, fstrSubst]
      cases lookup nm st.vars with
      | none => rfl
      | some v =>
        simp only []
        cases stringify false v with
        | none => rfl
        | some txt =>
          simp only [EvalM.bind, ih]
          cases fstrSubst st.vars r <;> rfl

theorem renderPieces_fstringPieces : ∀ (s : Str) (k : Nat), renderPieces (fstringPieces s k) = s.drop k
  | [], k => by simp [fstringPieces, renderPieces]
  | c :: r, k + 1 => by simp only [fstringPieces, List.drop_succ_cons]; exact renderPieces_fstringPieces r k
  | c :: r, 0 => by
    simp only [fstringPieces, List.drop_zero]
    split
    · rename_i hc
      have hc' : c = '@' := by simpa using hc
      split
      · rename_i c1 r1
        split
        · split
          · rename_i nm hnm
            obtain ⟨_, _, tail, e, ed⟩ := placeholder_spec _ _ _ hnm
            simp only [renderPieces, renderPieces_fstringPieces (c1 :: r1) (nm.length + 1), ed, hc']
            rw [e]
            simp
          · simp only [renderPieces, renderPieces_fstringPieces (c1 :: r1) 0, List.drop_zero]
        · simp only [renderPieces, renderPieces_fstringPieces (c1 :: r1) 0, List.drop_zero]
      · simp [renderPieces]
    · simp only [renderPieces, renderPieces_fstringPieces r 0, List.drop_zero]

/-! ### `int.to_string()` / `str.to_int()` -/

theorem trimBoth_none (p : Char → Bool) (s : Str) (h : ∀ c ∈ s, p c = false) : trimBoth p s = s := by
  have d : ∀ l : Str, (∀ c ∈ l, p c = false) → l.dropWhile p = l := by
    intro l hl
    cases l with
    | nil => rfl
    | cons a r => exact dropWhile_eq_self_of_head p a r (hl a (by simp))
  unfold trimBoth
  rw [d s h, d s.reverse (by intro c hc; exact h c (by simpa using hc))]
  simp

theorem digitOf_ten (c : Char) (h : isDigit c = true) : digitOf 10 c = some (digitVal c) := by
  unfold isDigit at h
  have hb : 48 ≤ c.toNat ∧ c.toNat ≤ 57 := by simpa using h
  unfold digitOf digitVal
  have c1 : (48 ≤ c.toNat && c.toNat ≤ 57) = true := by simp [hb.1, hb.2]
  simp only [c1, ↓reduceIte]
  have : c.toNat - 48 < 10 := by omega
  simp [this]

theorem parseDigitsGo_digits : ∀ (ds : Str) (prev : Bool) (acc : Nat), (∀ c ∈ ds, isDigit c = true) →
    (ds ≠ [] ∨ prev = true) →
    parseDigitsGo 10 ds prev acc = some (ds.foldl (fun a c => a * 10 + digitVal c) acc)
  | [], prev, acc, _, hne => by
    rcases hne with h | h
    · exact absurd rfl h
    · simp [parseDigitsGo, h]
  | c :: r, prev, acc, hd, _ => by
    have hc := hd c (by simp)
    have hu : (c == '_') = false := by
      have : c ≠ '_' := by
        intro e; subst e; simp [isDigit] at hc
      simpa using this
    simp only [parseDigitsGo, hu, Bool.false_eq_true, ↓reduceIte, digitOf_ten c hc]
    rw [parseDigitsGo_digits r true _ (fun x hx => hd x (by simp [hx])) (Or.inr rfl)]
    rfl

theorem parseDec_digits (ds : Str) (hd : ∀ c ∈ ds, isDigit c = true) (hne : ds ≠ []) :
    parseDec ds = some (natOfDigits ds) := by
  cases ds with
  | nil => exact absurd rfl hne
  | cons c r =>
    have hc := hd c (by simp)
    have hu : (c == '_') = false := by
      have : c ≠ '_' := by
        intro e; subst e; simp [isDigit] at hc
      simpa using this
    simp only [parseDec, hu, Bool.false_eq_true, ↓reduceIte]
    rw [parseDigitsGo_digits (c :: r) false 0 hd (Or.inl (by simp))]
    rfl

/-- `i.to_string().to_int() == i` -/
theorem parseInt_intStr (i : Int) : parseInt (intStr i) = some i := by
  obtain ⟨hs, hne, hd⟩ := intStr_shape i
  have hstrip : strip (intStr i) = intStr i := by
    rw [strip_eq_trimBoth]
    apply trimBoth_none
    intro c hc
    rcases intStr_chars i c hc with rfl | h
    · decide
    · unfold isDigit at h
      have hb : 48 ≤ c.toNat ∧ c.toNat ≤ 57 := by simpa using h
      unfold isSpace
      simp; omega
  unfold parseInt
  rw [hstrip, hs]
  cases hds : natDigits 10 i.natAbs with
  | nil => exact absurd hds hne
  | cons d r =>
    have hdd : isDigit d = true := hd d (by rw [hds]; simp)
    have hm : d ≠ '-' := by intro e; subst e; simp [isDigit] at hdd
    have hp : d ≠ '+' := by intro e; subst e; simp [isDigit] at hdd
    by_cases hi : i < 0
    · simp only [hi, ↓reduceIte, List.cons_append, List.nil_append]
      rw [← hds, parseDec_digits _ hd hne, natOfDigits_natDigits]
      simp; omega
    · simp only [hi, ↓reduceIte, List.nil_append]
      split
      · rename_i h; cases h; exact absurd rfl hm
      · rename_i h; cases h; exact absurd rfl hp
      · simp only [← hds, parseDec_digits _ hd hne, natOfDigits_natDigits]
        simp; omega

end MesonModel.Eval
