/-
C01 — vocabulary shared by the generated operator tables and the operator model.
-/
import MesonModel.Eval.Value

namespace MesonModel.Eval

/-- `MesonOperator` -/
inductive Op where
  | plus | minus | times | div | mod | uminus | not_ | bool
  | equals | notEquals | greater | less | greaterEquals | lessEquals
  | in_ | notIn | index
  deriving DecidableEq, Repr, Inhabited

/-- the Python classes holders pass to `isinstance` -/
inductive PyTy where
  | int | bool | str | list | dict | object
  deriving DecidableEq, Repr, Inhabited

/-- how an operator entry checks its operand: `TRIVIAL_OPERATORS` with type `None` (unary),
`TRIVIAL_OPERATORS`/`typed_operator` with a class, or an `OPERATORS` entry without any check -/
inductive Acc where
  | unary
  | ty (t : PyTy)
  /-- a tuple of classes -/
  | tys (l : List PyTy)
  | untyped
  deriving DecidableEq, Repr, Inhabited

/-- what the decorators of a method check about its positional arguments: `noPosargs`,
`typed_pos_args(name, *req, optargs=opt)` or `typed_pos_args(name, varargs=t, min_varargs=min)` -/
inductive MSig where
  | noPos
  | pos (req opt : List PyTy)
  | var (t : PyTy) (min : Nat)
  deriving DecidableEq, Repr, Inhabited

/-- `isinstance(v, t)` — `bool` is a subclass of `int` in Python -/
def isInstance (v : Val) : PyTy → Bool
  | .object => true
  | .int => v.ty == .int || v.ty == .bool
  | .bool => v.ty == .bool
  | .str => v.ty == .str
  | .list => v.ty == .arr
  | .dict => v.ty == .dict

end MesonModel.Eval
