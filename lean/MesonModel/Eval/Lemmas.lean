/-
C01 — helper lemmas for the property theorems (core Lean only).
-/
import MesonModel.Eval.Model

namespace MesonModel.Eval

/-! ### integer division -/

theorem pyFloorDiv_pos (a b : Int) (hb : b > 0) :
    b * pyFloorDiv a b ≤ a ∧ a < b * pyFloorDiv a b + b := by
  unfold pyFloorDiv
  simp only [hb, ↓reduceIte]
  have h1 := Int.mul_ediv_add_emod a b
  have h2 := Int.emod_nonneg a (by omega : b ≠ 0)
  have h3 := Int.emod_lt_of_pos a hb
  constructor <;> omega

theorem pyFloorDiv_neg (a b : Int) (hb : b < 0) :
    a ≤ b * pyFloorDiv a b ∧ b * pyFloorDiv a b + b < a := by
  unfold pyFloorDiv
  have hnb : ¬ b > 0 := by omega
  simp only [hnb, ↓reduceIte]
  have h1 := Int.mul_ediv_add_emod (-a) (-b)
  have h2 := Int.emod_nonneg (-a) (by omega : -b ≠ 0)
  have h3 := Int.emod_lt_of_pos (-a) (by omega : -b > 0)
  have h4 : -b * (-a / -b) = -(b * (-a / -b)) := by rw [Int.neg_mul]
  constructor <;> omega

/-! ### code-point order on strings -/

theorem strLe_refl : ∀ a : Str, strLe a a = true
  | [] => rfl
  | c :: r => by simp [strLe, strLe_refl r]

theorem strLe_total : ∀ a b : Str, strLe a b = true ∨ strLe b a = true
  | [], _ => Or.inl (by simp [strLe])
  | _ :: _, [] => Or.inr (by simp [strLe])
  | a :: as, b :: bs => by
    simp only [strLe]
    by_cases h1 : a.toNat < b.toNat
    · simp [h1]
    · by_cases h2 : b.toNat < a.toNat
      · simp [h2]
      · simp [h1, h2]; exact strLe_total as bs

theorem strLe_trans : ∀ a b c : Str, strLe a b = true → strLe b c = true → strLe a c = true
  | [], _, _, _, _ => by simp [strLe]
  | _ :: _, [], _, h, _ => by simp [strLe] at h
  | _ :: _, _ :: _, [], _, h => by simp [strLe] at h
  | a :: as, b :: bs, c :: cs, h1, h2 => by
    simp only [strLe] at h1 h2 ⊢
    by_cases hab : a.toNat < b.toNat
    · by_cases hbc : b.toNat < c.toNat
      · have : a.toNat < c.toNat := by omega
        simp [this]
      · by_cases hcb : c.toNat < b.toNat
        · simp [hbc, hcb] at h2
        · have : a.toNat < c.toNat := by omega
          simp [this]
    · by_cases hba : b.toNat < a.toNat
      · simp [hab, hba] at h1
      · simp only [hab, hba, ↓reduceIte] at h1
        by_cases hbc : b.toNat < c.toNat
        · have : a.toNat < c.toNat := by omega
          simp [this]
        · by_cases hcb : c.toNat < b.toNat
          · simp [hbc, hcb] at h2
          · simp only [hbc, hcb, ↓reduceIte] at h2
            have e1 : ¬ a.toNat < c.toNat := by omega
            have e2 : ¬ c.toNat < a.toNat := by omega
            simp only [e1, e2, ↓reduceIte]
            exact strLe_trans as bs cs h1 h2

/-! ### `sorted()` -/

def Sorted (l : List Str) : Prop := l.Pairwise (fun a b => strLe a b = true)

theorem insertSorted_perm (x : Str) : ∀ l, (insertSorted x l).Perm (x :: l)
  | [] => by simp [insertSorted]
  | y :: r => by
    simp only [insertSorted]
    split
    · exact List.Perm.refl _
    · exact ((insertSorted_perm x r).cons y).trans (List.Perm.swap x y r)

theorem sortStrs_perm : ∀ l, (sortStrs l).Perm l
  | [] => by simp [sortStrs]
  | x :: r => by
    simp only [sortStrs]
    exact (insertSorted_perm x (sortStrs r)).trans ((sortStrs_perm r).cons x)

theorem insertSorted_sorted (x : Str) : ∀ l, Sorted l → Sorted (insertSorted x l)
  | [], _ => by simp [insertSorted, Sorted]
  | y :: r, h => by
    simp only [insertSorted]
    have hy : ∀ z ∈ r, strLe y z = true := (List.pairwise_cons.mp h).1
    have hr : Sorted r := (List.pairwise_cons.mp h).2
    split
    · rename_i hxy
      refine List.pairwise_cons.mpr ⟨?_, h⟩
      intro z hz
      rcases List.mem_cons.mp hz with rfl | hz
      · exact hxy
      · exact strLe_trans _ _ _ hxy (hy z hz)
    · rename_i hxy
      have hyx : strLe y x = true := by
        rcases strLe_total x y with h' | h'
        · exact absurd h' hxy
        · exact h'
      refine List.pairwise_cons.mpr ⟨?_, insertSorted_sorted x r hr⟩
      intro z hz
      have : z ∈ x :: r := (insertSorted_perm x r).mem_iff.mp hz
      rcases List.mem_cons.mp this with rfl | hz'
      · exact hyx
      · exact hy z hz'

theorem sortStrs_sorted : ∀ l, Sorted (sortStrs l)
  | [] => by simp [sortStrs, Sorted]
  | x :: r => by
    simp only [sortStrs]
    exact insertSorted_sorted x _ (sortStrs_sorted r)

/-! ### variable tables -/

theorem lookup_insert_ne {x y : Str} (v : Val) (h : x ≠ y) :
    ∀ d, lookup x (insert y v d) = lookup x d
  | [] => by simp [insert, lookup, h]
  | (k, w) :: r => by
    simp only [insert]
    split
    · rename_i hk; subst hk; simp [lookup, h]
    · simp only [lookup]
      split
      · rfl
      · exact lookup_insert_ne v h r

theorem lookup_insert_self (x : Str) (v : Val) : ∀ d, lookup x (insert x v d) = some v
  | [] => by simp [insert, lookup]
  | (k, w) :: r => by
    simp only [insert]
    split
    · simp [lookup]
    · rename_i hk
      simp only [lookup, hk, ↓reduceIte]
      exact lookup_insert_self x v r

theorem lookup_erase_ne {x y : Str} (h : x ≠ y) : ∀ d, lookup x (erase y d) = lookup x d
  | [] => by simp [erase]
  | (k, w) :: r => by
    simp only [erase]
    split
    · rename_i hk; subst hk; simp [lookup, h]
    · simp only [lookup]
      split
      · rfl
      · exact lookup_erase_ne h r

/-! ### indexing -/

theorem pyIndex_oob {α} (l : List α) (i : Int) (h : i < -(l.length : Int) ∨ i ≥ l.length) :
    pyIndex l i = none := by
  unfold pyIndex
  simp only [h, ↓reduceIte]

theorem pyIndex_nonneg {α} (l : List α) (n : Nat) (h : n < l.length) :
    pyIndex l (n : Int) = some l[n] := by
  unfold pyIndex
  have h1 : ¬ ((n : Int) < -(l.length : Int) ∨ (n : Int) ≥ l.length) := by omega
  have h2 : ¬ (n : Int) < 0 := by omega
  simp only [h1, h2, ↓reduceIte, Int.toNat_natCast]
  exact List.getElem?_eq_getElem h

theorem pyIndex_neg {α} (l : List α) (k : Nat) (h1 : 1 ≤ k) (h2 : k ≤ l.length) :
    pyIndex l (-(k : Int)) = pyIndex l ((l.length - k : Nat) : Int) := by
  have hlt : l.length - k < l.length := by omega
  rw [pyIndex_nonneg l (l.length - k) hlt]
  unfold pyIndex
  have c1 : ¬ (-(k : Int) < -(l.length : Int) ∨ -(k : Int) ≥ l.length) := by omega
  have c2 : -(k : Int) < 0 := by omega
  simp only [c1, c2, ↓reduceIte]
  have : (-(k : Int) + (l.length : Int)).toNat = l.length - k := by omega
  rw [this]
  exact List.getElem?_eq_getElem hlt

/-! ### strict typing as a decidable fact about the regenerated operator table -/

def instTy : Ty → PyTy → Bool
  | _, .object => true
  | t, .int => t == .int || t == .bool
  | t, .bool => t == .bool
  | t, .str => t == .str
  | t, .list => t == .arr
  | t, .dict => t == .dict

theorem isInstance_eq (v : Val) (t : PyTy) : isInstance v t = instTy v.ty t := by
  cases t <;> rfl

/-- by the table alone, `lt <op> rt` is rejected with a type error -/
def rejects (lt : Ty) (op : Op) (rt : Ty) : Bool :=
  match opEntry lt op with
  | none => true
  | some (.ty t) => !instTy rt t
  | some (.tys l) => !(l.any (instTy rt))
  | some .unary => false
  | some .untyped => (lt == .range || lt == .subproj) && (op == .equals || op == .notEquals) && rt != lt

theorem rejects_sound (l r : Val) (op : Op) (h : rejects l.ty op r.ty = true) :
    ∃ e, operatorCall l op (some r) = .error e ∧ e ≠ .unsupported := by
  unfold rejects at h
  unfold operatorCall
  split at h
  · rename_i he; rw [he]; exact ⟨.invalidCode, rfl, by decide⟩
  · rename_i t he
    rw [he]
    have : isInstance r t = false := by rw [isInstance_eq]; simpa using h
    simp only [this]
    exact ⟨.invalidArguments, rfl, by decide⟩
  · rename_i l he
    rw [he]
    have : (l.any (isInstance r)) = false := by
      have e : (fun t => isInstance r t) = (fun t => instTy r.ty t) := by funext t; exact isInstance_eq r t
      show (l.any (fun t => isInstance r t)) = false
      rw [e]; simpa using h
    simp only [this]
    exact ⟨.invalidArguments, rfl, by decide⟩
  · cases h
  · rename_i he
    rw [he]
    simp only [Bool.and_eq_true, beq_iff_eq, Bool.or_eq_true, bne_iff_ne, ne_eq] at h
    obtain ⟨⟨hl, hop⟩, hr⟩ := h
    cases l <;> simp [Val.ty] at hl <;>
      (cases r <;> simp [Val.ty] at hr <;>
        rcases hop with rfl | rfl <;> exact ⟨.invalidArguments, rfl, by decide⟩)

def allTy (p : Ty → Bool) : Bool :=
  p .int && p .bool && p .str && p .arr && p .dict && p .range && p .subproj

def allOp (p : Op → Bool) : Bool :=
  p .plus && p .minus && p .times && p .div && p .mod && p .uminus && p .not_ && p .bool && p .equals &&
  p .notEquals && p .greater && p .less && p .greaterEquals && p .lessEquals && p .in_ && p .notIn && p .index

theorem allTy_spec {p : Ty → Bool} (h : allTy p = true) (t : Ty) : p t = true := by
  simp only [allTy, Bool.and_eq_true] at h
  cases t <;> simp [h]

theorem allOp_spec {p : Op → Bool} (h : allOp p = true) (o : Op) : p o = true := by
  simp only [allOp, Bool.and_eq_true] at h
  cases o <;> simp [h]

/-- arithmetic and ordering/equality operators (the ones the reference types strictly) -/
def strictOp : Op → Bool
  | .plus | .minus | .times | .div | .mod | .equals | .notEquals | .greater | .less | .greaterEquals
  | .lessEquals => true
  | _ => false

/-- one cell of the strict-typing table: different operand types are rejected, except `array + x`
(documented append) and `int <op> bool` (the quirk) -/
def strictCase (lt : Ty) (op : Op) (rt : Ty) : Bool :=
  !(strictOp op && decide (lt ≠ rt) && !decide (lt = .arr ∧ op = .plus) && !decide (lt = .int ∧ rt = .bool)) ||
    rejects lt op rt

def strictTableOk : Bool := allTy fun lt => allOp fun op => allTy fun rt => strictCase lt op rt

theorem strictTable_spec (h : strictTableOk = true) (lt : Ty) (op : Op) (rt : Ty) :
    strictCase lt op rt = true :=
  allTy_spec (allOp_spec (allTy_spec h lt) op) rt

/-- the per-run obligation on the regenerated table -/
theorem strictTableOk_holds : strictTableOk = true := by decide

end MesonModel.Eval
