/-
C01 — values of the core language and the Python primitives the holders delegate to
(`==` of held objects, `str` methods, slicing, `int()` parsing, `stringifyUserArguments`).
Core Lean only.  Strings are `List Char`; dicts are association lists in insertion order.
-/
import MesonModel.Eval.Ast
import MesonModel.Py.Str

namespace MesonModel.Eval
open MesonModel.Py

/-- held objects: `int`, `bool`, `str`, `list`, `dict`, and the `RangeHolder` object -/
inductive Val where
  | int (i : Int)
  | bool (b : Bool)
  | str (s : Str)
  | arr (l : List Val)
  | dict (l : List (Str × Val))
  | range (start stop step : Int)
  /-- `SubprojectHolder`: the finished sub-interpreter's variable table -/
  | subproj (name : Str) (vars : List (Str × Val))
  deriving Repr, Inhabited

/-- the type a holder checks with `isinstance` / `type(..) is` -/
inductive Ty where
  | int | bool | str | arr | dict | range | subproj
  deriving DecidableEq, Repr, Inhabited

def Val.ty : Val → Ty
  | .int _ => .int | .bool _ => .bool | .str _ => .str | .arr _ => .arr | .dict _ => .dict
  | .range .. => .range
  | .subproj .. => .subproj

/-- the exceptions that can leave `evaluate_codeblock` (class only, never message text) -/
inductive ErrK where
  | invalidArguments       -- InvalidArguments
  | invalidCode            -- InvalidCode (incl. InvalidCodeOnVoid)
  | interpreterException   -- InterpreterException proper
  | mesonException         -- MesonException proper
  | pyTypeError            -- a Python TypeError escaping the interpreter
  | breakRequest           -- `break` outside a loop
  | subdirDoneRequest      -- `subdir_done()` reaching the top of `evaluate_codeblock`
  | continueRequest        -- `continue` outside a loop
  | unsupported            -- outside the modelled subset (never compared)
  deriving DecidableEq, Repr, Inhabited

/-! ### association lists -/

def lookup (k : Str) : List (Str × Val) → Option Val
  | [] => none
  | (k', v) :: r => if k = k' then some v else lookup k r

def hasKey (k : Str) (d : List (Str × Val)) : Bool := (lookup k d).isSome

/-- `d[k] = v` on a Python dict: keeps the position of an existing key, appends a new one -/
def insert (k : Str) (v : Val) : List (Str × Val) → List (Str × Val)
  | [] => [(k, v)]
  | (k', v') :: r => if k = k' then (k, v) :: r else (k', v') :: insert k v r

/-- `del d[k]` -/
def erase (k : Str) : List (Str × Val) → List (Str × Val)
  | [] => []
  | (k', v') :: r => if k = k' then r else (k', v') :: erase k r

/-- `{**a, **b}` -/
def merge (a b : List (Str × Val)) : List (Str × Val) :=
  b.foldl (fun acc kv => insert kv.1 kv.2 acc) a

/-! ### Python `==` on held objects (`True == 1`; dict equality ignores order) -/

mutual
def pyEq : Val → Val → Bool
  | .int a, .int b => a == b
  | .int a, .bool b => a == (if b then 1 else 0)
  | .bool a, .int b => (if a then 1 else 0) == b
  | .bool a, .bool b => a == b
  | .str a, .str b => a == b
  | .arr a, .arr b => pyEqL a b
  | .dict a, .dict b => a.length == b.length && pySub a b
  | _, _ => false
termination_by structural a => a
def pyEqL : List Val → List Val → Bool
  | [], [] => true
  | x :: xs, y :: ys => pyEq x y && pyEqL xs ys
  | _, _ => false
termination_by structural a => a
def pySub : List (Str × Val) → List (Str × Val) → Bool
  | [], _ => true
  | (k, v) :: r, b => (match lookup k b with | some v' => pyEq v v' | none => false) && pySub r b
termination_by structural a => a
end

/-- `x in list` -/
def pyElem (x : Val) (l : List Val) : Bool := l.any (fun e => pyEq e x)

/-! ### `flatten` (interpreterbase/helpers.py) and `array.flatten` / `array.contains` -/

mutual
def flattenV : Val → List Val
  | .arr l => flattenL l
  | v => [v]
termination_by structural v => v
def flattenL : List Val → List Val
  | [] => []
  | v :: r => flattenV v ++ flattenL r
termination_by structural l => l
end

mutual
/-- `check_contains` of `ArrayHolder.contains_method` -/
def containsDeep (x : Val) : List Val → Bool
  | [] => false
  | e :: r => containsIn x e || pyEq e x || containsDeep x r
termination_by structural l => l
def containsIn (x : Val) : Val → Bool
  | .arr l => containsDeep x l
  | _ => false
termination_by structural v => v
end

mutual
def hasRange : Val → Bool
  | .range .. => true
  | .subproj .. => true
  | .arr l => hasRangeL l
  | .dict d => hasRangeD d
  | _ => false
termination_by structural v => v
def hasRangeL : List Val → Bool
  | [] => false
  | v :: r => hasRange v || hasRangeL r
termination_by structural l => l
def hasRangeD : List (Str × Val) → Bool
  | [] => false
  | (_, v) :: r => hasRange v || hasRangeD r
termination_by structural l => l
end

/-! ### strings -/


def joinStr (sep : Str) : List Str → Str
  | [] => []
  | [x] => x
  | x :: r => x ++ sep ++ joinStr sep r

/-- substring test (`p in s`, `s.find(p) >= 0`) -/
def hasSub (p : Str) : Str → Bool
  | [] => p.isEmpty
  | c :: r => p.isPrefixOf (c :: r) || hasSub p r

def endsWith (s p : Str) : Bool := p.reverse.isPrefixOf s.reverse

/-- code-point lexicographic `<=` (Python `str.__le__`) -/
def strLe : Str → Str → Bool
  | [], _ => true
  | _ :: _, [] => false
  | a :: as, b :: bs => if a.toNat < b.toNat then true else if b.toNat < a.toNat then false else strLe as bs

def strLt (a b : Str) : Bool := strLe a b && !(a == b)

/-- `s.split(sep)` for non-empty `sep`; `skip` counts characters of a separator still to drop -/
def splitGo (sep : Str) : Str → Nat → Str → List Str
  | [], _, cur => [cur.reverse]
  | c :: r, skip + 1, cur => splitGo sep r skip cur
  | c :: r, 0, cur =>
    if sep.isPrefixOf (c :: r) then cur.reverse :: splitGo sep r (sep.length - 1) []
    else splitGo sep r 0 (c :: cur)

def splitOn (s sep : Str) : List Str := splitGo sep s 0 []

/-- `s.split()` : runs of whitespace separate, no empty fields -/
def splitWsGo : Str → Str → List Str
  | [], cur => if cur.isEmpty then [] else [cur.reverse]
  | c :: r, cur =>
    if isSpace c then (if cur.isEmpty then splitWsGo r [] else cur.reverse :: splitWsGo r [])
    else splitWsGo r (c :: cur)

def splitWs (s : Str) : List Str := splitWsGo s []

/-- `s.replace(old, new)` for non-empty `old` -/
def replaceGo (old new : Str) : Str → Nat → Str
  | [], _ => []
  | c :: r, skip + 1 => replaceGo old new r skip
  | c :: r, 0 =>
    if old.isPrefixOf (c :: r) then new ++ replaceGo old new r (old.length - 1)
    else c :: replaceGo old new r 0

/-- `s.replace(old, new)`; `old == ''` inserts `new` before every character and at the end -/
def replaceStr (s old new : Str) : Str :=
  if old.isEmpty then new ++ (s.map (fun c => c :: new)).flatten
  else replaceGo old new s 0

/-- `s.strip(chars)` with an explicit character set -/
def stripChars (s chars : Str) : Str :=
  ((s.dropWhile (fun c => chars.contains c)).reverse.dropWhile (fun c => chars.contains c)).reverse

def isLineBreak (c : Char) : Bool :=
  let n := c.toNat
  n == 10 || n == 11 || n == 12 || n == 13 || n == 28 || n == 29 || n == 30 || n == 0x85 || n == 0x2028 || n == 0x2029

/-- `s.splitlines()` -/
def splitLinesGo : Str → Str → List Str
  | [], cur => if cur.isEmpty then [] else [cur.reverse]
  | c :: r, cur =>
    if c.toNat == 13 then
      match r with
      | c2 :: r2 => if c2.toNat == 10 then cur.reverse :: splitLinesGo r2 [] else cur.reverse :: splitLinesGo (c2 :: r2) []
      | [] => [cur.reverse]
    else if isLineBreak c then cur.reverse :: splitLinesGo r []
    else splitLinesGo r (c :: cur)

def splitLines (s : Str) : List Str := splitLinesGo s []

def lowerC (c : Char) : Char := if 65 ≤ c.toNat && c.toNat ≤ 90 then Char.ofNat (c.toNat + 32) else c
def upperC (c : Char) : Char := if 97 ≤ c.toNat && c.toNat ≤ 122 then Char.ofNat (c.toNat - 32) else c

/-- `re.sub(r'[^a-zA-Z0-9]', '_', s)` -/
def underscorify (s : Str) : Str := s.map (fun c => if isAlnum c then c else '_')

/-- `os.path.join(a, b).replace('\\', '/')` (POSIX) -/
def pathJoin (a b : Str) : Str :=
  let j := if b.head? == some '/' then b
           else if a.isEmpty || a.getLast? == some '/' then a ++ b
           else a ++ ['/'] ++ b
  j.map (fun c => if c == '\\' then '/' else c)

/-! ### Python slicing -/

/-- `PySlice_AdjustIndices` for one bound -/
def adjustIdx (i : Int) (len : Int) (neg : Bool) : Int :=
  if i < 0 then
    let j := i + len
    if j < 0 then (if neg then -1 else 0) else j
  else if i ≥ len then (if neg then len - 1 else len) else i

def sliceIdxGo (step stop : Int) : Nat → Int → List Int
  | 0, _ => []
  | fuel + 1, i =>
    if (step > 0 && i < stop) || (step < 0 && i > stop) then i :: sliceIdxGo step stop fuel (i + step) else []

/-- the indices `range(*slice(start, stop, step).indices(len))`, `step ≠ 0` -/
def sliceIndices (start stop : Option Int) (step : Int) (len : Nat) : List Int :=
  let n : Int := len
  let neg := step < 0
  let st := match start with | some s => adjustIdx s n neg | none => if neg then n - 1 else 0
  let sp := match stop with | some s => adjustIdx s n neg | none => if neg then -1 else n
  sliceIdxGo step sp len st

def sliceList {α} (l : List α) (start stop : Option Int) (step : Int) : List α :=
  (sliceIndices start stop step l.length).filterMap (fun i => l[i.toNat]?)

/-- `seq[i]` with Python's negative indices; `none` is `IndexError` -/
def pyIndex {α} (l : List α) (i : Int) : Option α :=
  let n : Int := l.length
  if i < -n ∨ i ≥ n then none
  else if i < 0 then l[(i + n).toNat]? else l[i.toNat]?

/-! ### `int()` -/

def digitOf (base : Nat) (c : Char) : Option Nat :=
  let n := c.toNat
  let d := if 48 ≤ n && n ≤ 57 then some (n - 48)
           else if 97 ≤ n && n ≤ 122 then some (n - 87)
           else if 65 ≤ n && n ≤ 90 then some (n - 55) else none
  match d with
  | some v => if v < base then some v else none
  | none => none

/-- digits with single underscores between them (`prevDigit`: last consumed character was a digit) -/
def parseDigitsGo (base : Nat) : Str → Bool → Nat → Option Nat
  | [], prevDigit, acc => if prevDigit then some acc else none
  | c :: r, prevDigit, acc =>
    if c == '_' then (if prevDigit then parseDigitsGo base r false acc else none)
    else match digitOf base c with
      | some d => parseDigitsGo base r true (acc * base + d)
      | none => none

/-- unsigned body of `int(s)` : decimal digits, underscores allowed only between digits -/
def parseDec (s : Str) : Option Nat :=
  match s with
  | [] => none
  | c :: _ => if c == '_' then none else parseDigitsGo 10 s false 0

/-- unsigned body of `int(s, 0)` for the prefixed forms (an underscore may follow the prefix) -/
def parsePrefixed (s : Str) : Option Nat :=
  match s with
  | '0' :: p :: r =>
    let base := if p == 'x' || p == 'X' then 16 else if p == 'o' || p == 'O' then 8
                else if p == 'b' || p == 'B' then 2 else 0
    if base == 0 then none
    else match r with
      | '_' :: r' => parseDigitsGo base r' false 0
      | _ => parseDigitsGo base r false 0
  | _ => none

/-- `StringHolder.to_int_method`: `int(s.strip())`, then `int(s.strip(), 0)`; `none` is ValueError -/
def parseInt (s : Str) : Option Int :=
  let t := strip s
  let (neg, body) := match t with
    | '-' :: r => (true, r)
    | '+' :: r => (false, r)
    | _ => (false, t)
  let n := match parseDec body with
    | some n => some n
    | none => parsePrefixed body
  n.map (fun v => if neg then -(v : Int) else (v : Int))

/-! ### `int.to_string` -/

def digitChar (d : Nat) : Char := if d < 10 then Char.ofNat (48 + d) else Char.ofNat (87 + d)

def natDigitsGo (base : Nat) : Nat → Nat → Str → Str
  | 0, _, acc => acc
  | fuel + 1, n, acc =>
    if n < base then digitChar n :: acc
    else natDigitsGo base fuel (n / base) (digitChar (n % base) :: acc)

def natDigits (base n : Nat) : Str := natDigitsGo base (n + 1) n []

/-- `str(i)` -/
def intStr (i : Int) : Str := (if i < 0 then ['-'] else []) ++ natDigits 10 i.natAbs

/-- `'{:#0{fill}{format}}'.format(i, …)` : sign, `0x`/`0o`/`0b` prefix, zero padding to width `fill` -/
def intFormat (i : Int) (fill : Nat) (fmt : Str) : Str :=
  let (base, pre) : Nat × Str :=
    if fmt == cs!"hex" then (16, cs!"0x") else if fmt == cs!"oct" then (8, cs!"0o")
    else if fmt == cs!"bin" then (2, cs!"0b") else (10, [])
  let sign : Str := if i < 0 then ['-'] else []
  let ds := natDigits base i.natAbs
  let used := sign.length + pre.length + ds.length
  sign ++ pre ++ List.replicate (fill - used) '0' ++ ds

/-! ### `stringifyUserArguments` -/

mutual
/-- `none` = `InvalidArguments` (a value that is not str/int/bool/list/dict) -/
def stringify (quote : Bool) : Val → Option Str
  | .str s => some (if quote then ['\''] ++ s ++ ['\''] else s)
  | .bool b => some (if b then cs!"true" else cs!"false")
  | .int i => some (intStr i)
  | .arr l => (stringifyL l).map (fun xs => ['['] ++ joinStr [',', ' '] xs ++ [']'])
  | .dict d => (stringifyD d).map (fun xs => ['{'] ++ joinStr [',', ' '] xs ++ ['}'])
  | .range .. => none
  | .subproj .. => none
termination_by structural v => v
def stringifyL : List Val → Option (List Str)
  | [] => some []
  | v :: r => match stringify true v, stringifyL r with
    | some a, some b => some (a :: b)
    | _, _ => none
termination_by structural l => l
def stringifyD : List (Str × Val) → Option (List Str)
  | [] => some []
  | (k, v) :: r => match stringify true v, stringifyD r with
    | some a, some b => some ((['\''] ++ k ++ ['\'', ' ', ':', ' '] ++ a) :: b)
    | _, _ => none
termination_by structural l => l
end

/-! ### `@N@` / `@name@` template substitution (`re.sub` with a callback) -/

def isIdStart (c : Char) : Bool := isAlpha c || c == '_'
def isIdChar (c : Char) : Bool := isAlnum c || c == '_'

/-- after an `@`: the maximal run satisfying `p`, if non-empty and followed by `@` -/
def placeholder (p : Char → Bool) (r : Str) : Option Str :=
  let run := r.takeWhile p
  if run.isEmpty then none
  else if (r.drop run.length).head? == some '@' then some run else none

/-- `re.sub(r'@(\d+)@', f, s)`; `f` may fail (`none` = InvalidArguments "out of range") -/
def formatGo (args : List Str) : Str → Nat → Option Str
  | [], _ => some []
  | c :: r, skip + 1 => formatGo args r skip
  | c :: r, 0 =>
    if c == '@' then
      match placeholder isDigit r with
      | some ds =>
        match args[natOfDigits ds]? with
        | some a => (formatGo args r (ds.length + 1)).map (a ++ ·)
        | none => none
      | none => (formatGo args r 0).map (c :: ·)
    else (formatGo args r 0).map (c :: ·)

/-- one f-string placeholder: its name, or a literal character -/
inductive FPiece where
  | lit (c : Char)
  | var (name : Str)

/-- `re.sub(r'@([_a-zA-Z][_0-9a-zA-Z]*)@', …)` split into pieces -/
def fstringPieces : Str → Nat → List FPiece
  | [], _ => []
  | c :: r, skip + 1 => fstringPieces r skip
  | c :: r, 0 =>
    if c == '@' then
      match r with
      | c1 :: _ =>
        if isIdStart c1 then
          match placeholder isIdChar r with
          | some nm => .var nm :: fstringPieces r (nm.length + 1)
          | none => .lit c :: fstringPieces r 0
        else .lit c :: fstringPieces r 0
      | [] => [.lit c]
    else .lit c :: fstringPieces r 0

/-- `IDENT_RE.fullmatch` -/
def isIdent (s : Str) : Bool :=
  match s with
  | [] => false
  | c :: r => isIdStart c && r.all isIdChar

end MesonModel.Eval
