/-
C01 — `InterpreterObject.operator_call` for the six holder classes.
Dispatch follows the regenerated tables (`Generated/EvalTables.lean`): an operator missing from the
holder's tables is `InvalidCode`, an operand rejected by the `isinstance` check is `InvalidArguments`.
The operator bodies are the lambdas / `op_*` methods of `mesonbuild/interpreter/primitives/*.py`.
-/
import MesonModel.Eval.OpTypes
import MesonModel.Generated.EvalTables

namespace MesonModel.Eval
open MesonModel.Generated

def opEntryIn (t : Ty) (op : Op) : List (Ty × Op × Acc) → Option Acc
  | [] => none
  | (t', op', a) :: r => if t = t' ∧ op = op' then some a else opEntryIn t op r

def opEntry (t : Ty) (op : Op) : Option Acc := opEntryIn t op EvalTables.opTable

/-- an `int` operand as Python sees it (`True == 1`) -/
def asInt : Val → Option Int
  | .int i => some i
  | .bool b => some (if b then 1 else 0)
  | _ => none

/-- Python `//` on ints (`b ≠ 0`): floor of the quotient -/
def pyFloorDiv (a b : Int) : Int := if b > 0 then a / b else (-a) / (-b)

/-- Python `%` on ints (`b ≠ 0`): result has the sign of the divisor -/
def pyMod (a b : Int) : Int := a - b * pyFloorDiv a b

def rangeLen (start stop step : Int) : Nat := ((stop - start + step - 1) / step).toNat

/-- `list(range(start, stop, step))` for `step ≥ 1` -/
def rangeItems (start stop step : Int) : List Int :=
  (List.range (rangeLen start stop step)).map (fun (i : Nat) => start + (i : Int) * step)

def boolV (b : Bool) : Except ErrK Val := .ok (.bool b)

/-- bodies of the `IntegerHolder` operators; `x` is the right operand as an int -/
def intOp (a : Int) (op : Op) (x : Int) : Except ErrK Val :=
  match op with
  | .plus => .ok (.int (a + x))
  | .minus => .ok (.int (a - x))
  | .times => .ok (.int (a * x))
  | .div => if x = 0 then .error .invalidArguments else .ok (.int (pyFloorDiv a x))
  | .mod => if x = 0 then .error .invalidArguments else .ok (.int (pyMod a x))
  | .equals => boolV (a == x)
  | .notEquals => boolV (a != x)
  | .greater => boolV (decide (a > x))
  | .less => boolV (decide (a < x))
  | .greaterEquals => boolV (decide (a ≥ x))
  | .lessEquals => boolV (decide (a ≤ x))
  | _ => .error .unsupported

def strOp (a : Str) (op : Op) (o : Val) : Except ErrK Val :=
  match op, o with
  | .plus, .str b => .ok (.str (a ++ b))
  | .equals, .str b => boolV (a == b)
  | .notEquals, .str b => boolV (a != b)
  | .greater, .str b => boolV (strLt b a)
  | .less, .str b => boolV (strLt a b)
  | .greaterEquals, .str b => boolV (strLe b a)
  | .lessEquals, .str b => boolV (strLe a b)
  | .div, .str b => .ok (.str (pathJoin a b))
  | .in_, .str b => boolV (hasSub b a)
  | .notIn, .str b => boolV (!hasSub b a)
  | .index, o =>
    match asInt o with
    | some i => match pyIndex a i with
      | some c => .ok (.str [c])
      | none => .error .invalidArguments
    | none => .error .unsupported
  | _, _ => .error .unsupported

def arrOp (a : List Val) (op : Op) (o : Val) : Except ErrK Val :=
  match op, o with
  | .equals, .arr b => boolV (pyEqL a b)
  | .notEquals, .arr b => boolV (!pyEqL a b)
  | .in_, o => boolV (pyElem o a)
  | .notIn, o => boolV (!pyElem o a)
  | .plus, .arr b => .ok (.arr (a ++ b))
  | .plus, o => if hasRange o then .error .unsupported else .ok (.arr (a ++ [o]))
  | .index, o =>
    match asInt o with
    | some i => match pyIndex a i with
      | some v => .ok v
      | none => .error .invalidArguments
    | none => .error .unsupported
  | _, _ => .error .unsupported

def dictOp (a : List (Str × Val)) (op : Op) (o : Val) : Except ErrK Val :=
  match op, o with
  | .plus, .dict b => .ok (.dict (merge a b))
  | .equals, .dict b => boolV (pyEq (.dict a) (.dict b))
  | .notEquals, .dict b => boolV (!pyEq (.dict a) (.dict b))
  | .in_, .str k => boolV (hasKey k a)
  | .notIn, .str k => boolV (!hasKey k a)
  | .index, .str k => match lookup k a with
    | some v => .ok v
    | none => .error .invalidArguments
  | _, _ => .error .unsupported

/-- `RangeHolder`: `op_index` has no type check (a non-int index is a Python `TypeError`);
`==` is `InterpreterObject.op_equals` (object identity — not modelled) -/
def rangeOp (start stop step : Int) (op : Op) (o : Val) : Except ErrK Val :=
  match op with
  | .index =>
    match asInt o with
    | some i => match pyIndex (rangeItems start stop step) i with
      | some v => .ok (.int v)
      | none => .error .invalidArguments
    | none => .error .pyTypeError
  | .equals | .notEquals =>
    match o with
    | .range .. => .error .unsupported
    | _ => .error .invalidArguments
  | _ => .error .unsupported

/-- `SubprojectHolder`: only `InterpreterObject.op_equals` (object identity — not modelled) -/
def subprojOp (op : Op) (o : Val) : Except ErrK Val :=
  match op with
  | .equals | .notEquals =>
    match o with
    | .subproj .. => .error .unsupported
    | _ => .error .invalidArguments
  | _ => .error .unsupported

/-- the body run once the table checks have passed -/
def opBody (self : Val) (op : Op) (other : Option Val) : Except ErrK Val :=
  match self, other with
  | .int a, none => if op = .uminus then .ok (.int (-a)) else .error .unsupported
  | .int a, some o => match asInt o with
    | some x => intOp a op x
    | none => .error .unsupported
  | .bool b, none =>
    if op = .bool then .ok (.bool b) else if op = .not_ then .ok (.bool (!b)) else .error .unsupported
  | .bool a, some (.bool b) =>
    if op = .equals then boolV (a == b) else if op = .notEquals then boolV (a != b) else .error .unsupported
  | .str a, some o => strOp a op o
  | .arr a, some o => arrOp a op o
  | .dict a, some o => dictOp a op o
  | .range s e st, some o => rangeOp s e st op o
  | .subproj _ _, some o => subprojOp op o
  | _, _ => .error .unsupported

/-- `InterpreterObject.operator_call(operator, other)`; `other = none` for the unary operators -/
def operatorCall (self : Val) (op : Op) (other : Option Val) : Except ErrK Val :=
  match opEntry self.ty op with
  | none => .error .invalidCode
  | some .unary => match other with
    | none => opBody self op none
    | some _ => .error .unsupported        -- MesonBugException in the code
  | some (.ty t) => match other with
    | some o => if isInstance o t then opBody self op other else .error .invalidArguments
    | none => .error .unsupported
  | some (.tys l) => match other with
    | some o => if l.any (isInstance o) then opBody self op other else .error .invalidArguments
    | none => .error .unsupported
  | some .untyped => opBody self op other

def arithOp : ArithOp → Op
  | .add => .plus | .sub => .minus | .mul => .times | .div => .div | .mod => .mod

def cmpOpOf : CmpOp → Op
  | .eq => .equals | .ne => .notEquals | .lt => .less | .le => .lessEquals | .gt => .greater
  | .ge => .greaterEquals | .in_ => .in_ | .notin => .notIn

end MesonModel.Eval
