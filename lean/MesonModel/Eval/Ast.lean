/-
C01 — abstract syntax of the evaluated core language.

This is the tree `mparser.Parser(code).parse()` produces (one constructor per node class that
`InterpreterBase.evaluate_statement` dispatches on), with only the fields the evaluator reads:
`lineno` of the node (the interpreter reports `current_node.lineno` for errors), values, children.
String escapes are already decoded (the parser does it), f-strings keep their template text.
Statements and expressions are one type, as in mparser (`evaluate_statement` accepts every node).
-/
namespace MesonModel.Eval

abbrev Str := List Char

/-- `cs!"abc"` is the character list `['a', 'b', 'c']` (expanded at elaboration time, so that no
`String` operation remains in the model) -/
macro:max "cs!" s:str : term => do
  let elems := s.getString.toList.toArray.map Lean.Syntax.mkCharLit
  `([$elems,*])

/-- `ArithmeticNode.operation` -/
inductive ArithOp where
  | add | sub | mul | div | mod
  deriving DecidableEq, Repr, Inhabited

/-- `ComparisonNode.ctype` -/
inductive CmpOp where
  | eq | ne | lt | le | gt | ge | in_ | notin
  deriving DecidableEq, Repr, Inhabited

inductive Node where
  /-- `StringNode`, not an f-string (`'…'` with escapes decoded, or `'''…'''` raw) -/
  | str (ln : Nat) (v : Str)
  /-- `StringNode` with `is_fstring` -/
  | fstr (ln : Nat) (v : Str)
  | bool (ln : Nat) (b : Bool)
  | num (ln : Nat) (n : Int)
  | id (ln : Nat) (name : Str)
  /-- `ArrayNode`: positional arguments, keyword arguments (`[a: 1]` parses), `order_error` flag -/
  | arr (ln : Nat) (pos : List Node) (kw : List (Node × Node)) (orderErr : Bool)
  /-- `DictNode`: key/value nodes in source order -/
  | dict (ln : Nat) (kw : List (Node × Node))
  | and_ (ln : Nat) (l r : Node)
  | or_ (ln : Nat) (l r : Node)
  | not_ (ln : Nat) (v : Node)
  | uminus (ln : Nat) (v : Node)
  | arith (ln : Nat) (op : ArithOp) (l r : Node)
  | cmp (ln : Nat) (op : CmpOp) (l r : Node)
  | index (ln : Nat) (obj idx : Node)
  | tern (ln : Nat) (c t f : Node)
  | paren (ln : Nat) (inner : Node)
  | assign (ln : Nat) (name : Str) (v : Node)
  | plusassign (ln : Nat) (name : Str) (v : Node)
  /-- `FunctionNode` -/
  | call (ln : Nat) (fn : Str) (pos : List Node) (kw : List (Node × Node)) (orderErr : Bool)
  /-- `MethodNode` -/
  | method (ln : Nat) (obj : Node) (name : Str) (pos : List Node) (kw : List (Node × Node)) (orderErr : Bool)
  /-- `IfClauseNode`: the `if`/`elif` arms (condition, block) and the `else` block if present -/
  | ifc (ln : Nat) (ifs : List (Node × List Node)) (hasElse : Bool) (els : List Node)
  /-- `ForeachClauseNode` -/
  | foreach (ln : Nat) (vars : List Str) (items : Node) (block : List Node)
  | cont (ln : Nat)
  | brk (ln : Nat)
  /-- any node `evaluate_statement` has no case for (`EmptyNode`, …): "Unknown statement." -/
  | unknown (ln : Nat)
  deriving Repr, Inhabited

/-- `node.lineno` -/
def Node.line : Node → Nat
  | .str ln _ | .fstr ln _ | .bool ln _ | .num ln _ | .id ln _ | .arr ln _ _ _ | .dict ln _
  | .and_ ln _ _ | .or_ ln _ _ | .not_ ln _ | .uminus ln _ | .arith ln _ _ _ | .cmp ln _ _ _
  | .index ln _ _ | .tern ln _ _ _ | .paren ln _ | .assign ln _ _ | .plusassign ln _ _
  | .call ln _ _ _ _ | .method ln _ _ _ _ _ | .ifc ln _ _ _ | .foreach ln _ _ _ | .cont ln | .brk ln
  | .unknown ln => ln

end MesonModel.Eval
