/-
C01 — `InterpreterObject.method_call` for the primitive holders: the `METHODS` tables are the
regenerated ones, the bodies follow `mesonbuild/interpreter/primitives/*.py` with their decorators
(`noKwargs`, `noPosargs`, `typed_pos_args`, `typed_kwargs`, argument flattening).
-/
import MesonModel.Eval.Ops
import MesonModel.Version.Model

namespace MesonModel.Eval
open MesonModel.Generated MesonModel.Py

abbrev M := Except ErrK

def methodsOf (t : Ty) : List Str :=
  match EvalTables.methodTable.find? (fun e => e.1 = t) with
  | some e => e.2
  | none => []

def noKw (kw : List (Str × Val)) : M Unit := if kw.isEmpty then .ok () else .error .invalidArguments
def noPos (args : List Val) : M Unit := if args.isEmpty then .ok () else .error .invalidArguments

def allInst : List Val → List PyTy → Bool
  | [], _ => true
  | _ :: _, [] => false
  | v :: vs, t :: ts => isInstance v t && allInst vs ts

/-- `typed_pos_args(name, *req, optargs=opt)` -/
def typedPos (req opt : List PyTy) (args : List Val) : M Unit :=
  if args.length < req.length then .error .invalidArguments
  else if args.length > req.length + opt.length then .error .invalidArguments
  else if allInst args (req ++ opt) then .ok () else .error .invalidArguments

/-- `typed_pos_args(name, varargs=t, min_varargs=n)` -/
def typedVar (t : PyTy) (min : Nat) (args : List Val) : M Unit :=
  if args.length < min then .error .invalidArguments
  else if args.all (fun v => isInstance v t) then .ok () else .error .invalidArguments

def sigOf (t : Ty) (name : Str) : Option MSig :=
  match EvalTables.methodSigs.find? (fun e => e.1 = t ∧ e.2.1 = name) with
  | some e => some e.2.2
  | none => none

/-- the positional-argument check of method `name` of holder `t`, as the REGENERATED signature
table prescribes it -/
def argCheck (t : Ty) (name : Str) (args : List Val) : M Unit :=
  match sigOf t name with
  | some .noPos => noPos args
  | some (.pos req opt) => typedPos req opt args
  | some (.var ty min) => typedVar ty min args
  | none => .error .unsupported

def strArgs (args : List Val) : List Str := args.filterMap (fun v => match v with | .str s => some s | _ => none)

/-- insertion sort by code points (`sorted(list_of_str)`) -/
def insertSorted (x : Str) : List Str → List Str
  | [] => [x]
  | y :: r => if strLe x y then x :: y :: r else y :: insertSorted x r

def sortStrs : List Str → List Str
  | [] => []
  | x :: r => insertSorted x (sortStrs r)

/-- `DictHolder._keys_getter` : `sorted(self.held_object)` -/
def dictKeysSorted (d : List (Str × Val)) : List Str := sortStrs (d.map (·.1))

/-- `stringifyUserArguments(arg)` (unquoted at top level) for every argument -/
def stringifyArgs : List Val → Option (List Str)
  | [] => some []
  | v :: r => match stringify false v, stringifyArgs r with
    | some a, some b => some (a :: b)
    | _, _ => none

def strMethod (s : Str) (name : Str) (raw : List Val) (kw : List (Str × Val)) : M Val :=
  let args := flattenL raw
  if name = cs!"contains" then do
    noKw kw; argCheck .str cs!"contains" args
    match args with | [.str p] => pure (.bool (hasSub p s)) | _ => throw .unsupported
  else if name = cs!"startswith" then do
    noKw kw; argCheck .str cs!"startswith" args
    match args with | [.str p] => pure (.bool (p.isPrefixOf s)) | _ => throw .unsupported
  else if name = cs!"endswith" then do
    noKw kw; argCheck .str cs!"endswith" args
    match args with | [.str p] => pure (.bool (endsWith s p)) | _ => throw .unsupported
  else if name = cs!"format" then do
    noKw kw                                   -- noArgsFlattening: the raw arguments
    match stringifyArgs raw with
    | none => throw .unsupported              -- FeatureBroken path prints `str(object)`
    | some strs => match formatGo strs s 0 with
      | some r => pure (.str r)
      | none => throw .invalidArguments
  else if name = cs!"splitlines" then do
    noKw kw; argCheck .str cs!"splitlines" args; pure (.arr ((splitLines s).map .str))
  else if name = cs!"join" then do
    noKw kw; argCheck .str cs!"join" args; pure (.str (joinStr s (strArgs args)))
  else if name = cs!"replace" then do
    noKw kw; argCheck .str cs!"replace" args
    match args with | [.str a, .str b] => pure (.str (replaceStr s a b)) | _ => throw .unsupported
  else if name = cs!"split" then do
    noKw kw; argCheck .str cs!"split" args
    match args with
    | [] => pure (.arr ((splitWs s).map .str))
    | [.str d] => if d.isEmpty then throw .invalidArguments else pure (.arr ((splitOn s d).map .str))
    | _ => throw .unsupported
  else if name = cs!"strip" then do
    noKw kw; argCheck .str cs!"strip" args
    match args with
    | [] => pure (.str (strip s))
    | [.str c] => pure (.str (stripChars s c))
    | _ => throw .unsupported
  else if name = cs!"substring" then do
    noKw kw; argCheck .str cs!"substring" args
    match args.map asInt with
    | [] => pure (.str s)
    | [some a] => pure (.str (sliceList s (some a) none 1))
    | [some a, some b] => pure (.str (sliceList s (some a) (some b) 1))
    | _ => throw .unsupported
  else if name = cs!"to_int" then do
    noKw kw; argCheck .str cs!"to_int" args
    match parseInt s with | some i => pure (.int i) | none => throw .invalidArguments
  else if name = cs!"to_lower" then do
    noKw kw; argCheck .str cs!"to_lower" args; pure (.str (s.map lowerC))
  else if name = cs!"to_upper" then do
    noKw kw; argCheck .str cs!"to_upper" args; pure (.str (s.map upperC))
  else if name = cs!"underscorify" then do
    noKw kw; argCheck .str cs!"underscorify" args; pure (.str (underscorify s))
  else if name = cs!"version_compare" then do
    noKw kw; argCheck .str cs!"version_compare" args
    pure (.bool (MesonModel.Version.versionCompareMany s (strArgs args)).1)
  else throw .unsupported

def kwInt (kw : List (Str × Val)) (k : Str) (dflt : Int) : M Int :=
  match lookup k kw with
  | none => pure dflt
  | some v => match asInt v with
    | some i => pure i
    | none => throw .invalidArguments

def arrMethod (l : List Val) (name : Str) (raw : List Val) (kw : List (Str × Val)) : M Val :=
  if name = cs!"contains" then do
    noKw kw; argCheck .arr cs!"contains" raw
    match raw with | [x] => pure (.bool (containsDeep x l)) | _ => throw .unsupported
  else if name = cs!"length" then do
    noKw kw; argCheck .arr cs!"length" (flattenL raw); pure (.int l.length)
  else if name = cs!"get" then do
    noKw kw; argCheck .arr cs!"get" raw
    match raw with
    | [i] => match asInt i with
      | some i => match pyIndex l i with
        | some v => pure v
        | none => throw .invalidArguments
      | none => throw .unsupported
    | [i, d] => match asInt i with
      | some i => match pyIndex l i with
        | some v => pure v
        | none => pure d
      | none => throw .unsupported
    | _ => throw .unsupported
  else if name = cs!"slice" then do
    let args := flattenL raw
    if kw.any (fun e => e.1 != cs!"step") then throw .invalidArguments
    let step ← kwInt kw cs!"step" 1
    argCheck .arr cs!"slice" args
    match args.map asInt with
    | [] => if step = 0 then throw .invalidArguments else pure (.arr (sliceList l none none step))
    | [some _] => throw .invalidArguments
    | [some a, some b] =>
      if step = 0 then throw .invalidArguments else pure (.arr (sliceList l (some a) (some b) step))
    | _ => throw .unsupported
  else if name = cs!"flatten" then do
    argCheck .arr cs!"flatten" (flattenL raw); noKw kw; pure (.arr (flattenL l))
  else throw .unsupported

def dictMethod (d : List (Str × Val)) (name : Str) (raw : List Val) (kw : List (Str × Val)) : M Val :=
  if name = cs!"has_key" then do
    noKw kw; argCheck .dict cs!"has_key" (flattenL raw)
    match flattenL raw with | [.str k] => pure (.bool (hasKey k d)) | _ => throw .unsupported
  else if name = cs!"keys" then do
    noKw kw; argCheck .dict cs!"keys" (flattenL raw); pure (.arr ((dictKeysSorted d).map .str))
  else if name = cs!"values" then do
    noKw kw; argCheck .dict cs!"values" (flattenL raw)
    pure (.arr ((dictKeysSorted d).filterMap (fun k => lookup k d)))
  else if name = cs!"get" then do
    noKw kw; argCheck .dict cs!"get" raw
    match raw with
    | [.str k] => match lookup k d with
      | some v => pure v
      | none => throw .invalidArguments
    | [.str k, dflt] => match lookup k d with
      | some v => pure v
      | none => pure dflt
    | _ => throw .unsupported
  else throw .unsupported

def intMethod (i : Int) (name : Str) (raw : List Val) (kw : List (Str × Val)) : M Val :=
  let args := flattenL raw
  if name = cs!"is_even" then do
    noKw kw; argCheck .int cs!"is_even" args; pure (.bool (pyMod i 2 == 0))
  else if name = cs!"is_odd" then do
    noKw kw; argCheck .int cs!"is_odd" args; pure (.bool (pyMod i 2 != 0))
  else if name = cs!"to_string" then do
    if kw.any (fun e => e.1 != cs!"fill" && e.1 != cs!"format") then throw .invalidArguments
    let fill ← match lookup cs!"fill" kw with
      | none => pure (0 : Int)
      | some (.int f) => pure f
      | some (.bool _) => throw .unsupported      -- `format(True)` inside the format spec: ValueError
      | some _ => throw .invalidArguments
    let fmt ← match lookup cs!"format" kw with
      | none => pure cs!"dec"
      | some (.str f) =>
        if f == cs!"dec" || f == cs!"hex" || f == cs!"oct" || f == cs!"bin" then pure f
        else throw .invalidArguments
      | some _ => throw .invalidArguments
    argCheck .int cs!"to_string" args
    pure (.str (intFormat i fill.toNat fmt))
  else throw .unsupported

def boolMethod (b : Bool) (name : Str) (raw : List Val) (kw : List (Str × Val)) : M Val :=
  let args := flattenL raw
  if name = cs!"to_int" then do
    noKw kw; argCheck .bool cs!"to_int" args; pure (.int (if b then 1 else 0))
  else if name = cs!"to_string" then do
    noKw kw; argCheck .bool cs!"to_string" args
    match args with
    | [] => pure (.str (if b then cs!"true" else cs!"false"))
    | [.str t, .str f] => pure (.str (if b then t else f))   -- the given strings, even when empty
    | [_] => throw .invalidArguments
    | _ => throw .unsupported
  else throw .unsupported

/-- `SubprojectHolder.get_variable_method` / `found_method` (an enabled subproject) -/
def subprojMethod (vars : List (Str × Val)) (name : Str) (raw : List Val) (kw : List (Str × Val)) : M Val :=
  if name = cs!"get_variable" then do
    noKw kw; argCheck .subproj cs!"get_variable" raw
    match raw with
    | [.str k] => match lookup k vars with
      | some v => pure v
      | none => throw .invalidArguments
    | [.str k, dflt] => match lookup k vars with
      | some v => pure v
      | none => pure dflt
    | _ => throw .unsupported
  else if name = cs!"found" then do
    argCheck .subproj cs!"found" (flattenL raw); noKw kw; pure (.bool true)
  else throw .unsupported

/-- `obj.method_call(name, args, kwargs)` on a holder -/
def methodCall (self : Val) (name : Str) (args : List Val) (kw : List (Str × Val)) : M Val :=
  if !(methodsOf self.ty).contains name then .error .invalidCode
  else match self with
    | .str s => strMethod s name args kw
    | .arr l => arrMethod l name args kw
    | .dict d => dictMethod d name args kw
    | .int i => intMethod i name args kw
    | .bool b => boolMethod b name args kw
    | .range .. => .error .unsupported
    | .subproj _ vars => subprojMethod vars name args kw

end MesonModel.Eval
