import MesonModel.Options.WfLemmas
/- every operation of the model preserves `Wf` -/
namespace MesonModel.Options
open M

macro "pw_core" : tactic => `(tactic| first
  | exact PresW.pure' _ | exact PresW.pure _ | exact PresW.fail _ | exact PresW.get | exact PresW.ofExcept _
  | exact PresW.assert _ | exact PresW.getObj _ | exact PresW.objSetValue _ _ | exact PresW.objSetYielding _ _
  | (apply PresW.modify; intro s hs; exact hs)
  | assumption
  | (with_reducible apply PresW.allocInsert; intro id s; exact ⟨rfl, rfl⟩)
  | with_reducible apply PresW.bind | with_reducible apply PresW.bind' | with_reducible apply PresW.forEach
  | with_reducible apply PresW.catchMeson
  | intro _
  | split
  | (dsimp only))

theorem PresW.resetPrefixedOptions (a b : Str) : PresW (resetPrefixedOptions a b) := by
  unfold MesonModel.Options.resetPrefixedOptions; repeat pw_core
theorem PresW.setOptionTail (s : Store) (k : Key) (f : Bool) (id : Nat) (v : Val) : PresW (setOptionTail s k f id v) := by
  unfold MesonModel.Options.setOptionTail; repeat (first | exact PresW.resetPrefixedOptions _ _ | pw_core)
theorem PresW.setOptionCore (k : Key) (v : Val) (f : Bool) : PresW (setOptionCore k v f) := by
  unfold MesonModel.Options.setOptionCore; repeat (first | exact PresW.setOptionTail _ _ _ _ _ | pw_core)
theorem PresW.setOption (k : Key) (v : Val) (f : Bool) : PresW (setOption k v f) := by
  unfold MesonModel.Options.setOption; repeat (first | exact PresW.setOptionCore _ _ _ | pw_core)
theorem PresW.setUserOption (k : Key) (v : Val) (f : Bool) : PresW (setUserOption k v f) := by
  unfold MesonModel.Options.setUserOption; repeat (first | exact PresW.setOption _ _ _ | pw_core)
theorem PresW.addSystemHere (k : Key) (o : Obj) : PresW (addSystemHere k o) := by
  unfold MesonModel.Options.addSystemHere; repeat (first | exact PresW.setOption _ _ _ | pw_core)
theorem PresW.addSystemInternal (k : Key) (o : Obj) : PresW (addSystemInternal k o) := by
  unfold MesonModel.Options.addSystemInternal
  repeat (first | exact PresW.setOption _ _ _ | exact PresW.addSystemHere _ _ | pw_core)
theorem PresW.addSystemOption (k : Key) (o : Obj) : PresW (addSystemOption k o) := by
  unfold MesonModel.Options.addSystemOption; repeat (first | exact PresW.addSystemInternal _ _ | pw_core)
theorem PresW.addModuleOption (m : Str) (k : Key) (o : Obj) : PresW (addModuleOption m k o) := by
  unfold MesonModel.Options.addModuleOption; repeat (first | exact PresW.addSystemInternal _ _ | pw_core)
theorem PresW.addProjectOption (k : Key) (o : Obj) : PresW (addProjectOption k o) := by
  unfold MesonModel.Options.addProjectOption; repeat pw_core
theorem PresW.addBuiltinOption (k : Key) (row : Str × Kind × Val × Bool) : PresW (addBuiltinOption k row) := by
  unfold MesonModel.Options.addBuiltinOption
  repeat (first | exact PresW.addModuleOption _ _ _ | exact PresW.addSystemOption _ _ | pw_core)
theorem PresW.initBuiltins : PresW initBuiltins := by
  unfold MesonModel.Options.initBuiltins; repeat (first | exact PresW.addBuiltinOption _ _ | pw_core)
theorem PresW.hardResetFromPrefix (p : Str) : PresW (hardResetFromPrefix p) := by
  unfold MesonModel.Options.hardResetFromPrefix; repeat pw_core
theorem PresW.firstHandlePrefix (a b c : Dict) : PresW (firstHandlePrefix a b c) := by
  unfold MesonModel.Options.firstHandlePrefix; repeat (first | exact PresW.hardResetFromPrefix _ | pw_core)
theorem PresW.initTop (a b c : Dict) : PresW (initTop a b c) := by
  unfold MesonModel.Options.initTop
  repeat (first | exact PresW.firstHandlePrefix _ _ _ | exact PresW.setUserOption _ _ _ | pw_core)
theorem PresW.applyMergedWith (ex : Dict) (sub : Str) (d : Dict) : PresW (applyMergedWith ex sub d) := by
  unfold MesonModel.Options.applyMergedWith; repeat (first | exact PresW.setUserOption _ _ _ | pw_core)
theorem PresW.applyMerged (sub : Str) (d : Dict) : PresW (applyMerged sub d) :=
  ⟨fun s h => (PresW.applyMergedWith s.augments sub (buildtypeFirst d)).run s h⟩
theorem PresW.initSub (sub : Str) (a b c d : Dict) : PresW (initSub sub a b c d) := by
  unfold MesonModel.Options.initSub; repeat (first | exact PresW.applyMerged _ _ | pw_core)
theorem PresW.configureOne (kv : Key × Option Val) : PresW (configureOne kv) := by
  unfold MesonModel.Options.configureOne; repeat (first | exact PresW.setUserOption _ _ _ | pw_core)
theorem PresW.setFromConfigure : ∀ (l : List (Key × Option Val)) (d : Bool), PresW (setFromConfigure l d)
  | [], d => PresW.pure' d
  | kv :: r, d => by
    unfold MesonModel.Options.setFromConfigure
    exact PresW.bind' (PresW.configureOne kv) (fun b => PresW.setFromConfigure r (d || b))
/-- re-pointing children keeps the heap length and the key table -/
theorem PresW.repointChildren (oid nid : Nat) : PresW (repointChildren oid nid) := by
  unfold MesonModel.Options.repointChildren
  apply PresW.modify
  intro s hs
  split
  · exact hs
  · exact ⟨fun k i hk => by simpa using hs.1 k i hk, fun k1 k2 i h1 h2 => hs.2 k1 k2 i h1 h2⟩

theorem PresW.replaceObj (key : Key) (nobj old : Obj) (oid : Nat) (b : Bool) : PresW (replaceObj key nobj old oid b) := by
  unfold MesonModel.Options.replaceObj
  repeat (first | exact PresW.repointChildren _ _ | pw_core)

theorem PresW.updateOne (sub : Str) (kv : Key × Obj) : PresW (updateOne sub kv) := by
  unfold MesonModel.Options.updateOne
  repeat (first | exact PresW.setOption _ _ _ | exact PresW.addProjectOption _ _ | exact PresW.replaceObj _ _ _ _ _ | pw_core)
theorem PresW.unlinkChildren (ids : List Nat) : PresW (unlinkChildren ids) := by
  unfold MesonModel.Options.unlinkChildren
  apply PresW.modify
  intro s hs
  exact ⟨fun k i hk => by simpa using hs.1 k i hk, fun k1 k2 i h1 h2 => hs.2 k1 k2 i h1 h2⟩

theorem PresW.updateProjectOptions (sub : Str) (objs : List (Key × Obj)) : PresW (updateProjectOptions sub objs) := by
  unfold MesonModel.Options.updateProjectOptions
  apply PresW.bind (PresW.forEach (PresW.updateOne sub) objs)
  intro _
  apply PresW.bind PresW.get
  intro s0
  apply PresW.bind
  · apply PresW.modify
    intro s hs
    dsimp only
    exact wf_filter (fun k => !((!objs.any fun p => p.fst == k) && s0.isProjectOption k && k.sub == some sub)) _ hs
  · intro _; exact PresW.unlinkChildren _

/-- every API call keeps the object table well formed -/
theorem PresW.applyOp (op : Op) : PresW (applyOp op) := by
  cases op <;> unfold MesonModel.Options.applyOp <;>
    repeat (first
      | exact PresW.addSystemOption _ _ | exact PresW.addProjectOption _ _ | exact PresW.initBuiltins
      | exact PresW.setOption _ _ _ | exact PresW.setUserOption _ _ _ | exact PresW.initTop _ _ _
      | exact PresW.initSub _ _ _ _ _ | exact PresW.setFromConfigure _ _ | exact PresW.updateProjectOptions _ _
      | pw_core)

theorem wf_new (c : Bool) : Wf (Store.new c) :=
  ⟨fun k i h => by simp [Store.new, alookup] at h, fun k1 k2 i h _ => by simp [Store.new, alookup] at h⟩

/-- the object table of every reachable store is well formed -/
theorem wf_run (ops : List Op) (s : Store) (h : Wf s) : Wf (run s ops) := by
  induction ops generalizing s with
  | nil => exact h
  | cons op r ih => exact ih _ ((PresW.applyOp op).run s h)

end MesonModel.Options
