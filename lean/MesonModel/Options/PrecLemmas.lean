import MesonModel.Options.MergeLemmas
import MesonModel.Options.ValidateLemmas
/-
What `set_user_option` does to an option that exists, and what it leaves alone (frame), as equations on the
store.  Used for the precedence theorems that run through the whole state machine.
-/
namespace MesonModel.Options
open M

theorem ensureKey_host (s : Store) (k : Key) (h : k.machine = .host) : ensureKey s k = k := by
  obtain ⟨n, sb, m⟩ := k
  simp at h; subst h
  unfold ensureKey Key.asHost
  split <;> rfl

@[simp] theorem updObj_options (s : Store) (id : Nat) (f : Obj → Obj) : (s.updObj id f).options = s.options := by
  unfold Store.updObj; split <;> rfl
@[simp] theorem updObj_projectOptions (s : Store) (id : Nat) (f : Obj → Obj) :
    (s.updObj id f).projectOptions = s.projectOptions := by
  unfold Store.updObj; split <;> rfl
@[simp] theorem updObj_moduleOptions (s : Store) (id : Nat) (f : Obj → Obj) :
    (s.updObj id f).moduleOptions = s.moduleOptions := by
  unfold Store.updObj; split <;> rfl
@[simp] theorem updObj_isCross (s : Store) (id : Nat) (f : Obj → Obj) : (s.updObj id f).isCross = s.isCross := by
  unfold Store.updObj; split <;> rfl
@[simp] theorem updObj_augments (s : Store) (id : Nat) (f : Obj → Obj) : (s.updObj id f).augments = s.augments := by
  unfold Store.updObj; split <;> rfl
@[simp] theorem updObj_pending (s : Store) (id : Nat) (f : Obj → Obj) : (s.updObj id f).pending = s.pending := by
  unfold Store.updObj; split <;> rfl
@[simp] theorem updObj_pendingSub (s : Store) (id : Nat) (f : Obj → Obj) : (s.updObj id f).pendingSub = s.pendingSub := by
  unfold Store.updObj; split <;> rfl
@[simp] theorem updObj_subprojects (s : Store) (id : Nat) (f : Obj → Obj) :
    (s.updObj id f).subprojects = s.subprojects := by
  unfold Store.updObj; split <;> rfl

theorem updObj_heap_same (s : Store) (id : Nat) (f : Obj → Obj) (o : Obj) (h : s.heap[id]? = some o) :
    (s.updObj id f).heap[id]? = some (f o) := by
  unfold Store.updObj; simp [h]
  have := List.getElem?_eq_some_iff.mp h
  obtain ⟨hl, _⟩ := this
  simp [hl]

theorem updObj_heap_other (s : Store) (id id' : Nat) (f : Obj → Obj) (h : id ≠ id') :
    (s.updObj id f).heap[id']? = s.heap[id']? := by
  unfold Store.updObj
  split
  · simp [List.getElem?_set, h]
  · rfl

/-- **set-get**: `set_user_option(k, v, first_invocation=True)` on an existing, non-special option whose class
accepts `v` as `w`: returns `changed`, stores `w`, clears `yielding`, touches nothing else -/
theorem setUserOption_existing (s : Store) (k : Key) (v w : Val) (id : Nat) (o : Obj)
    (hm : k.machine = .host)
    (hn : (k.name == sPrefix) = false) (hbt : (k.name == sBuildtype) = false) (hb : s.isBuiltin k = false)
    (hk : alookup k s.options = some id) (ho : s.heap[id]? = some o) (hv : validate o.kind v = .ok w) :
    setUserOption k v true s =
      (.ok (o.value != w || o.yielding),
       (s.updObj id (fun o => { o with value := w })).updObj id (fun o => { o with yielding := false })) := by
  have hfb : k.isForBuild = false := by simp [Key.isForBuild, hm]
  have hah : ahas k s.options = true := by simp [ahas, hk]
  have hres : resolveId s k = .ok id := by simp [resolveId, ensureKey_host s k hm, hk]
  have hw : validate o.kind w = .ok w := validate_idempotent hv
  simp [setUserOption, setOption, setOptionCore, setOptionTail, sanitizeForSet, resolveForSet, Bind.bind, M.bind, M.get, hfb, hah, hn, hbt, hb, hres, M.pure,
    getObj, ho, hv, hw, M.ofExcept, objSetValue, objSetYielding, M.modify]


/-! ## frame: what a call addressing a *different* option name leaves alone -/

/-- what `get_value_for k` (object `id`) depends on is the same in `s` and `s'` -/
def SameObs (k : Key) (id : Nat) (s s' : Store) : Prop :=
  s'.isCross = s.isCross ∧ s'.options = s.options ∧ s'.projectOptions = s.projectOptions ∧
  s'.moduleOptions = s.moduleOptions ∧ s'.heap[id]? = s.heap[id]? ∧ alookup k s'.augments = alookup k s.augments

theorem SameObs.refl (k : Key) (id : Nat) (s : Store) : SameObs k id s s := ⟨rfl, rfl, rfl, rfl, rfl, rfl⟩

theorem SameObs.trans {k : Key} {id : Nat} {a b c : Store} (h1 : SameObs k id a b) (h2 : SameObs k id b c) :
    SameObs k id a c := by
  obtain ⟨a1, a2, a3, a4, a5, a6⟩ := h1
  obtain ⟨b1, b2, b3, b4, b5, b6⟩ := h2
  exact ⟨b1.trans a1, b2.trans a2, b3.trans a3, b4.trans a4, b5.trans a5, b6.trans a6⟩

/-- no option of another name shares the object `id` (a consequence of: every key has its own object) -/
def OwnObject (n : Str) (id : Nat) (s : Store) : Prop :=
  ∀ key id', alookup key s.options = some id' → key.name ≠ n → id' ≠ id

theorem resolveId_name {s : Store} {key : Key} {id' : Nat} (h : resolveId s key = .ok id') :
    ∃ key', key'.name = key.name ∧ alookup key' s.options = some id' := by
  unfold resolveId at h
  have hn : (ensureKey s key).name = key.name := by unfold ensureKey Key.asHost; split <;> rfl
  cases h1 : alookup (ensureKey s key) s.options with
  | some x => simp [h1] at h; subst h; exact ⟨_, hn, h1⟩
  | none =>
    simp only [h1] at h
    split at h
    · cases h
    · cases h2 : alookup (ensureKey s key).global s.options with
      | some x => simp [h2] at h; subst h; exact ⟨_, by simpa [Key.global] using hn, h2⟩
      | none => simp [h2] at h

theorem sameObs_updObj (k : Key) (id id' : Nat) (s : Store) (f : Obj → Obj) (h : id' ≠ id) :
    SameObs k id s (s.updObj id' f) :=
  ⟨by simp, by simp, by simp, by simp, updObj_heap_other s id' id f h, by simp⟩

theorem objSetValue_frame (k : Key) (id id' : Nat) (v : Val) (s : Store) (h : id' ≠ id) :
    SameObs k id s (objSetValue id' v s).2 := by
  unfold objSetValue
  simp only [Bind.bind, M.bind, getObj]
  cases s.heap[id']? with
  | none => exact SameObs.refl k id s
  | some o =>
    simp only
    cases validate o.kind v with
    | error e => exact SameObs.refl k id s
    | ok w => exact sameObs_updObj k id id' s _ h

theorem OwnObject.transfer {n : Str} {id : Nat} {k : Key} {s s' : Store} (h : OwnObject n id s)
    (hs : SameObs k id s s') : OwnObject n id s' := by
  intro key i hk hkn; rw [hs.2.1] at hk; exact h key i hk hkn

/-- `m` leaves what `get_value_for k` depends on alone, from every store in which `k`'s object is its own -/
structure Fr {α : Type} (k : Key) (id : Nat) (m : M α) : Prop where
  run : ∀ s, OwnObject k.name id s → SameObs k id s (m s).2

namespace Fr
variable {α β : Type} {k : Key} {id : Nat}
theorem pure' (a : α) : Fr k id (M.pure a) := ⟨fun s _ => SameObs.refl k id s⟩
theorem pure (a : α) : Fr k id (Pure.pure a : M α) := ⟨fun s _ => SameObs.refl k id s⟩
theorem fail (e : Err) : Fr k id (M.fail e : M α) := ⟨fun s _ => SameObs.refl k id s⟩
theorem get : Fr k id M.get := ⟨fun s _ => SameObs.refl k id s⟩
theorem ofExcept (e : Except Err α) : Fr k id (M.ofExcept e) := by
  cases e <;> exact ⟨fun s _ => SameObs.refl k id s⟩
theorem assert (b : Bool) : Fr k id (M.assert b) := by
  cases b <;> exact ⟨fun s _ => SameObs.refl k id s⟩
theorem modify {f : Store → Store} (hf : ∀ s, SameObs k id s (f s)) : Fr k id (M.modify f) := ⟨fun s _ => hf s⟩
theorem bind' {m : M α} {f : α → M β} (hm : Fr k id m) (hf : ∀ a, Fr k id (f a)) : Fr k id (M.bind m f) := by
  constructor
  intro s h
  have h1 := hm.run s h
  unfold M.bind
  cases hr : m s with
  | mk r s' =>
    rw [hr] at h1
    cases r with
    | ok a => exact h1.trans ((hf a).run s' (h.transfer h1))
    | error e => exact h1
theorem bind {m : M α} {f : α → M β} (hm : Fr k id m) (hf : ∀ a, Fr k id (f a)) : Fr k id (m >>= f) :=
  bind' hm hf
theorem forEach {γ : Type} {f : γ → M Unit} (hf : ∀ x, Fr k id (f x)) : ∀ l, Fr k id (M.forEach f l)
  | [] => pure' ()
  | x :: r => bind' (hf x) (fun _ => forEach hf r)
theorem forEachMem {γ : Type} {f : γ → M Unit} : ∀ (l : List γ), (∀ x ∈ l, Fr k id (f x)) → Fr k id (M.forEach f l)
  | [], _ => pure' ()
  | x :: r, h => bind' (h x (by simp)) (fun _ => forEachMem r (fun y hy => h y (by simp [hy])))
theorem getObj (i : Nat) : Fr k id (getObj i) := by
  constructor; intro s _; unfold MesonModel.Options.getObj; split <;> exact SameObs.refl k id s
theorem objSetValue (i : Nat) (v : Val) (h : i ≠ id) : Fr k id (objSetValue i v) :=
  ⟨fun s _ => objSetValue_frame k id i v s h⟩
theorem objSetYielding (i : Nat) (b : Bool) (h : i ≠ id) : Fr k id (objSetYielding i b) :=
  ⟨fun s _ => sameObs_updObj k id i s _ h⟩
end Fr

macro "fr_core" : tactic => `(tactic| first
  | exact Fr.pure' _ | exact Fr.pure _ | exact Fr.fail _ | exact Fr.get | exact Fr.ofExcept _
  | exact Fr.assert _ | exact Fr.getObj _
  | (apply Fr.objSetValue; assumption) | (apply Fr.objSetYielding; assumption)
  | assumption
  | with_reducible apply Fr.bind | with_reducible apply Fr.bind' | with_reducible apply Fr.forEach
  | intro _
  | split
  | (dsimp only))

/-- `reset_prefixed_options` only writes the objects of the prefix-dependent directory options -/
theorem Fr.resetPrefixedOptions (k : Key) (id : Nat) (a b : Str)
    (hn : (Tables.nopfxTable.map (·.1)).contains k.name = false) : Fr k id (resetPrefixedOptions a b) := by
  unfold MesonModel.Options.resetPrefixedOptions
  apply Fr.forEachMem
  intro row hrow
  have hrn : row.1 ≠ k.name := by
    intro e
    have : (Tables.nopfxTable.map (·.1)).contains k.name = true := by
      simp only [List.contains_iff_mem, List.mem_map]; exact ⟨row, hrow, e⟩
    rw [this] at hn; cases hn
  constructor
  intro s hown
  simp only [Bind.bind, M.bind, M.get]
  cases hl : alookup ({ name := row.1, sub := none, machine := .host } : Key) s.options with
  | none => exact SameObs.refl k id s
  | some id' =>
    have hne : id' ≠ id := hown _ _ hl hrn
    have : Fr k id (do
        let o ← MesonModel.Options.getObj id'
        MesonModel.Options.objSetValue id' (match alookup b row.2 with
          | none => o.default
          | some nmapped =>
            match alookup a row.2 with
            | some omapped => if Val.str omapped == o.value then .str nmapped else o.value
            | none => .str nmapped)) := by
      repeat fr_core
    exact this.run s hown


theorem sameObs_augment (k key : Key) (id : Nat) (s : Store) (v : Val) (h : key ≠ k) :
    SameObs k id s { s with augments := ainsert key v s.augments } :=
  ⟨rfl, rfl, rfl, rfl, rfl, by simp [alookup_ainsert, h]⟩

theorem Fr.setOptionTail (k : Key) (id : Nat) (s0 : Store) (key : Key) (first : Bool) (i : Nat) (v : Val)
    (hi : i ≠ id) (hkey : key ≠ k) (hnp : (Tables.nopfxTable.map (·.1)).contains k.name = false) :
    Fr k id (setOptionTail s0 key first i v) := by
  unfold MesonModel.Options.setOptionTail
  repeat (first
    | exact Fr.resetPrefixedOptions k id _ _ hnp
    | (apply Fr.modify; intro s; exact sameObs_augment k key id s _ hkey)
    | fr_core)

/-- one activation of `set_option` for an option of another name leaves `k` alone -/
theorem Fr.setOptionCore (k : Key) (id : Nat) (key : Key) (v : Val) (first : Bool)
    (hname : key.name ≠ k.name) (hnp : (Tables.nopfxTable.map (·.1)).contains k.name = false) :
    Fr k id (setOptionCore key v first) := by
  have hkey : key ≠ k := fun e => hname (by rw [e])
  constructor
  intro s hown
  unfold MesonModel.Options.setOptionCore
  simp only [Bind.bind, M.bind, M.get]
  cases sanitizeForSet s key v with
  | error e => exact SameObs.refl k id s
  | ok nv1 =>
    simp only [M.ofExcept, M.pure]
    cases hr : resolveForSet s key with
    | error e => exact SameObs.refl k id s
    | ok i =>
      simp only
      have hres : resolveId s key = .ok i := by
        unfold resolveForSet at hr
        split at hr
        · cases hr; assumption
        · cases hr
        · cases hr
      obtain ⟨key', hn', hl'⟩ := resolveId_name hres
      have hi : i ≠ id := hown key' i hl' (by rw [hn']; exact hname)
      exact (Fr.setOptionTail k id s key first i nv1 hi hkey hnp).run s hown

/-- `set_option` for an option of another name (with the `buildtype` expansion: `k` is not one of the
dependents) leaves `k` alone -/
theorem Fr.setOption (k : Key) (id : Nat) (key : Key) (v : Val) (first : Bool)
    (hname : key.name ≠ k.name) (hnp : (Tables.nopfxTable.map (·.1)).contains k.name = false)
    (hd : key.name = sBuildtype → k.name ≠ sDebug ∧ k.name ≠ sOptimization) :
    Fr k id (setOption key v first) := by
  unfold MesonModel.Options.setOption
  apply Fr.bind (Fr.setOptionCore k id key v first hname hnp)
  intro r
  obtain ⟨changed, nv⟩ := r
  dsimp only
  split
  · rename_i hc
    have hb : key.name = sBuildtype := by
      simp only [Bool.and_eq_true, beq_iff_eq] at hc; exact hc.1.2
    obtain ⟨h1, h2⟩ := hd hb
    have e1 : (key.withName sDebug).name ≠ k.name := fun e => h1 (by simpa [Key.withName] using e.symm)
    have e2 : (key.withName sOptimization).name ≠ k.name := fun e => h2 (by simpa [Key.withName] using e.symm)
    repeat (first | exact Fr.setOptionCore k id _ _ _ e1 hnp | exact Fr.setOptionCore k id _ _ _ e2 hnp | fr_core)
  · exact Fr.pure' _

theorem sameObs_pending (k : Key) (id : Nat) (s : Store) (p : Dict) : SameObs k id s { s with pending := p } :=
  ⟨rfl, rfl, rfl, rfl, rfl, rfl⟩
theorem sameObs_pendingSub (k : Key) (id : Nat) (s : Store) (p : Dict) : SameObs k id s { s with pendingSub := p } :=
  ⟨rfl, rfl, rfl, rfl, rfl, rfl⟩

/-- **frame**: `set_user_option` for an option of another name leaves `k` alone, whatever it does (set an
object, set an override, park the value as pending, raise) -/
theorem Fr.setUserOption (k : Key) (id : Nat) (key : Key) (v : Val) (first : Bool)
    (hname : key.name ≠ k.name) (hnp : (Tables.nopfxTable.map (·.1)).contains k.name = false)
    (hd : key.name = sBuildtype → k.name ≠ sDebug ∧ k.name ≠ sOptimization) :
    Fr k id (setUserOption key v first) := by
  unfold MesonModel.Options.setUserOption
  have hroot : Fr k id (MesonModel.Options.setOption key.asRoot v first) :=
    Fr.setOption k id key.asRoot v first (by simpa [Key.asRoot] using hname) hnp (by simpa [Key.asRoot] using hd)
  repeat (first
    | exact Fr.setOption k id key v first hname hnp hd
    | exact hroot
    | (apply Fr.modify; intro s; exact sameObs_pending k id s _)
    | fr_core)

end MesonModel.Options
