import MesonModel.Options.ChangedLemmas
/-
`initialize_from_top_level_project_call` followed by `initialize_from_subproject_call`: what the top-level call
leaves behind for a global option `n` *and* for the subproject's view of it (`sub:n`): the global value (steps 1, 3, 4),
the recorded `sub:n` of the parent's `default_options` (step 5, `pending_subproject_options`), no override yet.
-/
namespace MesonModel.Options
open M

/-! ## `pending_subproject_options` is written by nobody but the top-level `default_options` loop -/

/-- `m` never writes `pending_subproject_options` -/
structure KP {α : Type} (m : M α) : Prop where
  run : ∀ s, (m s).2.pendingSub = s.pendingSub

namespace KP
variable {α β : Type}
theorem pure' (a : α) : KP (M.pure a) := ⟨fun _ => rfl⟩
theorem pure (a : α) : KP (Pure.pure a : M α) := ⟨fun _ => rfl⟩
theorem fail (e : Err) : KP (M.fail e : M α) := ⟨fun _ => rfl⟩
theorem get : KP M.get := ⟨fun _ => rfl⟩
theorem ofExcept (e : Except Err α) : KP (M.ofExcept e) := by cases e <;> exact ⟨fun _ => rfl⟩
theorem assert (b : Bool) : KP (M.assert b) := by cases b <;> exact ⟨fun _ => rfl⟩
theorem modify {f : Store → Store} (hf : ∀ s, (f s).pendingSub = s.pendingSub) : KP (M.modify f) := ⟨fun s => hf s⟩
theorem bind' {m : M α} {f : α → M β} (hm : KP m) (hf : ∀ a, KP (f a)) : KP (M.bind m f) := by
  constructor
  intro s
  have h1 := hm.run s
  unfold M.bind
  cases hr : m s with
  | mk r s' =>
    rw [hr] at h1
    cases r with
    | ok a => simp only; rw [(hf a).run s', h1]
    | error e => exact h1
theorem bind {m : M α} {f : α → M β} (hm : KP m) (hf : ∀ a, KP (f a)) : KP (m >>= f) := bind' hm hf
theorem forEach {γ : Type} {f : γ → M Unit} (hf : ∀ x, KP (f x)) : ∀ l, KP (M.forEach f l)
  | [] => pure' ()
  | x :: r => bind' (hf x) (fun _ => forEach hf r)
theorem getObj (i : Nat) : KP (getObj i) := by
  constructor; intro s; unfold MesonModel.Options.getObj; split <;> rfl
theorem objSetValue (i : Nat) (v : Val) : KP (objSetValue i v) := by
  unfold MesonModel.Options.objSetValue
  exact bind (getObj i) (fun o => bind (ofExcept _) (fun _ => modify (fun s => by simp)))
theorem objSetYielding (i : Nat) (b : Bool) : KP (objSetYielding i b) := modify (fun s => by simp)
end KP

macro "kp_core" : tactic => `(tactic| first
  | exact KP.pure' _ | exact KP.pure _ | exact KP.fail _ | exact KP.get | exact KP.ofExcept _
  | exact KP.assert _ | exact KP.getObj _ | exact KP.objSetValue _ _ | exact KP.objSetYielding _ _
  | (apply KP.modify; intro s; rfl)
  | assumption
  | with_reducible apply KP.bind | with_reducible apply KP.bind' | with_reducible apply KP.forEach
  | intro _
  | split
  | (dsimp only))

theorem KP.resetPrefixedOptions (a b : Str) : KP (resetPrefixedOptions a b) := by
  unfold MesonModel.Options.resetPrefixedOptions
  repeat kp_core

theorem KP.setOptionTail (s0 : Store) (key : Key) (first : Bool) (i : Nat) (v : Val) :
    KP (setOptionTail s0 key first i v) := by
  unfold MesonModel.Options.setOptionTail
  repeat (first | exact KP.resetPrefixedOptions _ _ | kp_core)

theorem KP.setOptionCore (key : Key) (v : Val) (first : Bool) : KP (setOptionCore key v first) := by
  unfold MesonModel.Options.setOptionCore
  repeat (first | exact KP.setOptionTail _ _ _ _ _ | kp_core)

theorem KP.setOption (key : Key) (v : Val) (first : Bool) : KP (setOption key v first) := by
  unfold MesonModel.Options.setOption
  repeat (first | exact KP.setOptionCore _ _ _ | kp_core)

theorem KP.setUserOption (key : Key) (v : Val) (first : Bool) : KP (setUserOption key v first) := by
  unfold MesonModel.Options.setUserOption
  repeat (first | exact KP.setOption _ _ _ | kp_core)

/-! ## what the two loops of the top-level call keep true about `n` and `sub:n` -/

/-- facts about a global option `n` (object `id` = `o`) and a subproject's view `sub:n` of it: no object, no project
option, no override under `sub:n`; `q` is what `pending_subproject_options` records for `sub:n`; `po` is the set of
project options -/
structure Pair (n sub : Str) (id : Nat) (po : List Key) (s : Store) (o : Obj) (q : Option Val) : Prop where
  good : Good ⟨n, none, .host⟩ id s o
  nosub : alookup (⟨n, some sub, .host⟩ : Key) s.options = none
  proj : s.projectOptions = po
  noproj : po.contains (⟨n, some sub, .host⟩ : Key) = false
  nb : s.isBuiltin ⟨n, some sub, .host⟩ = false
  aug : alookup (⟨n, some sub, .host⟩ : Key) s.augments = none
  psnd : NodupKeys s.pendingSub
  ps : alookup (⟨n, some sub, .host⟩ : Key) s.pendingSub = q
  pshost : ∀ key ∈ s.pendingSub.map Prod.fst, key.name = n → key.machine = .host

section
variable {n sub : Str} {id : Nat} {po : List Key}

theorem Pair.transfer {s s' : Store} {o : Obj} {q : Option Val} (p : Pair n sub id po s o q)
    (h1 : SameObs ⟨n, none, .host⟩ id s s') (h2 : SameObs ⟨n, some sub, .host⟩ id s s')
    (h3 : s'.pendingSub = s.pendingSub) : Pair n sub id po s' o q := by
  refine ⟨p.good.ofSame h1, by rw [h1.2.1]; exact p.nosub, by rw [h1.2.2.1]; exact p.proj, p.noproj, ?_,
    by rw [h2.2.2.2.2.2]; exact p.aug, by rw [h3]; exact p.psnd, by rw [h3]; exact p.ps, by rw [h3]; exact p.pshost⟩
  have := p.nb
  simp only [Store.isBuiltin] at this ⊢
  rw [h1.2.2.2.1]; exact this

/-- the subproject's view as `GoodSub` (what `subproject_precedence` needs): no override yet -/
theorem Pair.goodSub {s : Store} {o : Obj} {q : Option Val} (p : Pair n sub id po s o q) :
    GoodSub ⟨n, some sub, .host⟩ id s o none :=
  ⟨p.good.opt, p.good.obj, p.good.own, p.nosub, by simp only [Store.isProjectOption]; rw [p.proj]; exact p.noproj,
    p.nb, p.aug, p.good.ny⟩

/-- an entry that is parked in `pending_subproject_options` under a key of another name, or under `sub:n` itself -/
theorem Pair.park {s : Store} {o : Obj} {q : Option Val} (p : Pair n sub id po s o q) (key : Key) (v : Val)
    (hk : key = ⟨n, some sub, .host⟩ ∨ key.name ≠ n) :
    Pair n sub id po { s with pendingSub := ainsert key v s.pendingSub } o
      (if key = ⟨n, some sub, .host⟩ then some v else q) := by
  have base := p.transfer (s' := { s with pendingSub := ainsert key v s.pendingSub })
    ⟨rfl, rfl, rfl, rfl, rfl, rfl⟩ ⟨rfl, rfl, rfl, rfl, rfl, rfl⟩
  refine ⟨p.good.ofSame ⟨rfl, rfl, rfl, rfl, rfl, rfl⟩, p.nosub, p.proj, p.noproj, p.nb, p.aug,
    nodupKeys_ainsert key v _ p.psnd, ?_, ?_⟩
  · by_cases e : key = ⟨n, some sub, .host⟩
    · subst e; simp [alookup_ainsert]
    · simp only [e, ↓reduceIte]
      show alookup _ (ainsert key v s.pendingSub) = q
      rw [alookup_ainsert]; simp [e, p.ps]
  · intro k hkm hkn
    rcases mem_keys_ainsert hkm with h | h
    · subst h
      rcases hk with hk | hk
      · rw [hk]
      · exact absurd hkn hk
    · exact p.pshost k h hkn

/-- `set_user_option(n, v, True)` from the loops: the global object takes the cleaned value -/
theorem Pair.setGlobal {s s' : Store} {o : Obj} {q : Option Val} (p : Pair n sub id po s o q)
    (hn : (n == sPrefix) = false) (hbt : (n == sBuildtype) = false) (v : Val)
    (h : (do let _ ← setUserOption ⟨n, none, .host⟩ v true; M.pure () : M Unit) s = (.ok (), s')) :
    ∃ o', Pair n sub id po s' o' q ∧ o'.kind = o.kind ∧ o'.value = cleaned o.kind v := by
  cases hv : validate o.kind v with
  | error e =>
    have := setUserOption_existing_invalid s ⟨n, none, .host⟩ v id o e rfl hn p.good.nb p.good.opt p.good.obj hv
    simp [Bind.bind, M.bind, this] at h
  | ok w =>
    have hset := setUserOption_existing s ⟨n, none, .host⟩ v w id o rfl hn hbt p.good.nb p.good.opt p.good.obj hv
    simp only [Bind.bind, M.bind, hset, M.pure] at h
    cases h
    refine ⟨{ o with value := w, yielding := false }, ⟨p.good.afterSet w, by simp [p.nosub], by simp [p.proj], p.noproj, ?_,
      by simp [p.aug], by simpa using p.psnd, by simp [p.ps], by simpa using p.pshost⟩, rfl, by simp [cleaned, hv]⟩
    have := p.nb; simpa [Store.isBuiltin] using this

theorem stepPdo_pendingSub (kv : Key × Val) (s : Store) :
    (stepPdo kv s).2.pendingSub =
      if !s.isCross && kv.1.isForBuild then s.pendingSub
      else if kv.1.subTruthy then ainsert kv.1 kv.2 s.pendingSub else s.pendingSub := by
  unfold stepPdo
  simp only [Bind.bind, M.bind, M.get]
  by_cases h1 : (!s.isCross && kv.1.isForBuild) = true
  · simp [h1, M.pure]
  · by_cases h2 : kv.1.subTruthy = true
    · simp [h1, h2, M.modify]
    · simp only [h1, h2, Bool.false_eq_true, ↓reduceIte]
      exact (KP.bind' (KP.setUserOption kv.1 kv.2 true) (fun _ => KP.pure' ())).run s

theorem stepMC_pendingSub (kv : Key × Val) (s : Store) : (stepMC kv s).2.pendingSub = s.pendingSub := by
  have : KP (stepMC kv) := by
    unfold stepMC
    repeat (first | exact KP.setUserOption _ _ _ | kp_core)
  exact this.run s

theorem subTruthy_sub (hsub : sub ≠ []) : (⟨n, some sub, .host⟩ : Key).subTruthy = true := by
  cases sub with
  | nil => exact absurd rfl hsub
  | cons a r => rfl

/-- one entry of the `default_options` loop -/
theorem Pair.stepPdo {s s' : Store} {o : Obj} {q : Option Val} (p : Pair n sub id po s o q) (hsub : sub ≠ [])
    (hn : (n == sPrefix) = false) (hbt : (n == sBuildtype) = false)
    (hd : n ≠ sDebug ∧ n ≠ sOptimization) (hnp : (Tables.nopfxTable.map (·.1)).contains n = false)
    (kv : Key × Val) (hk : kv.1 = ⟨n, none, .host⟩ ∨ kv.1 = ⟨n, some sub, .host⟩ ∨ kv.1.name ≠ n)
    (h : stepPdo kv s = (.ok (), s')) :
    ∃ o', Pair n sub id po s' o' (if kv.1 = ⟨n, some sub, .host⟩ then some kv.2 else q) ∧ o'.kind = o.kind ∧
      o'.value = (if kv.1 = ⟨n, none, .host⟩ then cleaned o.kind kv.2 else o.value) := by
  obtain ⟨key, v⟩ := kv
  rcases hk with hk | hk | hk
  · simp only at hk; subst hk
    rw [stepPdo_k ⟨n, none, .host⟩ rfl rfl v] at h
    obtain ⟨o', p', h1, h2⟩ := p.setGlobal hn hbt v h
    exact ⟨o', by simpa using p', h1, by simpa using h2⟩
  · simp only at hk; subst hk
    have hst := subTruthy_sub (n := n) hsub
    have hfb : (⟨n, some sub, .host⟩ : Key).isForBuild = false := by simp [Key.isForBuild]
    simp only [MesonModel.Options.stepPdo, Bind.bind, M.bind, M.get, hfb, hst, Bool.and_false, Bool.false_eq_true,
      ↓reduceIte, M.modify] at h
    cases h
    have := p.park ⟨n, some sub, .host⟩ v (Or.inl rfl)
    exact ⟨o, by simpa using this, rfl, by simp⟩
  · simp only at hk
    have hne1 : ¬ key = ⟨n, none, .host⟩ := fun e => hk (by rw [e])
    have hne2 : ¬ key = ⟨n, some sub, .host⟩ := fun e => hk (by rw [e])
    simp only [hne1, hne2, ↓reduceIte]
    have f1 := (Fr.stepPdo ⟨n, none, .host⟩ id (key, v) hk hnp hd).run s p.good.own
    have f2 := (Fr.stepPdo ⟨n, some sub, .host⟩ id (key, v) hk hnp hd).run s p.good.own
    have f3 := stepPdo_pendingSub (key, v) s
    rw [h] at f1 f2 f3
    simp only at f1 f2 f3
    by_cases c1 : (!s.isCross && key.isForBuild) = true
    · simp only [c1, ↓reduceIte] at f3
      exact ⟨o, p.transfer f1 f2 f3, rfl, rfl⟩
    · by_cases c2 : key.subTruthy = true
      · simp only [c1, c2, Bool.false_eq_true, ↓reduceIte] at f3
        have pk := p.park key v (Or.inr hk)
        simp only [hne2, ↓reduceIte] at pk
        have := pk.transfer (s' := s') ⟨f1.1, f1.2.1, f1.2.2.1, f1.2.2.2.1, f1.2.2.2.2.1, f1.2.2.2.2.2⟩
          ⟨f2.1, f2.2.1, f2.2.2.1, f2.2.2.2.1, f2.2.2.2.2.1, f2.2.2.2.2.2⟩ f3
        exact ⟨o, this, rfl, rfl⟩
      · simp only [c1, c2, Bool.false_eq_true, ↓reduceIte] at f3
        exact ⟨o, p.transfer f1 f2 f3, rfl, rfl⟩

/-- one entry of the machine-file / command-line loop (`sub:n` entries are skipped there) -/
theorem Pair.stepMC {s s' : Store} {o : Obj} {q : Option Val} (p : Pair n sub id po s o q) (hsub : sub ≠ [])
    (hn : (n == sPrefix) = false) (hbt : (n == sBuildtype) = false)
    (hd : n ≠ sDebug ∧ n ≠ sOptimization) (hnp : (Tables.nopfxTable.map (·.1)).contains n = false)
    (kv : Key × Val) (hk : kv.1 = ⟨n, none, .host⟩ ∨ kv.1 = ⟨n, some sub, .host⟩ ∨ kv.1.name ≠ n)
    (h : stepMC kv s = (.ok (), s')) :
    ∃ o', Pair n sub id po s' o' q ∧ o'.kind = o.kind ∧
      o'.value = (if kv.1 = ⟨n, none, .host⟩ then cleaned o.kind kv.2 else o.value) := by
  obtain ⟨key, v⟩ := kv
  rcases hk with hk | hk | hk
  · simp only at hk; subst hk
    rw [stepMC_k ⟨n, none, .host⟩ rfl rfl v] at h
    obtain ⟨o', p', h1, h2⟩ := p.setGlobal hn hbt v h
    exact ⟨o', p', h1, by simpa using h2⟩
  · simp only at hk; subst hk
    have hst := subTruthy_sub (n := n) hsub
    have hfb : (⟨n, some sub, .host⟩ : Key).isForBuild = false := by simp [Key.isForBuild]
    simp only [MesonModel.Options.stepMC, Bind.bind, M.bind, M.get, hfb, hst, Bool.and_false, Bool.false_eq_true,
      ↓reduceIte, Bool.not_true, M.pure] at h
    cases h
    exact ⟨o, p, rfl, by simp⟩
  · simp only at hk
    have hne1 : ¬ key = ⟨n, none, .host⟩ := fun e => hk (by rw [e])
    simp only [hne1, ↓reduceIte]
    have f1 := (Fr.stepMC ⟨n, none, .host⟩ id (key, v) hk hnp hd).run s p.good.own
    have f2 := (Fr.stepMC ⟨n, some sub, .host⟩ id (key, v) hk hnp hd).run s p.good.own
    have f3 := stepMC_pendingSub (key, v) s
    rw [h] at f1 f2 f3
    exact ⟨o, p.transfer f1 f2 f3, rfl, rfl⟩

/-- a loop over a dict whose entries are for `n`, for `sub:n`, or name other options -/
theorem pair_loop (step : Key × Val → M Unit) (park : Bool)
    (hstep : ∀ (kv : Key × Val) (s s' : Store) (o : Obj) (q : Option Val), Pair n sub id po s o q →
      (kv.1 = ⟨n, none, .host⟩ ∨ kv.1 = ⟨n, some sub, .host⟩ ∨ kv.1.name ≠ n) → step kv s = (.ok (), s') →
      ∃ o', Pair n sub id po s' o' (if park && kv.1 = ⟨n, some sub, .host⟩ then some kv.2 else q) ∧ o'.kind = o.kind ∧
        o'.value = (if kv.1 = ⟨n, none, .host⟩ then cleaned o.kind kv.2 else o.value)) :
    ∀ (l : Dict) (s s' : Store) (o : Obj) (q : Option Val), Pair n sub id po s o q →
      (∀ kv ∈ l, kv.1 = ⟨n, none, .host⟩ ∨ kv.1 = ⟨n, some sub, .host⟩ ∨ kv.1.name ≠ n) →
      M.forEach step l s = (.ok (), s') →
      ∃ o', Pair n sub id po s' o' (if park then ofirst (alast ⟨n, some sub, .host⟩ l) q else q) ∧ o'.kind = o.kind ∧
        o'.value = (match alast ⟨n, none, .host⟩ l with | some v => cleaned o.kind v | none => o.value) := by
  intro l
  induction l with
  | nil =>
    intro s s' o q p _ h
    simp [M.forEach, M.pure] at h; subst h
    refine ⟨o, ?_, rfl, rfl⟩
    cases park <;> simpa [alast, ofirst] using p
  | cons kv r ih =>
    intro s s' o q p hl h
    have hrest : ∀ kv ∈ r, kv.1 = ⟨n, none, .host⟩ ∨ kv.1 = ⟨n, some sub, .host⟩ ∨ kv.1.name ≠ n :=
      fun kv hkv => hl kv (by simp [hkv])
    simp only [M.forEach, M.bind] at h
    cases hr : step kv s with
    | mk res s1 =>
      rw [hr] at h
      cases res with
      | error e => simp at h
      | ok u =>
        simp only at h
        obtain ⟨o1, p1, hk1, hv1⟩ := hstep kv s s1 o q p (hl kv (by simp)) hr
        obtain ⟨o2, p2, hk2, hv2⟩ := ih s1 s' o1 _ p1 hrest h
        refine ⟨o2, ?_, hk2.trans hk1, ?_⟩
        · obtain ⟨key, v⟩ := kv
          cases park with
          | false => simpa using p2
          | true =>
            simp only [Bool.true_and, ↓reduceIte] at p2 ⊢
            simp only [alast]
            by_cases e : key = ⟨n, some sub, .host⟩
            · simp only [e, decide_true, ↓reduceIte] at p2 ⊢
              cases hh : alast (⟨n, some sub, .host⟩ : Key) r <;> simp_all [ofirst]
            · simp only [e, decide_false, Bool.false_eq_true, ↓reduceIte] at p2 ⊢
              cases hh : alast (⟨n, some sub, .host⟩ : Key) r <;> simp_all [ofirst]
        · obtain ⟨key, v⟩ := kv
          rw [hv2, hk1, hv1]
          simp only [alast]
          by_cases e : key = ⟨n, none, .host⟩
          · simp only [e, ↓reduceIte]
            cases alast (⟨n, none, .host⟩ : Key) r <;> simp [ofirst]
          · simp only [e, ↓reduceIte]
            cases alast (⟨n, none, .host⟩ : Key) r <;> simp [ofirst]

/-- **what `initialize_from_top_level_project_call` leaves behind for `n` and for `sub:n`**, arbitrary store and
dicts: the global object holds the first of command line, machine file, `default_options` (else what it held);
`pending_subproject_options` records the parent's `default_options` entry `sub:n` (else what it recorded before);
there is still no override, object or project option under `sub:n`. -/
theorem initTop_pair (s s' : Store) (o : Obj) (q : Option Val) (pdo cmd mf : Dict) (hsub : sub ≠ [])
    (hn : (n == sPrefix) = false) (hbt : (n == sBuildtype) = false)
    (hd : n ≠ sDebug ∧ n ≠ sOptimization) (hnp : (Tables.nopfxTable.map (·.1)).contains n = false)
    (p : Pair n sub id po s o q)
    (h1 : NoPrefix pdo) (h2 : NoPrefix cmd) (h3 : NoPrefix mf)
    (hp : ∀ kv ∈ pdo, kv.1 = ⟨n, none, .host⟩ ∨ kv.1 = ⟨n, some sub, .host⟩ ∨ kv.1.name ≠ n)
    (hc : ∀ kv ∈ cmd, kv.1 = ⟨n, none, .host⟩ ∨ kv.1 = ⟨n, some sub, .host⟩ ∨ kv.1.name ≠ n)
    (hf : ∀ kv ∈ mf, kv.1 = ⟨n, none, .host⟩ ∨ kv.1 = ⟨n, some sub, .host⟩ ∨ kv.1.name ≠ n)
    (hrun : initTop pdo cmd mf s = (.ok (), s')) :
    ∃ o', Pair n sub id po s' o' (ofirst (alast ⟨n, some sub, .host⟩ pdo) q) ∧ o'.kind = o.kind ∧
      o'.value = (match ofirst (alast ⟨n, none, .host⟩ cmd) (ofirst (alast ⟨n, none, .host⟩ mf) (alast ⟨n, none, .host⟩ pdo)) with
        | some v => cleaned o.kind v
        | none => o.value) := by
  rw [initTop_eq pdo cmd mf h1 h2 h3 s] at hrun
  simp only [M.bind] at hrun
  cases hr1 : M.forEach stepPdo (buildtypeFirst pdo) s with
  | mk r1 s1 =>
    rw [hr1] at hrun
    cases r1 with
    | error e => simp at hrun
    | ok u =>
      simp only at hrun
      obtain ⟨o1, p1, hk1, hv1⟩ := pair_loop stepPdo true
        (fun kv s s' o q p hk h => by
          obtain ⟨o', a, b, c⟩ := p.stepPdo hsub hn hbt hd hnp kv hk h
          exact ⟨o', by simpa using a, b, c⟩)
        (buildtypeFirst pdo) s s1 o q p (fun kv hkv => hp kv (mem_buildtypeFirst hkv)) hr1
      have hmem : ∀ kv ∈ buildtypeFirst mf ++ buildtypeFirst cmd,
          kv.1 = ⟨n, none, .host⟩ ∨ kv.1 = ⟨n, some sub, .host⟩ ∨ kv.1.name ≠ n := by
        intro kv hkv
        rcases List.mem_append.mp hkv with h | h
        · exact hf kv (mem_buildtypeFirst h)
        · exact hc kv (mem_buildtypeFirst h)
      obtain ⟨o2, p2, hk2, hv2⟩ := pair_loop stepMC false
        (fun kv s s' o q p hk h => by
          obtain ⟨o', a, b, c⟩ := p.stepMC hsub hn hbt hd hnp kv hk h
          exact ⟨o', by simpa using a, b, c⟩)
        (buildtypeFirst mf ++ buildtypeFirst cmd) s1 s' o1 _ p1 hmem hrun
      simp only [↓reduceIte, Bool.false_eq_true] at p1 p2
      rw [alast_buildtypeFirst (⟨n, some sub, .host⟩ : Key) pdo hbt] at p2
      refine ⟨o2, p2, hk2.trans hk1, ?_⟩
      rw [hv2, alast_append, alast_buildtypeFirst (⟨n, none, .host⟩ : Key) mf hbt,
        alast_buildtypeFirst (⟨n, none, .host⟩ : Key) cmd hbt, hk1, hv1,
        alast_buildtypeFirst (⟨n, none, .host⟩ : Key) pdo hbt]
      cases alast (⟨n, none, .host⟩ : Key) cmd <;> cases alast (⟨n, none, .host⟩ : Key) mf <;>
        cases alast (⟨n, none, .host⟩ : Key) pdo <;> rfl

end

end MesonModel.Options
