import MesonModel.Options.PrecLemmas
/-
`initialize_from_top_level_project_call` on arbitrary dicts: the value of one option afterwards.
-/
namespace MesonModel.Options
open M

/-- the facts about option `k` (object `id`, current object `o`) that the loops maintain -/
structure Good (k : Key) (id : Nat) (s : Store) (o : Obj) : Prop where
  opt : alookup k s.options = some id
  obj : s.heap[id]? = some o
  own : OwnObject k.name id s
  nb : s.isBuiltin k = false
  aug : alookup k s.augments = none
  ny : o.yielding = false

theorem Good.value {k : Key} {id : Nat} {s : Store} {o : Obj} (g : Good k id s o) (hm : k.machine = .host) :
    getValueFor s k = .ok o.value := by
  simp [getValueFor, getIdAndValue, resolveId, ensureKey_host s k hm, g.opt, g.obj, g.aug, g.ny, Except.map]

theorem Good.ofSame {k : Key} {id : Nat} {s s' : Store} {o : Obj} (g : Good k id s o) (h : SameObs k id s s') :
    Good k id s' o := by
  obtain ⟨h1, h2, h3, h4, h5, h6⟩ := h
  refine ⟨by rw [h2]; exact g.opt, by rw [h5]; exact g.obj, g.own.transfer ⟨h1, h2, h3, h4, h5, h6⟩, ?_,
    by rw [h6]; exact g.aug, g.ny⟩
  have := g.nb
  simp only [Store.isBuiltin] at this ⊢
  rw [h4]; exact this

/-- the value a source's raw entry stands for -/
def cleaned (kind : Kind) (v : Val) : Val :=
  match validate kind v with
  | .ok w => w
  | .error _ => v

/-- `set_user_option` on `k` with a value its class rejects raises (and changes nothing) -/
theorem setUserOption_existing_invalid (s : Store) (k : Key) (v : Val) (id : Nat) (o : Obj) (e : Err)
    (hm : k.machine = .host)
    (hn : (k.name == sPrefix) = false) (hb : s.isBuiltin k = false)
    (hk : alookup k s.options = some id) (ho : s.heap[id]? = some o) (hv : validate o.kind v = .error e) :
    setUserOption k v true s = (.error e, s) := by
  have hfb : k.isForBuild = false := by simp [Key.isForBuild, hm]
  have hah : ahas k s.options = true := by simp [ahas, hk]
  have hres : resolveId s k = .ok id := by simp [resolveId, ensureKey_host s k hm, hk]
  simp [setUserOption, setOption, setOptionCore, setOptionTail, sanitizeForSet, resolveForSet, Bind.bind, M.bind, M.get,
    hfb, hah, hn, hb, hres, M.pure, getObj, ho, hv, M.ofExcept, M.fail]

section loop
variable (k : Key) (id : Nat)

/-- a loop whose body sets `k` when the entry is addressed `ka` (`ka = k`, or the spelling without subproject of a
top-level project option `k = :name`) and otherwise leaves `k` alone: if it completes, `k` holds the (cleaned) value
of the last entry for `ka`, or what it held before.  `opts` is the key table, which the loop never changes. -/
theorem loop_value (ka : Key) (hka : ka.name = k.name) (opts : List (Key × Nat))
    (hm : k.machine = .host) (hn : (k.name == sPrefix) = false)
    (hbt : (k.name == sBuildtype) = false) (step : Key × Val → M Unit)
    (hstep : ∀ v, step (ka, v) = (do let _ ← setUserOption ka v true; M.pure ()))
    (hrw : ∀ s v, s.options = opts → setUserOption ka v true s = setUserOption k v true s)
    (hfr : ∀ kv : Key × Val, kv.1.name ≠ k.name → Fr k id (step kv)) :
    ∀ (l : Dict) (s s' : Store) (o : Obj), Good k id s o → s.options = opts →
      (∀ kv ∈ l, kv.1 = ka ∨ kv.1.name ≠ k.name) →
      M.forEach step l s = (.ok (), s') →
      ∃ o', Good k id s' o' ∧ s'.options = opts ∧ o'.kind = o.kind ∧
        o'.value = (match alast ka l with | some v => cleaned o.kind v | none => o.value) := by
  intro l
  induction l with
  | nil =>
    intro s s' o g ho _ h
    simp [M.forEach, M.pure] at h; subst h; exact ⟨o, g, ho, rfl, rfl⟩
  | cons kv r ih =>
    obtain ⟨key, v⟩ := kv
    intro s s' o g ho hl h
    have hrest : ∀ kv ∈ r, kv.1 = ka ∨ kv.1.name ≠ k.name := fun kv hkv => hl kv (by simp [hkv])
    simp only [M.forEach, M.bind] at h
    rcases hl (key, v) (by simp) with hkk | hkn
    · -- the entry addresses `k`
      simp only at hkk; subst hkk
      rw [hstep v] at h
      cases hv : validate o.kind v with
      | error e =>
        have := setUserOption_existing_invalid s k v id o e hm hn g.nb g.opt g.obj hv
        simp [Bind.bind, M.bind, hrw s v ho, this] at h
      | ok w =>
        have hset := setUserOption_existing s k v w id o hm hn hbt g.nb g.opt g.obj hv
        simp only [Bind.bind, M.bind, hrw s v ho, hset, M.pure] at h
        let o1 : Obj := { o with value := w, yielding := false }
        have g1 : Good k id ((s.updObj id (fun o => { o with value := w })).updObj id
            (fun o => { o with yielding := false })) o1 := by
          refine ⟨by simp [g.opt], ?_, ?_, ?_, by simp [g.aug], rfl⟩
          · have h1 := updObj_heap_same s id (fun o => { o with value := w }) o g.obj
            exact updObj_heap_same _ id (fun o => { o with yielding := false }) _ h1
          · intro key' i hk' hn'; simp at hk'; exact g.own key' i hk' hn'
          · have := g.nb; simpa [Store.isBuiltin] using this
        obtain ⟨o', g', ho', hk', hv'⟩ := ih _ s' o1 g1 (by simp [ho]) hrest h
        refine ⟨o', g', ho', hk', ?_⟩
        rw [hv']
        simp only [alast]
        cases alast key r with
        | some x => simp [ofirst, o1]
        | none => simp [ofirst, o1, cleaned, hv]
    · -- the entry names another option: frame
      simp only at hkn
      have hs := (hfr (key, v) hkn).run s g.own
      cases hr : step (key, v) s with
      | mk res s1 =>
        rw [hr] at h hs
        cases res with
        | error e => simp at h
        | ok u =>
          simp only at h
          obtain ⟨o', g', ho', hk', hv'⟩ := ih s1 s' o (g.ofSame hs) (by rw [hs.2.1]; exact ho) hrest h
          refine ⟨o', g', ho', hk', ?_⟩
          rw [hv']
          have hne : ¬ key = ka := fun e => hkn (by rw [e]; exact hka)
          simp only [alast, hne, ↓reduceIte]
          cases alast ka r <;> rfl
end loop


/-! ## no `prefix` entries: `first_handle_prefix` is the identity -/

def NoPrefix (d : Dict) : Prop := ∀ kv ∈ d, (kv.1.name == sPrefix) = false

theorem prefixSplit_noPrefix : ∀ (d : Dict) (p : Option Val) (acc : Dict), NoPrefix d →
    prefixSplit d p acc = .ok (p, acc ++ d)
  | [], p, acc, _ => by simp [prefixSplit]
  | (k, v) :: r, p, acc, h => by
    have h1 : (k.name == sPrefix) = false := h (k, v) (by simp)
    have h2 : NoPrefix r := fun kv hkv => h kv (by simp [hkv])
    simp [prefixSplit, h1, prefixSplit_noPrefix r p (acc ++ [(k, v)]) h2]

theorem alookup_prefixKey_noPrefix : ∀ (d : Dict), NoPrefix d → alookup prefixKey d = none
  | [], _ => rfl
  | (k, v) :: r, h => by
    have h1 : (k.name == sPrefix) = false := h (k, v) (by simp)
    have h2 : NoPrefix r := fun kv hkv => h kv (by simp [hkv])
    have hne : ¬ k = prefixKey := by
      intro e; rw [e] at h1; simp [prefixKey] at h1
    simp [alookup, hne, alookup_prefixKey_noPrefix r h2]

theorem aerase_prefixKey_noPrefix : ∀ (d : Dict), NoPrefix d → aerase prefixKey d = d
  | [], _ => rfl
  | (k, v) :: r, h => by
    have h1 : (k.name == sPrefix) = false := h (k, v) (by simp)
    have h2 : NoPrefix r := fun kv hkv => h kv (by simp [hkv])
    have hne : ¬ k = prefixKey := by
      intro e; rw [e] at h1; simp [prefixKey] at h1
    simp [aerase, hne, aerase_prefixKey_noPrefix r h2]

theorem firstHandlePrefix_noPrefix (pdo cmd mf : Dict) (h1 : NoPrefix pdo) (h2 : NoPrefix cmd) (h3 : NoPrefix mf)
    (s : Store) : firstHandlePrefix pdo cmd mf s = (.ok (pdo, cmd, mf), s) := by
  simp [firstHandlePrefix, Bind.bind, M.bind, M.ofExcept, M.pure, prefixSplit_noPrefix _ _ _ h1,
    prefixSplit_noPrefix _ _ _ h2, alookup_prefixKey_noPrefix mf h3, aerase_prefixKey_noPrefix mf h3]

/-! ## `buildtype_first` does not change what a dict holds for another option -/

theorem alast_filter_key (k : Key) (q : Key → Bool) (d : Dict) :
    alast k (d.filter (fun p => q p.1)) = if q k then alast k d else none := by
  induction d with
  | nil => simp [alast]
  | cons p r ih =>
    obtain ⟨a, b⟩ := p
    by_cases hq : q a = true
    · rw [List.filter_cons_of_pos (by simpa using hq)]
      simp only [alast, ih]
      by_cases hk : q k = true
      · simp [hk]
      · have : ¬ a = k := fun e => hk (by rw [← e]; exact hq)
        simp [hk, this, ofirst]
    · rw [List.filter_cons_of_neg (by simpa using hq), ih]
      by_cases hk : q k = true
      · have : ¬ a = k := fun e => hq (by rw [e]; exact hk)
        simp only [hk, ↓reduceIte, alast, this]
        cases alast k r <;> rfl
      · simp [hk]

theorem alast_buildtypeFirst (k : Key) (d : Dict) (hbt : (k.name == sBuildtype) = false) :
    alast k (buildtypeFirst d) = alast k d := by
  unfold buildtypeFirst
  rw [alast_append, alast_filter_key k (fun key => key.name == sBuildtype),
    alast_filter_key k (fun key => !(key.name == sBuildtype))]
  simp [hbt, ofirst]
  cases alast k d <;> rfl

theorem mem_buildtypeFirst {d : Dict} {kv : Key × Val} (h : kv ∈ buildtypeFirst d) : kv ∈ d := by
  unfold buildtypeFirst at h
  simp only [List.mem_append, List.mem_filter] at h
  rcases h with h | h <;> exact h.1


/-! ## the two loops of `initialize_from_top_level_project_call` -/

/-- body of the `project(default_options)` loop -/
def stepPdo (kv : Key × Val) : M Unit := do
  let s ← get
  if !s.isCross && kv.1.isForBuild then M.pure ()
  else if kv.1.subTruthy then
    modify (fun s => { s with pendingSub := ainsert kv.1 kv.2 s.pendingSub })
  else do let _ ← setUserOption kv.1 kv.2 true; M.pure ()

/-- body of the machine-file / command-line loop -/
def stepMC (kv : Key × Val) : M Unit := do
  let s ← get
  if !s.isCross && kv.1.isForBuild then M.pure ()
  else if !kv.1.subTruthy then do let _ ← setUserOption kv.1 kv.2 true; M.pure ()
  else M.pure ()

theorem initTop_eq (pdo cmd mf : Dict) (h1 : NoPrefix pdo) (h2 : NoPrefix cmd) (h3 : NoPrefix mf) (s : Store) :
    initTop pdo cmd mf s =
      (M.bind (M.forEach stepPdo (buildtypeFirst pdo))
        (fun _ => M.forEach stepMC (buildtypeFirst mf ++ buildtypeFirst cmd))) s := by
  unfold initTop
  simp only [Bind.bind, M.bind, firstHandlePrefix_noPrefix pdo cmd mf h1 h2 h3 s]
  rfl

section
variable (k : Key) (id : Nat)

theorem stepPdo_k (hm : k.machine = .host) (hs : k.sub = none) (v : Val) :
    stepPdo (k, v) = (do let _ ← setUserOption k v true; M.pure ()) := by
  funext s
  have hfb : k.isForBuild = false := by simp [Key.isForBuild, hm]
  have hst : k.subTruthy = false := by simp [Key.subTruthy, hs]
  simp [stepPdo, Bind.bind, M.bind, M.get, hfb, hst]

theorem stepMC_k (hm : k.machine = .host) (hs : k.sub = none) (v : Val) :
    stepMC (k, v) = (do let _ ← setUserOption k v true; M.pure ()) := by
  funext s
  have hfb : k.isForBuild = false := by simp [Key.isForBuild, hm]
  have hst : k.subTruthy = false := by simp [Key.subTruthy, hs]
  simp [stepMC, Bind.bind, M.bind, M.get, hfb, hst]

theorem Fr.stepPdo (kv : Key × Val) (hname : kv.1.name ≠ k.name)
    (hnp : (Tables.nopfxTable.map (·.1)).contains k.name = false)
    (hd : k.name ≠ sDebug ∧ k.name ≠ sOptimization) : Fr k id (stepPdo kv) := by
  unfold MesonModel.Options.stepPdo
  repeat (first
    | exact Fr.setUserOption k id kv.1 kv.2 true hname hnp (fun _ => hd)
    | (apply Fr.modify; intro s; exact sameObs_pendingSub k id s _)
    | fr_core)

theorem Fr.stepMC (kv : Key × Val) (hname : kv.1.name ≠ k.name)
    (hnp : (Tables.nopfxTable.map (·.1)).contains k.name = false)
    (hd : k.name ≠ sDebug ∧ k.name ≠ sOptimization) : Fr k id (stepMC kv) := by
  unfold MesonModel.Options.stepMC
  repeat (first
    | exact Fr.setUserOption k id kv.1 kv.2 true hname hnp (fun _ => hd)
    | fr_core)
end

/-- **top-level precedence through the whole call, for arbitrary dicts and an arbitrary store.**
`k` is a global (or, with `sub = none` replaced, any existing) option that is not one of the names with side
effects; the three dicts may hold anything else (other options of any class, valid or not, `buildtype`, keys
for subprojects, build-machine keys, pending options …) except entries named `prefix` or entries for another
subproject/machine variant of the same name.  If the call completes, `k` holds the cleaned value of the
highest-priority source that gives it: command line, then machine file, then `project(default_options)`, then
what it held before. -/
theorem initTop_value (k : Key) (id : Nat) (s s' : Store) (o : Obj) (pdo cmd mf : Dict)
    (hm : k.machine = .host) (hs : k.sub = none)
    (hn : (k.name == sPrefix) = false) (hbt : (k.name == sBuildtype) = false)
    (hd : k.name ≠ sDebug ∧ k.name ≠ sOptimization)
    (hnp : (Tables.nopfxTable.map (·.1)).contains k.name = false)
    (g : Good k id s o)
    (h1 : NoPrefix pdo) (h2 : NoPrefix cmd) (h3 : NoPrefix mf)
    (hp : ∀ kv ∈ pdo, kv.1 = k ∨ kv.1.name ≠ k.name)
    (hc : ∀ kv ∈ cmd, kv.1 = k ∨ kv.1.name ≠ k.name)
    (hf : ∀ kv ∈ mf, kv.1 = k ∨ kv.1.name ≠ k.name)
    (hrun : initTop pdo cmd mf s = (.ok (), s')) :
    getValueFor s' k = .ok
      (match ofirst (alast k cmd) (ofirst (alast k mf) (alast k pdo)) with
       | some v => cleaned o.kind v
       | none => o.value) := by
  rw [initTop_eq pdo cmd mf h1 h2 h3 s] at hrun
  simp only [M.bind] at hrun
  cases hr1 : M.forEach stepPdo (buildtypeFirst pdo) s with
  | mk r1 s1 =>
    rw [hr1] at hrun
    cases r1 with
    | error e => simp at hrun
    | ok u =>
      simp only at hrun
      obtain ⟨o1, g1, ho1, hk1, hv1⟩ := loop_value k id k rfl s.options hm hn hbt stepPdo (stepPdo_k k hm hs)
        (fun _ _ _ => rfl)
        (fun kv hne => Fr.stepPdo k id kv hne hnp hd) (buildtypeFirst pdo) s s1 o g rfl
        (fun kv hkv => hp kv (mem_buildtypeFirst hkv)) hr1
      have hmem : ∀ kv ∈ buildtypeFirst mf ++ buildtypeFirst cmd, kv.1 = k ∨ kv.1.name ≠ k.name := by
        intro kv hkv
        rcases List.mem_append.mp hkv with h | h
        · exact hf kv (mem_buildtypeFirst h)
        · exact hc kv (mem_buildtypeFirst h)
      obtain ⟨o2, g2, _, hk2, hv2⟩ := loop_value k id k rfl s.options hm hn hbt stepMC (stepMC_k k hm hs)
        (fun _ _ _ => rfl)
        (fun kv hne => Fr.stepMC k id kv hne hnp hd) (buildtypeFirst mf ++ buildtypeFirst cmd) s1 s' o1 g1 ho1 hmem hrun
      rw [g2.value hm, hv2, alast_append, alast_buildtypeFirst k mf hbt, alast_buildtypeFirst k cmd hbt, hk1, hv1,
        alast_buildtypeFirst k pdo hbt]
      cases alast k cmd <;> cases alast k mf <;> cases alast k pdo <;> rfl

/-! ## the same for a project option of the top-level project: `-Dopt` / `opt=v` address `:opt` -/

/-- `set_user_option(opt, v)` for a name that is only registered as the top-level project's option `:opt` (no
global option of that name; not a compiler/base/backend name, which would be parked as pending) is
`set_user_option(:opt, v)` -/
theorem setUserOption_via_root (s : Store) (n : Str) (v : Val) (id : Nat)
    (hr : alookup (⟨n, some [], .host⟩ : Key) s.options = some id)
    (hg : alookup (⟨n, none, .host⟩ : Key) s.options = none)
    (hpend : acceptAsPending ⟨n, none, .host⟩ true = false) :
    setUserOption ⟨n, none, .host⟩ v true s = setUserOption ⟨n, some [], .host⟩ v true s := by
  have h1 : ahas (⟨n, none, .host⟩ : Key) s.options = false := by simp [ahas, hg]
  have h2 : ahas (⟨n, some [], .host⟩ : Key) s.options = true := by simp [ahas, hr]
  simp [setUserOption, Bind.bind, M.bind, M.get, Key.isForBuild, h1, h2, hpend, Key.asRoot]

/-- **top-level precedence for a project option declared by the top-level project, through the whole call, for
arbitrary dicts and an arbitrary store**: `kr = :n` is the registered option, the sources address it as `n`
(`-Dn=v`, `n = v` in a machine file's `[project options]`, `'n=v'` in `default_options`).  If the call completes,
`:n` holds the cleaned value of the first source that gives it: command line, machine file,
`project(default_options)`, else what it held before (its declared default). -/
theorem initTop_value_project (n : Str) (id : Nat) (s s' : Store) (o : Obj) (pdo cmd mf : Dict)
    (hn : (n == sPrefix) = false) (hbt : (n == sBuildtype) = false)
    (hd : n ≠ sDebug ∧ n ≠ sOptimization)
    (hnp : (Tables.nopfxTable.map (·.1)).contains n = false)
    (hpend : acceptAsPending ⟨n, none, .host⟩ true = false)
    (hg : alookup (⟨n, none, .host⟩ : Key) s.options = none)
    (g : Good ⟨n, some [], .host⟩ id s o)
    (h1 : NoPrefix pdo) (h2 : NoPrefix cmd) (h3 : NoPrefix mf)
    (hp : ∀ kv ∈ pdo, kv.1 = ⟨n, none, .host⟩ ∨ kv.1.name ≠ n)
    (hc : ∀ kv ∈ cmd, kv.1 = ⟨n, none, .host⟩ ∨ kv.1.name ≠ n)
    (hf : ∀ kv ∈ mf, kv.1 = ⟨n, none, .host⟩ ∨ kv.1.name ≠ n)
    (hrun : initTop pdo cmd mf s = (.ok (), s')) :
    getValueFor s' ⟨n, some [], .host⟩ = .ok
      (match ofirst (alast ⟨n, none, .host⟩ cmd) (ofirst (alast ⟨n, none, .host⟩ mf) (alast ⟨n, none, .host⟩ pdo)) with
       | some v => cleaned o.kind v
       | none => o.value) := by
  let kr : Key := ⟨n, some [], .host⟩
  let kg : Key := ⟨n, none, .host⟩
  have hrw : ∀ (st : Store) (v : Val), st.options = s.options →
      setUserOption kg v true st = setUserOption kr v true st := by
    intro st v ho
    exact setUserOption_via_root st n v id (by rw [ho]; exact g.opt) (by rw [ho]; exact hg) hpend
  rw [initTop_eq pdo cmd mf h1 h2 h3 s] at hrun
  simp only [M.bind] at hrun
  cases hr1 : M.forEach stepPdo (buildtypeFirst pdo) s with
  | mk r1 s1 =>
    rw [hr1] at hrun
    cases r1 with
    | error e => simp at hrun
    | ok u =>
      simp only at hrun
      obtain ⟨o1, g1, ho1, hk1, hv1⟩ := loop_value kr id kg rfl s.options rfl hn hbt stepPdo (stepPdo_k kg rfl rfl)
        hrw (fun kv hne => Fr.stepPdo kr id kv hne hnp hd) (buildtypeFirst pdo) s s1 o g rfl
        (fun kv hkv => hp kv (mem_buildtypeFirst hkv)) hr1
      have hmem : ∀ kv ∈ buildtypeFirst mf ++ buildtypeFirst cmd, kv.1 = kg ∨ kv.1.name ≠ kr.name := by
        intro kv hkv
        rcases List.mem_append.mp hkv with h | h
        · exact hf kv (mem_buildtypeFirst h)
        · exact hc kv (mem_buildtypeFirst h)
      obtain ⟨o2, g2, _, hk2, hv2⟩ := loop_value kr id kg rfl s.options rfl hn hbt stepMC (stepMC_k kg rfl rfl)
        hrw (fun kv hne => Fr.stepMC kr id kv hne hnp hd) (buildtypeFirst mf ++ buildtypeFirst cmd) s1 s' o1 g1 ho1 hmem hrun
      rw [g2.value rfl, hv2, alast_append, alast_buildtypeFirst kg mf hbt, alast_buildtypeFirst kg cmd hbt, hk1, hv1,
        alast_buildtypeFirst kg pdo hbt]
      cases alast kg cmd <;> cases alast kg mf <;> cases alast kg pdo <;> rfl

end MesonModel.Options
