import MesonModel.Options.PrecLemmas
/-
Well-formedness of the object table as an invariant of every API call: ids stored in `options` point into the
heap and no two keys share an object (Python: every key holds its own `UserOption` instance, because callers
hand fresh objects to `add_*_option` / `update_project_options`, which is how the model's operations are typed).
-/
namespace MesonModel.Options
open M

def Wf (s : Store) : Prop :=
  (∀ k id, alookup k s.options = some id → id < s.heap.length) ∧
  (∀ k1 k2 id, alookup k1 s.options = some id → alookup k2 s.options = some id → k1 = k2)

theorem Wf.ownObject {s : Store} (h : Wf s) {k : Key} {id : Nat} (hk : alookup k s.options = some id) :
    OwnObject k.name id s := by
  intro key i hl hn e
  subst e
  exact hn (by rw [h.2 key k i hl hk])

/-- `m` preserves `Wf`, whether it returns or raises -/
structure PresW {α : Type} (m : M α) : Prop where
  run : ∀ s, Wf s → Wf (m s).2

namespace PresW
variable {α β : Type}
theorem pure' (a : α) : PresW (M.pure a) := ⟨fun _ h => h⟩
theorem pure (a : α) : PresW (Pure.pure a : M α) := ⟨fun _ h => h⟩
theorem fail (e : Err) : PresW (M.fail e : M α) := ⟨fun _ h => h⟩
theorem get : PresW M.get := ⟨fun _ h => h⟩
theorem ofExcept (e : Except Err α) : PresW (M.ofExcept e) := by
  cases e <;> exact ⟨fun _ h => h⟩
theorem assert (b : Bool) : PresW (M.assert b) := by
  cases b <;> exact ⟨fun _ h => h⟩
theorem modify {f : Store → Store} (hf : ∀ s, Wf s → Wf (f s)) : PresW (M.modify f) := ⟨fun s h => hf s h⟩
theorem bind' {m : M α} {f : α → M β} (hm : PresW m) (hf : ∀ a, PresW (f a)) : PresW (M.bind m f) := by
  constructor
  intro s h
  have h1 := hm.run s h
  unfold M.bind
  cases hr : m s with
  | mk r s' =>
    rw [hr] at h1
    cases r with
    | ok a => exact (hf a).run s' h1
    | error e => exact h1
theorem bind {m : M α} {f : α → M β} (hm : PresW m) (hf : ∀ a, PresW (f a)) : PresW (m >>= f) := bind' hm hf
theorem catchMeson {m h : M α} (hm : PresW m) (hh : PresW h) : PresW (M.catchMeson m h) := by
  constructor
  intro s hs
  have h1 := hm.run s hs
  unfold M.catchMeson
  cases hr : m s with
  | mk r s' =>
    rw [hr] at h1
    cases r with
    | ok a => exact h1
    | error e => cases e <;> first | exact hh.run s' h1 | exact h1
theorem forEach {γ : Type} {f : γ → M Unit} (hf : ∀ x, PresW (f x)) : ∀ l, PresW (M.forEach f l)
  | [] => pure' ()
  | x :: r => bind' (hf x) (fun _ => forEach hf r)
end PresW

theorem wf_updObj {s : Store} (id : Nat) (f : Obj → Obj) (h : Wf s) : Wf (s.updObj id f) := by
  have hl : (s.updObj id f).heap.length = s.heap.length := by
    unfold Store.updObj; split <;> simp
  exact ⟨fun k i hk => by rw [hl]; exact h.1 k i (by simpa using hk),
         fun k1 k2 i h1 h2 => h.2 k1 k2 i (by simpa using h1) (by simpa using h2)⟩

theorem PresW.getObj (id : Nat) : PresW (getObj id) := by
  constructor; intro s h; unfold MesonModel.Options.getObj; split <;> exact h

theorem PresW.objSetValue (id : Nat) (v : Val) : PresW (objSetValue id v) := by
  unfold MesonModel.Options.objSetValue
  apply PresW.bind (PresW.getObj id); intro o
  apply PresW.bind (PresW.ofExcept _); intro w
  exact PresW.modify (fun s h => wf_updObj id _ h)

theorem PresW.objSetYielding (id : Nat) (b : Bool) : PresW (objSetYielding id b) :=
  PresW.modify (fun s h => wf_updObj id _ h)

/-- a fresh object is allocated and put under key `k` (new key or replacing the old object) -/
theorem PresW.allocInsert {β : Type} (o : Obj) (k : Key) (F : Nat → Store → Store)
    (hF : ∀ id s, (F id s).options = ainsert k id s.options ∧ (F id s).heap = s.heap)
    (rest : Nat → M β) (hrest : ∀ id, PresW (rest id)) :
    PresW (alloc o >>= fun id => M.modify (F id) >>= fun _ => rest id) := by
  constructor
  intro s h
  simp only [Bind.bind, M.bind, alloc, M.modify]
  apply (hrest _).run
  obtain ⟨ho, hh⟩ := hF s.heap.length { s with heap := s.heap ++ [o] }
  constructor
  · intro key i hk
    rw [ho, alookup_ainsert] at hk
    rw [hh]
    simp only [List.length_append, List.length_cons, List.length_nil]
    split at hk
    · cases hk; omega
    · have := h.1 key i hk; omega
  · intro k1 k2 i h1 h2
    rw [ho, alookup_ainsert] at h1 h2
    split at h1 <;> split at h2
    · next e1 e2 => rw [← e1, ← e2]
    · next e1 e2 => cases h1; have := h.1 k2 _ h2; omega
    · next e1 e2 => cases h2; have := h.1 k1 _ h1; omega
    · exact h.2 k1 k2 i h1 h2

theorem alookup_filter_key {α : Type} (k : Key) (q : Key → Bool) (d : List (Key × α)) :
    alookup k (d.filter (fun p => q p.1)) = if q k then alookup k d else none := by
  induction d with
  | nil => simp [alookup]
  | cons p r ih =>
    obtain ⟨a, b⟩ := p
    by_cases hq : q a = true
    · rw [List.filter_cons_of_pos (by simpa using hq)]
      simp only [alookup, ih]
      by_cases hk : q k = true
      · simp [hk]
      · have : ¬ a = k := fun e => hk (by rw [← e]; exact hq)
        simp [hk, this]
    · rw [List.filter_cons_of_neg (by simpa using hq), ih]
      by_cases hk : q k = true
      · have : ¬ a = k := fun e => hq (by rw [e]; exact hk)
        simp [hk, alookup, this]
      · simp [hk]

theorem wf_filter {s : Store} (q : Key → Bool) (po : List Key) (h : Wf s) :
    Wf { s with options := s.options.filter (fun p => q p.1), projectOptions := po } := by
  constructor
  · intro k i hk
    simp only [alookup_filter_key] at hk
    split at hk
    · exact h.1 k i hk
    · cases hk
  · intro k1 k2 i h1 h2
    simp only [alookup_filter_key] at h1 h2
    split at h1 <;> split at h2 <;> first | exact h.2 k1 k2 i h1 h2 | cases h1 | cases h2

end MesonModel.Options
