import MesonModel.Options.SubLemmas
/-
What `set_option` *returns* (`changed`) and what it leaves behind when the key is a per-project override
(`:name`, `sub:name`: only the global option object exists) or a registered, non-yielding option — for every store,
every option class, any `first_invocation`.  `meson configure` saves only when a call reported a change and the
`buildtype` expansion runs only then, so the report has to be "the effective value changed".
-/
namespace MesonModel.Options
open M

/-- **`set_option` on an override, any prior override, any `first_invocation`**: the override is written; the call
reports `changed` exactly when the value the project saw before (`x.getD o.value`: its override, else the global
value) differs from the new one; a read-only option that would change raises *after* the write (as in Python) -/
theorem setOption_override (s : Store) (ks : Key) (v w : Val) (first : Bool) (id : Nat) (o : Obj) (x : Option Val)
    (sub : Str) (hm : ks.machine = .host) (hs : ks.sub = some sub)
    (hn : (ks.name == sPrefix) = false) (hbt : (ks.name == sBuildtype) = false)
    (g : GoodSub ks id s o x) (hv : validate o.kind v = .ok w) :
    setOption ks v first s =
      ((if o.readonly && (x.getD o.value != w) && !first then .error .meson else .ok (x.getD o.value != w)),
       { s with augments := ainsert ks w s.augments }) := by
  have hah : ahas ks s.options = false := by simp [ahas, g.nosub]
  have hp0 : s.projectOptions.contains ks = false := g.noproj
  have hp : ¬ ks ∈ s.projectOptions := by simpa using hp0
  have hres : resolveId s ks = .ok id := by
    simp [resolveId, ensureKey_host s ks hm, g.nosub, Store.isProjectOption, hp, g.opt]
  have hsome : ks.sub.isSome = true := by simp [hs]
  cases x with
  | some a =>
    cases hro : o.readonly <;> cases first <;> cases hch : (a != w) <;>
      simp [setOption, setOptionCore, setOptionTail, sanitizeForSet, resolveForSet, Bind.bind, M.bind, M.get,
        hah, hsome, hn, hbt, g.nb, hres, M.pure, getObj, g.obj, hv, M.ofExcept, M.assert, M.modify, g.aug, M.fail, hro, hch] <;>
      simp_all
  | none =>
    cases hro : o.readonly <;> cases first <;> cases hch : (o.value != w) <;>
      simp [setOption, setOptionCore, setOptionTail, sanitizeForSet, resolveForSet, Bind.bind, M.bind, M.get,
        hah, hsome, hn, hbt, g.nb, hres, M.pure, getObj, g.obj, hv, M.ofExcept, M.assert, M.modify, g.aug, M.fail, hro, hch] <;>
      simp_all

/-- the store `set_option` leaves behind sees the new value, whatever the override was before -/
theorem GoodSub.afterSet {ks : Key} {id : Nat} {s : Store} {o : Obj} {x : Option Val} (g : GoodSub ks id s o x)
    (w : Val) : GoodSub ks id { s with augments := ainsert ks w s.augments } o (some w) :=
  ⟨g.opt, g.obj, fun key i hk hkn => g.own key i hk hkn, g.nosub, g.noproj, g.nb, by simp [alookup_ainsert], g.ny⟩

/-- `set_user_option` (any `first_invocation`) on an override is `set_option` on it -/
theorem setUserOption_override_eq (s : Store) (ks : Key) (v : Val) (first : Bool) (id : Nat) (o : Obj)
    (x : Option Val) (sub : Str) (hm : ks.machine = .host) (hs : ks.sub = some sub) (g : GoodSub ks id s o x) :
    setUserOption ks v first s = setOption ks v first s := by
  have hfb : ks.isForBuild = false := by simp [Key.isForBuild, hm]
  have hah : ahas ks s.options = false := by simp [ahas, g.nosub]
  have hag : ahas ks.global s.options = true := by simp [ahas, g.opt]
  have hsome : ks.sub.isSome = true := by simp [hs]
  simp [setUserOption, Bind.bind, M.bind, M.get, hfb, hah, hag, hsome]

/-- **`set_option` on a registered, non-yielding option, any `first_invocation`** -/
theorem setOption_existing (s : Store) (k : Key) (v w : Val) (first : Bool) (id : Nat) (o : Obj)
    (hm : k.machine = .host)
    (hn : (k.name == sPrefix) = false) (hbt : (k.name == sBuildtype) = false) (g : Good k id s o)
    (hv : validate o.kind v = .ok w) :
    setOption k v first s =
      ((if o.readonly && (o.value != w) && !first then .error .meson else .ok (o.value != w)),
       (s.updObj id (fun o => { o with value := w })).updObj id (fun o => { o with yielding := false })) := by
  have hah : ahas k s.options = true := by simp [ahas, g.opt]
  have hres : resolveId s k = .ok id := by simp [resolveId, ensureKey_host s k hm, g.opt]
  have hw : validate o.kind w = .ok w := validate_idempotent hv
  have hny := g.ny
  cases hro : o.readonly <;> cases first <;> cases hch : (o.value != w) <;>
    simp [setOption, setOptionCore, setOptionTail, sanitizeForSet, resolveForSet, Bind.bind, M.bind, M.get, hah, hn, hbt,
      g.nb, hres, M.pure, getObj, g.obj, hv, hw, M.ofExcept, objSetValue, objSetYielding, M.modify, hny, M.fail, hro, hch] <;>
    simp_all

theorem Good.afterSet {k : Key} {id : Nat} {s : Store} {o : Obj} (g : Good k id s o) (w : Val) :
    Good k id ((s.updObj id (fun o => { o with value := w })).updObj id (fun o => { o with yielding := false }))
      { o with value := w, yielding := false } := by
  refine ⟨by simp [g.opt], ?_, ?_, ?_, by simp [g.aug], rfl⟩
  · have h1 := updObj_heap_same s id (fun o => { o with value := w }) o g.obj
    exact updObj_heap_same _ id (fun o => { o with yielding := false }) _ h1
  · intro key' i hk' hn'; simp at hk'; exact g.own key' i hk' hn'
  · have := g.nb; simpa [Store.isBuiltin] using this

end MesonModel.Options
