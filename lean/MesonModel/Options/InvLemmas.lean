import MesonModel.Options.ValidateLemmas
/-
The validity invariant of the store and a small Hoare-style rule set for the monad `M`:
`Pres m` = running `m` (to completion or to an exception) keeps every object of the heap valid.
-/
namespace MesonModel.Options
open M

/-- every option object of the heap (reachable or stale) holds a value that satisfies its class -/
def HeapValid (s : Store) : Prop := ∀ o ∈ s.heap, conforms o.kind o.value = true

/-- `m` preserves `HeapValid`, whether it returns or raises -/
structure Pres {α : Type} (m : M α) : Prop where
  run : ∀ s, HeapValid s → HeapValid (m s).2

namespace Pres
variable {α β : Type}

theorem pure' (a : α) : Pres (M.pure a) := ⟨fun _ h => h⟩
theorem pure (a : α) : Pres (Pure.pure a : M α) := ⟨fun _ h => h⟩
theorem fail (e : Err) : Pres (M.fail e : M α) := ⟨fun _ h => h⟩
theorem get : Pres M.get := ⟨fun _ h => h⟩
theorem ofExcept (e : Except Err α) : Pres (M.ofExcept e) := by
  cases e <;> constructor <;> intro s h <;> exact h
theorem assert (b : Bool) : Pres (M.assert b) := by
  cases b <;> constructor <;> intro s h <;> exact h
theorem modify {f : Store → Store} (hf : ∀ s, HeapValid s → HeapValid (f s)) : Pres (M.modify f) :=
  ⟨fun s h => hf s h⟩

theorem bind' {m : M α} {f : α → M β} (hm : Pres m) (hf : ∀ a, Pres (f a)) : Pres (M.bind m f) := by
  constructor
  intro s h
  have h1 := hm.run s h
  unfold M.bind
  cases hr : m s with
  | mk r s' =>
    rw [hr] at h1
    cases r with
    | ok a => exact (hf a).run s' h1
    | error e => exact h1

theorem bind {m : M α} {f : α → M β} (hm : Pres m) (hf : ∀ a, Pres (f a)) : Pres (m >>= f) :=
  bind' hm hf

theorem catchMeson {m h : M α} (hm : Pres m) (hh : Pres h) : Pres (M.catchMeson m h) := by
  constructor
  intro s hs
  have h1 := hm.run s hs
  unfold M.catchMeson
  cases hr : m s with
  | mk r s' =>
    rw [hr] at h1
    cases r with
    | ok a => exact h1
    | error e => cases e <;> first | exact hh.run s' h1 | exact h1

theorem forEach {γ : Type} {f : γ → M Unit} (hf : ∀ x, Pres (f x)) : ∀ l, Pres (M.forEach f l)
  | [] => pure' ()
  | x :: r => bind' (hf x) (fun _ => forEach hf r)

theorem ite {c : Prop} [Decidable c] {a b : M α} (ha : Pres a) (hb : Pres b) : Pres (if c then a else b) := by
  split <;> assumption
end Pres

theorem heapValid_updObj {s : Store} {id : Nat} {f : Obj → Obj}
    (hf : ∀ o, conforms o.kind o.value = true → conforms (f o).kind (f o).value = true)
    (h : HeapValid s) : HeapValid (s.updObj id f) := by
  unfold Store.updObj
  cases ho : s.heap[id]? with
  | none => exact h
  | some o =>
    intro x hx
    simp only at hx
    rcases List.mem_or_eq_of_mem_set hx with hx | hx
    · exact h x hx
    · subst hx
      exact hf o (h o (List.mem_of_getElem? ho))

theorem Pres.getObj (id : Nat) : Pres (getObj id) := by
  constructor; intro s h; unfold MesonModel.Options.getObj; split <;> exact h

/-- `opt.set_value(v)` keeps the heap valid because it stores what `validate` returned -/
theorem Pres.objSetValue (id : Nat) (v : Val) : Pres (objSetValue id v) := by
  constructor
  intro s h
  unfold MesonModel.Options.objSetValue
  simp only [Bind.bind, M.bind, MesonModel.Options.getObj]
  cases ho : s.heap[id]? with
  | none => exact h
  | some o =>
    simp only
    cases hv : validate o.kind v with
    | error e => simpa [M.ofExcept, M.fail] using h
    | ok v' =>
      simp only [M.ofExcept, M.pure, M.modify]
      unfold Store.updObj
      simp only [ho]
      intro x hx
      rcases List.mem_or_eq_of_mem_set hx with hx | hx
      · exact h x hx
      · subst hx; exact validate_sound hv

theorem Pres.objSetYielding (id : Nat) (b : Bool) : Pres (objSetYielding id b) :=
  Pres.modify (fun _ h => heapValid_updObj (fun _ ho => ho) h)

theorem Pres.alloc {o : Obj} (ho : conforms o.kind o.value = true) : Pres (alloc o) := by
  constructor
  intro s h x hx
  simp only [MesonModel.Options.alloc, List.mem_append, List.mem_singleton] at hx
  rcases hx with hx | hx
  · exact h x hx
  · subst hx; exact ho

/-- `UserOption.__post_init__`: a constructed object is valid -/
theorem mkObj_valid {sp : ObjSpec} {o : Obj} (h : mkObj sp = .ok o) : conforms o.kind o.value = true := by
  unfold mkObj at h
  cases hv : validate sp.kind sp.default with
  | error e => simp [hv] at h
  | ok v => simp [hv] at h; subst h; exact validate_sound hv

end MesonModel.Options
