import MesonModel.Options.Model
/-
The dict that `initialize_from_subproject_call` builds (`mergeSub`) — what it holds for one option of the
subproject, for arbitrary input dicts.  This is where the documented eight-step order lives.
-/
namespace MesonModel.Options

variable {κ α : Type} [DecidableEq κ]

theorem alookup_ainsert (k k' : κ) (v : α) (d : List (κ × α)) :
    alookup k (ainsert k' v d) = if k' = k then some v else alookup k d := by
  induction d with
  | nil => simp [ainsert, alookup]
  | cons p r ih =>
    obtain ⟨a, b⟩ := p
    by_cases h : a = k' <;> by_cases h2 : k' = k <;> simp_all [ainsert, alookup]

theorem alookup_aerase (k k' : κ) (d : List (κ × α)) :
    alookup k (aerase k' d) = if k' = k then none else alookup k d := by
  induction d with
  | nil => simp [aerase, alookup]
  | cons p r ih =>
    obtain ⟨a, b⟩ := p
    by_cases h : a = k' <;> by_cases h2 : k' = k <;> simp_all [aerase, alookup]

/-- first of two optional values -/
def ofirst (a b : Option α) : Option α :=
  match a with
  | some x => some x
  | none => b

/-- the *last* binding of `k` in a list of entries (for a Python dict, whose keys are unique, this is the
binding, see `alast_eq_alookup`) -/
def alast (k : κ) : List (κ × α) → Option α
  | [] => none
  | (k', v) :: r => ofirst (alast k r) (if k' = k then some v else none)

theorem alast_none_of_not_mem (k : κ) : ∀ (d : List (κ × α)), k ∉ d.map Prod.fst → alast k d = none
  | [], _ => rfl
  | (a, b) :: r, h => by
    simp at h
    have h1 : ¬ a = k := fun e => h.1 e.symm
    simp [alast, alast_none_of_not_mem k r (by simpa using h.2), ofirst, h1]

/-- on a dict (unique keys) the last binding is the binding -/
theorem alast_eq_alookup (k : κ) : ∀ (d : List (κ × α)), (d.map Prod.fst).Nodup → alast k d = alookup k d
  | [], _ => rfl
  | (a, b) :: r, h => by
    simp at h
    by_cases e : a = k
    · subst e
      simp [alast, alookup, alast_none_of_not_mem a r (by simpa using h.1), ofirst]
    · simp [alast, alookup, e, alast_eq_alookup k r h.2, ofirst]
      cases alookup k r <;> rfl

theorem alast_append (k : κ) (a b : List (κ × α)) : alast k (a ++ b) = ofirst (alast k b) (alast k a) := by
  induction a with
  | nil => simp [alast, ofirst]; cases alast k b <;> rfl
  | cons p r ih =>
    obtain ⟨x, y⟩ := p
    simp [alast, ih]
    cases alast k b <;> simp [ofirst]

theorem any_key_iff_alast (k : κ) (d : List (κ × α)) : (d.any (fun p => p.1 == k)) = (alast k d).isSome := by
  induction d with
  | nil => rfl
  | cons p r ih =>
    obtain ⟨x, y⟩ := p
    simp only [List.any_cons, alast, ih]
    cases alast k r <;> by_cases e : x = k <;> simp [ofirst, e]

section merge
variable (sub n : Str) (m : Machine)

/-- loops 1 and 4 -/
theorem mergeDefaults_lookup : ∀ (l acc d : Dict), mergeDefaults sub l acc = .ok d →
    alookup ⟨n, some sub, m⟩ d = ofirst (alast ⟨n, none, m⟩ l) (alookup ⟨n, some sub, m⟩ acc)
  | [], acc, d, h => by simp [mergeDefaults] at h; subst h; simp [alast, ofirst]
  | (k, v) :: r, acc, d, h => by
    unfold mergeDefaults at h
    by_cases hs : (k.sub == some sub) = true
    · simp [hs] at h
    · simp only [hs] at h
      have ih := mergeDefaults_lookup r _ d h
      rw [ih, alookup_ainsert]
      simp only [alast]
      have hne : k.sub ≠ some sub := by simpa using hs
      have key : ((if k.sub.isNone = true then k.withSub sub else k) = (⟨n, some sub, m⟩ : Key)) ↔
          (k = (⟨n, none, m⟩ : Key)) := by
        obtain ⟨kn, ks, km⟩ := k
        cases ks with
        | none => simp [Key.withSub]
        | some x =>
          simp at hne
          simp [hne]
      generalize alast (⟨n, none, m⟩ : Key) r = X
      by_cases e : k = (⟨n, none, m⟩ : Key)
      · rw [if_pos (key.mpr e), if_pos e]; cases X <;> rfl
      · rw [if_neg (mt key.mp e), if_neg e]; cases X <;> rfl

/-- loop 2 -/
theorem dropGlobals_lookup (po : List Key) : ∀ (l acc : Dict),
    alookup ⟨n, some sub, m⟩ (dropGlobals po sub l acc) =
      if (alast ⟨n, none, m⟩ l).isSome && !(po.contains ⟨n, some [], m⟩) then none
      else alookup ⟨n, some sub, m⟩ acc
  | [], acc => by simp [dropGlobals, alast]
  | (k, v) :: r, acc => by
    unfold dropGlobals
    have hl : (alast (⟨n, none, m⟩ : Key) ((k, v) :: r)).isSome =
        ((alast (⟨n, none, m⟩ : Key) r).isSome || decide (k = (⟨n, none, m⟩ : Key))) := by
      simp only [alast]
      cases alast (⟨n, none, m⟩ : Key) r <;> by_cases e : k = (⟨n, none, m⟩ : Key) <;> simp [ofirst, e]
    rw [hl]
    by_cases e : k = (⟨n, none, m⟩ : Key)
    · subst e
      have hr : (Key.asRoot ⟨n, none, m⟩) = (⟨n, some [], m⟩ : Key) := rfl
      have hw : (Key.withSub ⟨n, none, m⟩ sub) = (⟨n, some sub, m⟩ : Key) := rfl
      simp only [hr, hw, Option.isNone_none, Bool.true_and, decide_true, Bool.or_true]
      by_cases hp : po.contains (⟨n, some [], m⟩ : Key) = true
      · simp only [hp, Bool.not_true, Bool.false_eq_true, ↓reduceIte]
        rw [dropGlobals_lookup po r acc]; simp only [hp, Bool.not_true, Bool.and_false, Bool.false_eq_true, ↓reduceIte]
      · have hp' : po.contains (⟨n, some [], m⟩ : Key) = false := by simpa using hp
        simp only [hp', Bool.not_false, ↓reduceIte]
        rw [dropGlobals_lookup po r _, alookup_aerase]; simp
    · simp only [e, decide_false, Bool.or_false]
      split
      · rename_i hc
        rw [dropGlobals_lookup po r _, alookup_aerase]
        have : ¬ (k.withSub sub = (⟨n, some sub, m⟩ : Key)) := by
          obtain ⟨kn, ks, km⟩ := k
          cases ks with
          | some x => simp at hc
          | none => simp [Key.withSub]; intro a b; exact e (by simp [a, b])
        simp [this]
      · exact dropGlobals_lookup po r acc

/-- loops 3 and 5 -/
theorem mergeAddressed_lookup : ∀ (l acc : Dict),
    alookup ⟨n, some sub, m⟩ (mergeAddressed sub l acc) =
      ofirst (alast ⟨n, some sub, m⟩ l) (alookup ⟨n, some sub, m⟩ acc)
  | [], acc => by simp [mergeAddressed, alast, ofirst]
  | (k, v) :: r, acc => by
    unfold mergeAddressed
    by_cases hs : (k.sub == some sub) = true
    · simp only [hs, ↓reduceIte]
      rw [mergeAddressed_lookup r _, alookup_ainsert]
      by_cases e : k = (⟨n, some sub, m⟩ : Key)
      · simp [alast, e]; cases alast (⟨n, some sub, m⟩ : Key) r <;> rfl
      · simp [alast, e]; cases alast (⟨n, some sub, m⟩ : Key) r <;> rfl
    · rw [if_neg hs, mergeAddressed_lookup r acc]
      have e : ¬ k = (⟨n, some sub, m⟩ : Key) := by
        intro e; subst e; simp at hs
      simp [alast, e]; cases alast (⟨n, some sub, m⟩ : Key) r <;> rfl

/-- **the eight-step merge for one option** (`n`, machine `m`) of subproject `sub`, for arbitrary input
dicts: the merged dict holds, in decreasing priority,
`subp:opt` from the command line, from the machine file, `opt` from `subproject(default_options:)`,
`subp:opt` from the parent's `default_options` (recorded in `pending_subproject_options`), and `opt` from
the subproject's own `default_options` — the latter only if neither machine file nor command line set the
global `opt` (then nothing is held and the global value, set at top level, stands) unless `opt` is a
top-level *project* option. -/
theorem mergeSub_lookup (po : List Key) (ps spcall pdo cmd mf d : Dict)
    (h : mergeSub po ps sub spcall pdo cmd mf = .ok d) :
    alookup ⟨n, some sub, m⟩ d =
      ofirst (alast ⟨n, some sub, m⟩ cmd)                       -- 8. command line  subp:opt
      (ofirst (alast ⟨n, some sub, m⟩ mf)                       -- 7. machine file  subp:opt
      (ofirst (alast ⟨n, none, m⟩ spcall)                       -- 6. subproject(default_options:)
      (ofirst (alast ⟨n, some sub, m⟩ ps)                       -- 5. parent default_options  subp:opt
      (if ((alast ⟨n, none, m⟩ cmd).isSome || (alast ⟨n, none, m⟩ mf).isSome) -- 4./3. global opt given:
            && !(po.contains ⟨n, some [], m⟩) then none         --    the global value stands
       else alast ⟨n, none, m⟩ pdo)))) := by                    -- 2. subproject's own default_options
  unfold mergeSub at h
  cases h1 : mergeDefaults sub pdo [] with
  | error e => simp [h1] at h
  | ok d1 =>
    simp only [h1] at h
    cases h4 : mergeDefaults sub spcall
        (mergeAddressed sub ps (dropGlobals po sub (mf ++ cmd) d1)) with
    | error e => simp [h4] at h
    | ok d4 =>
      simp only [h4] at h
      cases h
      rw [mergeAddressed_lookup, alast_append, mergeDefaults_lookup sub n m _ _ _ h4, mergeAddressed_lookup,
        dropGlobals_lookup, alast_append, mergeDefaults_lookup sub n m _ _ _ h1]
      simp only [alookup, ofirst]
      cases alast (⟨n, some sub, m⟩ : Key) cmd <;> cases alast (⟨n, some sub, m⟩ : Key) mf <;>
        cases alast (⟨n, none, m⟩ : Key) spcall <;> cases alast (⟨n, some sub, m⟩ : Key) ps <;>
        cases alast (⟨n, none, m⟩ : Key) cmd <;> cases alast (⟨n, none, m⟩ : Key) mf <;>
        cases alast (⟨n, none, m⟩ : Key) pdo <;> simp
end merge

end MesonModel.Options
