import MesonModel.Options.InvLemmas
/-
Every operation of the model preserves `HeapValid` (on normal return *and* when it raises).
-/
namespace MesonModel.Options
open M

macro "pres_core" : tactic => `(tactic| first
  | exact Pres.pure' _ | exact Pres.pure _ | exact Pres.fail _ | exact Pres.get | exact Pres.ofExcept _
  | exact Pres.assert _ | exact Pres.getObj _ | exact Pres.objSetValue _ _ | exact Pres.objSetYielding _ _
  | (apply Pres.modify; intro s hs; exact hs)
  | assumption
  | with_reducible apply Pres.bind | with_reducible apply Pres.bind' | with_reducible apply Pres.forEach
  | with_reducible apply Pres.catchMeson
  | intro _
  | split
  | (dsimp only))

theorem Pres.resetPrefixedOptions (a b : Str) : Pres (resetPrefixedOptions a b) := by
  unfold MesonModel.Options.resetPrefixedOptions; repeat pres_core

theorem Pres.setOptionTail (s : Store) (k : Key) (f : Bool) (id : Nat) (v : Val) : Pres (setOptionTail s k f id v) := by
  unfold MesonModel.Options.setOptionTail; repeat (first | exact Pres.resetPrefixedOptions _ _ | pres_core)

theorem Pres.setOptionCore (k : Key) (v : Val) (f : Bool) : Pres (setOptionCore k v f) := by
  unfold MesonModel.Options.setOptionCore; repeat (first | exact Pres.setOptionTail _ _ _ _ _ | pres_core)

theorem Pres.setOption (k : Key) (v : Val) (f : Bool) : Pres (setOption k v f) := by
  unfold MesonModel.Options.setOption; repeat (first | exact Pres.setOptionCore _ _ _ | pres_core)

theorem Pres.setUserOption (k : Key) (v : Val) (f : Bool) : Pres (setUserOption k v f) := by
  unfold MesonModel.Options.setUserOption; repeat (first | exact Pres.setOption _ _ _ | pres_core)

theorem Pres.addSystemHere (k : Key) (o : Obj) (ho : conforms o.kind o.value = true) : Pres (addSystemHere k o) := by
  unfold MesonModel.Options.addSystemHere; repeat (first | exact Pres.setOption _ _ _ | exact Pres.alloc ho | pres_core)

theorem Pres.addSystemInternal (k : Key) (o : Obj) (ho : conforms o.kind o.value = true) :
    Pres (addSystemInternal k o) := by
  unfold MesonModel.Options.addSystemInternal; repeat (first | exact Pres.setOption _ _ _ | exact Pres.addSystemHere _ _ ho | pres_core)

theorem Pres.addSystemOption (k : Key) (o : Obj) (ho : conforms o.kind o.value = true) :
    Pres (addSystemOption k o) := by
  unfold MesonModel.Options.addSystemOption; repeat (first | exact Pres.addSystemInternal _ _ ho | pres_core)

theorem Pres.addModuleOption (m : Str) (k : Key) (o : Obj) (ho : conforms o.kind o.value = true) :
    Pres (addModuleOption m k o) := by
  unfold MesonModel.Options.addModuleOption; repeat (first | exact Pres.addSystemInternal _ _ ho | pres_core)

theorem Pres.addProjectOption (k : Key) (o : Obj) (ho : conforms o.kind o.value = true) :
    Pres (addProjectOption k o) := by
  unfold MesonModel.Options.addProjectOption
  repeat (first | exact Pres.alloc (o := { o with parent := _, yielding := _ }) ho | pres_core)


theorem Pres.addBuiltinOption (k : Key) (row : Str × Kind × Val × Bool) : Pres (addBuiltinOption k row) := by
  unfold MesonModel.Options.addBuiltinOption
  obtain ⟨n, kind, d, ro⟩ := row
  dsimp only
  apply Pres.bind (Pres.ofExcept _)
  intro o
  -- the value put into the copy is what `validate` returned
  constructor
  intro s hs
  simp only [Bind.bind, M.bind]
  generalize hraw : (if (k.sub.isNone && k.machine == Machine.host) = true then
      match alookup k.name Tables.nopfxTable with
      | some m => (match alookup Tables.defaultPrefix m with | some v => Val.str v | none => o.default)
      | none => o.default
    else o.default) = raw
  cases hv : validate o.kind raw with
  | error e => simpa [M.ofExcept, M.fail] using hs
  | ok w =>
    simp only [M.ofExcept, M.pure]
    have hw : conforms ({ o with value := w } : Obj).kind ({ o with value := w } : Obj).value = true :=
      validate_sound hv
    split
    · exact (Pres.addModuleOption _ _ _ hw).run s hs
    · exact (Pres.addSystemOption _ _ hw).run s hs

theorem Pres.initBuiltins : Pres initBuiltins := by
  unfold MesonModel.Options.initBuiltins
  repeat (first | exact Pres.addBuiltinOption _ _ | pres_core)

theorem Pres.initBuiltinsCross : Pres initBuiltinsCross := by
  unfold MesonModel.Options.initBuiltinsCross
  repeat (first | exact Pres.addBuiltinOption _ _ | pres_core)

theorem Pres.coreDataInit : Pres coreDataInit := by
  unfold MesonModel.Options.coreDataInit
  apply Pres.bind Pres.get
  intro s
  split
  · exact Pres.initBuiltinsCross
  · exact Pres.initBuiltins

theorem Pres.hardResetFromPrefix (p : Str) : Pres (hardResetFromPrefix p) := by
  unfold MesonModel.Options.hardResetFromPrefix; repeat pres_core

theorem Pres.firstHandlePrefix (a b c : Dict) : Pres (firstHandlePrefix a b c) := by
  unfold MesonModel.Options.firstHandlePrefix
  repeat (first | exact Pres.hardResetFromPrefix _ | pres_core)

theorem Pres.initTop (a b c : Dict) : Pres (initTop a b c) := by
  unfold MesonModel.Options.initTop
  repeat (first | exact Pres.firstHandlePrefix _ _ _ | exact Pres.setUserOption _ _ _ | pres_core)

theorem Pres.applyMergedWith (ex : Dict) (sub : Str) (d : Dict) : Pres (applyMergedWith ex sub d) := by
  unfold MesonModel.Options.applyMergedWith
  repeat (first | exact Pres.setUserOption _ _ _ | pres_core)

theorem Pres.applyMerged (sub : Str) (d : Dict) : Pres (applyMerged sub d) :=
  ⟨fun s h => (Pres.applyMergedWith s.augments sub (buildtypeFirst d)).run s h⟩

theorem Pres.initSub (sub : Str) (a b c d : Dict) : Pres (initSub sub a b c d) := by
  unfold MesonModel.Options.initSub
  repeat (first | exact Pres.applyMerged _ _ | pres_core)

theorem Pres.configureOne (kv : Key × Option Val) : Pres (configureOne kv) := by
  unfold MesonModel.Options.configureOne
  repeat (first | exact Pres.setUserOption _ _ _ | pres_core)

theorem Pres.setFromConfigure : ∀ (l : List (Key × Option Val)) (d : Bool), Pres (setFromConfigure l d)
  | [], d => Pres.pure' d
  | kv :: r, d => by
    unfold MesonModel.Options.setFromConfigure
    exact Pres.bind' (Pres.configureOne kv) (fun b => Pres.setFromConfigure r (d || b))

/-- re-pointing children changes neither kind nor value of any object -/
theorem Pres.repointChildren (oid nid : Nat) : Pres (repointChildren oid nid) := by
  unfold MesonModel.Options.repointChildren
  apply Pres.modify
  intro s hs
  split
  · exact hs
  · intro o ho
    simp only [List.mem_map] at ho
    obtain ⟨c, hc, rfl⟩ := ho
    have := hs c hc
    split
    · split <;> exact this
    · exact this

theorem Pres.replaceObj (key : Key) (nobj old : Obj) (oid : Nat) (b : Bool) (ho : conforms nobj.kind nobj.value = true) :
    Pres (replaceObj key nobj old oid b) := by
  unfold MesonModel.Options.replaceObj
  repeat (first | exact Pres.alloc (o := { nobj with parent := _, yielding := _ }) ho
                | exact Pres.repointChildren _ _ | pres_core)

theorem Pres.updateOne (sub : Str) (kv : Key × Obj) (ho : conforms kv.2.kind kv.2.value = true) :
    Pres (updateOne sub kv) := by
  unfold MesonModel.Options.updateOne
  repeat (first | exact Pres.setOption _ _ _ | exact Pres.addProjectOption _ _ ho | exact Pres.replaceObj _ _ _ _ _ ho
                | pres_core)

theorem Pres.forEachMem {γ : Type} {f : γ → M Unit} : ∀ (l : List γ), (∀ x ∈ l, Pres (f x)) → Pres (M.forEach f l)
  | [], _ => Pres.pure' ()
  | x :: r, h => Pres.bind' (h x (by simp)) (fun _ => Pres.forEachMem r (fun y hy => h y (by simp [hy])))

theorem Pres.unlinkChildren (ids : List Nat) : Pres (unlinkChildren ids) := by
  unfold MesonModel.Options.unlinkChildren
  apply Pres.modify
  intro s hs o ho
  simp only [List.mem_map] at ho
  obtain ⟨c, hc, rfl⟩ := ho
  have := hs c hc
  split
  · split <;> exact this
  · exact this

theorem Pres.updateProjectOptions (sub : Str) (objs : List (Key × Obj))
    (ho : ∀ kv ∈ objs, conforms kv.2.kind kv.2.value = true) : Pres (updateProjectOptions sub objs) := by
  unfold MesonModel.Options.updateProjectOptions
  apply Pres.bind
  · exact Pres.forEachMem objs (fun kv hkv => Pres.updateOne sub kv (ho kv hkv))
  · intro _
    apply Pres.bind Pres.get
    intro s0
    apply Pres.bind
    · apply Pres.modify; intro s hs; exact hs
    · intro _; exact Pres.unlinkChildren _

theorem mkObjs_valid : ∀ {l : List (Key × ObjSpec)} {os : List (Key × Obj)}, mkObjs l = .ok os →
    ∀ kv ∈ os, conforms kv.2.kind kv.2.value = true
  | [], os, h => by simp [mkObjs] at h; subst h; simp
  | (k, sp) :: r, os, h => by
    unfold mkObjs at h
    cases ho : mkObj sp with
    | error e => simp [ho] at h
    | ok o =>
      simp only [ho] at h
      cases hr : mkObjs r with
      | error e => simp [hr, Except.map] at h
      | ok l =>
        simp [hr, Except.map] at h; subst h
        intro kv hkv
        simp at hkv
        rcases hkv with rfl | hkv
        · exact mkObj_valid ho
        · exact mkObjs_valid hr kv hkv

theorem Pres.bind_ofExcept {α β : Type} {e : Except Err α} {f : α → M β}
    (hf : ∀ a, e = .ok a → Pres (f a)) : Pres (M.ofExcept e >>= f) := by
  cases e with
  | error x => exact ⟨fun s h => h⟩
  | ok a => exact ⟨fun s h => (hf a rfl).run s h⟩

/-- every API call keeps every stored value valid, on normal return and when it raises -/
theorem Pres.applyOp (op : Op) : Pres (applyOp op) := by
  cases op with
  | addSystem k sp =>
    unfold MesonModel.Options.applyOp
    apply Pres.bind_ofExcept; intro o ho
    repeat (first | exact Pres.addSystemOption _ _ (mkObj_valid ho) | pres_core)
  | addProject k sp =>
    unfold MesonModel.Options.applyOp
    apply Pres.bind_ofExcept; intro o ho
    repeat (first | exact Pres.addProjectOption _ _ (mkObj_valid ho) | pres_core)
  | initBuiltins => unfold MesonModel.Options.applyOp; repeat (first | exact Pres.initBuiltins | pres_core)
  | setOption k v f => unfold MesonModel.Options.applyOp; repeat (first | exact Pres.setOption _ _ _ | pres_core)
  | setUser k v f => unfold MesonModel.Options.applyOp; repeat (first | exact Pres.setUserOption _ _ _ | pres_core)
  | initTop a b c => unfold MesonModel.Options.applyOp; repeat (first | exact Pres.initTop _ _ _ | pres_core)
  | initSub s a b c d => unfold MesonModel.Options.applyOp; repeat (first | exact Pres.initSub _ _ _ _ _ | pres_core)
  | configure a => unfold MesonModel.Options.applyOp; repeat (first | exact Pres.setFromConfigure _ _ | pres_core)
  | updateProject sub objs =>
    unfold MesonModel.Options.applyOp
    apply Pres.bind_ofExcept; intro os ho
    repeat (first | exact Pres.updateProjectOptions _ _ (mkObjs_valid ho) | pres_core)

end MesonModel.Options
