import MesonModel.Options.ParentLemmas
/- every operation of the model preserves `ParentOk` -/
namespace MesonModel.Options
open M

macro "pp_core" : tactic => `(tactic| first
  | exact PresPar.pure' _ | exact PresPar.pure _ | exact PresPar.fail _ | exact PresPar.get | exact PresPar.ofExcept _
  | exact PresPar.assert _ | exact PresPar.getObj _ | exact PresPar.objSetValue _ _ | exact PresPar.objSetYielding _ _
  | (apply PresPar.modify; intro s hs; exact hs)
  | assumption
  | with_reducible apply PresPar.bind | with_reducible apply PresPar.bind' | with_reducible apply PresPar.forEach
  | with_reducible apply PresPar.catchMeson
  | intro _
  | split
  | (dsimp only))

theorem PresPar.resetPrefixedOptions (a b : Str) : PresPar (resetPrefixedOptions a b) := by
  unfold MesonModel.Options.resetPrefixedOptions; repeat pp_core
theorem PresPar.setOptionTail (s : Store) (k : Key) (f : Bool) (id : Nat) (v : Val) : PresPar (setOptionTail s k f id v) := by
  unfold MesonModel.Options.setOptionTail; repeat (first | exact PresPar.resetPrefixedOptions _ _ | pp_core)
theorem PresPar.setOptionCore (k : Key) (v : Val) (f : Bool) : PresPar (setOptionCore k v f) := by
  unfold MesonModel.Options.setOptionCore; repeat (first | exact PresPar.setOptionTail _ _ _ _ _ | pp_core)
theorem PresPar.setOption (k : Key) (v : Val) (f : Bool) : PresPar (setOption k v f) := by
  unfold MesonModel.Options.setOption; repeat (first | exact PresPar.setOptionCore _ _ _ | pp_core)
theorem PresPar.setUserOption (k : Key) (v : Val) (f : Bool) : PresPar (setUserOption k v f) := by
  unfold MesonModel.Options.setUserOption; repeat (first | exact PresPar.setOption _ _ _ | pp_core)
theorem PresPar.addSystemHere (k : Key) (o : Obj) (ho : o.parent = none) : PresPar (addSystemHere k o) := by
  unfold MesonModel.Options.addSystemHere; repeat (first | exact PresPar.setOption _ _ _ | exact PresPar.alloc ho | pp_core)
theorem PresPar.addSystemInternal (k : Key) (o : Obj) (ho : o.parent = none) : PresPar (addSystemInternal k o) := by
  unfold MesonModel.Options.addSystemInternal
  repeat (first | exact PresPar.setOption _ _ _ | exact PresPar.addSystemHere _ _ ho | pp_core)
theorem PresPar.addSystemOption (k : Key) (o : Obj) (ho : o.parent = none) : PresPar (addSystemOption k o) := by
  unfold MesonModel.Options.addSystemOption; repeat (first | exact PresPar.addSystemInternal _ _ ho | pp_core)
theorem PresPar.addModuleOption (m : Str) (k : Key) (o : Obj) (ho : o.parent = none) : PresPar (addModuleOption m k o) := by
  unfold MesonModel.Options.addModuleOption; repeat (first | exact PresPar.addSystemInternal _ _ ho | pp_core)

/-- pointwise form: from the particular store `s0` -/
def At {α : Type} (s0 : Store) (m : M α) : Prop := ParentOk s0 → ParentOk (m s0).2

theorem At.of {α : Type} {s0 : Store} {m : M α} (h : PresPar m) : At s0 m := h.run s0
theorem PresPar.bind_get {β : Type} {f : Store → M β} (h : ∀ s0, At s0 (f s0)) : PresPar (M.get >>= f) :=
  ⟨fun s hs => h s hs⟩
theorem At.assert_bind {β : Type} {s0 : Store} (b : Bool) {f : Unit → M β} (h : At s0 (f ())) :
    At s0 (M.assert b >>= f) := by
  cases b
  · exact fun hs => hs
  · exact h
theorem At.ofExcept_bind {α β : Type} {s0 : Store} (e : Except Err α) {f : α → M β}
    (h : ∀ a, e = .ok a → At s0 (f a)) : At s0 (M.ofExcept e >>= f) := by
  cases e with
  | error x => exact fun hs => hs
  | ok a => exact h a rfl
theorem At.alloc_bind {β : Type} {s0 : Store} (o : Obj) {rest : Nat → M β}
    (ho : ∀ pid, o.parent = some pid → ∃ p : Obj, s0.heap[pid]? = some p ∧ p.kind.sameClass o.kind = true)
    (hrest : ∀ id, PresPar (rest id)) : At s0 (alloc o >>= rest) := by
  intro hs
  simp only [Bind.bind, M.bind, alloc]
  exact (hrest _).run _ (parentOk_alloc hs ho)

/-- the one place where a parent pointer is written: only to an object of the same class -/
theorem PresPar.addProjectOption (k0 : Key) (o : Obj) (ho : o.parent = none) : PresPar (addProjectOption k0 o) := by
  unfold MesonModel.Options.addProjectOption
  apply PresPar.bind_get
  intro s
  dsimp only
  apply At.assert_bind
  split
  · exact At.of (PresPar.fail _)
  · apply At.alloc_bind
    · intro pid hp
      simp only at hp
      split at hp
      · split at hp
        · rename_i pid' hl
          split at hp
          · rename_i p hh
            split at hp
            · rename_i hsame
              cases hp
              exact ⟨p, hh, hsame⟩
            · rw [ho] at hp; cases hp
          · rw [ho] at hp; cases hp
        · rw [ho] at hp; cases hp
      · rw [ho] at hp; cases hp
    · intro id; repeat pp_core

theorem PresPar.addBuiltinOption (k : Key) (row : Str × Kind × Val × Bool) : PresPar (addBuiltinOption k row) := by
  unfold MesonModel.Options.addBuiltinOption
  obtain ⟨n, kind, d, ro⟩ := row
  dsimp only
  constructor
  intro s
  apply At.ofExcept_bind
  intro o ho
  have hp := mkObj_parent ho
  apply At.ofExcept_bind
  intro nv _
  split
  · exact At.of (PresPar.addModuleOption _ _ _ (by simpa using hp))
  · exact At.of (PresPar.addSystemOption _ _ (by simpa using hp))

theorem PresPar.initBuiltins : PresPar initBuiltins := by
  unfold MesonModel.Options.initBuiltins; repeat (first | exact PresPar.addBuiltinOption _ _ | pp_core)
theorem PresPar.hardResetFromPrefix (p : Str) : PresPar (hardResetFromPrefix p) := by
  unfold MesonModel.Options.hardResetFromPrefix; repeat pp_core
theorem PresPar.firstHandlePrefix (a b c : Dict) : PresPar (firstHandlePrefix a b c) := by
  unfold MesonModel.Options.firstHandlePrefix; repeat (first | exact PresPar.hardResetFromPrefix _ | pp_core)
theorem PresPar.initTop (a b c : Dict) : PresPar (initTop a b c) := by
  unfold MesonModel.Options.initTop
  repeat (first | exact PresPar.firstHandlePrefix _ _ _ | exact PresPar.setUserOption _ _ _ | pp_core)
theorem PresPar.applyMergedWith (ex : Dict) (sub : Str) (d : Dict) : PresPar (applyMergedWith ex sub d) := by
  unfold MesonModel.Options.applyMergedWith; repeat (first | exact PresPar.setUserOption _ _ _ | pp_core)
theorem PresPar.applyMerged (sub : Str) (d : Dict) : PresPar (applyMerged sub d) :=
  ⟨fun s h => (PresPar.applyMergedWith s.augments sub (buildtypeFirst d)).run s h⟩
theorem PresPar.initSub (sub : Str) (a b c d : Dict) : PresPar (initSub sub a b c d) := by
  unfold MesonModel.Options.initSub; repeat (first | exact PresPar.applyMerged _ _ | pp_core)
theorem PresPar.configureOne (kv : Key × Option Val) : PresPar (configureOne kv) := by
  unfold MesonModel.Options.configureOne; repeat (first | exact PresPar.setUserOption _ _ _ | pp_core)
theorem PresPar.setFromConfigure : ∀ (l : List (Key × Option Val)) (d : Bool), PresPar (setFromConfigure l d)
  | [], d => PresPar.pure' d
  | kv :: r, d => by
    unfold MesonModel.Options.setFromConfigure
    exact PresPar.bind' (PresPar.configureOne kv) (fun b => PresPar.setFromConfigure r (d || b))
/-- children are re-pointed only at a replacement of their own class -/
theorem PresPar.repointChildren (oid nid : Nat) : PresPar (repointChildren oid nid) := by
  unfold MesonModel.Options.repointChildren
  apply PresPar.modify
  intro s hs
  split
  · exact hs
  · rename_i n hn
    let f : Obj → Obj := fun c => if c.parent == some oid then
        (if n.kind.sameClass c.kind then { c with parent := some nid } else { c with parent := none, yielding := false })
      else c
    have fk : ∀ c, (f c).kind = c.kind := by
      intro c
      simp only [f]
      split
      · split <;> rfl
      · rfl
    show ParentOk { s with heap := s.heap.map f }
    intro i o pid hi hpar
    simp only [List.getElem?_map, Option.map_eq_some_iff] at hi
    obtain ⟨c, hc, rfl⟩ := hi
    rw [fk]
    have hget : ∀ (j : Nat) (p : Obj), s.heap[j]? = some p → (s.heap.map f)[j]? = some (f p) := by
      intro j p hj; simp [hj]
    by_cases h1 : c.parent = some oid
    · by_cases h2 : n.kind.sameClass c.kind = true
      · have hp : (f c).parent = some nid := by simp [f, h1, h2]
        rw [hp] at hpar; cases hpar
        exact ⟨f n, hget _ _ hn, by rw [fk]; exact h2⟩
      · have hp : (f c).parent = none := by simp [f, h1, h2]
        rw [hp] at hpar; cases hpar
    · have hp : f c = c := by simp [f, h1]
      rw [hp] at hpar
      obtain ⟨p, hp', hs'⟩ := hs i c pid hc hpar
      exact ⟨f p, hget _ _ hp', by rw [fk]; exact hs'⟩

/-- a replaced option object is linked like a new one: only to a same-class object of the heap -/
theorem linkParent_ok (s : Store) (k : Key) (o : Obj) (ho : o.parent = none) (pid : Nat)
    (h : linkParent s k o = some pid) : ∃ p : Obj, s.heap[pid]? = some p ∧ p.kind.sameClass o.kind = true := by
  unfold linkParent at h
  split at h
  · split at h
    · split at h
      · rename_i p hh
        split at h
        · rename_i hsame
          cases h
          exact ⟨p, hh, hsame⟩
        · rw [ho] at h; cases h
      · rw [ho] at h; cases h
    · rw [ho] at h; cases h
  · rw [ho] at h; cases h

theorem PresPar.replaceObj (key : Key) (nobj old : Obj) (oid : Nat) (b : Bool) (ho : nobj.parent = none) :
    PresPar (replaceObj key nobj old oid b) := by
  unfold MesonModel.Options.replaceObj
  apply PresPar.bind_get
  intro s2
  apply At.alloc_bind
  · intro pid hp
    exact linkParent_ok s2 key nobj ho pid hp
  · intro id
    repeat (first | exact PresPar.repointChildren _ _ | pp_core)

theorem PresPar.updateOne (sub : Str) (kv : Key × Obj) (ho : kv.2.parent = none) : PresPar (updateOne sub kv) := by
  unfold MesonModel.Options.updateOne
  repeat (first | exact PresPar.setOption _ _ _ | exact PresPar.addProjectOption _ _ ho | exact PresPar.replaceObj _ _ _ _ _ ho
                | pp_core)
/-- unlinking only clears parent pointers -/
theorem PresPar.unlinkChildren (ids : List Nat) : PresPar (unlinkChildren ids) := by
  unfold MesonModel.Options.unlinkChildren
  apply PresPar.modify
  intro s hs
  let f : Obj → Obj := fun c =>
    match c.parent with
    | some pid => if ids.contains pid then { c with parent := none, yielding := false } else c
    | none => c
  have fk : ∀ c, (f c).kind = c.kind := by
    intro c; simp only [f]; split
    · split <;> rfl
    · rfl
  have fp : ∀ c pid, (f c).parent = some pid → c.parent = some pid := by
    intro c pid h
    simp only [f] at h
    split at h
    · split at h
      · cases h
      · exact h
    · rename_i hn; rw [hn] at h; cases h
  show ParentOk { s with heap := s.heap.map f }
  intro i o pid hi hpar
  simp only [List.getElem?_map, Option.map_eq_some_iff] at hi
  obtain ⟨c, hc, rfl⟩ := hi
  obtain ⟨p, hp, hs'⟩ := hs i c pid hc (fp c pid hpar)
  exact ⟨f p, by simp [hp], by rw [fk, fk]; exact hs'⟩

theorem PresPar.updateProjectOptions (sub : Str) (objs : List (Key × Obj)) (ho : ∀ kv ∈ objs, kv.2.parent = none) :
    PresPar (updateProjectOptions sub objs) := by
  unfold MesonModel.Options.updateProjectOptions
  apply PresPar.bind (PresPar.forEachMem objs (fun kv hkv => PresPar.updateOne sub kv (ho kv hkv)))
  intro _
  apply PresPar.bind PresPar.get
  intro s0
  apply PresPar.bind
  · apply PresPar.modify; intro s hs; exact hs
  · intro _; exact PresPar.unlinkChildren _

theorem mkObjs_parent : ∀ {l : List (Key × ObjSpec)} {os : List (Key × Obj)}, mkObjs l = .ok os →
    ∀ kv ∈ os, kv.2.parent = none
  | [], os, h => by simp [mkObjs] at h; subst h; simp
  | (k, sp) :: r, os, h => by
    unfold mkObjs at h
    cases ho : mkObj sp with
    | error e => simp [ho] at h
    | ok o =>
      simp only [ho] at h
      cases hr : mkObjs r with
      | error e => simp [hr, Except.map] at h
      | ok l =>
        simp [hr, Except.map] at h; subst h
        intro kv hkv
        simp at hkv
        rcases hkv with rfl | hkv
        · exact mkObj_parent ho
        · exact mkObjs_parent hr kv hkv

theorem PresPar.bind_ofExcept {α β : Type} {e : Except Err α} {f : α → M β}
    (hf : ∀ a, e = .ok a → PresPar (f a)) : PresPar (M.ofExcept e >>= f) := by
  cases e with
  | error x => exact ⟨fun s h => h⟩
  | ok a => exact ⟨fun s h => (hf a rfl).run s h⟩

theorem PresPar.applyOp (op : Op) : PresPar (applyOp op) := by
  cases op with
  | addSystem k sp =>
    unfold MesonModel.Options.applyOp
    apply PresPar.bind_ofExcept; intro o ho
    repeat (first | exact PresPar.addSystemOption _ _ (mkObj_parent ho) | pp_core)
  | addProject k sp =>
    unfold MesonModel.Options.applyOp
    apply PresPar.bind_ofExcept; intro o ho
    repeat (first | exact PresPar.addProjectOption _ _ (mkObj_parent ho) | pp_core)
  | initBuiltins => unfold MesonModel.Options.applyOp; repeat (first | exact PresPar.initBuiltins | pp_core)
  | setOption k v f => unfold MesonModel.Options.applyOp; repeat (first | exact PresPar.setOption _ _ _ | pp_core)
  | setUser k v f => unfold MesonModel.Options.applyOp; repeat (first | exact PresPar.setUserOption _ _ _ | pp_core)
  | initTop a b c => unfold MesonModel.Options.applyOp; repeat (first | exact PresPar.initTop _ _ _ | pp_core)
  | initSub s a b c d => unfold MesonModel.Options.applyOp; repeat (first | exact PresPar.initSub _ _ _ _ _ | pp_core)
  | configure a => unfold MesonModel.Options.applyOp; repeat (first | exact PresPar.setFromConfigure _ _ | pp_core)
  | updateProject sub objs =>
    unfold MesonModel.Options.applyOp
    apply PresPar.bind_ofExcept; intro os ho
    repeat (first | exact PresPar.updateProjectOptions _ _ (mkObjs_parent ho) | pp_core)

theorem parentOk_new (c : Bool) : ParentOk (Store.new c) := by
  intro i o pid h; simp [Store.new] at h

theorem parentOk_run (ops : List Op) (s : Store) (h : ParentOk s) : ParentOk (run s ops) := by
  induction ops generalizing s with
  | nil => exact h
  | cons op r ih => exact ih _ ((PresPar.applyOp op).run s h)

end MesonModel.Options
