import MesonModel.Options.Basic
import MesonModel.Generated.OptTables
/-
Executable model of `mesonbuild.options.OptionStore` (options.py:773-1417) and of the command-line
re-ordering in `mesonbuild.cmdline.parse_cmd_line_options` (cmdline.py:222-241).  Core Lean only.

How Python is rendered
----------------------
* **Object heap.**  `UserOption` objects are mutable and the store relies on their identity (`.parent`
  pointers of yielding options; `update_project_options` puts a *new* object under an existing key while
  children keep pointing at the old one).  Objects therefore live in `Store.heap : List Obj`, an object's id
  is its index, ids are never reused, `options : key ↦ id`, `Obj.parent : Option id`.
* **Dicts** are association lists in insertion order (`alookup`/`ainsert`/`aerase`); iteration order is
  observable (e.g. `buildtype` before/after `debug` inside `default_options`).
* **Mutation + exceptions.**  Every operation is a function in the monad `M α = Store → Except Err α × Store`:
  the state that comes back with an error is the state the Python object is left in when the exception
  escapes (Python does not roll back), e.g. the read-only check in `set_option` fires *after* the value was
  written.
* **Loops** over Python collections are structural recursion over the list; `set_option`'s recursion
  (`buildtype` → `debug`, `optimization`) and `add_system_option_internal`'s recursion (subproject key →
  global key) have depth one and are unrolled.

Not modelled (see also Basic.lean): the `deprecated=` handling of `set_option` (options.py:1027-1046; all
modelled objects have `deprecated=False`), `UserStdOption`, `add_compiler_option`'s name check,
`get_pending_value`, Windows path classes (`set_host_machine`).  `resolve_option`'s unreachable
`assert key.subproject is not None` is dropped.

Everything a later layer (C08) needs is exported: `Store`, `Obj`, `Op`, `applyOp`, `run`, `getValueFor`.
-/
namespace MesonModel.Options
open MesonModel.Py

/-! ## association lists (Python dicts) -/

def alookup {κ α : Type} [DecidableEq κ] (k : κ) : List (κ × α) → Option α
  | [] => none
  | (k', v) :: r => if k' = k then some v else alookup k r

/-- `d[k] = v`: replace in place when present, append otherwise -/
def ainsert {κ α : Type} [DecidableEq κ] (k : κ) (v : α) : List (κ × α) → List (κ × α)
  | [] => [(k, v)]
  | (k', v') :: r => if k' = k then (k, v) :: r else (k', v') :: ainsert k v r

/-- `d.pop(k, None)` / `del d[k]` -/
def aerase {κ α : Type} [DecidableEq κ] (k : κ) : List (κ × α) → List (κ × α)
  | [] => []
  | (k', v') :: r => if k' = k then aerase k r else (k', v') :: aerase k r

def ahas {κ α : Type} [DecidableEq κ] (k : κ) (l : List (κ × α)) : Bool := (alookup k l).isSome

abbrev Dict := List (Key × Val)

/-! ## objects and the store -/

/-- a `UserOption` object (name and description are not behaviour-relevant) -/
structure Obj where
  kind : Kind
  value : Val
  default : Val
  yielding : Bool
  readonly : Bool
  parent : Option Nat
  deriving DecidableEq, Repr, Inhabited

/-- constructor arguments of a `UserOption` (what `optinterpreter` / a caller passes) -/
structure ObjSpec where
  kind : Kind
  default : Val
  yielding : Bool := false
  readonly : Bool := false
  deriving DecidableEq, Repr, Inhabited

/-- `UserOption.__post_init__`: the default is validated, `value = default = validated` -/
def mkObj (sp : ObjSpec) : Except Err Obj :=
  match validate sp.kind sp.default with
  | .ok v => .ok { kind := sp.kind, value := v, default := v, yielding := sp.yielding,
                   readonly := sp.readonly, parent := none }
  | .error e => .error e

/-- `OptionStore` (options.py:781-797) -/
structure Store where
  isCross : Bool
  heap : List Obj := []
  options : List (Key × Nat) := []
  projectOptions : List Key := []
  moduleOptions : List Key := []
  augments : Dict := []
  pending : Dict := []
  pendingSub : Dict := []
  subprojects : List Str := []
  deriving DecidableEq, Repr, Inhabited

/-- `OptionStore(is_cross)` -/
def Store.new (isCross : Bool) : Store := { isCross := isCross }

def setAdd {α : Type} [DecidableEq α] (x : α) (l : List α) : List α := if l.contains x then l else l ++ [x]

/-! ## the state-and-exception monad -/

abbrev M (α : Type) : Type := Store → Except Err α × Store

namespace M
@[inline] protected def pure {α : Type} (a : α) : M α := fun s => (.ok a, s)
@[inline] protected def bind {α β : Type} (m : M α) (f : α → M β) : M β := fun s =>
  match m s with
  | (.ok a, s') => f a s'
  | (.error e, s') => (.error e, s')
instance : Monad M where
  pure := M.pure
  bind := M.bind
def get : M Store := fun s => (.ok s, s)
def modify (f : Store → Store) : M Unit := fun s => (.ok (), f s)
def fail {α : Type} (e : Err) : M α := fun s => (.error e, s)
def ofExcept {α : Type} : Except Err α → M α
  | .ok a => M.pure a
  | .error e => fail e
def assert (b : Bool) : M Unit := if b then M.pure () else fail .assertion
/-- `try: m  except MesonException: h` (`MesonBugException` is a subclass) -/
def catchMeson {α : Type} (m : M α) (h : M α) : M α := fun s =>
  match m s with
  | (.error .meson, s') => h s'
  | (.error .bug, s') => h s'
  | r => r
/-- `for x in l: f x` -/
def forEach {β : Type} (f : β → M Unit) : List β → M Unit
  | [] => M.pure ()
  | x :: r => M.bind (f x) (fun _ => forEach f r)
end M
open M

/-! ## heap primitives -/

def getObj (id : Nat) : M Obj := fun s =>
  match s.heap[id]? with
  | some o => (.ok o, s)
  | none => (.error .unsupported, s)   -- dangling id: cannot happen (`Wf`)

def Store.updObj (s : Store) (id : Nat) (f : Obj → Obj) : Store :=
  match s.heap[id]? with
  | some o => { s with heap := s.heap.set id (f o) }
  | none => s

/-- the only writer of `Obj.value`: `opt.set_value(v)` = validate, then assign -/
def objSetValue (id : Nat) (v : Val) : M Unit := do
  let o ← getObj id
  let v' ← ofExcept (validate o.kind v)
  modify (fun s => s.updObj id (fun o => { o with value := v' }))

def objSetYielding (id : Nat) (b : Bool) : M Unit :=
  modify (fun s => s.updObj id (fun o => { o with yielding := b }))

/-- a new Python object enters the store -/
def alloc (o : Obj) : M Nat := fun s => (.ok s.heap.length, { s with heap := s.heap ++ [o] })

/-! ## key classification (options.py:1180-1233) -/

def sPrefix : Str := "prefix".toList
def sBuildtype : Str := "buildtype".toList
def sDebug : Str := "debug".toList
def sOptimization : Str := "optimization".toList
def sCustom : Str := "custom".toList

/-- `is_compiler_option`: `'_' in name and name.split('_')[0] in all_languages` -/
def isCompilerOption (k : Key) : Bool :=
  k.name.contains '_' && Tables.allLanguages.contains ((splitOnChar '_' k.name).headD [])

def isPerMachine (k : Key) : Bool := Tables.perMachineNames.contains k.name || isCompilerOption k

/-- `ensure_and_validate_key` for an `OptionKey` argument -/
def ensureKey (s : Store) (k : Key) : Key :=
  if !(s.isCross && isPerMachine k) then k.asHost else k

def isBaseOption (k : Key) : Bool :=
  startsWith k.name "b_".toList && Tables.baseOptionNames.contains k.name

def isBackendOption (k : Key) : Bool := startsWith k.name "backend_".toList

/-- `accept_as_pending_option` -/
def acceptAsPending (k : Key) (first : Bool) : Bool :=
  isCompilerOption k || (first && isBackendOption k) || isBaseOption k

def Store.isProjectOption (s : Store) (k : Key) : Bool := s.projectOptions.contains k

/-- `is_builtin_option`: name in `_BUILTIN_NAMES` or the *key* is a registered module option -/
def Store.isBuiltin (s : Store) (k : Key) : Bool :=
  Tables.builtinNames.contains k.name || s.moduleOptions.contains k

/-- `option in BUILTIN_DIR_NOPREFIX_OPTIONS` (its keys are global host keys) -/
def isNopfxKey (k : Key) : Bool :=
  k.sub.isNone && k.machine == .host && (Tables.nopfxTable.map (·.1)).contains k.name

def prefixKey : Key := { name := sPrefix, sub := none, machine := .host }

/-! ## reading (options.py:838-877) -/

/-- `resolve_option(key)` as the id of the object it returns -/
def resolveId (s : Store) (k0 : Key) : Except Err Nat :=
  let k := ensureKey s k0
  match alookup k s.options with
  | some id => .ok id
  | none =>
    if s.isProjectOption k then .error .key
    else match alookup k.global s.options with
      | some id => .ok id
      | none => .error .key

/-- `get_option_and_value_for(key)`: object id and effective value: augment > yielding parent > own -/
def getIdAndValue (s : Store) (k0 : Key) : Except Err (Nat × Val) :=
  let k := ensureKey s k0
  match resolveId s k with
  | .error e => .error e
  | .ok id =>
    match s.heap[id]? with
    | none => .error .unsupported
    | some o =>
      match alookup k s.augments with
      | some v => if k.sub.isNone then .error .assertion else .ok (id, v)
      | none =>
        if o.yielding then
          match o.parent with
          | none => .error .attribute
          | some pid =>
            match s.heap[pid]? with
            | some p => .ok (id, p.value)
            | none => .error .unsupported
        else .ok (id, o.value)

/-- `get_value_for(key)` -/
def getValueFor (s : Store) (k : Key) : Except Err Val := (getIdAndValue s k).map (·.2)

/-- `option_has_value(key, value)` -/
def optionHasValue (s : Store) (k : Key) (v : Val) : Except Err Bool :=
  match getIdAndValue s k with
  | .error e => .error e
  | .ok (id, cur) =>
    match s.heap[id]? with
    | none => .error .unsupported
    | some o =>
      match validate o.kind v with
      | .ok v' => .ok (v' == cur)
      | .error e => .error e

/-! ## prefix and directory sanitisation (options.py:960-1006), POSIX host -/

def sanitizePrefix (p : Str) : Except Err Str :=
  if startsWith p ['~'] then .error .unsupported
  else if !(startsWith p ['/']) then .error .meson
  else if endsWith p ['/'] || endsWith p ['\\'] then
    if p.length == 3 && p[1]? == some ':' then .ok p
    else if p.length == 1 then .ok p
    else .ok p.dropLast
  else .ok p

def sanitizeDirValue (pfx : Str) (k : Key) (v : Val) : Except Err Val :=
  match v with
  | .str value =>
    let path := parsePath value
    if endsWith k.name "dir".toList && pathIsAbs path && !(isNopfxKey k) then
      let path' := match relativeTo path (parsePath pfx) with
        | some r => r
        | none => path
      if path'.2.contains "..".toList then .error .meson else .ok (.str (pathStr path'))
    else .ok (.str (pathStr path))
  | v => .ok v

/-! ## `set_option` (options.py:1008-1075) -/

/-- `reset_prefixed_options(old_prefix, new_prefix)` -/
def resetPrefixedOptions (oldP newP : Str) : M Unit :=
  forEach (fun (row : Str × List (Str × Str)) => do
    let s ← get
    match alookup { name := row.1, sub := none, machine := .host : Key } s.options with
    | none => fail .key
    | some id =>
      let o ← getObj id
      let nv : Val :=
        match alookup newP row.2 with
        | none => o.default
        | some nmapped =>
          match alookup oldP row.2 with
          | some omapped => if Val.str omapped == o.value then .str nmapped else o.value
          | none => .str nmapped
      objSetValue id nv) Tables.nopfxTable

/-- the first lines of `set_option`: `sanitize_prefix` for `prefix`, `sanitize_dir_option_value` for builtin
options (needs the current `prefix`), nothing otherwise -/
def sanitizeForSet (s : Store) (key : Key) (nv0 : Val) : Except Err Val :=
  if key.name == sPrefix then
    match nv0 with
    | .str p => (sanitizePrefix p).map Val.str
    | _ => .error .assertion
  else if s.isBuiltin key then
    match getValueFor s prefixKey with
    | .ok (.str p) => sanitizeDirValue p key nv0
    | .ok _ => .error .assertion
    | .error e => .error e
  else .ok nv0

/-- `try: opt = self.resolve_option(key)  except KeyError: raise MesonException('Unknown option')` -/
def resolveForSet (s : Store) (key : Key) : Except Err Nat :=
  match resolveId s key with
  | .ok id => .ok id
  | .error .key => .error .meson
  | .error e => .error e

/-- `set_option` from `opt.validate_value` on (`s` is the store at entry, `id` the resolved object, `nv1` the
sanitised value): validate, write object or override, read-only check, prefix reset -/
def setOptionTail (s : Store) (key : Key) (first : Bool) (id : Nat) (nv1 : Val) : M (Bool × Val) := do
  let o ← getObj id
  let nv ← ofExcept (validate o.kind nv1)
  let old ← (if ahas key s.options then do
      objSetValue id nv
      objSetYielding id false
      M.pure o.value
    else do
      assert key.sub.isSome
      modify (fun s => { s with augments := ainsert key nv s.augments })
      M.pure ((alookup key s.augments).getD o.value))
  -- `changed |= opt.yielding`: an option that stops yielding has changed even when its own value is the new one
  let changed := old != nv || (ahas key s.options && o.yielding)
  if o.readonly && changed && !first then fail .meson
  else if key.name == sPrefix && first && changed then
    match old, nv with
    | .str a, .str b => do resetPrefixedOptions a b; M.pure (changed, nv)
    | _, _ => fail .assertion
  else M.pure (changed, nv)

/-- one activation of `set_option` without the `buildtype` tail; returns `(changed, validated value)` -/
def setOptionCore (key : Key) (nv0 : Val) (first : Bool) : M (Bool × Val) := do
  let s ← get
  let nv1 ← ofExcept (sanitizeForSet s key nv0)
  let id ← ofExcept (resolveForSet s key)
  setOptionTail s key first id nv1

/-- `set_option(key, new_value, first_invocation)`; the result is `changed` -/
def setOption (key : Key) (nv0 : Val) (first : Bool) : M Bool := do
  let (changed, nv) ← setOptionCore key nv0 first
  if changed && key.name == sBuildtype && nv != .str sCustom then
    match nv with
    | .str bt =>
      match alookup bt Tables.defaultDependents with
      | none => fail .key
      | some (opt, dbg) => do
        let _ ← setOptionCore (key.withName sDebug) (.bool dbg) first
        let _ ← setOptionCore (key.withName sOptimization) (.str opt) first
        M.pure changed
    | _ => fail .assertion
  else M.pure changed

/-- Python `str(v)` for values whose strings need no escaping (used by one comparison only) -/
def pyStr : Val → Str
  | .str s => s
  | .int n => (toString n).toList
  | .bool true => "True".toList
  | .bool false => "False".toList
  | .arr l => ['['] ++ joinWith ", ".toList (l.map (fun x => ['\''] ++ x ++ ['\''])) ++ [']']

/-- `set_user_option(o, new_value, first_invocation)` -/
def setUserOption (o : Key) (nv : Val) (first : Bool) : M Bool := do
  let s ← get
  if !s.isCross && o.isForBuild then M.pure false
  else if ahas o s.options then setOption o nv first
  else if o.sub.isSome && ahas o.global s.options then setOption o nv first
  else if acceptAsPending o first then do
    modify (fun s => { s with pending := ainsert o nv s.pending })
    match alookup o s.pending with
    | none => M.pure true
    | some old => M.pure (Val.str (pyStr old) != nv)
  else if o.sub.isNone then setOption o.asRoot nv first
  else fail .meson

/-! ## adding options (options.py:879-958) -/

/-- `add_system_option_internal` for a key without (truthy) subproject -/
def addSystemHere (k : Key) (o : Obj) : M Unit := do
  let s ← get
  if ahas k s.options then M.pure ()
  else do
    let pval := alookup k s.pending
    modify (fun s => { s with pending := aerase k s.pending })
    let id ← alloc o
    modify (fun s => { s with options := ainsert k id s.options })
    (match pval with
      | some pv => do let _ ← setOption k pv false; M.pure ()
      | none => M.pure ())
    -- a value given for the top-level project only (`:name`) has waited for the global option as well
    if k.sub.isNone then do
      let s1 ← get
      match alookup k.asRoot s1.pending with
      | some rv => do
        modify (fun s => { s with pending := aerase k.asRoot s.pending })
        let _ ← setOption k.asRoot rv false
        M.pure ()
      | none => M.pure ()
    else M.pure ()

/-- `add_system_option_internal(key, valobj)` -/
def addSystemInternal (k : Key) (o : Obj) : M Unit := do
  let s ← get
  if ahas k s.options then M.pure ()
  else if k.subTruthy then do
    let pval := alookup k s.pending
    modify (fun s => { s with pending := aerase k s.pending })
    addSystemHere k.global o
    match pval with
    | some pv => do let _ ← setOption k pv false; M.pure ()
    | none => M.pure ()
  else addSystemHere k o

/-- `add_system_option(key, valobj)` -/
def addSystemOption (k0 : Key) (o : Obj) : M Unit := do
  let s ← get
  let k := ensureKey s k0
  if k.name.contains '.' then fail .meson else addSystemInternal k o

/-- `add_module_option(modulename, key, valobj)` -/
def addModuleOption (modname : Str) (k0 : Key) (o : Obj) : M Unit := do
  let s ← get
  let k := ensureKey s k0
  if startsWith k.name "build.".toList then fail .meson
  else if !(startsWith k.name (modname ++ ['.'])) then fail .meson
  else do
    addSystemInternal k o
    modify (fun s => { s with moduleOptions := setAdd k s.moduleOptions })

/-- `add_project_option(key, valobj)` -/
def addProjectOption (k0 : Key) (o : Obj) : M Unit := do
  let s ← get
  let k := ensureKey s k0
  assert k.sub.isSome
  if ahas k s.options then fail .meson
  else do
    let parent : Option Nat :=
      if o.yielding && k.subTruthy then
        match alookup k.asRoot s.options with
        | some pid =>
          match s.heap[pid]? with
          | some p => if p.kind.sameClass o.kind then some pid else o.parent
          | none => o.parent
        | none => o.parent
      else o.parent
    let id ← alloc { o with parent := parent, yielding := parent.isSome }
    modify (fun s => { s with options := ainsert k id s.options,
                              projectOptions := setAdd k s.projectOptions })
    assert (!(ahas k s.pending))

/-- `add_builtin_option(key, opt)` with `opt` given by its table row -/
def addBuiltinOption (k : Key) (row : Str × Kind × Val × Bool) : M Unit := do
  let (_, kind, dflt, ro) := row
  let o ← ofExcept (mkObj { kind := kind, default := dflt, readonly := ro })
  let nvRaw : Val :=
    if k.sub.isNone && k.machine == .host then
      match alookup k.name Tables.nopfxTable with
      | some m => (match alookup Tables.defaultPrefix m with | some v => .str v | none => o.default)
      | none => o.default
    else o.default
  let nv ← ofExcept (validate o.kind nvRaw)
  let o := { o with value := nv }
  if k.name.contains '.' then
    addModuleOption ((splitOnChar '.' k.name).headD []) k o
  else addSystemOption k o

/-- `init_builtins()` (`MachineChoice` iterates BUILD, HOST) -/
def initBuiltins : M Unit := do
  forEach (fun row => addBuiltinOption { name := row.1, sub := none, machine := .host } row) Tables.builtinOptions
  forEach (fun m =>
    forEach (fun row => addBuiltinOption { name := row.1, sub := none, machine := m } row) Tables.builtinPerMachine)
    [Machine.build, Machine.host]

/-- `init_builtins()` on the builtin table as `CoreData.builtin_options_libdir_cross_fixup` leaves it for a cross
build (coredata.py: `BUILTIN_OPTIONS['libdir'].default = 'lib'` when there are cross files) -/
def initBuiltinsCross : M Unit := do
  forEach (fun row => addBuiltinOption { name := row.1, sub := none, machine := .host } row) Tables.builtinOptionsCross
  forEach (fun m =>
    forEach (fun row => addBuiltinOption { name := row.1, sub := none, machine := m } row) Tables.builtinPerMachine)
    [Machine.build, Machine.host]

/-- the option part of `CoreData.__init__` (coredata.py:233-260): `OptionStore(is_cross_build())` exists, then
`builtin_options_libdir_cross_fixup()`, then `init_builtins()` -/
def coreDataInit : M Unit := do
  let s ← get
  if s.isCross then initBuiltinsCross else initBuiltins

/-! ## `initialize_from_top_level_project_call` (options.py:1235-1314) -/

/-- `prefix_split_options` -/
def prefixSplit : Dict → Option Val → Dict → Except Err (Option Val × Dict)
  | [], p, acc => .ok (p, acc)
  | (k, v) :: r, p, acc =>
    if k.name == sPrefix then
      match v with
      | .str _ => prefixSplit r (some v) acc
      | _ => .error .meson
    else prefixSplit r p (acc ++ [(k, v)])

/-- `hard_reset_from_prefix(prefix)` -/
def hardResetFromPrefix (p0 : Str) : M Unit := do
  let p ← ofExcept (sanitizePrefix p0)
  forEach (fun (row : Str × List (Str × Str)) => do
    let s ← get
    match alookup { name := row.1, sub := none, machine := .host : Key } s.options with
    | none => fail .key
    | some id =>
      let o ← getObj id
      match alookup p row.2 with
      | some v => objSetValue id (.str v)
      | none =>
        match o.default with
        | .str d => objSetValue id (.str d)
        | _ => fail .assertion) Tables.nopfxTable
  let s ← get
  match alookup prefixKey s.options with
  | none => fail .key
  | some id => objSetValue id (.str p)

/-- `first_handle_prefix`: returns the three dicts without their prefix entries -/
def firstHandlePrefix (pdo cmd mf : Dict) : M (Dict × Dict × Dict) := do
  let (p1, pdo') ← ofExcept (prefixSplit pdo none [])
  let p2 := alookup prefixKey mf
  let mf' := aerase prefixKey mf
  match p2 with
  | some (.str _) | none => M.pure ()
  | some _ => fail .assertion
  let pfx := if p2.isSome then p2 else p1
  let (p3, cmd') ← ofExcept (prefixSplit cmd none [])
  let pfx := if p3.isSome then p3 else pfx
  match pfx with
  | some (.str p) => hardResetFromPrefix p
  | _ => M.pure ()
  M.pure (pdo', cmd', mf')

/-- `OptionStore.buildtype_first(coll)`: the `buildtype` entries (any subproject, any machine) moved to the
front, everything else in its order -/
def buildtypeFirst {α : Type} (d : List (Key × α)) : List (Key × α) :=
  d.filter (fun p => p.1.name == sBuildtype) ++ d.filter (fun p => !(p.1.name == sBuildtype))

/-- `initialize_from_top_level_project_call(project_default_options, cmd_line_options, machine_file_options)` -/
def initTop (pdo0 cmd0 mf0 : Dict) : M Unit := do
  let (pdo1, cmd1, mf1) ← firstHandlePrefix pdo0 cmd0 mf0
  let pdo := buildtypeFirst pdo1
  let mf := buildtypeFirst mf1
  -- `cmdline.parse_cmd_line_options` only moves the global `buildtype`; `-D:buildtype` is one as well
  let cmd := buildtypeFirst cmd1
  forEach (fun (kv : Key × Val) => do
    let s ← get
    if !s.isCross && kv.1.isForBuild then M.pure ()
    else if kv.1.subTruthy then
      modify (fun s => { s with pendingSub := ainsert kv.1 kv.2 s.pendingSub })
    else do let _ ← setUserOption kv.1 kv.2 true; M.pure ()) pdo
  forEach (fun (kv : Key × Val) => do
    let s ← get
    if !s.isCross && kv.1.isForBuild then M.pure ()
    else if !kv.1.subTruthy then do let _ ← setUserOption kv.1 kv.2 true; M.pure ()
    else M.pure ()) (mf ++ cmd)

/-! ## `initialize_from_subproject_call` (options.py:1325-1388) -/

/-- loops 1 and 4: a `default_options` dict is re-keyed to the subproject; naming the subproject is an error -/
def mergeDefaults (sub : Str) : Dict → Dict → Except Err Dict
  | [], acc => .ok acc
  | (k, v) :: r, acc =>
    if k.sub == some sub then .error .meson
    else mergeDefaults sub r (ainsert (if k.sub.isNone then k.withSub sub else k) v acc)

/-- loop 2: global machine-file / command-line settings remove the subproject default, unless the name is
a top-level project option -/
def dropGlobals (projectOptions : List Key) (sub : Str) : Dict → Dict → Dict
  | [], acc => acc
  | (k, _) :: r, acc =>
    if k.sub.isNone && !(projectOptions.contains k.asRoot) then dropGlobals projectOptions sub r (aerase (k.withSub sub) acc)
    else dropGlobals projectOptions sub r acc

/-- loops 3 and 5: entries addressed to this subproject -/
def mergeAddressed (sub : Str) : Dict → Dict → Dict
  | [], acc => acc
  | (k, v) :: r, acc =>
    if k.sub == some sub then mergeAddressed sub r (ainsert k v acc) else mergeAddressed sub r acc

/-- the dict `options` that `initialize_from_subproject_call` builds before applying it (pure) -/
def mergeSub (projectOptions : List Key) (pendingSub : Dict) (sub : Str)
    (spcall pdo cmd mf : Dict) : Except Err Dict :=
  match mergeDefaults sub pdo [] with
  | .error e => .error e
  | .ok d1 =>
    let d2 := dropGlobals projectOptions sub (mf ++ cmd) d1
    let d3 := mergeAddressed sub pendingSub d2
    match mergeDefaults sub spcall d3 with
    | .error e => .error e
    | .ok d4 => .ok (mergeAddressed sub (mf ++ cmd) d4)

/-- the final loop: apply the merged dict; only the overrides that existed before the loop (`existing`) are
left alone -/
def applyMergedWith (existing : Dict) (sub : Str) : Dict → M Unit :=
  forEach (fun (kv : Key × Val) => do
    let (key, v) := kv
    let s ← get
    if key.sub != some sub then do
      let skip ← (match key.sub with
        | some x =>
          if s.subprojects.contains x then
            match optionHasValue s key v with
            | .ok hv => M.pure (!hv)
            | .error e => fail e
          else M.pure false
        | none => M.pure false)
      if skip then M.pure ()
      else modify (fun s => { s with pendingSub := ainsert key v s.pendingSub })
    else do
      modify (fun s => { s with pendingSub := aerase key s.pendingSub, pending := aerase key s.pending })
      if ahas key existing then M.pure ()
      else do let _ ← setUserOption key v true; M.pure ())

/-- the final loop of `initialize_from_subproject_call`: `buildtype` first, pre-existing overrides win -/
def applyMerged (sub : Str) (d : Dict) : M Unit := fun s =>
  applyMergedWith s.augments sub (buildtypeFirst d) s

/-- `initialize_from_subproject_call(subproject, spcall_default_options, project_default_options,
cmd_line_options, machine_file_options)` -/
def initSub (sub : Str) (spcall pdo cmd mf : Dict) : M Unit := do
  let s ← get
  let merged ← ofExcept (mergeSub s.projectOptions s.pendingSub sub spcall pdo cmd mf)
  applyMerged sub merged
  modify (fun s => { s with subprojects := setAdd sub s.subprojects })

/-! ## `set_from_configure_command` (options.py:1110-1136) -/

def configureOne (kv : Key × Option Val) : M Bool := do
  let (key, ov) := kv
  match ov with
  | some v => setUserOption key v false
  | none =>
    let s ← get
    if ahas key s.augments then do
      modify (fun s => { s with augments := aerase key s.augments })
      M.pure true
    else if !(ahas key s.options) then fail .meson
    else
      match alookup (ensureKey s key) s.options with
      | none => fail .key
      | some id => do
        let o ← getObj id
        let pt := o.parent.isSome          -- `opt.parent is not None`
        objSetYielding id pt
        M.pure (!o.yielding && pt)

/-- the loop of `set_from_configure_command` over the entries in the order given; result `dirty` -/
def setFromConfigure : List (Key × Option Val) → Bool → M Bool
  | [], dirty => M.pure dirty
  | kv :: r, dirty => M.bind (configureOne kv) (fun d => setFromConfigure r (dirty || d))

/-- `set_from_configure_command(D_args)`: every `buildtype` entry (any project) goes first, so that a `debug` /
`optimization` given next to it, in whatever textual order, is not hidden by the buildtype expansion; result `dirty` -/
def setFromConfigureCommand (args : List (Key × Option Val)) : M Bool :=
  setFromConfigure (buildtypeFirst args) false

/-! ## `update_project_options` (options.py) -/

/-- `link_to_parent(key, valobj)` as the parent it assigns: a `yield: true` option of a subproject is linked to the
top-level option of the same name when that has the same class (the same computation as in `addProjectOption`) -/
def linkParent (s : Store) (k : Key) (o : Obj) : Option Nat :=
  if o.yielding && k.subTruthy then
    match alookup k.asRoot s.options with
    | some pid =>
      match s.heap[pid]? with
      | some p => if p.kind.sameClass o.kind then some pid else o.parent
      | none => o.parent
    | none => o.parent
  else o.parent

/-- `for child in self.options.values(): if child.parent is oldval: …`: the options that yield to the replaced object
`oid` yield to its replacement `nid`; a child of another class than the replacement stops yielding.  (The model
maps over the whole heap; objects that are no longer under any key are unobservable.) -/
def repointChildren (oid nid : Nat) : M Unit :=
  modify (fun s =>
    match s.heap[nid]? with
    | none => s
    | some n =>
      { s with heap := s.heap.map (fun c =>
          if c.parent == some oid then
            (if n.kind.sameClass c.kind then { c with parent := some nid }
             else { c with parent := none, yielding := false })
          else c) })

/-- the option object under `key` (`old`, id `oid`) is replaced by the freshly parsed `nobj`: linked to its parent
like a new option, unless the user has set the old one for this subproject only (`value.yielding and
oldval.yielding`); children re-pointed; changed choices keep the old value when still valid, an option of another
type starts from its default -/
def replaceObj (key : Key) (nobj old : Obj) (oid : Nat) (retyped : Bool) : M Unit := do
  let s2 ← get
  let nid ← alloc { nobj with parent := linkParent s2 key nobj,
                              yielding := (linkParent s2 key nobj).isSome && (retyped || old.parent.isNone || old.yielding) }
  modify (fun s => { s with options := ainsert key nid s.options })
  repointChildren oid nid
  if retyped then M.pure () else catchMeson (objSetValue nid old.value) (M.pure ())

def updateOne (sub : Str) (kv : Key × Obj) : M Unit := do
  let (key, nobj) := kv
  assert (key.machine == .host)
  let s ← get
  if !(ahas key s.options) then addProjectOption key nobj
  else if key.sub != some sub then fail .bug
  else
    match alookup (ensureKey s key) s.options with
    | none => fail .key
    | some oid => do
      let old ← getObj oid
      let retyped := !(old.kind.sameClass nobj.kind)
      if retyped || old.kind.choicesDiffer nobj.kind then replaceObj key nobj old oid retyped
      else M.pure ()

/-- `for child in self.options.values(): if child.parent is removed: child.parent = None; child.yielding = False`
for every removed object (the model maps over the whole heap; unregistered objects are unobservable) -/
def unlinkChildren (ids : List Nat) : M Unit :=
  modify (fun s => { s with heap := s.heap.map (fun c =>
    match c.parent with
    | some pid => if ids.contains pid then { c with parent := none, yielding := false } else c
    | none => c) })

/-- `update_project_options(project_options, subproject)`: the entries, then the removal pass — every project option
of this (sub)project that the file no longer declares is removed and the options that yielded to it are unlinked.
An empty `project_options` is not special: the loop does nothing and the removal pass removes them all. -/
def updateProjectOptions (sub : Str) (objs : List (Key × Obj)) : M Unit := do
  forEach (updateOne sub) objs
  let s ← get
  let gone := fun (k : Key) => !(objs.any (fun p => p.1 == k)) && s.isProjectOption k && k.sub == some sub
  modify (fun s' =>
    { s' with options := s'.options.filter (fun p => !(gone p.1)),
              projectOptions := s'.projectOptions.filter (fun k => !(gone k)) })
  unlinkChildren ((s.options.filter (fun p => gone p.1)).map (·.2))

/-! ## command line re-ordering (cmdline.py:234-241) -/

def buildtypeKey : Key := { name := sBuildtype, sub := none, machine := .host }

/-- `parse_cmd_line_options`: `buildtype` is moved to the front of the `-D` dict -/
def reorderCmd (cmd : Dict) : Dict :=
  match alookup buildtypeKey cmd with
  | some v => (buildtypeKey, v) :: aerase buildtypeKey cmd
  | none => cmd

/-! ## operations and runs -/

inductive Op where
  | addSystem (k : Key) (sp : ObjSpec)
  | addProject (k : Key) (sp : ObjSpec)
  | initBuiltins
  | setOption (k : Key) (v : Val) (first : Bool)
  | setUser (k : Key) (v : Val) (first : Bool)
  | initTop (pdo cmd mf : Dict)
  | initSub (sub : Str) (spcall pdo cmd mf : Dict)
  | configure (args : List (Key × Option Val))
  | updateProject (sub : Str) (objs : List (Key × ObjSpec))
  deriving Repr, Inhabited

/-- what a call returns: nothing, or a bool (`changed` / `dirty`) -/
inductive Out where
  | none
  | bool (b : Bool)
  deriving DecidableEq, Repr, Inhabited

def mkObjs : List (Key × ObjSpec) → Except Err (List (Key × Obj))
  | [] => .ok []
  | (k, sp) :: r =>
    match mkObj sp with
    | .error e => .error e
    | .ok o => (mkObjs r).map (fun l => (k, o) :: l)

/-- one API call; constructing the `UserOption` arguments happens first (and may raise) -/
def applyOp : Op → M Out
  | .addSystem k sp => do let o ← ofExcept (mkObj sp); addSystemOption k o; M.pure .none
  | .addProject k sp => do let o ← ofExcept (mkObj sp); addProjectOption k o; M.pure .none
  | .initBuiltins => do initBuiltins; M.pure .none
  | .setOption k v first => do let b ← setOption k v first; M.pure (.bool b)
  | .setUser k v first => do let b ← setUserOption k v first; M.pure (.bool b)
  | .initTop pdo cmd mf => do initTop pdo cmd mf; M.pure .none
  | .initSub sub spcall pdo cmd mf => do initSub sub spcall pdo cmd mf; M.pure .none
  | .configure args => do let b ← setFromConfigure (buildtypeFirst args) false; M.pure (.bool b)   -- = `setFromConfigureCommand args`
  | .updateProject sub objs => do
    let os ← ofExcept (mkObjs objs)
    updateProjectOptions sub os
    M.pure .none

/-- state after a sequence of calls (exceptions are caught by the caller, the store lives on) -/
def run (s : Store) : List Op → Store
  | [] => s
  | op :: r => run (applyOp op s).2 r

end MesonModel.Options
