import MesonModel.Options.TopLemmas
/-
`initialize_from_subproject_call` on arbitrary dicts: the per-subproject override of one option afterwards.
-/
namespace MesonModel.Options
open M

/-- facts about option `n` seen from subproject `sub`: it is a global option (object `id` = `o`), the subproject
has no option object of its own under that key, `x` is the current override -/
structure GoodSub (ks : Key) (id : Nat) (s : Store) (o : Obj) (x : Option Val) : Prop where
  opt : alookup ks.global s.options = some id
  obj : s.heap[id]? = some o
  own : OwnObject ks.name id s
  nosub : alookup ks s.options = none
  noproj : s.isProjectOption ks = false
  nb : s.isBuiltin ks = false
  aug : alookup ks s.augments = x
  ny : o.yielding = false

theorem GoodSub.ofSame {ks : Key} {id : Nat} {s s' : Store} {o : Obj} {x : Option Val}
    (g : GoodSub ks id s o x) (h : SameObs ks id s s') : GoodSub ks id s' o x := by
  obtain ⟨h1, h2, h3, h4, h5, h6⟩ := h
  refine ⟨by rw [h2]; exact g.opt, by rw [h5]; exact g.obj, g.own.transfer ⟨h1, h2, h3, h4, h5, h6⟩,
    by rw [h2]; exact g.nosub, ?_, ?_, by rw [h6]; exact g.aug, g.ny⟩
  · have := g.noproj; simp only [Store.isProjectOption] at this ⊢; rw [h3]; exact this
  · have := g.nb; simp only [Store.isBuiltin] at this ⊢; rw [h4]; exact this

/-- what the subproject sees: the override if there is one, else the global value -/
theorem GoodSub.value {ks : Key} {id : Nat} {s : Store} {o : Obj} {x : Option Val} (g : GoodSub ks id s o x)
    (hm : ks.machine = .host) (sub : Str) (hs : ks.sub = some sub) :
    getValueFor s ks = .ok (x.getD o.value) := by
  have hp0 : s.projectOptions.contains ks = false := g.noproj
  have hp : ¬ ks ∈ s.projectOptions := by simpa using hp0
  cases x with
  | some v =>
    simp [getValueFor, getIdAndValue, resolveId, ensureKey_host s ks hm, g.nosub, Store.isProjectOption, hp, g.opt,
      g.obj, g.aug, hs, Except.map]
  | none =>
    simp [getValueFor, getIdAndValue, resolveId, ensureKey_host s ks hm, g.nosub, Store.isProjectOption, hp, g.opt,
      g.obj, g.aug, g.ny, Except.map]

/-- **set-get for an override**: `set_user_option(sub:opt, v, True)` when only the global option exists -/
theorem setUserOption_override (s : Store) (ks : Key) (v w : Val) (id : Nat) (o : Obj) (x : Option Val) (sub : Str)
    (hm : ks.machine = .host) (hs : ks.sub = some sub)
    (hn : (ks.name == sPrefix) = false) (hbt : (ks.name == sBuildtype) = false)
    (g : GoodSub ks id s o x) (hv : validate o.kind v = .ok w) :
    setUserOption ks v true s =
      (.ok (x.getD o.value != w), { s with augments := ainsert ks w s.augments }) := by
  have hfb : ks.isForBuild = false := by simp [Key.isForBuild, hm]
  have hah : ahas ks s.options = false := by simp [ahas, g.nosub]
  have hag : ahas ks.global s.options = true := by simp [ahas, g.opt]
  have hp0 : s.projectOptions.contains ks = false := g.noproj
  have hp : ¬ ks ∈ s.projectOptions := by simpa using hp0
  have hres : resolveId s ks = .ok id := by
    simp [resolveId, ensureKey_host s ks hm, g.nosub, Store.isProjectOption, hp, g.opt]
  have hsome : ks.sub.isSome = true := by simp [hs]
  cases x with
  | some a =>
    simp [setUserOption, setOption, setOptionCore, setOptionTail, sanitizeForSet, resolveForSet, Bind.bind, M.bind, M.get,
      hfb, hah, hag, hsome, hn, hbt, g.nb, hres, M.pure, getObj, g.obj, hv, M.ofExcept, M.assert, M.modify, g.aug]
  | none =>
    simp [setUserOption, setOption, setOptionCore, setOptionTail, sanitizeForSet, resolveForSet, Bind.bind, M.bind, M.get,
      hfb, hah, hag, hsome, hn, hbt, g.nb, hres, M.pure, getObj, g.obj, hv, M.ofExcept, M.assert, M.modify, g.aug]

theorem setUserOption_override_invalid (s : Store) (ks : Key) (v : Val) (id : Nat) (o : Obj) (x : Option Val) (sub : Str)
    (e : Err) (hm : ks.machine = .host) (hs : ks.sub = some sub) (hn : (ks.name == sPrefix) = false)
    (g : GoodSub ks id s o x) (hv : validate o.kind v = .error e) :
    setUserOption ks v true s = (.error e, s) := by
  have hfb : ks.isForBuild = false := by simp [Key.isForBuild, hm]
  have hah : ahas ks s.options = false := by simp [ahas, g.nosub]
  have hag : ahas ks.global s.options = true := by simp [ahas, g.opt]
  have hp0 : s.projectOptions.contains ks = false := g.noproj
  have hp : ¬ ks ∈ s.projectOptions := by simpa using hp0
  have hres : resolveId s ks = .ok id := by
    simp [resolveId, ensureKey_host s ks hm, g.nosub, Store.isProjectOption, hp, g.opt]
  have hsome : ks.sub.isSome = true := by simp [hs]
  simp [setUserOption, setOption, setOptionCore, setOptionTail, sanitizeForSet, resolveForSet, Bind.bind, M.bind, M.get,
    hfb, hah, hag, hsome, hn, g.nb, hres, M.pure, getObj, g.obj, hv, M.ofExcept, M.fail]


/-! ## a generic loop lemma: entries for `k` update an observed quantity, the others keep the invariant -/

theorem loop_generic {X : Type} (k : Key) (Inv : Store → X → Prop) (upd : X → Val → X) (step : Key × Val → M Unit)
    (P : Key × Val → Prop)
    (hk : ∀ v s s' x, Inv s x → step (k, v) s = (.ok (), s') → Inv s' (upd x v))
    (ho : ∀ kv, P kv → ∀ s s' x, Inv s x → step kv s = (.ok (), s') → Inv s' x) :
    ∀ (l : Dict) (s s' : Store) (x : X), Inv s x → (∀ kv ∈ l, kv.1 = k ∨ P kv) →
      M.forEach step l s = (.ok (), s') →
      Inv s' (l.foldl (fun x kv => if kv.1 = k then upd x kv.2 else x) x) := by
  intro l
  induction l with
  | nil => intro s s' x hi _ h; simp [M.forEach, M.pure] at h; subst h; exact hi
  | cons kv r ih =>
    intro s s' x hi hl h
    have hrest : ∀ kv ∈ r, kv.1 = k ∨ P kv := fun kv hkv => hl kv (by simp [hkv])
    simp only [M.forEach, M.bind] at h
    cases hr : step kv s with
    | mk res s1 =>
      rw [hr] at h
      cases res with
      | error e => simp at h
      | ok u =>
        simp only at h
        simp only [List.foldl_cons]
        rcases hl kv (by simp) with hkk | hp
        · obtain ⟨key, v⟩ := kv
          simp only at hkk; subst hkk
          simp only [↓reduceIte]
          exact ih s1 s' _ (hk v s s1 x hi hr) hrest h
        · by_cases e : kv.1 = k
          · obtain ⟨key, v⟩ := kv
            simp only at e; subst e
            simp only [↓reduceIte]
            exact ih s1 s' _ (hk v s s1 x hi hr) hrest h
          · simp only [e, ↓reduceIte]
            exact ih s1 s' x (ho kv hp s s1 x hi hr) hrest h

theorem foldl_last_binding {X : Type} (k : Key) (c : Val → X) : ∀ (l : Dict) (x : X),
    l.foldl (fun x kv => if kv.1 = k then c kv.2 else x) x = (match alast k l with | some v => c v | none => x)
  | [], x => rfl
  | (a, b) :: r, x => by
    simp only [List.foldl_cons, alast]
    rw [foldl_last_binding k c r]
    cases alast k r with
    | some v => simp [ofirst]
    | none => by_cases e : a = k <;> simp [ofirst, e]

theorem foldl_const {X : Type} (k : Key) : ∀ (l : Dict) (x : X),
    l.foldl (fun x kv => if kv.1 = k then x else x) x = x
  | [], x => rfl
  | _ :: r, x => by
    simp only [List.foldl_cons, ite_self]
    have := foldl_const k r x
    simpa only [ite_self] using this

/-! ## the final loop of `initialize_from_subproject_call` -/

/-- body of the final loop (`existing` = the overrides present before the loop) -/
def stepSub (existing : Dict) (sub : Str) (kv : Key × Val) : M Unit := do
  let (key, v) := kv
  let s ← get
  if key.sub != some sub then do
    let skip ← (match key.sub with
      | some x =>
        if s.subprojects.contains x then
          match optionHasValue s key v with
          | .ok hv => M.pure (!hv)
          | .error e => fail e
        else M.pure false
      | none => M.pure false)
    if skip then M.pure ()
    else modify (fun s => { s with pendingSub := ainsert key v s.pendingSub })
  else do
    modify (fun s => { s with pendingSub := aerase key s.pendingSub, pending := aerase key s.pending })
    if ahas key existing then M.pure ()
    else do let _ ← setUserOption key v true; M.pure ()

theorem applyMergedWith_eq (ex : Dict) (sub : Str) : applyMergedWith ex sub = M.forEach (stepSub ex sub) := rfl

theorem Fr.stepSub (ks : Key) (id : Nat) (ex : Dict) (sub : Str) (kv : Key × Val)
    (hP : kv.1.sub ≠ some sub ∨ kv.1.name ≠ ks.name)
    (hnp : (Tables.nopfxTable.map (·.1)).contains ks.name = false)
    (hd : ks.name ≠ sDebug ∧ ks.name ≠ sOptimization) : Fr ks id (stepSub ex sub kv) := by
  obtain ⟨key, v⟩ := kv
  unfold MesonModel.Options.stepSub
  dsimp only
  apply Fr.bind Fr.get
  intro s0
  by_cases hsub : key.sub = some sub
  · have hname : key.name ≠ ks.name := by
      rcases hP with h | h
      · exact absurd hsub h
      · exact h
    have : (key.sub != some sub) = false := by simp [hsub]
    simp only [this, Bool.false_eq_true, ↓reduceIte]
    repeat (first
      | exact Fr.setUserOption ks id key v true hname hnp (fun _ => hd)
      | (apply Fr.modify; intro s; exact ⟨rfl, rfl, rfl, rfl, rfl, rfl⟩)
      | fr_core)
  · have : (key.sub != some sub) = true := by simp [hsub]
    simp only [this, ↓reduceIte]
    repeat (first
      | (apply Fr.modify; intro s; exact ⟨rfl, rfl, rfl, rfl, rfl, rfl⟩)
      | fr_core)


theorem stepSub_target (ks : Key) (id : Nat) (o : Obj) (ex : Dict) (sub : Str)
    (hm : ks.machine = .host) (hs : ks.sub = some sub)
    (hn : (ks.name == sPrefix) = false) (hbt : (ks.name == sBuildtype) = false)
    (v : Val) (s s' : Store) (x : Option Val) (g : GoodSub ks id s o x)
    (h : stepSub ex sub (ks, v) s = (.ok (), s')) :
    GoodSub ks id s' o (if ahas ks ex then x else some (cleaned o.kind v)) := by
  have hne : (ks.sub != some sub) = false := by simp [hs]
  have g1 : GoodSub ks id { s with pendingSub := aerase ks s.pendingSub, pending := aerase ks s.pending } o x :=
    g.ofSame ⟨rfl, rfl, rfl, rfl, rfl, rfl⟩
  simp only [stepSub, Bind.bind, M.bind, M.get, hne, Bool.false_eq_true, ↓reduceIte, M.modify] at h
  by_cases hex : ahas ks ex = true
  · simp only [hex, ↓reduceIte, M.pure] at h ⊢
    cases h; exact g1
  · simp only [hex, Bool.false_eq_true, ↓reduceIte] at h ⊢
    cases hv : validate o.kind v with
    | error e =>
      have := setUserOption_override_invalid _ ks v id o x sub e hm hs hn g1 hv
      simp [M.bind, this] at h
    | ok w =>
      have hset := setUserOption_override _ ks v w id o x sub hm hs hn hbt g1 hv
      simp only [M.bind, hset, M.pure] at h
      cases h
      have hc : cleaned o.kind v = w := by simp [cleaned, hv]
      rw [hc]
      refine ⟨g.opt, g.obj, ?_, g.nosub, g.noproj, g.nb, by simp [alookup_ainsert], g.ny⟩
      intro key i hk hkn; exact g.own key i hk hkn

/-! ## the merged dict has unique keys -/

def NodupKeys (d : Dict) : Prop := (d.map Prod.fst).Nodup

theorem mem_keys_ainsert {k k' : Key} {v : Val} : ∀ {d : Dict}, k' ∈ (ainsert k v d).map Prod.fst →
    k' = k ∨ k' ∈ d.map Prod.fst
  | [], h => by simp [ainsert] at h; exact Or.inl h
  | (a, b) :: r, h => by
    unfold ainsert at h
    split at h
    · next e => simp at h; rcases h with h | h
                · exact Or.inl h
                · exact Or.inr (by simp; exact Or.inr h)
    · simp at h; rcases h with h | h
      · exact Or.inr (by simp [h])
      · rcases mem_keys_ainsert (d := r) (by simpa using h) with h2 | h2
        · exact Or.inl h2
        · exact Or.inr (by simp at h2 ⊢; exact Or.inr h2)

theorem nodupKeys_ainsert (k : Key) (v : Val) : ∀ (d : Dict), NodupKeys d → NodupKeys (ainsert k v d)
  | [], _ => by simp [NodupKeys, ainsert]
  | (a, b) :: r, h => by
    unfold NodupKeys at h ⊢
    simp only [List.map_cons, List.nodup_cons] at h
    unfold ainsert
    split
    · next e => subst e; simpa using h
    · next e =>
      simp only [List.map_cons, List.nodup_cons]
      refine ⟨?_, nodupKeys_ainsert k v r h.2⟩
      intro hm
      rcases mem_keys_ainsert hm with h1 | h1
      · exact e h1
      · exact h.1 h1

theorem mem_keys_aerase {k k' : Key} : ∀ {d : Dict}, k' ∈ (aerase k d).map Prod.fst → k' ∈ d.map Prod.fst
  | [], h => by simp [aerase] at h
  | (a, b) :: r, h => by
    unfold aerase at h
    split at h
    · have := mem_keys_aerase (d := r) h; simp at this ⊢; exact Or.inr this
    · simp at h; rcases h with h | h
      · simp [h]
      · have := mem_keys_aerase (d := r) (by simpa using h); simp at this ⊢; exact Or.inr this

theorem nodupKeys_aerase (k : Key) : ∀ (d : Dict), NodupKeys d → NodupKeys (aerase k d)
  | [], _ => by simp [NodupKeys, aerase]
  | (a, b) :: r, h => by
    unfold NodupKeys at h ⊢
    simp only [List.map_cons, List.nodup_cons] at h
    unfold aerase
    split
    · exact nodupKeys_aerase k r h.2
    · simp only [List.map_cons, List.nodup_cons]
      exact ⟨fun hm => h.1 (mem_keys_aerase hm), nodupKeys_aerase k r h.2⟩

theorem nodupKeys_mergeDefaults (sub : Str) : ∀ (l acc d : Dict), NodupKeys acc → mergeDefaults sub l acc = .ok d →
    NodupKeys d
  | [], acc, d, ha, h => by simp [mergeDefaults] at h; subst h; exact ha
  | (k, v) :: r, acc, d, ha, h => by
    unfold mergeDefaults at h
    split at h
    · cases h
    · exact nodupKeys_mergeDefaults sub r _ d (nodupKeys_ainsert _ _ _ ha) h

theorem nodupKeys_dropGlobals (po : List Key) (sub : Str) : ∀ (l acc : Dict), NodupKeys acc →
    NodupKeys (dropGlobals po sub l acc)
  | [], acc, ha => by simpa [dropGlobals] using ha
  | (k, v) :: r, acc, ha => by
    unfold dropGlobals
    split
    · exact nodupKeys_dropGlobals po sub r _ (nodupKeys_aerase _ _ ha)
    · exact nodupKeys_dropGlobals po sub r acc ha

theorem nodupKeys_mergeAddressed (sub : Str) : ∀ (l acc : Dict), NodupKeys acc → NodupKeys (mergeAddressed sub l acc)
  | [], acc, ha => by simpa [mergeAddressed] using ha
  | (k, v) :: r, acc, ha => by
    unfold mergeAddressed
    split
    · exact nodupKeys_mergeAddressed sub r _ (nodupKeys_ainsert _ _ _ ha)
    · exact nodupKeys_mergeAddressed sub r acc ha

theorem nodupKeys_mergeSub (po : List Key) (ps : Dict) (sub : Str) (spcall pdo cmd mf d : Dict)
    (h : mergeSub po ps sub spcall pdo cmd mf = .ok d) : NodupKeys d := by
  unfold mergeSub at h
  cases h1 : mergeDefaults sub pdo [] with
  | error e => simp [h1] at h
  | ok d1 =>
    simp only [h1] at h
    cases h4 : mergeDefaults sub spcall (mergeAddressed sub ps (dropGlobals po sub (mf ++ cmd) d1)) with
    | error e => simp [h4] at h
    | ok d4 =>
      simp only [h4] at h
      cases h
      apply nodupKeys_mergeAddressed
      apply nodupKeys_mergeDefaults sub _ _ _ _ h4
      apply nodupKeys_mergeAddressed
      apply nodupKeys_dropGlobals
      exact nodupKeys_mergeDefaults sub _ _ _ (by simp [NodupKeys]) h1


theorem initSub_eq (sub : Str) (spcall pdo cmd mf d : Dict) (s : Store)
    (hd : mergeSub s.projectOptions s.pendingSub sub spcall pdo cmd mf = .ok d) :
    initSub sub spcall pdo cmd mf s =
      (M.bind (M.forEach (stepSub s.augments sub) (buildtypeFirst d))
        (fun _ => M.modify (fun s => { s with subprojects := setAdd sub s.subprojects }))) s := by
  unfold initSub
  simp only [Bind.bind, M.bind, M.get, hd, M.ofExcept, M.pure, applyMerged, applyMergedWith_eq]

/-- **the subproject's effective value after `initialize_from_subproject_call`, for an arbitrary store and
arbitrary dicts**: an override that existed before the call stays; otherwise the value the merge holds for
`sub:opt` (see `mergeSub_lookup`: last defined of the documented steps 2…8), cleaned by the option's class;
otherwise the global value (set by the top-level call from steps 1, 3, 4). -/
theorem initSub_value (ks : Key) (id : Nat) (s s' : Store) (o : Obj) (x : Option Val) (sub : Str)
    (spcall pdo cmd mf d : Dict)
    (hm : ks.machine = .host) (hs : ks.sub = some sub)
    (hn : (ks.name == sPrefix) = false) (hbt : (ks.name == sBuildtype) = false)
    (hdn : ks.name ≠ sDebug ∧ ks.name ≠ sOptimization)
    (hnp : (Tables.nopfxTable.map (·.1)).contains ks.name = false)
    (g : GoodSub ks id s o x)
    (hd : mergeSub s.projectOptions s.pendingSub sub spcall pdo cmd mf = .ok d)
    (hother : ∀ kv ∈ d, kv.1 = ks ∨ kv.1.sub ≠ some sub ∨ kv.1.name ≠ ks.name)
    (hrun : initSub sub spcall pdo cmd mf s = (.ok (), s')) :
    getValueFor s' ks = .ok (x.getD (((alookup ks d).map (cleaned o.kind)).getD o.value)) := by
  rw [initSub_eq sub spcall pdo cmd mf d s hd] at hrun
  simp only [M.bind] at hrun
  cases hr1 : M.forEach (stepSub s.augments sub) (buildtypeFirst d) s with
  | mk r1 s1 =>
    rw [hr1] at hrun
    cases r1 with
    | error e => simp at hrun
    | ok u =>
      simp only [M.modify] at hrun
      have hloop := loop_generic ks (fun st y => GoodSub ks id st o y)
        (fun y v => if ahas ks s.augments then y else some (cleaned o.kind v)) (stepSub s.augments sub)
        (fun kv => kv.1.sub ≠ some sub ∨ kv.1.name ≠ ks.name)
        (fun v st st' y gy h => stepSub_target ks id o s.augments sub hm hs hn hbt v st st' y gy h)
        (fun kv hP st st' y gy h => by
          have := (Fr.stepSub ks id s.augments sub kv hP hnp hdn).run st gy.own
          rw [h] at this
          exact gy.ofSame this)
        (buildtypeFirst d) s s1 x g (fun kv hkv => hother kv (mem_buildtypeFirst hkv)) hr1
      cases hrun
      have hnd := nodupKeys_mergeSub _ _ _ _ _ _ _ _ hd
      have hlast : alast ks (buildtypeFirst d) = alookup ks d := by
        rw [alast_buildtypeFirst ks d hbt]; exact alast_eq_alookup ks d hnd
      have hex : ahas ks s.augments = x.isSome := by simp [ahas, g.aug]
      cases x with
      | some a =>
        simp only [hex, Option.isSome_some, ↓reduceIte] at hloop
        rw [foldl_const] at hloop
        have gfin : GoodSub ks id { s1 with subprojects := setAdd sub s1.subprojects } o (some a) :=
          hloop.ofSame ⟨rfl, rfl, rfl, rfl, rfl, rfl⟩
        rw [gfin.value hm sub hs]
        rfl
      | none =>
        simp only [hex, Option.isSome_none, Bool.false_eq_true, ↓reduceIte] at hloop
        rw [foldl_last_binding ks (fun v => some (cleaned o.kind v)), hlast] at hloop
        have gfin := hloop.ofSame (s' := { s1 with subprojects := setAdd sub s1.subprojects }) ⟨rfl, rfl, rfl, rfl, rfl, rfl⟩
        rw [gfin.value hm sub hs]
        cases alookup ks d <;> rfl


/-! ## where the keys of the merged dict come from -/

def rekey (sub : Str) (k : Key) : Key := if k.sub.isNone then k.withSub sub else k

theorem keys_mergeDefaults (sub : Str) : ∀ (l acc d : Dict), mergeDefaults sub l acc = .ok d →
    ∀ key ∈ d.map Prod.fst, key ∈ acc.map Prod.fst ∨ ∃ k ∈ l.map Prod.fst, key = rekey sub k
  | [], acc, d, h, key, hk => by simp [mergeDefaults] at h; subst h; exact Or.inl hk
  | (k, v) :: r, acc, d, h, key, hk => by
    unfold mergeDefaults at h
    split at h
    · cases h
    · rcases keys_mergeDefaults sub r _ d h key hk with h1 | ⟨k', hk', e⟩
      · rcases mem_keys_ainsert h1 with h2 | h2
        · exact Or.inr ⟨k, by simp, by rw [h2]; rfl⟩
        · exact Or.inl h2
      · exact Or.inr ⟨k', by simp at hk' ⊢; exact Or.inr hk', e⟩

theorem keys_dropGlobals (po : List Key) (sub : Str) : ∀ (l acc : Dict),
    ∀ key ∈ (dropGlobals po sub l acc).map Prod.fst, key ∈ acc.map Prod.fst
  | [], acc, key, hk => by simpa [dropGlobals] using hk
  | (k, v) :: r, acc, key, hk => by
    unfold dropGlobals at hk
    split at hk
    · exact mem_keys_aerase (keys_dropGlobals po sub r _ key hk)
    · exact keys_dropGlobals po sub r acc key hk

theorem keys_mergeAddressed (sub : Str) : ∀ (l acc : Dict),
    ∀ key ∈ (mergeAddressed sub l acc).map Prod.fst, key ∈ acc.map Prod.fst ∨ key ∈ l.map Prod.fst
  | [], acc, key, hk => Or.inl (by simpa [mergeAddressed] using hk)
  | (k, v) :: r, acc, key, hk => by
    unfold mergeAddressed at hk
    split at hk
    · rcases keys_mergeAddressed sub r _ key hk with h1 | h1
      · rcases mem_keys_ainsert h1 with h2 | h2
        · exact Or.inr (by simp [h2])
        · exact Or.inl h2
      · exact Or.inr (by simp at h1 ⊢; exact Or.inr h1)
    · rcases keys_mergeAddressed sub r acc key hk with h1 | h1
      · exact Or.inl h1
      · exact Or.inr (by simp at h1 ⊢; exact Or.inr h1)

theorem keys_mergeSub (po : List Key) (ps : Dict) (sub : Str) (spcall pdo cmd mf d : Dict)
    (h : mergeSub po ps sub spcall pdo cmd mf = .ok d) :
    ∀ key ∈ d.map Prod.fst, (∃ k ∈ (pdo ++ spcall).map Prod.fst, key = rekey sub k) ∨
      key ∈ (ps ++ (mf ++ cmd)).map Prod.fst := by
  unfold mergeSub at h
  cases h1 : mergeDefaults sub pdo [] with
  | error e => simp [h1] at h
  | ok d1 =>
    simp only [h1] at h
    cases h4 : mergeDefaults sub spcall (mergeAddressed sub ps (dropGlobals po sub (mf ++ cmd) d1)) with
    | error e => simp [h4] at h
    | ok d4 =>
      simp only [h4] at h
      cases h
      intro key hk
      rcases keys_mergeAddressed sub _ _ key hk with hk | hk
      · rcases keys_mergeDefaults sub _ _ _ h4 key hk with hk | ⟨k, hk, e⟩
        · rcases keys_mergeAddressed sub _ _ key hk with hk | hk
          · have hk := keys_dropGlobals po sub _ _ key hk
            rcases keys_mergeDefaults sub _ _ _ h1 key hk with hk | ⟨k, hk, e⟩
            · simp at hk
            · exact Or.inl ⟨k, by simp at hk ⊢; exact Or.inl hk, e⟩
          · exact Or.inr (by simp at hk ⊢; exact Or.inl hk)
        · exact Or.inl ⟨k, by simp at hk ⊢; exact Or.inr hk, e⟩
      · exact Or.inr (by simp at hk ⊢; exact Or.inr hk)

/-- if every entry of the inputs that names option `n` is a host-machine key, the only entry of the merged
dict for subproject `sub` that names `n` is `sub:n` -/
theorem merged_other (po : List Key) (ps : Dict) (sub n : Str) (spcall pdo cmd mf d : Dict)
    (h : mergeSub po ps sub spcall pdo cmd mf = .ok d)
    (hin : ∀ k ∈ (pdo ++ spcall ++ ps ++ mf ++ cmd).map Prod.fst, k.name = n → k.machine = .host) :
    ∀ kv ∈ d, kv.1 = (⟨n, some sub, .host⟩ : Key) ∨ kv.1.sub ≠ some sub ∨ kv.1.name ≠ n := by
  intro kv hkv
  obtain ⟨key, v⟩ := kv
  simp only
  have hk0 : key ∈ d.map Prod.fst := by
    have := List.mem_map_of_mem (f := Prod.fst) hkv; simpa using this
  by_cases hs : key.sub = some sub
  · by_cases hn : key.name = n
    · left
      have hmach : key.machine = .host := by
        rcases keys_mergeSub po ps sub spcall pdo cmd mf d h key hk0 with ⟨k, hk1, e⟩ | hk2
        · have hkn : k.name = n := by
            rw [e] at hn; unfold rekey at hn; split at hn <;> simpa [Key.withSub] using hn
          have := hin k (by simp at hk1 ⊢; rcases hk1 with a | a <;> simp [a]) hkn
          rw [e]; unfold rekey; split <;> simpa [Key.withSub] using this
        · exact hin key (by simp at hk2 ⊢; rcases hk2 with a | a | a <;> simp [a]) hn
      obtain ⟨kn, ks', km⟩ := key
      simp at hs hn hmach
      simp [hs, hn, hmach]
    · right; right; exact hn
  · right; left; exact hs


/-- `initialize_from_subproject_call` leaves option `k` (object `id`) alone when the merged dict holds nothing for
this subproject under `k`'s name -/
theorem initSub_frame (k : Key) (id : Nat) (s : Store) (sub : Str) (spcall pdo cmd mf d : Dict)
    (hd : mergeSub s.projectOptions s.pendingSub sub spcall pdo cmd mf = .ok d)
    (hP : ∀ kv ∈ d, kv.1.sub ≠ some sub ∨ kv.1.name ≠ k.name)
    (hnp : (Tables.nopfxTable.map (·.1)).contains k.name = false)
    (hdn : k.name ≠ sDebug ∧ k.name ≠ sOptimization)
    (hown : OwnObject k.name id s) : SameObs k id s (initSub sub spcall pdo cmd mf s).2 := by
  rw [initSub_eq sub spcall pdo cmd mf d s hd]
  have hfr : Fr k id (M.bind (M.forEach (stepSub s.augments sub) (buildtypeFirst d))
      (fun _ => M.modify (fun s => { s with subprojects := setAdd sub s.subprojects }))) := by
    apply Fr.bind'
    · exact Fr.forEachMem _ (fun kv hkv => Fr.stepSub k id s.augments sub kv (hP kv (mem_buildtypeFirst hkv)) hnp hdn)
    · intro _; exact Fr.modify (fun s => ⟨rfl, rfl, rfl, rfl, rfl, rfl⟩)
  exact hfr.run s hown

theorem not_mem_of_alookup_none {k : Key} : ∀ {d : Dict}, alookup k d = none → ∀ kv ∈ d, kv.1 ≠ k
  | [], _, kv, h => by simp at h
  | (a, b) :: r, h, kv, hkv => by
    simp only [alookup] at h
    split at h
    · cases h
    · next e =>
      simp at hkv
      rcases hkv with rfl | hkv
      · exact e
      · exact not_mem_of_alookup_none h kv hkv

end MesonModel.Options
