import MesonModel.Options.Model
/-
`conforms k v`: the typed value `v` satisfies type, choices and range of an option of class `k`
(the specification side of "a stored value always satisfies them"), and its relation to `validate`.
-/
namespace MesonModel.Options

/-- type, choices and range of class `k`, as a predicate on *stored* (typed) values -/
def conforms : Kind → Val → Bool
  | .string, .str _ => true
  | .boolean, .bool _ => true
  | .integer mn mx, .int n => checkRange mn mx n
  | .umask, .int n => checkRange (some 0) (some 511) n
  | .umask, .str s => s == sPreserve
  | .combo cs, .str s => cs.contains s
  | .feature, .str s => featureChoices.contains s
  | .array (some (c :: cs)), .arr l => l.all (fun x => (c :: cs).contains x)
  | .array _, .arr _ => true
  | _, _ => false

/-- the Python type an option class stores -/
def nativeType : Kind → Val → Bool
  | .string, .str _ => true
  | .boolean, .bool _ => true
  | .integer _ _, .int _ => true
  | .umask, .int _ => true
  | .combo _, .str _ => true
  | .feature, .str _ => true
  | .array _, .arr _ => true
  | _, _ => false

theorem validateInt_sound {f : Str → Option Int} {mn mx : Option Int} {v : Val} {n : Int}
    (h : validateInt f mn mx v = .ok n) : checkRange mn mx n = true := by
  unfold validateInt at h
  split at h
  · split at h
    · cases h
    · split at h
      · cases h; assumption
      · cases h
  · split at h
    · cases h; assumption
    · cases h
  · cases h

/-- whatever `validate_value` returns satisfies the option's type, choices and range -/
theorem validate_sound {k : Kind} {v v' : Val} (h : validate k v = .ok v') : conforms k v' = true := by
  cases k with
  | string => cases v <;> simp [validate] at h <;> subst h <;> rfl
  | boolean =>
    cases v <;> simp [validate] at h
    · split at h
      · cases h; rfl
      · split at h
        · cases h; rfl
        · cases h
    · subst h; rfl
  | integer mn mx =>
    simp only [validate] at h
    cases hv : validateInt pyInt10 mn mx v with
    | error e => simp [hv, Except.map] at h
    | ok n =>
      simp [hv, Except.map] at h; subst h
      simpa [conforms] using validateInt_sound hv
  | umask =>
    simp only [validate] at h
    split at h
    · cases h; simp [conforms]
    · cases hv : validateInt pyInt8 (some 0) (some 511) v with
      | error e => simp [hv, Except.map] at h
      | ok n =>
        simp [hv, Except.map] at h; subst h
        simpa [conforms] using validateInt_sound hv
  | combo cs =>
    cases v <;> simp only [validate] at h <;> try (cases h)
    split at h
    · next hc => cases h; simpa [conforms] using hc
    · cases h
  | feature =>
    cases v <;> simp only [validate] at h <;> try (cases h)
    split at h
    · next hc => cases h; simpa [conforms] using hc
    · cases h
  | array ch =>
    simp only [validate] at h
    cases hl : listifyArray v with
    | error e => simp [hl] at h
    | ok l =>
      simp only [hl] at h
      split at h
      · split at h
        · next hall => cases h; simpa [conforms] using hall
        · cases h
      · cases h
        cases ch with
        | none => rfl
        | some c => cases c with
          | nil => rfl
          | cons a b => simp at *

/-- a typed value that satisfies the option is accepted unchanged (so `validate` is idempotent) -/
theorem validate_of_conforms {k : Kind} {v : Val} (h : conforms k v = true) : validate k v = .ok v := by
  cases k with
  | string => cases v <;> simp [conforms] at h <;> rfl
  | boolean => cases v <;> simp [conforms] at h <;> rfl
  | integer mn mx => cases v <;> simp [conforms] at h <;> simp [validate, validateInt, h, Except.map]
  | umask =>
    cases v <;> simp [conforms] at h
    · subst h; simp [validate]
    · simp [validate, validateInt, h, Except.map]
  | combo cs => cases v <;> simp [conforms] at h <;> simp [validate, h]
  | feature => cases v <;> simp [conforms] at h <;> simp [validate, h]
  | array ch =>
    cases v <;> try (cases ch with | none => simp [conforms] at h | some c => cases c <;> simp [conforms] at h)
    rename_i l
    cases ch with
    | none => simp [validate, listifyArray]
    | some c =>
      cases c with
      | nil => simp [validate, listifyArray]
      | cons a b =>
        simp [conforms] at h
        simp [validate, listifyArray]
        intro x hx hne; exact (h x hx).resolve_left hne

theorem validate_idempotent {k : Kind} {v v' : Val} (h : validate k v = .ok v') : validate k v' = .ok v' :=
  validate_of_conforms (validate_sound h)

/-- a value of the option's own type that violates choices or range is rejected -/
theorem validate_rejects_nonconforming {k : Kind} {v : Val} (ht : nativeType k v = true)
    (hc : conforms k v = false) : validate k v = .error .meson := by
  cases k with
  | string => cases v <;> simp [nativeType, conforms] at ht hc
  | boolean => cases v <;> simp [nativeType, conforms] at ht hc
  | integer mn mx => cases v <;> simp [nativeType, conforms] at ht hc <;> simp [validate, validateInt, hc, Except.map]
  | umask =>
    cases v <;> simp [nativeType, conforms] at ht hc
    simp [validate, validateInt, hc, Except.map]
  | combo cs => cases v <;> simp [nativeType, conforms] at ht hc <;> simp [validate, hc]
  | feature => cases v <;> simp [nativeType, conforms] at ht hc <;> simp [validate, hc]
  | array ch =>
    cases v <;> simp [nativeType] at ht
    cases ch with
    | none => simp [conforms] at hc
    | some c =>
      cases c with
      | nil => simp [conforms] at hc
      | cons a b =>
        simp [conforms] at hc
        obtain ⟨x, hx, hne⟩ := hc
        simp [validate, listifyArray]
        exact ⟨x, hx, hne⟩

/-- acceptance is exactly "stands for a conforming value": nothing that `validate` accepts is invalid, and
`validate` never turns a rejected input into a stored value -/
theorem validate_ok_iff {k : Kind} {v : Val} :
    (∃ v', validate k v = .ok v') ↔ ∃ v', validate k v = .ok v' ∧ conforms k v' = true :=
  ⟨fun ⟨v', h⟩ => ⟨v', h, validate_sound h⟩, fun ⟨v', h, _⟩ => ⟨v', h⟩⟩

end MesonModel.Options
