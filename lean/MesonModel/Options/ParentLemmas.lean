import MesonModel.Options.WfOps
import MesonModel.Options.InvOps
/-
`add_project_option` links a yielding option only to a parent of the *same class* (`type(parent) is type(valobj)`,
options.py:918; `Kind.sameClass` = same constructor).  As an invariant of every call sequence: a linked parent
always has the child's class.  Consequence: what a yielding option reports has the type its own class stores;
it satisfies the child's own choices/range when the two options are declared alike.
-/
namespace MesonModel.Options
open M

/-- every parent pointer leads to an object of the same class -/
def ParentOk (s : Store) : Prop :=
  ∀ (i : Nat) (o : Obj) (pid : Nat), s.heap[i]? = some o → o.parent = some pid →
    ∃ p : Obj, s.heap[pid]? = some p ∧ p.kind.sameClass o.kind = true

structure PresPar {α : Type} (m : M α) : Prop where
  run : ∀ s, ParentOk s → ParentOk (m s).2

namespace PresPar
variable {α β : Type}
theorem pure' (a : α) : PresPar (M.pure a) := ⟨fun _ h => h⟩
theorem pure (a : α) : PresPar (Pure.pure a : M α) := ⟨fun _ h => h⟩
theorem fail (e : Err) : PresPar (M.fail e : M α) := ⟨fun _ h => h⟩
theorem get : PresPar M.get := ⟨fun _ h => h⟩
theorem ofExcept (e : Except Err α) : PresPar (M.ofExcept e) := by
  cases e <;> exact ⟨fun _ h => h⟩
theorem assert (b : Bool) : PresPar (M.assert b) := by
  cases b <;> exact ⟨fun _ h => h⟩
theorem modify {f : Store → Store} (hf : ∀ s, ParentOk s → ParentOk (f s)) : PresPar (M.modify f) := ⟨fun s h => hf s h⟩
theorem bind' {m : M α} {f : α → M β} (hm : PresPar m) (hf : ∀ a, PresPar (f a)) : PresPar (M.bind m f) := by
  constructor
  intro s h
  have h1 := hm.run s h
  unfold M.bind
  cases hr : m s with
  | mk r s' =>
    rw [hr] at h1
    cases r with
    | ok a => exact (hf a).run s' h1
    | error e => exact h1
theorem bind {m : M α} {f : α → M β} (hm : PresPar m) (hf : ∀ a, PresPar (f a)) : PresPar (m >>= f) := bind' hm hf
theorem catchMeson {m h : M α} (hm : PresPar m) (hh : PresPar h) : PresPar (M.catchMeson m h) := by
  constructor
  intro s hs
  have h1 := hm.run s hs
  unfold M.catchMeson
  cases hr : m s with
  | mk r s' =>
    rw [hr] at h1
    cases r with
    | ok a => exact h1
    | error e => cases e <;> first | exact hh.run s' h1 | exact h1
theorem forEach {γ : Type} {f : γ → M Unit} (hf : ∀ x, PresPar (f x)) : ∀ l, PresPar (M.forEach f l)
  | [] => pure' ()
  | x :: r => bind' (hf x) (fun _ => forEach hf r)
theorem forEachMem {γ : Type} {f : γ → M Unit} : ∀ (l : List γ), (∀ x ∈ l, PresPar (f x)) → PresPar (M.forEach f l)
  | [], _ => pure' ()
  | x :: r, h => bind' (h x (by simp)) (fun _ => forEachMem r (fun y hy => h y (by simp [hy])))
end PresPar

theorem parentOk_updObj {s : Store} (id : Nat) (f : Obj → Obj)
    (hk : ∀ o, (f o).kind = o.kind) (hp : ∀ o, (f o).parent = o.parent) (h : ParentOk s) :
    ParentOk (s.updObj id f) := by
  unfold Store.updObj
  cases hid : s.heap[id]? with
  | none => exact h
  | some oid =>
    show ParentOk { s with heap := s.heap.set id (f oid) }
    intro i o pid hi hpar
    simp only [List.getElem?_set] at hi ⊢
    have hlen : id < s.heap.length := (List.getElem?_eq_some_iff.mp hid).1
    -- the object at i before the update
    have hob : ∃ o0, s.heap[i]? = some o0 ∧ o.kind = o0.kind ∧ o.parent = o0.parent := by
      by_cases e : id = i
      · subst e; simp [hlen] at hi; subst hi; exact ⟨oid, hid, hk oid, hp oid⟩
      · simp [e] at hi; exact ⟨o, hi, rfl, rfl⟩
    obtain ⟨o0, h0, hk0, hp0⟩ := hob
    obtain ⟨p, hpp, hs⟩ := h i o0 pid h0 (by rw [← hp0]; exact hpar)
    by_cases e : id = pid
    · subst e
      rw [hid] at hpp; cases hpp
      exact ⟨f oid, by simp [hlen], by rw [hk oid, hk0]; exact hs⟩
    · exact ⟨p, by simp [e, hpp], by rw [hk0]; exact hs⟩

theorem PresPar.getObj (id : Nat) : PresPar (getObj id) := by
  constructor; intro s h; unfold MesonModel.Options.getObj; split <;> exact h

theorem PresPar.objSetValue (id : Nat) (v : Val) : PresPar (objSetValue id v) := by
  unfold MesonModel.Options.objSetValue
  apply PresPar.bind (PresPar.getObj id); intro o
  apply PresPar.bind (PresPar.ofExcept _); intro w
  exact PresPar.modify (fun s h => parentOk_updObj id _ (fun _ => rfl) (fun _ => rfl) h)

theorem PresPar.objSetYielding (id : Nat) (b : Bool) : PresPar (objSetYielding id b) :=
  PresPar.modify (fun s h => parentOk_updObj id _ (fun _ => rfl) (fun _ => rfl) h)

/-- a new object whose parent pointer (if any) leads to a same-class object of the current heap -/
theorem parentOk_alloc {s : Store} {o : Obj} (h : ParentOk s)
    (ho : ∀ pid, o.parent = some pid → ∃ p, s.heap[pid]? = some p ∧ p.kind.sameClass o.kind = true) :
    ParentOk { s with heap := s.heap ++ [o] } := by
  unfold ParentOk
  intro i x pid hi hpar
  have ext : ∀ (j : Nat) (p : Obj), s.heap[j]? = some p → (s.heap ++ [o])[j]? = some p := by
    intro j p hj
    have := (List.getElem?_eq_some_iff.mp hj).1
    simp [List.getElem?_append_left this, hj]
  simp only at hi ⊢
  by_cases hlt : i < s.heap.length
  · rw [List.getElem?_append_left hlt] at hi
    obtain ⟨p, hp, hs⟩ := h i x pid hi hpar
    exact ⟨p, ext pid p hp, hs⟩
  · have hge : s.heap.length ≤ i := Nat.le_of_not_lt hlt
    rw [List.getElem?_append_right hge] at hi
    cases hsub : i - s.heap.length with
    | zero =>
      simp [hsub] at hi; subst hi
      obtain ⟨p, hp, hs⟩ := ho pid hpar
      exact ⟨p, ext pid p hp, hs⟩
    | succ n => simp [hsub] at hi

theorem PresPar.alloc {o : Obj} (ho : o.parent = none) : PresPar (alloc o) :=
  ⟨fun s h => parentOk_alloc h (fun pid hp => by rw [ho] at hp; cases hp)⟩

theorem mkObj_parent {sp : ObjSpec} {o : Obj} (h : mkObj sp = .ok o) : o.parent = none := by
  unfold mkObj at h
  cases hv : validate sp.kind sp.default with
  | error e => simp [hv] at h
  | ok v => simp [hv] at h; subst h; rfl

end MesonModel.Options
