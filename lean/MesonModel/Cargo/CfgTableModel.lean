/-
Model of the target-cfg table the cargo interpreter evaluates `cfg()` conditions against:
`Interpreter._get_cfgs(machine, subproject)` (memoised with `functools.lru_cache`) on top of
`RustCompiler.get_cfgs()` (memoised too: every call returns THE SAME list object), and
`_split_cfg`.  Whether `_get_cfgs` copies that list before appending the `--cfg` values of the
subproject's `rust_args` is a parameter (regenerated from the source into
`Generated/CargoCache.lean`): without the copy the appended values land in the compiler's cache.
Core Lean only.
-/
import MesonModel.Cargo.Model

namespace MesonModel.Cargo.CfgTable
open MesonModel.Cargo

abbrev Line := List Char

/-- `_split_cfg(cfg)`: `name` or `name=value` / `name="value"` -/
def splitCfg (cfg : Line) : List Char × List Char :=
  let name := cfg.takeWhile (fun c => c != '=')
  let rest := cfg.dropWhile (fun c => c != '=')
  match rest with
  | [] => (name, [])
  | _ :: value =>
    match value with
    | '"' :: v => (name, v.dropLast)   -- `value[1:-1]`
    | _ => (name, value)

/-- the `for i in rustflags_i: if i == '--cfg': cfgs.append(next(rustflags_i))` scan.
A trailing `--cfg` (Python: `StopIteration`) is outside the modelled domain and yields nothing. -/
def cfgFlags : List Line → List Line
  | [] => []
  | [_] => []
  | a :: b :: rest => if a = "--cfg".toList then b :: cfgFlags rest else cfgFlags (b :: rest)

/-- `dict(pairs)`: a later pair with the same key replaces the value, the key keeps its place -/
def dictInsert (d : Cfgs) (kv : List Char × List Char) : Cfgs :=
  if d.any (fun e => e.1 == kv.1) then d.map (fun e => if e.1 == kv.1 then (e.1, kv.2) else e)
  else d ++ [kv]

def mkTable (lines : List Line) : Cfgs := (lines.map splitCfg).foldl dictInsert []

/-- a memo key: machine (`false` = host, `true` = build) and subproject -/
abbrev Key := Bool × Nat

structure State where
  /-- the list object cached by `RustCompiler.get_cfgs` of the host / build compiler -/
  baseHost : List Line
  baseBuild : List Line
  /-- `lru_cache` of `_get_cfgs` -/
  memo : List (Key × Cfgs)
  deriving DecidableEq, Repr

def State.base (s : State) (m : Bool) : List Line := if m then s.baseBuild else s.baseHost

/-- `_get_cfgs(machine, subproject)`; `rustArgs k` is the value of the `rust_args` option for that key.
`copies = false` models `cfgs = rustc.get_cfgs()` without `.copy()`. -/
def getCfgs (copies : Bool) (rustArgs : Key → List Line) (s : State) (k : Key) : State × Cfgs :=
  match s.memo.lookup k with
  | some t => (s, t)
  | none =>
    let cfgs := s.base k.1 ++ cfgFlags (rustArgs k)
    let t := mkTable cfgs
    let s' : State :=
      if copies then { s with memo := (k, t) :: s.memo }
      else if k.1 then { s with baseBuild := cfgs, memo := (k, t) :: s.memo }
      else { s with baseHost := cfgs, memo := (k, t) :: s.memo }
    (s', t)

def run (copies : Bool) (rustArgs : Key → List Line) (s : State) (ks : List Key) : State :=
  ks.foldl (fun st k => (getCfgs copies rustArgs st k).1) s

/-- what a call for `k` must return whatever happened before: the compiler's cfgs plus that key's flags -/
def expected (rustArgs : Key → List Line) (s0 : State) (k : Key) : Cfgs :=
  mkTable (s0.base k.1 ++ cfgFlags (rustArgs k))

end MesonModel.Cargo.CfgTable
