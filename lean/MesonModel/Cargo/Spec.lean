/-
Independent specification for C20, written from the Cargo reference ("Specifying dependencies"),
the documented behaviour of the `semver` crate, semver.org section 11 and the cfg grammar of the
Rust reference.  Nothing here refers to how `version.py` / `cfg.py` compute; the only shared
vocabulary is the syntax tree `IR` and the token type of cfg expressions.
-/
import MesonModel.Cargo.Model

namespace MesonModel.Cargo.Spec

/-! ## Cargo requirements on release versions -/

/-- a release version `major.minor.patch` -/
abbrev V := Nat × Nat × Nat

/-- `a < b` for release versions (section 11.2: major, minor, patch compared numerically) -/
def tlt (a b : V) : Prop :=
  a.1 < b.1 ∨ (a.1 = b.1 ∧ (a.2.1 < b.2.1 ∨ (a.2.1 = b.2.1 ∧ a.2.2 < b.2.2)))

def tle (a b : V) : Prop := tlt a b ∨ a = b

/-- the requirement forms of the Cargo reference -/
inductive ReqOp where
  | exact      -- `=I.J.K`
  | greater    -- `>I.J.K`
  | greaterEq  -- `>=I.J.K`
  | less       -- `<I.J.K`
  | lessEq     -- `<=I.J.K`
  | tilde      -- `~I.J.K`
  | caret      -- `^I.J.K` and the bare form `I.J.K`
  | wildcard   -- `I.*`, `I.J.*`
  deriving DecidableEq, Repr

/-- Cargo's own rule for a comparator with 1–3 numeric components (the `semver` crate's
`Comparator` documentation): a missing component is a wildcard, not a zero. -/
def cargoRule : ReqOp → List Nat → V → Prop
  | .exact, [i], v => tle (i, 0, 0) v ∧ tlt v (i + 1, 0, 0)
  | .exact, [i, j], v => tle (i, j, 0) v ∧ tlt v (i, j + 1, 0)
  | .exact, [i, j, k], v => v = (i, j, k)
  | .greater, [i], v => tle (i + 1, 0, 0) v
  | .greater, [i, j], v => tle (i, j + 1, 0) v
  | .greater, [i, j, k], v => tlt (i, j, k) v
  | .greaterEq, [i], v => tle (i, 0, 0) v
  | .greaterEq, [i, j], v => tle (i, j, 0) v
  | .greaterEq, [i, j, k], v => tle (i, j, k) v
  | .less, [i], v => tlt v (i, 0, 0)
  | .less, [i, j], v => tlt v (i, j, 0)
  | .less, [i, j, k], v => tlt v (i, j, k)
  | .lessEq, [i], v => tlt v (i + 1, 0, 0)
  | .lessEq, [i, j], v => tlt v (i, j + 1, 0)
  | .lessEq, [i, j, k], v => tle v (i, j, k)
  | .tilde, [i], v => tle (i, 0, 0) v ∧ tlt v (i + 1, 0, 0)
  | .tilde, [i, j], v => tle (i, j, 0) v ∧ tlt v (i, j + 1, 0)
  | .tilde, [i, j, k], v => tle (i, j, k) v ∧ tlt v (i, j + 1, 0)
  | .wildcard, [i], v => tle (i, 0, 0) v ∧ tlt v (i + 1, 0, 0)
  | .wildcard, [i, j], v => tle (i, j, 0) v ∧ tlt v (i, j + 1, 0)
  | .caret, [i], v => tle (i, 0, 0) v ∧ tlt v (i + 1, 0, 0)
  | .caret, [i, j], v => tle (i, j, 0) v ∧ tlt v (if i > 0 then (i + 1, 0, 0) else (0, j + 1, 0))
  | .caret, [i, j, k], v =>
    tle (i, j, k) v ∧
      tlt v (if i > 0 then (i + 1, 0, 0) else if j > 0 then (0, j + 1, 0) else (0, 0, k + 1))
  | _, _, _ => False

/-- Cargo's rule with the two deviations the project pins in `unittests/cargotests.py`:
(1) a partial `=` / `>` comparator pads the missing components with zero;
(2) an all-zero caret requirement means `< 1.0.0`. Everything else is `cargoRule`. -/
def pinnedRule (op : ReqOp) (cs : List Nat) (v : V) : Prop :=
  match op, cs with
  | .exact, [i] => v = (i, 0, 0)
  | .exact, [i, j] => v = (i, j, 0)
  | .greater, [i] => tlt (i, 0, 0) v
  | .greater, [i, j] => tlt (i, j, 0) v
  | .caret, [0, 0] => tlt v (1, 0, 0)
  | .caret, [0, 0, 0] => tlt v (1, 0, 0)
  | _, _ => cargoRule op cs v

/-- where a deviation clause applies -/
def deviates (op : ReqOp) (cs : List Nat) : Bool :=
  match op, cs with
  | .exact, [_] | .exact, [_, _] | .greater, [_] | .greater, [_, _] => true
  | .caret, [0, 0] | .caret, [0, 0, 0] => true
  | _, _ => false

/-! ## SemVer 2.0.0 section 11 -/

/-- a pre-release identifier: numeric, or alphanumeric (contains a letter or hyphen) -/
inductive Ident where
  | num (n : Nat)
  | alnum (s : List Char)
  deriving DecidableEq, Repr

structure SV where
  major : Nat
  minor : Nat
  patch : Nat
  pre : List Ident
  deriving DecidableEq, Repr

/-- lexicographic order in which a proper prefix is smaller (11.4.4) -/
inductive LexLt {α : Type} (r : α → α → Prop) : List α → List α → Prop where
  | nil_cons (b : α) (bs : List α) : LexLt r [] (b :: bs)
  | head {a b : α} (as bs : List α) : r a b → LexLt r (a :: as) (b :: bs)
  | tail (a : α) {as bs : List α} : LexLt r as bs → LexLt r (a :: as) (a :: bs)

/-- 11.4.1 numeric identifiers numerically, 11.4.2 alphanumeric ones in ASCII order,
11.4.3 numeric below alphanumeric -/
def identLt : Ident → Ident → Prop
  | .num a, .num b => a < b
  | .num _, .alnum _ => True
  | .alnum _, .num _ => False
  | .alnum a, .alnum b => LexLt (fun x y : Char => x.toNat < y.toNat) a b

/-- precedence `a < b` -/
def Prec (a b : SV) : Prop :=
  tlt (a.major, a.minor, a.patch) (b.major, b.minor, b.patch) ∨
  ((a.major, a.minor, a.patch) = (b.major, b.minor, b.patch) ∧
    ((a.pre ≠ [] ∧ b.pre = []) ∨                       -- 11.3
     (a.pre ≠ [] ∧ b.pre ≠ [] ∧ LexLt identLt a.pre b.pre)))   -- 11.4

/-! ## cfg expressions -/

mutual
/-- the token language of the grammar
`e ::= name | name = "value" | not ( e ) | all ( [e {, e}] ) | any ( [e {, e}] )` -/
def renderTokens : IR → List Token
  | .ident n => [.ident n]
  | .equal n v => [.ident n, .equal, .str v]
  | .not e => [.not, .lparen] ++ (renderTokens e ++ [.rparen])
  | .any as => [.any, .lparen] ++ (renderArgs as ++ [.rparen])
  | .all as => [.all, .lparen] ++ (renderArgs as ++ [.rparen])
def renderArgs : List IR → List Token
  | [] => []
  | e :: es => renderTokens e ++ renderRest es
def renderRest : List IR → List Token
  | [] => []
  | e :: es => .comma :: (renderTokens e ++ renderRest es)
end

mutual
/-- every name in the tree is a non-empty word -/
def namesOk : IR → Prop
  | .ident n => n ≠ []
  | .equal n _ => n ≠ []
  | .not e => namesOk e
  | .any as => namesOkL as
  | .all as => namesOkL as
def namesOkL : List IR → Prop
  | [] => True
  | e :: es => namesOk e ∧ namesOkL es
end

end MesonModel.Cargo.Spec
