/-
Helper lemmas for `cargo_eq_spec`: the model's matcher on tag-free comparators and release versions.
-/
import MesonModel.Cargo.OrderLemmas
import MesonModel.Cargo.Spec
set_option linter.unusedSimpArgs false

namespace MesonModel.Cargo
open Spec

/-- the canonical operator `split()` yields for each requirement form (`I.*` becomes a tilde) -/
def toModelOp : ReqOp → Op
  | .exact => .eq | .greater => .gt | .greaterEq => .ge | .less => .lt | .lessEq => .le
  | .tilde => .tilde | .caret => .caret | .wildcard => .tilde

/-- what `SemVer(...)` holds for the text `i[.j[.k]]` (see `parse_renderComps`) -/
def SemVer.ofComps (cs : List Nat) : SemVer :=
  ⟨padTo 4 (cs.map (fun (n : Nat) => Comp.int (Int.ofNat n))), cs.length⟩

/-- the release version `a.b.c` as `SemVer` holds it -/
def release (v : V) : SemVer :=
  ⟨[.int (v.1 : Int), .int (v.2.1 : Int), .int (v.2.2 : Int), .int 0], 3⟩

theorem vcmp_nil : vcmp [] [] = .eq := rfl

theorem vlt4 (a b c x y z : Int) :
    vlt [.int a, .int b, .int c, .int 0] [.int x, .int y, .int z, .int 0] = true ↔
      (a < x ∨ (a = x ∧ (b < y ∨ (b = y ∧ c < z)))) := by
  simp only [vlt, vcmp_cons_int, vcmp_nil]
  by_cases h1 : a < x <;> by_cases h2 : a = x <;> by_cases h3 : b < y <;> by_cases h4 : b = y <;>
    by_cases h5 : c < z <;> by_cases h6 : c = z <;> simp_all <;> omega

theorem vgt4 (a b c x y z : Int) :
    vgt [.int a, .int b, .int c, .int 0] [.int x, .int y, .int z, .int 0] = true ↔
      (x < a ∨ (a = x ∧ (y < b ∨ (b = y ∧ z < c)))) := by
  simp only [vgt, vcmp_cons_int, vcmp_nil]
  by_cases h1 : a < x <;> by_cases h2 : a = x <;> by_cases h3 : b < y <;> by_cases h4 : b = y <;>
    by_cases h5 : c < z <;> by_cases h6 : c = z <;> simp_all <;> omega

theorem vle4 (a b c x y z : Int) :
    vle [.int a, .int b, .int c, .int 0] [.int x, .int y, .int z, .int 0] = true ↔
      ¬ (x < a ∨ (a = x ∧ (y < b ∨ (b = y ∧ z < c)))) := by
  rw [← vgt4]; simp [vle, vgt]

theorem vge4 (a b c x y z : Int) :
    vge [.int a, .int b, .int c, .int 0] [.int x, .int y, .int z, .int 0] = true ↔
      ¬ (a < x ∨ (a = x ∧ (b < y ∨ (b = y ∧ c < z)))) := by
  rw [← vlt4]; simp [vge, vlt]

theorem veq4 (a b c x y z : Int) :
    veq [.int a, .int b, .int c, .int 0] [.int x, .int y, .int z, .int 0] = true ↔
      (a = x ∧ b = y ∧ c = z) := by
  simp [veq]

macro "match_simp" : tactic => `(tactic|
  simp [compareWith, constraintsOf, toModelOp, SemVer.ofComps, release, SemVer.hasPre, padTo,
      Rel.holds, nextVerLast, nextVer, SemVer.ofList, compInt, caretIdx, pinnedRule, cargoRule, tlt, tle,
      vlt4, vgt4, vle4, vge4, veq4, *])

theorem matches_iff (op : ReqOp) (cs : List Nat) (v : V)
    (h1 : 1 ≤ cs.length) (h3 : cs.length ≤ 3) (hw : op = .wildcard → cs.length ≤ 2) :
    compareWith (constraintsOf (toModelOp op) (SemVer.ofComps cs)) false (release v) = true ↔
      pinnedRule op cs v := by
  obtain ⟨a, b, c⟩ := v
  match cs, h1, h3, hw with
  | [i], _, _, _ => cases op <;> match_simp <;> omega
  | [i, j], _, _, _ =>
    cases op
    case caret =>
      rcases Nat.eq_zero_or_pos i with hi | hi
      · subst hi
        rcases Nat.eq_zero_or_pos j with hj | hj
        · subst hj; match_simp <;> omega
        · have : j ≠ 0 := by omega
          match_simp <;> omega
      · have : i ≠ 0 := by omega
        match_simp <;> omega
    all_goals (match_simp <;> omega)
  | [i, j, k], _, _, hw =>
    cases op
    case wildcard => have := hw rfl; simp at this
    case caret =>
      rcases Nat.eq_zero_or_pos i with hi | hi
      · subst hi
        rcases Nat.eq_zero_or_pos j with hj | hj
        · subst hj
          rcases Nat.eq_zero_or_pos k with hk | hk
          · subst hk; match_simp <;> omega
          · have : k ≠ 0 := by omega
            match_simp <;> omega
        · have : j ≠ 0 := by omega
          match_simp <;> omega
      · have : i ≠ 0 := by omega
        match_simp <;> omega
    all_goals (match_simp <;> omega)

end MesonModel.Cargo
