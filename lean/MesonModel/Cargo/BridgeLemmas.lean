/-
Helper lemmas: the text `I[.J[.K]]` (ASCII digit runs) parses to its numeric components, so the
structured statement `matches_iff` speaks about requirement and version *strings*.
-/
import MesonModel.Cargo.MatchLemmas
set_option linter.unusedSimpArgs false
namespace MesonModel.Cargo
open MesonModel.Py

/-! ### the text `I[.J[.K]]` parses to its numeric components -/

theorem scanGo_digits (ds : List Char) (hd : ∀ c, c ∈ ds → isDigit c = true) :
    ∀ (acc : Nat) (rest : List Char),
      scanGo (.digits acc) (ds ++ rest) =
        scanGo (.digits (ds.foldl (fun a c => a * 10 + digitVal c) acc)) rest := by
  induction ds with
  | nil => intro acc rest; rfl
  | cons d ds ih =>
    intro acc rest
    have h1 : isDigit d = true := hd d (by simp)
    simp only [List.cons_append, scanGo, h1, if_true, List.foldl_cons]
    exact ih (fun c hc => hd c (by simp [hc])) _ _

theorem scan_digits_none (d : Char) (ds : List Char) (hd : ∀ c, c ∈ d :: ds → isDigit c = true)
    (rest : List Char) :
    scanGo .none (d :: ds ++ rest) = scanGo (.digits (natOfDigits (d :: ds))) rest := by
  have h1 : isDigit d = true := hd d (by simp)
  simp only [List.cons_append, scanGo, h1, if_true]
  rw [scanGo_digits ds (fun c hc => hd c (by simp [hc]))]
  simp [natOfDigits]

theorem scanGo_digits_dot (n : Nat) (r : List Char) :
    scanGo (.digits n) ('.' :: r) = .num n :: scanGo .none r := by
  have h1 : isDigit '.' = false := by decide
  have h2 : isIdentStart '.' = false := by decide
  simp [scanGo, h1, h2, flush]

theorem scanGo_digits_end (n : Nat) : scanGo (.digits n) [] = [.num n] := rfl

/-- a non-empty run of ASCII digits -/
def IsNum (s : List Char) : Prop := s ≠ [] ∧ ∀ c, c ∈ s → isDigit c = true

theorem parse_one (a : List Char) (ha : IsNum a) :
    SemVer.parse a = SemVer.ofComps [natOfDigits a] := by
  obtain ⟨hne, hd⟩ := ha
  cases a with
  | nil => exact absurd rfl hne
  | cons d ds =>
    have := scan_digits_none d ds hd []
    simp only [List.append_nil] at this
    simp [SemVer.parse, scan, this, scanGo_digits_end, pstep, SemVer.ofComps, padTo]

theorem parse_two (a b : List Char) (ha : IsNum a) (hb : IsNum b) :
    SemVer.parse (a ++ '.' :: b) = SemVer.ofComps [natOfDigits a, natOfDigits b] := by
  obtain ⟨hne, hd⟩ := ha
  obtain ⟨hne2, hd2⟩ := hb
  cases a with
  | nil => exact absurd rfl hne
  | cons d ds =>
    cases b with
    | nil => exact absurd rfl hne2
    | cons e es =>
      have h1 := scan_digits_none d ds hd ('.' :: e :: es)
      have h2 := scan_digits_none e es hd2 []
      simp only [List.append_nil] at h2
      unfold SemVer.parse scan
      rw [h1, scanGo_digits_dot, h2, scanGo_digits_end]
      simp [pstep, SemVer.ofComps, padTo]

theorem parse_three (a b c : List Char) (ha : IsNum a) (hb : IsNum b) (hc : IsNum c) :
    SemVer.parse (a ++ '.' :: (b ++ '.' :: c)) =
      SemVer.ofComps [natOfDigits a, natOfDigits b, natOfDigits c] := by
  obtain ⟨hne, hd⟩ := ha
  obtain ⟨hne2, hd2⟩ := hb
  obtain ⟨hne3, hd3⟩ := hc
  cases a with
  | nil => exact absurd rfl hne
  | cons d ds =>
    cases b with
    | nil => exact absurd rfl hne2
    | cons e es =>
      cases c with
      | nil => exact absurd rfl hne3
      | cons g gs =>
        have h1 := scan_digits_none d ds hd ('.' :: (e :: es ++ '.' :: g :: gs))
        have h2 := scan_digits_none e es hd2 ('.' :: g :: gs)
        have h3 := scan_digits_none g gs hd3 []
        simp only [List.append_nil] at h3
        unfold SemVer.parse scan
        rw [h1, scanGo_digits_dot, h2, scanGo_digits_dot, h3, scanGo_digits_end]
        simp [pstep, SemVer.ofComps, padTo]

/-- `I`, `I.J`, `I.J.K` … joined with dots -/
def dotted : List (List Char) → List Char
  | [] => []
  | [a] => a
  | a :: b :: rest => a ++ '.' :: dotted (b :: rest)

theorem parse_dotted (ds : List (List Char)) (h1 : 1 ≤ ds.length) (h3 : ds.length ≤ 3)
    (hd : ∀ d, d ∈ ds → IsNum d) :
    SemVer.parse (dotted ds) = SemVer.ofComps (ds.map natOfDigits) := by
  match ds, h1, h3 with
  | [a], _, _ => exact parse_one a (hd a (by simp))
  | [a, b], _, _ => exact parse_two a b (hd a (by simp)) (hd b (by simp))
  | [a, b, c], _, _ => exact parse_three a b c (hd a (by simp)) (hd b (by simp)) (hd c (by simp))

theorem ofComps_three (x y z : Nat) : SemVer.ofComps [x, y, z] = release (x, y, z) := by
  simp [SemVer.ofComps, release, padTo]

end MesonModel.Cargo
