/-
Helper lemmas: what `SemVer(...)` holds for a version *text*. The text `I[.J[.K]]` (ASCII digit
runs) parses to its numeric components, and a full SemVer text `M.m.p[-pre][+build]` parses to the
encoding of its fields as the specification reads them.
-/
import MesonModel.Cargo.SemverLemmas
set_option linter.unusedSimpArgs false
namespace MesonModel.Cargo
open MesonModel.Py Spec

/-! ### the digit-run scanner -/

theorem scanCore_digits (ds : List Char) (hd : ∀ c, c ∈ ds → isDigit c = true) :
    ∀ (acc : Nat) (rest : List Char),
      scanCore (.digits acc) (ds ++ rest) =
        scanCore (.digits (ds.foldl (fun a c => a * 10 + digitVal c) acc)) rest := by
  induction ds with
  | nil => intro acc rest; rfl
  | cons d ds ih =>
    intro acc rest
    have h1 : isDigit d = true := hd d (by simp)
    simp only [List.cons_append, scanCore, h1, if_true, List.foldl_cons]
    exact ih (fun c hc => hd c (by simp [hc])) _ _

/-- a non-empty run of ASCII digits -/
def IsNum (s : List Char) : Prop := s ≠ [] ∧ ∀ c, c ∈ s → isDigit c = true

theorem scanCore_num (a : List Char) (ha : IsNum a) (rest : List Char) :
    scanCore .none (a ++ rest) = scanCore (.digits (natOfDigits a)) rest := by
  obtain ⟨hne, hd⟩ := ha
  cases a with
  | nil => exact absurd rfl hne
  | cons d ds =>
    have h1 : isDigit d = true := hd d (by simp)
    simp only [List.cons_append, scanCore, h1, if_true]
    rw [scanCore_digits ds (fun c hc => hd c (by simp [hc]))]
    simp [natOfDigits]

theorem scanCore_digits_dot (n : Nat) (r : List Char) :
    scanCore (.digits n) ('.' :: r) = (n :: (scanCore .none r).1, (scanCore .none r).2) := by
  have h1 : isDigit '.' = false := by decide
  have h2 : isIdentStart '.' = false := by decide
  simp [scanCore, h1, h2, flush]

/-- what ends the numeric core: nothing, the pre-release marker, or build metadata -/
inductive Tail : List Char → List Char → Prop where
  | none : Tail [] []
  | pre (x : List Char) : Tail ('-' :: x) ('-' :: x)
  | build (x : List Char) : Tail ('+' :: x) []

theorem scanCore_digits_tail (n : Nat) (tail txt : List Char) (ht : Tail tail txt) :
    scanCore (.digits n) tail = ([n], txt) := by
  have h1 : isDigit '-' = false := by decide
  have h2 : isIdentStart '-' = true := by decide
  have h3 : isDigit '+' = false := by decide
  have h4 : isIdentStart '+' = false := by decide
  cases ht <;> simp [scanCore, flush, h1, h2, h3, h4]

/-- `I`, `I.J`, `I.J.K` … joined with dots -/
def dotted : List (List Char) → List Char
  | [] => []
  | [a] => a
  | a :: b :: rest => a ++ '.' :: dotted (b :: rest)

theorem scanCore_dotted (ds : List (List Char)) (hne : ds ≠ []) (hd : ∀ d, d ∈ ds → IsNum d)
    (tail txt : List Char) (ht : Tail tail txt) :
    scanCore .none (dotted ds ++ tail) = (ds.map natOfDigits, txt) := by
  induction ds with
  | nil => exact absurd rfl hne
  | cons a rest ih =>
    cases rest with
    | nil =>
      simp only [dotted, List.map]
      rw [scanCore_num a (hd a (by simp)), scanCore_digits_tail _ _ _ ht]
    | cons b rest' =>
      have := ih (by simp) (fun d h => hd d (by simp [h]))
      simp only [dotted, List.append_assoc, List.cons_append]
      rw [scanCore_num a (hd a (by simp)), scanCore_digits_dot, this]
      simp

theorem preIdents_nil : preIdents [] = [] := by decide

theorem parse_dotted (ds : List (List Char)) (h1 : 1 ≤ ds.length) (h3 : ds.length ≤ 3)
    (hd : ∀ d, d ∈ ds → IsNum d) :
    SemVer.parse (dotted ds) = SemVer.ofComps (ds.map natOfDigits) := by
  have hne : ds ≠ [] := by intro h; subst h; simp at h1
  have := scanCore_dotted ds hne hd [] [] Tail.none
  simp only [List.append_nil] at this
  have ht : (ds.map natOfDigits).take 3 = ds.map natOfDigits := by
    apply List.take_of_length_le; simpa using h3
  simp [SemVer.parse, this, preIdents_nil, ht, SemVer.ofComps]

theorem ofComps_three (x y z : Nat) : SemVer.ofComps [x, y, z] = release (x, y, z) := by
  simp [SemVer.ofComps, release, padTo]

/-! ### the pre-release section -/

theorem splitOnChar_ne_nil (sep : Char) (s : List Char) : splitOnChar sep s ≠ [] := by
  cases s with
  | nil => simp [splitOnChar]
  | cons d ds => simp only [splitOnChar]; split <;> (try split) <;> simp

theorem splitOnChar_append (sep : Char) (a b : List Char) :
    splitOnChar sep (a ++ sep :: b) = splitOnChar sep a ++ splitOnChar sep b := by
  induction a with
  | nil => simp [splitOnChar]
  | cons c cs ih =>
    by_cases h : c = sep
    · subst h; simp [splitOnChar, ih]
    · simp only [List.cons_append, splitOnChar, h, beq_iff_eq, if_false, ih]
      cases h1 : splitOnChar sep cs with
      | nil => exact absurd h1 (splitOnChar_ne_nil sep cs)
      | cons p ps => simp

theorem splitOnChar_noSep (sep : Char) (a : List Char) (h : sep ∉ a) : splitOnChar sep a = [a] := by
  induction a with
  | nil => simp [splitOnChar]
  | cons c cs ih =>
    have hc : ¬ c = sep := by intro e; subst e; simp at h
    have := ih (by intro hm; exact h (by simp [hm]))
    simp [splitOnChar, hc, this]

/-- a pre-release identifier text: non-empty, over `[0-9A-Za-z-]` -/
def IsIdent (i : List Char) : Prop := i ≠ [] ∧ ∀ c, c ∈ i → isIdentChar c = true

theorem identChar_ne_dot (c : Char) (h : isIdentChar c = true) : c ≠ '.' := by
  intro e; subst e; exact absurd h (by decide)
theorem identChar_ne_plus (c : Char) (h : isIdentChar c = true) : c ≠ '+' := by
  intro e; subst e; exact absurd h (by decide)

theorem split_dotted (ids : List (List Char)) (hne : ids ≠ []) (hi : ∀ i, i ∈ ids → IsIdent i) :
    splitOnChar '.' (dotted ids) = ids := by
  induction ids with
  | nil => exact absurd rfl hne
  | cons a rest ih =>
    have ha : '.' ∉ a := fun hm => identChar_ne_dot _ ((hi a (by simp)).2 _ hm) rfl
    cases rest with
    | nil => simpa [dotted] using splitOnChar_noSep '.' a ha
    | cons b rest' =>
      have := ih (by simp) (fun i h => hi i (by simp [h]))
      simp only [dotted]
      rw [splitOnChar_append, splitOnChar_noSep '.' a ha, this]
      rfl

theorem dotted_no_plus (ids : List (List Char)) (hi : ∀ i, i ∈ ids → IsIdent i) :
    ∀ c, c ∈ dotted ids → c ≠ '+' := by
  induction ids with
  | nil => intro c hc; simp [dotted] at hc
  | cons a rest ih =>
    cases rest with
    | nil => intro c hc; exact identChar_ne_plus c ((hi a (by simp)).2 c (by simpa [dotted] using hc))
    | cons b rest' =>
      intro c hc
      simp only [dotted, List.mem_append, List.mem_cons] at hc
      rcases hc with h | h | h
      · exact identChar_ne_plus c ((hi a (by simp)).2 c h)
      · subst h; decide
      · exact ih (fun i h' => hi i (by simp [h'])) c h

theorem takeWhile_stop (l : List Char) (hl : ∀ c, c ∈ l → c ≠ '+') (rest : List Char)
    (hr : rest = [] ∨ ∃ x, rest = '+' :: x) :
    (l ++ rest).takeWhile (fun c => c != '+') = l := by
  induction l with
  | nil =>
    rcases hr with rfl | ⟨x, rfl⟩ <;> simp
  | cons c cs ih =>
    have hc : c ≠ '+' := hl c (by simp)
    simp [List.takeWhile, hc, ih (fun d hd => hl d (by simp [hd]))]

/-- how the specification reads an identifier text -/
def fieldOf (i : List Char) : Ident :=
  if i.all isDigit then .num (natOfDigits i) else .alnum i

theorem classify_eq (i : List Char) : classify i = encI (fieldOf i) := by
  unfold classify fieldOf
  split <;> simp [encI]

theorem preIdents_section (ids : List (List Char)) (hne : ids ≠ []) (hi : ∀ i, i ∈ ids → IsIdent i)
    (rest : List Char) (hr : rest = [] ∨ ∃ x, rest = '+' :: x) :
    preIdents ('-' :: (dotted ids ++ rest)) = (ids.map fieldOf).map encI := by
  have h1 : (('-' :: dotted ids) ++ rest).takeWhile (fun c => c != '+') = '-' :: dotted ids :=
    takeWhile_stop _ (by
      intro c hc
      simp only [List.mem_cons] at hc
      rcases hc with h | h
      · subst h; decide
      · exact dotted_no_plus ids hi c h) rest hr
  simp only [List.cons_append] at h1
  have h2 : ∀ i, i ∈ ids → i ≠ [] := fun i h => (hi i h).1
  simp only [preIdents, h1, startsWith, List.isPrefixOf, beq_self_eq_true, Bool.true_and, if_true,
    List.drop, split_dotted ids hne hi]
  rw [List.filter_eq_self.mpr (by intro i h; simpa using h2 i h)]
  simp [classify_eq]

/-! ### a full SemVer text -/

structure SVText where
  major : List Char
  minor : List Char
  patch : List Char
  pre : List (List Char)
  build : Option (List Char)

def SVText.wf (t : SVText) : Prop :=
  IsNum t.major ∧ IsNum t.minor ∧ IsNum t.patch ∧ ∀ i, i ∈ t.pre → IsIdent i

def buildText : Option (List Char) → List Char
  | none => []
  | some b => '+' :: b

/-- `M.m.p[-pre][+build]` -/
def SVText.render (t : SVText) : List Char :=
  dotted [t.major, t.minor, t.patch] ++
    ((if t.pre = [] then [] else '-' :: dotted t.pre) ++ buildText t.build)

/-- the fields as the specification reads them -/
def SVText.fields (t : SVText) : SV :=
  ⟨natOfDigits t.major, natOfDigits t.minor, natOfDigits t.patch, t.pre.map fieldOf⟩

theorem parse_render_text (t : SVText) (h : t.wf) : SemVer.parse t.render = ⟨encode t.fields, 3⟩ := by
  obtain ⟨hM, hm, hp, hi⟩ := h
  have hd : ∀ d, d ∈ [t.major, t.minor, t.patch] → IsNum d := by
    intro d hd; simp at hd; rcases hd with rfl | rfl | rfl <;> assumption
  have hb : buildText t.build = [] ∨ ∃ x, buildText t.build = '+' :: x := by
    cases t.build <;> simp [buildText]
  by_cases hpre : t.pre = []
  · -- release
    have htail : ∃ txt, Tail (buildText t.build) txt ∧ preIdents txt = [] := by
      cases hbb : t.build with
      | none => exact ⟨[], by simpa [buildText] using Tail.none, preIdents_nil⟩
      | some b => exact ⟨[], by simpa [buildText] using Tail.build b, preIdents_nil⟩
    obtain ⟨txt, ht, hpi⟩ := htail
    have := scanCore_dotted [t.major, t.minor, t.patch] (by simp) hd _ _ ht
    simp only [SVText.render, hpre, if_true, List.nil_append]
    simp [SemVer.parse, this, hpi, encode, SVText.fields, hpre, padTo]
  · -- pre-release
    have ht : Tail ('-' :: (dotted t.pre ++ buildText t.build)) ('-' :: (dotted t.pre ++ buildText t.build)) :=
      Tail.pre _
    have := scanCore_dotted [t.major, t.minor, t.patch] (by simp) hd _ _ ht
    have hpi := preIdents_section t.pre hpre hi (buildText t.build) hb
    have hne : (t.pre.map fieldOf).map encI ≠ [] := by simpa using hpre
    simp only [SVText.render, hpre, if_false, List.cons_append]
    have hne2 : ¬ (List.map fieldOf t.pre = []) := by simpa using hpre
    simp [SemVer.parse, this, hpi, hne, encode, SVText.fields, hne2, hpre, padTo]

end MesonModel.Cargo
