/-
Helper lemmas for the cfg-table model: with the copy, no sequence of `_get_cfgs` calls changes the
compiler's cached list, and every result depends on its own key only.
-/
import MesonModel.Cargo.CfgTableModel

namespace MesonModel.Cargo.CfgTable

/-- the memo only holds what the key alone determines -/
def MemoOk (rustArgs : Key → List Line) (s0 s : State) : Prop :=
  s.baseHost = s0.baseHost ∧ s.baseBuild = s0.baseBuild ∧
  ∀ k t, (k, t) ∈ s.memo → t = expected rustArgs s0 k

theorem lookup_mem {α β : Type} [BEq α] [LawfulBEq α] (l : List (α × β)) (k : α) (v : β)
    (h : l.lookup k = some v) : (k, v) ∈ l := by
  induction l with
  | nil => simp at h
  | cons e es ih =>
    obtain ⟨a, b⟩ := e
    simp only [List.lookup] at h
    by_cases hk : k == a
    · simp only [hk] at h
      have : k = a := by simpa using hk
      simp at h
      subst this; subst h; simp
    · simp only [hk] at h
      exact List.mem_cons_of_mem _ (ih h)

theorem getCfgs_ok (rustArgs : Key → List Line) (s0 s : State) (h : MemoOk rustArgs s0 s) (k : Key) :
    MemoOk rustArgs s0 (getCfgs true rustArgs s k).1 ∧
      (getCfgs true rustArgs s k).2 = expected rustArgs s0 k := by
  obtain ⟨h1, h2, h3⟩ := h
  unfold getCfgs
  cases hl : s.memo.lookup k with
  | some t => exact ⟨⟨h1, h2, h3⟩, h3 k t (lookup_mem _ _ _ hl)⟩
  | none =>
    have hb : s.base k.1 = s0.base k.1 := by simp [State.base, h1, h2]
    refine ⟨⟨h1, h2, ?_⟩, by simp [expected, hb]⟩
    intro k' t' hm
    simp only [if_true] at hm
    rcases List.mem_cons.mp hm with he | he
    · have e1 : k' = k := (Prod.mk.inj he).1
      have e2 : t' = mkTable (s.base k.1 ++ cfgFlags (rustArgs k)) := (Prod.mk.inj he).2
      subst e1; rw [e2, hb]; rfl
    · exact h3 k' t' he

theorem run_ok (rustArgs : Key → List Line) (s0 : State) (ks : List Key) :
    ∀ s, MemoOk rustArgs s0 s → MemoOk rustArgs s0 (run true rustArgs s ks) := by
  induction ks with
  | nil => intro s h; exact h
  | cons k rest ih =>
    intro s h
    simp only [run, List.foldl_cons]
    exact ih _ (getCfgs_ok rustArgs s0 s h k).1

end MesonModel.Cargo.CfgTable
