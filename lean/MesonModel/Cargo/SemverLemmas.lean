/-
Helper lemmas tying the model's comparison to the SemVer section 11 specification, the scanner's
treatment of build metadata, and the structure of `cargo_parse`.
-/
import MesonModel.Cargo.MatchLemmas
set_option linter.unusedSimpArgs false

namespace MesonModel.Cargo
open Spec
open MesonModel.Version (CmpLaws lexCmpLaws charCmpLaws lexCmp charCmp)

/-! ### `lexCmp` against the inductive lexicographic order -/

theorem lexCmp_lt_iff {α : Type} (cmp : α → α → Ordering) (r : α → α → Prop)
    (hlt : ∀ x y, cmp x y = .lt ↔ r x y) (heq : ∀ x y, cmp x y = .eq ↔ x = y) :
    ∀ a b, lexCmp cmp a b = .lt ↔ LexLt r a b := by
  intro a
  induction a with
  | nil =>
    intro b
    cases b with
    | nil => simp [lexCmp]; intro h; cases h
    | cons y ys => simp [lexCmp]; exact LexLt.nil_cons y ys
  | cons x xs ih =>
    intro b
    cases b with
    | nil => simp [lexCmp]; intro h; cases h
    | cons y ys =>
      simp only [lexCmp]
      constructor
      · intro h
        cases hc : cmp x y with
        | lt => exact LexLt.head xs ys ((hlt x y).mp hc)
        | eq =>
          have := (heq x y).mp hc
          subst this
          rw [hc] at h
          exact LexLt.tail x ((ih ys).mp h)
        | gt => rw [hc] at h; simp at h
      · intro h
        cases h with
        | head _ _ hr => rw [(hlt x y).mpr hr]
        | tail _ ht =>
          rw [(heq x x).mpr rfl]
          exact (ih ys).mpr ht

theorem lexCmp_map {α β : Type} (cmp : β → β → Ordering) (f : α → β) :
    ∀ a b : List α, lexCmp cmp (a.map f) (b.map f) = lexCmp (fun x y => cmp (f x) (f y)) a b := by
  intro a
  induction a with
  | nil => intro b; cases b <;> simp [lexCmp]
  | cons x xs ih =>
    intro b
    cases b with
    | nil => simp [lexCmp]
    | cons y ys => simp only [List.map, lexCmp, ih]

/-- how the model stores a pre-release identifier *when it is parsed as the specification reads it* -/
def encI : Ident → Comp
  | .num n => .int (Int.ofNat n)
  | .alnum s => .str s

/-- the component list of a SemVer value -/
def encode (a : SV) : List Comp :=
  [.int (Int.ofNat a.major), .int (Int.ofNat a.minor), .int (Int.ofNat a.patch),
    .int (if a.pre = [] then 0 else -1)] ++ a.pre.map encI

theorem encI_inj (x y : Ident) : encI x = encI y ↔ x = y := by
  cases x <;> cases y <;> simp [encI]
  omega

theorem str_lt_iff (a b : List Char) :
    lexCmp charCmp a b = .lt ↔ LexLt (fun x y : Char => x.toNat < y.toNat) a b :=
  lexCmp_lt_iff charCmp _ (fun x y => by simp [charCmp, Nat.compare_eq_lt]) charCmpLaws.eq_iff a b

theorem compCmp_encI_lt (x y : Ident) : compCmp (encI x) (encI y) = .lt ↔ identLt x y := by
  cases x <;> cases y <;> simp [encI, compCmp, identLt]
  · rw [Int.compare_eq_lt]; omega
  · exact str_lt_iff _ _

theorem pre_lt_iff (l m : List Ident) :
    vcmp (l.map encI) (m.map encI) = .lt ↔ LexLt identLt l m := by
  unfold vcmp
  rw [lexCmp_map]
  exact lexCmp_lt_iff _ _ compCmp_encI_lt
    (fun x y => by rw [compCmpLaws.eq_iff, encI_inj]) l m

theorem vcmp_nil_cons (x : Comp) (xs : List Comp) : vcmp [] (x :: xs) = .lt := rfl
theorem vcmp_cons_nil (x : Comp) (xs : List Comp) : vcmp (x :: xs) [] = .gt := rfl

theorem ite3 (a b : Nat) (X : Ordering) :
    (if Int.ofNat a < Int.ofNat b then Ordering.lt else if Int.ofNat a = Int.ofNat b then X else .gt) = .lt ↔
      (a < b ∨ (a = b ∧ X = .lt)) := by
  simp only [Int.ofNat_eq_natCast]
  rcases Nat.lt_trichotomy a b with h | h | h
  · have : (a : Int) < b := by omega
    simp [this, h]
  · subst h; simp
  · have h1 : ¬ (a : Int) < b := by omega
    have h2 : ¬ (a : Int) = b := by omega
    have h3 : ¬ a < b := by omega
    have h4 : ¬ a = b := by omega
    simp [h1, h2, h3, h4]

theorem encode_lt_iff (a b : SV) : vlt (encode a) (encode b) = true ↔ Prec a b := by
  obtain ⟨a1, a2, a3, ap⟩ := a
  obtain ⟨b1, b2, b3, bp⟩ := b
  simp only [vlt, encode, List.cons_append, List.nil_append, vcmp_cons_int, Prec, tlt, beq_iff_eq,
    ite3, Prod.mk.injEq]
  have key : (if (if ap = [] then (0 : Int) else -1) < (if bp = [] then (0 : Int) else -1) then Ordering.lt
      else if (if ap = [] then (0 : Int) else -1) = (if bp = [] then (0 : Int) else -1) then
        vcmp (List.map encI ap) (List.map encI bp) else Ordering.gt) = Ordering.lt ↔
      (ap ≠ [] ∧ bp = [] ∨ ap ≠ [] ∧ bp ≠ [] ∧ LexLt identLt ap bp) := by
    cases ap with
    | nil => cases bp <;> simp [vcmp_nil]
    | cons x xs =>
      cases bp with
      | nil => simp
      | cons y ys => simpa using pre_lt_iff (x :: xs) (y :: ys)
  rw [key]
  constructor
  · rintro (h | ⟨h1, h | ⟨h2, h | ⟨h3, h⟩⟩⟩)
    · exact Or.inl (Or.inl h)
    · exact Or.inl (Or.inr ⟨h1, Or.inl h⟩)
    · exact Or.inl (Or.inr ⟨h1, Or.inr ⟨h2, h⟩⟩)
    · exact Or.inr ⟨⟨h1, h2, h3⟩, h⟩
  · rintro ((h | ⟨h1, h | ⟨h2, h⟩⟩) | ⟨⟨h1, h2, h3⟩, h⟩)
    · exact Or.inl h
    · exact Or.inr ⟨h1, Or.inl h⟩
    · exact Or.inr ⟨h1, Or.inr ⟨h2, Or.inl h⟩⟩
    · exact Or.inr ⟨h1, Or.inr ⟨h2, Or.inr ⟨h3, h⟩⟩⟩

/-! ### build metadata -/

theorem takeWhile_plus (u t : List Char) :
    (u ++ '+' :: t).takeWhile (fun c => c != '+') = u.takeWhile (fun c => c != '+') := by
  induction u with
  | nil => simp
  | cons c cs ih =>
    by_cases h : c = '+'
    · subst h; simp
    · have hb : (c != '+') = true := by simpa using h
      simp [List.takeWhile, hb, ih]

theorem preIdents_plus (u t : List Char) : preIdents (u ++ '+' :: t) = preIdents u := by
  simp [preIdents, takeWhile_plus]

theorem scanCore_plus (s t : List Char) : ∀ r,
    (scanCore r (s ++ '+' :: t)).1 = (scanCore r s).1 ∧
    preIdents (scanCore r (s ++ '+' :: t)).2 = preIdents (scanCore r s).2 := by
  induction s with
  | nil =>
    intro r
    have h2 : MesonModel.Py.isDigit '+' = false := by decide
    have h3 : isIdentStart '+' = false := by decide
    cases r <;> simp [scanCore, flush, h2, h3]
  | cons c cs ih =>
    intro r
    simp only [List.cons_append, scanCore]
    split
    · cases r <;> exact ih _
    · split
      · exact ⟨rfl, by simpa using preIdents_plus (c :: cs) t⟩
      · split
        · exact ⟨rfl, rfl⟩
        · have := ih .none
          exact ⟨by simp [this.1], this.2⟩

theorem parse_plus (s t : List Char) : SemVer.parse (s ++ '+' :: t) = SemVer.parse s := by
  have := scanCore_plus s t .none
  simp [SemVer.parse, this.1, this.2]

/-! ### structure of `cargo_parse` -/

theorem constraintsOf_ne_nil (op : Op) (x : SemVer) : constraintsOf op x ≠ [] := by
  cases op <;> simp [constraintsOf]

theorem flatMap_constraints_isEmpty (svs : List (Op × SemVer)) :
    (svs.flatMap (fun c => constraintsOf c.1 c.2)).isEmpty = svs.isEmpty := by
  cases svs with
  | nil => rfl
  | cons c cs =>
    have := constraintsOf_ne_nil c.1 c.2
    cases h : constraintsOf c.1 c.2 with
    | nil => exact absurd h this
    | cons a as => simp [List.flatMap_cons, h]

/-- for a release version the result is the conjunction of all constraints -/
theorem matchSplit_release (cs : List (Op × List Char)) (ver : List Char)
    (hv : (SemVer.parse ver).hasPre = false) :
    matchSplit cs ver =
      ((cs.map (fun c => (c.1, SemVer.parse c.2))).flatMap (fun c => constraintsOf c.1 c.2)).all
        (fun c => c.1.holds (SemVer.parse ver).v c.2) := by
  simp only [matchSplit, compareWith, hv, Bool.false_and, Bool.false_eq_true, if_false]
  split
  · rename_i h
    rw [List.isEmpty_iff] at h
    rw [h]; rfl
  · rfl

end MesonModel.Cargo
