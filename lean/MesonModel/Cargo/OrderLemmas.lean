/-
Helper lemmas for the SemVer comparison of the Cargo model: `vcmp` is a strict total order on
component lists (re-using the generic `CmpLaws`/`lexCmpLaws` of the version area).
-/
import MesonModel.Cargo.Model
import MesonModel.Version.Lemmas

namespace MesonModel.Cargo
open MesonModel.Version (CmpLaws lexCmpLaws charCmpLaws lexCmp charCmp)

theorem intCmpLaws : CmpLaws (fun a b : Int => compare a b) where
  eq_iff a b := by simp
  swap a b := Std.OrientedOrd.eq_swap
  trans a b c h1 h2 := by
    simp only [Int.compare_eq_lt] at *; omega

theorem compCmpLaws : CmpLaws compCmp where
  eq_iff a b := by
    cases a <;> cases b <;> simp [compCmp]
    exact (lexCmpLaws charCmpLaws).eq_iff _ _
  swap a b := by
    cases a <;> cases b <;> simp [compCmp, Ordering.swap]
    · exact intCmpLaws.swap _ _
    · exact (lexCmpLaws charCmpLaws).swap _ _
  trans a b c := by
    cases a <;> cases b <;> cases c <;> simp [compCmp]
    · exact intCmpLaws.trans _ _ _
    · exact (lexCmpLaws charCmpLaws).trans _ _ _

theorem vcmpLaws : CmpLaws vcmp := lexCmpLaws compCmpLaws

theorem vcmp_eq_iff (a b : List Comp) : vcmp a b = .eq ↔ a = b := vcmpLaws.eq_iff a b
theorem vcmp_swap (a b : List Comp) : vcmp b a = (vcmp a b).swap := vcmpLaws.swap a b
theorem vcmp_trans (a b c : List Comp) : vcmp a b = .lt → vcmp b c = .lt → vcmp a c = .lt :=
  vcmpLaws.trans a b c
theorem vcmp_self (a : List Comp) : vcmp a a = .eq := (vcmp_eq_iff a a).mpr rfl

theorem vcmp_gt_iff (a b : List Comp) : vcmp a b = .gt ↔ vcmp b a = .lt := by
  rw [vcmp_swap a b]; cases vcmp a b <;> simp [Ordering.swap]

/-- the strict order as a `Prop` -/
def Lt (a b : List Comp) : Prop := vcmp a b = .lt

theorem Lt.irrefl (a : List Comp) : ¬ Lt a a := by simp [Lt, vcmp_self]
theorem Lt.trans {a b c : List Comp} : Lt a b → Lt b c → Lt a c := vcmp_trans a b c
theorem Lt.asymm {a b : List Comp} : Lt a b → ¬ Lt b a := fun h1 h2 => Lt.irrefl a (Lt.trans h1 h2)
theorem Lt.total (a b : List Comp) : Lt a b ∨ a = b ∨ Lt b a := by
  unfold Lt
  have h1 := vcmp_eq_iff a b
  have h2 := vcmp_gt_iff a b
  cases h : vcmp a b <;> simp_all

instance (a b : List Comp) : Decidable (Lt a b) := inferInstanceAs (Decidable (vcmp a b = .lt))

theorem vlt_iff (a b : List Comp) : vlt a b = true ↔ Lt a b := by simp [vlt, Lt]
theorem vgt_iff (a b : List Comp) : vgt a b = true ↔ Lt b a := by simp [vgt, Lt, vcmp_gt_iff]
theorem vle_iff (a b : List Comp) : vle a b = true ↔ ¬ Lt b a := by simp [vle, Lt, ← vcmp_gt_iff]
theorem vge_iff (a b : List Comp) : vge a b = true ↔ ¬ Lt a b := by simp [vge, Lt]
theorem veq_iff (a b : List Comp) : veq a b = true ↔ a = b := by simp [veq]
theorem vne_iff (a b : List Comp) : vne a b = true ↔ a ≠ b := by simp [vne, veq]

/-- comparison skips a common prefix -/
theorem vcmp_append (p a b : List Comp) : vcmp (p ++ a) (p ++ b) = vcmp a b := by
  induction p with
  | nil => rfl
  | cons x xs ih =>
    have : compCmp x x = .eq := (compCmpLaws.eq_iff x x).mpr rfl
    simp only [List.cons_append, vcmp, lexCmp, this]
    exact ih

theorem vcmp_cons_same (x : Comp) (a b : List Comp) : vcmp (x :: a) (x :: b) = vcmp a b :=
  vcmp_append [x] a b

theorem vcmp_cons_int (m n : Int) (a b : List Comp) :
    vcmp (.int m :: a) (.int n :: b) = if m < n then .lt else if m = n then vcmp a b else .gt := by
  simp only [vcmp, lexCmp, compCmp]
  by_cases h1 : m < n
  · simp [h1, Int.compare_eq_lt.mpr h1]
  · by_cases h2 : m = n
    · subst h2; simp
    · have : compare m n = .gt := Int.compare_eq_gt.mpr (by omega)
      simp [h1, h2, this]

end MesonModel.Cargo
