/-
Helper lemmas for the cfg parser of the Cargo model: `parseE`/`parseArgs` accept exactly the token
language `renderTokens` of the grammar (soundness by induction on the fuel, completeness by
structural induction on the expression).
-/
import MesonModel.Cargo.Spec
set_option linter.unusedSimpArgs false

namespace MesonModel.Cargo
open Spec

theorem parseCall_sound (f : Nat) (isAny : Bool)
    (ihA : ∀ ts es rest, parseArgs f ts = .ok (es, rest) →
      es ≠ [] ∧ ts = renderArgs es ++ .rparen :: rest ∧ namesOkL es)
    (tl : List Token) (e : IR) (rest : List Token)
    (h : parseCallWith (fun ts => parseArgs f ts) isAny tl = .ok (e, rest)) :
    ∃ as, e = (if isAny then .any as else .all as) ∧
      tl = .lparen :: (renderArgs as ++ .rparen :: rest) ∧ namesOkL as := by
  unfold parseCallWith at h
  split at h
  · simp at h
  · rename_i rest1
    split at h
    · rename_i rest2
      simp only [Except.ok.injEq, Prod.mk.injEq] at h
      refine ⟨[], h.1.symm, ?_, trivial⟩
      simp [renderArgs, h.2]
    · split at h
      · simp at h
      · rename_i args rest2 hA
        simp only [Except.ok.injEq, Prod.mk.injEq] at h
        obtain ⟨_, h2, h3⟩ := ihA _ _ _ hA
        refine ⟨args, h.1.symm, ?_, h3⟩
        rw [h2, h.2]
  · simp at h

theorem sound_aux : ∀ fuel,
    (∀ ts e rest, parseE fuel ts = .ok (e, rest) → ts = renderTokens e ++ rest ∧ namesOk e) ∧
    (∀ ts es rest, parseArgs fuel ts = .ok (es, rest) →
      es ≠ [] ∧ ts = renderArgs es ++ .rparen :: rest ∧ namesOkL es) := by
  intro fuel
  induction fuel with
  | zero =>
    constructor
    · intro ts e rest h; simp [parseE] at h
    · intro ts es rest h; simp [parseArgs] at h
  | succ f ih =>
    obtain ⟨ihE, ihA⟩ := ih
    constructor
    · intro ts e rest h
      cases ts with
      | nil => simp [parseE] at h
      | cons tok tl =>
        cases tok <;> unfold parseE at h <;> simp only [] at h
        case lparen | rparen | str | comma | equal => simp at h
        case ident name =>
          split at h
          · simp at h
          · rename_i hne
            split at h
            · split at h
              · simp at h
              · simp only [Except.ok.injEq, Prod.mk.injEq] at h
                obtain ⟨rfl, rfl⟩ := h
                exact ⟨by simp [renderTokens], hne⟩
              · simp at h
            · simp only [Except.ok.injEq, Prod.mk.injEq] at h
              obtain ⟨rfl, rfl⟩ := h
              exact ⟨by simp [renderTokens], hne⟩
        case all =>
          obtain ⟨as, rfl, rfl, h3⟩ := parseCall_sound f false ihA tl e rest h
          exact ⟨by simp [renderTokens], h3⟩
        case any =>
          obtain ⟨as, rfl, rfl, h3⟩ := parseCall_sound f true ihA tl e rest h
          exact ⟨by simp [renderTokens], h3⟩
        case not =>
          split at h
          · simp at h
          · split at h
            · simp at h
            · rename_i arg rest3 hE
              split at h
              · simp at h
              · simp only [Except.ok.injEq, Prod.mk.injEq] at h
                obtain ⟨rfl, rfl⟩ := h
                obtain ⟨h1, h2⟩ := ihE _ _ _ hE
                exact ⟨by simp [renderTokens, h1], h2⟩
              · simp at h
          · simp at h
    · intro ts es rest h
      unfold parseArgs at h
      split at h
      · simp at h
      · rename_i a rest1 hE
        obtain ⟨h1, h2⟩ := ihE _ _ _ hE
        split at h
        · simp at h
        · simp only [Except.ok.injEq, Prod.mk.injEq] at h
          obtain ⟨rfl, rfl⟩ := h
          exact ⟨by simp, by simp [renderArgs, renderRest, h1], ⟨h2, trivial⟩⟩
        · split at h
          · simp at h
          · rename_i as rest3 hA
            simp only [Except.ok.injEq, Prod.mk.injEq] at h
            obtain ⟨rfl, rfl⟩ := h
            obtain ⟨hne, h3, h4⟩ := ihA _ _ _ hA
            refine ⟨by simp, ?_, ⟨h2, h4⟩⟩
            cases as with
            | nil => exact absurd rfl hne
            | cons b bs =>
              simp [renderArgs, renderRest, h1, h3]
        · simp at h

mutual
def size : IR → Nat
  | .ident _ => 1
  | .equal _ _ => 1
  | .not e => size e + 1
  | .any as => sizeL as + 1
  | .all as => sizeL as + 1
def sizeL : List IR → Nat
  | [] => 0
  | e :: es => size e + sizeL es + 1
end

/-- the first token of an expression is a name or a keyword -/
theorem render_head (e : IR) : ∃ t ts, renderTokens e = t :: ts ∧ t ≠ .rparen ∧ t ≠ .equal := by
  cases e <;> simp [renderTokens]

theorem renderRest_head (es : List IR) (rest : List Token) :
    (renderRest es ++ .rparen :: rest).head? ≠ some .equal := by
  cases es <;> simp [renderRest]

mutual
theorem complete_E (e : IR) (hn : namesOk e) (fuel : Nat) (rest : List Token)
    (hf : size e ≤ fuel) (hr : rest.head? ≠ some .equal) :
    parseE fuel (renderTokens e ++ rest) = .ok (e, rest) := by
  match e, fuel with
  | .ident n, f + 1 =>
    simp only [namesOk] at hn
    cases rest with
    | nil => simp [renderTokens, parseE, hn]
    | cons t tl =>
      cases t <;> simp_all [renderTokens, parseE]
  | .equal n v, f + 1 =>
    simp only [namesOk] at hn
    simp [renderTokens, parseE, hn]
  | .not e', f + 1 =>
    simp only [namesOk] at hn
    simp only [size] at hf
    have := complete_E e' hn f (.rparen :: rest) (by omega) (by simp)
    simp [renderTokens, parseE, this]
  | .any as, f + 1 =>
    simp only [namesOk] at hn
    simp only [size] at hf
    cases as with
    | nil => simp [renderTokens, renderArgs, parseE, parseCallWith]
    | cons a as' =>
      have := complete_A (a :: as') (by simp) hn f rest (by omega)
      obtain ⟨t, ts, h1, h2, _⟩ := render_head a
      simp only [renderArgs, h1, List.cons_append] at this
      simp only [renderTokens, renderArgs, h1, parseE, List.cons_append, List.nil_append,
        List.append_assoc]
      cases t <;> (unfold parseCallWith; simp_all)
  | .all as, f + 1 =>
    simp only [namesOk] at hn
    simp only [size] at hf
    cases as with
    | nil => simp [renderTokens, renderArgs, parseE, parseCallWith]
    | cons a as' =>
      have := complete_A (a :: as') (by simp) hn f rest (by omega)
      obtain ⟨t, ts, h1, h2, _⟩ := render_head a
      simp only [renderArgs, h1, List.cons_append] at this
      simp only [renderTokens, renderArgs, h1, parseE, List.cons_append, List.nil_append,
        List.append_assoc]
      cases t <;> (unfold parseCallWith; simp_all)
  | .ident _, 0 | .equal _ _, 0 | .not _, 0 | .any _, 0 | .all _, 0 => simp [size] at hf
theorem complete_A (l : List IR) (hne : l ≠ []) (hn : namesOkL l) (fuel : Nat) (rest : List Token)
    (hf : sizeL l ≤ fuel) :
    parseArgs fuel (renderArgs l ++ .rparen :: rest) = .ok (l, rest) := by
  match l, fuel with
  | [], _ => exact absurd rfl hne
  | e :: es, 0 => simp [sizeL] at hf
  | e :: es, f + 1 =>
    simp only [namesOkL] at hn
    simp only [sizeL] at hf
    have hE := complete_E e hn.1 f (renderRest es ++ .rparen :: rest) (by omega) (renderRest_head es rest)
    cases es with
    | nil =>
      simp only [renderRest, List.nil_append] at hE
      simp [renderArgs, renderRest, parseArgs, hE]
    | cons e' es' =>
      have hA := complete_A (e' :: es') (by simp) hn.2 f rest (by omega)
      simp only [renderRest, List.cons_append, List.append_assoc] at hE
      simp only [renderArgs, List.append_assoc] at hA
      simp [renderArgs, renderRest, parseArgs, hE, hA]
end

mutual
theorem size_le_E (e : IR) : size e ≤ (renderTokens e).length := by
  match e with
  | .ident _ => simp [size, renderTokens]
  | .equal _ _ => simp [size, renderTokens]
  | .not e' => have := size_le_E e'; simp [size, renderTokens]; omega
  | .any as =>
    cases as with
    | nil => simp [size, sizeL, renderTokens, renderArgs]
    | cons a as' =>
      have h1 := size_le_E a; have h2 := size_le_R as'
      simp [size, sizeL, renderTokens, renderArgs]; omega
  | .all as =>
    cases as with
    | nil => simp [size, sizeL, renderTokens, renderArgs]
    | cons a as' =>
      have h1 := size_le_E a; have h2 := size_le_R as'
      simp [size, sizeL, renderTokens, renderArgs]; omega
theorem size_le_R (es : List IR) : sizeL es ≤ (renderRest es).length := by
  match es with
  | [] => simp [sizeL]
  | e :: es' =>
    have h1 := size_le_E e; have h2 := size_le_R es'
    simp [sizeL, renderRest]; omega
end

theorem parse_complete (e : IR) (hn : namesOk e) : parse (renderTokens e) = .ok e := by
  have h := complete_E e hn ((renderTokens e).length + 1) [] (by have := size_le_E e; omega) (by simp)
  simp only [List.append_nil] at h
  simp [parse, h]

theorem parse_sound' (ts : List Token) (e : IR) (h : parse ts = .ok e) :
    ts = renderTokens e ∧ namesOk e := by
  unfold parse at h
  split at h
  · simp at h
  · rename_i e' hE
    simp only [Except.ok.injEq] at h
    subst h
    have := (sound_aux _).1 _ _ _ hE
    simpa using this
  · simp at h

/-- the fuel `parse` supplies is never exhausted, and a successful sub-parse consumes tokens -/
theorem fuel_aux : ∀ f,
    (∀ ts, ts.length < f → parseE f ts ≠ .error .fuel ∧
      ∀ e rest, parseE f ts = .ok (e, rest) → rest.length < ts.length) ∧
    (∀ ts, ts.length + 1 < f → parseArgs f ts ≠ .error .fuel ∧
      ∀ es rest, parseArgs f ts = .ok (es, rest) → rest.length < ts.length) := by
  intro f
  induction f with
  | zero => exact ⟨fun ts h => absurd h (by omega), fun ts h => absurd h (by omega)⟩
  | succ f ih =>
    obtain ⟨ihE, ihA⟩ := ih
    constructor
    · intro ts hlen
      cases ts with
      | nil => simp [parseE]
      | cons tok tl =>
        simp only [List.length_cons] at hlen
        have hcall : ∀ isAny, parseCallWith (fun ts => parseArgs f ts) isAny tl ≠ .error .fuel ∧
            ∀ e rest, parseCallWith (fun ts => parseArgs f ts) isAny tl = .ok (e, rest) →
              rest.length < (tok :: tl).length := by
          intro isAny
          unfold parseCallWith
          split
          · simp
          · rename_i rest1
            simp only [List.length_cons] at hlen
            split
            · simp; omega
            · have := ihA rest1 (by omega)
              split
              · rename_i e he; simp; intro h; subst h; exact this.1 he
              · rename_i args rest2 hA
                have := this.2 _ _ hA
                simp; omega
          · simp
        cases tok <;> unfold parseE <;> simp only []
        case lparen | rparen | str | comma | equal => simp
        case all => exact hcall false
        case any => exact hcall true
        case ident name =>
          split
          · simp
          · split
            · split <;> simp
              omega
            · simp
        case not =>
          split
          · simp
          · rename_i rest2
            simp only [List.length_cons] at hlen
            have := ihE rest2 (by omega)
            split
            · rename_i e he; simp; intro h; subst h; exact this.1 he
            · rename_i arg rest3 hE
              have := this.2 _ _ hE
              split <;> simp
              simp at this; omega
          · simp
    · intro ts hlen
      unfold parseArgs
      have hE := ihE ts (by omega)
      split
      · rename_i e he; simp; intro h; subst h; exact hE.1 he
      · rename_i a rest hEq
        have hlt := hE.2 _ _ hEq
        split
        · simp
        · simp; simp at hlt; omega
        · rename_i rest2
          simp only [List.length_cons] at hlt
          have hA := ihA rest2 (by omega)
          split
          · rename_i e he; simp; intro h; subst h; exact hA.1 he
          · rename_i as rest3 hAeq
            have := hA.2 _ _ hAeq
            simp; omega
        · simp

theorem parse_never_out_of_fuel (ts : List Token) : parse ts ≠ .error .fuel := by
  unfold parse
  have := (fuel_aux (ts.length + 1)).1 ts (by omega)
  split
  · rename_i e he; intro h; simp at h; subst h; exact this.1 he
  · simp
  · simp

/-! ### evaluation -/

theorem evalAny_iff (cfgs : Cfgs) (as : List IR) :
    evalAny cfgs as = true ↔ ∃ a, a ∈ as ∧ evalIR cfgs a = true := by
  induction as with
  | nil => simp [evalAny]
  | cons x xs ih => simp [evalAny, ih]

theorem evalAll_iff (cfgs : Cfgs) (as : List IR) :
    evalAll cfgs as = true ↔ ∀ a, a ∈ as → evalIR cfgs a = true := by
  induction as with
  | nil => simp [evalAll]
  | cons x xs ih => simp [evalAll, ih]

end MesonModel.Cargo
