/-
Model of the object-level glue around the matcher: `manifest.Dependency` with its `lazy_property`
attributes (`accepts_version`, `api`) and `update_version`.  A `lazy_property` stores the computed
value in the instance dict on first read; `update_version` replaces the requirement and `delattr`s
the cached attributes inside `try … except AttributeError` blocks.  The block structure and the
attribute names are parameters (regenerated from the source into `Generated/CargoCache.lean`).
Core Lean only.
-/
import MesonModel.Cargo.Model

namespace MesonModel.Cargo.Cache
open MesonModel.Cargo

/-- the instance: the `version` field and, for every attribute cached in the instance dict, the
requirement text its value was computed from (the value is a function of that text) -/
structure Obj where
  version : List Char
  cached : List (String × List Char)
  deriving DecidableEq, Repr

def fresh (v : List Char) : Obj := ⟨v, []⟩

/-- computing the attribute raises (so nothing gets cached): only `api` can (`MesonException`) -/
def raises (a : String) (req : List Char) : Bool :=
  a == "api" && (match api req with | .ok _ => false | .error _ => true)

/-- reading lazy attribute `a`: the requirement text the returned value was computed from -/
def read (o : Obj) (a : String) : Obj × List Char :=
  match o.cached.lookup a with
  | some src => (o, src)
  | none => if raises a o.version then (o, o.version) else (⟨o.version, (a, o.version) :: o.cached⟩, o.version)

/-- `delattr(self, a)`: `none` = `AttributeError` -/
def delattr (o : Obj) (a : String) : Option Obj :=
  if o.cached.any (fun e => e.1 == a) then some ⟨o.version, o.cached.filter (fun e => e.1 != a)⟩ else none

/-- one `try: delattr…; delattr… except AttributeError: pass` block -/
def runBlock (o : Obj) : List String → Obj
  | [] => o
  | a :: as =>
    match delattr o a with
    | none => o
    | some o' => runBlock o' as

/-- `update_version(v)` for the given block structure -/
def update (blocks : List (List String)) (o : Obj) (v : List Char) : Obj :=
  blocks.foldl runBlock ⟨v, o.cached⟩

inductive Op where
  | read (a : String)
  | update (v : List Char)
  deriving DecidableEq, Repr

def step (blocks : List (List String)) (o : Obj) : Op → Obj
  | .read a => (read o a).1
  | .update v => update blocks o v

def run (blocks : List (List String)) (o : Obj) (ops : List Op) : Obj := ops.foldl (step blocks) o

/-- what a caller observes: `dep.accepts_version(ver)` -/
def acceptsOut (o : Obj) (ver : List Char) : Bool := cargoParse (read o "accepts_version").2 ver
/-- what a caller observes: `dep.api` -/
def apiOut (o : Obj) : Except ApiErr (List Char) := api (read o "api").2

/-- the table obligation: every block deletes exactly one attribute, and every version-dependent
lazy attribute has its block -/
def blocksOk (blocks : List (List String)) (attrs : List String) : Bool :=
  blocks.all (fun b => b.length == 1) && attrs.all (fun a => blocks.any (fun b => b == [a]))

/-- a block that can skip a deletion: the concrete history on which a stale value is then observed,
if the table is not ok (used by the failing-input search) -/
def witnessAttrs (blocks : List (List String)) : Option (String × String) :=
  blocks.findSome? (fun b => match b with | a :: c :: _ => some (a, c) | _ => none)

end MesonModel.Cargo.Cache
