/-
Helper lemmas for the cfg lexer of the Cargo model: the lexer maps the canonical text of an
expression to the token rendering of the grammar.
-/
import MesonModel.Cargo.CfgLemmas
set_option linter.unusedSimpArgs false
namespace MesonModel.Cargo
open MesonModel.Py Spec

theorem pre_pre (r : LexResult) (a b : List Token) : (r.pre b).pre a = r.pre (a ++ b) := by
  simp [LexResult.pre]

theorem pre_nil (r : LexResult) : r.pre [] = r := by simp [LexResult.pre]

/-- word characters accumulate -/
theorem lexGo_word (w : List Char) (hw : ∀ c, c ∈ w → isSepChar c = false) :
    ∀ (val rest : List Char), lexGo val none (w ++ rest) = lexGo (w.reverse ++ val) none rest := by
  induction w with
  | nil => intro val rest; rfl
  | cons c cs ih =>
    intro val rest
    have h1 : isSepChar c = false := hw c (by simp)
    simp only [List.cons_append, lexGo, h1, Bool.false_eq_true, if_false, List.reverse_cons,
      List.append_assoc, List.singleton_append]
    exact ih (fun d hd => hw d (by simp [hd])) _ _

/-- a string literal is taken whole, up to the closing quote -/
theorem lexGo_literal (v : List Char) (hv : '"' ∉ v) :
    ∀ (val l rest : List Char),
      lexGo val (some l) (v ++ '"' :: rest) = (lexGo [] none rest).pre [.str (l.reverse ++ v)] := by
  induction v with
  | nil => intro val l rest; simp [lexGo]
  | cons c cs ih =>
    intro val l rest
    have hc : ¬ c = '"' := by intro e; subst e; simp at hv
    have := ih (by intro hm; exact hv (by simp [hm])) val (c :: l) rest
    simp [lexGo, hc, this]

theorem lexGo_sep (val : List Char) (c : Char) (cs : List Char) (hc : isSepChar c = true) :
    lexGo val none (c :: cs) =
      (lexGo [] (if c == '"' then some [] else none) cs).pre (wordTok val.reverse ++ sepTok c) := by
  simp [lexGo, hc]

theorem lexGo_sep_plain (val : List Char) (c : Char) (cs : List Char) (hc : isSepChar c = true)
    (hq : c ≠ '"') :
    lexGo val none (c :: cs) = (lexGo [] none cs).pre (wordTok val.reverse ++ sepTok c) := by
  simp [lexGo, hc, hq]

theorem lexGo_quote (val : List Char) (cs : List Char) :
    lexGo val none ('"' :: cs) = (lexGo [] (some []) cs).pre (wordTok val.reverse) := by
  have : isSepChar '"' = true := by decide
  simp [lexGo, this, sepTok]

theorem wordTok_nil : wordTok [] = [] := by decide

/-- the rest of the input is empty or starts with a separator -/
def SepStart (rest : List Char) : Prop := rest = [] ∨ ∃ c r, rest = c :: r ∧ isSepChar c = true

/-- a configuration name: non-empty, no separator character, not a keyword -/
def NameOk (n : List Char) : Prop :=
  n ≠ [] ∧ (∀ c, c ∈ n → isSepChar c = false) ∧ n ≠ "any".toList ∧ n ≠ "all".toList ∧ n ≠ "not".toList

theorem wordTok_name (n : List Char) (h : NameOk n) : wordTok n = [.ident n] := by
  obtain ⟨h1, _, h3, h4, h5⟩ := h
  have e3 : "any".toList = ['a', 'n', 'y'] := by decide
  have e4 : "all".toList = ['a', 'l', 'l'] := by decide
  have e5 : "not".toList = ['n', 'o', 't'] := by decide
  rw [e3] at h3; rw [e4] at h4; rw [e5] at h5
  simp [wordTok, h1, h3, h4, h5]

theorem lexGo_name (n : List Char) (h : NameOk n) (rest : List Char) (hr : SepStart rest) :
    lexGo [] none (n ++ rest) = (lexGo [] none rest).pre [.ident n] := by
  rw [lexGo_word n h.2.1]
  simp only [List.append_nil]
  rcases hr with rfl | ⟨c, r, rfl, hc⟩
  · have : n.reverse ≠ [] := by simpa using h.1
    simp [lexGo, this, LexResult.pre]
  · rw [lexGo_sep _ c r hc, lexGo_sep [] c r hc]
    simp only [List.reverse_reverse, List.reverse_nil, wordTok_name n h, wordTok_nil, pre_pre,
      List.nil_append, List.cons_append]

/-- a keyword directly followed by `(` -/
theorem lexGo_keyword (w : List Char) (t : Token) (hw : ∀ c, c ∈ w → isSepChar c = false)
    (ht : wordTok w = [t]) (rest : List Char) :
    lexGo [] none (w ++ '(' :: rest) = (lexGo [] none rest).pre [t, .lparen] := by
  rw [lexGo_word w hw, lexGo_sep_plain _ '(' rest (by decide) (by decide)]
  simp [ht, sepTok]

theorem lexGo_rparen (rest : List Char) :
    lexGo [] none (')' :: rest) = (lexGo [] none rest).pre [.rparen] := by
  rw [lexGo_sep_plain _ ')' rest (by decide) (by decide)]; simp [wordTok_nil, sepTok]

theorem lexGo_comma (rest : List Char) :
    lexGo [] none (',' :: rest) = (lexGo [] none rest).pre [.comma] := by
  rw [lexGo_sep_plain _ ',' rest (by decide) (by decide)]; simp [wordTok_nil, sepTok]

mutual
/-- the canonical text of an expression (no optional whitespace) -/
def renderStr : IR → List Char
  | .ident n => n
  | .equal n v => n ++ '=' :: '"' :: (v ++ ['"'])
  | .not e => "not".toList ++ '(' :: (renderStr e ++ [')'])
  | .any as => "any".toList ++ '(' :: (renderStrArgs as ++ [')'])
  | .all as => "all".toList ++ '(' :: (renderStrArgs as ++ [')'])
def renderStrArgs : List IR → List Char
  | [] => []
  | e :: es => renderStr e ++ renderStrRest es
def renderStrRest : List IR → List Char
  | [] => []
  | e :: es => ',' :: (renderStr e ++ renderStrRest es)
end

mutual
/-- names are proper names, values contain no `"` (they may contain blanks and separators) -/
def lexOk : IR → Prop
  | .ident n => NameOk n
  | .equal n v => NameOk n ∧ '"' ∉ v
  | .not e => lexOk e
  | .any as => lexOkL as
  | .all as => lexOkL as
def lexOkL : List IR → Prop
  | [] => True
  | e :: es => lexOk e ∧ lexOkL es
end

theorem sepStart_rparen (r : List Char) : SepStart (')' :: r) := Or.inr ⟨')', r, rfl, by decide⟩
theorem sepStart_comma (r : List Char) : SepStart (',' :: r) := Or.inr ⟨',', r, rfl, by decide⟩

theorem renderStrRest_sepStart (es : List IR) (r : List Char) :
    SepStart (renderStrRest es ++ ')' :: r) := by
  cases es with
  | nil => exact sepStart_rparen r
  | cons e es' => simp only [renderStrRest, List.cons_append]; exact sepStart_comma _

theorem kw_chars (w : List Char) (h : w = "not".toList ∨ w = "any".toList ∨ w = "all".toList) :
    ∀ c, c ∈ w → isSepChar c = false := by
  rcases h with rfl | rfl | rfl <;> decide

mutual
theorem lex_E (e : IR) (h : lexOk e) (rest : List Char) (hr : SepStart rest) :
    lexGo [] none (renderStr e ++ rest) = (lexGo [] none rest).pre (renderTokens e) := by
  match e with
  | .ident n =>
    simp only [lexOk] at h
    simpa [renderStr, renderTokens] using lexGo_name n h rest hr
  | .equal n v =>
    simp only [lexOk] at h
    simp only [renderStr, renderTokens, List.append_assoc, List.cons_append, List.nil_append]
    rw [lexGo_word n h.1.2.1, lexGo_sep_plain _ '=' _ (by decide) (by decide), lexGo_quote,
      lexGo_literal v h.2]
    simp [wordTok_name n h.1, wordTok_nil, sepTok, pre_pre]
  | .not e' =>
    simp only [lexOk] at h
    simp only [renderStr, renderTokens, List.append_assoc, List.cons_append, List.nil_append]
    rw [lexGo_keyword _ .not (kw_chars _ (Or.inl rfl)) (by decide),
      lex_E e' h _ (sepStart_rparen rest), lexGo_rparen]
    simp [pre_pre]
  | .any as =>
    simp only [lexOk] at h
    simp only [renderStr, renderTokens, List.append_assoc, List.cons_append, List.nil_append]
    rw [lexGo_keyword _ .any (kw_chars _ (Or.inr (Or.inl rfl))) (by decide),
      lex_A as h rest, lexGo_rparen]
    simp [pre_pre]
  | .all as =>
    simp only [lexOk] at h
    simp only [renderStr, renderTokens, List.append_assoc, List.cons_append, List.nil_append]
    rw [lexGo_keyword _ .all (kw_chars _ (Or.inr (Or.inr rfl))) (by decide),
      lex_A as h rest, lexGo_rparen]
    simp [pre_pre]
theorem lex_A (es : List IR) (h : lexOkL es) (rest : List Char) :
    lexGo [] none (renderStrArgs es ++ ')' :: rest) =
      (lexGo [] none (')' :: rest)).pre (renderArgs es) := by
  match es with
  | [] => simp [renderStrArgs, renderArgs, pre_nil]
  | e :: es' =>
    simp only [lexOkL] at h
    simp only [renderStrArgs, renderArgs, List.append_assoc]
    rw [lex_E e h.1 _ (renderStrRest_sepStart es' rest), lex_R es' h.2 rest]
    simp [pre_pre]
theorem lex_R (es : List IR) (h : lexOkL es) (rest : List Char) :
    lexGo [] none (renderStrRest es ++ ')' :: rest) =
      (lexGo [] none (')' :: rest)).pre (renderRest es) := by
  match es with
  | [] => simp [renderStrRest, renderRest, pre_nil]
  | e :: es' =>
    simp only [lexOkL] at h
    simp only [renderStrRest, renderRest, List.append_assoc, List.cons_append]
    rw [lexGo_comma, lex_E e h.1 _ (renderStrRest_sepStart es' rest), lex_R es' h.2 rest]
    simp [pre_pre]
end

theorem lexer_renderStr (e : IR) (h : lexOk e) : lexer (renderStr e) = ⟨renderTokens e, false⟩ := by
  have := lex_E e h [] (Or.inl rfl)
  simp only [List.append_nil] at this
  simp [lexer, this, lexGo, LexResult.pre]

mutual
theorem lexOk_namesOk (e : IR) (h : lexOk e) : namesOk e := by
  match e with
  | .ident n => simp only [lexOk] at h; exact h.1
  | .equal n v => simp only [lexOk] at h; exact h.1.1
  | .not e' => simp only [lexOk] at h; simp only [namesOk]; exact lexOk_namesOk e' h
  | .any as => simp only [lexOk] at h; simp only [namesOk]; exact lexOkL_namesOkL as h
  | .all as => simp only [lexOk] at h; simp only [namesOk]; exact lexOkL_namesOkL as h
theorem lexOkL_namesOkL (es : List IR) (h : lexOkL es) : namesOkL es := by
  match es with
  | [] => trivial
  | e :: es' =>
    simp only [lexOkL] at h
    exact ⟨lexOk_namesOk e h.1, lexOkL_namesOkL es' h.2⟩
end

end MesonModel.Cargo
