/-
Helper lemmas for the cache model: with one `try` block per cached attribute, `update_version`
leaves no value computed from an older requirement, whatever was cached before.
-/
import MesonModel.Cargo.CacheModel

namespace MesonModel.Cargo.Cache

/-- every cached value was computed from the current requirement -/
def Coherent (o : Obj) : Prop := ∀ e, e ∈ o.cached → e.2 = o.version

/-- only the lazy attributes are ever cached -/
def Within (attrs : List String) (o : Obj) : Prop := ∀ e, e ∈ o.cached → e.1 ∈ attrs

theorem runBlock_version (o : Obj) (b : List String) : (runBlock o b).version = o.version := by
  induction b generalizing o with
  | nil => rfl
  | cons a as ih =>
    simp only [runBlock]
    cases h : delattr o a with
    | none => rfl
    | some o' =>
      simp only []
      rw [ih]
      unfold delattr at h
      split at h <;> simp at h
      subst h; rfl

theorem runBlock_sub (o : Obj) (b : List String) : ∀ e, e ∈ (runBlock o b).cached → e ∈ o.cached := by
  induction b generalizing o with
  | nil => intro e h; exact h
  | cons a as ih =>
    intro e h
    simp only [runBlock] at h
    cases hd : delattr o a with
    | none => rw [hd] at h; exact h
    | some o' =>
      rw [hd] at h
      have := ih o' e h
      unfold delattr at hd
      split at hd <;> simp at hd
      subst hd
      exact (List.mem_filter.mp this).1

theorem runBlock_single (o : Obj) (a : String) : ∀ e, e ∈ (runBlock o [a]).cached → e.1 ≠ a := by
  intro e h
  simp only [runBlock] at h
  cases hd : delattr o a with
  | none =>
    rw [hd] at h
    unfold delattr at hd
    split at hd
    · simp at hd
    · rename_i hn
      intro he
      apply hn
      simp only [List.any_eq_true]
      exact ⟨e, h, by simp [he]⟩
  | some o' =>
    rw [hd] at h
    simp only [runBlock] at h
    unfold delattr at hd
    split at hd <;> simp at hd
    subst hd
    have := (List.mem_filter.mp h).2
    simpa using this

theorem foldl_version (blocks : List (List String)) (o : Obj) :
    (blocks.foldl runBlock o).version = o.version := by
  induction blocks generalizing o with
  | nil => rfl
  | cons b bs ih => simp only [List.foldl_cons]; rw [ih, runBlock_version]

theorem foldl_sub (blocks : List (List String)) (o : Obj) :
    ∀ e, e ∈ (blocks.foldl runBlock o).cached → e ∈ o.cached := by
  induction blocks generalizing o with
  | nil => intro e h; exact h
  | cons b bs ih =>
    intro e h
    simp only [List.foldl_cons] at h
    exact runBlock_sub o b e (ih _ e h)

theorem foldl_removes (blocks : List (List String)) (o : Obj) (a : String) (ha : [a] ∈ blocks) :
    ∀ e, e ∈ (blocks.foldl runBlock o).cached → e.1 ≠ a := by
  induction blocks generalizing o with
  | nil => simp at ha
  | cons b bs ih =>
    intro e h
    simp only [List.foldl_cons] at h
    rcases List.mem_cons.mp ha with hb | hb
    · subst hb
      exact runBlock_single o a e (foldl_sub bs _ e h)
    · exact ih _ hb e h

theorem blocksOk_mem (blocks : List (List String)) (attrs : List String) (h : blocksOk blocks attrs = true)
    (a : String) (ha : a ∈ attrs) : [a] ∈ blocks := by
  simp only [blocksOk, Bool.and_eq_true, List.all_eq_true, List.any_eq_true] at h
  obtain ⟨b, hb, he⟩ := h.2 a ha
  have : b = [a] := by simpa using he
  subst this; exact hb

/-- with an ok table `update_version` empties the cache of every lazy attribute -/
theorem update_clears (blocks : List (List String)) (attrs : List String)
    (hok : blocksOk blocks attrs = true) (o : Obj) (hw : Within attrs o) (v : List Char) :
    (update blocks o v).cached = [] := by
  cases hc : (update blocks o v).cached with
  | nil => rfl
  | cons e es =>
    have he : e ∈ (update blocks o v).cached := by rw [hc]; simp
    have h1 : e ∈ o.cached := foldl_sub blocks ⟨v, o.cached⟩ e he
    have h2 := foldl_removes blocks ⟨v, o.cached⟩ e.1 (blocksOk_mem blocks attrs hok e.1 (hw e h1)) e he
    exact absurd rfl h2

theorem update_version (blocks : List (List String)) (o : Obj) (v : List Char) :
    (update blocks o v).version = v := by
  unfold update; rw [foldl_version]

theorem read_preserves (attrs : List String) (o : Obj) (a : String) (ha : a ∈ attrs)
    (hc : Coherent o) (hw : Within attrs o) :
    Coherent (read o a).1 ∧ Within attrs (read o a).1 ∧ (read o a).2 = o.version := by
  unfold read
  cases hl : o.cached.lookup a with
  | some src =>
    have hm : (a, src) ∈ o.cached := by
      have := List.lookup_eq_some_iff.mp hl
      obtain ⟨l1, l2, h1, _⟩ := this
      rw [h1]; simp
    exact ⟨hc, hw, hc _ hm⟩
  | none =>
    simp only []
    split
    · exact ⟨hc, hw, rfl⟩
    · refine ⟨?_, ?_, rfl⟩
      · intro e he
        rcases List.mem_cons.mp he with h | h
        · subst h; rfl
        · exact hc e h
      · intro e he
        rcases List.mem_cons.mp he with h | h
        · subst h; exact ha
        · exact hw e h

/-- ops that read only lazy attributes -/
def OpsWithin (attrs : List String) (ops : List Op) : Prop :=
  ∀ op, op ∈ ops → match op with | .read a => a ∈ attrs | .update _ => True

theorem run_invariant (blocks : List (List String)) (attrs : List String)
    (hok : blocksOk blocks attrs = true) (ops : List Op) (how : OpsWithin attrs ops) :
    ∀ o, Coherent o → Within attrs o →
      Coherent (run blocks o ops) ∧ Within attrs (run blocks o ops) := by
  induction ops with
  | nil => intro o hc hw; exact ⟨hc, hw⟩
  | cons op rest ih =>
    intro o hc hw
    have hrest : OpsWithin attrs rest := fun p hp => how p (by simp [hp])
    simp only [run, List.foldl_cons]
    cases op with
    | read a =>
      have ha : a ∈ attrs := how (.read a) (by simp)
      have := read_preserves attrs o a ha hc hw
      exact ih hrest _ this.1 this.2.1
    | update v =>
      have hcl := update_clears blocks attrs hok o hw v
      apply ih hrest
      · intro e he; simp only [step] at he; rw [hcl] at he; simp at he
      · intro e he; simp only [step] at he; rw [hcl] at he; simp at he

end MesonModel.Cargo.Cache
