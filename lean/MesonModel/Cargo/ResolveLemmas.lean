/-
C20 — helper lemmas for `Cargo/ResolveModel.lean`: the api of a version text and its relation to
caret requirements, Cargo.lock resolution (descending stable sort, first accepted = newest accepted),
the merge of target-specific dependency tables, `SystemDependency.meson_version`.
-/
import MesonModel.Cargo.ResolveModel
import MesonModel.Cargo.MatchLemmas
import MesonModel.Cargo.BridgeLemmas
import MesonModel.Cargo.OrderLemmas
import MesonModel.Version.TokLemmas
namespace MesonModel.Cargo.Resolve
open MesonModel.Py MesonModel.Cargo MesonModel.Cargo.Spec

deriving instance DecidableEq for Except

inductive ApiClass where
  | major (n : Nat) | zeroMinor (n : Nat) | zero
  deriving DecidableEq, Repr

def apiClass (v : V) : ApiClass :=
  if v.1 ≠ 0 then .major v.1 else if v.2.1 ≠ 0 then .zeroMinor v.2.1 else .zero

theorem caret_iff_class_ge (a b c : Nat) (v : V) (h : a ≠ 0 ∨ b ≠ 0) :
    pinnedRule .caret [a, b, c] v ↔ apiClass v = apiClass (a, b, c) ∧ tle (a, b, c) v := by
  obtain ⟨x, y, z⟩ := v
  rcases Nat.eq_zero_or_pos a with rfl | ha
  · rcases Nat.eq_zero_or_pos b with rfl | hb
    · simp at h
    · have hb' : b ≠ 0 := by omega
      obtain ⟨b', rfl⟩ : ∃ b', b = b' + 1 := ⟨b - 1, by omega⟩
      simp [pinnedRule, cargoRule, apiClass, tle, tlt]
      by_cases hx : x = 0 <;> by_cases hy : y = 0 <;> simp [hx, hy] <;> omega
  · obtain ⟨a', rfl⟩ : ∃ a', a = a' + 1 := ⟨a - 1, by omega⟩
    simp [pinnedRule, cargoRule, apiClass, tle, tlt]
    by_cases hx : x = 0 <;> simp [hx] <;> omega


theorem dropWhile_none {α} (p : α → Bool) (l : List α) (h : ∀ c, c ∈ l → p c = false) :
    l.dropWhile p = l := by
  cases l with
  | nil => rfl
  | cons c cs => simp [List.dropWhile, h c (by simp)]

theorem digit_not_intSpace (c : Char) (h : isDigit c = true) : isIntSpace c = false := by
  simp [isDigit, isIntSpace] at *; omega

theorem pyIntDigits_some (ds : List Char) (hd : ∀ c, c ∈ ds → isDigit c = true) (n : Nat) :
    pyIntDigits ds false (some n) = some (ds.foldl (fun acc c => acc * 10 + digitVal c) n) := by
  induction ds generalizing n with
  | nil => simp [pyIntDigits]
  | cons c cs ih =>
    have hc := hd c (by simp)
    simp [pyIntDigits, hc, ih (fun c h => hd c (by simp [h]))]

theorem pyInt_num (s : List Char) (hs : IsNum s) : pyInt s = some (Int.ofNat (natOfDigits s)) := by
  obtain ⟨hne, hd⟩ := hs
  have h1 : s.dropWhile isIntSpace = s := by
    cases s with
    | nil => rfl
    | cons c cs => simp [List.dropWhile, digit_not_intSpace c (hd c (by simp))]
  have h2 : s.reverse.dropWhile isIntSpace = s.reverse := by
    cases hr : s.reverse with
    | nil => rfl
    | cons c cs =>
      have : c ∈ s := by
        have : c ∈ s.reverse := by rw [hr]; simp
        simpa using this
      simp [List.dropWhile, digit_not_intSpace c (hd c this)]
  cases s with
  | nil => exact absurd rfl hne
  | cons c cs =>
    have hc := hd c (by simp)
    have hm : c ≠ '-' := by intro e; subst e; exact absurd hc (by decide)
    have hp : c ≠ '+' := by intro e; subst e; exact absurd hc (by decide)
    unfold pyInt
    rw [h1, h2, List.reverse_reverse]
    split
    · rename_i r heq; simp at heq; exact absurd heq.1 hm
    · rename_i r heq; simp at heq; exact absurd heq.1 hp
    · simp [pyIntDigits, hc, pyIntDigits_some cs (fun c h => hd c (by simp [h])), natOfDigits]


/-- a version text: digits and dots, starting and ending with a digit -/
structure IsVerText (t : List Char) : Prop where
  chars : ∀ c, c ∈ t → isDigit c = true ∨ c = '.'
  head : ∃ c, t.head? = some c ∧ isDigit c = true
  last : ∃ c, t.getLast? = some c ∧ isDigit c = true

theorem digit_not_space (c : Char) (h : isDigit c = true) : isSpace c = false := by
  simp [isDigit, isSpace] at *; omega

theorem strip_id (l : List Char) (h1 : ∀ c, l.head? = some c → isSpace c = false)
    (h2 : ∀ c, l.getLast? = some c → isSpace c = false) : strip l = l := by
  have e1 : lstrip l = l := by
    cases l with
    | nil => rfl
    | cons c cs => simp [lstrip, List.dropWhile, h1 c rfl]
  have e2 : rstrip l = l := by
    unfold rstrip
    cases hr : l.reverse with
    | nil => simp at hr; simp [hr]
    | cons c cs =>
      have : l.getLast? = some c := by
        rw [List.getLast?_eq_head?_reverse, hr]; rfl
      have hl : l = cs.reverse ++ [c] := by
        have := congrArg List.reverse hr
        simpa using this
      simp [List.dropWhile, h2 c this, hl]
  simp [strip, e1, e2]

theorem verText_strip (t : List Char) (h : IsVerText t) : strip t = t := by
  obtain ⟨c, hc, hd⟩ := h.head
  obtain ⟨c', hc', hd'⟩ := h.last
  apply strip_id
  · intro x hx; rw [hc] at hx; cases hx; exact digit_not_space _ hd
  · intro x hx; rw [hc'] at hx; cases hx; exact digit_not_space _ hd'

theorem verText_no_comma (t : List Char) (h : IsVerText t) : ',' ∉ t := by
  intro hm
  rcases h.chars _ hm with h1 | h1
  · exact absurd h1 (by decide)
  · exact absurd h1 (by decide)

theorem verText_splitPiece (t : List Char) (h : IsVerText t) : splitPiece t = some (.caret, t) := by
  obtain ⟨c, hc, hd⟩ := h.head
  obtain ⟨c', hc', hd'⟩ := h.last
  have hs := verText_strip t h
  cases t with
  | nil => simp at hc
  | cons a as =>
    simp at hc; subst hc
    have n1 : a ≠ '>' := by intro e; subst e; exact absurd hd (by decide)
    have n2 : a ≠ '<' := by intro e; subst e; exact absurd hd (by decide)
    have n3 : a ≠ '!' := by intro e; subst e; exact absurd hd (by decide)
    have n4 : a ≠ '~' := by intro e; subst e; exact absurd hd (by decide)
    have n5 : a ≠ '=' := by intro e; subst e; exact absurd hd (by decide)
    have n6 : a ≠ '^' := by intro e; subst e; exact absurd hd (by decide)
    have n7 : a ≠ '*' := by intro e; subst e; exact absurd hd (by decide)
    have hend : endsWith (a :: as) ['.', '*'] = false := by
      unfold endsWith
      cases hr : (a :: as).reverse with
      | nil => simp at hr
      | cons x xs =>
        have : (a :: as).getLast? = some x := by
          rw [List.getLast?_eq_head?_reverse, hr]; rfl
        rw [hc'] at this; cases this
        have : c' ≠ '*' := by intro e; subst e; exact absurd hd' (by decide)
        have this' : ¬ '*' = c' := fun e => this e.symm
        simp [List.isPrefixOf, this']
    unfold splitPiece
    simp only [hs]
    simp [startsWith, List.isPrefixOf, n1.symm, n2.symm, n3.symm, n4.symm, n5.symm, n6.symm, n7, hend]

theorem verText_split (t : List Char) (h : IsVerText t) : split t = [(.caret, t)] := by
  have hne : t ≠ [] := by
    obtain ⟨c, hc, _⟩ := h.head; intro e; subst e; simp at hc
  simp [split, pieces, verText_strip t h, hne, splitOnChar_noSep ',' t (verText_no_comma t h),
    verText_splitPiece t h]

theorem eq_verText_split (t : List Char) (h : IsVerText t) : split ('=' :: t) = [(.eq, t)] := by
  obtain ⟨c, hc, hd⟩ := h.head
  obtain ⟨c', hc', hd'⟩ := h.last
  have hne : t ≠ [] := by intro e; subst e; simp at hc
  have hs : strip ('=' :: t) = '=' :: t := by
    apply strip_id
    · intro x hx; simp at hx; subst hx; decide
    · intro x hx
      rw [List.getLast?_cons_of_ne_nil hne] at hx <;> try exact hne
      rw [hc'] at hx; cases hx; exact digit_not_space _ hd'
  have hnc : ',' ∉ ('=' :: t) := by
    intro hm; simp at hm; exact verText_no_comma t h hm
  have hl : lstrip t = t := by
    cases t with
    | nil => rfl
    | cons a as => simp at hc; subst hc; simp [lstrip, List.dropWhile, digit_not_space _ hd]
  have hp : splitPiece ('=' :: t) = some (.eq, t) := by
    unfold splitPiece
    simp only [hs]
    simp [startsWith, List.isPrefixOf, hl, hne]
  simp [split, pieces, hs, splitOnChar_noSep ',' _ hnc, hp]

theorem getLast?_append_ne_nil (a b : List Char) (h : b ≠ []) : (a ++ b).getLast? = b.getLast? := by
  simp [List.getLast?_append]
  cases hb : b.getLast? with
  | none => simp [List.getLast?_eq_none_iff] at hb; exact absurd hb h
  | some x => simp

theorem isNum_isIdent (d : List Char) (h : IsNum d) : IsIdent d :=
  ⟨h.1, fun c hc => by simp [isIdentChar, isAlnum, h.2 c hc]⟩

theorem dotted_verText (ds : List (List Char)) (hne : ds ≠ []) (hd : ∀ d, d ∈ ds → IsNum d) :
    IsVerText (dotted ds) := by
  induction ds with
  | nil => exact absurd rfl hne
  | cons a rest ih =>
    have ha := hd a (by simp)
    cases rest with
    | nil =>
      refine ⟨fun c hc => Or.inl (ha.2 c hc), ?_, ?_⟩
      · cases a with
        | nil => exact absurd rfl ha.1
        | cons c cs => exact ⟨c, rfl, ha.2 c (by simp)⟩
      · simp only [dotted]
        refine ⟨a.getLast ha.1, List.getLast?_eq_some_getLast ha.1, ha.2 _ (List.getLast_mem ha.1)⟩
    | cons b rest' =>
      have ih' := ih (by simp) (fun d h => hd d (by simp [h]))
      refine ⟨?_, ?_, ?_⟩
      · intro c hc
        simp only [dotted, List.mem_append, List.mem_cons] at hc
        rcases hc with hc | hc | hc
        · exact Or.inl (ha.2 c hc)
        · exact Or.inr hc
        · exact ih'.chars c hc
      · cases a with
        | nil => exact absurd rfl ha.1
        | cons c cs => exact ⟨c, rfl, ha.2 c (by simp)⟩
      · obtain ⟨c, hc, hdg⟩ := ih'.last
        refine ⟨c, ?_, hdg⟩
        have hne' : dotted (b :: rest') ≠ [] := by intro e; rw [e] at hc; simp at hc
        simp only [dotted]
        rw [getLast?_append_ne_nil _ _ (by simp), List.getLast?_cons_of_ne_nil hne']
        exact hc

/-- the documented api of a release (or partial) version written as digit runs: the major,
`0.<minor>` below 1.0, `0` below 0.1 -/
def apiText : List (List Char) → List Char
  | [] => []
  | x :: rest =>
    if natOfDigits x ≠ 0 then x
    else match rest with
      | y :: _ => if natOfDigits y ≠ 0 then '0' :: '.' :: y else ['0']
      | [] => ['0']

theorem apiOf_dotted (ds : List (List Char)) (hne : ds ≠ []) (hd : ∀ d, d ∈ ds → IsNum d) :
    apiOf (dotted ds) = .ok (apiText ds) := by
  have hs : splitOnChar '.' (dotted ds) = ds := split_dotted ds hne (fun i hi => isNum_isIdent i (hd i hi))
  cases ds with
  | nil => exact absurd rfl hne
  | cons x rest =>
    have hx := hd x (by simp)
    unfold apiOf
    simp only [hs, List.getD_cons_zero, hx.1, if_false, pyInt_num x hx]
    by_cases h0 : natOfDigits x = 0
    · have : ¬ ((Int.ofNat (natOfDigits x)) ≠ 0) := by simp [h0]
      simp only [this, if_false]
      cases rest with
      | nil => simp [apiText, h0]
      | cons y rest' =>
        have hy := hd y (by simp)
        simp only [List.length_cons, ge_iff_le, Nat.le_add_left, if_true, List.getD_cons_succ,
          List.getD_cons_zero, pyInt_num y hy]
        by_cases h1 : natOfDigits y = 0
        · simp [apiText, h0, h1]
        · have : (Int.ofNat (natOfDigits y)) ≠ 0 := by simp [h1]
          simp [apiText, h0, h1]
    · have : (Int.ofNat (natOfDigits x)) ≠ 0 := by simp [h0]
      simp [apiText, h0]

theorem api_of_split_one (req : List Char) (op : Op) (ver a : List Char)
    (hs : split req = [(op, ver)]) (hop : op = .ge ∨ op = .eq ∨ op = .caret ∨ op = .tilde)
    (ha : apiOf ver = .ok a) : api req = .ok a := by
  unfold api
  rcases hop with rfl | rfl | rfl | rfl <;> simp [hs, apiGo, ha]

/-- `version.api` of a version text (`Package.api`, `CargoLockPackage.api`) and of the pinned
requirement `=<that text>` (`Dependency.api` after `update_version`) are the same documented api -/
theorem api_version_text (ds : List (List Char)) (hne : ds ≠ []) (hd : ∀ d, d ∈ ds → IsNum d) :
    api (dotted ds) = .ok (apiText ds) ∧ api ('=' :: dotted ds) = .ok (apiText ds) := by
  have hv := dotted_verText ds hne hd
  exact ⟨api_of_split_one _ _ _ _ (verText_split _ hv) (by simp) (apiOf_dotted ds hne hd),
    api_of_split_one _ _ _ _ (eq_verText_split _ hv) (by simp) (apiOf_dotted ds hne hd)⟩

/-! ### Cargo.lock resolution -/

theorem mem_insertDesc (p q : LockPkg) (l : List LockPkg) : q ∈ insertDesc p l ↔ q = p ∨ q ∈ l := by
  induction l with
  | nil => simp [insertDesc]
  | cons a as ih =>
    simp only [insertDesc]
    split
    · simp only [List.mem_cons, ih]
      constructor <;> (intro h; rcases h with h | h | h <;> simp [h])
    · simp only [List.mem_cons]

theorem mem_sortDesc (q : LockPkg) (l : List LockPkg) : q ∈ sortDesc l ↔ q ∈ l := by
  induction l with
  | nil => simp [sortDesc]
  | cons a as ih => simp [sortDesc, mem_insertDesc, ih]

/-- no element is followed by a strictly newer one -/
def Desc (l : List LockPkg) : Prop := l.Pairwise (fun a b => vlt (key a) (key b) = false)

theorem not_lt_trans (a b c : List Comp) (h1 : vlt a b = false) (h2 : vlt b c = false) : vlt a c = false := by
  cases h : vlt a c with
  | false => rfl
  | true =>
    exfalso
    have hac : Lt a c := (vlt_iff a c).mp h
    have nab : ¬ Lt a b := fun x => by simp [(vlt_iff a b).mpr x] at h1
    have nbc : ¬ Lt b c := fun x => by simp [(vlt_iff b c).mpr x] at h2
    rcases Lt.total b c with x | x | x
    · exact nbc x
    · subst x; exact nab hac
    · exact nab (Lt.trans hac x)

theorem insertDesc_desc (p : LockPkg) (l : List LockPkg) (h : Desc l) : Desc (insertDesc p l) := by
  induction l with
  | nil => simp [insertDesc, Desc]
  | cons q qs ih =>
    have hq : ∀ r, r ∈ qs → vlt (key q) (key r) = false := (List.pairwise_cons.mp h).1
    have hqs : Desc qs := (List.pairwise_cons.mp h).2
    simp only [insertDesc]
    split
    · rename_i hlt
      refine List.pairwise_cons.mpr ⟨?_, ih hqs⟩
      intro r hr
      rcases (mem_insertDesc p r qs).mp hr with rfl | hr
      · cases hx : vlt (key q) (key r) with
        | false => rfl
        | true => exact absurd ((vlt_iff _ _).mp hlt) (Lt.asymm ((vlt_iff _ _).mp hx))
      · exact hq r hr
    · rename_i hnlt
      have hpq : vlt (key p) (key q) = false := by simpa using hnlt
      refine List.pairwise_cons.mpr ⟨?_, h⟩
      intro r hr
      rcases List.mem_cons.mp hr with rfl | hr
      · exact hpq
      · exact not_lt_trans _ _ _ hpq (hq r hr)

theorem sortDesc_desc (l : List LockPkg) : Desc (sortDesc l) := by
  induction l with
  | nil => simp [sortDesc, Desc]
  | cons a as ih => exact insertDesc_desc a _ ih

theorem find_first_of_desc (l : List LockPkg) (f : LockPkg → Bool) (p : LockPkg) (hd : Desc l)
    (h : l.find? f = some p) :
    p ∈ l ∧ f p = true ∧ ∀ q, q ∈ l → f q = true → vlt (key p) (key q) = false := by
  obtain ⟨hp, as, bs, hl, has⟩ := List.find?_eq_some_iff_append.mp h
  subst hl
  refine ⟨by simp, hp, ?_⟩
  intro q hq hfq
  rcases List.mem_append.mp hq with hq | hq
  · have := has q hq; simp [hfq] at this
  · rcases List.mem_cons.mp hq with rfl | hq
    · simp [vlt, vcmp_self]
    · have := (List.pairwise_append.mp hd).2.1
      exact (List.pairwise_cons.mp this).1 q hq

theorem resolve_some (l : List LockPkg) (name : List Char) (acc : List Char → Bool) (p : LockPkg)
    (h : resolveWith (some l) name acc = some p) :
    p ∈ l ∧ p.name = name ∧ acc p.version = true ∧
      ∀ q, q ∈ l → q.name = name → acc q.version = true → vlt (key p) (key q) = false := by
  have := find_first_of_desc _ _ p (sortDesc_desc _) h
  obtain ⟨hm, ha, hn⟩ := this
  have hm' := (mem_sortDesc _ _).mp hm
  simp only [List.mem_filter, decide_eq_true_eq] at hm'
  refine ⟨hm'.1, hm'.2, ha, ?_⟩
  intro q hq hqn hqa
  exact hn q ((mem_sortDesc _ _).mpr (by simp [hq, hqn])) hqa

theorem resolve_none (l : List LockPkg) (name : List Char) (acc : List Char → Bool) :
    resolveWith (some l) name acc = none ↔ ∀ q, q ∈ l → q.name = name → acc q.version = false := by
  simp only [resolveWith, named, List.find?_eq_none, mem_sortDesc, List.mem_filter, decide_eq_true_eq]
  constructor
  · intro h q hq hn; simpa using h q ⟨hq, hn⟩
  · intro h q hq; simp [h q hq.1 hq.2]

/-! ### target dependencies -/

/-- the condition of a `[target.'…']` table holds (no exception, value true) -/
def isEnabled (triple : List Char) (cfgs : Cfgs) (t : List Char × Deps) : Bool :=
  match conditionHolds triple cfgs t.1 with
  | .ok true => true
  | _ => false

theorem dictUpdate_append (d e1 e2 : Deps) : dictUpdate d (e1 ++ e2) = dictUpdate (dictUpdate d e1) e2 := by
  simp [dictUpdate, List.foldl_append]

theorem mergeTargets_ok (triple : List Char) (cfgs : Cfgs) (ts : List (List Char × Deps)) (d r : Deps)
    (h : mergeTargets triple cfgs d ts = .ok r) :
    r = dictUpdate d ((ts.filter (isEnabled triple cfgs)).flatMap (fun t => t.2)) := by
  induction ts generalizing d with
  | nil => simp [mergeTargets] at h; simp [dictUpdate, h]
  | cons t rest ih =>
    obtain ⟨cond, ds⟩ := t
    simp only [mergeTargets] at h
    cases hc : conditionHolds triple cfgs cond with
    | error e => simp [hc] at h
    | ok b =>
      cases b with
      | true =>
        simp only [hc] at h
        have := ih _ h
        simp [List.filter, isEnabled, hc, dictUpdate_append, this]
      | false =>
        simp only [hc] at h
        have := ih _ h
        simp [List.filter, isEnabled, hc, this]

theorem mergeTargets_error_iff (triple : List Char) (cfgs : Cfgs) (ts : List (List Char × Deps)) (d : Deps) :
    (∃ e, mergeTargets triple cfgs d ts = .error e) ↔
      ∃ t, t ∈ ts ∧ ∃ e, conditionHolds triple cfgs t.1 = .error e := by
  induction ts generalizing d with
  | nil => simp [mergeTargets]
  | cons t rest ih =>
    obtain ⟨cond, ds⟩ := t
    simp only [mergeTargets]
    cases hc : conditionHolds triple cfgs cond with
    | error e => simp [hc]
    | ok b =>
      cases b <;> simp [hc, ih]

theorem lookup_cons_ne (k' ak av : List Char) (as : Deps) (h : k' ≠ ak) :
    List.lookup k' ((ak, av) :: as) = List.lookup k' as := by
  simp [List.lookup, beq_eq_false_iff_ne.mpr h]

theorem lookup_cons_eq (k av : List Char) (as : Deps) : List.lookup k ((k, av) :: as) = some av := by
  simp [List.lookup]

theorem lookup_map_set (d : Deps) (k v k' : List Char) :
    (d.map (fun kv => if kv.1 == k then (k, v) else kv)).lookup k' =
      if k' = k then (if d.any (fun kv => kv.1 == k) then some v else none) else d.lookup k' := by
  induction d with
  | nil => simp
  | cons a as ih =>
    obtain ⟨ak, av⟩ := a
    by_cases h1 : ak = k
    · subst h1
      simp only [List.map, beq_self_eq_true, if_true, List.any_cons, Bool.true_or]
      by_cases h2 : k' = ak
      · subst h2; rw [lookup_cons_eq]; simp
      · rw [lookup_cons_ne _ _ _ _ h2, ih, lookup_cons_ne _ _ _ _ h2]; simp [h2]
    · have e1 : (ak == k) = false := beq_eq_false_iff_ne.mpr h1
      simp only [List.map, e1, Bool.false_eq_true, if_false, List.any_cons, Bool.false_or]
      by_cases h3 : k' = ak
      · subst h3; rw [lookup_cons_eq, lookup_cons_eq]; simp [h1]
      · rw [lookup_cons_ne _ _ _ _ h3, ih, lookup_cons_ne _ _ _ _ h3]

theorem dictSet_lookup (d : Deps) (k v k' : List Char) :
    (dictSet d k v).lookup k' = if k' = k then some v else d.lookup k' := by
  unfold dictSet
  by_cases h : d.any (fun kv => kv.1 == k) = true
  · rw [if_pos h, lookup_map_set]
    by_cases h2 : k' = k <;> simp [h2, h]
  · have hn : d.lookup k = none := by
      rw [List.lookup_eq_none_iff]
      intro a ha
      simp only [List.any_eq_true, not_exists, not_and] at h
      have := h a ha
      have hne : a.1 ≠ k := by simpa using this
      simp only [bne_iff_ne, ne_eq]
      exact fun e => hne e.symm
    rw [if_neg h, List.lookup_append]
    by_cases h2 : k' = k
    · subst h2; rw [hn, lookup_cons_eq]; simp
    · rw [lookup_cons_ne _ _ _ _ h2]; simp [h2]

theorem dictUpdate_lookup (d e : Deps) (k : List Char) :
    (dictUpdate d e).lookup k = (e.reverse.lookup k).or (d.lookup k) := by
  induction e generalizing d with
  | nil => simp [dictUpdate]
  | cons kv rest ih =>
    have : dictUpdate d (kv :: rest) = dictUpdate (dictSet d kv.1 kv.2) rest := rfl
    rw [this, ih, dictSet_lookup]
    simp only [List.reverse_cons, List.lookup_append]
    obtain ⟨a, b⟩ := kv
    by_cases h : k = a
    · subst h; rw [lookup_cons_eq]; cases rest.reverse.lookup k <;> simp
    · rw [lookup_cons_ne _ _ _ _ h]; cases rest.reverse.lookup k <;> simp [h]

/-! ### `SystemDependency.meson_version` -/

open MesonModel.Version in
theorem versionCompare_ge' (v w : List Char) :
    versionCompare v ('>' :: '=' :: w) = MesonModel.Version.vge (tokenize v) (tokenize w) := by
  have : extractCmpOp ('>' :: '=' :: w) = (.ge, strip w) := by simp [extractCmpOp, startsWith]
  simp [versionCompare, this, CmpOp.apply, tokenize_strip]

theorem mesonVersionPieces_ok (ps : List (List Char)) (cs : List (List Char))
    (h : mesonVersionPieces ps = .ok cs) :
    cs.length = ps.length ∧ ∀ i (hi : i < ps.length) (hj : i < cs.length), mesonVersionPiece ps[i] = .ok cs[i] := by
  induction ps generalizing cs with
  | nil => simp [mesonVersionPieces] at h; subst h; simp
  | cons p rest ih =>
    simp only [mesonVersionPieces] at h
    cases hp : mesonVersionPiece p with
    | error e => simp [hp] at h
    | ok c =>
      cases hr : mesonVersionPieces rest with
      | error e => simp [hp, hr] at h
      | ok cs' =>
        simp [hp, hr] at h; subst h
        obtain ⟨hl, hi⟩ := ih cs' hr
        refine ⟨by simp [hl], ?_⟩
        intro i h1 h2
        cases i with
        | zero => simpa using hp
        | succ j => simpa using hi j (by simpa using h1) (by simpa using h2)

theorem mesonVersionPieces_error_iff (ps : List (List Char)) :
    mesonVersionPieces ps = .error .indexError ↔ ∃ p, p ∈ ps ∧ strip p = [] := by
  induction ps with
  | nil => simp [mesonVersionPieces]
  | cons p rest ih =>
    simp only [mesonVersionPieces]
    cases hs : strip p with
    | nil => simp [mesonVersionPiece, hs]
    | cons c r =>
      have : ∃ x, mesonVersionPiece p = .ok x := by
        unfold mesonVersionPiece; rw [hs]; simp only; split <;> exact ⟨_, rfl⟩
      obtain ⟨x, hx⟩ := this
      rw [hx]
      cases hr : mesonVersionPieces rest with
      | error e =>
        cases e
        have := ih.mp hr
        simp [hs]; exact this
      | ok cs =>
        simp [hs]
        intro q hq hsq
        have := ih.mpr ⟨q, hq, hsq⟩
        rw [hr] at this; cases this

end MesonModel.Cargo.Resolve
