/-
Model of `mesonbuild/cargo/version.py` (`split`, `_api_of`, `api`, `SemVer`, `cargo_parse`) and
`mesonbuild/cargo/cfg.py` (`lexer`, `_parse`, `parse`, `_eval_cfg`, `eval_cfg`).
Core Lean only (no Mathlib) so that the driver links as a native executable.
The model follows the code as it is, quirks included (see the comments marked QUIRK).
-/
import MesonModel.Py.Str
import MesonModel.Version.Model

namespace MesonModel.Cargo
open MesonModel.Py
open MesonModel.Version (lexCmp charCmp)

/-! ## version.py -/

/-- one element of `SemVer._v`: an `int` or a `str` -/
inductive Comp where
  | int (n : Int)
  | str (s : List Char)
  deriving DecidableEq, Repr

/-- the canonical operators `split()` yields -/
inductive Op where
  | ge | le | ne | tilde | eq | caret | gt | lt
  deriving DecidableEq, Repr

/-- `s.split(',')` -/
def splitOnChar (sep : Char) : List Char → List (List Char)
  | [] => [[]]
  | c :: cs =>
    if c == sep then [] :: splitOnChar sep cs
    else match splitOnChar sep cs with
      | [] => [[c]]   -- unreachable: the result is never empty
      | p :: ps => (c :: p) :: ps

def endsWith (s p : List Char) : Bool := p.reverse.isPrefixOf s.reverse

/-- the body of the `for ver in cargo_ver.split(',')` loop of `split()`; `none` = `continue` -/
def splitPiece (piece : List Char) : Option (Op × List Char) :=
  let ver := strip piece
  if ver = ['*'] then none
  else if startsWith ver ['>', '='] then some (.ge, lstrip (ver.drop 2))
  else if startsWith ver ['<', '='] then some (.le, lstrip (ver.drop 2))
  else if startsWith ver ['!', '='] then some (.ne, lstrip (ver.drop 2))
  else if startsWith ver ['~'] then some (.tilde, lstrip (ver.drop 1))
  else if startsWith ver ['='] then some (.eq, lstrip (ver.drop 1))
  else if startsWith ver ['^'] then some (.caret, lstrip (ver.drop 1))
  else if startsWith ver ['>'] then some (.gt, lstrip (ver.drop 1))
  else if startsWith ver ['<'] then some (.lt, lstrip (ver.drop 1))
  else if endsWith ver ['.', '*'] then some (.tilde, lstrip (ver.dropLast.dropLast))
  else some (.caret, ver)

/-- the comma separated pieces `split()` iterates over (none for a blank requirement) -/
def pieces (cargoVer : List Char) : List (List Char) :=
  let s := strip cargoVer
  if s = [] then [] else splitOnChar ',' s

/-- `list(split(cargo_ver))` -/
def split (cargoVer : List Char) : List (Op × List Char) :=
  (pieces cargoVer).filterMap splitPiece

/-- `[0-9A-Za-z-]` -/
def isIdentChar (c : Char) : Bool := isAlnum c || c == '-'
/-- `[A-Za-z-]` -/
def isIdentStart (c : Char) : Bool := isAlpha c || c == '-'

/-- the digit run the `finditer` scan is inside, if any (value already `int()`ed) -/
inductive Run where
  | none
  | digits (acc : Nat)

def flush : Run → List Nat
  | .none => []
  | .digits n => [n]

/-- The `_SEMVER_TOK_RE.finditer` loop of `SemVer.__init__` up to the token that ends it: returns the
digit-run values seen (group 1) and the text from the first identifier token on (group 2, at which
the loop reads the rest of the string and `break`s); a `+` (group 3) ends the loop with no
pre-release text. Everything else is skipped by `finditer`. -/
def scanCore : Run → List Char → List Nat × List Char
  | r, [] => (flush r, [])
  | r, c :: cs =>
    if isDigit c then
      match r with
      | .digits n => scanCore (.digits (n * 10 + digitVal c)) cs
      | .none => scanCore (.digits (digitVal c)) cs
    else if isIdentStart c then (flush r, c :: cs)
    else if c == '+' then (flush r, [])
    else
      let res := scanCore .none cs
      (flush r ++ res.1, res.2)

/-- `int(i) if i.isdecimal() else i` -/
def classify (i : List Char) : Comp :=
  if i.all isDigit then .int (Int.ofNat (natOfDigits i)) else .str i

/-- `pre = in_[m.start():].split('+', 1)[0]`, one leading `-` removed, split on `.`, empty fields
dropped, each field classified -/
def preIdents (s : List Char) : List Comp :=
  let pre := s.takeWhile (fun c => c != '+')
  let pre := if startsWith pre ['-'] then pre.drop 1 else pre
  ((splitOnChar '.' pre).filter (fun i => i ≠ [])).map classify

/-- `while len(vec) < n: vec.append(0)` -/
def padTo (n : Nat) (v : List Comp) : List Comp := v ++ List.replicate (n - v.length) (.int 0)

structure SemVer where
  v : List Comp
  count : Nat
  deriving DecidableEq, Repr

/-- `SemVer(in_: str)`: at most three numbers are kept (`specified_count`); a non-empty identifier
list adds the `-1` sentinel and the identifiers -/
def SemVer.parse (s : List Char) : SemVer :=
  let res := scanCore .none s
  let nums := (res.1.take 3).map (fun n => Comp.int (Int.ofNat n))
  let idents := preIdents res.2
  let vec := if idents = [] then nums else padTo 3 nums ++ .int (-1) :: idents
  ⟨padTo 4 vec, nums.length⟩

/-- `SemVer(in_: list)` -/
def SemVer.ofList (l : List Comp) : SemVer := ⟨padTo 4 l, min 3 l.length⟩

/-- `has_prerelease`: `self._v[3] == -1` -/
def SemVer.hasPre (x : SemVer) : Bool := x.v[3]? == some (.int (-1))

/-- one position of `__cmp`: int below str; ints numerically; strs by code point -/
def compCmp : Comp → Comp → Ordering
  | .int a, .int b => compare a b
  | .str a, .str b => lexCmp charCmp a b
  | .int _, .str _ => .lt
  | .str _, .int _ => .gt

/-- `__cmp`: walk `zip`, at the first differing position the comparator decides, else the lengths -/
def vcmp (a b : List Comp) : Ordering := lexCmp compCmp a b

def vlt (a b : List Comp) : Bool := vcmp a b == .lt
def vgt (a b : List Comp) : Bool := vcmp a b == .gt
def vle (a b : List Comp) : Bool := vcmp a b != .gt
def vge (a b : List Comp) : Bool := vcmp a b != .lt
/-- `__eq__`/`__ne__` are list equality of `_v` -/
def veq (a b : List Comp) : Bool := decide (a = b)
def vne (a b : List Comp) : Bool := !veq a b

def compInt : Comp → Int
  | .int n => n
  | .str _ => 0    -- unreachable (`assert isinstance(last, int)`): the first three slots are ints

/-- `next_ver(bump_idx)` with `bump_idx = k`, `k ∈ {0,1,2}` -/
def nextVer (v : List Comp) (k : Nat) : SemVer :=
  let a := compInt (v.getD 0 (.int 0)); let b := compInt (v.getD 1 (.int 0)); let c := compInt (v.getD 2 (.int 0))
  match k with
  | 0 => .ofList [.int (a + 1), .int 0, .int 0]
  | 1 => .ofList [.int a, .int (b + 1), .int 0]
  | _ => .ofList [.int a, .int b, .int (c + 1)]

/-- `next_ver(specified_count - 1)`.
QUIRK: for `specified_count = 0` the index is `-1`: Python bumps the patch slot and then
`range(0, 3)` zeroes all three slots. -/
def nextVerLast (x : SemVer) : SemVer :=
  match x.count with
  | 0 => .ofList [.int 0, .int 0, .int 0]
  | k + 1 => nextVer x.v k

/-- the `operator.*` functions stored in `out` -/
inductive Rel where
  | lt | le | gt | ge | eq | ne
  deriving DecidableEq, Repr

def Rel.holds : Rel → List Comp → List Comp → Bool
  | .lt, a, b => vlt a b
  | .le, a, b => vle a b
  | .gt, a, b => vgt a b
  | .ge, a, b => vge a b
  | .eq, a, b => veq a b
  | .ne, a, b => vne a b

/-- the leftmost non-zero of the first three slots, else 0 (`for … else` of the caret branch) -/
def caretIdx (v : List Comp) : Nat :=
  if v.getD 0 (.int 0) ≠ .int 0 then 0
  else if v.getD 1 (.int 0) ≠ .int 0 then 1
  else if v.getD 2 (.int 0) ≠ .int 0 then 2
  else 0

/-- what one `(op, ver)` pair appends to `out` -/
def constraintsOf (op : Op) (x : SemVer) : List (Rel × List Comp) :=
  match op with
  | .le => [(.lt, (nextVerLast x).v)]
  | .tilde => [(.ge, x.v), (.lt, (nextVer x.v (if x.count ≥ 2 then 1 else 0)).v)]
  | .caret => [(.ge, x.v), (.lt, (nextVer x.v (caretIdx x.v)).v)]
  | .ge => [(.ge, x.v)]
  | .ne => [(.ne, x.v)]
  | .eq => [(.eq, x.v)]
  | .gt => [(.gt, x.v)]
  | .lt => [(.lt, x.v)]

/-- the closure `compare(ver)` for a non-empty `out` -/
def compareWith (out : List (Rel × List Comp)) (accept : Bool) (lhs : SemVer) : Bool :=
  if lhs.hasPre && !accept then false
  else out.all (fun c => c.1.holds lhs.v c.2)

/-- `cargo_parse` on an already split requirement -/
def matchSplit (cs : List (Op × List Char)) (ver : List Char) : Bool :=
  let svs := cs.map (fun c => (c.1, SemVer.parse c.2))
  let out := svs.flatMap (fun c => constraintsOf c.1 c.2)
  let accept := svs.any (fun c => c.2.hasPre)
  -- with no constraint at all: `lambda v: not SemVer(v).has_prerelease`
  if out.isEmpty then !(SemVer.parse ver).hasPre else compareWith out accept (SemVer.parse ver)

/-- `cargo_parse(cargo_ver)(ver)` -/
def cargoParse (cargoVer ver : List Char) : Bool := matchSplit (split cargoVer) ver

/-! ### `api` -/

/-- Python `int(s)` for base 10 on the ASCII range: surrounding whitespace, optional sign, digits
with single underscores between digits. `none` = `ValueError`. -/
def pyIntDigits : List Char → Bool → Option Nat → Option Nat
  | [], prevUnderscore, acc => if prevUnderscore then none else acc
  | c :: cs, prevUnderscore, acc =>
    if isDigit c then pyIntDigits cs false (some ((acc.getD 0) * 10 + digitVal c))
    else if c == '_' then
      (if prevUnderscore || acc.isNone then none else pyIntDigits cs true acc)
    else none

/-- the whitespace `int()` strips: TAB LF VT FF CR SPACE (not FS GS RS US, unlike `str.strip`) -/
def isIntSpace (c : Char) : Bool := (9 ≤ c.toNat && c.toNat ≤ 13) || c.toNat == 32

def pyInt (s : List Char) : Option Int :=
  match ((s.dropWhile isIntSpace).reverse.dropWhile isIntSpace).reverse with
  | '-' :: r => (pyIntDigits r false none).map (fun n => - (n : Int))
  | '+' :: r => (pyIntDigits r false none).map (fun n => (n : Int))
  | r => (pyIntDigits r false none).map (fun n => (n : Int))

inductive ApiErr where
  | valueError | mesonException
  deriving DecidableEq, Repr

/-- `_api_of` -/
def apiOf (version : List Char) : Except ApiErr (List Char) :=
  let vers := splitOnChar '.' version
  let v0 := vers.getD 0 []
  if v0 = [] then .ok v0
  else match pyInt v0 with
    | none => .error .valueError
    | some n0 =>
      if n0 ≠ 0 then .ok v0
      else if vers.length ≥ 2 then
        let v1 := vers.getD 1 []
        match pyInt v1 with
        | none => .error .valueError
        | some n1 => if n1 ≠ 0 then .ok (['0', '.'] ++ v1) else .ok ['0']
      else .ok ['0']

def apiGo : List (Op × List Char) → List (List Char) → Except ApiErr (List (List Char))
  | [], acc => .ok acc
  | (op, ver) :: rest, acc =>
    if op = .ge || op = .eq || op = .caret || op = .tilde then
      match apiOf ver with
      | .error e => .error e
      | .ok a => apiGo rest (if acc.contains a then acc else acc ++ [a])
    else apiGo rest acc

/-- `api(cargo_ver)` -/
def api (cargoVer : List Char) : Except ApiErr (List Char) :=
  match apiGo (split cargoVer) [] with
  | .error e => .error e
  | .ok [] => .ok []
  | .ok [a] => .ok a
  | .ok _ => .error .mesonException

/-! ## cfg.py -/

inductive Token where
  | lparen | rparen
  | str (s : List Char)
  | ident (s : List Char)
  | all | any | not | comma | equal
  deriving DecidableEq, Repr

def isSepChar (c : Char) : Bool :=
  isSpace c || c == ')' || c == '(' || c == ',' || c == '=' || c == '"'

/-- the keyword / identifier token for the text collected before a separator -/
def wordTok (v : List Char) : List Token :=
  if v = ['a', 'n', 'y'] then [.any]
  else if v = ['a', 'l', 'l'] then [.all]
  else if v = ['n', 'o', 't'] then [.not]
  else if v ≠ [] then [.ident v]
  else []

def sepTok (c : Char) : List Token :=
  if c == '(' then [.lparen]
  else if c == ')' then [.rparen]
  else if c == ',' then [.comma]
  else if c == '=' then [.equal]
  else []

/-- what iterating `lexer(raw)` to the end produces: the tokens yielded, and whether the generator
then raised `MesonException('unterminated string in cfg expression')` -/
structure LexResult where
  toks : List Token
  unterminated : Bool
  deriving DecidableEq, Repr

def LexResult.pre (ts : List Token) (r : LexResult) : LexResult := ⟨ts ++ r.toks, r.unterminated⟩

/-- `lexer(raw)`: `val` is `raw[start:i]` reversed; `lit = some l` while the scan is inside a string
literal (`i < start`), `l` being the literal text so far, reversed. `raw.find('"', start)` is the
first `"` met in that state; reaching the end in it is the unterminated case. -/
def lexGo (val : List Char) (lit : Option (List Char)) : List Char → LexResult
  | [] =>
    match lit with
    | some _ => ⟨[], true⟩
    | none => ⟨if val ≠ [] then [.ident val.reverse] else [], false⟩
  | c :: cs =>
    match lit with
    | some l =>
      if c == '"' then (lexGo [] none cs).pre [.str l.reverse]
      else lexGo val (some (c :: l)) cs
    | none =>
      if isSepChar c then
        (lexGo [] (if c == '"' then some [] else none) cs).pre (wordTok val.reverse ++ sepTok c)
      else lexGo (c :: val) none cs

def lexer (raw : List Char) : LexResult := lexGo [] none raw

/-- the dataclasses `Identifier`, `Equal(Identifier, String)`, `Any`, `All`, `Not` -/
inductive IR where
  | ident (name : List Char)
  | equal (name : List Char) (value : List Char)
  | any (args : List IR)
  | all (args : List IR)
  | not (arg : IR)

/-- which `MesonException` is raised (the message), or the `assert` on an empty identifier -/
inductive PErr where
  | expectedString      -- 'expected string'
  | expectedLParen      -- 'expected "("'
  | expectedRParenComma -- 'expected ")" or ","'
  | expectedRParen      -- 'expected ")"'
  | unhandled           -- 'Unhandled Cargo token'
  | malformed           -- StopIteration => 'malformed cfg expression'
  | trailing            -- 'trailing text after cfg expression'
  | unterminated        -- the lexer's 'unterminated string in cfg expression' (see `parseLexed`)
  | assertion           -- AssertionError (`assert value`), not reachable from `lexer`
  | fuel                -- model artefact: never produced with the fuel `parse` supplies
  deriving DecidableEq, Repr

/-- the `any`/`all` branch of `_parse` after the keyword; `pa` runs the `while True:` argument loop -/
def parseCallWith (pa : List Token → Except PErr (List IR × List Token)) :
    Bool → List Token → Except PErr (IR × List Token)
  | _, [] => .error .malformed
  | isAny, .lparen :: rest =>
    match rest with
    | .rparen :: rest2 => .ok (if isAny then .any [] else .all [], rest2)
    | _ =>
      match pa rest with
      | .error e => .error e
      | .ok (args, rest2) => .ok (if isAny then .any args else .all args, rest2)
  | _, _ :: _ => .error .expectedLParen

mutual
/-- `_parse(ast)` over a token list: returns the expression and the unread tokens -/
def parseE : Nat → List Token → Except PErr (IR × List Token)
  | 0, _ => .error .fuel
  | _ + 1, [] => .error .malformed
  | fuel + 1, tok :: rest =>
    match tok with
    | .ident value =>
      if value = [] then .error .assertion
      else match rest with
        | .equal :: rest2 =>
          match rest2 with
          | [] => .error .malformed
          | .str s :: rest3 => .ok (.equal value s, rest3)
          | _ :: _ => .error .expectedString
        | _ => .ok (.ident value, rest)
    | .any => parseCallWith (fun ts => parseArgs fuel ts) true rest
    | .all => parseCallWith (fun ts => parseArgs fuel ts) false rest
    | .not =>
      match rest with
      | [] => .error .malformed
      | .lparen :: rest2 =>
        match parseE fuel rest2 with
        | .error e => .error e
        | .ok (arg, rest3) =>
          match rest3 with
          | [] => .error .malformed
          | .rparen :: rest4 => .ok (.not arg, rest4)
          | _ :: _ => .error .expectedRParen
      | _ :: _ => .error .expectedLParen
    | _ => .error .unhandled
/-- the `while True:` argument loop -/
def parseArgs : Nat → List Token → Except PErr (List IR × List Token)
  | 0, _ => .error .fuel
  | fuel + 1, ts =>
    match parseE fuel ts with
    | .error e => .error e
    | .ok (a, rest) =>
      match rest with
      | [] => .error .malformed
      | .rparen :: rest2 => .ok ([a], rest2)
      | .comma :: rest2 =>
        match parseArgs fuel rest2 with
        | .error e => .error e
        | .ok (as, rest3) => .ok (a :: as, rest3)
      | _ :: _ => .error .expectedRParenComma
end

/-- `parse(ast)` -/
def parse (ts : List Token) : Except PErr IR :=
  match parseE (ts.length + 1) ts with
  | .error e => .error e
  | .ok (e, []) => .ok e
  | .ok (_, _ :: _) => .error .trailing

abbrev Cfgs := List (List Char × List Char)

mutual
/-- `_eval_cfg(ir, cfgs)`; `cfgs` is the dict as an association list with distinct keys -/
def evalIR (cfgs : Cfgs) : IR → Bool
  | .ident n => cfgs.any (fun kv => kv.1 == n)
  | .equal n v => cfgs.lookup n == some v
  | .not e => !evalIR cfgs e
  | .any args => evalAny cfgs args
  | .all args => evalAll cfgs args
def evalAny (cfgs : Cfgs) : List IR → Bool
  | [] => false
  | e :: es => evalIR cfgs e || evalAny cfgs es
def evalAll (cfgs : Cfgs) : List IR → Bool
  | [] => true
  | e :: es => evalIR cfgs e && evalAll cfgs es
end

/-- `parse(lexer(raw))`. The lexer is a generator: when it ends in the unterminated-string error the
parser always fails with a `MesonException` — that error, or an earlier syntax error of the token
prefix, depending on how far the one-token lookahead got. The model does not distinguish the two
messages and reports `unterminated`. -/
def parseLexed (r : LexResult) : Except PErr IR :=
  if r.unterminated then .error .unterminated else parse r.toks

/-- `eval_cfg(raw, cfgs)` -/
def evalCfg (raw : List Char) (cfgs : Cfgs) : Except PErr Bool :=
  if startsWith raw ['c', 'f', 'g', '('] && endsWith raw [')'] then
    match parseLexed (lexer ((raw.drop 4).dropLast)) with
    | .error e => .error e
    | .ok ir => .ok (evalIR cfgs ir)
  else .ok false

end MesonModel.Cargo
