/-
Model of the consumers of the matcher / of `cfg()` in `mesonbuild/cargo/manifest.py` and
`mesonbuild/cargo/interpreter.py` that work on values (no object state):

* `CargoLock._versions` / `CargoLock.named` (group by name, `sort(reverse=True, key=SemVer)`),
  `Interpreter._resolve_package` (first accepted in that order), `Interpreter.resolve_package`
  (the api string read as a requirement), the registry branch of `Interpreter._dep_package`
  (pin the requirement to `=<lock version>`, then ask for `PackageKey(name, dep.api)`);
* the loop of `Interpreter._prepare_package` that merges `[target.'<condition>'.dependencies]`
  into `manifest.dependencies` (`condition == triple or eval_cfg(condition, cfgs)`, `dict.update`);
* `SystemDependency.meson_version` (system-deps version text → meson version constraints, which
  `dependency(version: …)` then checks with `version_compare_many`, the C19 order).

Core Lean only.
-/
import MesonModel.Cargo.Model
import MesonModel.Version.Model

namespace MesonModel.Cargo.Resolve
open MesonModel.Py MesonModel.Cargo

/-! ## Cargo.lock resolution -/

/-- `CargoLockPackage`: the two fields resolution reads -/
structure LockPkg where
  name : List Char
  version : List Char
  deriving DecidableEq, Repr

/-- the sort key `version.SemVer(pkg.version)` (its `_v`) -/
def key (p : LockPkg) : List Comp := (SemVer.parse p.version).v

/-- position of `p` in a descending list; `p` came *before* the elements of the list in the
original order, so among equal keys it stays first (`list.sort` is stable, also with `reverse=True`) -/
def insertDesc (p : LockPkg) : List LockPkg → List LockPkg
  | [] => [p]
  | q :: qs => if vlt (key p) (key q) then q :: insertDesc p qs else p :: q :: qs

/-- `pkg_versions.sort(reverse=True, key=lambda pkg: version.SemVer(pkg.version))` -/
def sortDesc : List LockPkg → List LockPkg
  | [] => []
  | p :: ps => insertDesc p (sortDesc ps)

/-- `CargoLock.named(name)`: `_versions[name]` (a `defaultdict(list)`: `[]` for an unknown name) -/
def named (lock : List LockPkg) (name : List Char) : List LockPkg :=
  sortDesc (lock.filter (fun p => p.name = name))

/-- `Interpreter._resolve_package(package_name, accepts_version)`; `none` lock = no Cargo.lock -/
def resolveWith (lock : Option (List LockPkg)) (name : List Char) (accepts : List Char → Bool) :
    Option LockPkg :=
  match lock with
  | none => none
  | some l => (named l name).find? (fun p => accepts p.version)

/-- `Interpreter.resolve_package(package_name, api)` up to the `_fetch_package` call: the api the
package is then fetched under (`version.api(cargo_pkg.version)`) -/
def resolvePackageApi (lock : Option (List LockPkg)) (name apiStr : List Char) :
    Option (Except ApiErr (List Char)) :=
  (resolveWith lock name (cargoParse apiStr)).map (fun p => api p.version)

/-- registry branch of `Interpreter._dep_package`: `dep.update_version('=' + lock version)` when
Cargo.lock has an accepted version; returns the requirement afterwards and the api
`_fetch_package(dep.package, dep.api)` is asked for -/
def depPin (lock : Option (List LockPkg)) (pkg req : List Char) :
    List Char × Except ApiErr (List Char) :=
  let req' := match resolveWith lock pkg (cargoParse req) with
    | some p => '=' :: p.version
    | none => req
  (req', api req')

/-! ## `[target.'<condition>'.dependencies]` -/

/-- `manifest.dependencies`: name ↦ dependency (here: its requirement text), insertion ordered -/
abbrev Deps := List (List Char × List Char)

/-- `d[k] = v` on an insertion-ordered dict -/
def dictSet (d : Deps) (k v : List Char) : Deps :=
  if d.any (fun kv => kv.1 == k) then d.map (fun kv => if kv.1 == k then (k, v) else kv)
  else d ++ [(k, v)]

/-- `d.update(e)` -/
def dictUpdate (d e : Deps) : Deps := e.foldl (fun acc kv => dictSet acc kv.1 kv.2) d

/-- the test of the loop: `condition == rustc.get_target_triple() or eval_cfg(condition, target_cfgs)`;
`eval_cfg` may raise -/
def conditionHolds (triple : List Char) (cfgs : Cfgs) (cond : List Char) : Except PErr Bool :=
  if cond = triple then .ok true else evalCfg cond cfgs

/-- `for condition, dependencies in pkg.manifest.target.items(): if …: pkg.manifest.dependencies.update(dependencies)` -/
def mergeTargets (triple : List Char) (cfgs : Cfgs) : Deps → List (List Char × Deps) → Except PErr Deps
  | deps, [] => .ok deps
  | deps, (cond, ds) :: rest =>
    match conditionHolds triple cfgs cond with
    | .error e => .error e
    | .ok true => mergeTargets triple cfgs (dictUpdate deps ds) rest
    | .ok false => mergeTargets triple cfgs deps rest

/-- `_prepare_package` is run once per machine on the SAME manifest object (`dependencies.update`
is in place): a history of calls, each with that machine's triple and cfg table -/
def mergeHistory : Deps → List (List Char × Deps) → List (List Char × Cfgs) → Except PErr (List Deps)
  | _, _, [] => .ok []
  | deps, targets, (triple, cfgs) :: calls =>
    match mergeTargets triple cfgs deps targets with
    | .error e => .error e
    | .ok d =>
      match mergeHistory d targets calls with
      | .error e => .error e
      | .ok ds => .ok (d :: ds)

/-! ## `SystemDependency.meson_version` -/

inductive MvErr where
  | indexError      -- `v[0]` on an empty piece
  deriving DecidableEq, Repr

def isCmpStart (c : Char) : Bool := c == '>' || c == '<' || c == '='

/-- the loop body: `v = v.strip(); if v[0] not in '><=': v = f'>={v}'` -/
def mesonVersionPiece (piece : List Char) : Except MvErr (List Char) :=
  match strip piece with
  | [] => .error .indexError
  | c :: r => if isCmpStart c then .ok (c :: r) else .ok ('>' :: '=' :: c :: r)

def mesonVersionPieces : List (List Char) → Except MvErr (List (List Char))
  | [] => .ok []
  | p :: ps =>
    match mesonVersionPiece p with
    | .error e => .error e
    | .ok c =>
      match mesonVersionPieces ps with
      | .error e => .error e
      | .ok cs => .ok (c :: cs)

/-- `SystemDependency.meson_version` -/
def mesonVersion (version : List Char) : Except MvErr (List (List Char)) :=
  if version = [] then .ok [] else mesonVersionPieces (splitOnChar ',' version)

/-- `dependency(name, version: sys_dep.meson_version)` accepts a found version `v` -/
def systemDepAccepts (version v : List Char) : Except MvErr Bool :=
  match mesonVersion version with
  | .error e => .error e
  | .ok cs => .ok (MesonModel.Version.versionCompareMany v cs).1

end MesonModel.Cargo.Resolve
