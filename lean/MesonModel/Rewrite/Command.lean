import MesonModel.Rewrite.Splice
/-
C17 — ONE whole rewriter command end to end on the AST + printer model: `kwargs set` / `kwargs delete` on a function
call (`Rewriter.process_kwargs`, mesonbuild/rewriter.py) followed by `apply_changes` for the one modified node.

  kwargs = {k.value: v for k, v in arg_node.kwargs.items()}          -- `kwDictOf`
  for key, val in sorted(cmd['kwargs'].items()):                      -- `sortKvs`, `editDict`
      delete:  if key not in kwargs: continue ; del kwargs[key]
      set:     kwargs[key] = kwargs_def[key].new_node(val)            -- `NewVal.node` (nodes built by code: level 0)
      num_changed += 1
  arg_node.kwargs = {IdNode(k): v for k, v in kwargs.items()} ; k.level = v.level      -- `rebuild`
  if num_changed > 0: modified_nodes += [node]                        -- `editCall` answers `none` otherwise

`applyKw` then hands the edited node to the model of `apply_changes` (Splice.lean): the text of the node's span is
replaced by `newData` of the edited node; everything else in the file is what it was.
-/
namespace MesonModel.Rewrite

/-- the value of a `kwargs set`, by the modifier class of the keyword (`rewriter_func_kwargs`) -/
inductive NewVal where
  /-- `MTypeStr.new_node` (also `MTypeStrList.new_node` for a value that is not a list) -/
  | str (v : List Char)
  /-- `MTypeBool.new_node` -/
  | bool (b : Bool)
  /-- `MTypeStrList.new_node` for a list -/
  | strList (vs : List (List Char))
  /-- `MTypeIDList.new_node` for a list -/
  | idList (vs : List (List Char))
  /-- `MTypeIDList.new_node` for a value that is not a list -/
  | ident (v : List Char)
  deriving Repr

def itemsOfList : List Expr → Items
  | [] => .nil
  | e :: r => .pos e (itemsOfList r)

/-- the node `new_node(val)` builds; every `BaseNode` made by code keeps `level = 0` -/
def NewVal.node : NewVal → Expr
  | .str v => .str 0 v false false
  | .bool b => .bool 0 b
  | .strList vs => .arr 0 0 (itemsOfList (vs.map (fun v => .str 0 v false false)))
  | .idList vs => .arr 0 0 (itemsOfList (vs.map (fun v => .id 0 v)))
  | .ident v => .id 0 v

/-- a Python `dict` with string keys: insertion-ordered association list with unique keys -/
abbrev KwDict := List (List Char × Expr)

def dictHas : KwDict → List Char → Bool
  | [], _ => false
  | p :: t, k => p.1 == k || dictHas t k

def dictReplace : KwDict → List Char → Expr → KwDict
  | [], _, _ => []
  | p :: t, k, v => if p.1 == k then (k, v) :: dictReplace t k v else p :: dictReplace t k v

/-- `d[k] = v`: an existing key keeps its place, a new key goes to the end -/
def dictSet (d : KwDict) (k : List Char) (v : Expr) : KwDict :=
  if dictHas d k then dictReplace d k v else d ++ [(k, v)]

/-- `del d[k]` -/
def dictDel : KwDict → List Char → KwDict
  | [], _ => []
  | p :: t, k => if p.1 == k then dictDel t k else p :: dictDel t k

/-- `d.get(k)` -/
def dictGet : KwDict → List Char → Option Expr
  | [], _ => none
  | p :: t, k => if p.1 == k then some p.2 else dictGet t k

/-- `T.cast(IdNode, k).value` -/
def keyName : Expr → List Char
  | .id _ n => n
  | .str _ v _ _ => v
  | _ => []

def Items.posPart : Items → List Expr
  | .nil => []
  | .pos e r => e :: r.posPart
  | .kw _ _ r => r.posPart

def Items.kwPart : Items → List (Expr × Expr)
  | .nil => []
  | .pos _ r => r.kwPart
  | .kw k v r => (k, v) :: r.kwPart

/-- `{k.value: v for k, v in arg_node.kwargs.items()}` -/
def kwDictOf (items : Items) : KwDict := items.kwPart.foldl (fun d kv => dictSet d (keyName kv.1) kv.2) []

def kwItems : KwDict → Items
  | [] => .nil
  | (k, v) :: r => .kw (.id v.lvl k) v (kwItems r)

def Items.append : Items → Items → Items
  | .nil, b => b
  | .pos e r, b => .pos e (r.append b)
  | .kw k v r, b => .kw k v (r.append b)

/-- `arg_node.arguments` untouched; `arg_node.kwargs = {IdNode(k): v …}` with `k.level = v.level` -/
def rebuild (items : Items) (d : KwDict) : Items := (itemsOfList items.posPart).append (kwItems d)

/-- Python `str <` (code point order) -/
def strLt : List Char → List Char → Bool
  | [], [] => false
  | [], _ :: _ => true
  | _ :: _, [] => false
  | a :: as, b :: bs => if a.toNat < b.toNat then true else if b.toNat < a.toNat then false else strLt as bs

def insertKv (kv : List Char × NewVal) : List (List Char × NewVal) → List (List Char × NewVal)
  | [] => [kv]
  | x :: xs => if strLt kv.1 x.1 then kv :: x :: xs else x :: insertKv kv xs

/-- `sorted(cmd['kwargs'].items())` (keys of a JSON object are distinct) -/
def sortKvs : List (List Char × NewVal) → List (List Char × NewVal)
  | [] => []
  | kv :: r => insertKv kv (sortKvs r)

structure KwCmd where
  /-- `operation == 'delete'` (otherwise `set`) -/
  delete : Bool
  kvs : List (List Char × NewVal)
  deriving Repr

/-- the loop over the requested keys: (dict, num_changed) -/
def editDict (delete : Bool) : List (List Char × NewVal) → KwDict → Nat → KwDict × Nat
  | [], d, n => (d, n)
  | (k, v) :: r, d, n =>
    if delete then
      if dictHas d k then editDict delete r (dictDel d k) (n + 1) else editDict delete r d n
    else editDict delete r (dictSet d k v.node) (n + 1)

/-- the keyword dictionary the command leaves -/
def editedDict (cmd : KwCmd) (items : Items) : KwDict :=
  (editDict cmd.delete (sortKvs cmd.kvs) (kwDictOf items) 0).1

/-- `process_kwargs` on the call node: `none` when nothing was changed (the node is not queued) or the node is no call -/
def editCall (cmd : KwCmd) : Expr → Option Expr
  | .call lvl fn alvl items =>
    let (d, n) := editDict cmd.delete (sortKvs cmd.kvs) (kwDictOf items) 0
    if n = 0 then none else some (.call lvl fn alvl (rebuild items d))
  | _ => none

/-- the whole command on the text of one build file: `raw` is the file, `sp` the extents of the addressed call node,
`node` that node as parsed -/
def applyKw (raw : List Char) (sp : Span) (node : Expr) (cmd : KwCmd) : Except Err (List Char) :=
  match editCall cmd node with
  | none => .ok raw
  | some node' => applyChanges raw [⟨.modify, sp, .arrOrFunc, node'⟩] [] []

/-- what the command is specified to do with the keyword dictionary (one key) -/
def Items.kwValue (items : Items) (k : List Char) : Option Expr := dictGet (kwDictOf items) k

def Expr.callItems : Expr → Items
  | .call _ _ _ items => items
  | _ => .nil

end MesonModel.Rewrite
