import MesonModel.Rewrite.Parse
/-
C17 — the full operator table of "does this operand need parentheses, and does the printer emit them":
every binary operator (arithmetic, comparison, in / not in, and / or) on either side, plus the operand of
`not`, unary minus, a method call, an index, and the condition of a ternary — against every inner construct
(every binary operator, `not`, unary minus, a ternary). The trees here carry NO `ParenthesizedNode`: this is
the shape of nodes the rewriter builds itself, where the printer alone decides about parentheses.
-/
namespace MesonModel.Rewrite
open MesonModel.Generated

inductive BinOp where
  | add | sub | mul | div | mod | eq | ne | lt | le | gt | ge | isin | notin | and_ | or_
  deriving DecidableEq, Repr

def BinOp.all : List BinOp :=
  [.add, .sub, .mul, .div, .mod, .eq, .ne, .lt, .le, .gt, .ge, .isin, .notin, .and_, .or_]

def BinOp.isArith : BinOp → Bool
  | .add | .sub | .mul | .div | .mod => true
  | _ => false

def BinOp.isCmp : BinOp → Bool
  | .eq | .ne | .lt | .le | .gt | .ge | .isin | .notin => true
  | _ => false

def BinOp.text : BinOp → List Char
  | .add => ['+'] | .sub => ['-'] | .mul => ['*'] | .div => ['/'] | .mod => ['%']
  | .eq => ['=', '='] | .ne => ['!', '='] | .lt => ['<'] | .le => ['<', '='] | .gt => ['>'] | .ge => ['>', '=']
  | .isin => ['i', 'n'] | .notin => ['n', 'o', 't', ' ', 'i', 'n'] | .and_ => ['a', 'n', 'd'] | .or_ => ['o', 'r']

/-- the node the parser builds for `l op r` -/
def BinOp.mk (o : BinOp) (l r : Expr) : Expr :=
  if o.isArith then .arith 0 o.text o.text l r
  else if o.isCmp then .cmp 0 o.text l r
  else if o = .and_ then .and 0 l r else .or 0 l r

/-- `precedence_level` of the node -/
def BinOp.level (o : BinOp) : Nat := precLevel (o.mk .empty .empty)

inductive Inner where
  | bin (o : BinOp) | not_ | neg | tern
  deriving DecidableEq, Repr

def Inner.all : List Inner := BinOp.all.map .bin ++ [.not_, .neg, .tern]

inductive Slot where
  | left (o : BinOp) | right (o : BinOp) | notArg | negArg | methodObj | indexObj | ternCond
  deriving DecidableEq, Repr

def Slot.all : List Slot :=
  BinOp.all.map .left ++ BinOp.all.map .right ++ [.notArg, .negArg, .methodObj, .indexObj, .ternCond]

def ida : Expr := .id 0 ['a']
def idb : Expr := .id 0 ['b']
def idc : Expr := .id 0 ['c']

def Inner.tree : Inner → Expr
  | .bin o => o.mk idb idc
  | .not_ => .not 0 idb
  | .neg => .uminus 0 idb
  | .tern => .ternary 0 idb idc ida

def Inner.level (i : Inner) : Nat := precLevel i.tree

def Slot.place : Slot → Expr → Expr
  | .left o, e => o.mk e ida
  | .right o, e => o.mk ida e
  | .notArg, e => .not 0 e
  | .negArg, e => .uminus 0 e
  | .methodObj, e => .method 0 e ['m'] 0 .nil
  | .indexObj, e => .index 0 e ida
  | .ternCond, e => .ternary 0 e ida ida

/-- the lowest `precedence_level` the grammar (`Parser.e1 … e9`) reads in that position without parentheses:
binary operators are left-associative (the left operand may be of the same level, the right one must bind tighter),
comparisons do not chain, `not` / unary minus / a method call / an index take an `e8` operand, the condition of a
ternary an `e2` -/
def Slot.required : Slot → Nat
  | .left o => if o.isCmp then o.level + 1 else o.level
  | .right o => o.level + 1
  | .notArg | .negArg | .methodObj | .indexObj => PrecTable.call
  | .ternCond => PrecTable.orNode

/-- the table: an operand of that shape in that position must be parenthesised to be read back as the same tree -/
def needsParens (s : Slot) (i : Inner) : Bool := decide (i.level < s.required)

/-- what `AstPrinter` does for an operand that is not written in parentheses: `maybe_parentheses` is only called for the
two operands of an `ArithmeticNode` -/
def emitsParens (s : Slot) (i : Inner) : Bool :=
  match s with
  | .left o => o.isArith && parensLeft o.text i.tree
  | .right o => o.isArith && parensRight o.text i.tree
  | _ => false

/-- the printed text is read back (own lexer + parser) as the same tree -/
def readsBack (e : Expr) : Bool :=
  match parseText (astPrint e) with
  | some p => p.erase == e.erase
  | none => false

/-- positions × operands where the printer leaves out parentheses the grammar needs -/
def missingParens : List (Slot × Inner) :=
  Slot.all.flatMap (fun s => (Inner.all.filter (fun i => needsParens s i && !emitsParens s i)).map (fun i => (s, i)))

end MesonModel.Rewrite
