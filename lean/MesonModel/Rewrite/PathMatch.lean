/-
C17 — which source string `rm_src_or_extra.find_node` takes for a requested file
(`mesonbuild/rewriter.py:827-841`): for every candidate node `i` (reachable from the target's sources) with
`relto = get_relto(target.node, i)` — the directory of the meson.build holding the list when it is a
`files(...)` call, the directory of the consuming target for plain strings — and every `StringNode j` of it:
`os.path.normpath(relto / j.value) == os.path.normpath(source_root_abs / src)`.
`normpath` is `posixpath.normpath`; `/` is `pathlib` joining (an absolute right operand replaces the left).
-/
namespace MesonModel.Rewrite

/-- `path.split('/')` -/
def splitSlash : List Char → List (List Char)
  | [] => [[]]
  | c :: t =>
    if c = '/' then [] :: splitSlash t
    else match splitSlash t with
      | [] => [[c]]
      | h :: r => (c :: h) :: r

def dotdot : List Char := ['.', '.']

/-- the loop of `posixpath.normpath` over the components; `acc` is `new_comps` reversed -/
def normComps (absolute : Bool) : List (List Char) → List (List Char) → List (List Char)
  | acc, [] => acc.reverse
  | acc, comp :: rest =>
    if comp = [] || comp = ['.'] then normComps absolute acc rest
    else if comp ≠ dotdot || (!absolute && acc.isEmpty) || (acc.head? = some dotdot) then normComps absolute (comp :: acc) rest
    else match acc with
      | _ :: acc' => normComps absolute acc' rest
      | [] => normComps absolute acc rest

def joinSlash : List (List Char) → List Char
  | [] => []
  | [c] => c
  | c :: rest => c ++ '/' :: joinSlash rest

/-- `posixpath.normpath` -/
def normpath (p : List Char) : List Char :=
  if p = [] then ['.'] else
  let slashes : Nat :=
    match p with
    | '/' :: '/' :: '/' :: _ => 1
    | '/' :: '/' :: _ => 2
    | '/' :: _ => 1
    | _ => 0
  let body := joinSlash (normComps (slashes != 0) [] (splitSlash p))
  let res := List.replicate slashes '/' ++ body
  if res = [] then ['.'] else res

/-- `PurePosixPath(a) / b` as a string -/
def joinPath (a b : List Char) : List Char :=
  if b.head? = some '/' then b else if a = [] then b else a ++ '/' :: b

/-- the test of `find_node` for one string of one candidate list -/
def stringMatches (relto s root req : List Char) : Bool :=
  normpath (joinPath relto s) == normpath (joinPath root req)

structure Cand where
  relto : List Char
  strings : List (List Char)

/-- indices of the strings of a candidate that `find_node` accepts for `req` -/
def candMatches (root req : List Char) (c : Cand) : List Nat :=
  (c.strings.zipIdx).filterMap (fun (s, j) => if stringMatches c.relto s root req then some j else none)

/-- all (candidate, string) positions `find_node` may return for `req` (it returns the first one in the
iteration order of a Python set, i.e. any of them) -/
def findNodeMatches (root req : List Char) (cands : List Cand) : List (Nat × Nat) :=
  (cands.zipIdx).flatMap (fun (c, i) => (candMatches root req c).map (fun j => (i, j)))

end MesonModel.Rewrite
