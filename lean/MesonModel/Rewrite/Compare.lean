import MesonModel.Rewrite.Tree
/-
C17 — "every other argument of a re-printed statement is structurally the same tree".

`sameExcept` compares the statement before and after a rewriter command on ERASED trees
(`Expr.erase`: no positions / levels / explicit parentheses; string values, identifiers, operators,
grouping and argument order kept). The only tolerated differences are the ones the command asked for:
* `keys`: keyword arguments of the addressed call (top level, or the value of a top-level assignment);
* `cmdFiles`: positional string arguments that are source files (`uni`) may be re-ordered (the
  rewriter sorts them) and may gain / lose exactly the files named in the command; positional strings
  that are not source files and all non-string members keep their relative order.
-/
namespace MesonModel.Rewrite

def Items.posStrings : Items → List (List Char)
  | .nil => []
  | .pos (.str _ v _ _) r => v :: r.posStrings
  | .pos _ r => r.posStrings
  | .kw _ _ r => r.posStrings

/-- positional non-string arguments and all keyword arguments, in order -/
def Items.others : Items → Items
  | .nil => .nil
  | .pos (.str ..) r => r.others
  | .pos e r => .pos e r.others
  | .kw k v r => .kw k v r.others

def Items.dropKeys (keys : List (List Char)) : Items → Items
  | .nil => .nil
  | .pos e r => .pos e (r.dropKeys keys)
  | .kw (.id l n) v r => if keys.contains n then r.dropKeys keys else .kw (.id l n) v (r.dropKeys keys)
  | .kw k v r => .kw k v (r.dropKeys keys)

def subMultiset (a b : List (List Char)) : List (List Char) := b.foldl (fun acc x => acc.erase x) a

/-- the positional strings of a list before (`sb`) and after (`sa`) -/
def stringsOk (uni cmdFiles sb sa : List (List Char)) : Bool :=
  sb == sa ||
  (sb.filter (fun s => !uni.contains s) == sa.filter (fun s => !uni.contains s) &&
   (subMultiset (sa.filter uni.contains) (sb.filter uni.contains)).all cmdFiles.contains &&
   (subMultiset (sb.filter uni.contains) (sa.filter uni.contains)).all cmdFiles.contains)

mutual
def sameE (u cf : List (List Char)) : Nat → Expr → Expr → Bool
  | 0, _, _ => false
  | f + 1, .bool _ v, .bool _ v' => v == v'
  | f + 1, .id _ n, .id _ n' => n == n'
  | f + 1, .num _ v, .num _ v' => v == v'
  | f + 1, .str _ v _ fs, .str _ v' _ fs' => v == v' && fs == fs'
  | f + 1, .arr _ _ i, .arr _ _ i' => stringsOk u cf i.posStrings i'.posStrings && sameI u cf f i.others i'.others
  | f + 1, .dict _ _ i, .dict _ _ i' => stringsOk u cf i.posStrings i'.posStrings && sameI u cf f i.others i'.others
  | f + 1, .or _ l r, .or _ l' r' => sameE u cf f l l' && sameE u cf f r r'
  | f + 1, .and _ l r, .and _ l' r' => sameE u cf f l l' && sameE u cf f r r'
  | f + 1, .cmp _ c l r, .cmp _ c' l' r' => c == c' && sameE u cf f l l' && sameE u cf f r r'
  | f + 1, .arith _ o _ l r, .arith _ o' _ l' r' => o == o' && sameE u cf f l l' && sameE u cf f r r'
  | f + 1, .not _ e, .not _ e' => sameE u cf f e e'
  | f + 1, .uminus _ e, .uminus _ e' => sameE u cf f e e'
  | f + 1, .index _ o i, .index _ o' i' => sameE u cf f o o' && sameE u cf f i i'
  | f + 1, .method _ o n _ i, .method _ o' n' _ i' =>
    sameE u cf f o o' && n == n' && stringsOk u cf i.posStrings i'.posStrings && sameI u cf f i.others i'.others
  | f + 1, .call _ n _ i, .call _ n' _ i' =>
    n == n' && stringsOk u cf i.posStrings i'.posStrings && sameI u cf f i.others i'.others
  | f + 1, .ternary _ c t e, .ternary _ c' t' e' => sameE u cf f c c' && sameE u cf f t t' && sameE u cf f e e'
  | f + 1, .assign _ n e, .assign _ n' e' => n == n' && sameE u cf f e e'
  | f + 1, .plusassign _ n e, .plusassign _ n' e' => n == n' && sameE u cf f e e'
  | f + 1, .empty, .empty => true
  | f + 1, _, _ => false
def sameI (u cf : List (List Char)) : Nat → Items → Items → Bool
  | 0, _, _ => false
  | f + 1, .nil, .nil => true
  | f + 1, .pos e r, .pos e' r' => sameE u cf f e e' && sameI u cf f r r'
  | f + 1, .kw k v r, .kw k' v' r' => sameE u cf f k k' && sameE u cf f v v' && sameI u cf f r r'
  | f + 1, _, _ => false
end

/-- `a op r` with `a + (b + c)`, `a + (b - c)`, `a * (b * c)` re-associated to the left (same value for every
operand type; the printer writes them without parentheses). `a * (b / c)`, `a * (b % c)` stay. -/
def rot (op : List Char) (a : Expr) : Expr → Expr
  | .arith l op2 t b c =>
    if (op == ['+'] && (op2 == ['+'] || op2 == ['-'])) || (op == ['*'] && op2 == ['*'])
    then .arith 0 op2 op2 (rot op a b) c
    else .arith 0 op op a (.arith l op2 t b c)
  | r => .arith 0 op op a r

mutual
def Expr.reassoc : Expr → Expr
  | .arith _ o _ l r => rot o l.reassoc r.reassoc
  | .arr a b i => .arr a b i.reassoc
  | .dict a b i => .dict a b i.reassoc
  | .or a l r => .or a l.reassoc r.reassoc
  | .and a l r => .and a l.reassoc r.reassoc
  | .cmp a c l r => .cmp a c l.reassoc r.reassoc
  | .not a e => .not a e.reassoc
  | .uminus a e => .uminus a e.reassoc
  | .index a o i => .index a o.reassoc i.reassoc
  | .method a o n b i => .method a o.reassoc n b i.reassoc
  | .call a n b i => .call a n b i.reassoc
  | .ternary a c t f => .ternary a c.reassoc t.reassoc f.reassoc
  | .paren a e => .paren a e.reassoc
  | .assign a n e => .assign a n e.reassoc
  | .plusassign a n e => .plusassign a n e.reassoc
  | e => e
def Items.reassoc : Items → Items
  | .nil => .nil
  | .pos e r => .pos e.reassoc r.reassoc
  | .kw k v r => .kw k.reassoc v.reassoc r.reassoc
end

/-- drop the addressed keyword arguments of the addressed call -/
def dropTopKeys (keys : List (List Char)) : Expr → Expr
  | .call l n a i => .call l n a (i.dropKeys keys)
  | .assign l v (.call l' n a i) => .assign l v (.call l' n a (i.dropKeys keys))
  | e => e

mutual
def Expr.size : Expr → Nat
  | .arr _ _ i | .dict _ _ i | .call _ _ _ i => i.size + 1
  | .or _ l r | .and _ l r | .cmp _ _ l r | .arith _ _ _ l r | .index _ l r => l.size + r.size + 1
  | .not _ e | .uminus _ e | .paren _ e | .assign _ _ e | .plusassign _ _ e => e.size + 1
  | .method _ o _ _ i => o.size + i.size + 1
  | .ternary _ c t f => c.size + t.size + f.size + 1
  | _ => 1
def Items.size : Items → Nat
  | .nil => 1
  | .pos e r => e.size + r.size + 1
  | .kw k v r => k.size + v.size + r.size + 1
end

def sameExcept (uni cmdFiles keys : List (List Char)) (before after : Expr) : Bool :=
  sameE uni cmdFiles (before.size + 1) (dropTopKeys keys before.erase.reassoc) (dropTopKeys keys after.erase.reassoc)

end MesonModel.Rewrite
