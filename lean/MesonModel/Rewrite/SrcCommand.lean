import MesonModel.Rewrite.Command
import MesonModel.Rewrite.PathMatch
/-
C17 — `target <t> add / rm` (sources) and `add_extra_files / rm_extra_files` as ONE whole command on the AST + printer
model, for the literal-list case: the list the rewriter works on (`chosen` of `add_src_or_extra`, `root` of
`rm_src_or_extra.find_node`) is an `ArrayNode`, a `files(...)`-like call, or the build-target call itself, it lives in the
build file of the source root, and the target's files are literal strings.

  add:  for f in sorted(set(newfiles)): skip when (root / f) is already a file of the target, else append
        StringNode(relpath(root / f, dir of the list))                                    -- `toAppend`
        the node is ALWAYS queued (also when every file was skipped)
  rm:   for f in to_be_removed: the first string j of the list with normpath(dir / j) == normpath(root / f) is removed;
        the node is queued when something was removed                                     -- `rmAll`
  then (process_target, "Sort files"): [target name] + non-strings + strings sorted by `pathname_sort_key`  -- `sortArgs`
  extra_files_add on a target WITHOUT the keyword: `extra_files : [<sorted new strings>]` is appended to the call's
        keyword arguments and the call is queued                                           -- `ListKind.newExtra`

Which node is chosen (dataflow DAG) is not modelled: the model is handed the node the real command worked on.
`pathname_sort_key` (mesonbuild/utils/universal.py) is modelled for ASCII digits / ASCII case folding.
-/
namespace MesonModel.Rewrite

/-! ### pathname_sort_key -/

inductive KeyPart where
  | txt (s : List Char)
  | num (n : Nat)
  deriving Repr, DecidableEq

def isDigitA (c : Char) : Bool := 48 ≤ c.toNat && c.toNat ≤ 57

/-- `str.lower()` on ASCII -/
def lowerA (c : Char) : Char := if 65 ≤ c.toNat && c.toNat ≤ 90 then Char.ofNat (c.toNat + 32) else c

def digitsVal (l : List Char) : Nat := l.foldl (fun a c => a * 10 + (c.toNat - 48)) 0

/-- `tuple(convert(c) for c in re.split('([0-9]+)', x))`: text, digits, text, …, text -/
def alphanumKeyF : Nat → List Char → List KeyPart
  | 0, _ => []
  | f + 1, s =>
    let t := s.takeWhile (fun c => !isDigitA c)
    let r := s.dropWhile (fun c => !isDigitA c)
    if r.isEmpty then [.txt (t.map lowerA)]
    else .txt (t.map lowerA) :: .num (digitsVal (r.takeWhile isDigitA)) :: alphanumKeyF f (r.dropWhile isDigitA)

def alphanumKey (x : List Char) : List KeyPart := alphanumKeyF (x.length + 1) x

def flagComps : List (List Char) → List (Bool × List KeyPart)
  | [] => []
  | [c] => [(true, alphanumKey c)]
  | c :: r => (false, alphanumKey c) :: flagComps r

/-- `tuple((key.count('/') <= idx, alphanum_key(x)) for idx, x in enumerate(key.split('/')))`: the flag is true for the
last component only (directories sort before files) -/
def pathKey (key : List Char) : List (Bool × List KeyPart) := flagComps (splitSlash key)

/-- Python tuple `<`: the first position where the elements differ decides; a proper prefix is smaller -/
def lexLt {α : Type} (eq lt : α → α → Bool) : List α → List α → Bool
  | [], [] => false
  | [], _ :: _ => true
  | _ :: _, [] => false
  | a :: as, b :: bs => if eq a b then lexLt eq lt as bs else lt a b

def partLt : KeyPart → KeyPart → Bool
  | .txt a, .txt b => strLt a b
  | .num a, .num b => decide (a < b)
  | .txt _, .num _ => false      -- (never compared: text and number pieces alternate in every key)
  | .num _, .txt _ => false

def compLt (a b : Bool × List KeyPart) : Bool :=
  if a.1 == b.1 then lexLt (fun x y => decide (x = y)) partLt a.2 b.2 else (!a.1 && b.1)

def pathKeyLt (a b : List Char) : Bool := lexLt (fun x y => decide (x = y)) compLt (pathKey a) (pathKey b)

def Expr.isStr : Expr → Bool
  | .str .. => true
  | _ => false

def Expr.strVal : Expr → List Char
  | .str _ v _ _ => v
  | _ => []

/-- stable insertion (an element goes before the first one that is not smaller than it) -/
def insertBy {α : Type} (lt : α → α → Bool) (x : α) : List α → List α
  | [] => [x]
  | y :: ys => if lt y x then y :: insertBy lt x ys else x :: y :: ys

/-- `sorted(l, key=…)` (stable) -/
def sortBy {α : Type} (lt : α → α → Bool) : List α → List α
  | [] => []
  | x :: xs => insertBy lt x (sortBy lt xs)

def srcLt (a b : Expr) : Bool := pathKeyLt a.strVal b.strVal

/-- the "Sort files" loop of `process_target` over one node's positional arguments -/
def sortArgs (tgt : Bool) (args : List Expr) : List Expr :=
  let name := if tgt then args.take 1 else []
  let src := if tgt then args.drop 1 else args
  name ++ src.filter (fun e => !e.isStr) ++ sortBy srcLt (src.filter (fun e => e.isStr))

/-! ### the command -/

inductive ListKind where
  /-- an `ArrayNode` or a `files(...)` call: every positional argument is a file -/
  | plain
  /-- the build-target call: the first positional argument is the target's name -/
  | target
  /-- the build-target call, which has no `extra_files` keyword yet (`extra_files_add` only) -/
  | newExtra
  deriving Repr, BEq, DecidableEq

structure SrcCmd where
  rm : Bool
  files : List (List Char)
  deriving Repr

def insertSet (x : List Char) : List (List Char) → List (List Char)
  | [] => [x]
  | y :: ys => if x = y then y :: ys else if strLt x y then x :: y :: ys else y :: insertSet x ys

/-- `sorted(set(newfiles))` -/
def sortedSet : List (List Char) → List (List Char)
  | [] => []
  | x :: xs => insertSet x (sortedSet xs)

/-- is `root / f` one of the target's files (`oldT`: the strings of the target, relative to the root)? -/
def alreadyThere (root : List Char) (oldT : List (List Char)) (f : List Char) : Bool :=
  (oldT.map (fun o => normpath (joinPath root o))).contains (normpath (joinPath root f))

/-- the new `StringNode`s of `add_src_or_extra` (built by code: level 0); `relpath(root / f, root)` is `normpath f` -/
def toAppend (root : List Char) (oldT : List (List Char)) (files : List (List Char)) : List Expr :=
  (sortedSet files).filterMap (fun f => if alreadyThere root oldT f then none else some (.str 0 (normpath f) false false))

/-- remove the first element satisfying `p`; the flag says whether there was one -/
def removeFirst {α : Type} (p : α → Bool) : List α → List α × Bool
  | [] => ([], false)
  | x :: xs => if p x then (xs, true) else ((removeFirst p xs).1.cons x, (removeFirst p xs).2)

/-- the test of `find_node` for a string of a list in the root directory -/
def srcMatches (root req : List Char) (e : Expr) : Bool := e.isStr && stringMatches root e.strVal root req

/-- the loop `for i in to_be_removed` over one list: (arguments left, number of strings removed) -/
def rmAll (root : List Char) : List (List Char) → List Expr → Nat → List Expr × Nat
  | [], args, n => (args, n)
  | f :: fs, args, n =>
    let r := removeFirst (srcMatches root f) args
    rmAll root fs r.1 (if r.2 then n + 1 else n)

def Items.kwOnly : Items → Items
  | .nil => .nil
  | .pos _ r => r.kwOnly
  | .kw k v r => .kw k v r.kwOnly

def extraFilesKey : List Char := ['e', 'x', 't', 'r', 'a', '_', 'f', 'i', 'l', 'e', 's']

/-- new argument list of the chosen node; `none`: the node is not queued -/
def editArgs (root : List Char) (kind : ListKind) (oldT : List (List Char)) (cmd : SrcCmd) (items : Items) : Option Items :=
  let args := items.posPart
  let tgt := kind != .plain
  if cmd.rm then
    let name := if tgt then args.take 1 else []
    let src := if tgt then args.drop 1 else args
    let r := rmAll root cmd.files src 0
    if r.2 = 0 then none else some ((itemsOfList (sortArgs tgt (name ++ r.1))).append items.kwOnly)
  else if kind == .newExtra then
    some (items.append (.kw (.id 0 extraFilesKey) (.arr 0 0 (itemsOfList (sortArgs false (toAppend root [] cmd.files)))) .nil))
  else some ((itemsOfList (sortArgs tgt (args ++ toAppend root oldT cmd.files))).append items.kwOnly)

/-- the command on the chosen node -/
def editSrc (root : List Char) (kind : ListKind) (oldT : List (List Char)) (cmd : SrcCmd) : Expr → Option Expr
  | .arr lvl alvl items => (editArgs root kind oldT cmd items).map (fun i => .arr lvl alvl i)
  | .call lvl fn alvl items => (editArgs root kind oldT cmd items).map (fun i => .call lvl fn alvl i)
  | _ => none

/-- the whole command on the text of the build file -/
def applySrc (raw : List Char) (sp : Span) (node : Expr) (root : List Char) (kind : ListKind) (oldT : List (List Char))
    (cmd : SrcCmd) : Except Err (List Char) :=
  match editSrc root kind oldT cmd node with
  | none => .ok raw
  | some node' => applyChanges raw [⟨.modify, sp, .arrOrFunc, node'⟩] [] []

/-- the file names a list node holds (for the target call: without the target's name) -/
def srcValues (tgt : Bool) (items : Items) : List (List Char) :=
  (((if tgt then items.posPart.drop 1 else items.posPart).filter (fun e => e.isStr)).map (fun e => e.strVal))

end MesonModel.Rewrite
