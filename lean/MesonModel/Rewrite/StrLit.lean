import MesonModel.Rewrite.Printer
/-
C17 — how the lexer reads back a single-quoted string literal (`mparser.py`):
the `string` token regex `'([^'\\]|(\\.))*'` and `StringNode.escape`
(`ESCAPE_SEQUENCE_SINGLE_RE.sub(decode_match, raw)`). Own small model, used for `escape_roundtrip`.
-/
namespace MesonModel.Rewrite

/-- body of the `string` token after the opening quote: units `[^'\\]` or `\\.` (`.` is not a
newline) up to the first quote at a unit boundary; returns (raw value, text after the closing quote).
The regex is deterministic: a unit never starts with a quote, so backtracking finds nothing else. -/
def scanStr : List Char → Option (List Char × List Char)
  | [] => none
  | c :: t =>
    if c = '\'' then some ([], t)
    else if c = '\\' then
      match t with
      | [] => none
      | d :: t' =>
        if d = '\n' then none
        else (scanStr t').map (fun p => (c :: d :: p.1, p.2))
    else (scanStr t).map (fun p => (c :: p.1, p.2))

def isHex (c : Char) : Bool :=
  (48 ≤ c.toNat && c.toNat ≤ 57) || (65 ≤ c.toNat && c.toNat ≤ 70) || (97 ≤ c.toNat && c.toNat ≤ 102)

def hexVal (c : Char) : Nat :=
  if c.toNat ≤ 57 then c.toNat - 48 else if c.toNat ≤ 70 then c.toNat - 55 else c.toNat - 87

def isOct (c : Char) : Bool := 48 ≤ c.toNat && c.toNat ≤ 55

def hexNum (l : List Char) : Nat := l.foldl (fun a c => a * 16 + hexVal c) 0
def octNum (l : List Char) : Nat := l.foldl (fun a c => a * 8 + (c.toNat - 48)) 0

/-- result of trying `ESCAPE_SEQUENCE_SINGLE_RE` at a backslash (argument: the text after it) -/
inductive Esc where
  /-- no alternative matches: the backslash stays -/
  | nomatch
  /-- decoded code point, number of characters consumed after the backslash -/
  | ok (cp : Nat) (n : Nat)
  /-- `\N{...}` (needs the Unicode name table) or a code point a Lean `Char` cannot hold: outside the model -/
  | unmodelled
  deriving Repr, BEq

def validCp (n : Nat) : Bool := n < 0xD800 || (0xDFFF < n && n < 0x110000)

def singleEsc (c : Char) : Option Nat :=
  if c = '\\' then some 92 else if c = '\'' then some 39 else if c = 'a' then some 7
  else if c = 'b' then some 8 else if c = 'f' then some 12 else if c = 'n' then some 10
  else if c = 'r' then some 13 else if c = 't' then some 9 else if c = 'v' then some 11 else none

def escAt (t : List Char) : Esc :=
  match t with
  | [] => .nomatch
  | c :: r =>
    if c = 'U' then
      let h := r.take 8
      if h.length = 8 && h.all isHex then (if validCp (hexNum h) then .ok (hexNum h) 9 else .unmodelled) else .nomatch
    else if c = 'u' then
      let h := r.take 4
      if h.length = 4 && h.all isHex then (if validCp (hexNum h) then .ok (hexNum h) 5 else .unmodelled) else .nomatch
    else if c = 'x' then
      let h := r.take 2
      if h.length = 2 && h.all isHex then .ok (hexNum h) 3 else .nomatch
    else if isOct c then
      let o := (c :: r.take 2).takeWhile isOct
      .ok (octNum o) o.length
    else if c = 'N' then
      match r with
      | '{' :: r' =>
        let name := r'.takeWhile (· != '}')
        if name.length ≥ 1 && name.length < r'.length then .unmodelled else .nomatch
      | _ => .nomatch
    else match singleEsc c with
      | some cp => .ok cp 1
      | none => .nomatch

/-- `ESCAPE_SEQUENCE_SINGLE_RE.sub(decode_match, raw)`; `none`: outside the model (see `Esc.unmodelled`) -/
def decodeF : Nat → List Char → Option (List Char)
  | 0, _ => some []
  | _, [] => some []
  | f + 1, c :: t =>
    if c = '\\' then
      match escAt t with
      | .ok cp n => (decodeF f (t.drop n)).map (Char.ofNat cp :: ·)
      | .nomatch => (decodeF f t).map (c :: ·)
      | .unmodelled => none
    else (decodeF f t).map (c :: ·)

def decodeEscapes (raw : List Char) : Option (List Char) := decodeF raw.length raw

/-- the value the parser gives the text `lit` when it is exactly ONE single-quoted string token -/
def lexString (lit : List Char) : Option (List Char) :=
  match lit with
  | '\'' :: body =>
    match scanStr body with
    | some (raw, []) => decodeEscapes raw
    | _ => none
  | _ => none

end MesonModel.Rewrite
