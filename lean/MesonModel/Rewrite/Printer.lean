import MesonModel.Rewrite.Tree
import MesonModel.Generated.PrecTable
/-
C17 — `mesonbuild/ast/printer.py`: `precedence_level` and `AstPrinter`, construct by construct.

The visitor's mutable fields (`result`, `is_newline`) are the state `PS`; every `visit_*` method is
one clause of `pr`. Since /repo b64ff56 a `ParenthesizedNode` prints the parentheses the source has
(`visit_ParenthesizedNode`); for operands that are NOT written in parentheses (nodes the rewriter builds
itself) the only place parentheses are emitted is `maybe_parentheses`, called for the two children of an
`ArithmeticNode`.
-/
namespace MesonModel.Rewrite
open MesonModel.Generated

def sAdd : List Char := ['+']
def sSub : List Char := ['-']
def sMul : List Char := ['*']
def sDiv : List Char := ['/']
def sMod : List Char := ['%']

/-- `precedence_level` for an `ArithmeticNode` by `operation`; `none`: the function falls through to
`raise MesonBugException('Unhandled node type')` -/
def arithPrec? (op : List Char) : Option Nat :=
  if op = sAdd then some PrecTable.arithAdd
  else if op = sSub then some PrecTable.arithSub
  else if op = sMod then some PrecTable.arithMod
  else if op = sMul then some PrecTable.arithMul
  else if op = sDiv then some PrecTable.arithDiv
  else none

/-- `precedence_level(node)` (0 stands for the `MesonBugException` case, see `Expr.opsKnown`) -/
def precLevel : Expr → Nat
  | .assign .. => PrecTable.assign
  | .plusassign .. => PrecTable.plusAssign
  | .ternary .. => PrecTable.ternary
  | .or .. => PrecTable.orNode
  | .and .. => PrecTable.andNode
  | .cmp .. => PrecTable.comparison
  | .arith _ op _ _ _ => (arithPrec? op).getD 0
  | .not .. => PrecTable.notNode
  | .uminus .. => PrecTable.uminus
  | .call .. => PrecTable.call
  | .index .. => PrecTable.index
  | .method .. => PrecTable.method
  | .arr .. => PrecTable.array
  | .dict .. => PrecTable.dict
  | .bool .. => PrecTable.boolNode
  | .id .. => PrecTable.idNode
  | .num .. => PrecTable.number
  | .str .. => PrecTable.string
  | .empty => PrecTable.emptyNode
  | .paren _ e => precLevel e

/-- `node.level` -/
def Expr.lvl : Expr → Nat
  | .bool l _ | .id l _ | .num l _ | .str l _ _ _ | .arr l _ _ | .dict l _ _ | .or l _ _ | .and l _ _
  | .cmp l _ _ _ | .arith l _ _ _ _ | .not l _ | .uminus l _ | .index l _ _ | .method l _ _ _ _
  | .call l _ _ _ | .ternary l _ _ _ | .paren l _ | .assign l _ _ | .plusassign l _ _ => l
  | .empty => 0

/- every `ArithmeticNode` has one of the five operations (otherwise printing raises) -/
mutual
def Expr.opsKnown : Expr → Bool
  | .arith _ op _ l r => (arithPrec? op).isSome && l.opsKnown && r.opsKnown
  | .arr _ _ i | .dict _ _ i | .call _ _ _ i => i.opsKnown
  | .or _ l r | .and _ l r | .cmp _ _ l r | .index _ l r => l.opsKnown && r.opsKnown
  | .not _ e | .uminus _ e | .paren _ e | .assign _ _ e | .plusassign _ _ e => e.opsKnown
  | .method _ o _ _ i => o.opsKnown && i.opsKnown
  | .ternary _ c t f => c.opsKnown && t.opsKnown && f.opsKnown
  | _ => true
def Items.opsKnown : Items → Bool
  | .nil => true
  | .pos e r => e.opsKnown && r.opsKnown
  | .kw k v r => k.opsKnown && v.opsKnown && r.opsKnown
end

/-- `AstPrinter.escape`: `val.translate(escape_trans)` -/
def escapeChar (tbl : List (Char × List Char)) (c : Char) : List Char :=
  match tbl.lookup c with
  | some r => r
  | none => [c]

def escapeWith (tbl : List (Char × List Char)) (v : List Char) : List Char := v.flatMap (escapeChar tbl)

def escape (v : List Char) : List Char := escapeWith PrecTable.escapeTrans v

/-- `str.isspace()` / regex `\s` (table regenerated from CPython) -/
def isSpaceU (c : Char) : Bool := PrecTable.pySpace.contains c.toNat

/-- printer state: `self.result`, `self.is_newline` -/
structure PS where
  out : List Char
  nl : Bool
deriving Repr, BEq

def PS.init : PS := ⟨[], true⟩

/-- `append(data, node)` -/
def PS.append (st : PS) (data : List Char) (lvl : Nat) : PS :=
  ⟨st.out ++ (if st.nl then List.replicate (lvl * PrecTable.indent) ' ' else []) ++ data, false⟩

/-- `append_padded(data, node)` -/
def PS.appendPadded (st : PS) (data : List Char) (lvl : Nat) : PS :=
  let d := match st.out.getLast? with
    | some c => if c == ' ' || c == '\n' then data else ' ' :: data
    | none => data
  st.append (d ++ [' ']) lvl

/-- `newline()` -/
def PS.newline (st : PS) : PS := ⟨st.out ++ ['\n'], true⟩

/-- `re.sub(r', \n$', '\n', s)` (`$` also matches just before a final newline) -/
def reTailBreak (s : List Char) : List Char :=
  match s.reverse with
  | '\n' :: ' ' :: ',' :: r => (('\n' :: r)).reverse
  | '\n' :: '\n' :: ' ' :: ',' :: r => ('\n' :: '\n' :: r).reverse
  | _ => s

/-- `re.sub(r', $', '', s)` -/
def reTailFlat (s : List Char) : List Char :=
  match s.reverse with
  | ' ' :: ',' :: r => r.reverse
  | '\n' :: ' ' :: ',' :: r => ('\n' :: r).reverse
  | _ => s

/-- `isinstance(i, (ElementaryNode, IndexNode))` -/
def isSimpleArg : Expr → Bool
  | .bool .. | .id .. | .num .. | .str .. | .index .. => true
  | _ => false

/-- some positional argument or keyword VALUE is not simple (`break_args = True` in the loop) -/
def Items.anyComplex : Items → Bool
  | .nil => false
  | .pos e r => !isSimpleArg e || r.anyComplex
  | .kw _ v r => !isSimpleArg v || r.anyComplex

def natStr (n : Nat) : List Char := Nat.toDigits 10 n

/-- `break_args` of `visit_ArgumentNode` -/
def Items.breakArgs (items : Items) : Bool :=
  decide (items.length > PrecTable.argNewlineCutoff) || items.anyComplex

/-- `visit_ArgumentNode` before its loops: `if break_args: self.newline()` -/
def argsStart (items : Items) (st : PS) : PS := if items.breakArgs then st.newline else st

/-- `visit_ArgumentNode` after its loops: the two `re.sub` on `self.result` -/
def argsFinish (items : Items) (st : PS) : PS :=
  if items.breakArgs then { st with out := reTailBreak st.out } else { st with out := reTailFlat st.out }

def Expr.isParen : Expr → Bool
  | .paren .. => true
  | _ => false

/-- the `parens` argument of `maybe_parentheses` for the left / right operand of an `ArithmeticNode`;
`maybe_parentheses` drops it for an operand that is a `ParenthesizedNode` (that one prints its own pair) -/
def parensLeft (op : List Char) (l : Expr) : Bool :=
  decide ((arithPrec? op).getD 0 > precLevel l) && !l.isParen
def parensRight (op : List Char) (r : Expr) : Bool :=
  (decide ((arithPrec? op).getD 0 > precLevel r) ||
    ((arithPrec? op).getD 0 == precLevel r && (op == sSub || op == sDiv || op == sMod))) && !r.isParen

mutual
/-- `node.accept(printer)`; `visit_ArgumentNode` = `argsStart`, the loops `prItems`, `argsFinish`;
`maybe_parentheses(outer, inner, parens)` = the two `if`s of the `arith` clause -/
def pr : Expr → PS → PS
  | .bool lvl v, st => st.append (if v then ['t', 'r', 'u', 'e'] else ['f', 'a', 'l', 's', 'e']) lvl
  | .id lvl n, st => st.append n lvl
  | .num lvl v, st => st.append (natStr v) lvl
  | .str lvl v ml fs, st =>
    let st := if fs then st.append ['f'] lvl else st
    if ml then st.append (['\'', '\'', '\''] ++ v ++ ['\'', '\'', '\'']) lvl
    else st.append ('\'' :: escape v ++ ['\'']) lvl
  | .arr lvl alvl items, st =>
    (argsFinish items (prItems items alvl items.breakArgs (argsStart items (st.append ['['] lvl)))).append [']'] lvl
  | .dict lvl alvl items, st =>
    (argsFinish items (prItems items alvl items.breakArgs (argsStart items (st.append ['{'] lvl)))).append ['}'] lvl
  | .or lvl l r, st => pr r ((pr l st).appendPadded ['o', 'r'] lvl)
  | .and lvl l r, st => pr r ((pr l st).appendPadded ['a', 'n', 'd'] lvl)
  | .cmp lvl c l r, st => pr r ((pr l st).appendPadded c lvl)
  | .arith lvl op optext l r, st =>
    let st := if parensLeft op l then ((pr l (st.append ['('] l.lvl)).append [')'] l.lvl) else pr l st
    let st := st.appendPadded optext lvl
    if parensRight op r then ((pr r (st.append ['('] r.lvl)).append [')'] r.lvl) else pr r st
  | .not lvl e, st => pr e (st.appendPadded ['n', 'o', 't'] lvl)
  | .uminus lvl e, st => pr e (st.appendPadded ['-'] lvl)
  | .index lvl o i, st => ((pr i ((pr o st).append ['['] lvl)).append [']'] lvl)
  | .method lvl o n alvl items, st =>
    (argsFinish items (prItems items alvl items.breakArgs
      (argsStart items ((pr o st).append ('.' :: n ++ ['(']) lvl)))).append [')'] lvl
  | .call lvl n alvl items, st =>
    (argsFinish items (prItems items alvl items.breakArgs (argsStart items (st.append (n ++ ['(']) lvl)))).append [')'] lvl
  | .ternary lvl c t f, st =>
    pr f ((pr t ((pr c st).appendPadded ['?'] lvl)).appendPadded [':'] lvl)
  | .paren lvl e, st => ((pr e (st.append ['('] lvl)).append [')'] lvl)
  | .assign lvl n e, st => pr e (st.append (n ++ [' ', '=', ' ']) lvl)
  | .plusassign lvl n e, st => pr e (st.append (n ++ [' ', '+', '=', ' ']) lvl)
  | .empty, st => st
/-- the two loops of `visit_ArgumentNode` -/
def prItems : Items → Nat → Bool → PS → PS
  | .nil, _, _, st => st
  | .pos e r, alvl, brk, st =>
    let st := (pr e st).append [',', ' '] alvl
    prItems r alvl brk (if brk then st.newline else st)
  | .kw k v r, alvl, brk, st =>
    let st := (pr v ((pr k st).appendPadded [':'] alvl)).append [',', ' '] alvl
    prItems r alvl brk (if brk then st.newline else st)
end

/-- `node.accept(AstPrinter()); printer.result` -/
def astPrint (e : Expr) : List Char := (pr e PS.init).out

/-- one maximal whitespace run `r` under `re.sub(r'\s+\n', '\n', ·)`: if a newline occurs after the
run's first character, everything up to the LAST newline of the run is replaced by one newline -/
def collapseRun (r : List Char) : List Char :=
  match r with
  | [] => []
  | c :: t =>
    if t.contains '\n' then '\n' :: (t.reverse.takeWhile (· != '\n')).reverse
    else c :: t

/-- `post_process`: `re.sub(r'\s+\n', '\n', result)` — scan maximal whitespace runs -/
def postProcessF : Nat → List Char → List Char
  | 0, _ => []
  | _, [] => []
  | f + 1, c :: t =>
    if isSpaceU c then
      let run := (c :: t).takeWhile isSpaceU
      collapseRun run ++ postProcessF f ((c :: t).drop run.length)
    else c :: postProcessF f t

def postProcess (s : List Char) : List Char := postProcessF (s.length + 1) s

/-- `str.strip()` -/
def stripU (s : List Char) : List Char := ((s.dropWhile isSpaceU).reverse.dropWhile isSpaceU).reverse

/-- the replacement text `apply_changes` computes for a modified / added node -/
def newData (e : Expr) : List Char := stripU (postProcess (astPrint e))

end MesonModel.Rewrite
