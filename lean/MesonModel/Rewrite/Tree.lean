/-
C17 — expression trees as the rewriter sees them (own tree, independent of the C02 parser model).

One constructor per `mparser` node class that can occur inside a statement the rewriter re-prints
(`FunctionNode` / `ArrayNode` and everything below them, plus `AssignmentNode` for `target_add`).
Every node carries `lvl`, the attribute `node.level` that `AstIndentationGenerator` stored in it and
that `AstPrinter.append` multiplies by `indent` (nodes created by the rewriter itself keep the
`BaseNode.__init__` default 0 — that is why an added source file is printed in column 0).
An `ArgumentNode` is `(alvl, items)`: positional arguments first, keyword arguments after, which is
the order `visit_ArgumentNode` walks them in.
-/
namespace MesonModel.Rewrite

mutual
inductive Expr where
  | bool (lvl : Nat) (v : Bool)
  | id (lvl : Nat) (name : List Char)
  | num (lvl : Nat) (v : Nat)
  /-- `StringNode`: decoded value, `is_multiline`, `is_fstring` -/
  | str (lvl : Nat) (v : List Char) (multiline fstring : Bool)
  | arr (lvl alvl : Nat) (items : Items)
  | dict (lvl alvl : Nat) (items : Items)
  | or (lvl : Nat) (l r : Expr)
  | and (lvl : Nat) (l r : Expr)
  | cmp (lvl : Nat) (ctype : List Char) (l r : Expr)
  /-- `ArithmeticNode`: `operation` (decides the precedence), `operator.value` (the text printed) -/
  | arith (lvl : Nat) (operation optext : List Char) (l r : Expr)
  | not (lvl : Nat) (e : Expr)
  | uminus (lvl : Nat) (e : Expr)
  | index (lvl : Nat) (obj idx : Expr)
  | method (lvl : Nat) (obj : Expr) (name : List Char) (alvl : Nat) (items : Items)
  | call (lvl : Nat) (name : List Char) (alvl : Nat) (items : Items)
  | ternary (lvl : Nat) (c t f : Expr)
  | paren (lvl : Nat) (e : Expr)
  | assign (lvl : Nat) (name : List Char) (e : Expr)
  | plusassign (lvl : Nat) (name : List Char) (e : Expr)
  | empty
inductive Items where
  | nil
  | pos (e : Expr) (rest : Items)
  | kw (k v : Expr) (rest : Items)
end

deriving instance Repr for Expr
deriving instance Repr for Items

mutual
def Expr.beq : Expr → Expr → Bool
  | .bool a b, .bool a' b' => a == a' && b == b'
  | .id a b, .id a' b' => a == a' && b == b'
  | .num a b, .num a' b' => a == a' && b == b'
  | .str a b c d, .str a' b' c' d' => a == a' && b == b' && c == c' && d == d'
  | .arr a b i, .arr a' b' i' => a == a' && b == b' && Items.beq i i'
  | .dict a b i, .dict a' b' i' => a == a' && b == b' && Items.beq i i'
  | .or a l r, .or a' l' r' => a == a' && Expr.beq l l' && Expr.beq r r'
  | .and a l r, .and a' l' r' => a == a' && Expr.beq l l' && Expr.beq r r'
  | .cmp a c l r, .cmp a' c' l' r' => a == a' && c == c' && Expr.beq l l' && Expr.beq r r'
  | .arith a o t l r, .arith a' o' t' l' r' => a == a' && o == o' && t == t' && Expr.beq l l' && Expr.beq r r'
  | .not a e, .not a' e' => a == a' && Expr.beq e e'
  | .uminus a e, .uminus a' e' => a == a' && Expr.beq e e'
  | .index a o i, .index a' o' i' => a == a' && Expr.beq o o' && Expr.beq i i'
  | .method a o n b i, .method a' o' n' b' i' => a == a' && Expr.beq o o' && n == n' && b == b' && Items.beq i i'
  | .call a n b i, .call a' n' b' i' => a == a' && n == n' && b == b' && Items.beq i i'
  | .ternary a c t f, .ternary a' c' t' f' => a == a' && Expr.beq c c' && Expr.beq t t' && Expr.beq f f'
  | .paren a e, .paren a' e' => a == a' && Expr.beq e e'
  | .assign a n e, .assign a' n' e' => a == a' && n == n' && Expr.beq e e'
  | .plusassign a n e, .plusassign a' n' e' => a == a' && n == n' && Expr.beq e e'
  | .empty, .empty => true
  | _, _ => false
def Items.beq : Items → Items → Bool
  | .nil, .nil => true
  | .pos e r, .pos e' r' => Expr.beq e e' && Items.beq r r'
  | .kw k v r, .kw k' v' r' => Expr.beq k k' && Expr.beq v v' && Items.beq r r'
  | _, _ => false
end

instance : BEq Expr := ⟨Expr.beq⟩
instance : BEq Items := ⟨Items.beq⟩

def Items.length : Items → Nat
  | .nil => 0
  | .pos _ r => r.length + 1
  | .kw _ _ r => r.length + 1

/-
`erase`: what a statement *means* structurally — positions, indentation levels, explicit
parentheses (`ParenthesizedNode` only records grouping that the tree shape already has), the
multiline flag of a string (the value is what counts) and the spelling of a number are dropped;
string VALUES, identifiers, operators, operator grouping and argument order are kept.
-/
mutual
def Expr.erase : Expr → Expr
  | .bool _ v => .bool 0 v
  | .id _ n => .id 0 n
  | .num _ v => .num 0 v
  | .str _ v _ f => .str 0 v false f
  | .arr _ _ i => .arr 0 0 i.erase
  | .dict _ _ i => .dict 0 0 i.erase
  | .or _ l r => .or 0 l.erase r.erase
  | .and _ l r => .and 0 l.erase r.erase
  | .cmp _ c l r => .cmp 0 c l.erase r.erase
  | .arith _ o _ l r => .arith 0 o o l.erase r.erase
  | .not _ e => .not 0 e.erase
  | .uminus _ e => .uminus 0 e.erase
  | .index _ o i => .index 0 o.erase i.erase
  | .method _ o n _ i => .method 0 o.erase n 0 i.erase
  | .call _ n _ i => .call 0 n 0 i.erase
  | .ternary _ c t f => .ternary 0 c.erase t.erase f.erase
  | .paren _ e => e.erase
  | .assign _ n e => .assign 0 n e.erase
  | .plusassign _ n e => .plusassign 0 n e.erase
  | .empty => .empty
def Items.erase : Items → Items
  | .nil => .nil
  | .pos e r => .pos e.erase r.erase
  | .kw k v r => .kw k.erase v.erase r.erase
end

end MesonModel.Rewrite
