/-
C17 — `rewriter.run` in script mode (`meson rewrite command '<json list>'`, `mesonbuild/rewriter.py:1157-1197`):
one `Rewriter` whose interpreter is re-created and re-run (`analyze_meson`) after every command but the last,
against one invocation of `meson rewrite` per command. Abstract in the file tree `σ`, the analysis result `ι`
(`IntrospectionInterpreter` state) and the commands `κ`:
`analyze` reads the build files, `step v c s` is `process(c)` on the analysis `v` followed by `apply_changes`
on the files `s` (`none`: the command is refused / raises — the script stops there, the files stay as they are).
-/
namespace MesonModel.Rewrite

variable {σ ι κ : Type}

/-- one `meson rewrite` invocation with one command -/
def invoke (analyze : σ → ι) (step : ι → κ → σ → Option σ) (s : σ) (c : κ) : Option σ := step (analyze s) c s

/-- a shell loop, one invocation per command, stopping at the first that fails: (files reached, all succeeded) -/
def runSeparate (analyze : σ → ι) (step : ι → κ → σ → Option σ) : σ → List κ → σ × Bool
  | s, [] => (s, true)
  | s, c :: cs =>
    match invoke analyze step s c with
    | some s' => runSeparate analyze step s' cs
    | none => (s, false)

/-- the loop of `run()`: `v` is the interpreter state the NEXT command will be processed on; after a command the
interpreter is replaced by a fresh analysis of the files just written -/
def runLoop (analyze : σ → ι) (step : ι → κ → σ → Option σ) : ι → σ → List κ → σ × Bool
  | _, s, [] => (s, true)
  | v, s, c :: cs =>
    match step v c s with
    | some s' => runLoop analyze step (analyze s') s' cs
    | none => (s, false)

/-- `run()`: `rewriter = Rewriter(sourcedir); rewriter.analyze_meson(); for cmd in commands: …` -/
def runScript (analyze : σ → ι) (step : ι → κ → σ → Option σ) (s : σ) (cmds : List κ) : σ × Bool :=
  runLoop analyze step (analyze s) s cmds

/-- the variant that keeps the OLD analysis when `skip c` holds for the command just applied
(e.g. "only appended nodes"): what the files hold and what the interpreter knows drift apart -/
def runLoopStale (analyze : σ → ι) (step : ι → κ → σ → Option σ) (skip : κ → Bool) : ι → σ → List κ → σ × Bool
  | _, s, [] => (s, true)
  | v, s, c :: cs =>
    match step v c s with
    | some s' => runLoopStale analyze step skip (if skip c then v else analyze s') s' cs
    | none => (s, false)

theorem runLoop_eq_separate (analyze : σ → ι) (step : ι → κ → σ → Option σ) (cmds : List κ) :
    ∀ s, runLoop analyze step (analyze s) s cmds = runSeparate analyze step s cmds := by
  induction cmds with
  | nil => intro s; rfl
  | cons c cs ih =>
    intro s
    simp only [runLoop, runSeparate, invoke]
    cases h : step (analyze s) c s with
    | none => rfl
    | some s' => exact ih s'

/-! a toy instance on which the stale variant is visibly wrong: files = list of defined target names -/

inductive ToyCmd where
  | add (x : Nat)      -- target_add: refused when the target is already known
  | use (x : Nat)      -- src_add / kwargs / info on x: refused when the target is unknown ("Unknown target")
  deriving DecidableEq

def toyStep (known : List Nat) : ToyCmd → List Nat → Option (List Nat)
  | .add x, s => if known.contains x then none else some (s ++ [x])
  | .use x, s => if known.contains x then some s else none

def toySkip : ToyCmd → Bool
  | .add _ => true
  | .use _ => false

end MesonModel.Rewrite
