import MesonModel.Rewrite.SrcCommand
import MesonModel.Rewrite.CommandLemmas
/-
C17 — facts about the whole-command model of `target add / rm (extra) files` (SrcCommand.lean).
-/
namespace MesonModel.Rewrite

/-! ### sorting neither drops nor invents a file -/

theorem insertBy_perm {α : Type} (lt : α → α → Bool) (x : α) : ∀ l : List α, (insertBy lt x l).Perm (x :: l) := by
  intro l
  induction l with
  | nil => exact List.Perm.refl _
  | cons y ys ih =>
    unfold insertBy
    cases lt y x with
    | true => exact (List.Perm.cons y ih).trans (List.Perm.swap x y ys)
    | false => exact List.Perm.refl _

theorem sortBy_perm {α : Type} (lt : α → α → Bool) : ∀ l : List α, (sortBy lt l).Perm l := by
  intro l
  induction l with
  | nil => exact List.Perm.refl _
  | cons x xs ih => exact (insertBy_perm lt x (sortBy lt xs)).trans (List.Perm.cons x ih)

theorem mem_sortBy {α : Type} (lt : α → α → Bool) (y : α) (l : List α) : y ∈ sortBy lt l ↔ y ∈ l :=
  (sortBy_perm lt l).mem_iff

/-! ### removing the first match -/

theorem removeFirst_subset {α : Type} (p : α → Bool) : ∀ (l : List α) (x : α), x ∈ (removeFirst p l).1 → x ∈ l := by
  intro l
  induction l with
  | nil => intro x h; simp [removeFirst] at h
  | cons y ys ih =>
    intro x h
    unfold removeFirst at h
    cases hp : p y with
    | true => rw [hp] at h; simp at h; exact List.mem_cons_of_mem _ h
    | false =>
      rw [hp] at h
      simp only [Bool.false_eq_true, if_false, List.mem_cons] at h
      rcases h with h | h
      · rw [h]; exact List.mem_cons_self
      · exact List.mem_cons_of_mem _ (ih x h)

theorem removeFirst_keeps {α : Type} (p : α → Bool) : ∀ (l : List α) (x : α), x ∈ l → p x = false → x ∈ (removeFirst p l).1 := by
  intro l
  induction l with
  | nil => intro x h; simp at h
  | cons y ys ih =>
    intro x h hx
    unfold removeFirst
    cases hp : p y with
    | true =>
      simp only [if_true]
      rcases List.mem_cons.mp h with h | h
      · rw [h] at hx; rw [hx] at hp; exact Bool.noConfusion hp
      · exact h
    | false =>
      simp only [Bool.false_eq_true, if_false, List.mem_cons]
      rcases List.mem_cons.mp h with h | h
      · exact Or.inl h
      · exact Or.inr (ih x h hx)

theorem removeFirst_filter {α : Type} (p : α → Bool) : ∀ l : List α, ((removeFirst p l).1).filter p = (l.filter p).tail := by
  intro l
  induction l with
  | nil => simp [removeFirst]
  | cons y ys ih =>
    unfold removeFirst
    cases hp : p y with
    | true => simp [List.filter_cons, hp]
    | false => simp [List.filter_cons, hp, ih]

theorem removeFirst_flag {α : Type} (p : α → Bool) : ∀ l : List α, (removeFirst p l).2 = l.any p := by
  intro l
  induction l with
  | nil => simp [removeFirst]
  | cons y ys ih =>
    unfold removeFirst
    cases hp : p y with
    | true => simp [hp]
    | false => simp [hp, ih]

/-- add, then remove: a file that matched nothing before is the one that goes again -/
theorem add_then_rm_core {α : Type} (lt : α → α → Bool) (p : α → Bool) (S : List α) (e : α)
    (hnew : ∀ y ∈ S, p y = false) (he : p e = true) :
    (removeFirst p (sortBy lt (S ++ [e]))).2 = true ∧
    ∀ x, x ∈ (removeFirst p (sortBy lt (S ++ [e]))).1 ↔ x ∈ S := by
  have hperm := sortBy_perm lt (S ++ [e])
  have hfS : S.filter p = [] := List.filter_eq_nil_iff.mpr (fun y hy => by simp [hnew y hy])
  have hfl : ((sortBy lt (S ++ [e])).filter p).length = 1 := by
    rw [(hperm.filter p).length_eq]; simp [List.filter_append, hfS, he]
  constructor
  · rw [removeFirst_flag]
    exact List.any_eq_true.mpr ⟨e, (mem_sortBy lt e _).mpr (by simp), he⟩
  · intro x
    constructor
    · intro hx
      have hxL := removeFirst_subset p _ x hx
      rw [mem_sortBy] at hxL
      rcases List.mem_append.mp hxL with h | h
      · exact h
      · have hxe : x = e := by simpa using h
        exfalso
        have hin : x ∈ ((removeFirst p (sortBy lt (S ++ [e]))).1).filter p :=
          List.mem_filter.mpr ⟨hx, by rw [hxe]; exact he⟩
        rw [removeFirst_filter] at hin
        cases hf : (sortBy lt (S ++ [e])).filter p with
        | nil => rw [hf] at hin; simp at hin
        | cons a t =>
          rw [hf] at hfl hin
          have : t = [] := by
            cases t with
            | nil => rfl
            | cons b t' => simp at hfl
          rw [this] at hin; simp at hin
    · intro hx
      exact removeFirst_keeps p _ x ((mem_sortBy lt x _).mpr (List.mem_append_left _ hx)) (hnew x hx)

/-- remove, then add again: a file the list holds once is gone after the removal and back after the addition -/
theorem rm_then_add_core {α : Type} (lt : α → α → Bool) (p : α → Bool) (S : List α) (e : α)
    (hnd : S.Nodup) (hin : e ∈ S) (he : p e = true) (huniq : ∀ y ∈ S, p y = true → y = e) :
    (removeFirst p S).2 = true ∧ e ∉ (removeFirst p S).1 ∧
    ∀ x, x ∈ sortBy lt ((removeFirst p S).1 ++ [e]) ↔ x ∈ S := by
  refine ⟨?_, ?_, ?_⟩
  · rw [removeFirst_flag]; exact List.any_eq_true.mpr ⟨e, hin, he⟩
  · intro hmem
    have h1 : e ∈ ((removeFirst p S).1).filter p := List.mem_filter.mpr ⟨hmem, he⟩
    rw [removeFirst_filter] at h1
    have hnd' : (S.filter p).Nodup := hnd.sublist List.filter_sublist
    cases hf : S.filter p with
    | nil => rw [hf] at h1; simp at h1
    | cons a t =>
      rw [hf] at h1 hnd'
      cases t with
      | nil => simp at h1
      | cons b t' =>
        have ha : a ∈ S.filter p := by rw [hf]; simp
        have hb : b ∈ S.filter p := by rw [hf]; simp
        have ha' := List.mem_filter.mp ha
        have hb' := List.mem_filter.mp hb
        have eab : a = b := (huniq a ha'.1 ha'.2).trans (huniq b hb'.1 hb'.2).symm
        rw [eab] at hnd'
        simp at hnd'
  · intro x
    rw [mem_sortBy]
    constructor
    · intro hx
      rcases List.mem_append.mp hx with h | h
      · exact removeFirst_subset p S x h
      · have : x = e := by simpa using h
        rw [this]; exact hin
    · intro hx
      cases hpx : p x with
      | true => rw [huniq x hx hpx]; simp
      | false => exact List.mem_append_left _ (removeFirst_keeps p S x hx hpx)

/-! ### the argument list of the edited node -/

theorem posPart_kwOnly : ∀ items : Items, items.kwOnly.posPart = []
  | .nil => rfl
  | .pos _ r => by simp [Items.kwOnly, posPart_kwOnly r]
  | .kw _ _ r => by simp [Items.kwOnly, Items.posPart, posPart_kwOnly r]

theorem kwPart_kwOnly : ∀ items : Items, items.kwOnly.kwPart = items.kwPart
  | .nil => rfl
  | .pos _ r => by simp [Items.kwOnly, Items.kwPart, kwPart_kwOnly r]
  | .kw _ _ r => by simp [Items.kwOnly, Items.kwPart, kwPart_kwOnly r]

/-- positional arguments replaced, keyword arguments untouched -/
theorem posPart_relist (l : List Expr) (items : Items) : ((itemsOfList l).append items.kwOnly).posPart = l := by
  simp [posPart_append, posPart_itemsOfList, posPart_kwOnly]

theorem kwPart_relist (l : List Expr) (items : Items) : ((itemsOfList l).append items.kwOnly).kwPart = items.kwPart := by
  simp [kwPart_append, kwPart_itemsOfList, kwPart_kwOnly]

/-- a list of file-name literals only: the sort step is `sorted(…)` of the whole list -/
theorem sortArgs_plain_allStr (l : List Expr) (h : ∀ e ∈ l, e.isStr = true) : sortArgs false l = sortBy srcLt l := by
  have h1 : l.filter (fun e => !e.isStr) = [] := List.filter_eq_nil_iff.mpr (fun e he => by simp [h e he])
  have h2 : l.filter (fun e => e.isStr) = l := List.filter_eq_self.mpr (fun e he => h e he)
  simp [sortArgs, h1, h2]

theorem mem_insertSet (x y : List Char) : ∀ l, y ∈ insertSet x l ↔ y = x ∨ y ∈ l := by
  intro l
  induction l with
  | nil => simp [insertSet]
  | cons z zs ih =>
    unfold insertSet
    by_cases h1 : x = z
    · simp only [h1, if_true, List.mem_cons]
      constructor
      · intro h; exact Or.inr h
      · rintro (h | h)
        · exact Or.inl h
        · exact h
    · cases h2 : strLt x z with
      | true => simp [h1]
      | false =>
        simp only [h1, if_false, Bool.false_eq_true, List.mem_cons, ih]
        constructor
        · rintro (h | h | h)
          · exact Or.inr (Or.inl h)
          · exact Or.inl h
          · exact Or.inr (Or.inr h)
        · rintro (h | h | h)
          · exact Or.inr (Or.inl h)
          · exact Or.inl h
          · exact Or.inr (Or.inr h)

/-- `sorted(set(…))` holds exactly the requested names -/
theorem mem_sortedSet (y : List Char) : ∀ l, y ∈ sortedSet l ↔ y ∈ l := by
  intro l
  induction l with
  | nil => simp [sortedSet]
  | cons x xs ih => simp [sortedSet, mem_insertSet, ih]

/-- what `add` appends: a literal for every requested file that is not yet a file of the target — nothing else -/
theorem mem_toAppend (root : List Char) (oldT files : List (List Char)) (e : Expr) :
    e ∈ toAppend root oldT files ↔ ∃ f ∈ files, alreadyThere root oldT f = false ∧ e = .str 0 (normpath f) false false := by
  unfold toAppend
  rw [List.mem_filterMap]
  constructor
  · rintro ⟨f, hf, h⟩
    cases ha : alreadyThere root oldT f with
    | true => rw [ha] at h; simp at h
    | false =>
      rw [ha] at h
      exact ⟨f, (mem_sortedSet f files).mp hf, ha, by simpa using h.symm⟩
  · rintro ⟨f, hf, ha, he⟩
    exact ⟨f, (mem_sortedSet f files).mpr hf, by simp [ha, he]⟩

theorem toAppend_isStr (root : List Char) (oldT files : List (List Char)) : ∀ e ∈ toAppend root oldT files, e.isStr = true := by
  intro e he
  obtain ⟨f, _, _, h⟩ := (mem_toAppend root oldT files e).mp he
  rw [h]; rfl

theorem rmAll_subset (root : List Char) : ∀ (files : List (List Char)) (args : List Expr) (n : Nat) (x : Expr),
    x ∈ (rmAll root files args n).1 → x ∈ args := by
  intro files
  induction files with
  | nil => intro args n x h; exact h
  | cons f fs ih =>
    intro args n x h
    unfold rmAll at h
    exact removeFirst_subset _ args x (ih _ _ x h)

theorem rmAll_keeps (root : List Char) : ∀ (files : List (List Char)) (args : List Expr) (n : Nat) (x : Expr),
    x ∈ args → (∀ f ∈ files, srcMatches root f x = false) → x ∈ (rmAll root files args n).1 := by
  intro files
  induction files with
  | nil => intro args n x h _; exact h
  | cons f fs ih =>
    intro args n x h hm
    unfold rmAll
    exact ih _ _ x (removeFirst_keeps _ args x h (hm f (by simp))) (fun g hg => hm g (by simp [hg]))

/-- is `root / f` a file of the target, said with the test `find_node` uses -/
theorem alreadyThere_eq_any (root f : List Char) : ∀ R : List Expr, (∀ e ∈ R, e.isStr = true) →
    alreadyThere root (R.map Expr.strVal) f = R.any (srcMatches root f) := by
  intro R
  induction R with
  | nil => intro _; rfl
  | cons y ys ih =>
    intro h
    have hy : y.isStr = true := h y (by simp)
    have ih' := ih (fun e he => h e (by simp [he]))
    unfold alreadyThere at ih' ⊢
    have hc : (normpath (joinPath root f) == normpath (joinPath root y.strVal))
        = (normpath (joinPath root y.strVal) == normpath (joinPath root f)) := BEq.comm
    simp only [List.map_cons, List.contains_cons, List.any_cons, ih', srcMatches, hy, Bool.true_and, stringMatches, hc]

/-! ### the file around the re-printed node -/

theorem applySrc_eq (raw : List Char) (sp : Span) (node : Expr) (root : List Char) (kind : ListKind) (oldT : List (List Char))
    (cmd : SrcCmd) (s e : Nat)
    (hs : startOf (lineOffsets raw) sp = .ok s) (he : endOf (lineOffsets raw) sp = .ok e) :
    applySrc raw sp node root kind oldT cmd = .ok (match editSrc root kind oldT cmd node with
      | none => raw
      | some n' => raw.take s ++ newData n' ++ raw.drop e) := by
  unfold applySrc
  cases editSrc root kind oldT cmd node with
  | none => rfl
  | some n' =>
    simp [applyChanges, sortDesc, sortDescBy, insertDescBy, applyWork, removeNode, hs, he, splice, Work.str,
      bind, Except.bind, pure, Except.pure]

end MesonModel.Rewrite
