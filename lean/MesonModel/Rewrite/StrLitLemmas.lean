import MesonModel.Rewrite.StrLit
/-
C17 — reading back what `AstPrinter.escape` wrote, as a statement about the translate TABLE:
`tableOk tbl` (decidable) ⇒ for every value `v` the literal `'` ++ escape v ++ `'` is one string token
whose decoded value is `v`. `tableBsOk tbl` (backslash entry right, no entries besides backslash and
quote) ⇒ the same for every `v` without a quote.
-/
namespace MesonModel.Rewrite

def bs : Char := '\\'
def qt : Char := '\''

/-- the backslash is doubled and nothing but backslash / quote is translated -/
def tableBsOk (tbl : List (Char × List Char)) : Bool :=
  tbl.lookup bs == some [bs, bs] && tbl.all (fun p => p.1 == bs || p.1 == qt)

/-- … and the quote is written as backslash-quote -/
def tableOk (tbl : List (Char × List Char)) : Bool :=
  tableBsOk tbl && tbl.lookup qt == some [bs, qt]

theorem lookup_none_of_all {tbl : List (Char × List Char)} {c : Char}
    (h : tbl.all (fun p => p.1 == bs || p.1 == qt) = true) (h1 : c ≠ bs) (h2 : c ≠ qt) :
    tbl.lookup c = none := by
  induction tbl with
  | nil => rfl
  | cons p t ih =>
    obtain ⟨k, v⟩ := p
    simp only [List.all_cons, Bool.and_eq_true, Bool.or_eq_true, beq_iff_eq] at h
    have hk : (c == k) = false := by
      rcases h.1 with h' | h' <;> simp [h', h1, h2]
    simp [List.lookup, hk, ih h.2]

theorem escapeChar_bs {tbl} (h : tableBsOk tbl = true) : escapeChar tbl bs = [bs, bs] := by
  simp only [tableBsOk, Bool.and_eq_true, beq_iff_eq] at h
  simp [escapeChar, h.1]

theorem escapeChar_other {tbl} (h : tableBsOk tbl = true) {c : Char} (h1 : c ≠ bs) (h2 : c ≠ qt) :
    escapeChar tbl c = [c] := by
  simp only [tableBsOk, Bool.and_eq_true, beq_iff_eq] at h
  simp [escapeChar, lookup_none_of_all h.2 h1 h2]

theorem escapeChar_qt {tbl} (h : tableOk tbl = true) : escapeChar tbl qt = [bs, qt] := by
  simp only [tableOk, Bool.and_eq_true, beq_iff_eq] at h
  simp [escapeChar, h.2]

/-- what a well-formed table makes of one character -/
def escUnit (c : Char) : List Char := if c = bs then [bs, bs] else if c = qt then [bs, qt] else [c]

theorem escapeWith_cons (tbl) (c : Char) (v : List Char) :
    escapeWith tbl (c :: v) = escapeChar tbl c ++ escapeWith tbl v := by
  simp [escapeWith]

theorem scanStr_quote (rest : List Char) : scanStr ('\'' :: rest) = some ([], rest) := by
  rw [scanStr.eq_def]; simp
theorem scanStr_plain (c : Char) (t : List Char) (h1 : c ≠ '\'') (h2 : c ≠ '\\') :
    scanStr (c :: t) = (scanStr t).map (fun p => (c :: p.1, p.2)) := by
  rw [scanStr.eq_def]; simp [h1, h2]
theorem scanStr_esc (d : Char) (t : List Char) (h : d ≠ '\n') :
    scanStr ('\\' :: d :: t) = (scanStr t).map (fun p => ('\\' :: d :: p.1, p.2)) := by
  rw [scanStr.eq_def]; simp [h]
theorem decodeF_plain (f : Nat) (c : Char) (t : List Char) (h : c ≠ '\\') :
    decodeF (f + 1) (c :: t) = (decodeF f t).map (c :: ·) := by
  simp [decodeF, h]
theorem decodeF_esc (f : Nat) (d : Char) (t : List Char) (cp : Nat) (h : escAt (d :: t) = .ok cp 1) :
    decodeF (f + 1) ('\\' :: d :: t) = (decodeF f t).map (Char.ofNat cp :: ·) := by
  simp [decodeF, h]

theorem escUnit_bs : escUnit bs = ['\\', '\\'] := by decide
theorem escUnit_qt : escUnit qt = ['\\', '\''] := by decide
theorem escUnit_other {c : Char} (h1 : c ≠ bs) (h2 : c ≠ qt) : escUnit c = [c] := by simp [escUnit, h1, h2]

/-- scanning: the token ends exactly at the closing quote that the printer appended -/
theorem scanStr_units (v rest : List Char) :
    scanStr (v.flatMap escUnit ++ '\'' :: rest) = some (v.flatMap escUnit, rest) := by
  induction v with
  | nil => simpa using scanStr_quote rest
  | cons c t ih =>
    by_cases hb : c = bs
    · subst hb
      rw [List.flatMap_cons, escUnit_bs]
      show scanStr ('\\' :: '\\' :: (t.flatMap escUnit ++ '\'' :: rest)) = _
      rw [scanStr_esc '\\' _ (by decide), ih]; rfl
    · by_cases hq : c = qt
      · subst hq
        rw [List.flatMap_cons, escUnit_qt]
        show scanStr ('\\' :: '\'' :: (t.flatMap escUnit ++ '\'' :: rest)) = _
        rw [scanStr_esc '\'' _ (by decide), ih]; rfl
      · have h1 : c ≠ '\'' := by simpa [qt] using hq
        have h2 : c ≠ '\\' := by simpa [bs] using hb
        rw [List.flatMap_cons, escUnit_other hb hq]
        show scanStr (c :: (t.flatMap escUnit ++ '\'' :: rest)) = _
        rw [scanStr_plain c _ h1 h2, ih]; rfl

theorem escAt_bs (x : List Char) : escAt ('\\' :: x) = .ok 92 1 := by
  simp [escAt, isOct, singleEsc]

theorem escAt_qt (x : List Char) : escAt ('\'' :: x) = .ok 39 1 := by
  simp [escAt, isOct, singleEsc]

/-- decoding: doubled backslashes and backslash-quote come back as one character, the rest is copied -/
theorem decodeF_units (v : List Char) : ∀ f, (v.flatMap escUnit).length ≤ f →
    decodeF f (v.flatMap escUnit) = some v := by
  induction v with
  | nil => intro f _; cases f <;> simp [decodeF]
  | cons c t ih =>
    intro f hf
    by_cases hb : c = bs
    · subst hb
      rw [List.flatMap_cons, escUnit_bs] at hf ⊢
      have hl : (t.flatMap escUnit).length + 2 ≤ f := by simpa using hf
      obtain ⟨g, rfl⟩ : ∃ g, f = g + 1 := ⟨f - 1, by omega⟩
      have h := ih g (by omega)
      show decodeF (g + 1) ('\\' :: '\\' :: t.flatMap escUnit) = _
      rw [decodeF_esc g '\\' _ 92 (escAt_bs _), h]; rfl
    · by_cases hq : c = qt
      · subst hq
        rw [List.flatMap_cons, escUnit_qt] at hf ⊢
        have hl : (t.flatMap escUnit).length + 2 ≤ f := by simpa using hf
        obtain ⟨g, rfl⟩ : ∃ g, f = g + 1 := ⟨f - 1, by omega⟩
        have h := ih g (by omega)
        show decodeF (g + 1) ('\\' :: '\'' :: t.flatMap escUnit) = _
        rw [decodeF_esc g '\'' _ 39 (escAt_qt _), h]; rfl
      · rw [List.flatMap_cons, escUnit_other hb hq] at hf ⊢
        have hl : (t.flatMap escUnit).length + 1 ≤ f := by simpa using hf
        obtain ⟨g, rfl⟩ : ∃ g, f = g + 1 := ⟨f - 1, by omega⟩
        have h := ih g (by omega)
        have h2 : c ≠ '\\' := by simpa [bs] using hb
        show decodeF (g + 1) (c :: t.flatMap escUnit) = _
        rw [decodeF_plain g c _ h2, h]; rfl

theorem escapeWith_eq_units_of_ok {tbl} (h : tableOk tbl = true) (v : List Char) :
    escapeWith tbl v = v.flatMap escUnit := by
  have hb : tableBsOk tbl = true := by
    simp only [tableOk, Bool.and_eq_true] at h; exact h.1
  induction v with
  | nil => simp [escapeWith]
  | cons c t ih =>
    rw [escapeWith_cons, ih, List.flatMap_cons]
    congr 1
    by_cases h1 : c = bs
    · subst h1; simp [escUnit, escapeChar_bs hb]
    · by_cases h2 : c = qt
      · subst h2; simp [escUnit, h1, escapeChar_qt h]
      · simp [escUnit, h1, h2, escapeChar_other hb h1 h2]

theorem escapeWith_eq_units_of_bsOk {tbl} (hb : tableBsOk tbl = true) (v : List Char) (hv : qt ∉ v) :
    escapeWith tbl v = v.flatMap escUnit := by
  induction v with
  | nil => simp [escapeWith]
  | cons c t ih =>
    have hc : c ≠ qt := fun e => hv (by simp [e])
    have ht : qt ∉ t := fun e => hv (by simp [e])
    rw [escapeWith_cons, ih ht, List.flatMap_cons]
    congr 1
    by_cases h1 : c = bs
    · subst h1; simp [escUnit, escapeChar_bs hb]
    · simp [escUnit, h1, hc, escapeChar_other hb h1 hc]

/-- the printed literal of `v` reads back as `v`, given what `escape` made of `v` is `v.flatMap escUnit` -/
theorem lexString_units (v : List Char) :
    lexString ('\'' :: (v.flatMap escUnit ++ ['\''])) = some v := by
  have hs := scanStr_units v []
  simp only [lexString, hs, decodeEscapes]
  exact decodeF_units v _ (Nat.le_refl _)

end MesonModel.Rewrite
