import MesonModel.Rewrite.Splice
/-
C17 — locality of `raw[:start] + str + raw[end:]` and of a whole work list applied last-edit-first
with offsets of the ORIGINAL text.
-/
namespace MesonModel.Rewrite

/-- an edit: replace `[s, e)` by `r` -/
abbrev SpanEdit := Nat × Nat × List Char

/-- the loop of `apply_changes` on already computed offsets -/
def applySpans : List Char → List SpanEdit → List Char
  | raw, [] => raw
  | raw, (s, e, r) :: rest => applySpans (splice raw s e r) rest

/-- sorted by position descending and pairwise disjoint: every later edit ends before the earlier starts -/
def DescDisjoint : List SpanEdit → Prop
  | [] => True
  | (s, e, _) :: rest => s ≤ e ∧ (∀ x ∈ rest, x.2.1 ≤ s) ∧ DescDisjoint rest

/-- all untouched segments of `raw` in place, replacements in between (edits listed descending) -/
def simul : List Char → List SpanEdit → List Char
  | raw, [] => raw
  | raw, (s, e, r) :: rest => simul (raw.take s) rest ++ r ++ raw.drop e

theorem splice_parts (A B C r : List Char) :
    splice (A ++ B ++ C) A.length (A.length + B.length) r = A ++ r ++ C := by
  simp [splice, List.take_append, List.drop_append]

theorem splice_append_right (p q : List Char) (s e : Nat) (r : List Char) (hse : s ≤ e) (he : e ≤ p.length) :
    splice (p ++ q) s e r = splice p s e r ++ q := by
  simp only [splice]
  rw [List.take_append_of_le_length (by omega), List.drop_append_of_le_length he]
  simp [List.append_assoc]

theorem splice_length_ge (p : List Char) (s e : Nat) (r : List Char) (hs : s ≤ p.length) :
    s ≤ (splice p s e r).length := by
  simp [splice]; omega

theorem applySpans_append (rest : List SpanEdit) : ∀ (p q : List Char) (bound : Nat), DescDisjoint rest →
    (∀ x ∈ rest, x.2.1 ≤ bound) → bound ≤ p.length → applySpans (p ++ q) rest = applySpans p rest ++ q := by
  induction rest with
  | nil => intros; rfl
  | cons x t ih =>
    intro p q bound hd hb hp
    obtain ⟨s, e, r⟩ := x
    obtain ⟨hse, hlt, hd'⟩ := hd
    have he : e ≤ bound := hb (s, e, r) (by simp)
    simp only [applySpans]
    rw [splice_append_right p q s e r hse (by omega)]
    exact ih _ q s hd' hlt (splice_length_ge p s e r (by omega))

/-- last-edit-first application with the ORIGINAL offsets is the simultaneous replacement -/
theorem applySpans_eq_simul (edits : List SpanEdit) : ∀ (raw : List Char), DescDisjoint edits →
    (∀ x ∈ edits, x.2.1 ≤ raw.length) → applySpans raw edits = simul raw edits := by
  induction edits with
  | nil => intros; rfl
  | cons x t ih =>
    intro raw hd hb
    obtain ⟨s, e, r⟩ := x
    obtain ⟨hse, hlt, hd'⟩ := hd
    have he : e ≤ raw.length := hb (s, e, r) (by simp)
    have hs : s ≤ raw.length := by omega
    simp only [applySpans, simul]
    have : splice raw s e r = raw.take s ++ (r ++ raw.drop e) := by simp [splice]
    rw [this, applySpans_append t (raw.take s) _ s hd' hlt (by simp [List.length_take]; omega)]
    rw [ih (raw.take s) hd' (by intro x hx; have := hlt x hx; simp [List.length_take]; omega)]
    simp [List.append_assoc]

/-- the text after the last edited span is unchanged -/
theorem simul_suffix (raw : List Char) (s e : Nat) (r : List Char) (rest : List SpanEdit) :
    ∃ pre, simul raw ((s, e, r) :: rest) = pre ++ raw.drop e := ⟨_, rfl⟩

/-- the text before the first edited span is unchanged -/
theorem simul_prefix (edits : List SpanEdit) : ∀ (raw : List Char) (p : Nat), p ≤ raw.length →
    (∀ x ∈ edits, p ≤ x.1) → (simul raw edits).take p = raw.take p := by
  induction edits with
  | nil => intros; rfl
  | cons x t ih =>
    intro raw p hp hb
    obtain ⟨s, e, r⟩ := x
    have hps : p ≤ s := hb (s, e, r) (by simp)
    have h1 := ih (raw.take s) p (by simp [List.length_take]; omega) (fun x hx => hb x (by simp [hx]))
    have hlen : p ≤ (simul (raw.take s) t).length := by
      have := congrArg List.length h1
      simp [List.length_take] at this
      omega
    simp only [simul, List.append_assoc]
    rw [List.take_append_of_le_length hlen, h1, List.take_take]
    congr 1
    omega

/-- two disjoint edits: doing the later one first with the original offsets equals doing the earlier one
first and shifting the later one by the length change — both are the simultaneous replacement -/
theorem two_edits_commute (A B C D E r1 r2 : List Char) :
    splice (splice (A ++ B ++ C ++ D ++ E) (A.length + B.length + C.length) (A.length + B.length + C.length + D.length) r1)
        A.length (A.length + B.length) r2
      = A ++ r2 ++ C ++ r1 ++ E ∧
    splice (splice (A ++ B ++ C ++ D ++ E) A.length (A.length + B.length) r2)
        (A.length + r2.length + C.length) (A.length + r2.length + C.length + D.length) r1
      = A ++ r2 ++ C ++ r1 ++ E := by
  constructor
  · have h1 := splice_parts (A ++ B ++ C) D E r1
    simp only [List.length_append, List.append_assoc, Nat.add_assoc] at h1
    simp only [List.append_assoc, Nat.add_assoc]
    rw [h1]
    have h2 := splice_parts A B (C ++ (r1 ++ E)) r2
    simp only [List.append_assoc] at h2
    rw [h2]
  · have h2 := splice_parts A B (C ++ D ++ E) r2
    simp only [List.append_assoc] at h2
    simp only [List.append_assoc, Nat.add_assoc]
    rw [h2]
    have h1 := splice_parts (A ++ r2 ++ C) D E r1
    simp only [List.length_append, List.append_assoc, Nat.add_assoc] at h1
    rw [h1]

/-! the work list is applied in position-descending order -/

/-- `a` lies strictly before `b` in the file -/
def posLt (a b : Work) : Prop :=
  a.span.line < b.span.line ∨ (a.span.line = b.span.line ∧ a.span.col < b.span.col)

theorem keyLtWith_full_iff (a b : Work) : keyLtWith true true a b = true ↔ posLt a b := by
  simp [keyLtWith, posLt]

theorem mem_insertDescBy (lt : Work → Work → Bool) (w x : Work) (l : List Work) :
    x ∈ insertDescBy lt w l ↔ x = w ∨ x ∈ l := by
  induction l with
  | nil => simp [insertDescBy]
  | cons y ys ih =>
    simp only [insertDescBy]
    split
    · simp [ih]; constructor
      · rintro (h | h | h) <;> simp [h]
      · rintro (h | h | h) <;> simp [h]
    · simp

theorem sortDescBy_length (lt : Work → Work → Bool) (ws : List Work) : (sortDescBy lt ws).length = ws.length := by
  induction ws with
  | nil => rfl
  | cons w t ih =>
    have hins : ∀ (l : List Work), (insertDescBy lt w l).length = l.length + 1 := by
      intro l
      induction l with
      | nil => rfl
      | cons x xs ihx => simp only [insertDescBy]; split <;> simp [ihx]
    simp [sortDescBy, hins, ih]

/-- insertion keeps "no element is followed by one that lies later in the file" -/
theorem insertDescBy_sorted (w : Work) (l : List Work)
    (h : l.Pairwise (fun a b => ¬ posLt a b)) :
    (insertDescBy (keyLtWith true true) w l).Pairwise (fun a b => ¬ posLt a b) := by
  induction l with
  | nil => simp [insertDescBy]
  | cons x xs ih =>
    rw [List.pairwise_cons] at h
    simp only [insertDescBy]
    split
    · rename_i hlt
      have hwx : posLt w x := (keyLtWith_full_iff w x).mp hlt
      rw [List.pairwise_cons]
      refine ⟨?_, ih h.2⟩
      intro y hy
      rcases (mem_insertDescBy _ w y xs).mp hy with rfl | hy'
      · unfold posLt at hwx ⊢; omega
      · exact h.1 y hy'
    · rename_i hlt
      have hwx : ¬ posLt w x := fun hp => hlt ((keyLtWith_full_iff w x).mpr hp)
      rw [List.pairwise_cons]
      refine ⟨?_, List.pairwise_cons.mpr h⟩
      intro y hy
      rcases List.mem_cons.mp hy with rfl | hy'
      · exact hwx
      · have := h.1 y hy'
        unfold posLt at hwx this ⊢; omega

theorem sortDescBy_sorted (ws : List Work) :
    (sortDescBy (keyLtWith true true) ws).Pairwise (fun a b => ¬ posLt a b) := by
  induction ws with
  | nil => simp [sortDescBy]
  | cons w t ih => exact insertDescBy_sorted w _ ih

/-! line offsets: `str.splitlines(True)` against the lexer's `'\n'`-only line counting -/

theorem lineLens_eq_nlLineLens (s : List Char)
    (plain : ∀ c ∈ s, isLineSep c = true → c = '\n') : lineLens s = nlLineLens s := by
  induction s with
  | nil => rfl
  | cons c t ih =>
    have iht := ih (fun d hd => plain d (by simp [hd]))
    have hc := plain c (by simp)
    simp only [lineLens, nlLineLens]
    by_cases h1 : c = '\r'
    · exact absurd (hc (by subst h1; decide)) (by subst h1; decide)
    · by_cases h2 : isLineSep c = true
      · have := hc h2
        subst this
        have hnl : isLineSep '\n' = true := by decide
        simp [iht, hnl]
      · have hn : c ≠ '\n' := by
          intro e; subst e; exact h2 (by decide)
        simp [h1, h2, hn, iht]

theorem lineOffsets_eq_lexLineOffsets (s : List Char)
    (plain : ∀ c ∈ s, isLineSep c = true → c = '\n') : lineOffsets s = lexLineOffsets s := by
  simp [lineOffsets, lexLineOffsets, lineLens_eq_nlLineLens s plain]

end MesonModel.Rewrite
