/-
C17 — list-valued keyword edits of `mesonbuild/rewriter.py`:
`MTypeList._remove_helper` (the loop behind `remove` / `remove_regex`), `MTypeList.add_value`, and the
key matching `process_default_options` builds on it (`remove_regex` with the pattern `<key>=.*`,
matched FROM THE START of the element by `re.match`). General regular expressions are not modelled;
the `<key>=.*` pattern is, for keys without regex metacharacters: `re.match(k + '=.*', e)` holds exactly
when `e` starts with `k` followed by `=` (`.*` matches any rest, and an element holds no newline here).
-/
namespace MesonModel.Rewrite

/-- `_remove_helper`: `for i in arguments: if not check_remove_node(i): removed_list += [i]` -/
def removeLoop {α : Type} (hit : α → Bool) : List α → List α → List α
  | acc, [] => acc
  | acc, i :: rest => if !hit i then removeLoop hit (acc ++ [i]) rest else removeLoop hit acc rest

def removeHelper {α : Type} (hit : α → Bool) (l : List α) : List α := removeLoop hit [] l

/-- `remove_value`: `equal_func(i, j)` for some requested `j` -/
def removeEqual (vals l : List (List Char)) : List (List Char) := removeHelper (fun e => vals.contains e) l

/-- `re.match(key + '=.*', e)` for a metacharacter-free key -/
def keyMatches (key e : List Char) : Bool := (key ++ ['=']).isPrefixOf e

/-- first half of `process_default_options`: `remove_regex` with `[f'{x}=.*' for x in options]` -/
def defaultOptionsDelete (keys : List (List Char)) (l : List (List Char)) : List (List Char) :=
  removeHelper (fun e => keys.any (fun k => keyMatches k e)) l

/-- second half for `set`: `add` of `f'{key}={val}'` for the sorted keys (`kvs` already sorted, values as validated) -/
def defaultOptionsSet (kvs : List (List Char × List Char)) (l : List (List Char)) : List (List Char) :=
  defaultOptionsDelete (kvs.map (·.1)) l ++ kvs.map (fun kv => kv.1 ++ '=' :: kv.2)

/-- `add_value` -/
def addValues (vals l : List (List Char)) : List (List Char) := l ++ vals

theorem removeLoop_eq_filter {α : Type} (hit : α → Bool) (l : List α) :
    ∀ acc, removeLoop hit acc l = acc ++ l.filter (fun i => !hit i) := by
  induction l with
  | nil => intro acc; simp [removeLoop]
  | cons i t ih =>
    intro acc
    cases h : hit i <;> simp [removeLoop, h, ih]

/-- the loop as coded is `filter`: elements that are not hit are kept, in their order, and nothing else is -/
theorem removeHelper_eq_filter {α : Type} (hit : α → Bool) (l : List α) :
    removeHelper hit l = l.filter (fun i => !hit i) := by
  simp [removeHelper, removeLoop_eq_filter]

/-- a key followed by `=` is a prefix of `k' = v` only for `k' = k` (keys hold no `=`) -/
theorem keyMatches_own_key_only (k k' v : List Char) (hk : '=' ∉ k) (hk' : '=' ∉ k') :
    keyMatches k (k' ++ '=' :: v) = true → k = k' := by
  induction k generalizing k' with
  | nil =>
    cases k' with
    | nil => intro _; rfl
    | cons c t =>
      intro h
      simp [keyMatches, List.isPrefixOf] at h
      exact absurd (List.mem_cons.mpr (Or.inl h)) hk'
  | cons a s ih =>
    cases k' with
    | nil =>
      intro h
      simp [keyMatches, List.isPrefixOf] at h
      exact absurd (by simp [h.1]) hk
    | cons c t =>
      intro h
      simp only [keyMatches, List.cons_append, List.isPrefixOf, Bool.and_eq_true, beq_iff_eq] at h
      have hs : '=' ∉ s := fun e => hk (by simp [e])
      have ht : '=' ∉ t := fun e => hk' (by simp [e])
      rw [h.1, ih t hs ht (by simpa [keyMatches] using h.2)]

theorem keyMatches_self (k v : List Char) : keyMatches k (k ++ '=' :: v) = true := by
  induction k with
  | nil => simp [keyMatches, List.isPrefixOf]
  | cons a s ih => simp [keyMatches, List.isPrefixOf] at ih ⊢

/-- an element without `=` is never matched -/
theorem keyMatches_no_equals (k e : List Char) (he : '=' ∉ e) : keyMatches k e = false := by
  induction k generalizing e with
  | nil =>
    cases e with
    | nil => simp [keyMatches, List.isPrefixOf]
    | cons c t =>
      have : c ≠ '=' := fun h => he (by simp [h])
      simp [keyMatches, List.isPrefixOf]
      intro h; exact absurd h.symm this
  | cons a s ih =>
    cases e with
    | nil => simp [keyMatches, List.isPrefixOf]
    | cons c t =>
      have ht : '=' ∉ t := fun h => he (by simp [h])
      have := ih t ht
      simp only [keyMatches, List.cons_append, List.isPrefixOf] at this ⊢
      simp [this]

end MesonModel.Rewrite
