import MesonModel.Rewrite.StrLit
/-
C17 — own reader for ONE statement of meson source (`mparser.Lexer` / `Parser.e1 … e10`, `args`,
`key_values`), small and independent of the C02 parser model. It exists to state what the text
produced by `astPrint` means when it is read back: `parseText (astPrint e)` against `e.erase`.
All levels are 0; explicit parentheses become `Expr.paren` (erased by `Expr.erase`).
Outside its domain (non-decimal spellings other than 0x/0o/0b are covered; Unicode digits, `\N{}`)
it answers `none`.
-/
namespace MesonModel.Rewrite

inductive Tk where
  | id (n : List Char)
  | num (v : Nat)
  | str (v : List Char) (ml fs : Bool)
  /-- punctuation, operators and keywords by their spelling -/
  | sym (s : List Char)
  deriving Repr, BEq, DecidableEq

def isIdStart (c : Char) : Bool :=
  c = '_' || (65 ≤ c.toNat && c.toNat ≤ 90) || (97 ≤ c.toNat && c.toNat ≤ 122)
def isIdChar (c : Char) : Bool := isIdStart c || (48 ≤ c.toNat && c.toNat ≤ 57)
def isDec (c : Char) : Bool := 48 ≤ c.toNat && c.toNat ≤ 57

def keywords : List (List Char) :=
  [['t', 'r', 'u', 'e'],
   ['f', 'a', 'l', 's', 'e'],
   ['i', 'f'],
   ['e', 'l', 's', 'e'],
   ['e', 'l', 'i', 'f'],
   ['e', 'n', 'd', 'i', 'f'],
   ['a', 'n', 'd'],
   ['o', 'r'],
   ['n', 'o', 't'],
   ['f', 'o', 'r', 'e', 'a', 'c', 'h'],
   ['e', 'n', 'd', 'f', 'o', 'r', 'e', 'a', 'c', 'h'],
   ['i', 'n'],
   ['c', 'o', 'n', 't', 'i', 'n', 'u', 'e'],
   ['b', 'r', 'e', 'a', 'k']]

def singleSyms : List Char := ['(', ')', '[', ']', '{', '}', ',', '.', '+', '-', '*', '%', '/', ':', '=', '<', '>', '?']

/-- text up to the first `'''` (non-greedy `'''(.|\n)*?'''`), and the rest after it -/
def scanTriple : List Char → Option (List Char × List Char)
  | [] => none
  | c :: t =>
    if c = '\'' && t.take 2 = ['\'', '\''] then some ([], t.drop 2)
    else (scanTriple t).map (fun p => (c :: p.1, p.2))

def decNum (l : List Char) : Nat := l.foldl (fun a c => a * 10 + (c.toNat - 48)) 0
def binNum (l : List Char) : Nat := l.foldl (fun a c => a * 2 + (c.toNat - 48)) 0

/-- string token (single or triple quoted) starting at the opening quote -/
def lexQuoted (s : List Char) (fs : Bool) : Option (Tk × List Char) :=
  match s with
  | '\'' :: '\'' :: '\'' :: t =>
    match scanTriple t with
    | some (v, rest) => some (.str v true fs, rest)
    | none =>
      -- falls back to the `string` regex: `''` then the rest
      some (.str [] false fs, '\'' :: t)
  | '\'' :: t =>
    match scanStr t with
    | some (raw, rest) => (decodeEscapes raw).map (fun v => (.str v false fs, rest))
    | none => none
  | _ => none

def lexF : Nat → List Char → Option (List Tk)
  | 0, _ => none
  | _, [] => some []
  | f + 1, c :: t =>
    if c = ' ' || c = '\t' || c = '\n' then lexF f t
    else if c = '#' then lexF f (t.dropWhile (· != '\n'))
    else if c = 'f' && t.head? = some '\'' && (lexQuoted t true).isSome then
      match lexQuoted t true with
      | some (tk, rest) => (lexF f rest).map (tk :: ·)
      | none => none
    else if isIdStart c then
      let w := c :: t.takeWhile isIdChar
      let rest := t.dropWhile isIdChar
      (lexF f rest).map ((if keywords.contains w then Tk.sym w else Tk.id w) :: ·)
    else if isDec c then
      if c = '0' then
        match t with
        | x :: t' =>
          if (x = 'x' || x = 'X') && (t'.takeWhile isHex) ≠ [] then
            (lexF f (t'.dropWhile isHex)).map (Tk.num (hexNum (t'.takeWhile isHex)) :: ·)
          else if (x = 'o' || x = 'O') && (t'.takeWhile isOct) ≠ [] then
            (lexF f (t'.dropWhile isOct)).map (Tk.num (octNum (t'.takeWhile isOct)) :: ·)
          else if (x = 'b' || x = 'B') && (t'.takeWhile (fun d => d = '0' || d = '1')) ≠ [] then
            (lexF f (t'.dropWhile (fun d => d = '0' || d = '1'))).map
              (Tk.num (binNum (t'.takeWhile (fun d => d = '0' || d = '1'))) :: ·)
          else (lexF f t).map (Tk.num 0 :: ·)
        | [] => some [Tk.num 0]
      else
        let w := c :: t.takeWhile isDec
        (lexF f (t.dropWhile isDec)).map (Tk.num (decNum w) :: ·)
    else if c = '\'' then
      match lexQuoted (c :: t) false with
      | some (tk, rest) => (lexF f rest).map (tk :: ·)
      | none => none
    else if (c = '+' || c = '=' || c = '!' || c = '<' || c = '>') && t.head? = some '=' then
      (lexF f (t.drop 1)).map (Tk.sym [c, '='] :: ·)
    else if singleSyms.contains c then (lexF f t).map (Tk.sym [c] :: ·)
    else none

def lexText (s : List Char) : Option (List Tk) := lexF (s.length + 1) s

def cmpOps : List (List Char) := [['=', '='], ['!', '='], ['<'], ['<', '='], ['>'], ['>', '=']]

/- `Parser.e1 … e10`, `args`, `key_values`, `method_call`, `index_call`; `inT` is `in_ternary` -/
mutual
def pE1 : Nat → Bool → List Tk → Option (Expr × List Tk)
  | 0, _, _ => none
  | f + 1, inT, ts => do
    let (left, r) ← pE2 f inT ts
    match r with
    | .sym ['+', '='] :: r' =>
      let (v, r'') ← pE1 f inT r'
      match left with
      | .id _ n => pure (.plusassign 0 n v, r'')
      | _ => none
    | .sym ['='] :: r' =>
      let (v, r'') ← pE1 f inT r'
      match left with
      | .id _ n => pure (.assign 0 n v, r'')
      | _ => none
    | .sym ['?'] :: r' =>
      if inT then none else
      let (t, r2) ← pE1 f true r'
      match r2 with
      | .sym [':'] :: r3 =>
        let (e, r4) ← pE1 f true r3
        pure (.ternary 0 left t e, r4)
      | _ => none
    | _ => pure (left, r)
def pE2 : Nat → Bool → List Tk → Option (Expr × List Tk)
  | 0, _, _ => none
  | f + 1, inT, ts => do
    let (left, r) ← pE3 f inT ts
    pE2loop f inT left r
def pE2loop : Nat → Bool → Expr → List Tk → Option (Expr × List Tk)
  | 0, _, _, _ => none
  | f + 1, inT, left, ts =>
    match ts with
    | .sym ['o', 'r'] :: r =>
      if left == .empty then none else do
      let (right, r') ← pE3 f inT r
      pE2loop f inT (.or 0 left right) r'
    | _ => some (left, ts)
def pE3 : Nat → Bool → List Tk → Option (Expr × List Tk)
  | 0, _, _ => none
  | f + 1, inT, ts => do
    let (left, r) ← pE4 f inT ts
    pE3loop f inT left r
def pE3loop : Nat → Bool → Expr → List Tk → Option (Expr × List Tk)
  | 0, _, _, _ => none
  | f + 1, inT, left, ts =>
    match ts with
    | .sym ['a', 'n', 'd'] :: r =>
      if left == .empty then none else do
      let (right, r') ← pE4 f inT r
      pE3loop f inT (.and 0 left right) r'
    | _ => some (left, ts)
def pE4 : Nat → Bool → List Tk → Option (Expr × List Tk)
  | 0, _, _ => none
  | f + 1, inT, ts => do
    let (left, r) ← pE5 f inT ts
    match r with
    | .sym ['i', 'n'] :: r' =>
      let (right, r'') ← pE5 f inT r'
      pure (.cmp 0 ['i', 'n'] left right, r'')
    | .sym ['n', 'o', 't'] :: .sym ['i', 'n'] :: r' =>
      let (right, r'') ← pE5 f inT r'
      pure (.cmp 0 ['n', 'o', 't', ' ', 'i', 'n'] left right, r'')
    | .sym ['n', 'o', 't'] :: r' => pure (left, r')   -- the `not` token is dropped (mparser as coded)
    | .sym s :: r' =>
      if cmpOps.contains s then do
        let (right, r'') ← pE5 f inT r'
        pure (.cmp 0 s left right, r'')
      else pure (left, r)
    | _ => pure (left, r)
def pE5 : Nat → Bool → List Tk → Option (Expr × List Tk)
  | 0, _, _ => none
  | f + 1, inT, ts => do
    let (left, r) ← pE6 f inT ts
    pE5loop f inT left r
def pE5loop : Nat → Bool → Expr → List Tk → Option (Expr × List Tk)
  | 0, _, _, _ => none
  | f + 1, inT, left, ts =>
    match ts with
    | .sym [c] :: r =>
      if c = '+' || c = '-' then do
        let (right, r') ← pE6 f inT r
        pE5loop f inT (.arith 0 [c] [c] left right) r'
      else some (left, ts)
    | _ => some (left, ts)
def pE6 : Nat → Bool → List Tk → Option (Expr × List Tk)
  | 0, _, _ => none
  | f + 1, inT, ts => do
    let (left, r) ← pE7 f inT ts
    pE6loop f inT left r
def pE6loop : Nat → Bool → Expr → List Tk → Option (Expr × List Tk)
  | 0, _, _, _ => none
  | f + 1, inT, left, ts =>
    match ts with
    | .sym [c] :: r =>
      if c = '%' || c = '*' || c = '/' then do
        let (right, r') ← pE7 f inT r
        pE6loop f inT (.arith 0 [c] [c] left right) r'
      else some (left, ts)
    | _ => some (left, ts)
def pE7 : Nat → Bool → List Tk → Option (Expr × List Tk)
  | 0, _, _ => none
  | f + 1, inT, ts =>
    match ts with
    | .sym ['n', 'o', 't'] :: r => do
      let (e, r') ← pE8 f inT r
      pure (.not 0 e, r')
    | .sym ['-'] :: r => do
      let (e, r') ← pE8 f inT r
      pure (.uminus 0 e, r')
    | _ => pE8 f inT ts
def pE8 : Nat → Bool → List Tk → Option (Expr × List Tk)
  | 0, _, _ => none
  | f + 1, inT, ts => do
    let (left, r) ← pE9 f inT ts
    match r with
    | .sym ['('] :: r' =>
      let (items, r'') ← pArgs f inT r'
      match r'', left with
      | .sym [')'] :: r3, .id _ n => pE8loop f inT (.call 0 n 0 items) r3
      | _, _ => none
    | _ => pE8loop f inT left r
def pE8loop : Nat → Bool → Expr → List Tk → Option (Expr × List Tk)
  | 0, _, _, _ => none
  | f + 1, inT, left, ts =>
    match ts with
    | .sym ['.'] :: .id n :: .sym ['('] :: r => do
      let (items, r') ← pArgs f inT r
      match r' with
      | .sym [')'] :: r'' => pE8loop f inT (.method 0 left n 0 items) r''
      | _ => none
    | .sym ['.'] :: _ => none
    | .sym ['['] :: r => do
      let (i, r') ← pE1 f inT r
      match r' with
      | .sym [']'] :: r'' => pE8loop f inT (.index 0 left i) r''
      | _ => none
    | _ => some (left, ts)
def pE9 : Nat → Bool → List Tk → Option (Expr × List Tk)
  | 0, _, _ => none
  | f + 1, inT, ts =>
    match ts with
    | .sym ['('] :: r => do
      let (e, r') ← pE1 f inT r
      match r' with
      | .sym [')'] :: r'' => pure (.paren 0 e, r'')
      | _ => none
    | .sym ['['] :: r => do
      let (items, r') ← pArgs f inT r
      match r' with
      | .sym [']'] :: r'' => pure (.arr 0 0 items, r'')
      | _ => none
    | .sym ['{'] :: r => do
      let (items, r') ← pKeyValues f inT r
      match r' with
      | .sym ['}'] :: r'' => pure (.dict 0 0 items, r'')
      | _ => none
    | .sym ['t', 'r', 'u', 'e'] :: r => some (.bool 0 true, r)
    | .sym ['f', 'a', 'l', 's', 'e'] :: r => some (.bool 0 false, r)
    | .id n :: r => some (.id 0 n, r)
    | .num v :: r => some (.num 0 v, r)
    | .str v ml fs :: r => some (.str 0 v ml fs, r)
    | _ => some (.empty, ts)
/-- `args()`; positional and keyword arguments are kept in separate lists by `ArgumentNode`
(positional first when printed) — a positional argument after a keyword argument is rejected here
(`order_error`, C02 finding) -/
def pArgs : Nat → Bool → List Tk → Option (Items × List Tk)
  | 0, _, _ => none
  | f + 1, inT, ts => do
    let (s, r) ← pE1 f inT ts
    if s == .empty then pure (.nil, r) else
    match r with
    | .sym [','] :: r' =>
      let (rest, r'') ← pArgs f inT r'
      pure (.pos s rest, r'')
    | .sym [':'] :: r' =>
      match s with
      | .id _ _ =>
        let (v, r'') ← pE1 f inT r'
        match r'' with
        | .sym [','] :: r3 =>
          let (rest, r4) ← pArgs f inT r3
          match rest with
          | .pos .. => none
          | _ => pure (.kw s v rest, r4)
        | _ => pure (.kw s v .nil, r'')
      | _ => none
    | _ => pure (.pos s .nil, r)
def pKeyValues : Nat → Bool → List Tk → Option (Items × List Tk)
  | 0, _, _ => none
  | f + 1, inT, ts => do
    let (s, r) ← pE1 f inT ts
    if s == .empty then pure (.nil, r) else
    match r with
    | .sym [':'] :: r' =>
      let (v, r'') ← pE1 f inT r'
      match r'' with
      | .sym [','] :: r3 =>
        let (rest, r4) ← pKeyValues f inT r3
        pure (.kw s v rest, r4)
      | _ => pure (.kw s v .nil, r'')
    | _ => none
end

def parseToks (ts : List Tk) : Option Expr :=
  match pE1 (16 * (ts.length + 2)) false ts with
  | some (e, []) => some e
  | _ => none

/-- read `s` as one statement -/
def parseText (s : List Char) : Option Expr := (lexText s).bind parseToks

end MesonModel.Rewrite
