import MesonModel.Rewrite.Printer
/-
C17 — `Rewriter.apply_changes` (`mesonbuild/rewriter.py:982-1073`) for ONE build file:
line offsets from `fdata.splitlines(True)`, work list sorted by `(lineno, colno)` descending,
`remove_node` replacing `raw[start:end]`, `add` appending at the end of the file.
-/
namespace MesonModel.Rewrite
open MesonModel.Generated

/-- `str.splitlines()` breaks after this character (table regenerated from CPython) -/
def isLineSep (c : Char) : Bool := PrecTable.lineSeps.contains c.toNat

/-- lengths of the items of `s.splitlines(True)`: a line ends after a separator character,
`\r\n` counts as one separator, no empty last line -/
def lineLens : List Char → List Nat
  | [] => []
  | c :: t =>
    let rest := lineLens t
    if c = '\r' then
      -- `\r\n` is one separator: the `\n` that follows would have closed a line of length 1
      if t.head? = some '\n' then 2 :: rest.tail else 1 :: rest
    else if isLineSep c then 1 :: rest
    else match rest with
      | [] => [1]
      | n :: ns => (n + 1) :: ns

/-- what the lexer does (`Lexer.lex`: only `'\n'` advances `lineno` / `line_start`) -/
def nlLineLens : List Char → List Nat
  | [] => []
  | c :: t =>
    if c = '\n' then 1 :: nlLineLens t
    else match nlLineLens t with
      | [] => [1]
      | n :: ns => (n + 1) :: ns

/-- `offset = 0; for j in m_lines: line_offsets += [offset]; offset += len(j)` -/
def offsetsFrom (o : Nat) : List Nat → List Nat
  | [] => []
  | n :: ns => o :: offsetsFrom (o + n) ns

def lineOffsets (s : List Char) : List Nat := offsetsFrom 0 (lineLens s)

/-- offsets of the line starts as the lexer numbers lines -/
def lexLineOffsets (s : List Char) : List Nat := offsetsFrom 0 (nlLineLens s)

inductive Err where
  | indexError
  deriving Repr, BEq

/-- Python `l[i]` for a possibly negative `i` -/
def pyIndex (l : List Nat) (i : Int) : Except Err Nat :=
  let j : Int := if i < 0 then i + l.length else i
  if j < 0 then .error .indexError
  else match l[j.toNat]? with
    | some v => .ok v
    | none => .error .indexError

/-- `lineno, colno, end_lineno, end_colno` of a node -/
structure Span where
  line : Nat
  col : Nat
  endLine : Nat
  endCol : Nat
  deriving Repr, BEq

/-- the `isinstance` tests of `remove_node` -/
inductive NodeKind where
  /-- `ArrayNode` / `FunctionNode` -/
  | arrOrFunc
  /-- `AssignmentNode`; `value` = extents of `node.value` when that is an `ArrayNode`/`FunctionNode` -/
  | assignment (value : Option Span)
  | other
  deriving Repr, BEq

inductive Action where
  | modify | rm | add
  deriving Repr, BEq

structure Work where
  action : Action
  span : Span
  kind : NodeKind
  /-- the node to print for `modify` / `add` -/
  node : Expr
  deriving Repr

/-- `raw[:start] + str + raw[end:]` -/
def splice (raw : List Char) (s e : Nat) (r : List Char) : List Char := raw.take s ++ r ++ raw.drop e

/-- `while raw[end] != '=': end += 1` (IndexError past the end) -/
def scanToEq : Nat → List Char → Nat → Except Err Nat
  | 0, _, _ => .error .indexError
  | f + 1, raw, e =>
    match raw[e]? with
    | none => .error .indexError
    | some c => if c = '=' then .ok e else scanToEq f raw (e + 1)

/-- `while end < len(raw) and raw[end] in {' ', '\n', '\t'}: end += 1` (stops at the end of the text) -/
def scanBlank : Nat → List Char → Nat → Except Err Nat
  | 0, _, e => .ok e
  | f + 1, raw, e =>
    match raw[e]? with
    | none => .ok e
    | some c => if c = ' ' || c = '\n' || c = '\t' then scanBlank f raw (e + 1) else .ok e

/-- `start = offsets[lineno - 1] + colno` -/
def startOf (offsets : List Nat) (sp : Span) : Except Err Nat := do
  let o ← pyIndex offsets ((sp.line : Int) - 1)
  pure (o + sp.col)

/-- `end = offsets[end_lineno - 1] + end_colno` -/
def endOf (offsets : List Nat) (sp : Span) : Except Err Nat := do
  let o ← pyIndex offsets ((sp.endLine : Int) - 1)
  pure (o + sp.endCol)

/-- `remove_node(i)` on the current `raw` with the offsets of the ORIGINAL file -/
def removeNode (offsets : List Nat) (raw : List Char) (action : Action) (sp : Span) (kind : NodeKind)
    (str : List Char) : Except Err (List Char) := do
  let start ← startOf offsets sp
  match kind with
  | .arrOrFunc =>
    let e ← endOf offsets sp
    pure (splice raw start e str)
  | .assignment value =>
    if action == .rm then
      let raw ← match value with
        | some vsp => do
          let vs ← startOf offsets vsp
          let ve ← endOf offsets vsp
          pure (splice raw vs ve [])
        | none => pure raw
      let e ← scanToEq (raw.length + 1) raw start
      let e ← scanBlank (raw.length + 1) raw (e + 1)
      pure (splice raw start e str)
    else pure (splice raw start start str)
  | .other => pure (splice raw start start str)

/-- the sort key of `apply_changes` as a strict "comes earlier" test; which components take part is
regenerated from the real method (`PrecTable.sortKeyUsesLine/Column`, probed with two queued nodes) -/
def keyLtWith (useLine useCol : Bool) (a b : Work) : Bool :=
  (useLine && decide (a.span.line < b.span.line)) ||
  ((!useLine || a.span.line == b.span.line) && useCol && decide (a.span.col < b.span.col))

def keyLt (a b : Work) : Bool := keyLtWith PrecTable.sortKeyUsesLine PrecTable.sortKeyUsesColumn a b

/-- stable insertion into a list sorted descending (`sorted(..., reverse=True)` keeps the original
order of equal keys) -/
def insertDescBy (lt : Work → Work → Bool) (w : Work) : List Work → List Work
  | [] => [w]
  | x :: xs => if lt w x then x :: insertDescBy lt w xs else w :: x :: xs

def sortDescBy (lt : Work → Work → Bool) : List Work → List Work
  | [] => []
  | w :: ws => insertDescBy lt w (sortDescBy lt ws)

def insertDesc (w : Work) (l : List Work) : List Work := insertDescBy keyLt w l
def sortDesc (ws : List Work) : List Work := sortDescBy keyLt ws

/-- `new_data` of a work item -/
def Work.str (w : Work) : List Char :=
  match w.action with
  | .rm => []
  | _ => newData w.node

/-- the `for i in str_list` loop -/
def applyWork (offsets : List Nat) : List Work → List Char → Except Err (List Char)
  | [], raw => .ok raw
  | w :: ws, raw =>
    match w.action with
    | .add =>
      -- `if raw and not raw.endswith('\n'): raw += '\n'` — the new statements start on a line of their own
      let raw := if !raw.isEmpty && raw.getLast? != some '\n' then raw ++ ['\n'] else raw
      applyWork offsets ws (raw ++ w.str ++ ['\n'])
    | a => do
      let raw' ← removeNode offsets raw a w.span w.kind w.str
      applyWork offsets ws raw'

/-- `apply_changes` for one file: `mods` = `modified_nodes`, `rms` = `to_remove_nodes`,
`adds` = `to_add_nodes` (each in list order) -/
def applyChanges (raw : List Char) (mods rms adds : List Work) : Except Err (List Char) :=
  let work := sortDesc (mods ++ rms) ++ adds
  applyWork (lineOffsets raw) work raw

end MesonModel.Rewrite
