import MesonModel.Rewrite.Command
/-
C17 — facts about the whole-command model of `kwargs set / delete` (Command.lean): the keyword dictionary after the
command, what stays of the argument list, and the text of the file around the re-printed node.
-/
namespace MesonModel.Rewrite

/-! ### the Python dict -/

theorem dictGet_replace_self (k : List Char) (v : Expr) : ∀ d : KwDict, dictHas d k = true →
    dictGet (dictReplace d k v) k = some v := by
  intro d
  induction d with
  | nil => intro h; simp [dictHas] at h
  | cons p t ih =>
    intro h
    cases hp : (p.1 == k) with
    | true => simp [dictReplace, dictGet, hp]
    | false =>
      have ht : dictHas t k = true := by simpa [dictHas, hp] using h
      simp [dictReplace, dictGet, hp, ih ht]

theorem dictGet_none_of_not_has (k : List Char) : ∀ d : KwDict, dictHas d k = false → dictGet d k = none := by
  intro d
  induction d with
  | nil => intro _; rfl
  | cons p t ih =>
    intro h
    cases hp : (p.1 == k) with
    | true => simp [dictHas, hp] at h
    | false =>
      have ht : dictHas t k = false := by simpa [dictHas, hp] using h
      simp [dictGet, hp, ih ht]

theorem dictGet_append (k : List Char) (b : KwDict) : ∀ a : KwDict,
    dictGet (a ++ b) k = match dictGet a k with | some x => some x | none => dictGet b k := by
  intro a
  induction a with
  | nil => simp [dictGet]
  | cons p t ih =>
    cases hp : (p.1 == k) with
    | true => simp [dictGet, hp]
    | false => simp [dictGet, hp, ih]

/-- `d[k] = v; d[k]` -/
theorem dictGet_dictSet_self (d : KwDict) (k : List Char) (v : Expr) : dictGet (dictSet d k v) k = some v := by
  unfold dictSet
  cases h : dictHas d k with
  | true => simp [dictGet_replace_self k v d h]
  | false => simp [dictGet_append, dictGet_none_of_not_has k d h, dictGet]

theorem dictGet_replace_other (k k' : List Char) (v : Expr) (hk : (k == k') = false) : ∀ d : KwDict,
    dictGet (dictReplace d k v) k' = dictGet d k' := by
  intro d
  induction d with
  | nil => rfl
  | cons p t ih =>
    cases hp : (p.1 == k) with
    | true =>
      have hpk : p.1 = k := by simpa using hp
      have hp' : (p.1 == k') = false := by rw [hpk]; exact hk
      simp [dictReplace, dictGet, hp, hp', hk, ih]
    | false =>
      cases hp' : (p.1 == k') with
      | true => simp [dictReplace, dictGet, hp, hp']
      | false => simp [dictReplace, dictGet, hp, hp', ih]

/-- `d[k] = v` leaves every other key alone -/
theorem dictGet_dictSet_other (d : KwDict) (k k' : List Char) (v : Expr) (hk : k' ≠ k) :
    dictGet (dictSet d k v) k' = dictGet d k' := by
  have hkk : (k == k') = false := by
    cases h : (k == k') with
    | false => rfl
    | true => exact absurd (by simpa using h : k = k').symm hk
  unfold dictSet
  cases h : dictHas d k with
  | true => simp [dictGet_replace_other k k' v hkk d]
  | false =>
    rw [if_neg (by simp), dictGet_append]
    cases hg : dictGet d k' with
    | none => simp [dictGet, hkk]
    | some x => rfl

/-- `del d[k]` leaves every other key alone -/
theorem dictGet_dictDel_other (d : KwDict) (k k' : List Char) (hk : k' ≠ k) :
    dictGet (dictDel d k) k' = dictGet d k' := by
  induction d with
  | nil => rfl
  | cons p t ih =>
    cases hp : (p.1 == k) with
    | true =>
      have hpk : p.1 = k := by simpa using hp
      have hp' : (p.1 == k') = false := by
        cases h : (p.1 == k') with
        | false => rfl
        | true => exact absurd ((by simpa using h : p.1 = k').symm.trans hpk) hk
      simp [dictDel, dictGet, hp, hp', ih]
    | false =>
      cases hp' : (p.1 == k') with
      | true => simp [dictDel, dictGet, hp, hp']
      | false => simp [dictDel, dictGet, hp, hp', ih]

theorem dictGet_dictDel_self (d : KwDict) (k : List Char) : dictGet (dictDel d k) k = none := by
  induction d with
  | nil => rfl
  | cons p t ih =>
    cases hp : (p.1 == k) with
    | true => simp [dictDel, hp, ih]
    | false => simp [dictDel, dictGet, hp, ih]

theorem dictDel_of_not_has (k : List Char) : ∀ d : KwDict, dictHas d k = false → dictDel d k = d := by
  intro d
  induction d with
  | nil => intro _; rfl
  | cons p t ih =>
    intro h
    cases hp : (p.1 == k) with
    | true => simp [dictHas, hp] at h
    | false =>
      have ht : dictHas t k = false := by simpa [dictHas, hp] using h
      simp [dictDel, hp, ih ht]

theorem dictDel_append (k : List Char) (b : KwDict) : ∀ a : KwDict, dictDel (a ++ b) k = dictDel a k ++ dictDel b k := by
  intro a
  induction a with
  | nil => rfl
  | cons p t ih =>
    cases hp : (p.1 == k) with
    | true => simp [dictDel, hp, ih]
    | false => simp [dictDel, hp, ih]

/-- setting a NEW key and deleting it again gives back the dictionary, entry for entry and in order -/
theorem dictDel_dictSet_new (d : KwDict) (k : List Char) (v : Expr) (h : dictHas d k = false) :
    dictDel (dictSet d k v) k = d := by
  unfold dictSet
  rw [if_neg (by simp [h]), dictDel_append, dictDel_of_not_has k d h]
  simp [dictDel]

theorem dictHas_append (k : List Char) (b : KwDict) : ∀ a : KwDict, dictHas (a ++ b) k = (dictHas a k || dictHas b k) := by
  intro a
  induction a with
  | nil => simp [dictHas]
  | cons p t ih => simp [dictHas, ih, Bool.or_assoc]

theorem dictHas_replace (k : List Char) (v : Expr) : ∀ d : KwDict, dictHas (dictReplace d k v) k = dictHas d k := by
  intro d
  induction d with
  | nil => rfl
  | cons p t ih =>
    cases hp : (p.1 == k) with
    | true => simp [dictReplace, dictHas, hp]
    | false => simp [dictReplace, dictHas, hp, ih]

theorem dictHas_dictSet_self (d : KwDict) (k : List Char) (v : Expr) : dictHas (dictSet d k v) k = true := by
  unfold dictSet
  cases h : dictHas d k with
  | true => simp [dictHas_replace, h]
  | false => simp [dictHas_append, dictHas]

/-! ### the loop over the requested keys -/

/-- keys the command does not name keep their value -/
theorem editDict_other (del : Bool) (k' : List Char) : ∀ (kvs : List (List Char × NewVal)) (d : KwDict) (n : Nat),
    (∀ kv ∈ kvs, kv.1 ≠ k') → dictGet (editDict del kvs d n).1 k' = dictGet d k' := by
  intro kvs
  induction kvs with
  | nil => intro d n _; rfl
  | cons kv r ih =>
    intro d n h
    obtain ⟨k, v⟩ := kv
    have hk : k' ≠ k := fun e => h (k, v) (by simp) e.symm
    have hr : ∀ kv ∈ r, kv.1 ≠ k' := fun x hx => h x (by simp [hx])
    cases del with
    | true =>
      cases hany : dictHas d k with
      | true =>
        have : editDict true ((k, v) :: r) d n = editDict true r (dictDel d k) (n + 1) := by simp [editDict, hany]
        rw [this, ih _ _ hr, dictGet_dictDel_other d k k' hk]
      | false =>
        have : editDict true ((k, v) :: r) d n = editDict true r d n := by simp [editDict, hany]
        rw [this]; exact ih _ _ hr
    | false =>
      have : editDict false ((k, v) :: r) d n = editDict false r (dictSet d k v.node) (n + 1) := by simp [editDict]
      rw [this, ih _ _ hr, dictGet_dictSet_other d k k' _ hk]

theorem mem_insertKv (kv x : List Char × NewVal) : ∀ l, x ∈ insertKv kv l ↔ x = kv ∨ x ∈ l := by
  intro l
  induction l with
  | nil => simp [insertKv]
  | cons y ys ih =>
    unfold insertKv
    cases strLt kv.1 y.1 with
    | true => simp
    | false =>
      simp only [Bool.false_eq_true, if_false, List.mem_cons, ih]
      constructor
      · rintro (h | h | h)
        · exact Or.inr (Or.inl h)
        · exact Or.inl h
        · exact Or.inr (Or.inr h)
      · rintro (h | h | h)
        · exact Or.inr (Or.inl h)
        · exact Or.inl h
        · exact Or.inr (Or.inr h)

/-- `sorted(...)` neither drops nor invents a (key, value) pair -/
theorem mem_sortKvs (x : List Char × NewVal) : ∀ l, x ∈ sortKvs l ↔ x ∈ l := by
  intro l
  induction l with
  | nil => simp [sortKvs]
  | cons y ys ih => simp [sortKvs, mem_insertKv, ih]

/-! ### the argument list -/

theorem posPart_append : ∀ (a b : Items), (a.append b).posPart = a.posPart ++ b.posPart
  | .nil, _ => rfl
  | .pos e r, b => by simp [Items.append, Items.posPart, posPart_append r b]
  | .kw k v r, b => by simp [Items.append, Items.posPart, posPart_append r b]

theorem kwPart_append : ∀ (a b : Items), (a.append b).kwPart = a.kwPart ++ b.kwPart
  | .nil, _ => rfl
  | .pos e r, b => by simp [Items.append, Items.kwPart, kwPart_append r b]
  | .kw k v r, b => by simp [Items.append, Items.kwPart, kwPart_append r b]

theorem posPart_itemsOfList (l : List Expr) : (itemsOfList l).posPart = l := by
  induction l with
  | nil => rfl
  | cons e r ih => simp [itemsOfList, Items.posPart, ih]

theorem kwPart_itemsOfList (l : List Expr) : (itemsOfList l).kwPart = [] := by
  induction l with
  | nil => rfl
  | cons e r ih => simp [itemsOfList, Items.kwPart, ih]

theorem posPart_kwItems (d : KwDict) : (kwItems d).posPart = [] := by
  induction d with
  | nil => rfl
  | cons p r ih => obtain ⟨k, v⟩ := p; simp [kwItems, Items.posPart, ih]

theorem kwPart_kwItems (d : KwDict) : (kwItems d).kwPart = d.map (fun p => (Expr.id p.2.lvl p.1, p.2)) := by
  induction d with
  | nil => rfl
  | cons p r ih => obtain ⟨k, v⟩ := p; simp [kwItems, Items.kwPart, ih]

/-- the positional arguments are handed back untouched, in order -/
theorem rebuild_posPart (items : Items) (d : KwDict) : (rebuild items d).posPart = items.posPart := by
  simp [rebuild, posPart_append, posPart_itemsOfList, posPart_kwItems]

/-- the keyword arguments are exactly the dictionary, in its order, under fresh `IdNode`s -/
theorem rebuild_kwPart (items : Items) (d : KwDict) :
    (rebuild items d).kwPart = d.map (fun p => (Expr.id p.2.lvl p.1, p.2)) := by
  simp [rebuild, kwPart_append, kwPart_itemsOfList, kwPart_kwItems]

/-! ### the file around the re-printed node -/

/-- the whole command on the file text: nothing (when the command changes nothing), or the text of the node's span is
replaced by the re-printed node — every character before `s` and from `e` on is what it was -/
theorem applyKw_eq (raw : List Char) (sp : Span) (node : Expr) (cmd : KwCmd) (s e : Nat)
    (hs : startOf (lineOffsets raw) sp = .ok s) (he : endOf (lineOffsets raw) sp = .ok e) :
    applyKw raw sp node cmd = .ok (match editCall cmd node with
      | none => raw
      | some n' => raw.take s ++ newData n' ++ raw.drop e) := by
  unfold applyKw
  cases editCall cmd node with
  | none => rfl
  | some n' =>
    simp [applyChanges, sortDesc, sortDescBy, insertDescBy, applyWork, removeNode, hs, he, splice, Work.str,
      bind, Except.bind, pure, Except.pure]

end MesonModel.Rewrite
