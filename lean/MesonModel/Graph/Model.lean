/-
Build *execution* semantics over an abstract build graph (property C05).

A step (one `build` statement of the manifest) has
  * declared inputs `ins` (explicit ++ implicit ++ order-only) and outputs `outs` (explicit ++ implicit) — what the
    graph says, and
  * a behaviour: the list `reads` of paths its command looks at, and `act`, a deterministic function from the contents
    found there (`none` = the path does not exist) to either failure (`none`) or the contents written to its outputs.
The behaviour is *not* constrained by the declaration: whether `reads` stays inside what the declared edges order before
the step is exactly what the property is about.

A file system is `F → Option C`.  A step is *enabled* once every step producing one of its declared inputs has run; a
*schedule* is a sequence of distinct, enabled steps; running a schedule runs its steps one after the other.  Parallel
execution with atomic steps is an interleaving, i.e. again a schedule (a refinement where the steps of a batch all read
the state at the start of the batch is `runBatchH`, shown equal to the sequential run in `Lemmas.lean`).

Internally sequences are kept latest-first ("histories": `i :: h` = `i` runs after everything in `h`), which makes every
induction a structural one; `Valid`/`run` on chronological lists are the reversed forms.

Core Lean only (linked into the driver `mvdriver-graph`).
-/
namespace MesonModel.Graph

structure Step (F C : Type) where
  ins : List F
  outs : List F
  reads : List F := []
  act : List (Option C) → Option (F → C) := fun _ => none

structure Graph (ι F C : Type) where
  steps : List ι
  step : ι → Step F C

abbrev FS (F C : Type) := F → Option C

variable {ι F C : Type} [DecidableEq ι] [DecidableEq F]

/-! ### running -/

/-- run one step: look at `reads`, fail or overwrite `outs` -/
def exec (s : Step F C) (σ : FS F C) : Option (FS F C) :=
  match s.act (s.reads.map σ) with
  | none => none
  | some w => some (fun f => if f ∈ s.outs then some (w f) else σ f)

/-- run a history (latest first); `none` as soon as a step fails -/
def runH (g : Graph ι F C) (init : FS F C) : List ι → Option (FS F C)
  | [] => some init
  | i :: h => (runH g init h).bind (exec (g.step i))

/-- run a schedule given in chronological order -/
def run (g : Graph ι F C) (init : FS F C) (s : List ι) : Option (FS F C) := runH g init s.reverse

/-- the paths written by the steps of a sequence -/
def outsOf (g : Graph ι F C) (h : List ι) : List F := h.flatMap (fun i => (g.step i).outs)

/-! ### the declared order -/

/-- `j` is a declared direct predecessor of `i`: `j` produces one of `i`'s declared inputs -/
def Pred (g : Graph ι F C) (i j : ι) : Prop := j ∈ g.steps ∧ ∃ f, f ∈ (g.step i).ins ∧ f ∈ (g.step j).outs

/-- declared ancestors: the transitive closure of `Pred` -/
inductive Anc (g : Graph ι F C) : ι → ι → Prop where
  | base {i j : ι} : Pred g i j → Anc g i j
  | tail {i k j : ι} : Anc g i k → Pred g k j → Anc g i j

/-- `i` may start when every declared predecessor is among the steps that have run -/
def Enabled (g : Graph ι F C) (done : List ι) (i : ι) : Prop := ∀ j, Pred g i j → j ∈ done

/-- valid history: distinct steps of the graph, each enabled by what ran before it -/
def ValidH (g : Graph ι F C) : List ι → Prop
  | [] => True
  | i :: h => i ∈ g.steps ∧ i ∉ h ∧ Enabled g h i ∧ ValidH g h

/-- valid schedule (chronological order) -/
def Valid (g : Graph ι F C) (s : List ι) : Prop := ValidH g s.reverse

def Complete (g : Graph ι F C) (s : List ι) : Prop := ∀ i, i ∈ g.steps → i ∈ s

/-! ### what the property is about -/

/-- no two steps write the same path (C04's clause; needed so that "the content of a path" has one author) -/
def DisjointOuts (g : Graph ι F C) : Prop :=
  ∀ i, i ∈ g.steps → ∀ j, j ∈ g.steps → i ≠ j → ∀ f, f ∈ (g.step i).outs → f ∉ (g.step j).outs

/-- dependency-complete: whatever a step looks at is either produced by no step at all (source tree, configure-time
    file, or simply absent) or produced by one of its declared ancestors -/
def Hermetic (g : Graph ι F C) : Prop :=
  ∀ i, i ∈ g.steps → ∀ f, f ∈ (g.step i).reads → ∀ j, j ∈ g.steps → f ∈ (g.step j).outs → Anc g i j

/-! ### executable counterparts (used by the driver on parsed manifests) -/

def producesAny (outs ins : List F) : Bool := ins.any (fun f => decide (f ∈ outs))

def predsB (g : Graph ι F C) (i : ι) : List ι :=
  g.steps.filter (fun j => producesAny (g.step j).outs (g.step i).ins)

def enabledB (g : Graph ι F C) (done : List ι) (i : ι) : Bool :=
  (predsB g i).all (fun j => decide (j ∈ done))

/-- `done` = what has run (any order), then the remaining schedule in chronological order -/
def validFromB (g : Graph ι F C) : List ι → List ι → Bool
  | _, [] => true
  | done, i :: r =>
    decide (i ∈ g.steps) && !decide (i ∈ done) && enabledB g done i && validFromB g (i :: done) r

def validScheduleB (g : Graph ι F C) (s : List ι) : Bool := validFromB g [] s

def completeB (g : Graph ι F C) (s : List ι) : Bool := g.steps.all (fun i => decide (i ∈ s))

/-- worklist closure of `predsB`; `seen` is the answer so far -/
def ancLoop (g : Graph ι F C) : Nat → List ι → List ι → List ι
  | 0, _, seen => seen
  | _ + 1, [], seen => seen
  | n + 1, x :: todo, seen =>
    if x ∈ seen then ancLoop g n todo seen else ancLoop g n (predsB g x ++ todo) (x :: seen)

def ancestorsB (g : Graph ι F C) (i : ι) : List ι :=
  let n := g.steps.length
  ancLoop g ((n + 1) * (n + 1) + 1) (predsB g i) []

/-- the answer of `ancestorsB` is closed under predecessors (checked at run time; makes it complete, see
    `Lemmas.anc_complete_of_closed`) -/
def ancClosedB (g : Graph ι F C) (i : ι) (A : List ι) : Bool :=
  (predsB g i ++ A.flatMap (predsB g)).all (fun j => decide (j ∈ A))

/-! ### batches: a finer picture of parallel execution -/

/-- a step of a batch reads the snapshot taken when the batch started and writes into the accumulated state -/
def execSnap (s : Step F C) (snap acc : FS F C) : Option (FS F C) :=
  match s.act (s.reads.map snap) with
  | none => none
  | some w => some (fun f => if f ∈ s.outs then some (w f) else acc f)

/-- run a batch (history form) whose members all started from `snap` -/
def runBatchH (g : Graph ι F C) (snap : FS F C) : List ι → Option (FS F C)
  | [] => some snap
  | i :: b => (runBatchH g snap b).bind (execSnap (g.step i) snap)

end MesonModel.Graph
