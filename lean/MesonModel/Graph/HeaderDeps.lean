/-
Derivation of the order-only dependencies of a build target's compile statements (property C05), construct by construct
from

  mesonbuild/build.py            BuildTarget.process_sourcelist (generated part), BuildTarget.add_deps (InternalDependency
                                 branch: sources, libraries, whole_libraries, ext_deps; `added_deps` pruning),
                                 BuildTarget.link / link_whole (appending), get_generated_sources
  mesonbuild/backend/backends.py Backend.get_target_generated_dir
  mesonbuild/backend/ninjabackend.py
                                 NinjaBackend.get_generated_headers (generator lists only, recursion through link_targets and
                                 link_whole_targets that are static or shared libraries), get_target_generated_sources (a
                                 dict keyed by path), the `header_deps` loop of generate_target ("anything not specifically
                                 a source file is a header"), order_deps_to_strings / add_header_deps (`has_dir_part` hack)

over an abstract *target table*: dependency objects and build targets are numbered, a record refers to others by number
(declared before use).  What a file name is (source / object / library / header / something else) is data of the table: the
harness computes it with the live `compilers.is_source/is_object/is_library/is_header`, in the order the loop asks.

Fragment: C-like targets (no vala / cython / D / fortran / unity / compile-only targets), libraries in link_with / link_whole
are build targets (a custom-target library contributes no headers: `isinstance(dep, (StaticLibrary, SharedLibrary))`).

Core Lean only (linked into the driver `mvdriver-graph`).
-/
namespace MesonModel.Graph.HeaderDeps

abbrev Str := List Char

/-- what the backend's suffix tests say about an output name, in the order `generate_target` asks -/
inductive Cls where
  | source | object | library | header | other
  deriving DecidableEq, Repr

structure Out where
  name : Str
  cls : Cls
  deriving DecidableEq

/-- one element of `BuildTarget.generated` -/
inductive Gen where
  | ct (dir : Str) (outs : List Out)     -- a custom target (all its outputs), living in build subdirectory `dir`
  | cti (dir : Str) (out : Out)          -- `ct[i]`: one output of a custom target
  | glist (outs : List Out)              -- `generator.process(..)`: outputs go to the private directory of the consumer
  deriving DecidableEq

/-- `os.path.join(d, n)` for a relative `n` -/
def joinPath (d n : Str) : Str :=
  if d = [] then n else if d.getLast? = some '/' then d ++ n else d ++ '/' :: n

def Gen.outs : Gen → List Out
  | .ct _ os => os
  | .cti _ o => [o]
  | .glist os => os

/-- `Backend.get_target_generated_dir(target, gensrc, _)` with `priv` the private directory of `target` -/
def Gen.dirFor (priv : Str) : Gen → Str
  | .ct d _ => d
  | .cti d _ => d
  | .glist _ => priv

def Gen.paths (priv : Str) (g : Gen) : List (Str × Cls) :=
  g.outs.map (fun o => (joinPath (g.dirFor priv) o.name, o.cls))

inductive Kind where
  | executable | static | shared | other
  deriving DecidableEq, Repr

/-- `isinstance(dep, (build.StaticLibrary, build.SharedLibrary))` -/
def Kind.isLib : Kind → Bool
  | .static => true
  | .shared => true
  | _ => false

/-- `declare_dependency(sources:, dependencies:, link_with:, link_whole:)` -/
structure Dep where
  sources : List Gen := []
  deps : List Nat := []
  libs : List Nat := []
  whole : List Nat := []

structure Tgt where
  kind : Kind := .other
  priv : Str := []
  sources : List Gen := []       -- generated elements among the sources (positional and `sources:`), in order
  deps : List Nat := []          -- `dependencies:`
  linkWith : List Nat := []
  linkWhole : List Nat := []

structure Table where
  deps : List Dep
  tgts : List Tgt

def Table.dep (tb : Table) (i : Nat) : Dep := tb.deps.getD i {}
def Table.tgt (tb : Table) (i : Nat) : Tgt := tb.tgts.getD i {}

/-! ### BuildTarget construction: `generated`, `link_targets`, `link_whole_targets`, `added_deps` -/

structure St where
  generated : List Gen
  linkT : List Nat
  linkW : List Nat
  added : List Nat

/-- the InternalDependency branch of `add_deps` before it recurses: `process_sourcelist(dep.sources)` appends every generated
    element (only `File`s are deduplicated there), `link_targets.extend(dep.libraries)`,
    `link_whole_targets.extend(dep.whole_libraries)` -/
def absorb (st : St) (d : Dep) : St :=
  { st with generated := st.generated ++ d.sources, linkT := st.linkT ++ d.libs, linkW := st.linkW ++ d.whole }

/-- one iteration of the loop of `add_deps` (fuel = nesting depth still allowed; dependency objects are acyclic) -/
def addDep (tb : Table) : Nat → St → Nat → St
  | 0, st, _ => st
  | f + 1, st, d =>
    if d ∈ st.added then st
    else
      let st2 := (tb.dep d).deps.foldl (fun s c => addDep tb f s c) (absorb st (tb.dep d))
      { st2 with added := d :: st2.added }

def addDeps (tb : Table) (fuel : Nat) (st : St) (ds : List Nat) : St :=
  ds.foldl (fun s c => addDep tb fuel s c) st

/-- the target object after `BuildTarget.__init__` -/
def build (tb : Table) (t : Tgt) : St :=
  addDeps tb tb.deps.length { generated := t.sources, linkT := t.linkWith, linkW := t.linkWhole, added := [] } t.deps

/-! ### NinjaBackend.get_generated_headers -/

/-- the first loop: headers among the outputs of the target's generator lists (custom targets are skipped) -/
def ownGenHeaders (priv : Str) (gens : List Gen) : List Str :=
  gens.flatMap (fun g => match g with
    | .glist outs => (outs.filter (fun o => o.cls = .header)).map (fun o => joinPath priv o.name)
    | _ => [])

def genHeaders (tb : Table) : Nat → Nat → List Str
  | 0, _ => []
  | f + 1, t =>
    let b := build tb (tb.tgt t)
    ownGenHeaders (tb.tgt t).priv b.generated ++
      (b.linkT ++ b.linkW).flatMap (fun l => if (tb.tgt l).kind.isLib then genHeaders tb f l else [])

/-! ### generate_target: the header_deps loop -/

/-- keys of a dict filled in list order -/
def dedup : List Str → List Str
  | [] => []
  | x :: xs => x :: (dedup xs).filter (fun y => y ≠ x)

def headerish (c : Cls) : Bool := c = .header || c = .other

/-- `for rel_src in generated_sources: … else: header_deps.append(raw_src)` over `get_target_generated_sources` -/
def loopHeaders (priv : Str) (gens : List Gen) : List Str :=
  dedup (((gens.flatMap (Gen.paths priv)).filter (fun pc => headerish pc.2)).map (fun pc => pc.1))

/-- an element of `header_deps`: a `File` (from the loop) or a plain string (from get_generated_headers) -/
inductive HDep where
  | file (p : Str)
  | str (p : Str)

def headerDeps (tb : Table) (t : Nat) : List HDep :=
  (genHeaders tb (t + 1) t).map HDep.str ++
    (loopHeaders (tb.tgt t).priv (build tb (tb.tgt t)).generated).map HDep.file

/-- `has_path_sep` -/
def hasDirPart (s : Str) : Bool := s.any (fun c => c = '/' || c = '\\')

/-- `order_deps_to_strings` / `add_header_deps`, per element -/
def orderDepStr (priv : Str) : HDep → Str
  | .file p => p
  | .str p => if hasDirPart p then p else joinPath priv p

/-- the order-only inputs that every compile statement of target `t` gets from `header_deps` -/
def orderOnly (tb : Table) (t : Nat) : List Str :=
  (headerDeps tb t).map (orderDepStr (tb.tgt t).priv)

/-! ### the specification side: what the build definition hands to a target -/

/-- dependency objects reachable from the `dependencies:` of a target -/
inductive DepReach (tb : Table) (roots : List Nat) : Nat → Prop where
  | root {d : Nat} : d ∈ roots → DepReach tb roots d
  | nested {d c : Nat} : DepReach tb roots d → c ∈ (tb.dep d).deps → DepReach tb roots c

/-- a generated element is handed to the target: among its sources or among the `sources:` of a reachable dependency -/
def Handed (tb : Table) (t : Tgt) (g : Gen) : Prop :=
  g ∈ t.sources ∨ ∃ d, DepReach tb t.deps d ∧ g ∈ (tb.dep d).sources

/-- a library is linked by the target: link_with / link_whole of the target or of a reachable dependency -/
def Linked (tb : Table) (t : Tgt) (l : Nat) : Prop :=
  l ∈ t.linkWith ∨ l ∈ t.linkWhole ∨
    ∃ d, DepReach tb t.deps d ∧ (l ∈ (tb.dep d).libs ∨ l ∈ (tb.dep d).whole)

/-- libraries reached through any chain of link_with / link_whole over static and shared libraries -/
inductive LibReach (tb : Table) : Nat → Nat → Prop where
  | base {t l : Nat} : Linked tb (tb.tgt t) l → (tb.tgt l).kind.isLib = true → LibReach tb t l
  | step {t l m : Nat} : Linked tb (tb.tgt t) l → (tb.tgt l).kind.isLib = true → LibReach tb l m → LibReach tb t m

/-- the generated headers a compile statement of target `t` may read:
    every output that is not a source, an object or a library ("anything else is a header") of every generated element handed
    to the target, at the place where it is generated; and the headers made by the generator lists of every library the target
    reaches through link_with / link_whole, in that library's private directory -/
def MayRead (tb : Table) (t : Nat) (p : Str) : Prop :=
  (∃ g o, Handed tb (tb.tgt t) g ∧ o ∈ g.outs ∧ headerish o.cls = true ∧
      p = joinPath (g.dirFor (tb.tgt t).priv) o.name) ∨
  (∃ l outs o, LibReach tb t l ∧ Handed tb (tb.tgt l) (.glist outs) ∧ o ∈ outs ∧ o.cls = .header ∧
      p = joinPath (tb.tgt l).priv o.name)

/-- the table is well-formed: everything is declared before it is used, private directories have a name -/
structure WF (tb : Table) : Prop where
  depsBefore : ∀ d c, c ∈ (tb.dep d).deps → c < d
  rootsInRange : ∀ t d, d ∈ (tb.tgt t).deps → d < tb.deps.length
  libsBefore : ∀ t l, Linked tb (tb.tgt t) l → l < t
  privNamed : ∀ t, t < tb.tgts.length → (tb.tgt t).priv ≠ []

/-- executable well-formedness check used by the driver (on the constructed link lists) -/
def wfB (tb : Table) : Bool :=
  (List.range tb.deps.length).all (fun d => (tb.dep d).deps.all (fun c => decide (c < d))) &&
  (List.range tb.tgts.length).all (fun t =>
    (tb.tgt t).deps.all (fun d => decide (d < tb.deps.length)) &&
    ((build tb (tb.tgt t)).linkT ++ (build tb (tb.tgt t)).linkW).all (fun l => decide (l < t)) &&
    decide ((tb.tgt t).priv ≠ []))

end MesonModel.Graph.HeaderDeps
