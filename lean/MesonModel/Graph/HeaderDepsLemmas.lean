/-
Lemmas about the order-only derivation `MesonModel/Graph/HeaderDeps.lean`: the `add_deps` traversal (post-order marking in
`added_deps`) reaches every dependency object reachable from `dependencies:`, nothing that was appended is lost, and the
recursion of `get_generated_headers` reaches every library of the link closure.
-/
import MesonModel.Graph.HeaderDeps

namespace MesonModel.Graph.HeaderDeps

/-! ### add_deps -/

/-- everything marked in `added_deps` has been absorbed completely, children included -/
def Closed (tb : Table) (st : St) : Prop :=
  ∀ d, d ∈ st.added →
    (∀ g, g ∈ (tb.dep d).sources → g ∈ st.generated) ∧
    (∀ l, l ∈ (tb.dep d).libs → l ∈ st.linkT) ∧
    (∀ l, l ∈ (tb.dep d).whole → l ∈ st.linkW) ∧
    (∀ c, c ∈ (tb.dep d).deps → c ∈ st.added)

structure Le (a b : St) : Prop where
  gen : ∀ g, g ∈ a.generated → g ∈ b.generated
  lt : ∀ l, l ∈ a.linkT → l ∈ b.linkT
  lw : ∀ l, l ∈ a.linkW → l ∈ b.linkW
  ad : ∀ d, d ∈ a.added → d ∈ b.added

theorem Le.refl (a : St) : Le a a := ⟨fun _ h => h, fun _ h => h, fun _ h => h, fun _ h => h⟩

theorem Le.trans {a b c : St} (h1 : Le a b) (h2 : Le b c) : Le a c :=
  ⟨fun g h => h2.gen g (h1.gen g h), fun g h => h2.lt g (h1.lt g h), fun g h => h2.lw g (h1.lw g h),
   fun g h => h2.ad g (h1.ad g h)⟩

theorem le_absorb (st : St) (d : Dep) : Le st (absorb st d) :=
  ⟨fun _ h => List.mem_append_left _ h, fun _ h => List.mem_append_left _ h, fun _ h => List.mem_append_left _ h,
   fun _ h => h⟩

theorem closed_absorb {tb : Table} {st : St} (d : Dep) (h : Closed tb st) : Closed tb (absorb st d) := by
  intro x hx
  rcases h x hx with ⟨a, b, c, e⟩
  exact ⟨fun g hg => List.mem_append_left _ (a g hg), fun g hg => List.mem_append_left _ (b g hg),
         fun g hg => List.mem_append_left _ (c g hg), e⟩

/-- the fold over a list of dependency numbers, given the specification of one iteration -/
theorem fold_spec {tb : Table} (step : St → Nat → St) (bound : Nat)
    (hstep : ∀ st c, c < bound → Closed tb st → Closed tb (step st c) ∧ Le st (step st c) ∧ c ∈ (step st c).added) :
    ∀ (cs : List Nat) (st : St), (∀ c, c ∈ cs → c < bound) → Closed tb st →
      Closed tb (cs.foldl step st) ∧ Le st (cs.foldl step st) ∧ ∀ c, c ∈ cs → c ∈ (cs.foldl step st).added := by
  intro cs
  induction cs with
  | nil => intro st _ hc; exact ⟨hc, Le.refl _, fun _ h => by cases h⟩
  | cons c cs ih =>
    intro st hb hc
    rcases hstep st c (hb c (List.mem_cons_self ..)) hc with ⟨h1, h2, h3⟩
    rcases ih (step st c) (fun x hx => hb x (List.mem_cons_of_mem _ hx)) h1 with ⟨k1, k2, k3⟩
    refine ⟨k1, h2.trans k2, ?_⟩
    intro x hx
    rcases List.mem_cons.1 hx with rfl | hx
    · exact k2.ad _ h3
    · exact k3 x hx

theorem addDep_spec {tb : Table} (hwf : ∀ d c, c ∈ (tb.dep d).deps → c < d) :
    ∀ (f : Nat) (st : St) (d : Nat), d < f → Closed tb st →
      Closed tb (addDep tb f st d) ∧ Le st (addDep tb f st d) ∧ d ∈ (addDep tb f st d).added := by
  intro f
  induction f with
  | zero => intro st d h; omega
  | succ f ih =>
    intro st d hd hc
    unfold addDep
    by_cases hm : d ∈ st.added
    · rw [if_pos hm]
      exact ⟨hc, Le.refl _, hm⟩
    · rw [if_neg hm]
      have hch : ∀ c, c ∈ (tb.dep d).deps → c < f := fun c h => by have := hwf d c h; omega
      rcases fold_spec (tb := tb) (fun s c => addDep tb f s c) f (fun s c hcf hcs => ih s c hcf hcs)
        (tb.dep d).deps (absorb st (tb.dep d)) hch (closed_absorb _ hc) with ⟨k1, k2, k3⟩
      refine ⟨?_, ⟨?_, ?_, ?_, ?_⟩, ?_⟩
      · intro x hx
        rcases List.mem_cons.1 hx with rfl | hx
        · refine ⟨fun g hg => k2.gen g (List.mem_append_right _ hg), fun g hg => k2.lt g (List.mem_append_right _ hg),
                  fun g hg => k2.lw g (List.mem_append_right _ hg), fun c hcm => List.mem_cons_of_mem _ (k3 c hcm)⟩
        · rcases k1 x hx with ⟨a, b, c, e⟩
          exact ⟨a, b, c, fun y hy => List.mem_cons_of_mem _ (e y hy)⟩
      · exact fun g hg => k2.gen g ((le_absorb st _).gen g hg)
      · exact fun g hg => k2.lt g ((le_absorb st _).lt g hg)
      · exact fun g hg => k2.lw g ((le_absorb st _).lw g hg)
      · exact fun g hg => List.mem_cons_of_mem _ (k2.ad g hg)
      · exact List.mem_cons_self ..

theorem reach_added {tb : Table} {roots : List Nat} {st : St} (hc : Closed tb st) (hr : ∀ r, r ∈ roots → r ∈ st.added)
    {d : Nat} (h : DepReach tb roots d) : d ∈ st.added := by
  induction h with
  | root hm => exact hr _ hm
  | nested _ hcm ih => exact (hc _ ih).2.2.2 _ hcm

/-- the target object: closed, contains what the target itself lists, every root is marked -/
theorem build_spec {tb : Table} (hwf : ∀ d c, c ∈ (tb.dep d).deps → c < d) (t : Tgt)
    (hr : ∀ d, d ∈ t.deps → d < tb.deps.length) :
    Closed tb (build tb t) ∧
    Le { generated := t.sources, linkT := t.linkWith, linkW := t.linkWhole, added := [] } (build tb t) ∧
    ∀ d, d ∈ t.deps → d ∈ (build tb t).added := by
  unfold build addDeps
  apply fold_spec (tb := tb) (fun s c => addDep tb tb.deps.length s c) tb.deps.length
    (fun s c hcf hcs => addDep_spec hwf _ s c hcf hcs) t.deps _ hr
  intro d hd
  cases hd

theorem handed_generated {tb : Table} (hwf : ∀ d c, c ∈ (tb.dep d).deps → c < d) (t : Tgt)
    (hr : ∀ d, d ∈ t.deps → d < tb.deps.length) {g : Gen} (h : Handed tb t g) : g ∈ (build tb t).generated := by
  rcases build_spec hwf t hr with ⟨hc, hle, hroots⟩
  rcases h with h | ⟨d, hd, hg⟩
  · exact hle.gen g h
  · exact (hc d (reach_added hc hroots hd)).1 g hg

theorem linked_built {tb : Table} (hwf : ∀ d c, c ∈ (tb.dep d).deps → c < d) (t : Tgt)
    (hr : ∀ d, d ∈ t.deps → d < tb.deps.length) {l : Nat} (h : Linked tb t l) :
    l ∈ (build tb t).linkT ++ (build tb t).linkW := by
  rcases build_spec hwf t hr with ⟨hc, hle, hroots⟩
  rcases h with h | h | ⟨d, hd, h | h⟩
  · exact List.mem_append_left _ (hle.lt l h)
  · exact List.mem_append_right _ (hle.lw l h)
  · exact List.mem_append_left _ ((hc d (reach_added hc hroots hd)).2.1 l h)
  · exact List.mem_append_right _ ((hc d (reach_added hc hroots hd)).2.2.1 l h)

/-! ### get_generated_headers -/

theorem mem_ownGenHeaders {priv : Str} {gens : List Gen} {outs : List Out} {o : Out} (hg : Gen.glist outs ∈ gens)
    (ho : o ∈ outs) (hh : o.cls = .header) : joinPath priv o.name ∈ ownGenHeaders priv gens := by
  unfold ownGenHeaders
  refine List.mem_flatMap.2 ⟨_, hg, ?_⟩
  exact List.mem_map.2 ⟨o, List.mem_filter.2 ⟨ho, by simp [hh]⟩, rfl⟩

theorem own_mem_genHeaders (tb : Table) {f t : Nat} (h : t < f) {p : Str}
    (hp : p ∈ ownGenHeaders (tb.tgt t).priv (build tb (tb.tgt t)).generated) : p ∈ genHeaders tb f t := by
  cases f with
  | zero => omega
  | succ f =>
    unfold genHeaders
    exact List.mem_append_left _ hp

theorem reach_genHeaders {tb : Table} (hwf : WF tb) {t m : Nat} (h : LibReach tb t m) :
    ∀ f, t < f → ∀ p, p ∈ ownGenHeaders (tb.tgt m).priv (build tb (tb.tgt m)).generated → p ∈ genHeaders tb f t := by
  induction h with
  | @base t l hl hk =>
    intro f hf p hp
    cases f with
    | zero => omega
    | succ f =>
      have hlt : l < t := hwf.libsBefore t l hl
      unfold genHeaders
      refine List.mem_append_right _ (List.mem_flatMap.2 ⟨l, linked_built hwf.depsBefore _ (hwf.rootsInRange t) hl, ?_⟩)
      simp only [hk, if_true]
      exact own_mem_genHeaders tb (by omega) hp
  | @step t l m hl hk _ ih =>
    intro f hf p hp
    cases f with
    | zero => omega
    | succ f =>
      have hlt : l < t := hwf.libsBefore t l hl
      unfold genHeaders
      refine List.mem_append_right _ (List.mem_flatMap.2 ⟨l, linked_built hwf.depsBefore _ (hwf.rootsInRange t) hl, ?_⟩)
      simp only [hk, if_true]
      exact ih f (by omega) p hp

/-! ### the loop and the conversion to strings -/

theorem mem_dedup {x : Str} : ∀ {l : List Str}, x ∈ dedup l ↔ x ∈ l := by
  intro l
  induction l with
  | nil => simp [dedup]
  | cons y ys ih =>
    unfold dedup
    constructor
    · intro h
      rcases List.mem_cons.1 h with rfl | h
      · exact List.mem_cons_self ..
      · exact List.mem_cons_of_mem _ (ih.1 (List.mem_filter.1 h).1)
    · intro h
      by_cases e : x = y
      · subst e; exact List.mem_cons_self ..
      · rcases List.mem_cons.1 h with rfl | h
        · exact absurd rfl e
        · exact List.mem_cons_of_mem _ (List.mem_filter.2 ⟨ih.2 h, by simp [e]⟩)

theorem mem_loopHeaders {priv : Str} {gens : List Gen} {g : Gen} {o : Out} (hg : g ∈ gens) (ho : o ∈ g.outs)
    (hh : headerish o.cls = true) : joinPath (g.dirFor priv) o.name ∈ loopHeaders priv gens := by
  unfold loopHeaders
  refine mem_dedup.2 (List.mem_map.2 ⟨(joinPath (g.dirFor priv) o.name, o.cls), List.mem_filter.2 ⟨?_, hh⟩, rfl⟩)
  refine List.mem_flatMap.2 ⟨g, hg, ?_⟩
  unfold Gen.paths
  exact List.mem_map.2 ⟨o, ho, rfl⟩

theorem hasDirPart_joinPath {d n : Str} (hd : d ≠ []) : hasDirPart (joinPath d n) = true := by
  unfold joinPath hasDirPart
  simp only [hd, if_false]
  by_cases hl : d.getLast? = some '/'
  · simp only [hl, if_true]
    have hm : '/' ∈ d := List.mem_of_getLast? hl
    exact List.any_eq_true.2 ⟨'/', List.mem_append_left _ hm, by simp⟩
  · simp only [hl, if_false]
    exact List.any_eq_true.2 ⟨'/', List.mem_append_right _ (List.mem_cons_self ..), by simp⟩

/-! ### the executable well-formedness check -/

theorem dep_out_of_range {tb : Table} {d : Nat} (h : ¬ d < tb.deps.length) : (tb.dep d).deps = [] := by
  have : tb.deps[d]? = none := List.getElem?_eq_none (Nat.le_of_not_lt h)
  simp [Table.dep, List.getD, this]

theorem tgt_out_of_range {tb : Table} {t : Nat} (h : ¬ t < tb.tgts.length) :
    (tb.tgt t).deps = [] ∧ (tb.tgt t).linkWith = [] ∧ (tb.tgt t).linkWhole = [] := by
  have : tb.tgts[t]? = none := List.getElem?_eq_none (Nat.le_of_not_lt h)
  simp [Table.tgt, List.getD, this]

theorem no_reach_from_nil {tb : Table} {d : Nat} (h : DepReach tb [] d) : False := by
  induction h with
  | root hm => cases hm
  | nested _ _ ih => exact ih

/-- the driver's well-formedness bit implies the hypothesis `WF` of the derivation theorems -/
theorem wfB_implies_WF {tb : Table} (h : wfB tb = true) : WF tb := by
  unfold wfB at h
  rw [Bool.and_eq_true, List.all_eq_true, List.all_eq_true] at h
  rcases h with ⟨h1, h2⟩
  have hdb : ∀ d c, c ∈ (tb.dep d).deps → c < d := by
    intro d c hc
    by_cases hd : d < tb.deps.length
    · have := h1 d (List.mem_range.2 hd)
      rw [List.all_eq_true] at this
      simpa using this c hc
    · rw [dep_out_of_range hd] at hc; cases hc
  have hroots : ∀ t d, d ∈ (tb.tgt t).deps → d < tb.deps.length := by
    intro t d hd
    by_cases ht : t < tb.tgts.length
    · have := h2 t (List.mem_range.2 ht)
      rw [Bool.and_eq_true, Bool.and_eq_true, List.all_eq_true] at this
      simpa using this.1.1 d hd
    · rw [(tgt_out_of_range ht).1] at hd; cases hd
  refine ⟨hdb, hroots, ?_, ?_⟩
  · intro t l hl
    by_cases ht : t < tb.tgts.length
    · have := h2 t (List.mem_range.2 ht)
      rw [Bool.and_eq_true, Bool.and_eq_true] at this
      have q := this.1.2
      rw [List.all_eq_true] at q
      simpa using q l (linked_built hdb _ (hroots t) hl)
    · rcases tgt_out_of_range ht with ⟨a, b, c⟩
      rcases hl with hl | hl | ⟨d, hd, _⟩
      · rw [b] at hl; cases hl
      · rw [c] at hl; cases hl
      · rw [a] at hd; exact (no_reach_from_nil hd).elim
  · intro t ht
    have := h2 t (List.mem_range.2 ht)
    rw [Bool.and_eq_true, Bool.and_eq_true] at this
    simpa using this.2

end MesonModel.Graph.HeaderDeps
