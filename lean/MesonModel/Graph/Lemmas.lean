/-
Lemmas about build execution (`Model.lean`): frame properties of runs, closure of valid histories under declared
ancestors, the replay invariant, reordering of valid histories, and the bridges from the executable checkers to the
declarative definitions.
-/
import MesonModel.Graph.Model

namespace MesonModel.Graph

set_option linter.unusedSectionVars false

variable {ι F C : Type} [DecidableEq ι] [DecidableEq F]

/-! ### ancestors -/

theorem Anc.head {g : Graph ι F C} {i k j : ι} (h1 : Pred g i k) (h2 : Anc g k j) : Anc g i j := by
  induction h2 with
  | base h => exact Anc.tail (Anc.base h1) h
  | tail _ h ih => exact Anc.tail ih h

theorem Anc.trans {g : Graph ι F C} {i k j : ι} (h1 : Anc g i k) (h2 : Anc g k j) : Anc g i j := by
  induction h2 with
  | base h => exact Anc.tail h1 h
  | tail _ h ih => exact Anc.tail ih h

theorem Anc.mem_steps {g : Graph ι F C} {i j : ι} (h : Anc g i j) : j ∈ g.steps := by
  cases h with
  | base h => exact h.1
  | tail _ h => exact h.1

/-! ### valid histories -/

theorem Enabled.mono {g : Graph ι F C} {d d' : List ι} {i : ι} (h : Enabled g d i) (hs : ∀ x, x ∈ d → x ∈ d') :
    Enabled g d' i := fun j hj => hs j (h j hj)

theorem ValidH.suffix {g : Graph ι F C} : ∀ {x y : List ι}, ValidH g (x ++ y) → ValidH g y
  | [], _, h => h
  | _ :: x, y, h => ValidH.suffix (x := x) h.2.2.2

theorem ValidH.mem_steps {g : Graph ι F C} : ∀ {h : List ι}, ValidH g h → ∀ i, i ∈ h → i ∈ g.steps
  | [], _, _, hi => by cases hi
  | k :: h, hv, i, hi => by
    rcases List.mem_cons.1 hi with rfl | hi
    · exact hv.1
    · exact ValidH.mem_steps hv.2.2.2 i hi

theorem ValidH.nodup {g : Graph ι F C} : ∀ {h : List ι}, ValidH g h → h.Nodup
  | [], _ => List.nodup_nil
  | _ :: _, hv => List.nodup_cons.2 ⟨hv.2.1, ValidH.nodup hv.2.2.2⟩

/-- a valid history contains the declared predecessors of each of its members … -/
theorem ValidH.closed_pred {g : Graph ι F C} : ∀ {h : List ι}, ValidH g h → ∀ {i j}, i ∈ h → Pred g i j → j ∈ h
  | [], _, _, _, hi, _ => by cases hi
  | k :: h, hv, i, j, hi, hp => by
    rcases List.mem_cons.1 hi with rfl | hi
    · exact List.mem_cons_of_mem _ (hv.2.2.1 j hp)
    · exact List.mem_cons_of_mem _ (ValidH.closed_pred hv.2.2.2 hi hp)

/-- … hence all their declared ancestors -/
theorem ValidH.closed_anc {g : Graph ι F C} {h : List ι} (hv : ValidH g h) {i j : ι} (hi : i ∈ h) (ha : Anc g i j) :
    j ∈ h := by
  induction ha with
  | base hp => exact hv.closed_pred hi hp
  | tail _ hp ih => exact hv.closed_pred ih hp

/-- when a step is enabled, all its declared ancestors have run -/
theorem ValidH.enabled_anc {g : Graph ι F C} {h : List ι} (hv : ValidH g h) {i j : ι} (he : Enabled g h i)
    (ha : Anc g i j) : j ∈ h := by
  induction ha with
  | base hp => exact he _ hp
  | tail _ hp ih => exact hv.closed_pred ih hp

/-- inserting an enabled fresh step in the middle of a valid history keeps it valid -/
theorem ValidH.insert {g : Graph ι F C} {k : ι} : ∀ {X Y : List ι}, ValidH g (X ++ Y) → k ∈ g.steps → k ∉ X ++ Y →
    Enabled g Y k → ValidH g (X ++ k :: Y)
  | [], Y, hv, hk, hn, he => ⟨hk, hn, he, hv⟩
  | x :: X, Y, hv, hk, hn, he => by
    have hxk : x ≠ k := fun e => hn (by simp [e])
    have hn' : k ∉ X ++ Y := fun m => hn (List.mem_cons_of_mem _ m)
    refine ⟨hv.1, ?_, ?_, ValidH.insert hv.2.2.2 hk hn' he⟩
    · intro m
      rcases List.mem_append.1 m with m | m
      · exact hv.2.1 (List.mem_append_left _ m)
      · rcases List.mem_cons.1 m with m | m
        · exact hxk m
        · exact hv.2.1 (List.mem_append_right _ m)
    · refine hv.2.2.1.mono ?_
      intro y hy
      rcases List.mem_append.1 hy with hy | hy
      · exact List.mem_append_left _ hy
      · exact List.mem_append_right _ (List.mem_cons_of_mem _ hy)

/-- stable partition of a valid history by a predicate that is closed under declared predecessors: the `P`-steps can
    all be run first -/
theorem ValidH.partition {g : Graph ι F C} (P : ι → Bool) (hP : ∀ k m, P k = true → Pred g k m → P m = true) :
    ∀ {h : List ι}, ValidH g h → ValidH g (h.filter (fun k => !P k) ++ h.filter P)
  | [], _ => trivial
  | k :: h, hv => by
    have ih := ValidH.partition P hP hv.2.2.2
    have hsub : ∀ x, x ∈ h.filter (fun k => !P k) ++ h.filter P → x ∈ h := by
      intro x hx
      rcases List.mem_append.1 hx with hx | hx
      · exact (List.mem_filter.1 hx).1
      · exact (List.mem_filter.1 hx).1
    have hsup : ∀ x, x ∈ h → x ∈ h.filter (fun k => !P k) ++ h.filter P := by
      intro x hx
      cases hpx : P x
      · exact List.mem_append_left _ (List.mem_filter.2 ⟨hx, by simp [hpx]⟩)
      · exact List.mem_append_right _ (List.mem_filter.2 ⟨hx, hpx⟩)
    have hk : k ∉ h.filter (fun k => !P k) ++ h.filter P := fun m => hv.2.1 (hsub k m)
    cases hpk : P k
    · have e1 : (k :: h).filter (fun k => !P k) = k :: h.filter (fun k => !P k) := by simp [List.filter, hpk]
      have e2 : (k :: h).filter P = h.filter P := by simp [List.filter, hpk]
      rw [e1, e2]
      exact ⟨hv.1, hk, hv.2.2.1.mono hsup, ih⟩
    · have e1 : (k :: h).filter (fun k => !P k) = h.filter (fun k => !P k) := by simp [List.filter, hpk]
      have e2 : (k :: h).filter P = k :: h.filter P := by simp [List.filter, hpk]
      rw [e1, e2]
      refine ValidH.insert ih hv.1 hk ?_
      intro m hm
      exact List.mem_filter.2 ⟨hv.2.2.1 m hm, hP k m hpk hm⟩

/-- characterisation of validity by positions (topological order) -/
theorem validH_iff {g : Graph ι F C} : ∀ {h : List ι}, ValidH g h ↔
    h.Nodup ∧ (∀ i, i ∈ h → i ∈ g.steps) ∧ (∀ x i y, h = x ++ i :: y → Enabled g y i)
  | [] => by
    constructor
    · intro _
      refine ⟨List.nodup_nil, ?_, ?_⟩
      · intro i hi
        cases hi
      · intro x i y e
        cases x <;> cases e
    · intro _; trivial
  | k :: h => by
    constructor
    · intro hv
      have ih := (validH_iff (g := g) (h := h)).1 hv.2.2.2
      refine ⟨List.nodup_cons.2 ⟨hv.2.1, ih.1⟩, ?_, ?_⟩
      · intro i hi
        rcases List.mem_cons.1 hi with rfl | hi
        · exact hv.1
        · exact ih.2.1 i hi
      · intro x i y e
        cases x with
        | nil =>
          simp only [List.nil_append, List.cons.injEq] at e
          rcases e with ⟨rfl, rfl⟩
          exact hv.2.2.1
        | cons a x =>
          simp only [List.cons_append, List.cons.injEq] at e
          exact ih.2.2 x i y e.2
    · intro ⟨hn, hm, hp⟩
      have hn' := List.nodup_cons.1 hn
      refine ⟨hm k (List.mem_cons_self ..), hn'.1, hp [] k h rfl, ?_⟩
      refine (validH_iff (g := g) (h := h)).2 ⟨hn'.2, fun i hi => hm i (List.mem_cons_of_mem _ hi), ?_⟩
      intro x i y e
      exact hp (k :: x) i y (by simp [e])

/-! ### frame properties of runs -/

theorem exec_some {s : Step F C} {σ σ' : FS F C} (h : exec s σ = some σ') :
    ∃ w, s.act (s.reads.map σ) = some w ∧ σ' = fun f => if f ∈ s.outs then some (w f) else σ f := by
  unfold exec at h
  split at h
  · cases h
  · next w hw => exact ⟨w, hw, (Option.some.inj h).symm⟩

theorem exec_of_act {s : Step F C} {σ : FS F C} {w : F → C} (h : s.act (s.reads.map σ) = some w) :
    exec s σ = some (fun f => if f ∈ s.outs then some (w f) else σ f) := by
  unfold exec
  rw [h]

theorem reads_congr {s : Step F C} {σ₁ σ₂ : FS F C} (h : ∀ f, f ∈ s.reads → σ₁ f = σ₂ f) :
    s.reads.map σ₁ = s.reads.map σ₂ := List.map_congr_left h

theorem mem_outsOf {g : Graph ι F C} {h : List ι} {f : F} : f ∈ outsOf g h ↔ ∃ j, j ∈ h ∧ f ∈ (g.step j).outs := by
  unfold outsOf
  exact List.mem_flatMap

theorem runH_frame {g : Graph ι F C} {init : FS F C} : ∀ {h : List ι} {st : FS F C}, runH g init h = some st →
    ∀ f, f ∉ outsOf g h → st f = init f
  | [], st, hr, f, _ => by
    simp only [runH, Option.some.injEq] at hr
    rw [← hr]
  | i :: h, st, hr, f, hf => by
    simp only [runH] at hr
    rcases Option.bind_eq_some_iff.1 hr with ⟨st', h1, h2⟩
    rcases exec_some h2 with ⟨w, _, rfl⟩
    have hfi : f ∉ (g.step i).outs := fun m => hf (mem_outsOf.2 ⟨i, List.mem_cons_self .., m⟩)
    have hfh : f ∉ outsOf g h := fun m => by
      rcases mem_outsOf.1 m with ⟨j, hj, hm⟩
      exact hf (mem_outsOf.2 ⟨j, List.mem_cons_of_mem _ hj, hm⟩)
    simp only [hfi, if_false]
    exact runH_frame h1 f hfh

theorem runH_append {g : Graph ι F C} {init : FS F C} : ∀ (x y : List ι),
    runH g init (x ++ y) = (runH g init y).bind (fun s => runH g s x)
  | [], y => by simp [runH]
  | i :: x, y => by
    simp only [List.cons_append, runH]
    rw [runH_append x y]
    cases runH g init y <;> simp [runH]

/-! ### hermetic replay -/

/-- what step `i` finds in its hermetic replay directory: the reference content of every path produced by one of its
    declared ancestors, the initial content (source tree, configure-time files; nothing for generated paths in a clean
    build) everywhere else -/
noncomputable def view (g : Graph ι F C) (init ref : FS F C) (i : ι) : FS F C :=
  fun f => open Classical in if (∃ j, j ∈ g.steps ∧ f ∈ (g.step j).outs ∧ Anc g i j) then ref f else init f

/-- every step, replayed on `view`, succeeds and reproduces the reference content of its outputs -/
def ReplayOK (g : Graph ι F C) (init ref : FS F C) : Prop :=
  ∀ i, i ∈ g.steps → ∃ w, (g.step i).act ((g.step i).reads.map (view g init ref i)) = some w ∧
    ∀ f, f ∈ (g.step i).outs → ref f = some (w f)

/-- the reference differs from the initial state only on generated paths -/
def RefFrame (g : Graph ι F C) (init ref : FS F C) : Prop :=
  ∀ f, (∀ j, j ∈ g.steps → f ∉ (g.step j).outs) → ref f = init f

theorem view_of_anc {g : Graph ι F C} {init ref : FS F C} {i j : ι} {f : F} (hj : j ∈ g.steps)
    (hf : f ∈ (g.step j).outs) (ha : Anc g i j) : view g init ref i f = ref f := by
  unfold view
  exact if_pos ⟨j, hj, hf, ha⟩

theorem view_of_source {g : Graph ι F C} {init ref : FS F C} {i : ι} {f : F}
    (hf : ∀ j, j ∈ g.steps → f ∉ (g.step j).outs) : view g init ref i f = init f := by
  unfold view
  exact if_neg (fun ⟨j, hj, hm, _⟩ => hf j hj hm)

/-- the invariant behind everything: under hermeticity, after any valid history the generated paths written so far hold
    the reference content and everything else is untouched -/
theorem replay_invariant {g : Graph ι F C} {init ref : FS F C} (hh : Hermetic g) (hrep : ReplayOK g init ref) :
    ∀ {h : List ι}, ValidH g h →
      ∃ st, runH g init h = some st ∧ ∀ f, st f = if f ∈ outsOf g h then ref f else init f
  | [], _ => ⟨init, rfl, fun f => by simp [outsOf]⟩
  | i :: h, hv => by
    rcases replay_invariant hh hrep hv.2.2.2 with ⟨st, hrun, hst⟩
    rcases hrep i hv.1 with ⟨w, hw, hout⟩
    have hreads : (g.step i).reads.map st = (g.step i).reads.map (view g init ref i) := by
      apply reads_congr
      intro f hf
      by_cases hex : ∃ j, j ∈ g.steps ∧ f ∈ (g.step j).outs
      · rcases hex with ⟨j, hj, hfj⟩
        have ha : Anc g i j := hh i hv.1 f hf j hj hfj
        have hjh : j ∈ h := hv.2.2.2.enabled_anc hv.2.2.1 ha
        rw [view_of_anc hj hfj ha, hst f, if_pos (mem_outsOf.2 ⟨j, hjh, hfj⟩)]
      · have hsrc : ∀ j, j ∈ g.steps → f ∉ (g.step j).outs := fun j hj hm => hex ⟨j, hj, hm⟩
        have hno : f ∉ outsOf g h := fun m => by
          rcases mem_outsOf.1 m with ⟨j, hj, hm⟩
          exact hsrc j (hv.2.2.2.mem_steps j hj) hm
        rw [view_of_source hsrc, hst f, if_neg hno]
    refine ⟨fun f => if f ∈ (g.step i).outs then some (w f) else st f, ?_, ?_⟩
    · simp only [runH, hrun, Option.bind_some]
      exact exec_of_act (hreads ▸ hw)
    · intro f
      by_cases hfi : f ∈ (g.step i).outs
      · have : f ∈ outsOf g (i :: h) := mem_outsOf.2 ⟨i, List.mem_cons_self .., hfi⟩
        simp only [hfi, this, if_true]
        exact (hout f hfi).symm
      · have hiff : f ∈ outsOf g (i :: h) ↔ f ∈ outsOf g h := by
          constructor
          · intro m
            rcases mem_outsOf.1 m with ⟨j, hj, hm⟩
            rcases List.mem_cons.1 hj with rfl | hj
            · exact absurd hm hfi
            · exact mem_outsOf.2 ⟨j, hj, hm⟩
          · intro m
            rcases mem_outsOf.1 m with ⟨j, hj, hm⟩
            exact mem_outsOf.2 ⟨j, List.mem_cons_of_mem _ hj, hm⟩
        simp only [hfi, if_false, hst f]
        by_cases hm : f ∈ outsOf g h
        · rw [if_pos hm, if_pos (hiff.2 hm)]
        · rw [if_neg hm, if_neg (fun m' => hm (hiff.1 m'))]

/-- a successful complete run *is* a reference for which every hermetic replay succeeds -/
theorem run_gives_replayOK {g : Graph ι F C} {init ref : FS F C} (hd : DisjointOuts g) (hh : Hermetic g)
    {h : List ι} (hv : ValidH g h) (hc : ∀ i, i ∈ g.steps → i ∈ h) (hrun : runH g init h = some ref) :
    RefFrame g init ref ∧ ReplayOK g init ref := by
  constructor
  · intro f hsrc
    apply runH_frame hrun
    intro m
    rcases mem_outsOf.1 m with ⟨j, hj, hm⟩
    exact hsrc j (hv.mem_steps j hj) hm
  · intro i hi
    rcases List.append_of_mem (hc i hi) with ⟨x, y, rfl⟩
    have hnd := hv.nodup
    have hvy : ValidH g (i :: y) := hv.suffix
    rw [runH_append] at hrun
    rcases Option.bind_eq_some_iff.1 hrun with ⟨sti, hsti, hx⟩
    simp only [runH] at hsti
    rcases Option.bind_eq_some_iff.1 hsti with ⟨sty, hsty, hex⟩
    rcases exec_some hex with ⟨w, hw, rfl⟩
    have hix : i ∉ x := fun m => (List.nodup_append.1 hnd).2.2 i m i (List.mem_cons_self ..) rfl
    have hxy : ∀ k, k ∈ x → k ∉ y := fun k hk m =>
      (List.nodup_append.1 hnd).2.2 k hk k (List.mem_cons_of_mem _ m) rfl
    have hmem : ∀ k, k ∈ x ++ i :: y → k ∈ g.steps := hv.mem_steps
    -- a path written by a step of `y ∪ {i}` is not written by the steps that ran later
    have later : ∀ j, (j = i ∨ j ∈ y) → ∀ f, f ∈ (g.step j).outs → f ∉ outsOf g x := by
      intro j hj f hf m
      rcases mem_outsOf.1 m with ⟨k, hk, hm⟩
      have hkj : k ≠ j := by
        rintro rfl
        rcases hj with rfl | hj
        · exact hix hk
        · exact hxy k hk hj
      have hjs : j ∈ g.steps := by
        rcases hj with rfl | hj
        · exact hi
        · exact hmem j (List.mem_append_right _ (List.mem_cons_of_mem _ hj))
      exact hd k (hmem k (List.mem_append_left _ hk)) j hjs hkj f hm hf
    refine ⟨w, ?_, ?_⟩
    · rw [← hw]
      congr 1
      apply reads_congr
      intro f hf
      by_cases hexi : ∃ j, j ∈ g.steps ∧ f ∈ (g.step j).outs
      · rcases hexi with ⟨j, hj, hfj⟩
        have ha : Anc g i j := hh i hi f hf j hj hfj
        have hjy : j ∈ y := hvy.2.2.2.enabled_anc hvy.2.2.1 ha
        have hji : j ≠ i := fun e => hvy.2.1 (e ▸ hjy)
        have hfi : f ∉ (g.step i).outs := fun m => hd j hj i hi hji f hfj m
        rw [view_of_anc hj hfj ha, runH_frame hx f (later j (Or.inr hjy) f hfj)]
        simp [hfi]
      · have hsrc : ∀ j, j ∈ g.steps → f ∉ (g.step j).outs := fun j hj hm => hexi ⟨j, hj, hm⟩
        rw [view_of_source hsrc]
        symm
        apply runH_frame hsty
        intro m
        rcases mem_outsOf.1 m with ⟨j, hj, hm⟩
        exact hsrc j (hmem j (List.mem_append_right _ (List.mem_cons_of_mem _ hj))) hm
    · intro f hf
      rw [runH_frame hx f (later i (Or.inl rfl) f hf)]
      simp [hf]

/-! ### reordering: whatever is not a declared ancestor can be made to run later -/

/-- from any valid complete history one can build another one in which `i` and its declared ancestors run first;
    in particular `i` runs before every step that is neither `i` nor one of its declared ancestors -/
theorem reorder_first {g : Graph ι F C} {h : List ι} (hv : ValidH g h) (hc : ∀ k, k ∈ g.steps → k ∈ h)
    {i j : ι} (hi : i ∈ g.steps) (hj : j ∈ g.steps) (hij : j ≠ i) (hna : ¬ Anc g i j) :
    ∃ x y, ValidH g (x ++ i :: y) ∧ (∀ k, k ∈ g.steps → k ∈ x ++ i :: y) ∧ j ∈ x ∧ (x ++ i :: y).Perm h := by
  classical
  let P : ι → Bool := fun k => decide (k = i ∨ Anc g i k)
  have hP : ∀ k m, P k = true → Pred g k m → P m = true := by
    intro k m hk hp
    simp only [P, decide_eq_true_eq] at hk ⊢
    rcases hk with rfl | hk
    · exact Or.inr (Anc.base hp)
    · exact Or.inr (Anc.tail hk hp)
  have hv' := ValidH.partition P hP hv
  have hiA : i ∈ h.filter P := List.mem_filter.2 ⟨hc i hi, by simp [P]⟩
  have hjB : j ∈ h.filter (fun k => !P k) := by
    refine List.mem_filter.2 ⟨hc j hj, ?_⟩
    simp only [P, Bool.not_eq_eq_eq_not, Bool.not_true, decide_eq_false_iff_not]
    rintro (e | e)
    · exact hij e
    · exact hna e
  rcases List.append_of_mem hiA with ⟨a1, a2, ha⟩
  refine ⟨h.filter (fun k => !P k) ++ a1, a2, ?_, ?_, List.mem_append_left _ hjB, ?_⟩
  · rw [List.append_assoc, ← ha]
    exact hv'
  · intro k hk
    rw [List.append_assoc, ← ha]
    cases hpk : P k
    · exact List.mem_append_left _ (List.mem_filter.2 ⟨hc k hk, by simp [hpk]⟩)
    · exact List.mem_append_right _ (List.mem_filter.2 ⟨hc k hk, hpk⟩)
  · rw [List.append_assoc, ← ha]
    exact (List.perm_append_comm.trans (List.filter_append_perm P h))

/-! ### independent steps commute; batches -/

theorem exec_comm (s t : Step F C) (σ : FS F C) (h1 : ∀ f, f ∈ s.outs → f ∉ t.outs)
    (h2 : ∀ f, f ∈ s.outs → f ∉ t.reads) (h3 : ∀ f, f ∈ t.outs → f ∉ s.reads) :
    (exec s σ).bind (exec t) = (exec t σ).bind (exec s) := by
  have hs : ∀ w : F → C, s.reads.map (fun f => if f ∈ t.outs then some (w f) else σ f) = s.reads.map σ := by
    intro w
    apply reads_congr
    intro f hf
    have : f ∉ t.outs := fun m => h3 f m hf
    simp [this]
  have ht : ∀ w : F → C, t.reads.map (fun f => if f ∈ s.outs then some (w f) else σ f) = t.reads.map σ := by
    intro w
    apply reads_congr
    intro f hf
    have : f ∉ s.outs := fun m => h2 f m hf
    simp [this]
  cases hA : s.act (s.reads.map σ) with
  | none =>
    cases hB : t.act (t.reads.map σ) with
    | none => simp [exec, hA, hB]
    | some wt => simp [exec, hA, hB, hs]
  | some ws =>
    cases hB : t.act (t.reads.map σ) with
    | none => simp [exec, hA, hB, ht]
    | some wt =>
      simp only [exec, hA, hB, hs, ht, Option.bind_some, Option.some.injEq]
      funext f
      by_cases hfs : f ∈ s.outs
      · have : f ∉ t.outs := h1 f hfs
        simp [hfs, this]
      · simp [hfs]

/-- a batch whose members do not look at each other's outputs (all were enabled when the batch started, see
    `Props.C05.parallel_batch_eq_sequential`) gives what running them one after the other gives -/
theorem runBatchH_eq_runH {g : Graph ι F C} {snap : FS F C} : ∀ {b : List ι},
    (∀ i, i ∈ b → ∀ f, f ∈ (g.step i).reads → f ∉ outsOf g b) → runBatchH g snap b = runH g snap b
  | [], _ => rfl
  | i :: b, hb => by
    have hb' : ∀ k, k ∈ b → ∀ f, f ∈ (g.step k).reads → f ∉ outsOf g b := by
      intro k hk f hf m
      rcases mem_outsOf.1 m with ⟨j, hj, hm⟩
      exact hb k (List.mem_cons_of_mem _ hk) f hf (mem_outsOf.2 ⟨j, List.mem_cons_of_mem _ hj, hm⟩)
    simp only [runBatchH, runH, runBatchH_eq_runH hb']
    cases hr : runH g snap b with
    | none => rfl
    | some st =>
      simp only [Option.bind_some, execSnap, exec]
      have : (g.step i).reads.map snap = (g.step i).reads.map st := by
        apply reads_congr
        intro f hf
        symm
        apply runH_frame hr
        intro m
        rcases mem_outsOf.1 m with ⟨j, hj, hm⟩
        exact hb i (List.mem_cons_self ..) f hf (mem_outsOf.2 ⟨j, List.mem_cons_of_mem _ hj, hm⟩)
      rw [this]

/-! ### the executable checkers decide the declarative notions -/

theorem producesAny_iff {outs ins : List F} : producesAny outs ins = true ↔ ∃ f, f ∈ ins ∧ f ∈ outs := by
  simp [producesAny]

theorem mem_predsB {g : Graph ι F C} {i j : ι} : j ∈ predsB g i ↔ Pred g i j := by
  unfold predsB Pred
  rw [List.mem_filter, producesAny_iff]

theorem enabledB_iff {g : Graph ι F C} {done : List ι} {i : ι} : enabledB g done i = true ↔ Enabled g done i := by
  unfold enabledB Enabled
  simp only [List.all_eq_true, decide_eq_true_eq]
  constructor
  · intro h j hj; exact h j (mem_predsB.2 hj)
  · intro h j hj; exact h j (mem_predsB.1 hj)

theorem validFromB_iff {g : Graph ι F C} : ∀ (r done : List ι), ValidH g done →
    (validFromB g done r = true ↔ ValidH g (r.reverse ++ done))
  | [], done, hd => by simp [validFromB, hd]
  | i :: r, done, hd => by
    have e : (i :: r).reverse ++ done = r.reverse ++ i :: done := by simp
    rw [e]
    simp only [validFromB, Bool.and_eq_true, decide_eq_true_eq, Bool.not_eq_true', decide_eq_false_iff_not, enabledB_iff]
    constructor
    · rintro ⟨⟨⟨h1, h2⟩, h3⟩, h4⟩
      have hv : ValidH g (i :: done) := ⟨h1, h2, h3, hd⟩
      exact (validFromB_iff r (i :: done) hv).1 h4
    · intro h
      have hv : ValidH g (i :: done) := h.suffix
      exact ⟨⟨⟨hv.1, hv.2.1⟩, hv.2.2.1⟩, (validFromB_iff r (i :: done) hv).2 h⟩

theorem validScheduleB_iff {g : Graph ι F C} (s : List ι) : validScheduleB g s = true ↔ Valid g s := by
  unfold validScheduleB Valid
  rw [validFromB_iff s [] trivial, List.append_nil]

theorem completeB_iff {g : Graph ι F C} (s : List ι) : completeB g s = true ↔ Complete g s := by
  simp [completeB, Complete]

/-- everything the worklist closure returns is a declared ancestor … -/
theorem ancLoop_sound {g : Graph ι F C} {i : ι} : ∀ (n : Nat) (todo seen : List ι),
    (∀ x, x ∈ todo → Anc g i x) → (∀ x, x ∈ seen → Anc g i x) → ∀ x, x ∈ ancLoop g n todo seen → Anc g i x
  | 0, _, _, _, hs => by simpa [ancLoop] using hs
  | _ + 1, [], _, _, hs => by simpa [ancLoop] using hs
  | n + 1, y :: todo, seen, ht, hs => by
    unfold ancLoop
    split
    · exact ancLoop_sound n todo seen (fun x hx => ht x (List.mem_cons_of_mem _ hx)) hs
    · apply ancLoop_sound n
      · intro x hx
        rcases List.mem_append.1 hx with hx | hx
        · exact Anc.tail (ht y (List.mem_cons_self ..)) (mem_predsB.1 hx)
        · exact ht x (List.mem_cons_of_mem _ hx)
      · intro x hx
        rcases List.mem_cons.1 hx with rfl | hx
        · exact ht _ (List.mem_cons_self ..)
        · exact hs x hx

theorem ancestorsB_sound {g : Graph ι F C} {i j : ι} (h : j ∈ ancestorsB g i) : Anc g i j := by
  unfold ancestorsB at h
  exact ancLoop_sound _ _ _ (fun x hx => Anc.base (mem_predsB.1 hx)) (fun x hx => by cases hx) j h

/-- … and a set that passes the closedness check contains all of them -/
theorem anc_complete_of_closed {g : Graph ι F C} {i : ι} {A : List ι} (hc : ancClosedB g i A = true) {j : ι}
    (ha : Anc g i j) : j ∈ A := by
  unfold ancClosedB at hc
  simp only [List.all_eq_true, decide_eq_true_eq, List.mem_append, List.mem_flatMap] at hc
  induction ha with
  | base hp => exact hc _ (Or.inl (mem_predsB.2 hp))
  | tail _ hp ih => exact hc _ (Or.inr ⟨_, ih, mem_predsB.2 hp⟩)

end MesonModel.Graph
