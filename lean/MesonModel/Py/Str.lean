/-
Python-compatible string helpers over `List Char` (core Lean only, no imports).
ASCII range is exact; every non-ASCII code point is treated as "other" (see DESIGN §2.3).
-/
namespace MesonModel.Py

/-- `str.isspace` / `str.strip()` whitespace on the ASCII range: TAB LF VT FF CR, FS GS RS US, SPACE. -/
def isSpace (c : Char) : Bool :=
  let n := c.toNat
  (9 ≤ n && n ≤ 13) || (28 ≤ n && n ≤ 32)

/-- `[0-9]` -/
def isDigit (c : Char) : Bool := 48 ≤ c.toNat && c.toNat ≤ 57

/-- `[a-zA-Z]` -/
def isAlpha (c : Char) : Bool :=
  (65 ≤ c.toNat && c.toNat ≤ 90) || (97 ≤ c.toNat && c.toNat ≤ 122)

def isAlnum (c : Char) : Bool := isDigit c || isAlpha c

/-- `\w` on ASCII -/
def isWord (c : Char) : Bool := isAlnum c || c == '_'

def digitVal (c : Char) : Nat := c.toNat - 48

def lstrip (s : List Char) : List Char := s.dropWhile isSpace
def rstrip (s : List Char) : List Char := (s.reverse.dropWhile isSpace).reverse
def strip (s : List Char) : List Char := rstrip (lstrip s)

/-- `s.startswith(p)` -/
def startsWith (s p : List Char) : Bool := p.isPrefixOf s

/-- decimal value of a digit string (Python `int()` on ASCII digits; leading zeros allowed) -/
def natOfDigits (s : List Char) : Nat := s.foldl (fun acc c => acc * 10 + digitVal c) 0

end MesonModel.Py
