/-
Model of the quoting layers between a build definition's argument list and the executed argv
(property C03).  Mirrors, construct by construct:

* `shlex.quote`                                   (CPython 3.12 `shlex.py`)           → `shQuote`
* `mesonbuild/backend/ninjabackend.py`: `ninja_quote`, `gcc_rsp_quote`, `cmd_quote`,
  `Quoting`, `NinjaRule.__init__.strToCommandArg`, `NinjaRule._quoter`, the command lines written
  by `NinjaRule.write`, the variable lines written by `NinjaBuildElement.write`
* `mesonbuild/backend/backends.py`: `Backend.escape_extra_args`, the tail of
  `eval_custom_target_command`, the decision of `as_meson_exe_cmdline`
* `mesonbuild/utils/universal.py`: `substitute_values` with `_substitute_values_check_errors`

and, as *written specifications* of the consumers (not code of /repo):

* `ninjaEval`  — Ninja's `$`-unescaping / variable expansion of a binding value
* `shLex`/`shSplit`/`shCommands` — POSIX sh word splitting restricted to what the quoters emit
* `buildargv` — libiberty's response-file tokenizer used by `gcc @file`

Core Lean only.  Strings are `List Char`.
-/
import MesonModel.Py.Str
import MesonModel.Generated.QuoteTables

namespace MesonModel.Quote
open MesonModel.Py

abbrev Str := List Char

/-- `sep.join(parts)` with `sep = ' '` -/
def joinSp : List Str → Str
  | [] => []
  | [a] => a
  | a :: b :: rest => a ++ ' ' :: joinSp (b :: rest)

/-- `s.replace(c, r)` for a one-character pattern -/
def replaceChar (c : Char) (r : Str) (s : Str) : Str :=
  s.flatMap (fun x => if x = c then r else [x])

/-! ## `shlex.quote` -/

/-- complement of shlex's `_find_unsafe` (ASCII `\w` plus `@ % + = : , . /` and the minus sign) -/
def shSafeChar (c : Char) : Bool :=
  isWord c || c == '@' || c == '%' || c == '+' || c == '=' || c == ':' || c == ',' ||
  c == '.' || c == '/' || c == '-'

/-- the text `'"'"'` a single quote is replaced with -/
def sqEsc : Str := ['\'', '"', '\'', '"', '\'']

def shQuote (s : Str) : Str :=
  if s = [] then ['\'', '\'']
  else if s.all shSafeChar then s
  else '\'' :: (replaceChar '\'' sqEsc s ++ ['\''])

/-! ## `ninja_quote`, `gcc_rsp_quote`, `cmd_quote` -/

inductive QErr where
  | newline          -- MesonException "Ninja does not support newlines in rules"
  | pipe             -- MesonException "Ninja cannot represent the path …: it contains "|"" (build lines only)
  deriving DecidableEq, Repr

/-- `quote_re.sub(r'$\g<0>', text)` (a newline cannot be present at this point) -/
def ninjaEsc (build : Bool) (s : Str) : Str :=
  s.flatMap (fun c => if c = '$' || c = ' ' || (build && c = ':') || c = '\n' then ['$', c] else [c])

def ninjaQuote (build : Bool) (s : Str) : Except QErr Str :=
  if s.contains '\n' then .error .newline
  else if build && s.contains '|' then .error .pipe
  else if s.contains ' ' || s.contains '$' || (build && s.contains ':') then .ok (ninjaEsc build s)
  else .ok s

/-- `gcc_rsp_quote` (POSIX: `quote_func = quote_arg = shlex.quote`) -/
def gccRspQuote (s : Str) : Str := shQuote (replaceChar '\\' ['\\', '\\'] s)

/-- `cmd_quote`: first `re.sub(r'(\\*)"', …)`: a run of n backslashes followed by `"` becomes
2n+1 backslashes and `"`; `bs` is the length of the backslash run just read. -/
def cmdQuoteQuotes : Nat → Str → Str
  | bs, [] => List.replicate bs '\\'
  | bs, c :: cs =>
    if c = '\\' then cmdQuoteQuotes (bs + 1) cs
    else if c = '"' then List.replicate (2 * bs + 1) '\\' ++ '"' :: cmdQuoteQuotes 0 cs
    else List.replicate bs '\\' ++ c :: cmdQuoteQuotes 0 cs

/-- second `re.sub(r'(\\*)$', …)`: a backslash run at the very end is doubled; since `$` also
matches just before a final `\n`, so is a run directly before a final newline. -/
def cmdQuoteTail : Nat → Str → Str
  | bs, [] => List.replicate (2 * bs) '\\'
  | bs, c :: cs =>
    if c = '\\' then cmdQuoteTail (bs + 1) cs
    else if c = '\n' && cs = [] then List.replicate (2 * bs) '\\' ++ ['\n']
    else List.replicate bs '\\' ++ c :: cmdQuoteTail 0 cs

def cmdQuote (s : Str) : Str := '"' :: (cmdQuoteTail 0 (cmdQuoteQuotes 0 s) ++ ['"'])

/-! ## `NinjaRule`: quoting classes of command words -/

inductive Quoting where
  | both | notShell | notNinja | none
  deriving DecidableEq, Repr

structure CmdArg where
  s : Str
  q : Quoting
  deriving DecidableEq, Repr

def andand : Str := ['&', '&']

/-- `re.match(r'\$\{?(\w*)\}?', c).group(1)` for a `c` that starts with `$` -/
def reVarName : Str → Str
  | '$' :: '{' :: r => r.takeWhile isWord
  | '$' :: r => r.takeWhile isWord
  | _ => []

/-- `NinjaRule.__init__.strToCommandArg` on a plain string -/
def strToCommandArg (c : Str) : CmdArg :=
  if c = andand then ⟨c, .notShell⟩
  else if c.head? = some '$' then
    if Generated.rawNames.contains (reVarName c) then ⟨c, .notNinja⟩ else ⟨c, .none⟩
  else ⟨c, .both⟩

/-- `NinjaRule._quoter(x, qf)` -/
def quoter (qf : Str → Str) (x : CmdArg) : Except QErr Str :=
  match x.q with
  | .none => .ok x.s
  | .notNinja => .ok (qf x.s)
  | .notShell => ninjaQuote false x.s
  | .both => ninjaQuote false (qf x.s)

inductive RspStyle where
  | gcc | msvc | tasking
  deriving DecidableEq, Repr

structure Rule where
  command : List CmdArg
  args : List CmdArg
  rspStyle : RspStyle := .gcc
  deriving Repr

/-- `self.command_str` — the ` command = ` value of the plain rule -/
def Rule.commandStr (r : Rule) : Except QErr Str :=
  joinSp <$> (r.command ++ r.args).mapM (quoter shQuote)

def atOutRsp : Str := " @$out.rsp".toList
def optFileOutRsp : Str := " --option-file=$out.rsp".toList
def dollarIn : Str := ['$', 'i', 'n']
def dollarInNewline : Str := "$in_newline".toList

/-- the ` command = ` value of the `_RSP` rule -/
def Rule.rspCommandStr (r : Rule) : Except QErr Str := do
  let c ← r.command.mapM (quoter shQuote)
  pure (joinSp c ++ (if r.rspStyle = .tasking then optFileOutRsp else atOutRsp))

/-- the ` rspfile_content = ` value of the `_RSP` rule -/
def Rule.rspContentStr (r : Rule) : Except QErr Str :=
  match r.rspStyle with
  | .gcc => joinSp <$> r.args.mapM (quoter gccRspQuote)
  | _ => joinSp <$> (r.args.map (fun a => if a.s = dollarIn then ⟨dollarInNewline, a.q⟩ else a)).mapM
            (quoter cmdQuote)

/-! ## `NinjaBuildElement.write`: variable lines -/

/-- the quoting function chosen for the elements of a build statement -/
def elemQuoteFunc (useRsp : Bool) (style : RspStyle) : Str → Str :=
  if useRsp then (if style = .gcc then gccRspQuote else cmdQuote) else shQuote

/-- value text of one ` name = …` line (POSIX branch: no UNC rewriting) -/
def varValue (qf : Str → Str) (name : Str) (elems : List Str) : Except QErr Str :=
  let shouldQuote := !(Generated.rawNames.contains name)
  joinSp <$> elems.mapM (fun i =>
    if !shouldQuote || i = andand then ninjaQuote false i else ninjaQuote false (qf i))

def varLine (qf : Str → Str) (name : Str) (elems : List Str) : Except QErr Str :=
  (fun v => ' ' :: name ++ [' ', '=', ' '] ++ v ++ ['\n']) <$> varValue qf name elems

/-! ## `Backend.escape_extra_args` -/

def escapeExtraArgs (args : List Str) : List Str :=
  args.map (fun a =>
    if startsWith a ['-', 'D'] || startsWith a ['/', 'D'] then replaceChar '\\' ['\\', '\\'] a else a)

/-! ## `substitute_values` and the tail of `eval_custom_target_command` -/

inductive TVal where
  | one (v : Str)
  | many (vs : List Str)      -- only `@INPUT@` / `@OUTPUT@`
  deriving DecidableEq, Repr

abbrev Values := List (Str × TVal)

def Values.get? (vs : Values) (k : Str) : Option TVal := (vs.find? (fun p => p.1 = k)).map (·.2)

inductive SErr where
  | noInputs | plainWithMany | badInputIndex | noOutputs | badOutputIndex
  | partInputMany | partOutputMany
  deriving DecidableEq, Repr

def tINPUT : Str := "@INPUT@".toList
def tOUTPUT : Str := "@OUTPUT@".toList
def tPLAINNAME : Str := "@PLAINNAME@".toList
def tBASENAME : Str := "@BASENAME@".toList
def tOUTDIR : Str := "@OUTDIR@".toList

/-- first match of `@<word>([0-9]+)?@` (searching left to right) in `s`, with `word` one of
`INPUT`/`OUTPUT`; returns the matched text -/
def findIndexed (word : Str) : Str → Option Str
  | [] => none
  | c :: cs =>
    let s := c :: cs
    let pre := '@' :: word
    if pre.isPrefixOf s then
      let rest := s.drop pre.length
      let digits := rest.takeWhile isDigit
      if (rest.drop digits.length).head? = some '@' then some (pre ++ digits ++ ['@'])
      else findIndexed word cs
    else findIndexed word cs

/-- `re.search(lit, s)` for a literal pattern -/
def hasSub (lit : Str) : Str → Bool
  | [] => lit = []
  | c :: cs => lit.isPrefixOf (c :: cs) || hasSub lit cs

/-- `iter_regexin_iter(regexes, command)` reduced to "is there a match" (the order of regexes and
items only selects the text of the message) -/
def anyIndexed (word : Str) (cmd : List Str) : Bool := cmd.any (fun s => (findIndexed word s).isSome)
def anyLit (lit : Str) (cmd : List Str) : Bool := cmd.any (hasSub lit)

def manyLen : Option TVal → Nat
  | some (.many vs) => vs.length
  | some (.one _) => 1
  | none => 0

/-- `_substitute_values_check_errors` -/
def checkErrors (cmd : List Str) (vs : Values) : Except SErr Unit := do
  match vs.get? tINPUT with
  | none =>
    if anyIndexed "INPUT".toList cmd || anyLit tPLAINNAME cmd || anyLit tBASENAME cmd then
      throw .noInputs
  | some iv =>
    if manyLen (some iv) > 1 then
      if anyLit tPLAINNAME cmd || anyLit tBASENAME cmd then throw .plainWithMany
    for each in cmd do
      match findIndexed "INPUT".toList each with
      | some m => if (vs.get? m).isNone then throw .badInputIndex
      | none => pure ()
  match vs.get? tOUTPUT with
  | none =>
    if anyIndexed "OUTPUT".toList cmd || anyLit tOUTDIR cmd then throw .noOutputs
  | some _ =>
    for each in cmd do
      match findIndexed "OUTPUT".toList each with
      | some m => if (vs.get? m).isNone then throw .badOutputIndex
      | none => pure ()

/-- first key of `vs` (dictionary order = alternation order of `value_rx`) that is a prefix -/
def matchKey (vs : Values) (s : Str) : Option (Str × TVal) :=
  vs.find? (fun p => p.1 ≠ [] && p.1.isPrefixOf s)

/-- `value_rx.sub(replace, vv)`; `fuel` = length of the text (each step consumes ≥ 1 char) -/
def subAll (vs : Values) : Nat → Str → Except SErr Str
  | 0, _ => .ok []
  | _, [] => .ok []
  | fuel + 1, c :: cs =>
    match matchKey vs (c :: cs) with
    | some (k, v) =>
      let rest := (c :: cs).drop k.length
      match v with
      | .one r => (r ++ ·) <$> subAll vs fuel rest
      | .many l =>
        if l.length > 1 && k = tINPUT then .error .partInputMany
        else if l.length > 1 && k = tOUTPUT then .error .partOutputMany
        else (l.headD [] ++ ·) <$> subAll vs fuel rest
    | none => (c :: ·) <$> subAll vs fuel cs

/-- `substitute_values(command, values)` for a command of plain strings -/
def substituteValues (cmd : List Str) (vs : Values) : Except SErr (List Str) := do
  checkErrors cmd vs
  if vs = [] then return cmd
  let parts ← cmd.mapM (fun vv =>
    match vs.get? vv with
    | some (.many l) => pure l
    | some (.one o) => pure [o]
    | none => (fun x => [x]) <$> subAll vs vv.length vv)
  pure parts.flatten

/-- `cmd = [i.replace('\\', '/') …]` -/
def backslashNorm (cmd : List Str) : List Str := cmd.map (replaceChar '\\' ['/'])

/-- the string part of `eval_custom_target_command` after the `@SOURCE_ROOT@`-family replacements -/
def evalCustomCommand (cmd : List Str) (vs : Values) : Except SErr (List Str) :=
  backslashNorm <$> substituteValues cmd vs

/-! ## `as_meson_exe_cmdline`: how the command is wrapped -/

structure ExeReq where
  extraPaths : Bool := false
  exeWrapper : Bool := false
  workdir : Bool := false
  cmdArgs : List Str            -- `es.cmd_args` (exe ++ args)
  envVars : List (Str × Str) := []   -- `env.get_env({})` when `env and env.varnames`
  envUnset : Bool := false      -- `env.unset_vars` is non-empty
  canUseEnv : Bool := true      -- `env.can_use_env`
  sepIsSpace : Bool := true
  forceSerialize : Bool := false
  capture : Option Str := none
  feed : Option Str := none
  haveEnvProgram : Bool := true -- `shutil.which('env')`
  deriving Repr

inductive Wrapped where
  | direct (argv : List Str)                   -- `es.cmd_args`
  | envPrefix (argv : List Str)                -- `['env'] + envlist + es.cmd_args`
  | internalExe (opts : List Str) (argv : List Str)  -- build_command + ['--internal','exe'] + opts + ['--'] + argv
  | pickled                                    -- build_command + ['--internal','exe','--unpickle', file]
  deriving DecidableEq, Repr

inductive Reason where
  | path | wrapper | workdir | newlines | env | envNewlines | separator
  deriving DecidableEq, Repr

def reasons (r : ExeReq) : List Reason :=
  (if r.extraPaths then [.path] else []) ++ (if r.exeWrapper then [.wrapper] else []) ++
  (if r.workdir then [.workdir] else []) ++
  (if r.cmdArgs.any (·.contains '\n') then [.newlines] else []) ++
  (if r.envVars ≠ [] ∨ r.envUnset = true then
     [.env] ++ (if r.envVars.any (·.2.contains '\n') then [.envNewlines] else [])
   else []) ++
  (if !r.sepIsSpace then [.separator] else [])

def asMesonExeCmdline (r : ExeReq) : Wrapped :=
  let rs := reasons r
  let canUseEnv := r.envVars ≠ [] && r.canUseEnv && !r.forceSerialize
  let force := r.forceSerialize || rs ≠ []
  -- `reasons == ['to set env']` is evaluated after capture/feed were appended
  -- env(1) would take a program word with `=` in it for one more assignment: such a command is serialised
  if canUseEnv && rs = [.env] && r.capture.isNone && r.feed.isNone && r.haveEnvProgram &&
      !(r.cmdArgs.headD []).contains '=' then
    .envPrefix (['e', 'n', 'v'] :: r.envVars.map (fun kv => kv.1 ++ '=' :: kv.2) ++ r.cmdArgs)
  else if !force then
    if r.capture.isNone && r.feed.isNone then .direct r.cmdArgs
    else .internalExe
      ((match r.capture with | some c => ["--capture".toList, c] | none => []) ++
       (match r.feed with | some f => ["--feed".toList, f] | none => [])) r.cmdArgs
  else .pickled

/-! ## `meson --internal exe`: the wrapper's own command line (`scripts/meson_exe.py` `run`)

`buildparser()` declares `--unpickle`, `--capture`, `--feed` (one value each) next to argparse's
`-h` and `--help`, and `run` calls `parse_known_args`: options may be abbreviated, written `--opt=value`,
and are recognised anywhere before the first `--`; everything from the first `--` on is left alone.
The classification below is argparse's `_parse_optional` for this parser (CPython 3.12). -/

inductive ExeOpt where
  | unpickle | capture | feed
  deriving DecidableEq, Repr

inductive ArgClass where
  | positional                       -- pattern letter `A`
  | unknownOpt                       -- pattern letter `O`, no action: goes to the extras
  | opt (o : ExeOpt) (explicit : Option Str)
  | help
  | bad                              -- argparse calls `error()` when it gets to this word → exit status 2
  | ambiguous                        -- "ambiguous option": found while classifying, before anything is acted on
  deriving DecidableEq, Repr

def longOpts : List (Str × Option ExeOpt) :=
  [("--help".toList, none), ("--unpickle".toList, some .unpickle), ("--capture".toList, some .capture),
   ("--feed".toList, some .feed)]

/-- `^-\d+$|^-\d*\.\d+$` (`$` also matches before one trailing newline) -/
def negNumberLike (s : Str) : Bool :=
  let s := if s.getLast? = some '\n' then s.dropLast else s
  match s with
  | '-' :: r =>
    (r ≠ [] && r.all isDigit) ||
    (let a := r.takeWhile isDigit
     match r.drop a.length with
     | '.' :: f => f ≠ [] && f.all isDigit
     | _ => false)
  | _ => false

def ofLong : Option ExeOpt → Option Str → ArgClass
  | some o, e => .opt o e
  | none, none => .help
  | none, some _ => .bad            -- `--help=x`: "ignored explicit argument"

def fallbackClass (a : Str) : ArgClass :=
  if negNumberLike a then .positional else if a.contains ' ' then .positional else .unknownOpt

def classifyArg (a : Str) : ArgClass :=
  match a with
  | [] => .positional
  | c :: rest =>
    if c ≠ '-' then .positional
    else if a = ['-', 'h'] then .help
    else match longOpts.find? (fun p => p.1 = a) with
      | some p => ofLong p.2 none
      | none =>
        if rest = [] then .positional
        else
          let pre := a.takeWhile (· ≠ '=')
          let explicit : Option Str := if a.contains '=' then some (a.drop (pre.length + 1)) else none
          if rest.head? = some '-' then
            -- long form: exact `--opt=value`, else unique-prefix abbreviation
            match (if explicit.isSome then longOpts.find? (fun p => p.1 = pre) else none) with
            | some p => ofLong p.2 explicit
            | none =>
              match longOpts.filter (fun p => pre.isPrefixOf p.1) with
              | [p] => ofLong p.2 explicit
              | [] => fallbackClass a
              | _ => .ambiguous
          else
            -- single dash: `-h` with flags attached (`-hh`, `-h=h`: more `-h`s → help; anything else
            -- is "ignored explicit argument"); every other single-dash word is unknown
            if a.take 2 = ['-', 'h'] then
              let e := if (a.drop 2).head? = some '=' then a.drop 3 else a.drop 2
              if e ≠ [] && e.all (· == 'h') then .help else .bad
            else fallbackClass a

structure ExeArgs where
  unpickle : Option Str := none
  capture : Option Str := none
  feed : Option Str := none
  extras : List Str := []
  deriving DecidableEq, Repr

def ExeArgs.set (st : ExeArgs) (o : ExeOpt) (v : Str) : ExeArgs :=
  match o with
  | .unpickle => { st with unpickle := some v }
  | .capture => { st with capture := some v }
  | .feed => { st with feed := some v }

inductive ExeParse where
  | run (capture feed : Option Str) (argv : List Str)   -- `ExecutableSerialisation(cmd_args, capture=…, feed=…)`
  | unpickle (file : Str)
  | helpExit                                            -- `-h`: prints help, exit status 0, nothing runs
  | usageError                                          -- `parser.error`: exit status 2, nothing runs
  deriving DecidableEq, Repr

/-- `parse_known_args` over the words before the first `--` (`fuel` = number of words) -/
def exeScan : Nat → ExeArgs → List Str → Except ExeParse ExeArgs
  | 0, st, _ => .ok st
  | _, st, [] => .ok st
  | fuel + 1, st, a :: rest =>
    if a = ['-', '-'] then .ok { st with extras := st.extras ++ a :: rest }
    else match classifyArg a with
      | .positional => exeScan fuel { st with extras := st.extras ++ [a] } rest
      | .unknownOpt => exeScan fuel { st with extras := st.extras ++ [a] } rest
      | .help => .error .helpExit
      | .bad => .error .usageError
      | .ambiguous => .error .usageError
      | .opt o (some v) => exeScan fuel (st.set o v) rest
      | .opt o none =>
        match rest with
        | v :: rest' =>
          if v ≠ ['-', '-'] && classifyArg v = .positional then exeScan fuel (st.set o v) rest'
          else .error .usageError                          -- "expected one argument"
        | [] => .error .usageError

def nonEmpty? : Option Str → Option Str
  | some [] => none
  | x => x

/-- `meson_exe.run(args)` up to the call of `run_exe` -/
def mesonExeParse (args : List Str) : ExeParse :=
  -- all words before the first `--` are classified first; an ambiguous abbreviation is reported there
  if (args.takeWhile (· ≠ ['-', '-'])).any (fun a => classifyArg a = .ambiguous) then .usageError else
  match exeScan args.length {} args with
  | .error e => e
  | .ok st =>
    let cmd := if st.extras.head? = some ['-', '-'] then st.extras.drop 1 else st.extras
    match nonEmpty? st.unpickle with
    | none => if cmd = [] then .usageError else .run st.capture st.feed cmd
    | some f =>
      if cmd ≠ [] || (nonEmpty? st.capture).isSome || (nonEmpty? st.feed).isSome then .usageError
      else .unpickle f

/-! ## The name of the pickled wrapper file (`as_meson_exe_cmdline`)

`meson_exe_<basename>_<digest>.dat`, digest = SHA-1 over `env.hash`, `str(es.cmd_args)`,
`str(es.workdir)`, `str(capture)`, `str(feed)`.  What matters for "different commands get different
files" is the text fed to the hash; `reprList` is `str(list_of_str)` reduced to its structure
(quote, escape of backslash and quote, `, ` between items, brackets). -/

def escReprChar (c : Char) : Str :=
  if c = '\\' then ['\\', '\\'] else if c = '\'' then ['\\', '\''] else [c]

def reprStr (s : Str) : Str := '\'' :: (s.flatMap escReprChar ++ ['\''])

def reprItems : List Str → Str
  | [] => []
  | [a] => reprStr a
  | a :: b :: r => reprStr a ++ ',' :: ' ' :: reprItems (b :: r)

def reprList (l : List Str) : Str := '[' :: (reprItems l ++ [']'])

/-- feeding the arguments to the hash one after the other -/
def concatEnc (l : List Str) : Str := l.flatten

def datPre : Str := ['m', 'e', 's', 'o', 'n', '_', 'e', 'x', 'e', '_']
def datSuf : Str := ['.', 'd', 'a', 't']

/-- file name for a given digest function and argument encoding -/
def datName (H : Str → Str) (enc : List Str → Str) (prog : Str) (args : List Str) : Str :=
  (datPre ++ prog ++ ['_']) ++ (H (enc args) ++ datSuf)

/-! ## `meson test`: the command of one test run (`mtest.py`)

`SingleTestRunner._get_cmd` = `TestHarness.get_wrapper(options) + test_cmd` (native build, program
found: `test_cmd = test.fname`), and `SingleTestRunner.run` starts
`self.cmd + self.test.cmd_args + self.options.test_args`.  The wrapper is `--wrapper` from the
command line or the `exe_wrapper` of the selected `add_test_setup`. -/

def testCmd (wrapper prog args extra : List Str) : List Str := wrapper ++ prog ++ args ++ extra

/-- the commands of all runners of one `meson test` invocation (one wrapper, one `--test-args`) -/
def runnerCmds (wrapper extra : List Str) (tests : List (List Str × List Str)) : List (List Str) :=
  tests.map (fun t => testCmd wrapper t.1 t.2 extra)

/-! ## Consumer specification 1: Ninja's evaluation of a binding value

From `lexer.in.cc` (`ReadEvalString`, `path = false`) and `eval_env.cc`.  A value is one line.
`$$`→`$`, `$ `→space, `$:`→`:`, `$\n` + leading spaces → nothing, `$name` with
`name ∈ [a-zA-Z0-9_-]+`, `${name}` with `name ∈ [a-zA-Z0-9_.-]+`; any other `$x` is an error. -/

inductive NTok where
  | lit (c : Char)
  | var (name : Str)
  deriving DecidableEq, Repr

inductive NErr where
  | badEscape | newlineInValue | unterminatedBrace | cycle
  deriving DecidableEq, Repr

def isSimpleVarChar (c : Char) : Bool := isAlnum c || c == '_' || c == '-'
def isBraceVarChar (c : Char) : Bool := isSimpleVarChar c || c == '.'

inductive NState where
  | norm
  | dollar
  | svar (acc : Str)
  | bvar (acc : Str)
  | cont                -- after `$\n`, skipping the indentation of the continuation line
  deriving Repr

/-- what to do with `c` in state `norm` (shared by the states that fall back to it) -/
def nLex : NState → Str → Except NErr (List NTok)
  | .norm, [] => .ok []
  | .dollar, [] => .error .badEscape
  | .svar a, [] => .ok [.var a]
  | .bvar _, [] => .error .unterminatedBrace
  | .cont, [] => .ok []
  | .norm, c :: cs =>
    if c = '$' then nLex .dollar cs
    else if c = '\n' then .error .newlineInValue
    else (NTok.lit c :: ·) <$> nLex .norm cs
  | .dollar, c :: cs =>
    if c = '$' || c = ' ' || c = ':' then (NTok.lit c :: ·) <$> nLex .norm cs
    else if c = '{' then nLex (.bvar []) cs
    else if c = '\n' then nLex .cont cs
    else if isSimpleVarChar c then nLex (.svar [c]) cs
    else .error .badEscape
  | .svar a, c :: cs =>
    if isSimpleVarChar c then nLex (.svar (a ++ [c])) cs
    else if c = '$' then (NTok.var a :: ·) <$> nLex .dollar cs
    else if c = '\n' then .error .newlineInValue
    else (fun r => NTok.var a :: NTok.lit c :: r) <$> nLex .norm cs
  | .bvar a, c :: cs =>
    if c = '}' then (if a = [] then .error .badEscape else (NTok.var a :: ·) <$> nLex .norm cs)
    else if isBraceVarChar c then nLex (.bvar (a ++ [c])) cs
    else .error .badEscape
  | .cont, c :: cs =>
    if c = ' ' then nLex .cont cs
    else if c = '$' then nLex .dollar cs
    else if c = '\n' then .error .newlineInValue
    else (NTok.lit c :: ·) <$> nLex .norm cs

def nExpand (env : Str → Str) : List NTok → Str
  | [] => []
  | .lit c :: r => c :: nExpand env r
  | .var v :: r => env v ++ nExpand env r

/-- evaluation of a binding value in an environment -/
def ninjaEval (env : Str → Str) (v : Str) : Except NErr Str := nExpand env <$> nLex .norm v

/-- Ninja's `GetShellEscapedString` applied to `$in` / `$out` paths -/
def ninjaShellSafeChar (c : Char) : Bool :=
  isAlnum c || c == '_' || c == '+' || c == '-' || c == '.' || c == '/'

def ninjaShellEscape (s : Str) : Str :=
  if s.all ninjaShellSafeChar then s
  else '\'' :: (replaceChar '\'' ['\'', '\\', '\'', '\''] s ++ ['\''])

def assocGet (l : List (Str × Str)) (k : Str) : Option Str := (l.find? (fun p => p.1 = k)).map (·.2)

/-- a build statement as Ninja sees it: the rule's (unevaluated) bindings, the statement's own
(already evaluated) bindings, explicit inputs and outputs -/
structure Edge where
  ruleBindings : List (Str × Str)
  vars : List (Str × Str)
  ins : List Str
  outs : List Str

def joinNl : List Str → Str
  | [] => []
  | [a] => a
  | a :: b :: rest => a ++ '\n' :: joinNl (b :: rest)

def sIn : Str := ['i', 'n']
def sOut : Str := ['o', 'u', 't']
def sInNewline : Str := ['i', 'n', '_', 'n', 'e', 'w', 'l', 'i', 'n', 'e']

/-- expansion of the tokens of a rule binding; `look` resolves a variable reference -/
def evalToks (look : Str → Except NErr Str) (toks : List NTok) : Except NErr Str := do
  let parts ← toks.mapM (fun t => match t with
    | .lit c => pure [c]
    | .var v => look v)
  pure parts.flatten

/-- `EdgeEnv::LookupVariable`: `in`/`in_newline`/`out`, then the statement's bindings, then the
rule's bindings evaluated in this same environment (depth bounded by `fuel`; Ninja reports a cycle),
then the enclosing scope, which for generated files defines nothing we use: empty. -/
def edgeLookup (e : Edge) : Nat → Str → Except NErr Str
  | 0, _ => .error .cycle
  | fuel + 1, name =>
    if name = sIn then .ok (joinSp (e.ins.map ninjaShellEscape))
    else if name = sInNewline then .ok (joinNl (e.ins.map ninjaShellEscape))
    else if name = sOut then .ok (joinSp (e.outs.map ninjaShellEscape))
    else match assocGet e.vars name with
      | some v => .ok v
      | none =>
        match assocGet e.ruleBindings name with
        | none => .ok []
        | some raw =>
          match nLex .norm raw with
          | .error er => .error er
          | .ok toks => evalToks (fun v => edgeLookup e fuel v) toks

/-- the value of a rule binding (`command`, `rspfile_content`, …) for this build statement -/
def edgeBinding (e : Edge) (name : Str) : Except NErr Str := edgeLookup e 16 name

/-! ## Consumer specification 2: POSIX sh word splitting, restricted

Supported: blanks (space, tab) between words; unquoted characters from `shlex`'s safe set;
`'…'` (everything literal); `"…"` without `$`, `` ` ``, `\`; the operator `&&`.
Everything else is `unsupported` — never a guess. -/

inductive ShTok where
  | w (s : Str)
  | andand
  deriving DecidableEq, Repr

inductive ShErr where
  | unsupported (c : Char)
  | unterminated
  | emptyCommand
  | operator
  deriving DecidableEq, Repr

inductive ShState where
  | gap
  | word (acc : Str)
  | sq (acc : Str)
  | dq (acc : Str)
  | amp (acc : Option Str)    -- one `&` read (after an optional pending word)
  deriving Repr

def isBlank (c : Char) : Bool := c == ' ' || c == '\t'

def pend : Option Str → List ShTok
  | none => []
  | some a => [.w a]

def shLex : ShState → Str → Except ShErr (List ShTok)
  | .gap, [] => .ok []
  | .word a, [] => .ok [.w a]
  | .sq _, [] => .error .unterminated
  | .dq _, [] => .error .unterminated
  | .amp _, [] => .error (.unsupported '&')
  | .gap, c :: cs =>
    if isBlank c then shLex .gap cs
    else if c = '\'' then shLex (.sq []) cs
    else if c = '"' then shLex (.dq []) cs
    else if c = '&' then shLex (.amp none) cs
    else if shSafeChar c then shLex (.word [c]) cs
    else .error (.unsupported c)
  | .word a, c :: cs =>
    if isBlank c then (ShTok.w a :: ·) <$> shLex .gap cs
    else if c = '\'' then shLex (.sq a) cs
    else if c = '"' then shLex (.dq a) cs
    else if c = '&' then shLex (.amp (some a)) cs
    else if shSafeChar c then shLex (.word (a ++ [c])) cs
    else .error (.unsupported c)
  | .sq a, c :: cs =>
    if c = '\'' then shLex (.word a) cs else shLex (.sq (a ++ [c])) cs
  | .dq a, c :: cs =>
    if c = '"' then shLex (.word a) cs
    else if c = '$' || c = '`' || c = '\\' then .error (.unsupported c)
    else shLex (.dq (a ++ [c])) cs
  | .amp p, c :: cs =>
    if c = '&' then (fun r => pend p ++ ShTok.andand :: r) <$> shLex .gap cs
    else .error (.unsupported '&')

/-- the words of a simple command; an operator is an error here -/
def wordsOnly : List ShTok → Except ShErr (List Str)
  | [] => .ok []
  | .w s :: r => (s :: ·) <$> wordsOnly r
  | .andand :: _ => .error .operator

def shSplit (s : Str) : Except ShErr (List Str) := shLex .gap s >>= wordsOnly

/-- split a token list at `&&`; every simple command must be non-empty -/
def splitAndAnd : List Str → List ShTok → Except ShErr (List (List Str))
  | cur, [] => if cur = [] then .error .emptyCommand else .ok [cur]
  | cur, .w s :: r => splitAndAnd (cur ++ [s]) r
  | cur, .andand :: r =>
    if cur = [] then .error .emptyCommand else (cur :: ·) <$> splitAndAnd [] r

/-- the argv of every simple command of an and-list -/
def shCommands (s : Str) : Except ShErr (List (List Str)) := shLex .gap s >>= splitAndAnd []

/-! ## Consumer specification 3: libiberty `buildargv` (GCC response files) -/

/-- libiberty `ISSPACE`: space, \t, \n, \v, \f, \r -/
def isCSpace (c : Char) : Bool := c == ' ' || (9 ≤ c.toNat && c.toNat ≤ 13)

inductive BQuote where
  | none | sq | dq
  deriving DecidableEq, Repr

inductive BState where
  | gap
  | arg (acc : Str) (q : BQuote) (bs : Bool)
  deriving Repr

/-- one character inside an argument -/
def bArgStep (acc : Str) (q : BQuote) (bs : Bool) (c : Char) : BState :=
  if bs then .arg (acc ++ [c]) q false
  else if c = '\\' then .arg acc q true
  else match q with
    | .sq => if c = '\'' then .arg acc .none false else .arg (acc ++ [c]) .sq false
    | .dq => if c = '"' then .arg acc .none false else .arg (acc ++ [c]) .dq false
    | .none =>
      if c = '\'' then .arg acc .sq false
      else if c = '"' then .arg acc .dq false
      else .arg (acc ++ [c]) .none false

def buildargvGo : BState → Str → List Str
  | .gap, [] => []
  | .arg acc _ _, [] => [acc]
  | .gap, c :: cs => if isCSpace c then buildargvGo .gap cs else buildargvGo (bArgStep [] .none false c) cs
  | .arg acc q bs, c :: cs =>
    if isCSpace c && q = .none && !bs then acc :: buildargvGo .gap cs
    else buildargvGo (bArgStep acc q bs c) cs

/-- the arguments `gcc @file` reads from a response file with this content -/
def buildargv (s : Str) : List Str := buildargvGo .gap s

end MesonModel.Quote
