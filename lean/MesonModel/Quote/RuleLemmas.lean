/-
Helper lemmas for C03: the compile / link rule shapes (`c_COMPILER`, `c_LINKER`, plain and `_RSP`):
rule text, statement environment, evaluated command.
-/
import MesonModel.Quote.EdgeLemmas
namespace MesonModel.Quote
open MesonModel.Py

def sARGS : Str := ['A','R','G','S']
def sLINK_ARGS : Str := ['L','I','N','K','_','A','R','G','S']
def scommand : Str := ['c','o','m','m','a','n','d']
def wO : Str := ['-', 'o']
def wC : Str := ['-', 'c']

def GoodExe (e : Str) : Prop := NoNl e ∧ e ≠ andand ∧ e.head? ≠ some '$'

instance (e : Str) : Decidable (GoodExe e) := by unfold GoodExe; infer_instance

theorem strToCommandArg_good (e : Str) (h : GoodExe e) : strToCommandArg e = ⟨e, .both⟩ := by
  unfold strToCommandArg
  rw [if_neg h.2.1, if_neg h.2.2]

theorem quoter_exe (qf : Str → Str) (hqf : ∀ s, NoNl s → NoNl (qf s)) (exe : List Str) (h : ∀ e ∈ exe, GoodExe e) :
    (exe.map strToCommandArg).mapM (quoter qf) = .ok ((exe.map qf).map (ninjaEsc false)) := by
  rw [List.mapM_map]
  rw [mapM_ok _ (fun e => ninjaEsc false (qf e))]
  · simp [List.map_map, Function.comp_def]
  · intro e he
    show quoter qf (strToCommandArg e) = _
    rw [strToCommandArg_good e (h e he)]
    exact ninjaQuote_eq _ (hqf e (h e he).1)

def compileArgs : List CmdArg :=
  [strToCommandArg ('$' :: sARGS), ⟨wO, .none⟩, ⟨'$' :: sOut, .none⟩, strToCommandArg wC, strToCommandArg ('$' :: sIn)]

def tailC : Str := "$ARGS -o $out -c $in".toList

theorem compileArgs_sh : compileArgs.mapM (quoter shQuote) = .ok ["$ARGS".toList, wO, "$out".toList, wC, "$in".toList] := by decide
theorem compileArgs_rsp : compileArgs.mapM (quoter gccRspQuote) = .ok ["$ARGS".toList, wO, "$out".toList, wC, "$in".toList] := by decide


theorem mapM_append_ok {α β ε} (f : α → Except ε β) (l1 l2 : List α) (r1 r2 : List β)
    (h1 : l1.mapM f = .ok r1) (h2 : l2.mapM f = .ok r2) : (l1 ++ l2).mapM f = .ok (r1 ++ r2) := by
  induction l1 generalizing r1 with
  | nil => cases h1; simpa using h2
  | cons a l ih =>
    rw [List.mapM_cons] at h1
    cases ha : f a with
    | error e => rw [ha] at h1; cases h1
    | ok b =>
      rw [ha] at h1
      cases hl : l.mapM f with
      | error e => rw [hl] at h1; cases h1
      | ok bs =>
        rw [hl] at h1
        injection h1 with h1; subst h1
        rw [List.cons_append, List.mapM_cons, ha, ih bs hl]
        rfl

def compileRule (exe : List Str) : Rule := { command := exe.map strToCommandArg, args := compileArgs }

theorem compileRule_commandStr (exe : List Str) (hne : exe ≠ []) (h : ∀ e ∈ exe, GoodExe e) :
    (compileRule exe).commandStr = .ok (joinSp ((exe.map shQuote).map (ninjaEsc false)) ++ ' ' :: tailC) := by
  unfold Rule.commandStr compileRule
  rw [mapM_append_ok _ _ _ _ _ (quoter_exe shQuote shQuote_noNl exe h) compileArgs_sh]
  rw [map_ok, joinSp_append _ _ (by simpa using hne) (by simp)]
  rfl

def tailToksC : List NTok :=
  [.lit ' ', .var sARGS, .lit ' ', .lit '-', .lit 'o', .lit ' ', .var sOut, .lit ' ', .lit '-', .lit 'c', .lit ' ', .var sIn]

theorem nLex_tailC : nLex .norm (' ' :: tailC) = .ok tailToksC := by decide

def compileEdge (exe args : List Str) (out inp : Str) : Edge :=
  { ruleBindings := [(scommand, joinSp ((exe.map shQuote).map (ninjaEsc false)) ++ ' ' :: tailC)],
    vars := [(sARGS, joinSp (args.map shQuote))], ins := [inp], outs := [out] }

theorem compile_edge (exe args : List Str) (out inp : Str) (hexe : ∀ e ∈ exe, GoodExe e)
    (hout : PlainWord out) (hinp : PlainWord inp) :
    edgeBinding (compileEdge exe args out inp) scommand =
      .ok (piecesStr shQuote [exe, args, [wO, out, wC, inp]]) := by
  unfold edgeBinding
  have hl := nLex_join_rest (exe.map shQuote)
    (by intro x hx; rw [List.mem_map] at hx; obtain ⟨e, he, rfl⟩ := hx; exact shQuote_noNl e (hexe e he).1)
    (' ' :: tailC)
  rw [nLex_tailC, map_ok] at hl
  rw [edgeLookup_rule (compileEdge exe args out inp) 15 scommand _ _ (by decide) (by decide) (by decide) rfl rfl hl]
  rw [evalToks_lits]
  have hA : edgeLookup (compileEdge exe args out inp) 15 sARGS = .ok (joinSp (args.map shQuote)) :=
    edgeLookup_var _ 14 sARGS _ (by decide) (by decide) (by decide) rfl
  have hO : edgeLookup (compileEdge exe args out inp) 15 sOut = .ok out := by
    have := edgeLookup_out (compileEdge exe args out inp) 14
    simpa [compileEdge, joinSp, ninjaShellEscape_plain hout] using this
  have hI : edgeLookup (compileEdge exe args out inp) 15 sIn = .ok inp := by
    have := edgeLookup_in (compileEdge exe args out inp) 14
    simpa [compileEdge, joinSp, ninjaShellEscape_plain hinp] using this
  unfold tailToksC
  rw [evalToks_lit, evalToks_var _ sARGS _ _ hA]
  rw [evalToks_lit, evalToks_lit, evalToks_lit, evalToks_lit, evalToks_var _ sOut _ _ hO]
  rw [evalToks_lit, evalToks_lit, evalToks_lit, evalToks_lit, evalToks_var _ sIn _ _ hI, evalToks_nil]
  have q1 : shQuote ['-', 'o'] = ['-', 'o'] := by decide
  have q2 : shQuote ['-', 'c'] = ['-', 'c'] := by decide
  simp [piecesStr, joinSp, q1, q2, shQuote_safe hout.1 (plain_all_safe hout), shQuote_safe hinp.1 (plain_all_safe hinp), wO, wC]


/-! ### link shape: `cc $ARGS -o $out $in $LINK_ARGS` -/

def linkArgs : List CmdArg :=
  [strToCommandArg ('$' :: sARGS), ⟨wO, .none⟩, ⟨'$' :: sOut, .none⟩, strToCommandArg ('$' :: sIn),
   strToCommandArg ('$' :: sLINK_ARGS)]

def tailL : Str := "$ARGS -o $out $in $LINK_ARGS".toList

theorem linkArgs_sh : linkArgs.mapM (quoter shQuote) =
    .ok ["$ARGS".toList, wO, "$out".toList, "$in".toList, "$LINK_ARGS".toList] := by decide
theorem linkArgs_rsp : linkArgs.mapM (quoter gccRspQuote) =
    .ok ["$ARGS".toList, wO, "$out".toList, "$in".toList, "$LINK_ARGS".toList] := by decide

def linkRule (exe : List Str) : Rule := { command := exe.map strToCommandArg, args := linkArgs }

theorem linkRule_commandStr (exe : List Str) (hne : exe ≠ []) (h : ∀ e ∈ exe, GoodExe e) :
    (linkRule exe).commandStr = .ok (joinSp ((exe.map shQuote).map (ninjaEsc false)) ++ ' ' :: tailL) := by
  unfold Rule.commandStr linkRule
  rw [mapM_append_ok _ _ _ _ _ (quoter_exe shQuote shQuote_noNl exe h) linkArgs_sh]
  rw [map_ok, joinSp_append _ _ (by simpa using hne) (by simp)]
  rfl

def tailToksL : List NTok :=
  [.lit ' ', .var sARGS, .lit ' ', .lit '-', .lit 'o', .lit ' ', .var sOut, .lit ' ', .var sIn, .lit ' ', .var sLINK_ARGS]

theorem nLex_tailL : nLex .norm (' ' :: tailL) = .ok tailToksL := by decide

def linkEdge (exe args largs : List Str) (out inp : Str) : Edge :=
  { ruleBindings := [(scommand, joinSp ((exe.map shQuote).map (ninjaEsc false)) ++ ' ' :: tailL)],
    vars := [(sARGS, joinSp (args.map shQuote)), (sLINK_ARGS, joinSp (largs.map shQuote))], ins := [inp], outs := [out] }

theorem link_edge (exe args largs : List Str) (out inp : Str) (hexe : ∀ e ∈ exe, GoodExe e)
    (hout : PlainWord out) (hinp : PlainWord inp) :
    edgeBinding (linkEdge exe args largs out inp) scommand =
      .ok (piecesStr shQuote [exe, args, [wO, out, inp], largs]) := by
  unfold edgeBinding
  have hl := nLex_join_rest (exe.map shQuote)
    (by intro x hx; rw [List.mem_map] at hx; obtain ⟨e, he, rfl⟩ := hx; exact shQuote_noNl e (hexe e he).1)
    (' ' :: tailL)
  rw [nLex_tailL, map_ok] at hl
  rw [edgeLookup_rule (linkEdge exe args largs out inp) 15 scommand _ _ (by decide) (by decide) (by decide) rfl rfl hl]
  rw [evalToks_lits]
  have hA : edgeLookup (linkEdge exe args largs out inp) 15 sARGS = .ok (joinSp (args.map shQuote)) :=
    edgeLookup_var _ 14 sARGS _ (by decide) (by decide) (by decide) rfl
  have hL : edgeLookup (linkEdge exe args largs out inp) 15 sLINK_ARGS = .ok (joinSp (largs.map shQuote)) :=
    edgeLookup_var _ 14 sLINK_ARGS _ (by decide) (by decide) (by decide) rfl
  have hO : edgeLookup (linkEdge exe args largs out inp) 15 sOut = .ok out := by
    have := edgeLookup_out (linkEdge exe args largs out inp) 14
    simpa [linkEdge, joinSp, ninjaShellEscape_plain hout] using this
  have hI : edgeLookup (linkEdge exe args largs out inp) 15 sIn = .ok inp := by
    have := edgeLookup_in (linkEdge exe args largs out inp) 14
    simpa [linkEdge, joinSp, ninjaShellEscape_plain hinp] using this
  unfold tailToksL
  rw [evalToks_lit, evalToks_var _ sARGS _ _ hA]
  rw [evalToks_lit, evalToks_lit, evalToks_lit, evalToks_lit, evalToks_var _ sOut _ _ hO]
  rw [evalToks_lit, evalToks_var _ sIn _ _ hI, evalToks_lit, evalToks_var _ sLINK_ARGS _ _ hL, evalToks_nil]
  have q1 : shQuote ['-', 'o'] = ['-', 'o'] := by decide
  simp [piecesStr, joinSp, q1, shQuote_safe hout.1 (plain_all_safe hout), shQuote_safe hinp.1 (plain_all_safe hinp), wO]

/-! ### `_RSP` rules: `command = exe @$out.rsp`, `rspfile_content = <args>` -/

def srspfile_content : Str := "rspfile_content".toList

theorem rspCommandStr_exe (exe : List Str) (args : List CmdArg) (h : ∀ e ∈ exe, GoodExe e) :
    ({ command := exe.map strToCommandArg, args := args } : Rule).rspCommandStr =
      .ok (joinSp ((exe.map shQuote).map (ninjaEsc false)) ++ atOutRsp) := by
  unfold Rule.rspCommandStr
  simp only [quoter_exe shQuote shQuote_noNl exe h, bind, Except.bind]
  rfl

theorem compileRule_rspContentStr (exe : List Str) : (compileRule exe).rspContentStr = .ok tailC := by
  unfold Rule.rspContentStr compileRule
  simp only [compileArgs_rsp, map_ok]
  rfl

theorem linkRule_rspContentStr (exe : List Str) : (linkRule exe).rspContentStr = .ok tailL := by
  unfold Rule.rspContentStr linkRule
  simp only [linkArgs_rsp, map_ok]
  rfl

def rspToks : List NTok := [.lit ' ', .lit '@', .var sOut, .lit '.', .lit 'r', .lit 's', .lit 'p']

theorem nLex_atOutRsp : nLex .norm atOutRsp = .ok rspToks := by decide

/-- the name of the response file as the compiler sees it -/
def atFile (out : Str) : Str := '@' :: (out ++ ['.', 'r', 's', 'p'])

theorem atFile_safe (out : Str) (h : PlainWord out) : shQuote (atFile out) = atFile out := by
  apply shQuote_safe (by simp [atFile])
  unfold atFile
  simp only [List.all_cons, List.all_append, plain_all_safe h, List.all_nil]
  decide

/-- the `command` of any `_RSP` statement whose rule is `exe… @$out.rsp` -/
theorem rsp_command_edge (e : Edge) (exe : List Str) (out : Str) (hexe : ∀ x ∈ exe, GoodExe x)
    (hout : PlainWord out) (hv : assocGet e.vars scommand = none)
    (hr : assocGet e.ruleBindings scommand = some (joinSp ((exe.map shQuote).map (ninjaEsc false)) ++ atOutRsp))
    (houts : e.outs = [out]) :
    edgeBinding e scommand = .ok (piecesStr shQuote [exe, [atFile out]]) := by
  unfold edgeBinding
  have hl := nLex_join_rest (exe.map shQuote)
    (by intro x hx; rw [List.mem_map] at hx; obtain ⟨y, hy, rfl⟩ := hx; exact shQuote_noNl y (hexe y hy).1)
    atOutRsp
  rw [nLex_atOutRsp, map_ok] at hl
  rw [edgeLookup_rule e 15 scommand _ _ (by decide) (by decide) (by decide) hv hr hl]
  rw [evalToks_lits]
  have hO : edgeLookup e 15 sOut = .ok out := by
    have := edgeLookup_out e 14
    simpa [houts, joinSp, ninjaShellEscape_plain hout] using this
  unfold rspToks
  rw [evalToks_lit, evalToks_lit, evalToks_var _ sOut _ _ hO, evalToks_lit, evalToks_lit, evalToks_lit, evalToks_lit,
    evalToks_nil]
  simp [piecesStr, joinSp, atFile_safe out hout]
  simp [atFile]

def compileRspEdge (exe args : List Str) (out inp : Str) : Edge :=
  { ruleBindings := [(scommand, joinSp ((exe.map shQuote).map (ninjaEsc false)) ++ atOutRsp), (srspfile_content, tailC)],
    vars := [(sARGS, joinSp (args.map gccRspQuote))], ins := [inp], outs := [out] }

theorem nLex_tailC' : nLex .norm tailC = .ok tailToksC.tail := by decide
theorem nLex_tailL' : nLex .norm tailL = .ok tailToksL.tail := by decide

theorem compile_rsp_content (exe args : List Str) (out inp : Str) (hout : PlainWord out) (hinp : PlainWord inp) :
    edgeBinding (compileRspEdge exe args out inp) srspfile_content =
      .ok (piecesStr gccRspQuote [args, [wO, out, wC, inp]]) := by
  unfold edgeBinding
  rw [edgeLookup_rule (compileRspEdge exe args out inp) 15 srspfile_content _ _ (by decide) (by decide) (by decide)
    rfl rfl nLex_tailC']
  have hA : edgeLookup (compileRspEdge exe args out inp) 15 sARGS = .ok (joinSp (args.map gccRspQuote)) :=
    edgeLookup_var _ 14 sARGS _ (by decide) (by decide) (by decide) rfl
  have hO : edgeLookup (compileRspEdge exe args out inp) 15 sOut = .ok out := by
    have := edgeLookup_out (compileRspEdge exe args out inp) 14
    simpa [compileRspEdge, joinSp, ninjaShellEscape_plain hout] using this
  have hI : edgeLookup (compileRspEdge exe args out inp) 15 sIn = .ok inp := by
    have := edgeLookup_in (compileRspEdge exe args out inp) 14
    simpa [compileRspEdge, joinSp, ninjaShellEscape_plain hinp] using this
  unfold tailToksC
  simp only [List.tail_cons]
  rw [evalToks_var _ sARGS _ _ hA]
  rw [evalToks_lit, evalToks_lit, evalToks_lit, evalToks_lit, evalToks_var _ sOut _ _ hO]
  rw [evalToks_lit, evalToks_lit, evalToks_lit, evalToks_lit, evalToks_var _ sIn _ _ hI, evalToks_nil]
  have q1 : gccRspQuote ['-', 'o'] = ['-', 'o'] := by decide
  have q2 : gccRspQuote ['-', 'c'] = ['-', 'c'] := by decide
  simp [piecesStr, joinSp, q1, q2, gccRspQuote_safe hout.1 (plain_all_safe hout),
    gccRspQuote_safe hinp.1 (plain_all_safe hinp), wO, wC]

def linkRspEdge (exe args largs : List Str) (out inp : Str) : Edge :=
  { ruleBindings := [(scommand, joinSp ((exe.map shQuote).map (ninjaEsc false)) ++ atOutRsp), (srspfile_content, tailL)],
    vars := [(sARGS, joinSp (args.map gccRspQuote)), (sLINK_ARGS, joinSp (largs.map gccRspQuote))],
    ins := [inp], outs := [out] }

theorem link_rsp_content (exe args largs : List Str) (out inp : Str) (hout : PlainWord out) (hinp : PlainWord inp) :
    edgeBinding (linkRspEdge exe args largs out inp) srspfile_content =
      .ok (piecesStr gccRspQuote [args, [wO, out, inp], largs]) := by
  unfold edgeBinding
  rw [edgeLookup_rule (linkRspEdge exe args largs out inp) 15 srspfile_content _ _ (by decide) (by decide) (by decide)
    rfl rfl nLex_tailL']
  have hA : edgeLookup (linkRspEdge exe args largs out inp) 15 sARGS = .ok (joinSp (args.map gccRspQuote)) :=
    edgeLookup_var _ 14 sARGS _ (by decide) (by decide) (by decide) rfl
  have hL : edgeLookup (linkRspEdge exe args largs out inp) 15 sLINK_ARGS = .ok (joinSp (largs.map gccRspQuote)) :=
    edgeLookup_var _ 14 sLINK_ARGS _ (by decide) (by decide) (by decide) rfl
  have hO : edgeLookup (linkRspEdge exe args largs out inp) 15 sOut = .ok out := by
    have := edgeLookup_out (linkRspEdge exe args largs out inp) 14
    simpa [linkRspEdge, joinSp, ninjaShellEscape_plain hout] using this
  have hI : edgeLookup (linkRspEdge exe args largs out inp) 15 sIn = .ok inp := by
    have := edgeLookup_in (linkRspEdge exe args largs out inp) 14
    simpa [linkRspEdge, joinSp, ninjaShellEscape_plain hinp] using this
  unfold tailToksL
  simp only [List.tail_cons]
  rw [evalToks_var _ sARGS _ _ hA]
  rw [evalToks_lit, evalToks_lit, evalToks_lit, evalToks_lit, evalToks_var _ sOut _ _ hO]
  rw [evalToks_lit, evalToks_var _ sIn _ _ hI, evalToks_lit, evalToks_var _ sLINK_ARGS _ _ hL, evalToks_nil]
  have q1 : gccRspQuote ['-', 'o'] = ['-', 'o'] := by decide
  simp [piecesStr, joinSp, q1, gccRspQuote_safe hout.1 (plain_all_safe hout),
    gccRspQuote_safe hinp.1 (plain_all_safe hinp), wO]

end MesonModel.Quote
