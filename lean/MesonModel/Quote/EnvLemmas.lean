/-
Helper lemmas for C03, environment delivery (`MesonModel/Quote/Env.lean`).
-/
import MesonModel.Quote.Env

namespace MesonModel.Quote
open MesonModel.Py

/-! ### dictionaries -/

theorem dictGet_dictSet_same (d : Dict) (k v : Str) : dictGet (dictSet d k v) k = some v := by
  induction d with
  | nil => simp [dictSet, dictGet]
  | cons p r ih =>
    obtain ⟨k', v'⟩ := p
    by_cases h : k' = k
    · simp [dictSet, dictGet, h]
    · simp [dictSet, dictGet, h, ih]

theorem dictGet_dictSet_other (d : Dict) (k v n : Str) (h : k ≠ n) :
    dictGet (dictSet d k v) n = dictGet d n := by
  induction d with
  | nil => simp [dictSet, dictGet, h]
  | cons p r ih =>
    obtain ⟨k', v'⟩ := p
    by_cases hk : k' = k
    · subst hk; simp [dictSet, dictGet, h]
    · by_cases hn : k' = n
      · subst hn; simp [dictSet, dictGet, hk]
      · simp [dictSet, dictGet, hk, hn, ih]

theorem dictGet_dictPop (d : Dict) (k n : Str) :
    dictGet (dictPop d k) n = if k = n then none else dictGet d n := by
  induction d with
  | nil => simp [dictPop, dictGet]
  | cons p r ih =>
    obtain ⟨k', v'⟩ := p
    unfold dictPop at ih ⊢
    by_cases hk : k' = k
    · subst hk
      by_cases hn : k' = n
      · subst hn; simpa [List.filter, dictGet] using ih
      · simpa [List.filter, dictGet, hn] using ih
    · by_cases hn : k' = n
      · subst hn
        have : ¬ k = k' := fun e => hk e.symm
        simp [List.filter, dictGet, hk, this]
      · simp only [List.filter, hk, ne_eq, not_false_eq_true, decide_true, dictGet, hn, if_false]
        exact ih

theorem dictGet_foldl_pop (l : List Str) (d : Dict) (n : Str) :
    dictGet (l.foldl dictPop d) n = if l.contains n then none else dictGet d n := by
  induction l generalizing d with
  | nil => simp
  | cons k r ih =>
    simp only [List.foldl_cons, ih, dictGet_dictPop, List.contains_cons]
    by_cases h : k = n
    · subst h; simp
    · have h' : (n == k) = false := by simpa using fun e : n = k => h e.symm
      simp [h, h']

/-! ### `get_env` = the per-variable meaning -/

theorem dictGet_applyOp (dflt : Str → Option Str) (d : Dict) (op : EnvOp) (n : Str) :
    dictGet (applyOp dflt d op) n =
      if op.name = n then some (opValue ((dictGet d n).orElse (fun _ => dflt n)) op) else dictGet d n := by
  unfold applyOp
  by_cases h : op.name = n
  · subst h; simp [dictGet_dictSet_same]
  · simp [h, dictGet_dictSet_other _ _ _ _ h]

theorem dictGet_foldl_ops (dflt : Str → Option Str) (ops : List EnvOp) (d : Dict) (n : Str) :
    dictGet (ops.foldl (applyOp dflt) d) n = evalVar n (dflt n) (dictGet d n) ops := by
  induction ops generalizing d with
  | nil => simp [evalVar]
  | cons op r ih =>
    simp only [List.foldl_cons, ih, dictGet_applyOp, evalVar]
    by_cases h : op.name = n <;> simp [h]

theorem getEnv_meaning (e : EnvVars) (dflt : Str → Option Str) (base : Dict) (n : Str) :
    dictGet (getEnv e dflt base) n = envMeaning e dflt base n := by
  unfold getEnv envMeaning
  rw [dictGet_foldl_pop, dictGet_foldl_ops]

/-! ### keys stay unique -/

def keys (d : Dict) : List Str := d.map (·.1)

theorem keys_dictSet (d : Dict) (k v : Str) :
    keys (dictSet d k v) = if k ∈ keys d then keys d else keys d ++ [k] := by
  induction d with
  | nil => simp [dictSet, keys]
  | cons p r ih =>
    obtain ⟨k', v'⟩ := p
    unfold keys at ih ⊢
    by_cases h : k' = k
    · subst h; simp [dictSet]
    · have h' : ¬ k = k' := fun e => h e.symm
      simp only [dictSet, h, if_false, List.map_cons, ih, List.mem_cons, h', false_or]
      split <;> simp

theorem nodup_dictSet (d : Dict) (k v : Str) (h : (keys d).Nodup) : (keys (dictSet d k v)).Nodup := by
  rw [keys_dictSet]
  split
  · exact h
  · next hk =>
    rw [List.nodup_append]
    refine ⟨h, by simp, ?_⟩
    intro a ha b hb
    simp only [List.mem_cons, List.not_mem_nil, or_false] at hb
    subst hb
    intro e; subst e; exact hk ha

theorem nodup_foldl_ops (dflt : Str → Option Str) (ops : List EnvOp) (d : Dict) (h : (keys d).Nodup) :
    (keys (ops.foldl (applyOp dflt) d)).Nodup := by
  induction ops generalizing d with
  | nil => exact h
  | cons op r ih => exact ih _ (nodup_dictSet _ _ _ h)

theorem mem_keys_dictSet (d : Dict) (k v a : Str) (h : a ∈ keys (dictSet d k v)) : a ∈ keys d ∨ a = k := by
  rw [keys_dictSet] at h
  split at h
  · exact .inl h
  · simp only [List.mem_append, List.mem_cons, List.not_mem_nil, or_false] at h; exact h

theorem keys_foldl_ops (dflt : Str → Option Str) (ops : List EnvOp) (d : Dict) (a : Str)
    (h : a ∈ keys (ops.foldl (applyOp dflt) d)) : a ∈ keys d ∨ ∃ op ∈ ops, op.name = a := by
  induction ops generalizing d with
  | nil => exact .inl h
  | cons op r ih =>
    rcases ih _ h with h1 | ⟨o, ho, hn⟩
    · rcases mem_keys_dictSet _ _ _ _ h1 with h2 | h2
      · exact .inl h2
      · exact .inr ⟨op, by simp, h2.symm⟩
    · exact .inr ⟨o, by simp [ho], hn⟩

theorem dictGet_none_of_not_mem (d : Dict) (k : Str) (h : k ∉ keys d) : dictGet d k = none := by
  induction d with
  | nil => rfl
  | cons p r ih =>
    obtain ⟨k', v'⟩ := p
    simp only [keys, List.map_cons, List.mem_cons, not_or] at h
    have h1 : ¬ k' = k := fun e => h.1 e.symm
    simp only [dictGet, h1, if_false]
    exact ih h.2

/-- assigning the items of a unique-keyed dictionary one after the other -/
theorem dictGet_foldl_assign (l : Dict) (base : Dict) (n : Str) (h : (keys l).Nodup) :
    dictGet (l.foldl (fun d kv => dictSet d kv.1 kv.2) base) n = (dictGet l n).orElse (fun _ => dictGet base n) := by
  induction l generalizing base with
  | nil => simp [dictGet]
  | cons p r ih =>
    obtain ⟨k, v⟩ := p
    simp only [keys, List.map_cons, List.nodup_cons] at h
    simp only [List.foldl_cons]
    rw [ih _ h.2]
    by_cases hk : k = n
    · subst hk
      rw [dictGet_none_of_not_mem r k h.1]
      simp [dictGet, dictGet_dictSet_same]
    · simp [dictGet, hk, dictGet_dictSet_other _ _ _ _ hk]

/-! ### env(1) on the words of the inline prefix -/

theorem splitEq_assign (k v : Str) (h : '=' ∉ k) : splitEq (k ++ '=' :: v) = some (k, v) := by
  induction k with
  | nil => simp [splitEq]
  | cons c k ih =>
    simp only [List.mem_cons, not_or] at h
    have hc : ¬ c = '=' := fun e => h.1 e.symm
    simp [splitEq, hc, ih h.2]

theorem splitEq_none (w : Str) (h : '=' ∉ w) : splitEq w = none := by
  induction w with
  | nil => rfl
  | cons c w ih =>
    simp only [List.mem_cons, not_or] at h
    have hc : ¬ c = '=' := fun e => h.1 e.symm
    simp [splitEq, hc, ih h.2]

/-- a variable name env(1) accepts as the left side of an operand -/
def GoodName (k : Str) : Prop := k ≠ [] ∧ '=' ∉ k ∧ k.head? ≠ some '-'

/-- a first command word env(1) takes as the utility -/
def GoodUtility (w : Str) : Prop := '=' ∉ w ∧ w.head? ≠ some '-'

theorem envUtility_assignments (l : Dict) (base : Dict) (c0 : Str) (rest : List Str)
    (hl : ∀ kv ∈ l, GoodName kv.1) (hc : GoodUtility c0) :
    envUtility base (l.map (fun kv => kv.1 ++ '=' :: kv.2) ++ c0 :: rest) =
      .ok (l.foldl (fun d kv => dictSet d kv.1 kv.2) base, c0 :: rest) := by
  induction l generalizing base with
  | nil =>
    simp only [List.map_nil, List.nil_append, List.foldl_nil, envUtility]
    rw [if_neg hc.2, splitEq_none c0 hc.1]
  | cons p r ih =>
    obtain ⟨k, v⟩ := p
    have hk := hl (k, v) (by simp)
    have hhead : (k ++ '=' :: v).head? ≠ some '-' := by
      obtain ⟨hne, _, hh⟩ := hk
      cases k with
      | nil => exact absurd rfl hne
      | cons c k => simpa using hh
    simp only [List.map_cons, List.cons_append, envUtility, List.foldl_cons]
    rw [if_neg hhead, splitEq_assign k v hk.2.1]
    simp only [hk.1, if_false]
    exact ih _ (fun kv hkv => hl kv (by simp [hkv]))

/-! ### set-only environments: the inline prefix and the pickled wrapper agree -/

/-- what `can_use_env` stands for -/
def OnlySet (e : EnvVars) : Prop := (∀ op ∈ e.ops, op.kind = .set) ∧ e.unset = []

theorem evalVar_onlySet (n : Str) (ops : List EnvOp) (h : ∀ op ∈ ops, op.kind = .set) (c1 c2 : Option Str) :
    evalVar n none c1 ops = (evalVar n none none ops).orElse (fun _ => c1) ∧
    (evalVar n none c2 ops = (evalVar n none none ops).orElse (fun _ => c2)) := by
  induction ops generalizing c1 c2 with
  | nil => simp [evalVar]
  | cons op r ih =>
    have hk : op.kind = .set := h op (by simp)
    have hr : ∀ o ∈ r, o.kind = .set := fun o ho => h o (by simp [ho])
    by_cases hn : op.name = n
    · have hv : ∀ c : Option Str, opValue c op = joinSep op.sep op.values := by
        intro c; simp [opValue, hk]
      simp only [evalVar, hn, if_true, hv]
      -- the value after a `set` no longer depends on what was inherited
      have key : ∀ c : Option Str, ((evalVar n none (some (joinSep op.sep op.values)) r).orElse fun _ => c) =
          evalVar n none (some (joinSep op.sep op.values)) r := by
        intro c
        have := (ih hr (some (joinSep op.sep op.values)) none).1
        rw [this]
        cases evalVar n none none r <;> simp
      exact ⟨(key c1).symm, (key c2).symm⟩
    · simp only [evalVar, hn, if_false]
      exact ih hr c1 c2

theorem getEnv_onlySet (e : EnvVars) (h : OnlySet e) (base : Dict) (n : Str) :
    dictGet (getEnv e noDflt base) n = (dictGet (getEnv e noDflt []) n).orElse (fun _ => dictGet base n) := by
  rw [getEnv_meaning, getEnv_meaning]
  unfold envMeaning
  simp only [h.2, List.contains_nil, Bool.false_eq_true, if_false, noDflt, dictGet]
  exact (evalVar_onlySet n e.ops h.1 (dictGet base n) none).1

/-! ### `can_use_env` over API call sequences -/

def FlagSound (e : EnvVars) : Prop := e.canUseEnv = true → OnlySet e

def CallOk : EnvCall → Prop
  | .merge o => FlagSound o
  | _ => True

theorem flagSound_step (e : EnvVars) (c : EnvCall) (he : FlagSound e) (hc : CallOk c) : FlagSound (e.step c).1 := by
  cases c with
  | set n vs sep =>
    simp only [EnvVars.step]
    split
    · exact he
    · intro hf
      have := he hf
      refine ⟨?_, this.2⟩
      intro op hop
      simp only [List.mem_append, List.mem_cons, List.not_mem_nil, or_false] at hop
      rcases hop with hop | rfl
      · exact this.1 op hop
      · rfl
  | append n vs sep => simp only [EnvVars.step]; split <;> (intro hf; simp at hf)
  | prepend n vs sep => simp only [EnvVars.step]; split <;> (intro hf; simp at hf)
  | unset n => simp only [EnvVars.step]; split <;> (intro hf; simp at hf)
  | merge o =>
    simp only [EnvVars.step]
    intro hf
    simp only [Bool.and_eq_true, List.isEmpty_iff] at hf
    obtain ⟨⟨h1, h2⟩, h3⟩ := hf
    have a := he h1
    have b := hc h2
    refine ⟨?_, ?_⟩
    · intro op hop
      simp only [List.mem_append] at hop
      rcases hop with hop | hop
      · exact a.1 op hop
      · exact b.1 op hop
    · simp [a.2, h3]

theorem flagSound_run (e : EnvVars) (cs : List EnvCall) (he : FlagSound e) (hc : ∀ c ∈ cs, CallOk c) :
    FlagSound (e.run cs) := by
  unfold EnvVars.run
  induction cs generalizing e with
  | nil => exact he
  | cons c r ih =>
    simp only [List.foldl_cons]
    exact ih _ (flagSound_step e c he (hc c (by simp))) (fun x hx => hc x (by simp [hx]))

end MesonModel.Quote
