/-
Model of the argument-source API that feeds the compile / link command lines (property C03:
"same bytes, same count, same relative order").  Mirrors
`mesonbuild/interpreter/interpreter.py`: `Interpreter._add_arguments`, the common tail of
`add_project_arguments`, `add_global_arguments`, `add_project_link_arguments`,
`add_global_link_arguments` and `add_project_dependencies`:

    for lang in kwargs['language']:
        argsdict[lang] = argsdict.get(lang, []) + args

Core Lean only.
-/
import MesonModel.Quote.Model

namespace MesonModel.Quote

/-- `argsdict`: language → argument list, in insertion order -/
abbrev ArgsDict := List (Str × List Str)

/-- `argsdict.get(lang, [])` -/
def argsGet : ArgsDict → Str → List Str
  | [], _ => []
  | (k, v) :: r, l => if k = l then v else argsGet r l

/-- `argsdict[lang] = v` -/
def argsSet : ArgsDict → Str → List Str → ArgsDict
  | [], l, v => [(l, v)]
  | (k, v') :: r, l, v => if k = l then (k, v) :: r else (k, v') :: argsSet r l v

/-- one call of `_add_arguments` (not frozen) -/
def addArguments (d : ArgsDict) (langs : List Str) (args : List Str) : ArgsDict :=
  langs.foldl (fun d l => argsSet d l (argsGet d l ++ args)) d

/-- a history of calls `(language list, argument batch)` on an initially empty dictionary -/
def addHistory (d : ArgsDict) (h : List (List Str × List Str)) : ArgsDict :=
  h.foldl (fun d c => addArguments d c.1 c.2) d

/-- what one call contributes to language `l`: its batch, once per occurrence of `l` in `language:` -/
def contribution (l : Str) (c : List Str × List Str) : List Str :=
  (c.1.filter (· = l)).flatMap (fun _ => c.2)

theorem argsGet_argsSet_same (d : ArgsDict) (l : Str) (v : List Str) : argsGet (argsSet d l v) l = v := by
  induction d with
  | nil => simp [argsSet, argsGet]
  | cons p r ih =>
    obtain ⟨k, v'⟩ := p
    by_cases h : k = l
    · simp [argsSet, argsGet, h]
    · simp [argsSet, argsGet, h, ih]

theorem argsGet_argsSet_other (d : ArgsDict) (l n : Str) (v : List Str) (h : l ≠ n) :
    argsGet (argsSet d l v) n = argsGet d n := by
  induction d with
  | nil => simp [argsSet, argsGet, h]
  | cons p r ih =>
    obtain ⟨k, v'⟩ := p
    by_cases hk : k = l
    · subst hk; simp [argsSet, argsGet, h]
    · by_cases hn : k = n
      · subst hn; simp [argsSet, argsGet, hk]
      · simp [argsSet, argsGet, hk, hn, ih]

theorem argsGet_addArguments (d : ArgsDict) (langs args : List Str) (l : Str) :
    argsGet (addArguments d langs args) l = argsGet d l ++ contribution l (langs, args) := by
  unfold addArguments contribution
  induction langs generalizing d with
  | nil => simp
  | cons x r ih =>
    simp only [List.foldl_cons]
    rw [ih]
    by_cases h : x = l
    · subst h
      simp [argsGet_argsSet_same, List.filter_cons, List.flatMap_cons, List.append_assoc]
    · simp [argsGet_argsSet_other _ _ _ _ h, List.filter_cons, h]

theorem argsGet_addHistory (d : ArgsDict) (h : List (List Str × List Str)) (l : Str) :
    argsGet (addHistory d h) l = argsGet d l ++ h.flatMap (contribution l) := by
  unfold addHistory
  induction h generalizing d with
  | nil => simp
  | cons c r ih =>
    simp only [List.foldl_cons, List.flatMap_cons]
    rw [ih, argsGet_addArguments, List.append_assoc]

end MesonModel.Quote
