/-
Helper lemmas for C03, generator placeholder expansion (`MesonModel/Quote/Gen.lean`).
-/
import MesonModel.Quote.Gen
import MesonModel.Quote.PipeLemmas

namespace MesonModel.Quote
open MesonModel.Py

/-- a literal that starts with `@` does not occur in a text without `@` -/
theorem replaceLitGo_no_at (old new : Str) (ho : old.head? = some '@') (s : Str) (h : '@' ∉ s) :
    replaceLitGo old new 0 s = s := by
  induction s with
  | nil => rfl
  | cons c cs ih =>
    simp only [List.mem_cons, not_or] at h
    have hp : old.isPrefixOf (c :: cs) = false := by
      cases old with
      | nil => simp at ho
      | cons o os =>
        simp only [List.head?_cons, Option.some.injEq] at ho
        subst ho
        have : ('@' == c) = false := by simpa using h.1
        simp [List.isPrefixOf, this]
    simp only [replaceLitGo, hp, Bool.false_eq_true, if_false, ih h.2]

theorem replaceLit_no_at (old new : Str) (ho : old.head? = some '@') (s : Str) (h : '@' ∉ s) :
    replaceLit old new s = s := replaceLitGo_no_at old new ho s h

theorem findOutputN_no_at (s : Str) (h : '@' ∉ s) : findOutputN s = none := by
  induction s with
  | nil => rfl
  | cons c cs ih =>
    simp only [List.mem_cons, not_or] at h
    have hc : ('@' == c) = false := by simpa using h.1
    have hp : tOUTPUTpre.isPrefixOf (c :: cs) = false := by
      simp [tOUTPUTpre, List.isPrefixOf, hc]
    simp only [findOutputN, hp, Bool.false_eq_true, if_false, ih h.2]

theorem replaceOutputsArg_no_at (p : Str) (outs : List Str) (fuel : Nat) (s : Str) (h : '@' ∉ s) :
    replaceOutputsArg p outs (fuel + 1) s = .ok s := by
  simp [replaceOutputsArg, findOutputN_no_at s h]

theorem replacePathsArg_no_at (c : GenCtx) (s : Str) (h : '@' ∉ s) :
    replacePathsArg c s = replaceChar '\\' ['/'] s := by
  unfold replacePathsArg
  simp only
  rw [replaceLit_no_at tSOURCE_DIR _ rfl s h, replaceLit_no_at tBUILD_DIR _ rfl s h,
    replaceLit_no_at tCURRENT_SOURCE_DIR _ rfl s h, replaceLit_no_at tSOURCE_ROOT _ rfl s h,
    replaceLit_no_at tBUILD_ROOT _ rfl s h]

theorem genArgStages_no_at (c : GenCtx) (s : Str) (h : '@' ∉ s) :
    genArgStages c s = .ok (replaceChar '\\' ['/'] s) := by
  unfold genArgStages argBaseNames
  simp only
  rw [replaceLit_no_at tBASENAME _ rfl s h, replaceLit_no_at tPLAINNAME _ rfl s h]
  have tail : (do
      let x ← replaceOutputsArg c.privDir c.outfiles
        ((replaceLit tOUTPUT c.soleOutput (replaceLit tINPUT c.infile s)).length + 1)
        (replaceLit tOUTPUT c.soleOutput (replaceLit tINPUT c.infile s))
      pure (replacePathsArg c x) : Except GenErr Str) = .ok (replaceChar '\\' ['/'] s) := by
    rw [replaceLit_no_at tINPUT _ rfl s h, replaceLit_no_at tOUTPUT _ rfl s h]
    rw [replaceOutputsArg_no_at _ _ _ s h]
    simp only [bind, Except.bind, pure, Except.pure]
    rw [replacePathsArg_no_at c s h]
  cases c.depfile with
  | none => exact tail
  | some d =>
    simp only
    rw [replaceLit_no_at tDEPFILE _ rfl s h]
    exact tail

/-- none of the substituted literals occurs in the word `@EXTRA_ARGS@`: the stages pass it on -/
theorem genArgStages_extra (c : GenCtx) : genArgStages c tEXTRA_ARGS = .ok tEXTRA_ARGS := by
  unfold genArgStages argBaseNames
  cases c.depfile <;> rfl

theorem replaceExtraArgs_append (a b extra : List Str) :
    replaceExtraArgs (a ++ b) extra = replaceExtraArgs a extra ++ replaceExtraArgs b extra := by
  simp [replaceExtraArgs, List.flatMap_append]

theorem replaceExtraArgs_none (a extra : List Str) (h : ∀ x ∈ a, x ≠ tEXTRA_ARGS) :
    replaceExtraArgs a extra = a := by
  induction a with
  | nil => rfl
  | cons x a ih =>
    have hx := h x (by simp)
    simp only [replaceExtraArgs, List.flatMap_cons, hx, if_false] at ih ⊢
    rw [ih (fun y hy => h y (by simp [hy]))]
    rfl

theorem replaceChar_ne_extra (s : Str) (h : '@' ∉ s) : replaceChar '\\' ['/'] s ≠ tEXTRA_ARGS := by
  intro e
  have hm : '@' ∈ replaceChar '\\' ['/'] s := by rw [e]; decide
  unfold replaceChar at hm
  rw [List.mem_flatMap] at hm
  obtain ⟨x, hx, hin⟩ := hm
  split at hin
  · simp at hin
  · simp only [List.mem_cons, List.not_mem_nil, or_false] at hin
    subst hin; exact h hx

end MesonModel.Quote
