/-
Helper lemmas for C03: the encoding of the argument list that names the pickled wrapper file is
injective (a decoder reads it back).
-/
import MesonModel.Quote.Model

namespace MesonModel.Quote

inductive RState where
  | start | first | inStr (acc : Str) (esc : Bool) | afterStr | comma | needItem | done

/-- a reader for `reprList` -/
def reprDec : RState → List Str → Str → Option (List Str)
  | .done, items, [] => some items
  | _, _, [] => none
  | .start, items, c :: r => if c = '[' then reprDec .first items r else none
  | .first, items, c :: r =>
    if c = ']' then reprDec .done items r else if c = '\'' then reprDec (.inStr [] false) items r else none
  | .inStr a true, items, c :: r => reprDec (.inStr (a ++ [c]) false) items r
  | .inStr a false, items, c :: r =>
    if c = '\\' then reprDec (.inStr a true) items r
    else if c = '\'' then reprDec .afterStr (items ++ [a]) r
    else reprDec (.inStr (a ++ [c]) false) items r
  | .afterStr, items, c :: r =>
    if c = ']' then reprDec .done items r else if c = ',' then reprDec .comma items r else none
  | .comma, items, c :: r => if c = ' ' then reprDec .needItem items r else none
  | .needItem, items, c :: r => if c = '\'' then reprDec (.inStr [] false) items r else none
  | .done, _, _ :: _ => none

theorem reprDec_body (s : Str) (a : Str) (items : List Str) (rest : Str) :
    reprDec (.inStr a false) items (s.flatMap escReprChar ++ '\'' :: rest) =
      reprDec .afterStr (items ++ [a ++ s]) rest := by
  induction s generalizing a with
  | nil => simp [reprDec]
  | cons c s ih =>
    simp only [List.flatMap_cons, List.append_assoc]
    by_cases h1 : c = '\\'
    · subst h1
      simp only [escReprChar, if_true, List.cons_append, List.nil_append]
      rw [reprDec, if_pos rfl, reprDec, ih]
      simp
    · by_cases h2 : c = '\''
      · subst h2
        simp only [escReprChar, if_neg h1, if_true, List.cons_append, List.nil_append]
        rw [reprDec, if_pos rfl, reprDec, ih]
        simp
      · simp only [escReprChar, if_neg h1, if_neg h2, List.cons_append, List.nil_append]
        rw [reprDec, if_neg h1, if_neg h2, ih]
        simp

theorem reprDec_str_first (s : Str) (items : List Str) (rest : Str) :
    reprDec .first items (reprStr s ++ rest) = reprDec .afterStr (items ++ [s]) rest := by
  unfold reprStr
  simp only [List.cons_append, List.append_assoc, List.nil_append]
  rw [reprDec, if_neg (by decide), if_pos rfl, reprDec_body]
  simp

theorem reprDec_str_need (s : Str) (items : List Str) (rest : Str) :
    reprDec .needItem items (reprStr s ++ rest) = reprDec .afterStr (items ++ [s]) rest := by
  unfold reprStr
  simp only [List.cons_append, List.append_assoc, List.nil_append]
  rw [reprDec, if_pos rfl, reprDec_body]
  simp

theorem reprDec_items_need (l : List Str) (hne : l ≠ []) (items : List Str) :
    reprDec .needItem items (reprItems l ++ [']']) = some (items ++ l) := by
  induction l generalizing items with
  | nil => exact absurd rfl hne
  | cons a l ih =>
    cases l with
    | nil =>
      simp only [reprItems]
      rw [reprDec_str_need, reprDec, if_pos rfl, reprDec]
    | cons b r =>
      simp only [reprItems, List.append_assoc, List.cons_append]
      rw [reprDec_str_need, reprDec, if_neg (by decide), if_pos rfl, reprDec, if_pos rfl]
      have := ih (by simp) (items ++ [a])
      simp only [List.append_assoc, List.cons_append, List.nil_append] at this
      rw [this]

theorem reprDec_list (l : List Str) : reprDec .start [] (reprList l) = some l := by
  unfold reprList
  rw [reprDec, if_pos rfl]
  cases l with
  | nil => simp [reprItems, reprDec]
  | cons a l =>
    cases l with
    | nil =>
      simp only [reprItems]
      rw [reprDec_str_first, reprDec, if_pos rfl, reprDec]
      rfl
    | cons b r =>
      simp only [reprItems, List.append_assoc, List.cons_append]
      rw [reprDec_str_first, reprDec, if_neg (by decide), if_pos rfl, reprDec, if_pos rfl]
      have := reprDec_items_need (b :: r) (by simp) ([] ++ [a])
      simp only [List.append_assoc, List.cons_append, List.nil_append] at this ⊢
      rw [this]

theorem reprList_injective (a b : List Str) (h : reprList a = reprList b) : a = b := by
  have ha := reprDec_list a
  rw [h, reprDec_list b] at ha
  injection ha with ha
  exact ha.symm

end MesonModel.Quote
