/-
Helper lemmas for C03: the Ninja layer.  `nLex`/`ninjaEval` run over the output of `ninjaQuote`.
-/
import MesonModel.Quote.Model

namespace MesonModel.Quote
open MesonModel.Py

@[simp] theorem map_ok {ε α β} (f : α → β) (a : α) : f <$> (Except.ok a : Except ε α) = .ok (f a) := rfl
@[simp] theorem map_error {ε α β} (f : α → β) (e : ε) : f <$> (Except.error e : Except ε α) = .error e := rfl

instance {ε α} [DecidableEq ε] [DecidableEq α] : DecidableEq (Except ε α) := fun a b =>
  match a, b with
  | .ok x, .ok y => if h : x = y then isTrue (by rw [h]) else isFalse (fun e => h (by injection e))
  | .error x, .error y => if h : x = y then isTrue (by rw [h]) else isFalse (fun e => h (by injection e))
  | .ok _, .error _ => isFalse (fun e => by cases e)
  | .error _, .ok _ => isFalse (fun e => by cases e)

def NoNl (s : Str) : Prop := '\n' ∉ s

instance (s : Str) : Decidable (NoNl s) := by unfold NoNl; infer_instance

theorem contains_false_iff (s : Str) (c : Char) : s.contains c = false ↔ c ∉ s := by
  simp [List.contains_iff_mem]

theorem ninjaEsc_cons (b : Bool) (c : Char) (s : Str) :
    ninjaEsc b (c :: s) =
      (if c = '$' || c = ' ' || (b && c = ':') || c = '\n' then ['$', c] else [c]) ++ ninjaEsc b s := by
  simp [ninjaEsc, List.flatMap_cons]

/-- when nothing needs escaping the substitution is the identity, so the `if` in `ninja_quote` is only
a shortcut -/
theorem ninjaEsc_id (b : Bool) (s : Str)
    (h : ∀ c ∈ s, (c = '$' || c = ' ' || (b && c = ':') || c = '\n') = false) : ninjaEsc b s = s := by
  induction s with
  | nil => rfl
  | cons c s ih =>
    rw [ninjaEsc_cons, h c (by simp), ih (fun d hd => h d (by simp [hd]))]
    rfl

theorem ninjaQuote_eq' (b : Bool) (s : Str) (h : NoNl s) (hp : b = true → '|' ∉ s) :
    ninjaQuote b s = .ok (ninjaEsc b s) := by
  unfold ninjaQuote
  have hn : s.contains '\n' = false := (contains_false_iff _ _).2 h
  rw [if_neg (by rw [hn]; exact Bool.false_ne_true)]
  rw [if_neg (by
    cases b with
    | false => simp
    | true => rw [(contains_false_iff _ _).2 (hp rfl)]; simp)]
  split
  · rfl
  · next hc =>
    congr 1
    symm
    apply ninjaEsc_id
    intro c hc'
    simp only [Bool.or_eq_true, Bool.and_eq_true, not_or, not_and, Bool.not_eq_true] at hc
    have h1 : c ≠ ' ' := by
      intro e; subst e
      have := (contains_false_iff s ' ').1 hc.1.1; exact this hc'
    have h2 : c ≠ '$' := by
      intro e; subst e
      have := (contains_false_iff s '$').1 hc.1.2; exact this hc'
    have h3 : c ≠ '\n' := by
      intro e; subst e; exact h hc'
    have h4 : (b && decide (c = ':')) = false := by
      cases b with
      | false => rfl
      | true =>
        have := hc.2 rfl
        have hm := (contains_false_iff s ':').1 this
        have : c ≠ ':' := by intro e; subst e; exact hm hc'
        simp [this]
    simp [h1, h2, h3, h4]

theorem ninjaQuote_eq (s : Str) (h : NoNl s) : ninjaQuote false s = .ok (ninjaEsc false s) :=
  ninjaQuote_eq' false s h (fun e => by cases e)

theorem ninjaQuote_newline (b : Bool) (s : Str) (h : ¬ NoNl s) : ninjaQuote b s = .error .newline := by
  unfold ninjaQuote
  have : s.contains '\n' = true := by
    simp only [NoNl, Decidable.not_not] at h
    simpa [List.contains_iff_mem] using h
  rw [if_pos this]

/-! ### the lexer on escaped text -/

theorem nLex_norm_plain (c : Char) (cs : Str) (h1 : c ≠ '$') (h2 : c ≠ '\n') :
    nLex .norm (c :: cs) = (NTok.lit c :: ·) <$> nLex .norm cs := by
  simp [nLex, h1, h2]

theorem nLex_norm_dollar (cs : Str) : nLex .norm ('$' :: cs) = nLex .dollar cs := by
  simp [nLex]

theorem nLex_dollar_esc (c : Char) (cs : Str) (h : c = '$' ∨ c = ' ' ∨ c = ':') :
    nLex .dollar (c :: cs) = (NTok.lit c :: ·) <$> nLex .norm cs := by
  rcases h with h | h | h <;> subst h <;> simp [nLex]

theorem nLex_esc (b : Bool) (s : Str) (hs : NoNl s) (rest : Str) :
    nLex .norm (ninjaEsc b s ++ rest) = ((s.map NTok.lit) ++ ·) <$> nLex .norm rest := by
  induction s with
  | nil => simp [ninjaEsc]
  | cons c s ih =>
    have hs' : NoNl s := fun h => hs (by simp [h])
    have hc : c ≠ '\n' := fun h => hs (by simp [h])
    rw [ninjaEsc_cons]
    split
    · next hsp =>
      have : c = '$' ∨ c = ' ' ∨ c = ':' := by
        simp only [Bool.or_eq_true, Bool.and_eq_true, decide_eq_true_eq] at hsp
        rcases hsp with ((h | h) | h) | h
        · exact .inl h
        · exact .inr (.inl h)
        · exact .inr (.inr h.2)
        · exact absurd h hc
      simp only [List.cons_append, List.nil_append]
      rw [nLex_norm_dollar, nLex_dollar_esc _ _ this, ih hs']
      cases nLex .norm rest <;> simp
    · next hsp =>
      have h1 : c ≠ '$' := by
        intro e; subst e; simp at hsp
      simp only [List.cons_append, List.nil_append]
      rw [nLex_norm_plain _ _ h1 hc, ih hs']
      cases nLex .norm rest <;> simp

theorem nLex_space (rest : Str) : nLex .norm (' ' :: rest) = (NTok.lit ' ' :: ·) <$> nLex .norm rest :=
  nLex_norm_plain _ _ (by decide) (by decide)

theorem nExpand_lits (env : Str → Str) (s : Str) (r : List NTok) :
    nExpand env (s.map NTok.lit ++ r) = s ++ nExpand env r := by
  induction s with
  | nil => rfl
  | cons c s ih => simp [nExpand, ih]

/-- a joined list of escaped words lexes to the literal characters of the joined list -/
theorem nLex_join (xs : List Str) (h : ∀ x ∈ xs, NoNl x) :
    nLex .norm (joinSp (xs.map (ninjaEsc false))) = .ok ((joinSp xs).map NTok.lit) := by
  induction xs with
  | nil => simp [joinSp, nLex]
  | cons x xs ih =>
    cases xs with
    | nil =>
      have := nLex_esc false x (h x (by simp)) []
      simpa [joinSp, nLex] using this
    | cons y ys =>
      have ih' := ih (fun z hz => h z (by simp [hz]))
      simp only [List.map_cons, joinSp] at ih' ⊢
      rw [nLex_esc false x (h x (by simp)), nLex_space, ih']
      simp

theorem ninjaEval_join (env : Str → Str) (xs : List Str) (h : ∀ x ∈ xs, NoNl x) :
    ninjaEval env (joinSp (xs.map (ninjaEsc false))) = .ok (joinSp xs) := by
  unfold ninjaEval
  rw [nLex_join xs h]
  have := nExpand_lits env (joinSp xs) []
  simp only [List.append_nil] at this
  simp [this, nExpand]

/-! ### quoting functions never add or remove newlines -/

theorem replaceChar_noNl (c : Char) (r s : Str) (hr : NoNl r) (hs : NoNl s) : NoNl (replaceChar c r s) := by
  unfold NoNl replaceChar at *
  intro hm
  rw [List.mem_flatMap] at hm
  obtain ⟨x, hx, hm⟩ := hm
  split at hm
  · exact hr hm
  · simp at hm; subst hm; exact hs hx

theorem shQuote_noNl (s : Str) (hs : NoNl s) : NoNl (shQuote s) := by
  unfold shQuote
  split
  · unfold NoNl; decide
  · split
    · exact hs
    · have := replaceChar_noNl '\'' sqEsc s (by unfold NoNl; decide) hs
      unfold NoNl at *
      simp only [List.mem_cons, List.mem_append, List.not_mem_nil, or_false, not_or]
      exact ⟨by decide, this, by decide⟩

theorem gccRspQuote_noNl (s : Str) (hs : NoNl s) : NoNl (gccRspQuote s) :=
  shQuote_noNl _ (replaceChar_noNl _ _ _ (by unfold NoNl; decide) hs)

/-! ### `mapM` over `Except` -/

theorem mapM_ok {α β ε} (f : α → Except ε β) (g : α → β) (l : List α) (h : ∀ a ∈ l, f a = .ok (g a)) :
    l.mapM f = .ok (l.map g) := by
  induction l with
  | nil => rfl
  | cons a l ih =>
    rw [List.mapM_cons, h a (by simp), ih (fun b hb => h b (by simp [hb]))]
    rfl

end MesonModel.Quote
