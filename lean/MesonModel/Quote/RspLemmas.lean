/-
Helper lemmas for C03: the response-file layer.  `buildargv` run over the output of `gccRspQuote`.
-/
import MesonModel.Quote.ShLemmas

namespace MesonModel.Quote
open MesonModel.Py

def dbl (s : Str) : Str := replaceChar '\\' ['\\', '\\'] s

theorem gccRspQuote_eq (s : Str) : gccRspQuote s = shQuote (dbl s) := rfl

/-- every character `shlex.quote` leaves unquoted is above the ASCII controls and space -/
theorem safe_toNat {c : Char} (h : shSafeChar c = true) : 37 ≤ c.toNat := by
  unfold shSafeChar isWord isAlnum isDigit isAlpha at h
  simp only [Bool.or_eq_true, Bool.and_eq_true, decide_eq_true_eq, beq_iff_eq] at h
  rcases h with (((((((((h | h) | h) | h) | h) | h) | h) | h) | h) | h)
  · rcases h with (h | h) | h
    · omega
    · omega
    · subst h; decide
  all_goals (subst h; decide)

theorem safe_not_cspace {c : Char} (h : shSafeChar c = true) : isCSpace c = false := by
  have := safe_toNat h
  have h1 : c ≠ ' ' := safe_ne h (by decide)
  unfold isCSpace
  simp only [Bool.or_eq_false_iff, beq_eq_false_iff_ne, ne_eq, Bool.and_eq_false_iff, decide_eq_false_iff_not]
  exact ⟨h1, by omega⟩

theorem safe_not_bs {c : Char} (h : shSafeChar c = true) : c ≠ '\\' := safe_ne h (by decide)

/-! ### steps -/

theorem bav_none_safe (a : Str) (c : Char) (cs : Str) (h : shSafeChar c = true) :
    buildargvGo (.arg a .none false) (c :: cs) = buildargvGo (.arg (a ++ [c]) .none false) cs := by
  simp [buildargvGo, bArgStep, safe_not_cspace h, safe_not_bs h, safe_not_sq h, safe_not_dq h]

theorem bav_gap_safe (c : Char) (cs : Str) (h : shSafeChar c = true) :
    buildargvGo .gap (c :: cs) = buildargvGo (.arg [c] .none false) cs := by
  simp [buildargvGo, bArgStep, safe_not_cspace h, safe_not_bs h, safe_not_sq h, safe_not_dq h]

theorem bav_gap_sq (cs : Str) : buildargvGo .gap ('\'' :: cs) = buildargvGo (.arg [] .sq false) cs := by
  simp [buildargvGo, bArgStep, isCSpace]

theorem bav_gap_space (cs : Str) : buildargvGo .gap (' ' :: cs) = buildargvGo .gap cs := by
  simp [buildargvGo, isCSpace]

theorem bav_none_space (a : Str) (cs : Str) :
    buildargvGo (.arg a .none false) (' ' :: cs) = a :: buildargvGo .gap cs := by
  simp [buildargvGo, isCSpace]

theorem bav_sq_bs (a : Str) (cs : Str) :
    buildargvGo (.arg a .sq false) ('\\' :: '\\' :: cs) = buildargvGo (.arg (a ++ ['\\']) .sq false) cs := by
  simp [buildargvGo, bArgStep]

theorem bav_sq_other (a : Str) (c : Char) (cs : Str) (h1 : c ≠ '\\') (h2 : c ≠ '\'') :
    buildargvGo (.arg a .sq false) (c :: cs) = buildargvGo (.arg (a ++ [c]) .sq false) cs := by
  simp [buildargvGo, bArgStep, h1, h2]

theorem bav_sq_esc (a : Str) (cs : Str) :
    buildargvGo (.arg a .sq false) ('\'' :: '"' :: '\'' :: '"' :: '\'' :: cs) =
      buildargvGo (.arg (a ++ ['\'']) .sq false) cs := by
  simp [buildargvGo, bArgStep, isCSpace]

theorem bav_sq_close (a : Str) (cs : Str) :
    buildargvGo (.arg a .sq false) ('\'' :: cs) = buildargvGo (.arg a .none false) cs := by
  simp [buildargvGo, bArgStep]

/-! ### runs -/

theorem bav_none_run (s : Str) (hs : s.all shSafeChar = true) (a rest : Str) :
    buildargvGo (.arg a .none false) (s ++ rest) = buildargvGo (.arg (a ++ s) .none false) rest := by
  induction s generalizing a with
  | nil => simp
  | cons c s ih =>
    simp only [List.all_cons, Bool.and_eq_true] at hs
    rw [List.cons_append, bav_none_safe _ _ _ hs.1, ih hs.2]
    simp

theorem dbl_cons (c : Char) (s : Str) :
    replaceChar '\'' sqEsc (dbl (c :: s)) =
      (if c = '\\' then ['\\', '\\'] else if c = '\'' then sqEsc else [c]) ++ replaceChar '\'' sqEsc (dbl s) := by
  by_cases h1 : c = '\\'
  · subst h1; simp [dbl, replaceChar, List.flatMap_cons]
  · by_cases h2 : c = '\''
    · subst h2; simp [dbl, replaceChar, List.flatMap_cons]
    · simp [dbl, replaceChar, List.flatMap_cons, h1, h2]

theorem bav_sq_body (s : Str) (a rest : Str) :
    buildargvGo (.arg a .sq false) (replaceChar '\'' sqEsc (dbl s) ++ '\'' :: rest) =
      buildargvGo (.arg (a ++ s) .none false) rest := by
  induction s generalizing a with
  | nil => simp [dbl, replaceChar, bav_sq_close]
  | cons c s ih =>
    rw [dbl_cons]
    by_cases h1 : c = '\\'
    · subst h1
      simp only [if_true, List.cons_append, List.nil_append]
      rw [bav_sq_bs, ih]; simp
    · by_cases h2 : c = '\''
      · subst h2
        simp only [if_neg h1, if_true]
        rw [show ∀ X : Str, sqEsc ++ X = '\'' :: '"' :: '\'' :: '"' :: '\'' :: X from fun _ => rfl]
        simp only [List.cons_append, List.nil_append]
        rw [bav_sq_esc, ih]; simp
      · simp only [if_neg h1, if_neg h2, List.cons_append, List.nil_append]
        rw [bav_sq_other _ _ _ h1 h2, ih]; simp

/-- a string without unsafe characters has no backslash, so doubling is the identity -/
theorem dbl_safe (s : Str) (hs : (dbl s).all shSafeChar = true) : dbl s = s := by
  induction s with
  | nil => rfl
  | cons c s ih =>
    have hc : dbl (c :: s) = (if c = '\\' then ['\\', '\\'] else [c]) ++ dbl s := by
      simp [dbl, replaceChar, List.flatMap_cons]
    rw [hc] at hs ⊢
    by_cases h1 : c = '\\'
    · subst h1
      simp only [if_true, List.cons_append, List.all_cons, Bool.and_eq_true] at hs
      exact absurd hs.1 (by decide)
    · simp only [if_neg h1, List.cons_append, List.nil_append, List.all_cons, Bool.and_eq_true] at hs ⊢
      rw [ih hs.2]

theorem dbl_eq_nil (s : Str) (h : dbl s = []) : s = [] := by
  cases s with
  | nil => rfl
  | cons c s =>
    have hc : dbl (c :: s) = (if c = '\\' then ['\\', '\\'] else [c]) ++ dbl s := by
      simp [dbl, replaceChar, List.flatMap_cons]
    rw [hc] at h
    split at h <;> simp at h

theorem bav_quote_space (s rest : Str) :
    buildargvGo .gap (gccRspQuote s ++ ' ' :: rest) = s :: buildargvGo .gap rest := by
  rw [gccRspQuote_eq]
  unfold shQuote
  split
  · next h =>
    have := dbl_eq_nil s h; subst this
    simp [buildargvGo, bArgStep, isCSpace]
  · split
    · next hne hs =>
      have hd := dbl_safe s hs
      rw [hd] at hs hne ⊢
      cases s with
      | nil => exact absurd rfl hne
      | cons c s =>
        simp only [List.all_cons, Bool.and_eq_true] at hs
        rw [List.cons_append, bav_gap_safe _ _ hs.1, bav_none_run s hs.2, bav_none_space]
        simp
    · rw [List.cons_append, bav_gap_sq, List.append_assoc]
      simp only [List.cons_append, List.nil_append]
      rw [bav_sq_body, bav_none_space]
      simp

theorem bav_quote_end (s : Str) : buildargvGo .gap (gccRspQuote s) = [s] := by
  rw [gccRspQuote_eq]
  unfold shQuote
  split
  · next h =>
    have := dbl_eq_nil s h; subst this
    simp [buildargvGo, bArgStep, isCSpace]
  · split
    · next hne hs =>
      have hd := dbl_safe s hs
      rw [hd] at hs hne ⊢
      cases s with
      | nil => exact absurd rfl hne
      | cons c s =>
        simp only [List.all_cons, Bool.and_eq_true] at hs
        rw [bav_gap_safe _ _ hs.1]
        have := bav_none_run s hs.2 [c] []
        simp only [List.append_nil] at this
        rw [this]; simp [buildargvGo]
    · rw [bav_gap_sq]
      have := bav_sq_body s [] []
      simp only [List.nil_append] at this
      rw [this]; simp [buildargvGo]

theorem bav_join_space (ws : List Str) (rest : Str) :
    buildargvGo .gap (joinSp (ws.map gccRspQuote) ++ ' ' :: rest) = ws ++ buildargvGo .gap rest := by
  induction ws with
  | nil => simp [joinSp, bav_gap_space]
  | cons w ws ih =>
    cases ws with
    | nil => simp [joinSp, bav_quote_space]
    | cons w2 ws =>
      simp only [List.map_cons, joinSp, List.append_assoc, List.cons_append] at ih ⊢
      rw [bav_quote_space, ih]

theorem bav_join_end (ws : List Str) : buildargvGo .gap (joinSp (ws.map gccRspQuote)) = ws := by
  induction ws with
  | nil => simp [joinSp, buildargvGo]
  | cons w ws ih =>
    cases ws with
    | nil => simp [joinSp, bav_quote_end]
    | cons w2 ws =>
      simp only [List.map_cons, joinSp] at ih ⊢
      rw [bav_quote_space, ih]

end MesonModel.Quote
