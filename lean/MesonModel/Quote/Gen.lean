/-
Model of the placeholder expansion of a `generator()` command (property C03, producer side of the
argument path between `generator(arguments: …)` / `process(extra_args: …)` and `COMMAND`).  Mirrors:

* `mesonbuild/build.py`: `Generator.get_arglist` (`@BASENAME@`, `@PLAINNAME@`)
* `mesonbuild/backend/ninjabackend.py`: `NinjaBackend.generate_genlist_for_target` — the `@DEPFILE@`,
  `@INPUT@`, `@OUTPUT@` replacements and the order of the stages; `NinjaBackend.replace_paths`
  (`@SOURCE_DIR@`, `@BUILD_DIR@`, `@CURRENT_SOURCE_DIR@`, `@SOURCE_ROOT@`, `@BUILD_ROOT@`, `\` → `/`)
* `mesonbuild/backend/backends.py`: `Backend.replace_outputs` (`@OUTPUT<n>@`, a search/replace loop),
  `Backend.replace_extra_args` (an element that is exactly `@EXTRA_ARGS@`)

Core Lean only.
-/
import MesonModel.Quote.Model

namespace MesonModel.Quote
open MesonModel.Py

/-- `s.replace(old, new)` for a non-empty `old`: non-overlapping occurrences, left to right.
`skip` characters of an occurrence just replaced are still to be dropped. -/
def replaceLitGo (old new : Str) : Nat → Str → Str
  | _, [] => []
  | skip + 1, _ :: cs => replaceLitGo old new skip cs
  | 0, c :: cs =>
    if old.isPrefixOf (c :: cs) then new ++ replaceLitGo old new (old.length - 1) cs
    else c :: replaceLitGo old new 0 cs

def replaceLit (old new s : Str) : Str := replaceLitGo old new 0 s

/-! ## `os.path` (POSIX) -/

/-- `os.path.basename` -/
def pyBasename (p : Str) : Str := (p.reverse.takeWhile (· ≠ '/')).reverse

/-- `os.path.splitext(name)[0]` for a name without `/`: the last dot starts the extension unless only
dots precede it -/
def pySplitextRoot (name : Str) : Str :=
  let lead := name.takeWhile (· = '.')
  let body := name.drop lead.length
  let r := body.reverse
  let ext := r.takeWhile (· ≠ '.')
  if ext.length = r.length then name else lead ++ (r.drop (ext.length + 1)).reverse

/-- `os.path.join(a, b)` -/
def pathJoin (a b : Str) : Str :=
  if b.head? = some '/' then b
  else if a = [] || a.getLast? = some '/' then a ++ b
  else a ++ '/' :: b

/-! ## the stages -/

def tEXTRA_ARGS : Str := "@EXTRA_ARGS@".toList
def tDEPFILE : Str := "@DEPFILE@".toList
def tSOURCE_DIR : Str := "@SOURCE_DIR@".toList
def tBUILD_DIR : Str := "@BUILD_DIR@".toList
def tCURRENT_SOURCE_DIR : Str := "@CURRENT_SOURCE_DIR@".toList
def tSOURCE_ROOT : Str := "@SOURCE_ROOT@".toList
def tBUILD_ROOT : Str := "@BUILD_ROOT@".toList
def tOUTPUTpre : Str := "@OUTPUT".toList

structure GenCtx where
  infile : Str               -- `infilename`
  soleOutput : Str           -- `sole_output`
  privDir : Str              -- `get_target_private_dir(target)`
  outfiles : List Str        -- `genlist.get_outputs_for(curfile)`
  depfile : Option Str       -- the depfile path when the generator has `depfile:`
  buildToSrc : Str           -- `self.build_to_src`
  sourceTargetDir : Str      -- `os.path.join(build_to_src, subdir)` / `get_target_source_dir(target)`
  deriving Repr

/-- `Generator.get_arglist(inname)` on one word -/
def argBaseNames (infile : Str) (x : Str) : Str :=
  let plain := pyBasename infile
  replaceLit tPLAINNAME plain (replaceLit tBASENAME (pySplitextRoot plain) x)

inductive GenErr where
  | outputIndex        -- `output_list[index]`: IndexError
  | diverges           -- the search/replace loop does not end
  deriving DecidableEq, Repr

/-- leftmost match of `@OUTPUT(\d+)@` (ASCII digits): the matched text and the digits -/
def findOutputN : Str → Option (Str × Str)
  | [] => none
  | c :: cs =>
    let s := c :: cs
    if tOUTPUTpre.isPrefixOf s then
      let rest := s.drop tOUTPUTpre.length
      let digits := rest.takeWhile isDigit
      if digits ≠ [] && (rest.drop digits.length).head? = some '@' then some (tOUTPUTpre ++ digits ++ ['@'], digits)
      else findOutputN cs
    else findOutputN cs

/-- the `while m is not None` loop of `replace_outputs` on one word (the matched text is what gets replaced) -/
def replaceOutputsArg (privDir : Str) (outs : List Str) : Nat → Str → Except GenErr Str
  | 0, _ => .error .diverges
  | fuel + 1, arg =>
    match findOutputN arg with
    | none => .ok arg
    | some (m, digits) =>
      match outs[natOfDigits digits]? with
      | none => .error .outputIndex
      | some o => replaceOutputsArg privDir outs fuel (replaceLit m (pathJoin privDir o) arg)

/-- `replace_paths` on one word -/
def replacePathsArg (c : GenCtx) (x : Str) : Str :=
  let x := replaceLit tBUILD_DIR c.privDir (replaceLit tSOURCE_DIR c.buildToSrc x)
  let x := replaceLit tCURRENT_SOURCE_DIR c.sourceTargetDir x
  let x := replaceLit tBUILD_ROOT ['.'] (replaceLit tSOURCE_ROOT c.buildToSrc x)
  replaceChar '\\' ['/'] x

/-- everything `generate_genlist_for_target` does to one word of `arguments:` before the extra
arguments are spliced in -/
def genArgStages (c : GenCtx) (x : Str) : Except GenErr Str := do
  let x := argBaseNames c.infile x
  let x := match c.depfile with | some d => replaceLit tDEPFILE d x | none => x
  let x := replaceLit tOUTPUT c.soleOutput (replaceLit tINPUT c.infile x)
  let x ← replaceOutputsArg c.privDir c.outfiles (x.length + 1) x
  pure (replacePathsArg c x)

/-- `replace_extra_args` -/
def replaceExtraArgs (args extra : List Str) : List Str :=
  args.flatMap (fun a => if a = tEXTRA_ARGS then extra else [a])

/-- the words handed to `as_meson_exe_cmdline` after the program -/
def genCommandArgs (c : GenCtx) (arglist extra : List Str) : Except GenErr (List Str) := do
  let staged ← arglist.mapM (genArgStages c)
  pure (replaceExtraArgs staged extra)

end MesonModel.Quote
