/-
Helper lemmas for C03: the shell layer.  `shLex` run over the output of `shQuote`.
-/
import MesonModel.Quote.Model

namespace MesonModel.Quote
open MesonModel.Py

/-! ### characters -/

theorem safe_ne {c d : Char} (h : shSafeChar c = true) (hd : shSafeChar d = false) : c ≠ d := by
  intro e; subst e; rw [h] at hd; cases hd

theorem safe_not_blank {c : Char} (h : shSafeChar c = true) : isBlank c = false := by
  have h1 : c ≠ ' ' := safe_ne h (by decide)
  have h2 : c ≠ '\t' := safe_ne h (by decide)
  simp [isBlank, h1, h2]

theorem safe_not_sq {c : Char} (h : shSafeChar c = true) : c ≠ '\'' := safe_ne h (by decide)
theorem safe_not_dq {c : Char} (h : shSafeChar c = true) : c ≠ '"' := safe_ne h (by decide)
theorem safe_not_amp {c : Char} (h : shSafeChar c = true) : c ≠ '&' := safe_ne h (by decide)

/-! ### single steps of the lexer -/

theorem shLex_gap_blank (c : Char) (cs : Str) (h : isBlank c = true) :
    shLex .gap (c :: cs) = shLex .gap cs := by
  simp [shLex, h]

theorem shLex_gap_space (cs : Str) : shLex .gap (' ' :: cs) = shLex .gap cs :=
  shLex_gap_blank _ _ (by decide)

theorem shLex_gap_sq (cs : Str) : shLex .gap ('\'' :: cs) = shLex (.sq []) cs := by
  simp [shLex, isBlank]

theorem shLex_gap_safe (c : Char) (cs : Str) (h : shSafeChar c = true) :
    shLex .gap (c :: cs) = shLex (.word [c]) cs := by
  simp [shLex, safe_not_blank h, safe_not_sq h, safe_not_dq h, safe_not_amp h, h]

theorem shLex_word_safe (a : Str) (c : Char) (cs : Str) (h : shSafeChar c = true) :
    shLex (.word a) (c :: cs) = shLex (.word (a ++ [c])) cs := by
  simp [shLex, safe_not_blank h, safe_not_sq h, safe_not_dq h, safe_not_amp h, h]

theorem shLex_word_space (a : Str) (cs : Str) :
    shLex (.word a) (' ' :: cs) = (ShTok.w a :: ·) <$> shLex .gap cs := by
  simp [shLex, isBlank]

theorem shLex_word_sq (a : Str) (cs : Str) : shLex (.word a) ('\'' :: cs) = shLex (.sq a) cs := by
  simp [shLex, isBlank]

theorem shLex_word_dq (a : Str) (cs : Str) : shLex (.word a) ('"' :: cs) = shLex (.dq a) cs := by
  simp [shLex, isBlank]

theorem shLex_sq_close (a : Str) (cs : Str) : shLex (.sq a) ('\'' :: cs) = shLex (.word a) cs := by
  simp [shLex]

theorem shLex_sq_other (a : Str) (c : Char) (cs : Str) (h : c ≠ '\'') :
    shLex (.sq a) (c :: cs) = shLex (.sq (a ++ [c])) cs := by
  simp [shLex, h]

theorem shLex_dq_sq (a : Str) (cs : Str) : shLex (.dq a) ('\'' :: cs) = shLex (.dq (a ++ ['\''])) cs := by
  simp [shLex]

theorem shLex_dq_close (a : Str) (cs : Str) : shLex (.dq a) ('"' :: cs) = shLex (.word a) cs := by
  simp [shLex]

/-! ### runs -/

/-- a run of safe characters extends the current word -/
theorem shLex_word_run (s : Str) (hs : s.all shSafeChar = true) (a rest : Str) :
    shLex (.word a) (s ++ rest) = shLex (.word (a ++ s)) rest := by
  induction s generalizing a with
  | nil => simp
  | cons c s ih =>
    simp only [List.all_cons, Bool.and_eq_true] at hs
    rw [List.cons_append, shLex_word_safe _ _ _ hs.1, ih hs.2]
    simp

/-- the body of a single-quoted string produced by `shQuote`: `'` is written `'"'"'` -/
theorem shLex_sq_body (s : Str) (a rest : Str) :
    shLex (.sq a) (replaceChar '\'' sqEsc s ++ '\'' :: rest) = shLex (.word (a ++ s)) rest := by
  induction s generalizing a with
  | nil => simp [replaceChar, shLex_sq_close]
  | cons c s ih =>
    have hcons : replaceChar '\'' sqEsc (c :: s) =
        (if c = '\'' then sqEsc else [c]) ++ replaceChar '\'' sqEsc s := by
      simp [replaceChar, List.flatMap_cons]
    rw [hcons]
    by_cases hc : c = '\''
    · subst hc
      simp only [if_true]
      rw [show ∀ X : Str, sqEsc ++ X = '\'' :: '"' :: '\'' :: '"' :: '\'' :: X from fun _ => rfl]
      simp only [List.cons_append, List.nil_append]
      rw [shLex_sq_close, shLex_word_dq, shLex_dq_sq, shLex_dq_close, shLex_word_sq, ih]
      simp
    · simp only [if_neg hc, List.cons_append, List.nil_append]
      rw [shLex_sq_other _ _ _ hc, ih]
      simp

/-- one quoted word followed by the end of the line or a separating space -/
theorem shLex_quote_end (s : Str) : shLex .gap (shQuote s) = .ok [.w s] := by
  unfold shQuote
  split
  · next h => subst h; simp [shLex, isBlank]
  · split
    · next hne hs =>
      cases s with
      | nil => exact absurd rfl hne
      | cons c s =>
        simp only [List.all_cons, Bool.and_eq_true] at hs
        rw [shLex_gap_safe _ _ hs.1]
        have := shLex_word_run s hs.2 [c] []
        simp only [List.append_nil] at this
        rw [this]; simp [shLex]
    · rw [shLex_gap_sq]
      have := shLex_sq_body s [] []
      simp only [List.nil_append] at this
      rw [this]; simp [shLex]

theorem shLex_quote_space (s rest : Str) :
    shLex .gap (shQuote s ++ ' ' :: rest) = (ShTok.w s :: ·) <$> shLex .gap rest := by
  unfold shQuote
  split
  · next h => subst h; simp [shLex, isBlank]
  · split
    · next hne hs =>
      cases s with
      | nil => exact absurd rfl hne
      | cons c s =>
        simp only [List.all_cons, Bool.and_eq_true] at hs
        rw [List.cons_append, shLex_gap_safe _ _ hs.1, shLex_word_run s hs.2, shLex_word_space]
        simp
    · rw [List.cons_append, shLex_gap_sq, List.append_assoc]
      simp only [List.cons_append, List.nil_append]
      rw [shLex_sq_body, shLex_word_space]
      simp

/-- a whole list of quoted words followed by a space: the words, then whatever follows -/
theorem shLex_join_space (ws : List Str) (rest : Str) :
    shLex .gap (joinSp (ws.map shQuote) ++ ' ' :: rest) =
      ((ws.map ShTok.w) ++ ·) <$> shLex .gap rest := by
  induction ws with
  | nil => simp [joinSp, shLex_gap_space]
  | cons w ws ih =>
    cases ws with
    | nil => simp [joinSp, shLex_quote_space]
    | cons w2 ws =>
      simp only [List.map_cons, joinSp, List.append_assoc, List.cons_append] at ih ⊢
      rw [shLex_quote_space, ih]
      cases shLex .gap rest <;> simp

theorem shLex_join_end (ws : List Str) :
    shLex .gap (joinSp (ws.map shQuote)) = .ok (ws.map ShTok.w) := by
  induction ws with
  | nil => simp [joinSp, shLex]
  | cons w ws ih =>
    cases ws with
    | nil => simp [joinSp, shLex_quote_end]
    | cons w2 ws =>
      simp only [List.map_cons, joinSp] at ih ⊢
      rw [shLex_quote_space, ih]
      rfl

theorem wordsOnly_words (ws : List Str) : wordsOnly (ws.map ShTok.w) = .ok ws := by
  induction ws with
  | nil => rfl
  | cons w ws ih => simp only [List.map_cons, wordsOnly, ih]; rfl

end MesonModel.Quote
