/-
Model of the ENVIRONMENT a command or test receives (property C03: "env values" are a command
position).  Mirrors, construct by construct:

* `mesonbuild/utils/core.py`: `EnvironmentVariables` — the recorded operation list `envvars`
  (`set`/`append`/`prepend` with several values and a separator), `unset_vars`, `can_use_env`,
  `merge`, `_set`/`_append`/`_prepend`, `get_env`
* `mesonbuild/backend/backends.py`: `as_meson_exe_cmdline` — the inline `env K=V … cmd` prefix
  (built from `env.get_env({})`) and the condition under which it is taken
* `mesonbuild/scripts/meson_exe.py`: `run_exe` — `child_env = exe.env.get_env(os.environ.copy())`
* `mesonbuild/mtest.py`: `TestHarness.get_test_runner` — setup env folded over `os.environ`, then the
  test's own env folded over that

and, as a *written specification* of the consumer of the inline prefix (not code of /repo):

* `envUtility` — POSIX `env [name=value]... utility [argument...]`

Core Lean only.  Dictionaries are association lists in insertion order (Python `dict`): an update
keeps the position of an existing key, a new key goes to the end.
-/
import MesonModel.Quote.Model

namespace MesonModel.Quote
open MesonModel.Py

/-! ## Python `dict[str, str]` -/

abbrev Dict := List (Str × Str)

/-- `d.get(k)` -/
def dictGet : Dict → Str → Option Str
  | [], _ => none
  | (k', v) :: r, k => if k' = k then some v else dictGet r k

/-- `d[k] = v` -/
def dictSet : Dict → Str → Str → Dict
  | [], k, v => [(k, v)]
  | (k', v') :: r, k, v => if k' = k then (k', v) :: r else (k', v') :: dictSet r k v

/-- `d.pop(k, None)` -/
def dictPop (d : Dict) (k : Str) : Dict := d.filter (fun p => p.1 ≠ k)

/-- `separator.join(values)` for an arbitrary separator string -/
def joinSep (sep : Str) : List Str → Str
  | [] => []
  | [a] => a
  | a :: b :: rest => a ++ sep ++ joinSep sep (b :: rest)

/-! ## `EnvironmentVariables` -/

inductive EnvKind where
  | set | append | prepend
  deriving DecidableEq, Repr

/-- one entry of `self.envvars`: `(method, name, values, separator)` -/
structure EnvOp where
  kind : EnvKind
  name : Str
  values : List Str
  sep : Str
  deriving DecidableEq, Repr

/-- `_set` / `_append` / `_prepend`, given `curr = env.get(name, default_value)` -/
def opValue (cur : Option Str) (op : EnvOp) : Str :=
  match op.kind with
  | .set => joinSep op.sep op.values
  | .append => joinSep op.sep (match cur with | none => op.values | some c => c :: op.values)
  | .prepend => joinSep op.sep (match cur with | none => op.values | some c => op.values ++ [c])

structure EnvVars where
  ops : List EnvOp := []        -- `envvars`
  unset : List Str := []        -- `unset_vars` (a set: kept duplicate-free)
  canUseEnv : Bool := true      -- `can_use_env`
  deriving DecidableEq, Repr

/-- `has_name` (`varnames` is exactly the set of names that have an operation) -/
def EnvVars.hasName (e : EnvVars) (n : Str) : Bool := e.ops.any (fun o => o.name = n)

/-- `env.varnames` is non-empty -/
def EnvVars.hasNames (e : EnvVars) : Bool := !e.ops.isEmpty

inductive EnvErr where
  | setUnset | unsetSet | appendUnset | prependUnset
  deriving DecidableEq, Repr

/-- the mutating API; an exception leaves the state as the code leaves it (the flag is cleared
before the check in `unset`/`append`/`prepend`) -/
inductive EnvCall where
  | set (name : Str) (values : List Str) (sep : Str)
  | append (name : Str) (values : List Str) (sep : Str)
  | prepend (name : Str) (values : List Str) (sep : Str)
  | unset (name : Str)
  | merge (other : EnvVars)
  deriving Repr

def setInsert (l : List Str) (n : Str) : List Str := if l.contains n then l else l ++ [n]

def EnvVars.step (e : EnvVars) : EnvCall → EnvVars × Option EnvErr
  | .set n vs sep =>
    if e.unset.contains n then (e, some .setUnset)
    else ({ e with ops := e.ops ++ [⟨.set, n, vs, sep⟩] }, none)
  | .append n vs sep =>
    let e := { e with canUseEnv := false }
    if e.unset.contains n then (e, some .appendUnset)
    else ({ e with ops := e.ops ++ [⟨.append, n, vs, sep⟩] }, none)
  | .prepend n vs sep =>
    let e := { e with canUseEnv := false }
    if e.unset.contains n then (e, some .prependUnset)
    else ({ e with ops := e.ops ++ [⟨.prepend, n, vs, sep⟩] }, none)
  | .unset n =>
    let e := { e with canUseEnv := false }
    if e.hasName n then (e, some .unsetSet)
    else ({ e with unset := setInsert e.unset n }, none)
  | .merge o =>
    -- every operation of `other` is appended; a name it operates on is no longer unset; the flag is
    -- cleared when `other` could not use the inline form itself
    let un := e.unset.filter (fun n => !o.hasName n)
    ({ ops := e.ops ++ o.ops,
       unset := o.unset.foldl setInsert un,
       canUseEnv := e.canUseEnv && o.canUseEnv && o.unset.isEmpty }, none)

/-- a sequence of API calls on a fresh object (exceptions abort the configuration in meson; here the
run simply continues with the state the exception left) -/
def EnvVars.run (e : EnvVars) (cs : List EnvCall) : EnvVars := cs.foldl (fun s c => (s.step c).1) e

/-- one step of the loop in `get_env` -/
def applyOp (dflt : Str → Option Str) (env : Dict) (op : EnvOp) : Dict :=
  dictSet env op.name (opValue ((dictGet env op.name).orElse (fun _ => dflt op.name)) op)

/-- `get_env(full_env, default_fmt)`; `dflt name` is `default_fmt.format(name)` (`none` without a format) -/
def getEnv (e : EnvVars) (dflt : Str → Option Str) (base : Dict) : Dict :=
  e.unset.foldl dictPop (e.ops.foldl (applyOp dflt) base)

def noDflt : Str → Option Str := fun _ => none

/-! ## The documented meaning, per variable (the specification `getEnv` is proved against)

The value a process sees for the variable `n`: start from what it inherits; go through the operations
*on `n`* in the order they were made — `set` replaces, `append`/`prepend` put the joined values after /
before the current value (or just set them when there is none); an unset variable is absent. -/

def evalVar (n : Str) (dflt : Option Str) : Option Str → List EnvOp → Option Str
  | cur, [] => cur
  | cur, op :: r =>
    if op.name = n then evalVar n dflt (some (opValue (cur.orElse (fun _ => dflt)) op)) r
    else evalVar n dflt cur r

def envMeaning (e : EnvVars) (dflt : Str → Option Str) (base : Dict) (n : Str) : Option Str :=
  if e.unset.contains n then none else evalVar n (dflt n) (dictGet base n) e.ops

/-! ## Delivery paths -/

/-- the words `as_meson_exe_cmdline` writes for the inline form: `['env'] + [f'{k}={v}' …] + cmd_args`,
with `k, v` from `env.get_env({})` -/
def envAssignments (e : EnvVars) : List Str := (getEnv e noDflt []).map (fun kv => kv.1 ++ '=' :: kv.2)

def sEnv : Str := ['e', 'n', 'v']

def inlineEnvCmd (e : EnvVars) (cmd : List Str) : List Str := sEnv :: envAssignments e ++ cmd

inductive EnvUtilErr where
  | option            -- a leading operand starting with `-` is an option of env(1): not modelled
  | emptyName         -- `=value`
  | noUtility         -- nothing left to run (env would print the environment)
  deriving DecidableEq, Repr

/-- split at the first `=` -/
def splitEq : Str → Option (Str × Str)
  | [] => none
  | c :: cs => if c = '=' then some ([], cs) else (splitEq cs).map (fun p => (c :: p.1, p.2))

/-- POSIX env(1), operands only: every leading `name=value` modifies the environment, in order; the
first operand without `=` is the utility, started with the remaining words as its arguments -/
def envUtility (base : Dict) : List Str → Except EnvUtilErr (Dict × List Str)
  | [] => .error .noUtility
  | w :: rest =>
    if w.head? = some '-' then .error .option
    else match splitEq w with
      | some (k, v) => if k = [] then .error .emptyName else envUtility (dictSet base k v) rest
      | none => .ok (base, w :: rest)

/-- `run_exe`: the pickled wrapper folds the operations over its own environment -/
def deliverPickled (e : Option EnvVars) (osEnviron : Dict) : Dict :=
  match e with
  | some e => getEnv e noDflt osEnviron
  | none => osEnviron

/-- `TestHarness.get_test_runner` (before `MESON_TEST_ITERATION` etc. are added): the selected setup's
env over `os.environ`, then the test's env over that -/
def deliverTest (setup : Option EnvVars) (test : EnvVars) (osEnviron : Dict) : Dict :=
  getEnv test noDflt (match setup with | some s => getEnv s noDflt osEnviron | none => osEnviron)

/-- `ExeReq` of `as_meson_exe_cmdline` for a recorded environment: `env and env.varnames` selects the
reason, the words come from `get_env({})` -/
def ExeReq.ofEnv (r : ExeReq) (e : Option EnvVars) : ExeReq :=
  match e with
  | some e =>
    { r with
      envVars := (if e.hasNames then getEnv e noDflt [] else []),
      canUseEnv := e.canUseEnv,
      envUnset := !e.unset.isEmpty }
  | none => { r with envVars := [], canUseEnv := true, envUnset := false }

end MesonModel.Quote
