/-
Helper lemmas for C03: the composed pipeline (variable line → Ninja evaluation → sh), `&&`,
`escape_extra_args`, `substitute_values`.
-/
import MesonModel.Quote.RspLemmas
import MesonModel.Quote.NinjaLemmas

namespace MesonModel.Quote
open MesonModel.Py

/-! ### `joinSp` -/

theorem joinSp_append (a b : List Str) (ha : a ≠ []) (hb : b ≠ []) :
    joinSp (a ++ b) = joinSp a ++ ' ' :: joinSp b := by
  induction a with
  | nil => exact absurd rfl ha
  | cons x a ih =>
    cases a with
    | nil =>
      cases b with
      | nil => exact absurd rfl hb
      | cons y b => simp [joinSp]
    | cons x2 a =>
      have := ih (by simp)
      simp only [List.cons_append, joinSp] at this ⊢
      rw [this]; simp

/-! ### variable lines -/

/-- what `NinjaBuildElement.write` does to one element of a shell-quoted variable -/
def elemQuote (qf : Str → Str) (i : Str) : Str := if i = andand then i else qf i

theorem andand_noNl : NoNl andand := by unfold NoNl andand; decide

theorem varValue_quoted (qf : Str → Str) (hqf : ∀ s, NoNl s → NoNl (qf s)) (name : Str)
    (hn : Generated.rawNames.contains name = false) (elems : List Str) (h : ∀ e ∈ elems, NoNl e) :
    varValue qf name elems = .ok (joinSp ((elems.map (elemQuote qf)).map (ninjaEsc false))) := by
  unfold varValue
  simp only [hn, Bool.not_false, Bool.not_true, Bool.false_or]
  rw [mapM_ok _ (fun i => ninjaEsc false (elemQuote qf i))]
  · simp [List.map_map, Function.comp_def]
  · intro i hi
    unfold elemQuote
    by_cases hi' : i = andand
    · simp only [hi', decide_true, if_true]; exact ninjaQuote_eq _ andand_noNl
    · simp only [hi', decide_false, if_false, Bool.false_eq_true]
      exact ninjaQuote_eq _ (hqf i (h i hi))

theorem varValue_raw (qf : Str → Str) (name : Str)
    (hn : Generated.rawNames.contains name = true) (elems : List Str) (h : ∀ e ∈ elems, NoNl e) :
    varValue qf name elems = .ok (joinSp (elems.map (ninjaEsc false))) := by
  unfold varValue
  simp only [hn, Bool.not_true, Bool.not_false, Bool.true_or, if_true]
  rw [mapM_ok _ (fun i => ninjaEsc false i)]
  · rfl
  · intro i hi; exact ninjaQuote_eq _ (h i hi)

theorem mapM_error {α β ε} (f : α → Except ε β) (pre post : List α) (bad : α) (e : ε)
    (hpre : ∀ a ∈ pre, ∃ b, f a = .ok b) (hbad : f bad = .error e) :
    (pre ++ bad :: post).mapM f = .error e := by
  induction pre with
  | nil => rw [List.nil_append, List.mapM_cons, hbad]; rfl
  | cons p pre ih =>
    obtain ⟨b, hb⟩ := hpre p (by simp)
    rw [List.cons_append, List.mapM_cons, hb, ih (fun a ha => hpre a (by simp [ha]))]
    rfl

/-- an element with a newline makes the whole variable line fail (the elements before it are fine) -/
theorem varValue_newline (qf : Str → Str) (hqf : ∀ s, NoNl s ↔ NoNl (qf s)) (name : Str) (pre post : List Str)
    (bad : Str) (hpre : ∀ e ∈ pre, NoNl e) (hbad : ¬ NoNl bad) :
    varValue qf name (pre ++ bad :: post) = .error .newline := by
  unfold varValue
  dsimp only
  rw [mapM_error _ pre post bad .newline]
  · rfl
  · intro a ha
    have hp := hpre a ha
    split
    · exact ⟨_, ninjaQuote_eq _ hp⟩
    · exact ⟨_, ninjaQuote_eq _ ((hqf a).1 hp)⟩
  · split
    · exact ninjaQuote_newline _ _ hbad
    · exact ninjaQuote_newline _ _ (fun h => hbad ((hqf bad).2 h))

theorem elemQuote_noNl (qf : Str → Str) (hqf : ∀ s, NoNl s → NoNl (qf s)) (i : Str) (h : NoNl i) :
    NoNl (elemQuote qf i) := by
  unfold elemQuote; split
  · exact h
  · exact hqf i h

/-! ### `&&` in the shell lexer -/

theorem shLex_gap_andand (rest : Str) :
    shLex .gap ('&' :: '&' :: rest) = (ShTok.andand :: ·) <$> shLex .gap rest := by
  simp [shLex, isBlank, pend]

/-- `c1 && c2 && …` as one element list, the way a build definition writes it -/
def andJoin : List (List Str) → List Str
  | [] => []
  | [c] => c
  | c :: d :: rest => c ++ andand :: andJoin (d :: rest)

def cmdToks : List (List Str) → List ShTok
  | [] => []
  | [c] => c.map ShTok.w
  | c :: d :: rest => c.map ShTok.w ++ ShTok.andand :: cmdToks (d :: rest)

theorem map_elemQuote_plain (c : List Str) (h : ∀ a ∈ c, a ≠ andand) :
    c.map (elemQuote shQuote) = c.map shQuote := by
  apply List.map_congr_left
  intro a ha; simp [elemQuote, h a ha]

theorem andJoin_ne_nil (cs : List (List Str)) (hne : cs ≠ []) (h : ∀ c ∈ cs, c ≠ []) : andJoin cs ≠ [] := by
  cases cs with
  | nil => exact absurd rfl hne
  | cons c rest =>
    cases rest with
    | nil => simpa [andJoin] using h c (by simp)
    | cons d rest => simp [andJoin]

theorem shLex_andJoin (cs : List (List Str)) (hne : cs ≠ [])
    (h : ∀ c ∈ cs, c ≠ [] ∧ ∀ a ∈ c, a ≠ andand) :
    shLex .gap (joinSp ((andJoin cs).map (elemQuote shQuote))) = .ok (cmdToks cs) := by
  induction cs with
  | nil => exact absurd rfl hne
  | cons c rest ih =>
    cases rest with
    | nil =>
      simp only [andJoin, cmdToks]
      rw [map_elemQuote_plain c (h c (by simp)).2, shLex_join_end]
    | cons d rest =>
      have ih' := ih (by simp) (fun x hx => h x (by simp [hx]))
      have hc := h c (by simp)
      have hrest : andJoin (d :: rest) ≠ [] :=
        andJoin_ne_nil _ (by simp) (fun x hx => (h x (by simp [hx])).1)
      simp only [andJoin, cmdToks, List.map_append, List.map_cons]
      rw [map_elemQuote_plain c hc.2]
      rw [joinSp_append _ _ (by simpa using hc.1) (by simp)]
      rw [shLex_join_space]
      have e1 : elemQuote shQuote andand = andand := by simp [elemQuote]
      rw [e1]
      have hne2 : List.map (elemQuote shQuote) (andJoin (d :: rest)) ≠ [] := by simpa using hrest
      have : joinSp (andand :: List.map (elemQuote shQuote) (andJoin (d :: rest))) =
          '&' :: '&' :: ' ' :: joinSp (List.map (elemQuote shQuote) (andJoin (d :: rest))) := by
        cases hm : List.map (elemQuote shQuote) (andJoin (d :: rest)) with
        | nil => exact absurd hm hne2
        | cons y ys => simp [joinSp, andand]
      rw [this, shLex_gap_andand, shLex_gap_space, ih']
      simp

theorem splitAndAnd_words (cur c : List Str) (r : List ShTok) :
    splitAndAnd cur (c.map ShTok.w ++ r) = splitAndAnd (cur ++ c) r := by
  induction c generalizing cur with
  | nil => simp
  | cons a c ih => simp [splitAndAnd, ih]

theorem splitAndAnd_cmdToks (cs : List (List Str)) (hne : cs ≠ []) (h : ∀ c ∈ cs, c ≠ []) :
    splitAndAnd [] (cmdToks cs) = .ok cs := by
  induction cs with
  | nil => exact absurd rfl hne
  | cons c rest ih =>
    cases rest with
    | nil =>
      have := splitAndAnd_words [] c []
      simp only [List.append_nil, List.nil_append] at this
      simp [cmdToks, this, splitAndAnd, h c (by simp)]
    | cons d rest =>
      have ih' := ih (by simp) (fun x hx => h x (by simp [hx]))
      simp only [cmdToks]
      rw [splitAndAnd_words]
      simp [splitAndAnd, h c (by simp), ih']

/-! ### `escape_extra_args` -/

theorem replaceChar_id (c : Char) (r s : Str) (h : c ∉ s) : replaceChar c r s = s := by
  induction s with
  | nil => rfl
  | cons x s ih =>
    have hx : x ≠ c := fun e => h (by simp [e])
    have hs : c ∉ s := fun e => h (by simp [e])
    simp only [replaceChar, List.flatMap_cons, hx, if_false] at ih ⊢
    rw [show List.flatMap (fun x => if x = c then r else [x]) s = s from ih hs]
    rfl

theorem length_dbl (s : Str) : (dbl s).length = s.length + s.count '\\' := by
  induction s with
  | nil => rfl
  | cons c s ih =>
    have hc : dbl (c :: s) = (if c = '\\' then ['\\', '\\'] else [c]) ++ dbl s := by
      simp [dbl, replaceChar, List.flatMap_cons]
    rw [hc]
    by_cases h : c = '\\'
    · subst h; simp [ih]; omega
    · simp [h, ih, List.count_cons]; omega

/-! ### `substitute_values` on words without templates -/

theorem matchKey_none (vs : Values) (s : Str) (hk : ∀ p ∈ vs, p.1.head? = some '@')
    (hs : s.head? ≠ some '@') : matchKey vs s = none := by
  unfold matchKey
  rw [List.find?_eq_none]
  intro p hp
  have h1 := hk p hp
  cases hp1 : p.1 with
  | nil => simp
  | cons k ks =>
    rw [hp1] at h1
    simp only [List.head?_cons, Option.some.injEq] at h1
    subst h1
    cases s with
    | nil => simp
    | cons c cs =>
      simp only [List.head?_cons, ne_eq, Option.some.injEq] at hs
      simp [List.isPrefixOf, hs, Ne.symm hs]

theorem subAll_no_at (vs : Values) (hk : ∀ p ∈ vs, p.1.head? = some '@') (s : Str) (hs : '@' ∉ s)
    (fuel : Nat) (hf : s.length ≤ fuel) : subAll vs fuel s = .ok s := by
  induction s generalizing fuel with
  | nil => cases fuel <;> rfl
  | cons c cs ih =>
    cases fuel with
    | zero => simp at hf
    | succ n =>
      have hc : c ≠ '@' := fun e => hs (by simp [e])
      have hm := matchKey_none vs (c :: cs) hk (by simp [hc])
      simp only [subAll, hm]
      rw [ih (fun h => hs (by simp [h])) n (by simpa using hf)]
      rfl

end MesonModel.Quote
