/-
Helper lemmas for C03: evaluation of a rule's `command` / `rspfile_content` for a build statement
(`edgeLookup`), and the shell / response-file reading of a command made of several quoted pieces.
-/
import MesonModel.Quote.PipeLemmas

namespace MesonModel.Quote
open MesonModel.Py

/-! ### lexing a joined list followed by more text -/

theorem map_append_id {ε α} (e : Except ε (List α)) : (fun x => ([] : List α) ++ x) <$> e = e := by
  cases e <;> rfl

theorem nLex_join_rest (xs : List Str) (h : ∀ x ∈ xs, NoNl x) (rest : Str) :
    nLex .norm (joinSp (xs.map (ninjaEsc false)) ++ rest) =
      (((joinSp xs).map NTok.lit) ++ ·) <$> nLex .norm rest := by
  induction xs with
  | nil => simp [joinSp, map_append_id]
  | cons x xs ih =>
    cases xs with
    | nil => simpa [joinSp] using nLex_esc false x (h x (by simp)) rest
    | cons y ys =>
      have ih' := ih (fun z hz => h z (by simp [hz]))
      simp only [List.map_cons, joinSp, List.append_assoc, List.cons_append] at ih' ⊢
      rw [nLex_esc false x (h x (by simp)), nLex_space, ih']
      cases nLex .norm rest <;> simp

/-! ### evaluating a token list -/

theorem evalToks_nil (look : Str → Except NErr Str) : evalToks look [] = .ok [] := rfl

theorem evalToks_lit (look : Str → Except NErr Str) (c : Char) (r : List NTok) :
    evalToks look (.lit c :: r) = (c :: ·) <$> evalToks look r := by
  unfold evalToks
  simp only [List.mapM_cons (m := Except NErr), pure, Except.pure, bind, Except.bind]
  generalize List.mapM (m := Except NErr) _ r = X
  cases X <;> rfl

theorem evalToks_var (look : Str → Except NErr Str) (v : Str) (x : Str) (r : List NTok) (hx : look v = .ok x) :
    evalToks look (.var v :: r) = (x ++ ·) <$> evalToks look r := by
  unfold evalToks
  simp only [List.mapM_cons (m := Except NErr), hx, pure, Except.pure, bind, Except.bind]
  generalize List.mapM (m := Except NErr) _ r = X
  cases X <;> simp

theorem evalToks_lits (look : Str → Except NErr Str) (s : Str) (r : List NTok) :
    evalToks look (s.map NTok.lit ++ r) = (s ++ ·) <$> evalToks look r := by
  induction s with
  | nil => simp [map_append_id]
  | cons c s ih =>
    simp only [List.map_cons, List.cons_append]
    rw [evalToks_lit, ih]
    cases evalToks look r <;> simp

/-! ### `edgeLookup` -/

theorem edgeLookup_in (e : Edge) (n : Nat) :
    edgeLookup e (n + 1) sIn = .ok (joinSp (e.ins.map ninjaShellEscape)) := by
  rw [edgeLookup, if_pos rfl]

theorem edgeLookup_out (e : Edge) (n : Nat) :
    edgeLookup e (n + 1) sOut = .ok (joinSp (e.outs.map ninjaShellEscape)) := by
  rw [edgeLookup, if_neg (by decide), if_neg (by decide), if_pos rfl]

theorem edgeLookup_var (e : Edge) (n : Nat) (name v : Str) (h1 : name ≠ sIn) (h2 : name ≠ sInNewline)
    (h3 : name ≠ sOut) (hv : assocGet e.vars name = some v) : edgeLookup e (n + 1) name = .ok v := by
  rw [edgeLookup, if_neg h1, if_neg h2, if_neg h3, hv]

theorem edgeLookup_rule (e : Edge) (n : Nat) (name raw : Str) (toks : List NTok) (h1 : name ≠ sIn)
    (h2 : name ≠ sInNewline) (h3 : name ≠ sOut) (hv : assocGet e.vars name = none)
    (hr : assocGet e.ruleBindings name = some raw) (hl : nLex .norm raw = .ok toks) :
    edgeLookup e (n + 1) name = evalToks (fun v => edgeLookup e n v) toks := by
  rw [edgeLookup, if_neg h1, if_neg h2, if_neg h3, hv, hr]
  simp only [hl]

/-! ### words that need no quoting -/

theorem ninjaSafe_shSafe {c : Char} (h : ninjaShellSafeChar c = true) : shSafeChar c = true := by
  unfold ninjaShellSafeChar at h
  unfold shSafeChar isWord
  simp only [Bool.or_eq_true, beq_iff_eq] at h ⊢
  rcases h with ((((h | h) | h) | h) | h) | h
  · simp [h]
  · simp [h]
  · simp [h]
  · simp [h]
  · simp [h]
  · simp [h]

def PlainWord (w : Str) : Prop := w ≠ [] ∧ w.all ninjaShellSafeChar = true

instance (w : Str) : Decidable (PlainWord w) := by unfold PlainWord; infer_instance

theorem plain_all_safe {w : Str} (h : PlainWord w) : w.all shSafeChar = true := by
  rw [List.all_eq_true]
  intro c hc
  exact ninjaSafe_shSafe (List.all_eq_true.1 h.2 c hc)

theorem shQuote_safe {w : Str} (hne : w ≠ []) (hs : w.all shSafeChar = true) : shQuote w = w := by
  unfold shQuote; rw [if_neg hne, if_pos hs]

theorem gccRspQuote_safe {w : Str} (hne : w ≠ []) (hs : w.all shSafeChar = true) : gccRspQuote w = w := by
  have hb : '\\' ∉ w := fun hm => safe_not_bs (List.all_eq_true.1 hs _ hm) rfl
  have : replaceChar '\\' ['\\', '\\'] w = w := replaceChar_id _ _ _ hb
  unfold gccRspQuote; rw [this]; exact shQuote_safe hne hs

theorem ninjaShellEscape_plain {w : Str} (h : PlainWord w) : ninjaShellEscape w = w := by
  unfold ninjaShellEscape; rw [if_pos h.2]

/-! ### a command made of space-joined pieces, each a list of quoted words -/

def piecesStr (qf : Str → Str) (ps : List (List Str)) : Str := joinSp (ps.map (fun ws => joinSp (ws.map qf)))

theorem shLex_pieces (ps : List (List Str)) :
    shLex .gap (piecesStr shQuote ps) = .ok (ps.flatten.map ShTok.w) := by
  unfold piecesStr
  induction ps with
  | nil => simp [joinSp, shLex]
  | cons p ps ih =>
    cases ps with
    | nil => simp [joinSp, shLex_join_end]
    | cons q rest =>
      simp only [List.map_cons, joinSp] at ih ⊢
      rw [shLex_join_space, ih]
      simp

theorem shSplit_pieces (ps : List (List Str)) : shSplit (piecesStr shQuote ps) = .ok ps.flatten := by
  unfold shSplit
  rw [shLex_pieces]
  exact wordsOnly_words _

theorem bav_pieces (ps : List (List Str)) : buildargv (piecesStr gccRspQuote ps) = ps.flatten := by
  unfold piecesStr buildargv
  induction ps with
  | nil => simp [joinSp, buildargvGo]
  | cons p ps ih =>
    cases ps with
    | nil => simp [joinSp, bav_join_end]
    | cons q rest =>
      simp only [List.map_cons, joinSp] at ih ⊢
      rw [bav_join_space, ih]
      simp

end MesonModel.Quote
