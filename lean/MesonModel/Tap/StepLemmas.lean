/-
Per-line (`step`) and per-stream (`run`) invariants of the TAP parser model.
-/
import MesonModel.Tap.Lemmas

namespace MesonModel.Tap
open MesonModel.Py

/-- 1 while no plan has been accepted -/
def planSlot (s : PState) : Nat := if s.plan.isSome then 0 else 1
/-- 1 while the "test after late plan" error has not been reported -/
def lateSlot (s : PState) : Nat := if s.foundLateTest then 0 else 1

/-- how the counters of the parser move when it emits `evs` -/
structure Delta (s s' : PState) (evs : List Event) : Prop where
  numTests : s'.numTests = s.numTests + countTests evs
  highest : s'.highestTest = max s.highestTest (maxNumber evs)
  plan : s'.plan = orPlan s.plan (planOf evs)
  bailed : s'.bailedOut = (s.bailedOut || hasBail evs)
  noFinal : ∀ e ∈ evs, isFinalErr e = false
  plans : countPlans evs + planSlot s' ≤ planSlot s
  late : evs.countP isLateErr + lateSlot s' ≤ lateSlot s

theorem Delta.refl (s : PState) : Delta s s [] := by
  constructor <;> simp

theorem Delta.trans {s s1 s2 : PState} {e1 e2 : List Event} (h1 : Delta s s1 e1) (h2 : Delta s1 s2 e2) :
    Delta s s2 (e1 ++ e2) := by
  constructor
  · rw [h2.numTests, h1.numTests]; simp; omega
  · rw [h2.highest, h1.highest]; simp [Nat.max_assoc]
  · rw [h2.plan, h1.plan, planOf_append, orPlan_assoc]
  · rw [h2.bailed, h1.bailed]; simp [Bool.or_assoc]
  · intro e he
    rcases List.mem_append.mp he with h | h
    · exact h1.noFinal e h
    · exact h2.noFinal e h
  · have := h1.plans; have := h2.plans; simp; omega
  · have := h1.late; have := h2.late; simp; omega

theorem Delta.transfer {s0 s s' : PState} {evs : List Event} (h : Delta s s' evs)
    (h1 : s.numTests = s0.numTests) (h2 : s.highestTest = s0.highestTest) (h3 : s.plan = s0.plan)
    (h4 : s.bailedOut = s0.bailedOut) (h5 : s.foundLateTest = s0.foundLateTest) : Delta s0 s' evs := by
  constructor
  · rw [← h1]; exact h.numTests
  · rw [← h2]; exact h.highest
  · rw [← h3]; exact h.plan
  · rw [← h4]; exact h.bailed
  · exact h.noFinal
  · have := h.plans; simp only [planSlot] at *; rw [← h3]; exact this
  · have := h.late; simp only [lateSlot] at *; rw [← h5]; exact this

/-- an extra non-final, non-"late" error in front changes nothing -/
theorem Delta.cons_error {s s' : PState} {evs : List Event} (er : Err) (h : Delta s s' evs)
    (hf : isFinalErr (.error er) = false) (hl : isLateErr (.error er) = false) :
    Delta s s' (.error er :: evs) := by
  constructor
  · rw [h.numTests]; simp [isTestEvent]
  · rw [h.highest]; simp [numberOf]
  · rw [h.plan]; simp [planOf]
  · rw [h.bailed]; simp [isBailEvent]
  · intro e he
    rcases List.mem_cons.mp he with h' | h'
    · rw [h']; exact hf
    · exact h.noFinal e h'
  · have := h.plans; simp [isPlanEvent]; omega
  · have := h.late; simp [List.countP_cons, hl]; omega

/-! ### handlers -/

theorem onTest_delta (s : PState) (ok : Bool) (num : Option (List Char)) (name : List Char)
    (dir expl : Option (List Char)) : Delta s (onTest s ok num name dir expl).1 (onTest s ok num name dir expl).2 := by
  unfold onTest
  generalize testNumber s num = n
  have sh := parseTest_shape ok n name dir expl
  have hlate : ∀ e ∈ parseTest ok n name dir expl, isLateErr e = false := by
    intro e he
    rw [parseTest_eq] at he
    cases dir with
    | none => simp at he; subst he; rfl
    | some d =>
      by_cases h : (startsWith (upper d) kSKIP ∨ upper d = kTODO) <;> simp [h] at he
      · subst he; rfl
      · rcases he with he | he <;> subst he <;> rfl
  have hcl : (parseTest ok n name dir expl).countP isLateErr = 0 := by
    rw [List.countP_eq_zero]; intro e he; simp [hlate e he]
  have hnf : ∀ e ∈ (if lateNow s then [Event.error .lateTest] else []) ++
      (if numTooLong num then [Event.error .testNumberTooLarge] else []) ++
      (if exceedsPlan s n then [Event.error .exceedsPlan] else []) ++ parseTest ok n name dir expl,
      isFinalErr e = false := by
    intro e he
    simp only [List.mem_append] at he
    rcases he with ((he | he) | he) | he
    · split at he <;> simp at he; subst he; rfl
    · split at he <;> simp at he; subst he; rfl
    · split at he <;> simp at he; subst he; rfl
    · exact sh.noFinal e he
  cases hl : lateNow s <;> cases hx : exceedsPlan s n <;> cases hz : numTooLong num
  all_goals
    constructor
    · simp [hl, hx, hz, sh.count, isTestEvent]
    · simp [hl, hx, hz, sh.maxN, numberOf]
    · simp [hl, hx, hz, sh.plan, planOf_append, planOf]
    · simp [hl, hx, hz, sh.bail, isBailEvent]
    · simpa [hl, hx, hz] using hnf
    · simp [hl, hx, hz, planSlot, sh.plans, isPlanEvent]
    · simp [hl, hx, hz, lateSlot, hcl, List.countP_cons, isLateErr]
      first
        | done
        | (unfold lateNow at hl; split at hl <;> simp_all)

/-- the errors of a plan directive are neither subtests, plans, bail-outs nor end-of-stream errors -/
theorem planErrs_inert (dir : Option (List Char)) (n : Nat) :
    countTests (planErrs dir n) = 0 ∧ maxNumber (planErrs dir n) = 0 ∧ planOf (planErrs dir n) = none ∧
    hasBail (planErrs dir n) = false ∧ countPlans (planErrs dir n) = 0 ∧
    (planErrs dir n).countP isLateErr = 0 ∧ (∀ e ∈ planErrs dir n, isFinalErr e = false) ∧
    (∀ e ∈ planErrs dir n, isVersionEvent e = false) := by
  unfold planErrs
  cases truthyDir dir with
  | none => simp
  | some d =>
    cases planIsSkip dir <;> by_cases hn : n > 0 <;>
      simp [hn, isTestEvent, numberOf, planOf, isBailEvent, isFinalErr, isPlanEvent, List.countP_cons, isLateErr,
        isVersionEvent]

theorem onPlan_delta (s : PState) (ds : List Char) (dir expl : Option (List Char)) :
    Delta s (onPlan s ds dir expl).1 (onPlan s ds dir expl).2 := by
  unfold onPlan
  cases hp : s.plan with
  | some p =>
    constructor <;> simp [hp, isTestEvent, numberOf, planOf, isBailEvent, isFinalErr, isPlanEvent, planSlot,
      List.countP_cons, isLateErr]
  | none =>
    obtain ⟨h1, h2, h3, h4, h5, h6, h7, _⟩ := planErrs_inert dir (natOfDigits ds)
    cases hz : tooLong ds
    case true =>
      constructor <;> simp [hp, isTestEvent, numberOf, planOf, isBailEvent, isFinalErr, isPlanEvent, planSlot,
        List.countP_cons, isLateErr, lateSlot]
    simp only [Bool.false_eq_true, if_false]
    constructor
    · simp [h1, isTestEvent]
    · simp [h2, numberOf]
    · simp [hp, h3, planOf_append, planOf]
    · simp [h4, isBailEvent]
    · intro e he
      simp at he
      rcases he with he | he
      · exact h7 e he
      · subst he; rfl
    · simp [h5, planSlot, hp, isPlanEvent]
    · simp [h6, lateSlot, List.countP_cons, isLateErr]

theorem onVersion_delta (s : PState) (ds : List Char) :
    Delta s (onVersion s ds).1 (onVersion s ds).2 := by
  unfold onVersion
  by_cases h : s.lineno = 1 <;> by_cases hv : natOfDigits ds < 13 <;> cases hz : tooLong ds <;>
    constructor <;> simp [h, hv, isTestEvent, numberOf, planOf, isBailEvent, isFinalErr, isPlanEvent, planSlot,
      List.countP_cons, isLateErr, lateSlot]

theorem mainLine_delta (s : PState) (line : List Char) :
    Delta s (mainLine s line).1 (mainLine s line).2 := by
  simp only [mainLine]
  cases h : classify (rstrip line) with
  | skip => exact Delta.refl s
  | test ok num name dir expl => exact onTest_delta ..
  | plan ds dir expl => exact onPlan_delta ..
  | bailout msg =>
    constructor <;> simp [isTestEvent, numberOf, planOf, isBailEvent, isFinalErr, isPlanEvent, planSlot,
      List.countP_cons, isLateErr, lateSlot]
  | version ds => exact onVersion_delta ..
  | unknown =>
    constructor <;> simp [isTestEvent, numberOf, planOf, isBailEvent, isFinalErr, isPlanEvent, planSlot,
      List.countP_cons, isLateErr, lateSlot]

/-! ### `step` by parser mode -/

/-- the state in which the main classifier sees a line -/
def enter (s : PState) : PState := { s with lineno := s.lineno + 1, state := .main }

theorem step_main {s : PState} (h : s.state = .main) (line : List Char) :
    step s line = mainLine (enter s) line := by
  have : enter s = { s with lineno := s.lineno + 1 } := by simp [enter, ← h]
  simp [step, h, this]

theorem step_afterTest_yaml {s : PState} (h : s.state = .afterTest) (hv : s.version ≥ 13) {line ind : List Char}
    (hy : yamlStart line = some ind) :
    step s line = ({ s with lineno := s.lineno + 1, state := .yaml, yamlLineno := some (s.lineno + 1),
                            yamlIndent := ind }, []) := by
  simp [step, h, hv, hy]

theorem step_afterTest_main {s : PState} (h : s.state = .afterTest) {line : List Char}
    (hy : s.version < 13 ∨ yamlStart line = none) : step s line = mainLine (enter s) line := by
  by_cases hv : s.version ≥ 13
  · have hy' : yamlStart line = none := by
      rcases hy with hy | hy
      · omega
      · exact hy
    simp [step, h, hv, hy', enter]
  · simp [step, h, hv, enter]

theorem step_yaml_end {s : PState} (h : s.state = .yaml) {line : List Char} (he : yamlEnd line = true) :
    step s line = ({ s with lineno := s.lineno + 1, state := .main }, []) := by
  simp [step, h, he]

theorem step_yaml_cont {s : PState} (h : s.state = .yaml) {line : List Char} (he : yamlEnd line = false)
    (hi : startsWith line s.yamlIndent = true) :
    step s line = ({ s with lineno := s.lineno + 1 }, []) := by
  simp [step, h, he, hi]

theorem step_yaml_break {s : PState} (h : s.state = .yaml) {line : List Char} (he : yamlEnd line = false)
    (hi : startsWith line s.yamlIndent = false) :
    step s line = ((mainLine (enter s) line).1,
                   .error (.yamlNotTerminated s.yamlLineno) :: (mainLine (enter s) line).2) := by
  simp [step, h, he, hi, enter]

theorem step_delta (s : PState) (line : List Char) : Delta s (step s line).1 (step s line).2 := by
  cases h : s.state with
  | main =>
    rw [step_main h]
    exact (mainLine_delta _ line).transfer rfl rfl rfl rfl rfl
  | afterTest =>
    by_cases hv : s.version ≥ 13
    · cases hy : yamlStart line with
      | none =>
        rw [step_afterTest_main h (Or.inr hy)]
        exact (mainLine_delta _ line).transfer rfl rfl rfl rfl rfl
      | some ind =>
        rw [step_afterTest_yaml h hv hy]
        exact (Delta.refl _).transfer rfl rfl rfl rfl rfl
    · rw [step_afterTest_main h (Or.inl (by omega))]
      exact (mainLine_delta _ line).transfer rfl rfl rfl rfl rfl
  | yaml =>
    cases he : yamlEnd line with
    | true =>
      rw [step_yaml_end h he]
      exact (Delta.refl _).transfer rfl rfl rfl rfl rfl
    | false =>
      cases hi : startsWith line s.yamlIndent with
      | true =>
        rw [step_yaml_cont h he hi]
        exact (Delta.refl _).transfer rfl rfl rfl rfl rfl
      | false =>
        rw [step_yaml_break h he hi]
        exact ((mainLine_delta _ line).cons_error _ rfl rfl).transfer rfl rfl rfl rfl rfl

theorem run_delta (s : PState) (lines : List (List Char)) : Delta s (run s lines).1 (run s lines).2 := by
  induction lines generalizing s with
  | nil => exact Delta.refl s
  | cons l ls ih => exact (step_delta s l).trans (ih _)

/-! ### which lines reach the classifier -/

/-- the line is consumed by the YAML-block logic (start marker after a test under TAP 13, or a line of an
open block: its end marker or a line carrying the block's indentation) and never reaches the classifier -/
def swallowed (s : PState) (line : List Char) : Bool :=
  match s.state with
  | .main => false
  | .afterTest => decide (s.version ≥ 13) && (yamlStart line).isSome
  | .yaml => yamlEnd line || startsWith line s.yamlIndent

def isTestClass : LineClass → Bool
  | .test .. => true
  | _ => false

/-- the line is an `ok` / `not ok` line that is not swallowed by a YAML block -/
def visibleTest (s : PState) (line : List Char) : Bool :=
  !swallowed s line && isTestClass (classify (rstrip line))

/-- all fields other than the mode, the line counter and the YAML bookkeeping -/
def sameCounters (s s' : PState) : Prop :=
  s'.plan = s.plan ∧ s'.numTests = s.numTests ∧ s'.lastTest = s.lastTest ∧ s'.highestTest = s.highestTest ∧
  s'.foundLateTest = s.foundLateTest ∧ s'.bailedOut = s.bailedOut ∧ s'.version = s.version

theorem step_swallowed {s : PState} {line : List Char} (h : swallowed s line = true) :
    (step s line).2 = [] ∧ sameCounters s (step s line).1 ∧ (step s line).1.lineno = s.lineno + 1 ∧
    (step s line).1.state ≠ .afterTest := by
  unfold swallowed at h
  cases hs : s.state with
  | main => simp [hs] at h
  | afterTest =>
    simp [hs] at h
    obtain ⟨hv, hy⟩ := h
    cases hy' : yamlStart line with
    | none => simp [hy'] at hy
    | some ind => rw [step_afterTest_yaml hs hv hy']; simp [sameCounters]
  | yaml =>
    simp [hs] at h
    cases he : yamlEnd line with
    | true => rw [step_yaml_end hs he]; simp [sameCounters]
    | false =>
      have hi : startsWith line s.yamlIndent = true := by simpa [he] using h
      rw [step_yaml_cont hs he hi]; simp [sameCounters, hs]

/-- a line that is not swallowed is handled by the main classifier (in mode `_MAIN`, with the line counter
advanced); if a YAML block was open, the "not terminated" error comes first -/
theorem step_visible {s : PState} {line : List Char} (h : swallowed s line = false) :
    step s line = ((mainLine (enter s) line).1,
      (if s.state = .yaml then [.error (.yamlNotTerminated s.yamlLineno)] else []) ++ (mainLine (enter s) line).2) := by
  unfold swallowed at h
  cases hs : s.state with
  | main => rw [step_main hs]; simp
  | afterTest =>
    simp [hs] at h
    rw [step_afterTest_main hs]
    · simp
    · by_cases hv : s.version ≥ 13
      · right
        have := h hv
        cases hy : yamlStart line <;> simp_all
      · left; omega
  | yaml =>
    simp [hs] at h
    rw [step_yaml_break hs h.1 h.2]
    simp

theorem mainLine_countTests (s : PState) (line : List Char) :
    countTests (mainLine s line).2 = if isTestClass (classify (rstrip line)) then 1 else 0 := by
  simp only [mainLine]
  cases h : classify (rstrip line) with
  | skip => simp [isTestClass]
  | test ok num name dir expl =>
    have := (onTest_delta s ok num name dir expl).numTests
    simp [onTest] at this
    simp [isTestClass, onTest]
    omega
  | plan ds dir expl =>
    have := (onPlan_delta s ds dir expl).numTests
    have h2 : (onPlan s ds dir expl).1.numTests = s.numTests := by
      unfold onPlan; cases s.plan <;> cases tooLong ds <;> rfl
    simp [isTestClass]; omega
  | bailout msg => simp [isTestClass, isTestEvent]
  | version ds =>
    have := (onVersion_delta s ds).numTests
    have h2 : (onVersion s ds).1.numTests = s.numTests := by
      unfold onVersion; by_cases h : s.lineno = 1 <;> cases tooLong ds <;> simp [h]
    simp [isTestClass]; omega
  | unknown => simp [isTestClass, isTestEvent]

theorem step_countTests (s : PState) (line : List Char) :
    countTests (step s line).2 = if visibleTest s line then 1 else 0 := by
  cases h : swallowed s line with
  | true => simp [(step_swallowed h).1, visibleTest, h]
  | false =>
    rw [step_visible h]
    by_cases hs : s.state = .yaml <;> simp [hs, visibleTest, h, mainLine_countTests, isTestEvent]

/-! ### end of stream -/

theorem dupMissing_final (s : PState) : ∀ e ∈ dupMissing s, isFinalErr e = true := by
  intro e he
  unfold dupMissing at he
  split at he
  · simp at he
  · split at he <;> simp at he <;> subst he <;> rfl

theorem finalChecks_final (s : PState) : ∀ e ∈ finalChecks s, isFinalErr e = true := by
  intro e he
  unfold finalChecks at he
  split at he
  · split at he
    · exact dupMissing_final s e he
    · split at he <;> simp at he <;> subst he <;> rfl
  · exact dupMissing_final s e he

theorem finish_filter (s : PState) :
    (finish s).filter isFinalErr = if s.bailedOut then [] else finalChecks s := by
  unfold finish
  have h1 : ∀ l : List Event, (∀ e ∈ l, isFinalErr e = true) → l.filter isFinalErr = l := by
    intro l hl; exact List.filter_eq_self.mpr hl
  by_cases hy : s.state = .yaml <;> cases hb : s.bailedOut <;>
    simp [hy, hb, List.filter_cons, isFinalErr, h1 _ (finalChecks_final s)]

/-- the end-of-stream events are errors only -/
theorem finish_errors (s : PState) : ∀ e ∈ finish s, isErrorEvent e = true := by
  intro e he
  unfold finish at he
  rcases List.mem_append.mp he with h | h
  · split at h <;> simp at h; subst h; rfl
  · split at h
    · simp at h
    · have := finalChecks_final s e h
      cases e <;> simp [isFinalErr] at this <;> rfl

theorem errors_inert (l : List Event) (h : ∀ e ∈ l, isErrorEvent e = true) :
    countTests l = 0 ∧ maxNumber l = 0 ∧ planOf l = none ∧ hasBail l = false ∧ countPlans l = 0 ∧
    (∀ e ∈ l, isVersionEvent e = false) := by
  induction l with
  | nil => simp
  | cons e es ih =>
    have he := h e (List.mem_cons_self ..)
    obtain ⟨a, b, c, d, f, g⟩ := ih (fun x hx => h x (List.mem_cons_of_mem _ hx))
    cases e <;> simp [isErrorEvent] at he
    refine ⟨?_, ?_, ?_, ?_, ?_, ?_⟩
    · simp [isTestEvent, a]
    · simp [numberOf, b]
    · simp [planOf, c]
    · simp [isBailEvent, d]
    · simp [isPlanEvent, f]
    · intro x hx
      rcases List.mem_cons.mp hx with hx | hx
      · subst hx; rfl
      · exact g x hx

/-! ### line counter and version events -/

theorem onPlan_lineno (s : PState) (ds : List Char) (dir expl : Option (List Char)) :
    (onPlan s ds dir expl).1.lineno = s.lineno := by
  unfold onPlan; cases s.plan <;> cases tooLong ds <;> rfl

theorem onVersion_lineno (s : PState) (ds : List Char) : (onVersion s ds).1.lineno = s.lineno := by
  unfold onVersion; by_cases h : s.lineno = 1 <;> cases tooLong ds <;> simp [h]

theorem mainLine_lineno (s : PState) (line : List Char) : (mainLine s line).1.lineno = s.lineno := by
  simp only [mainLine]
  cases classify (rstrip line) with
  | skip => rfl
  | test ok num name dir expl => rfl
  | plan ds dir expl => exact onPlan_lineno ..
  | bailout msg => rfl
  | version ds => exact onVersion_lineno ..
  | unknown => rfl

theorem step_lineno (s : PState) (line : List Char) : (step s line).1.lineno = s.lineno + 1 := by
  cases h : swallowed s line with
  | true => exact (step_swallowed h).2.2.1
  | false => rw [step_visible h]; simp [mainLine_lineno, enter]

theorem onTest_noVersion (s : PState) (ok : Bool) (num : Option (List Char)) (name : List Char)
    (dir expl : Option (List Char)) : ∀ e ∈ (onTest s ok num name dir expl).2, isVersionEvent e = false := by
  intro e he
  simp only [onTest] at he
  simp only [List.mem_append] at he
  rcases he with ((he | he) | he) | he
  · split at he <;> simp at he; subst he; rfl
  · split at he <;> simp at he; subst he; rfl
  · split at he <;> simp at he; subst he; rfl
  · exact (parseTest_shape ..).noVersion e he

theorem mainLine_noVersion (s : PState) (line : List Char) (h : s.lineno ≠ 1) :
    ∀ e ∈ (mainLine s line).2, isVersionEvent e = false := by
  intro e he
  simp only [mainLine] at he
  cases hc : classify (rstrip line) with
  | skip => simp [hc] at he
  | test ok num name dir expl => rw [hc] at he; exact onTest_noVersion _ _ _ _ _ _ e he
  | plan ds dir expl =>
    rw [hc] at he
    simp only [onPlan] at he
    cases hp : s.plan with
    | some p => simp [hp] at he; subst he; rfl
    | none =>
      cases hz : tooLong ds
      · simp [hp, hz] at he
        rcases he with he | he
        · exact (planErrs_inert dir (natOfDigits ds)).2.2.2.2.2.2.2 e he
        · subst he; rfl
      · simp [hp, hz] at he; subst he; rfl
  | bailout msg => simp [hc] at he; subst he; rfl
  | version ds => simp [hc, onVersion, h] at he; subst he; rfl
  | unknown => simp [hc] at he; subst he; rfl

theorem step_noVersion (s : PState) (line : List Char) (h : s.lineno ≥ 1) :
    ∀ e ∈ (step s line).2, isVersionEvent e = false := by
  intro e he
  cases hs : swallowed s line with
  | true => simp [(step_swallowed hs).1] at he
  | false =>
    rw [step_visible hs] at he
    rcases List.mem_append.mp he with he | he
    · split at he <;> simp at he; subst he; rfl
    · exact mainLine_noVersion (enter s) line (by simp [enter]; omega) e he

theorem run_noVersion (s : PState) (lines : List (List Char)) (h : s.lineno ≥ 1) :
    ∀ e ∈ (run s lines).2, isVersionEvent e = false := by
  induction lines generalizing s with
  | nil => intro e he; simp [run] at he
  | cons l ls ih =>
    intro e he
    simp only [run] at he
    rcases List.mem_append.mp he with he | he
    · exact step_noVersion s l h e he
    · exact ih _ (by rw [step_lineno]; omega) e he

end MesonModel.Tap
