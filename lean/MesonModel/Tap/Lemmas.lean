/-
Helper definitions (measures over event lists) and lemmas for C18.
-/
import MesonModel.Tap.Model

namespace MesonModel.Tap
open MesonModel.Py

/-! ### Measures over event lists (specification vocabulary) -/

/-- number of subtest events -/
def countTests (evs : List Event) : Nat := evs.countP isTestEvent

def numberOf : Event → Nat
  | .test n _ _ _ => n
  | _ => 0

/-- highest subtest number reported (0 when there is none) -/
def maxNumber : List Event → Nat
  | [] => 0
  | e :: es => max (numberOf e) (maxNumber es)

/-- the first plan event -/
def planOf : List Event → Option Plan
  | [] => none
  | .plan p :: _ => some p
  | _ :: es => planOf es

def orPlan (a b : Option Plan) : Option Plan :=
  match a with
  | some p => some p
  | none => b

def isPlanEvent : Event → Bool
  | .plan _ => true
  | _ => false

def countPlans (evs : List Event) : Nat := evs.countP isPlanEvent

def isBailEvent : Event → Bool
  | .bailout _ => true
  | _ => false

def hasBail (evs : List Event) : Bool := evs.any isBailEvent

def isErrorEvent : Event → Bool
  | .error _ => true
  | _ => false

/-- the four end-of-stream errors -/
def isFinalErr : Event → Bool
  | .error (.tooFew ..) => true
  | .error (.tooMany ..) => true
  | .error (.duplicate ..) => true
  | .error (.missing ..) => true
  | _ => false

def isVersionEvent : Event → Bool
  | .version _ => true
  | _ => false

def isLateErr : Event → Bool
  | .error .lateTest => true
  | _ => false

@[simp] theorem countTests_nil : countTests [] = 0 := rfl
@[simp] theorem countTests_append (a b : List Event) : countTests (a ++ b) = countTests a + countTests b := by
  simp [countTests]
@[simp] theorem countTests_cons (e : Event) (es : List Event) :
    countTests (e :: es) = (if isTestEvent e then 1 else 0) + countTests es := by
  simp [countTests, List.countP_cons]; omega

@[simp] theorem maxNumber_nil : maxNumber [] = 0 := rfl
@[simp] theorem maxNumber_cons (e : Event) (es : List Event) :
    maxNumber (e :: es) = max (numberOf e) (maxNumber es) := rfl
@[simp] theorem maxNumber_append (a b : List Event) : maxNumber (a ++ b) = max (maxNumber a) (maxNumber b) := by
  induction a with
  | nil => simp
  | cons e es ih => simp [ih, Nat.max_assoc]

@[simp] theorem planOf_nil : planOf [] = none := rfl
theorem planOf_append (a b : List Event) : planOf (a ++ b) = orPlan (planOf a) (planOf b) := by
  induction a with
  | nil => simp [orPlan]
  | cons e es ih => cases e <;> simp [planOf, orPlan, ih]

@[simp] theorem hasBail_nil : hasBail [] = false := rfl
@[simp] theorem hasBail_append (a b : List Event) : hasBail (a ++ b) = (hasBail a || hasBail b) := by
  simp [hasBail]
@[simp] theorem hasBail_cons (e : Event) (es : List Event) : hasBail (e :: es) = (isBailEvent e || hasBail es) := by
  simp [hasBail]

@[simp] theorem countPlans_nil : countPlans [] = 0 := rfl
@[simp] theorem countPlans_append (a b : List Event) : countPlans (a ++ b) = countPlans a + countPlans b := by
  simp [countPlans]
@[simp] theorem countPlans_cons (e : Event) (es : List Event) :
    countPlans (e :: es) = (if isPlanEvent e then 1 else 0) + countPlans es := by
  simp [countPlans, List.countP_cons]; omega

theorem orPlan_assoc (a b c : Option Plan) : orPlan (orPlan a b) c = orPlan a (orPlan b c) := by
  cases a <;> simp [orPlan]
@[simp] theorem orPlan_none_right (a : Option Plan) : orPlan a none = a := by cases a <;> rfl
@[simp] theorem orPlan_none_left (a : Option Plan) : orPlan none a = a := rfl
@[simp] theorem orPlan_some (p : Plan) (a : Option Plan) : orPlan (some p) a = some p := rfl

/-! ### `parse_test` -/

/-- the directive table of the property, as a specification -/
def directiveResult (ok : Bool) (dir : Option (List Char)) : TestResult :=
  match dir with
  | none => plainResult ok
  | some d =>
    if startsWith (upper d) kSKIP then (if ok then .SKIP else .FAIL)
    else if upper d = kTODO then (if ok then .UNEXPECTEDPASS else .EXPECTEDFAIL)
    else plainResult ok

/-- `parse_test` yields exactly one subtest event, last, preceded by at most an invalid-directive error -/
theorem parseTest_eq (ok : Bool) (n : Nat) (name : List Char) (dir expl : Option (List Char)) :
    parseTest ok n name dir expl =
      (match dir with
       | none => []
       | some d => if startsWith (upper d) kSKIP ∨ upper d = kTODO then []
                   else [.error (.invalidDirective (upper d))]) ++
      [.test n (strip name) (directiveResult ok dir) (normExpl expl)] := by
  unfold parseTest directiveResult
  cases dir with
  | none => simp
  | some d =>
    by_cases h1 : startsWith (upper d) kSKIP = true
    · cases ok <;> simp [h1, plainResult]
    · by_cases h2 : upper d = kTODO
      · have h3 : startsWith kTODO kSKIP = false := by decide
        simp [h2, h3]
      · simp [h1, h2]

theorem parseTest_filter (ok : Bool) (n : Nat) (name : List Char) (dir expl : Option (List Char)) :
    (parseTest ok n name dir expl).filter isTestEvent =
      [.test n (strip name) (directiveResult ok dir) (normExpl expl)] := by
  rw [parseTest_eq]
  cases dir with
  | none => simp [isTestEvent]
  | some d => by_cases h : (startsWith (upper d) kSKIP ∨ upper d = kTODO) <;> simp [h, isTestEvent]

/-- facts about an event list that only consists of non-final errors followed by one subtest `n` -/
structure TestShape (n : Nat) (evs : List Event) : Prop where
  count : countTests evs = 1
  maxN : maxNumber evs = n
  plan : planOf evs = none
  bail : hasBail evs = false
  plans : countPlans evs = 0
  noFinal : ∀ e ∈ evs, isFinalErr e = false
  noVersion : ∀ e ∈ evs, isVersionEvent e = false

theorem parseTest_shape (ok : Bool) (n : Nat) (name : List Char) (dir expl : Option (List Char)) :
    TestShape n (parseTest ok n name dir expl) := by
  rw [parseTest_eq]
  cases dir with
  | none => constructor <;> simp [isTestEvent, numberOf, planOf, isBailEvent, isPlanEvent, isFinalErr, isVersionEvent]
  | some d =>
    by_cases h : (startsWith (upper d) kSKIP ∨ upper d = kTODO) <;>
      constructor <;> simp [h, isTestEvent, numberOf, planOf, isBailEvent, isPlanEvent, isFinalErr, isVersionEvent]

end MesonModel.Tap
