/-
Lemmas about sessions of fresh parsers and about the `TestRunTAP` consumer state machine.
-/
import MesonModel.Tap.Consumer
import MesonModel.Tap.VerdictLemmas

namespace MesonModel.Tap

/-! ### Sessions -/

theorem session_fst_cls (p : Proc) (ss : List (List (List Char))) : (session p ss).1.cls = p.cls := by
  induction ss generalizing p with
  | nil => rfl
  | cons s ss ih => simp only [session]; rw [ih]; rfl

theorem session_snd (p : Proc) (ss : List (List (List Char))) :
    (session p ss).2 = ss.map (parseFrom p.cls) := by
  induction ss generalizing p with
  | nil => rfl
  | cons s ss ih =>
    simp only [session, List.map_cons]
    rw [ih]
    rfl

theorem session_used_length (p : Proc) (ss : List (List (List Char))) :
    (session p ss).1.used.length = p.used.length + ss.length := by
  induction ss generalizing p with
  | nil => rfl
  | cons s ss ih => simp only [session]; rw [ih]; simp [useFresh]; omega

/-! ### The consumer loop -/

/-- the fold of `consumeEv` only appends to `results` … -/
theorem foldl_results (t : RunTAP) (evs : List Event) :
    (evs.foldl consumeEv t).results = t.results ++ evs.filter isTestEvent := by
  induction evs generalizing t with
  | nil => simp
  | cons e es ih =>
    simp only [List.foldl_cons]
    rw [ih]
    cases e <;> simp [consumeEv, isTestEvent, List.filter_cons]

theorem foldl_res(t : RunTAP) (evs : List Event) : (evs.foldl consumeEv t).res = t.res := by
  induction evs generalizing t with
  | nil => rfl
  | cons e es ih => simp only [List.foldl_cons]; rw [ih]; cases e <;> rfl

/-- … and its local `res` is the `foldRes` of the verdict model -/
theorem foldl_localRes (t : RunTAP) (evs : List Event) :
    (evs.foldl consumeEv t).localRes = foldRes t.localRes evs := by
  induction evs generalizing t with
  | nil => rfl
  | cons e es ih =>
    simp only [List.foldl_cons]
    rw [ih]
    cases e <;> simp [consumeEv, foldRes]

theorem foldl_errs (t : RunTAP) (evs : List Event) :
    (evs.foldl consumeEv t).errs =
      t.errs ++ evs.filterMap errOf := by
  induction evs generalizing t with
  | nil => simp
  | cons e es ih =>
    simp only [List.foldl_cons]
    rw [ih]
    cases e <;> simp [consumeEv, errOf, unknownOf, List.filterMap_cons]

theorem foldl_warns (t : RunTAP) (evs : List Event) :
    (evs.foldl consumeEv t).warns =
      t.warns ++ evs.filterMap unknownOf := by
  induction evs generalizing t with
  | nil => simp
  | cons e es ih =>
    simp only [List.foldl_cons]
    rw [ih]
    cases e <;> simp [consumeEv, errOf, unknownOf, List.filterMap_cons]

theorem all_isSkipTest_filter (evs : List Event) : (evs.filter isTestEvent).all isSkipTest = allSkip evs := by
  induction evs with
  | nil => rfl
  | cons e es ih =>
    cases e <;> simp [List.filter_cons, isTestEvent, isSkipTest, allSkip] at ih ⊢ <;> simp [ih]

/-! ### `lastTrigger` -/

def Trigger.res : Trigger → TestResult
  | .fail => .FAIL
  | .error => .ERROR

theorem foldRes_eq_lastTrigger (r : Option TestResult) (evs : List Event) :
    foldRes r evs = match lastTrigger evs with
      | some t => some t.res
      | none => r := by
  induction evs generalizing r with
  | nil => rfl
  | cons e es ih =>
    cases e with
    | test n nm res ex =>
      simp only [foldRes, lastTrigger, triggerOf]
      rw [ih]
      cases lastTrigger es with
      | some t => rfl
      | none => cases hb : res.isBad <;> simp [Trigger.res]
    | bailout m =>
      simp only [foldRes, lastTrigger, triggerOf]; rw [ih]
      cases lastTrigger es <;> rfl
    | error x =>
      simp only [foldRes, lastTrigger, triggerOf]; rw [ih]
      cases lastTrigger es <;> rfl
    | plan p =>
      simp only [foldRes, lastTrigger, triggerOf]; rw [ih]
      cases lastTrigger es <;> rfl
    | unknown m l =>
      simp only [foldRes, lastTrigger, triggerOf]; rw [ih]
      cases lastTrigger es <;> rfl
    | version v =>
      simp only [foldRes, lastTrigger, triggerOf]; rw [ih]
      cases lastTrigger es <;> rfl

theorem lastTrigger_append (a b : List Event) :
    lastTrigger (a ++ b) = match lastTrigger b with
      | some t => some t
      | none => lastTrigger a := by
  induction a with
  | nil => simp [lastTrigger]; cases lastTrigger b <;> rfl
  | cons e es ih =>
    simp only [List.cons_append, lastTrigger]
    rw [ih]
    cases lastTrigger b <;> rfl

theorem triggerOf_isSome (e : Event) : (triggerOf e).isSome = isTrigger e := by
  cases e with
  | test n nm r ex => cases h : r.isBad <;> simp [triggerOf, isTrigger, isBadTest, isErrorEvent, isBailEvent, h]
  | _ => simp [triggerOf, isTrigger, isBadTest, isErrorEvent, isBailEvent]

theorem lastTrigger_none_iff (evs : List Event) : lastTrigger evs = none ↔ evs.any isTrigger = false := by
  induction evs with
  | nil => simp [lastTrigger]
  | cons e es ih =>
    simp only [lastTrigger, List.any_cons, Bool.or_eq_false_iff]
    cases h : lastTrigger es with
    | some t =>
      have : ¬ (es.any isTrigger = false) := fun hc => by simp [ih.mpr hc] at h
      simp [this]
    | none =>
      have h2 := ih.mp h
      rw [← triggerOf_isSome]
      cases triggerOf e <;> simp [h2]

theorem lastTrigger_fail_bad (evs : List Event) : lastTrigger evs = some .fail → hasBadSubtest evs = true := by
  induction evs with
  | nil => simp [lastTrigger]
  | cons e es ih =>
    simp only [lastTrigger, hasBadSubtest, List.any_cons]
    cases h : lastTrigger es with
    | some t =>
      intro ht
      have : t = .fail := by simpa using ht
      subst this
      have := ih h
      simp [hasBadSubtest] at this
      simp [this]
    | none =>
      intro ht
      cases e with
      | test n nm r ex =>
        cases hb : r.isBad <;> simp [triggerOf, hb] at ht
        simp [isBadTest, hb]
      | _ => simp [triggerOf] at ht

theorem lastTrigger_error_has (evs : List Event) : lastTrigger evs = some .error → hasErrorOrBail evs = true := by
  induction evs with
  | nil => simp [lastTrigger]
  | cons e es ih =>
    simp only [lastTrigger, hasErrorOrBail, List.any_cons]
    cases h : lastTrigger es with
    | some t =>
      intro ht
      have : t = .error := by simpa using ht
      subst this
      have := ih h
      simp [hasErrorOrBail] at this
      simp [this]
    | none =>
      intro ht
      cases e with
      | test n nm r ex => cases hb : r.isBad <;> simp [triggerOf, hb] at ht
      | error x => simp [isErrorEvent]
      | bailout m => simp [isBailEvent]
      | _ => simp [triggerOf] at ht

/-- a list of error events, if not empty, ends the trigger search with `error` -/
theorem lastTrigger_errors (l : List Event) (h : ∀ e ∈ l, isErrorEvent e = true) (hne : l ≠ []) :
    lastTrigger l = some .error := by
  induction l with
  | nil => exact absurd rfl hne
  | cons e es ih =>
    simp only [lastTrigger]
    by_cases hes : es = []
    · subst hes
      have := h e (List.mem_cons_self ..)
      cases e <;> simp [isErrorEvent] at this
      simp [lastTrigger, triggerOf]
    · rw [ih (fun x hx => h x (List.mem_cons_of_mem _ hx)) hes]

end MesonModel.Tap
