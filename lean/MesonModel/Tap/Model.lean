/-
Model of `mesonbuild/mtest.py` `TAPParser` (lines 315-502) and of the verdict computed by
`TestRunTAP.parse` / `TestRunTAP.complete` / `TestRun._complete` (lines 1049-1061, 1147-1198).

Core Lean only.  Strings are `List Char`.  The seven line regexes are hand-written matchers with the
semantics of Python's `re.match` (anchored at the start, prefix match, greedy with backtracking):

  _RE_BAILOUT    Bail out!\s*(.*)
  _RE_DIRECTIVE  (?:\s*\#\s*([Ss][Kk][Ii][Pp]\S*|[Tt][Oo][Dd][Oo])\b\s*(.*))?
  _RE_PLAN       1\.\.([0-9]+) + DIRECTIVE
  _RE_TEST       ((?:not )?ok)\s*(?:([0-9]+)\s*)?([^#]*) + DIRECTIVE
  _RE_VERSION    TAP version ([0-9]+)
  _RE_YAML_START (\s+)---.*
  _RE_YAML_END   \s+\.\.\.\s*

Because everything after the mandatory head of each pattern is optional, the first successful path of
the backtracking matcher is the all-greedy one; the only place where giving characters back matters is
`SKIP\S*\b` (e.g. `# SKIP:` gives directive `SKIP`, explanation `:`), modelled by `bestSplit`.
ASCII is exact (`\s` = 9-13, 28-32; `\w` = [A-Za-z0-9_]); non-ASCII code points are "other".
-/
import MesonModel.Py.Str

namespace MesonModel.Tap
open MesonModel.Py

/-! ### Results, events -/

inductive TestResult
  | PENDING | RUNNING | OK | TIMEOUT | INTERRUPT | SKIP | FAIL | EXPECTEDFAIL | UNEXPECTEDPASS | ERROR | IGNORED
  deriving DecidableEq, Repr

namespace TestResult
def name : TestResult → String
  | PENDING => "PENDING" | RUNNING => "RUNNING" | OK => "OK" | TIMEOUT => "TIMEOUT"
  | INTERRUPT => "INTERRUPT" | SKIP => "SKIP" | FAIL => "FAIL" | EXPECTEDFAIL => "EXPECTEDFAIL"
  | UNEXPECTEDPASS => "UNEXPECTEDPASS" | ERROR => "ERROR" | IGNORED => "IGNORED"

def all : List TestResult :=
  [PENDING, RUNNING, OK, TIMEOUT, INTERRUPT, SKIP, FAIL, EXPECTEDFAIL, UNEXPECTEDPASS, ERROR, IGNORED]

/-- `TestResult.is_bad` -/
def isBad : TestResult → Bool
  | FAIL | TIMEOUT | INTERRUPT | UNEXPECTEDPASS | ERROR => true
  | _ => false

/-- `TestResult.is_ok` -/
def isOk : TestResult → Bool
  | OK | EXPECTEDFAIL => true
  | _ => false
end TestResult

/-- `TAPParser.Plan` -/
structure Plan where
  numTests : Nat
  late : Bool
  skipped : Bool
  explanation : Option (List Char)
  deriving DecidableEq, Repr

/-- the messages of `TAPParser.Error`, one constructor per message template -/
inductive Err
  | yamlNotTerminated (startLine : Option Nat)
  | lateTest
  | exceedsPlan
  | invalidDirective (d : List Char)
  | secondPlan
  | planSkipInvalid
  | planDirectiveInvalid
  | versionNotFirst
  | versionTooLow
  | tooFew (expected got : Nat)
  | tooMany (expected got : Nat)
  | duplicate (expected got : Nat)
  | missing (expected got : Nat)
  | testNumberTooLarge
  | planCountTooLarge
  | versionTooLarge
  deriving DecidableEq, Repr

inductive Event
  | plan (p : Plan)
  | bailout (msg : List Char)
  | test (number : Nat) (name : List Char) (result : TestResult) (expl : Option (List Char))
  | error (e : Err)
  | unknown (msg : List Char) (lineno : Nat)
  | version (v : Nat)
  deriving DecidableEq, Repr

/-! ### Regex matchers -/

/-- `s.startswith(p)` returning the remainder -/
def dropPrefix? : List Char → List Char → Option (List Char)
  | [], s => some s
  | _ :: _, [] => none
  | p :: ps, c :: cs => if p = c then dropPrefix? ps cs else none

def notSpace (c : Char) : Bool := !isSpace c
def notHash (c : Char) : Bool := c != '#'
def notNL (c : Char) : Bool := c != '\n'

/-- `(.*)` at the end of a pattern: the maximal run without a newline -/
def dotStar (s : List Char) : List Char := s.takeWhile notNL

/-- `\b` at a position whose previous character is `prev` and whose remaining text is `rest` -/
def wordBoundary (prev : Char) (rest : List Char) : Bool :=
  match rest with
  | [] => isWord prev
  | c :: _ => isWord prev != isWord c

/-- `\S*\b` with backtracking: the longest prefix `t` of the non-space run `r` such that `\b` holds
after it (`prev` is the character before `r`, `after` the text after `r`). Returns `(t, rest)`. -/
def bestSplit (prev : Char) : List Char → List Char → Option (List Char × List Char)
  | [], after => if wordBoundary prev after then some ([], after) else none
  | c :: cs, after =>
    match bestSplit c cs after with
    | some (t, rest) => some (c :: t, rest)
    | none => if wordBoundary prev (c :: cs ++ after) then some ([], c :: cs ++ after) else none

def asciiLower (c : Char) : Char :=
  if 65 ≤ c.toNat ∧ c.toNat ≤ 90 then Char.ofNat (c.toNat + 32) else c

def asciiUpper (c : Char) : Char :=
  if 97 ≤ c.toNat ∧ c.toNat ≤ 122 then Char.ofNat (c.toNat - 32) else c

/-- `str.upper()` on the validated domain -/
def upper (s : List Char) : List Char := s.map asciiUpper

/-- the optional `_RE_DIRECTIVE` group tried at `s`: `(group directive, group explanation)` -/
def matchDirective (s : List Char) : Option (List Char) × Option (List Char) :=
  match s.dropWhile isSpace with
  | '#' :: s2 =>
    match s2.dropWhile isSpace with
    | a :: b :: c :: d :: rest =>
      if asciiLower a = 's' ∧ asciiLower b = 'k' ∧ asciiLower c = 'i' ∧ asciiLower d = 'p' then
        match bestSplit d (rest.takeWhile notSpace) (rest.dropWhile notSpace) with
        | some (t, rest') => (some (a :: b :: c :: d :: t), some (dotStar (rest'.dropWhile isSpace)))
        | none => (none, none)
      else if asciiLower a = 't' ∧ asciiLower b = 'o' ∧ asciiLower c = 'd' ∧ asciiLower d = 'o' then
        if wordBoundary d rest then (some [a, b, c, d], some (dotStar (rest.dropWhile isSpace)))
        else (none, none)
      else (none, none)
    | _ => (none, none)
  | _ => (none, none)

/-- what `parse_line` sees in a (right-stripped) line in the `_MAIN` state -/
inductive LineClass
  /-- empty line or diagnostic (`#…`) -/
  | skip
  /-- `_RE_TEST` groups 1-5 (`ok` = group 1 is `ok`; `num` = digit string or None) -/
  | test (ok : Bool) (num : Option (List Char)) (name : List Char)
         (dir : Option (List Char)) (expl : Option (List Char))
  /-- `_RE_PLAN` groups 1-3 -/
  | plan (num : List Char) (dir : Option (List Char)) (expl : Option (List Char))
  | bailout (msg : List Char)
  | version (num : List Char)
  | unknown
  deriving DecidableEq, Repr

/-- the part of `_RE_TEST` after group 1 -/
def testTail (ok : Bool) (rest : List Char) : LineClass :=
  let r1 := rest.dropWhile isSpace
  let ds := r1.takeWhile isDigit
  let num := if ds.isEmpty then none else some ds
  let r2 := if ds.isEmpty then r1 else (r1.dropWhile isDigit).dropWhile isSpace
  let de := matchDirective (r2.dropWhile notHash)
  .test ok num (r2.takeWhile notHash) de.1 de.2

def kNotOk : List Char := ['n', 'o', 't', ' ', 'o', 'k']
def kOk : List Char := ['o', 'k']
def kPlan : List Char := ['1', '.', '.']
def kBail : List Char := ['B', 'a', 'i', 'l', ' ', 'o', 'u', 't', '!']
def kVersion : List Char := ['T', 'A', 'P', ' ', 'v', 'e', 'r', 's', 'i', 'o', 'n', ' ']
def kDashes : List Char := ['-', '-', '-']
def kDots : List Char := ['.', '.', '.']
def kSKIP : List Char := ['S', 'K', 'I', 'P']
def kTODO : List Char := ['T', 'O', 'D', 'O']

/-- the cascade of `match` calls of `parse_line` on the right-stripped line -/
def classify (l : List Char) : LineClass :=
  match l with
  | [] => .skip
  | '#' :: _ => .skip
  | _ =>
    match dropPrefix? kNotOk l with
    | some rest => testTail false rest
    | none =>
    match dropPrefix? kOk l with
    | some rest => testTail true rest
    | none =>
    match dropPrefix? kPlan l with
    | some rest =>
      if (rest.takeWhile isDigit).isEmpty then .unknown
      else
        let de := matchDirective (rest.dropWhile isDigit)
        .plan (rest.takeWhile isDigit) de.1 de.2
    | none =>
    match dropPrefix? kBail l with
    | some rest => .bailout (dotStar (rest.dropWhile isSpace))
    | none =>
    match dropPrefix? kVersion l with
    | some rest => if (rest.takeWhile isDigit).isEmpty then .unknown else .version (rest.takeWhile isDigit)
    | none => .unknown

/-- `_RE_YAML_START.match(line)`: group 1 (the indentation) -/
def yamlStart (line : List Char) : Option (List Char) :=
  let ws := line.takeWhile isSpace
  if ws.isEmpty then none
  else match dropPrefix? kDashes (line.dropWhile isSpace) with
    | some _ => some ws
    | none => none

/-- `_RE_YAML_END.match(line)` -/
def yamlEnd (line : List Char) : Bool :=
  !(line.takeWhile isSpace).isEmpty && (dropPrefix? kDots (line.dropWhile isSpace)).isSome

/-! ### `parse_test` -/

/-- `explanation.strip() if explanation else None` -/
def normExpl : Option (List Char) → Option (List Char)
  | none => none
  | some e => if e.isEmpty then none else some (strip e)

def plainResult (ok : Bool) : TestResult := if ok then .OK else .FAIL

def parseTest (ok : Bool) (num : Nat) (name : List Char) (dir expl : Option (List Char)) : List Event :=
  let name := strip name
  let expl := normExpl expl
  match dir with
  | none => [.test num name (plainResult ok) expl]
  | some d =>
    let d := upper d
    if startsWith d kSKIP then
      if ok then [.test num name .SKIP expl] else [.test num name (plainResult ok) expl]
    else if d = kTODO then
      [.test num name (if ok then .UNEXPECTEDPASS else .EXPECTEDFAIL) expl]
    else
      [.error (.invalidDirective d), .test num name (plainResult ok) expl]

/-! ### Parser state machine -/

inductive Mode | main | afterTest | yaml
  deriving DecidableEq, Repr

structure PState where
  state : Mode := .main
  plan : Option Plan := none
  numTests : Nat := 0
  lastTest : Nat := 0
  highestTest : Nat := 0
  foundLateTest : Bool := false
  bailedOut : Bool := false
  version : Nat := 12
  lineno : Nat := 0
  yamlLineno : Option Nat := none
  yamlIndent : List Char := []
  deriving DecidableEq, Repr

def PState.init : PState := {}

/-- CPython's default `sys.get_int_max_str_digits()` -/
def intMaxStrDigits : Nat := 4300

/-- `int(ds)` raises ValueError for a digit string `ds` (leading zeros count) -/
def tooLong (ds : List Char) : Bool := decide (ds.length > intMaxStrDigits)

/-- the test number was given and `int()` refused it (the `except ValueError` branch) -/
def numTooLong (num : Option (List Char)) : Bool :=
  match num with
  | none => false
  | some d => tooLong d

/-- `self.last_test + 1 if m.group(2) is None else int(m.group(2))`, and `self.last_test + 1` again when
`int()` raised -/
def testNumber (s : PState) (num : Option (List Char)) : Nat :=
  match num with
  | none => s.lastTest + 1
  | some d => if tooLong d then s.lastTest + 1 else natOfDigits d

/-- `self.plan and self.plan.late and not self.found_late_test` -/
def lateNow (s : PState) : Bool :=
  match s.plan with
  | some p => p.late && !s.foundLateTest
  | none => false

/-- `self.plan and self.last_test > self.plan.num_tests` -/
def exceedsPlan (s : PState) (n : Nat) : Bool :=
  match s.plan with
  | some p => decide (n > p.numTests)
  | none => false

/-- the `_RE_TEST` branch of `parse_line` -/
def onTest (s : PState) (ok : Bool) (num : Option (List Char)) (name : List Char)
    (dir expl : Option (List Char)) : PState × List Event :=
  let n := testNumber s num
  ({ s with foundLateTest := s.foundLateTest || lateNow s, numTests := s.numTests + 1, lastTest := n,
            highestTest := max s.highestTest n, state := .afterTest },
   (if lateNow s then [.error .lateTest] else []) ++
   (if numTooLong num then [.error .testNumberTooLarge] else []) ++
   (if exceedsPlan s n then [.error .exceedsPlan] else []) ++
     parseTest ok n name dir expl)

/-- `m.group(2)` under `if m.group(2):` — None and the empty string are falsy -/
def truthyDir (dir : Option (List Char)) : Option (List Char) :=
  match dir with
  | some d => if d.isEmpty then none else some d
  | none => none

/-- `m.group(2).upper().startswith('SKIP')` (false without a directive) -/
def planIsSkip (dir : Option (List Char)) : Bool :=
  match truthyDir dir with
  | some d => startsWith (upper d) kSKIP
  | none => false

/-- the errors a plan directive produces -/
def planErrs (dir : Option (List Char)) (n : Nat) : List Event :=
  match truthyDir dir with
  | none => []
  | some _ => if planIsSkip dir then (if n > 0 then [.error .planSkipInvalid] else [])
              else [.error .planDirectiveInvalid]

/-- the `_RE_PLAN` branch -/
def onPlan (s : PState) (ds : List Char) (dir expl : Option (List Char)) : PState × List Event :=
  match s.plan with
  | some _ => (s, [.error .secondPlan])
  | none =>
    if tooLong ds then (s, [.error .planCountTooLarge]) else
    let n := natOfDigits ds
    let p : Plan := { numTests := n, late := decide (s.numTests > 0),
                      skipped := (n == 0) || planIsSkip dir, explanation := expl }
    ({ s with plan := some p }, planErrs dir n ++ [.plan p])

/-- the `_RE_VERSION` branch -/
def onVersion (s : PState) (ds : List Char) : PState × List Event :=
  if s.lineno ≠ 1 then (s, [.error .versionNotFirst])
  else if tooLong ds then (s, [.error .versionTooLarge])
  else
    let v := natOfDigits ds
    ({ s with version := v }, [if v < 13 then .error .versionTooLow else .version v])

/-- `parse_line` from `line = line.rstrip()` on (state is `_MAIN`) -/
def mainLine (s : PState) (line : List Char) : PState × List Event :=
  let l := rstrip line
  match classify l with
  | .skip => (s, [])
  | .test ok num name dir expl => onTest s ok num name dir expl
  | .plan ds dir expl => onPlan s ds dir expl
  | .bailout msg => ({ s with bailedOut := true }, [.bailout msg])
  | .version ds => onVersion s ds
  | .unknown => (s, [.unknown l s.lineno])

/-- `parse_line(line)` for a line that is not None -/
def step (s0 : PState) (line : List Char) : PState × List Event :=
  let s := { s0 with lineno := s0.lineno + 1 }
  match s.state with
  | .main => mainLine s line
  | .afterTest =>
    if s.version ≥ 13 then
      match yamlStart line with
      | some ind => ({ s with state := .yaml, yamlLineno := some s.lineno, yamlIndent := ind }, [])
      | none => mainLine { s with state := .main } line
    else mainLine { s with state := .main } line
  | .yaml =>
    if yamlEnd line then ({ s with state := .main }, [])
    else if startsWith line s.yamlIndent then (s, [])
    else
      let r := mainLine { s with state := .main } line
      (r.1, .error (.yamlNotTerminated s.yamlLineno) :: r.2)

/-- the duplicate / missing check at end of stream -/
def dupMissing (s : PState) : List Event :=
  if s.highestTest = s.numTests then []
  else if s.highestTest < s.numTests then [.error (.duplicate s.numTests s.highestTest)]
  else [.error (.missing s.numTests s.highestTest)]

/-- the plan / numbering checks at end of stream (after the `bailed_out` return) -/
def finalChecks (s : PState) : List Event :=
  match s.plan with
  | some p =>
    if s.numTests = p.numTests then dupMissing s
    else if s.numTests < p.numTests then [.error (.tooFew p.numTests s.numTests)]
    else [.error (.tooMany p.numTests s.numTests)]
  | none => dupMissing s

/-- `parse_line(None)` -/
def finish (s : PState) : List Event :=
  (if s.state = .yaml then [.error (.yamlNotTerminated s.yamlLineno)] else []) ++
  (if s.bailedOut then [] else finalChecks s)

/-- the loop of `parse`: state after the lines and the events yielded so far -/
def run (s : PState) : List (List Char) → PState × List Event
  | [] => (s, [])
  | l :: ls =>
    let r := step s l
    let r' := run r.1 ls
    (r'.1, r.2 ++ r'.2)

/-- `list(TAPParser().parse(lines))` -/
def parse (lines : List (List Char)) : List Event :=
  let r := run PState.init lines
  r.2 ++ finish r.1

/-! ### Exception-faithful layer

`int()` is the only call in `parse_line` / `parse_test` that can raise on the modelled domain.  Here it is a
partial primitive (`pyInt`), the three call sites are written with the `try … except ValueError` of the source,
and everything else is threaded through `Except`; `MesonModel.Props.C18.parse_never_raises` proves that no
exception escapes and that the result is the plain model above. -/

inductive PyExc | valueError
  deriving DecidableEq, Repr

/-- `int(ds)` for a non-empty ASCII digit string -/
def pyInt (ds : List Char) : Except PyExc Nat :=
  if tooLong ds then .error .valueError else .ok (natOfDigits ds)

def onTestE (s : PState) (ok : Bool) (num : Option (List Char)) (name : List Char)
    (dir expl : Option (List Char)) : Except PyExc (PState × List Event) := do
  let late := lateNow s
  -- try: last_test = last_test + 1 if group(2) is None else int(group(2))
  -- except ValueError: yield Error; last_test += 1
  let (n, errs) ← tryCatch
    (do let n ← (match num with
                 | none => pure (s.lastTest + 1)
                 | some d => pyInt d)
        pure (n, ([] : List Event)))
    (fun _ => pure (s.lastTest + 1, [Event.error .testNumberTooLarge]))
  pure ({ s with foundLateTest := s.foundLateTest || late, numTests := s.numTests + 1, lastTest := n,
                 highestTest := max s.highestTest n, state := .afterTest },
        (if late then [.error .lateTest] else []) ++ errs ++
        (if exceedsPlan s n then [.error .exceedsPlan] else []) ++ parseTest ok n name dir expl)

def onPlanE (s : PState) (ds : List Char) (dir expl : Option (List Char)) :
    Except PyExc (PState × List Event) :=
  match s.plan with
  | some _ => pure (s, [.error .secondPlan])
  | none =>
    tryCatch
      (do let n ← pyInt ds
          let p : Plan := { numTests := n, late := decide (s.numTests > 0),
                            skipped := (n == 0) || planIsSkip dir, explanation := expl }
          pure ({ s with plan := some p }, planErrs dir n ++ [.plan p]))
      (fun _ => pure (s, [.error .planCountTooLarge]))

def onVersionE (s : PState) (ds : List Char) : Except PyExc (PState × List Event) :=
  if s.lineno ≠ 1 then pure (s, [.error .versionNotFirst])
  else
    tryCatch
      (do let v ← pyInt ds
          pure ({ s with version := v }, [if v < 13 then .error .versionTooLow else .version v]))
      (fun _ => pure (s, [.error .versionTooLarge]))

def mainLineE (s : PState) (line : List Char) : Except PyExc (PState × List Event) :=
  let l := rstrip line
  match classify l with
  | .skip => pure (s, [])
  | .test ok num name dir expl => onTestE s ok num name dir expl
  | .plan ds dir expl => onPlanE s ds dir expl
  | .bailout msg => pure ({ s with bailedOut := true }, [.bailout msg])
  | .version ds => onVersionE s ds
  | .unknown => pure (s, [.unknown l s.lineno])

def stepE (s0 : PState) (line : List Char) : Except PyExc (PState × List Event) :=
  let s := { s0 with lineno := s0.lineno + 1 }
  match s.state with
  | .main => mainLineE s line
  | .afterTest =>
    if s.version ≥ 13 then
      match yamlStart line with
      | some ind => pure ({ s with state := .yaml, yamlLineno := some s.lineno, yamlIndent := ind }, [])
      | none => mainLineE { s with state := .main } line
    else mainLineE { s with state := .main } line
  | .yaml =>
    if yamlEnd line then pure ({ s with state := .main }, [])
    else if startsWith line s.yamlIndent then pure (s, [])
    else do
      let r ← mainLineE { s with state := .main } line
      pure (r.1, .error (.yamlNotTerminated s.yamlLineno) :: r.2)

def runE (s : PState) : List (List Char) → Except PyExc (PState × List Event)
  | [] => pure (s, [])
  | l :: ls => do
    let r ← stepE s l
    let r' ← runE r.1 ls
    pure (r'.1, r.2 ++ r'.2)

/-- `list(TAPParser().parse(lines))` with exceptions -/
def parseE (lines : List (List Char)) : Except PyExc (List Event) := do
  let r ← runE PState.init lines
  pure (r.2 ++ finish r.1)

/-! ### From the program's output to the line stream (`read_decode`, specification)

The documented behaviour of the layer between a test program's stdout and the parser, for lines that fit the
pipe reader's buffer: the (decoded) output is cut after every `\n`, a last unterminated piece is a line too,
and `\r\n` is folded to `\n` inside each line.  (Lines longer than the StreamReader limit are handed over in
pieces by the code; that is outside this specification and a recorded finding.) -/

def splitLines : List Char → List (List Char)
  | [] => []
  | c :: cs =>
    if c = '\n' then [c] :: splitLines cs
    else match splitLines cs with
      | [] => [[c]]
      | l :: ls => (c :: l) :: ls

/-- `line.replace('\r\n', '\n')` -/
def foldCRLF : List Char → List Char
  | [] => []
  | [c] => [c]
  | c :: d :: cs => if c = '\r' ∧ d = '\n' then '\n' :: foldCRLF cs else c :: foldCRLF (d :: cs)

/-- the lines handed to `TAPParser.parse` for the decoded output `out` -/
def outputLines (out : List Char) : List (List Char) := (splitLines out).map foldCRLF

/-! ### Verdict (`TestRunTAP.parse`, `TestRunTAP.complete`, `TestRun._complete`) -/

/-- the local variable `res` of `TestRunTAP.parse` after the event loop -/
def foldRes : Option TestResult → List Event → Option TestResult
  | r, [] => r
  | _, .bailout _ :: es => foldRes (some .ERROR) es
  | r, .test _ _ res _ :: es => foldRes (if res.isBad then some .FAIL else r) es
  | _, .error _ :: es => foldRes (some .ERROR) es
  | r, _ :: es => foldRes r es

def isTestEvent : Event → Bool
  | .test .. => true
  | _ => false

def testResultOf : Event → Option TestResult
  | .test _ _ r _ => some r
  | _ => none

/-- `all(t.result is TestResult.SKIP for t in self.results)` -/
def allSkip (evs : List Event) : Bool :=
  evs.all (fun e => match e with | .test _ _ r _ => r == .SKIP | _ => true)

/-- `self.res` after `TestRunTAP.parse` when it was `res0` before -/
def parseRes (res0 : TestResult) (evs : List Event) : TestResult :=
  let res := foldRes none evs
  let res := if allSkip evs then (if res = some .ERROR then res else some .SKIP) else res
  match res with
  | some r => if res0 = .RUNNING then r else res0
  | none => res0

/-- `TestRunTAP.complete` followed by `TestRun._complete` (TAP: `needs_parsing` is True, so
`interactive` console mode makes the result IGNORED) -/
def completeRes (expectedFail interactive : Bool) (returncode : Int) (r : TestResult) : TestResult :=
  let r := if returncode ≠ 0 ∧ !r.isBad then .ERROR else r
  let r := if r = .RUNNING then .OK else r
  let r := if interactive then .IGNORED else r
  if expectedFail ∧ (r = .OK ∨ r = .FAIL) then (if r = .OK then .UNEXPECTEDPASS else .EXPECTEDFAIL) else r

/-- final `TestRun.res` of a started (`RUNNING`) TAP test -/
def verdict (expectedFail interactive : Bool) (returncode : Int) (evs : List Event) : TestResult :=
  completeRes expectedFail interactive returncode (parseRes .RUNNING evs)

end MesonModel.Tap
