/-
Lemmas about the verdict fold of `TestRunTAP.parse` / `complete`.
-/
import MesonModel.Tap.Lemmas

namespace MesonModel.Tap

/-- the subtest is reported with a bad status -/
def isBadTest : Event → Bool
  | .test _ _ r _ => r.isBad
  | _ => false

def hasBadSubtest (evs : List Event) : Bool := evs.any isBadTest

/-- some parse error or bail-out event occurred -/
def hasErrorOrBail (evs : List Event) : Bool := evs.any (fun e => isErrorEvent e || isBailEvent e)

/-- events that set the local `res` of `TestRunTAP.parse` -/
def isTrigger (e : Event) : Bool := isBadTest e || isErrorEvent e || isBailEvent e

theorem any_trigger (evs : List Event) :
    evs.any isTrigger = (hasBadSubtest evs || hasErrorOrBail evs) := by
  induction evs with
  | nil => rfl
  | cons e es ih =>
    simp only [List.any_cons, ih, hasBadSubtest, hasErrorOrBail, isTrigger]
    cases isBadTest e <;> cases isErrorEvent e <;> cases isBailEvent e <;> simp

theorem foldRes_none (r : Option TestResult) (evs : List Event) :
    foldRes r evs = none ↔ (r = none ∧ evs.any isTrigger = false) := by
  induction evs generalizing r with
  | nil => simp [foldRes]
  | cons e es ih =>
    cases e with
    | bailout m => simp [foldRes, ih, isTrigger, isBailEvent]
    | error x => simp [foldRes, ih, isTrigger, isErrorEvent]
    | test n nm res ex =>
      cases hb : res.isBad <;> simp [foldRes, ih, hb, isTrigger, isBadTest, isErrorEvent, isBailEvent]
    | plan p => simp [foldRes, ih, isTrigger, isBadTest, isErrorEvent, isBailEvent]
    | unknown m n => simp [foldRes, ih, isTrigger, isBadTest, isErrorEvent, isBailEvent]
    | version v => simp [foldRes, ih, isTrigger, isBadTest, isErrorEvent, isBailEvent]

theorem foldRes_some (r : Option TestResult) (evs : List Event) (x : TestResult) :
    foldRes r evs = some x → x = .ERROR ∨ x = .FAIL ∨ r = some x := by
  induction evs generalizing r with
  | nil => intro h; simp [foldRes] at h; simp [h]
  | cons e es ih =>
    cases e with
    | bailout m =>
      intro h; simp only [foldRes] at h
      rcases ih _ h with h | h | h
      · exact Or.inl h
      · exact Or.inr (Or.inl h)
      · simp at h; exact Or.inl h.symm
    | error y =>
      intro h; simp only [foldRes] at h
      rcases ih _ h with h | h | h
      · exact Or.inl h
      · exact Or.inr (Or.inl h)
      · simp at h; exact Or.inl h.symm
    | test n nm res ex =>
      intro h; simp only [foldRes] at h
      cases hb : res.isBad
      · simp [hb] at h; exact ih _ h
      · simp [hb] at h
        rcases ih _ h with h | h | h
        · exact Or.inl h
        · exact Or.inr (Or.inl h)
        · simp at h; exact Or.inr (Or.inl h.symm)
    | plan p => intro h; simp only [foldRes] at h; exact ih _ h
    | unknown m n => intro h; simp only [foldRes] at h; exact ih _ h
    | version v => intro h; simp only [foldRes] at h; exact ih _ h

theorem foldRes_fail (r : Option TestResult) (evs : List Event) :
    foldRes r evs = some .FAIL → r = some .FAIL ∨ hasBadSubtest evs = true := by
  induction evs generalizing r with
  | nil => intro h; simp [foldRes] at h; exact Or.inl h
  | cons e es ih =>
    cases e with
    | bailout m =>
      intro h; simp only [foldRes] at h
      rcases ih _ h with h | h
      · simp at h
      · right; simp [hasBadSubtest] at h ⊢; exact Or.inr h
    | error y =>
      intro h; simp only [foldRes] at h
      rcases ih _ h with h | h
      · simp at h
      · right; simp [hasBadSubtest] at h ⊢; exact Or.inr h
    | test n nm res ex =>
      intro h; simp only [foldRes] at h
      cases hb : res.isBad
      · simp [hb] at h
        rcases ih _ h with h | h
        · exact Or.inl h
        · right; simp [hasBadSubtest] at h ⊢; exact Or.inr h
      · right; simp [hasBadSubtest, isBadTest, hb]
    | plan p =>
      intro h; simp only [foldRes] at h
      rcases ih _ h with h | h
      · exact Or.inl h
      · right; simp [hasBadSubtest] at h ⊢; exact Or.inr h
    | unknown m n =>
      intro h; simp only [foldRes] at h
      rcases ih _ h with h | h
      · exact Or.inl h
      · right; simp [hasBadSubtest] at h ⊢; exact Or.inr h
    | version v =>
      intro h; simp only [foldRes] at h
      rcases ih _ h with h | h
      · exact Or.inl h
      · right; simp [hasBadSubtest] at h ⊢; exact Or.inr h

theorem allSkip_no_bad (evs : List Event) : allSkip evs = true → hasBadSubtest evs = false := by
  induction evs with
  | nil => intro _; rfl
  | cons e es ih =>
    intro h
    simp only [allSkip, List.all_cons, Bool.and_eq_true] at h
    have ih' := ih (by simpa [allSkip] using h.2)
    simp only [hasBadSubtest, List.any_cons] at ih' ⊢
    rw [ih']
    cases e with
    | test n nm res ex =>
      have : res = .SKIP := by simpa using h.1
      subst this; rfl
    | _ => rfl

/-- `self.res` after `TestRunTAP.parse` of a running test: bad exactly when something triggered -/
theorem parseRes_running (evs : List Event) :
    (evs.any isTrigger = true → parseRes .RUNNING evs = .ERROR ∨ parseRes .RUNNING evs = .FAIL) ∧
    (evs.any isTrigger = false → parseRes .RUNNING evs = .SKIP ∨ parseRes .RUNNING evs = .RUNNING) := by
  constructor
  · intro ht
    cases hf : foldRes none evs with
    | none => have := (foldRes_none none evs).mp hf; simp [ht] at this
    | some x =>
      have hx : x = .ERROR ∨ x = .FAIL := by
        rcases foldRes_some none evs x hf with h | h | h
        · exact Or.inl h
        · exact Or.inr h
        · simp at h
      cases hs : allSkip evs
      · rcases hx with hx | hx <;> simp [parseRes, hf, hs, hx]
      · rcases hx with hx | hx
        · simp [parseRes, hf, hs, hx]
        · exfalso
          subst hx
          rcases foldRes_fail none evs hf with h | h
          · simp at h
          · simp [allSkip_no_bad evs hs] at h
  · intro ht
    have hf : foldRes none evs = none := (foldRes_none none evs).mpr ⟨rfl, ht⟩
    cases hs : allSkip evs <;> simp [parseRes, hf, hs]

end MesonModel.Tap
