/-
Second part of the TAP model (core Lean only; compiled into `mvdriver-tap`):

* **fresh parsers and sessions** — `TAPParser` has no `__init__`: every attribute of a new instance is read
  from the class body until the instance assigns it through `self`.  `Proc` is the part of the interpreter
  process that TAP parsing can see: the class-body attributes (`cls`) and the instances used so far.
  `useFresh` is `list(TAPParser().parse(lines))` in such a process, `session` a sequence of them.
* **the consumer of the events** — `TestRunTAP.parse` (the `async for` over `TAPParser().parse_async`, its
  local `res`, `self.results`, `self.additional_error`, the unknown-line warnings, the `log_subtest` calls)
  and `TestRunTAP.complete` + `TestRun._complete`, written as a state machine over the `TestRun` attributes.
-/
import MesonModel.Tap.Model

namespace MesonModel.Tap
open MesonModel.Py

/-! ### Fresh parser = explicit initial state -/

/-- the events a parser object whose attributes are `s0` yields for `lines` (`parse` = loop + `parse_line(None)`) -/
def parseFrom (s0 : PState) (lines : List (List Char)) : List Event :=
  let r := run s0 lines
  r.2 ++ finish r.1

/-- the attributes a parser object is left with after `parse(lines)` (`parse_line(None)` assigns nothing) -/
def stateAfter (s0 : PState) (lines : List (List Char)) : PState := (run s0 lines).1

/-- what TAP parsing can see of the interpreter process -/
structure Proc where
  /-- class-body attributes of `TAPParser` (what `TAPParser()` reads before it assigns through `self`) -/
  cls : PState := PState.init
  /-- instance attributes of the parsers used so far, most recent first -/
  used : List PState := []
  deriving Repr

/-- the process right after `import mesonbuild.mtest` -/
def Proc.boot : Proc := {}

/-- `list(TAPParser().parse(lines))` in process `p`: the new instance starts from the class attributes and
every assignment of `parse_line` goes to the instance -/
def useFresh (p : Proc) (lines : List (List Char)) : Proc × List Event :=
  ({ p with used := stateAfter p.cls lines :: p.used }, parseFrom p.cls lines)

/-- one stream after the other, each through a fresh parser, in one process -/
def session (p : Proc) : List (List (List Char)) → Proc × List (List Event)
  | [] => (p, [])
  | s :: ss =>
    let r := useFresh p s
    let r' := session r.1 ss
    (r'.1, r.2 :: r'.2)

/-- a second `parse` on the SAME parser object (meson never does this; compared with the code anyway) -/
def reuse (first second : List (List Char)) : List Event :=
  parseFrom (stateAfter PState.init first) second

/-! ### `TestRunTAP`: the consumer of the events -/

inductive WarnTrailer | none | ignored | probablyBug
  deriving DecidableEq, Repr

/-- the attributes of a `TestRunTAP` object that `parse` / `complete` read or write, plus the locals of `parse` -/
structure RunTAP where
  /-- `self.res` -/
  res : TestResult := .RUNNING
  /-- `self.results` (only `test` events are ever appended) -/
  results : List Event := []
  /-- the messages appended to `self.additional_error` ("TAP parsing error: …"), in order -/
  errs : List Err := []
  /-- local `warnings`: the unknown lines -/
  warns : List (List Char × Nat) := []
  /-- the calls `harness.log_subtest(self, s, res, explanation)` -/
  logged : List (List Char × TestResult × Option (List Char)) := []
  /-- local `version` -/
  version : Nat := 12
  /-- local `res` -/
  localRes : Option TestResult := none
  /-- which trailer `parse` appended after the unknown-line warnings -/
  trailer : WarnTrailer := .none
  /-- `complete` appended "(test program exited with status code N)" to `self.stde` -/
  exitNote : Bool := false
  deriving Repr

/-- `i.name or f'subtest {i.number}'` -/
def subtestLabel (n : Nat) (name : List Char) : List Char :=
  if name.isEmpty then "subtest ".toList ++ (Nat.repr n).toList else name

/-- one iteration of the `async for i in TAPParser().parse_async(lines)` loop -/
def consumeEv (t : RunTAP) : Event → RunTAP
  | .version v => { t with version := v }
  | .bailout m => { t with localRes := some .ERROR, logged := t.logged ++ [(m, .ERROR, none)] }
  | .test n name r e =>
    { t with results := t.results ++ [.test n name r e],
             localRes := if r.isBad then some .FAIL else t.localRes,
             logged := t.logged ++ [(subtestLabel n name, r, e)] }
  | .unknown m l => { t with warns := t.warns ++ [(m, l)] }
  | .error e => { t with errs := t.errs ++ [e], localRes := some .ERROR }
  | .plan _ => t

def errOf : Event → Option Err
  | .error x => some x
  | _ => none

def unknownOf : Event → Option (List Char × Nat)
  | .unknown m l => some (m, l)
  | _ => none

def isSkipTest : Event → Bool
  | .test _ _ r _ => r == .SKIP
  | _ => true

/-- the part of `TestRunTAP.parse` after the loop -/
def endParse (t : RunTAP) : RunTAP :=
  let trailer := if t.warns.isEmpty then WarnTrailer.none
                 else if t.version > 13 then .ignored else .probablyBug
  let l := if t.results.all isSkipTest then (if t.localRes = some .ERROR then t.localRes else some .SKIP)
           else t.localRes
  let res := match l with
    | some r => if t.res = .RUNNING then r else t.res
    | none => t.res
  { t with trailer := trailer, localRes := l, res := res }

/-- `TestRunTAP.parse` on the events `evs` for a test whose `res` is `res0` when parsing ends -/
def parseTAP (res0 : TestResult) (evs : List Event) : RunTAP :=
  endParse (evs.foldl consumeEv { res := res0 })

/-- `TestRunTAP.complete` followed by `TestRun._complete` -/
def completeTAP (expectedFail interactive : Bool) (returncode : Int) (t : RunTAP) : RunTAP :=
  let note := decide (returncode ≠ 0) && !t.res.isBad
  let r := if note then .ERROR else t.res
  let r := if r = .RUNNING then .OK else r
  let r := if interactive then .IGNORED else r
  let r := if expectedFail ∧ (r = .OK ∨ r = .FAIL) then (if r = .OK then .UNEXPECTEDPASS else .EXPECTEDFAIL) else r
  { t with res := r, exitNote := note }

/-- a whole TAP test: parse the events, then complete with the exit status -/
def runTAP (expectedFail interactive : Bool) (returncode : Int) (res0 : TestResult) (evs : List Event) : RunTAP :=
  completeTAP expectedFail interactive returncode (parseTAP res0 evs)

/-- `TestRun.get_results`: (passed, ran) over `self.results` -/
def passedRan (t : RunTAP) : Nat × Nat :=
  (t.results.countP (fun e => match e with | .test _ _ r _ => r.isOk | _ => false),
   t.results.countP (fun e => match e with | .test _ _ r _ => !(r == .SKIP || r == .IGNORED) | _ => false))

/-! ### Classification rule (specification) -/

/-- what an event does to the local `res` of `TestRunTAP.parse` -/
inductive Trigger | fail | error
  deriving DecidableEq, Repr

def triggerOf : Event → Option Trigger
  | .test _ _ r _ => if r.isBad then some .fail else none
  | .error _ => some .error
  | .bailout _ => some .error
  | _ => none

/-- the last event of the list that is a failed / unexpectedly passed subtest, an error or a bail-out -/
def lastTrigger : List Event → Option Trigger
  | [] => none
  | e :: es =>
    match lastTrigger es with
    | some t => some t
    | none => triggerOf e

/-- the classification rule: the final result of an ordinary (not `should_fail`, not interactive) TAP test -/
def specVerdict (evs : List Event) (rc : Int) : TestResult :=
  match lastTrigger evs with
  | some .fail => .FAIL
  | some .error => .ERROR
  | none => if rc ≠ 0 then .ERROR else if allSkip evs then .SKIP else .OK

end MesonModel.Tap
