import MesonModel.Fmt.Lemmas
import MesonModel.Fmt.LayoutLemmas
import MesonModel.Fmt.SortKey
import MesonModel.Generated.FmtTables
/-
C16 — `meson format` preserves meaning and comments and is idempotent.

What is proved here, for all inputs, are the *pure rewriting decisions* of mformat.py (string-literal
simplification, `files([...])` flattening, `sort_files` ordering) and the facts that make skeleton equality
the right notion of "same program up to trivia".  The whitespace-moving passes are validated per
(input, configuration) pair by the translation-validation run (`harness/c16.py`), whose Lean-side
checker is `sameProgram` / `sameComments` from `MesonModel/Fmt/Tree.lean`.
-/
namespace MesonModel.Props.C16
open MesonModel.Fmt MesonModel.Generated.FmtTables

/-! ### string-literal simplification -/

/-- the full statement for a given excluded-character list / f-string marker list: every string token the
lexer can produce keeps its denotation (and still lexes) after `visit_StringNode` -/
def simplify_preserves_denotation_statement (excl fmark : List Char) : Prop :=
  ∀ (raw : List Char) (multi fstr : Bool), (multi = false → plainLexable raw = true) →
    Preserves excl fmark (parseStr raw multi fstr)

/-- **general theorem**: for every excluded list that contains the quote and the backslash and EVERY
placeholder recogniser that accepts at least the values the interpreter substitutes into (`hasSubst` =
the regex `@([_a-zA-Z][_0-9a-zA-Z]*)@` of `InterpreterBase.evaluate_fstring`), every string token keeps its
denotation.  A recogniser that forgets part of the identifier grammar (e.g. a leading `_`) is not covered —
and is in fact wrong, see `recogniser_counterexample`. -/
theorem simplify_preserves_denotation_recogniser (excl : List Char) (keep : List Char → Bool)
    (hq : '\'' ∈ excl) (hb : '\\' ∈ excl) (hk : ∀ v, hasSubst v = true → keep v = true)
    (raw : List Char) (multi fstr : Bool) (hlex : multi = false → plainLexable raw = true) :
    PreservesWith excl keep (parseStr raw multi fstr) := by
  have h1 := simplifyMulti_denote excl hq hb raw multi fstr hlex
  have hc := consistent_simplifyMulti excl _ (consistent_parseStr raw multi fstr)
  have h2 := simplifyFWith_denote keep hk _ hc
  have e : simplifyWith excl keep true (parseStr raw multi fstr) =
      simplifyFWith keep (simplifyMulti excl (parseStr raw multi fstr)) := by simp [simplifyWith]
  unfold PreservesWith
  rw [e]
  refine ⟨fun hm => ?_, ?_⟩
  · rw [h2.2.2]
    exact h1.2 (by rw [← h2.2.1]; exact hm)
  · rw [h2.1, h1.1]

/-- a recogniser that only knows identifiers starting with a letter drops the `f` of `f'lib-@_name@.so'`,
which the interpreter does substitute into: the hypothesis on the recogniser cannot be weakened to
"accepts letter-initial placeholders" -/
theorem recogniser_counterexample :
    ¬ PreservesWith ['\n', '\'', '\\']
        (fun v => v.any (fun c => c == '@') && (match v.dropWhile (fun c => c != '@') with
                                                 | _ :: c :: _ => MesonModel.Py.isAlpha c
                                                 | _ => false))
        (parseStr "lib-@_name@.so".toList false true) := by
  intro h
  have := h.2
  revert this
  decide

/-- **full theorem** for the recogniser as coded (`'@' in value`), for every excluded list that contains the
quote and the backslash and every marker list that contains `@` (the list of the repair `['\n', "'", '\\']`) -/
theorem simplify_preserves_denotation (excl fmark : List Char)
    (hq : '\'' ∈ excl) (hb : '\\' ∈ excl) (hat : '@' ∈ fmark) :
    simplify_preserves_denotation_statement excl fmark := by
  intro raw multi fstr hlex
  have h := simplify_preserves_denotation_recogniser excl (markerKeep fmark) hq hb
    (markerKeep_of_hasSubst fmark hat) raw multi fstr hlex
  simpa [PreservesWith, Preserves, simplifyWith, simplify, simplifyF] using h

/-- obligations on the live tables (regenerated from /repo on every run) under which the full theorem
applies to the code as it is now -/
theorem live_excluded_has_quote : '\'' ∈ simplifyExcluded := by decide
theorem live_excluded_has_backslash : '\\' ∈ simplifyExcluded := by decide
theorem live_markers_have_at : '@' ∈ fstringMarkers := by decide

/-- the live formatter keeps the `f` on every probed placeholder shape that the interpreter substitutes into
(plain literal: after escape decoding; triple-quoted: verbatim).  Shapes cover the identifier grammar
(leading `_`, digits inside, single letter), adjacent placeholders and near misses. -/
def shapesOk (t : List (List Nat × Bool × Bool)) : Bool :=
  t.all (fun e =>
    let v := e.1.map Char.ofNat
    (!hasSubst (decodeEscapes v) || e.2.1) && (!hasSubst v || e.2.2))

/-- first shape on which the live recogniser is too narrow (evaluated by the harness when the obligation fails) -/
def shapesWitness (t : List (List Nat × Bool × Bool)) : Option (List Nat) :=
  (t.find? (fun e =>
    let v := e.1.map Char.ofNat
    !((!hasSubst (decodeEscapes v) || e.2.1) && (!hasSubst v || e.2.2)))).map (·.1)

theorem live_fstring_shapes_ok : shapesOk fstringShapes = true := by decide

/-- **the property's string clause for the code as it is**: with the regenerated tables (excluded list
`['\n', "'", '\\']` since the repair of F-FMT-BACKSLASH, marker `@`) every string token the lexer can produce
still lexes and denotes the same string after `TrimWhitespaces.visit_StringNode` -/
theorem simplify_live : simplify_preserves_denotation_statement simplifyExcluded fstringMarkers :=
  simplify_preserves_denotation _ _ live_excluded_has_quote live_excluded_has_backslash live_markers_have_at

/-- non-vacuity: the rule does fire (`f'''a b.c'''` becomes `'a b.c'`) and does not fire on a backslash -/
example : (simplify simplifyExcluded fstringMarkers true (parseStr "a b.c".toList true true)) =
    { raw := "a b.c".toList, value := "a b.c".toList, multi := false, fstr := false } := by decide
example : (simplify simplifyExcluded fstringMarkers true (parseStr "a\\nb".toList true false)).multi = true := by decide

/-! ### `files([...])` flattening -/

/-- when one turn of the rewrite applies, the call was `files(<one array, no keywords>)`, none of the whitespace
nodes that disappear (brackets, array, outer argument list, outer commas) holds a comment, and the new
call has exactly the array's argument-list node as its argument list -/
theorem files_flatten_same_args (t t' : Tree) (h : flattenStep t = some t') :
    ∃ fl tx nm lp afl atx akids aws rp ws k1 k2 lb inner rb k3,
      t = .node .func fl tx [nm, lp, .node .args afl atx akids aws, rp] ws ∧
      positional akids = [.node .array k1 k2 [lb, inner, rb] k3] ∧ (keywords akids).isEmpty = true ∧
      (blankWs lb = true ∧ blankWs rb = true ∧ noComment k3 = true ∧
        noComment aws = true ∧ (commasOf akids).all blankWs = true) ∧
      t' = .node .func fl tx [nm, lp, inner, rp] ws := by
  unfold flattenStep at h
  split at h
  · rename_i fl tx nm lp afl atx akids aws rp ws
    split at h
    · split at h
      · rename_i hcond
        split at h
        · rename_i k1 k2 lb inner rb k3 hpos
          split at h
          · rename_i hblank
            simp only [Bool.and_eq_true] at hblank
            simp at h
            exact ⟨fl, tx, _, lp, afl, atx, akids, aws, rp, ws, k1, k2, lb, inner, rb, k3, rfl, hpos, hcond.2,
              ⟨hblank.1.1.1.1.1.1, hblank.1.1.1.1.1.2, hblank.1.1.1.1.2, hblank.1.1.1.2, hblank.1.1.2⟩, h.symm⟩
          · simp at h
        · simp at h
      · simp at h
    · simp at h
  · simp at h

/-- a whitespace value that passes the guard of the rewrite holds no comment: dropping it loses none
(`commentsOf` finds a comment only at a `#`) -/
theorem commentsOfAux_no_hash (w : List Char) (hm : '#' ∉ w) : commentsOfAux w none = [] := by
  induction w with
  | nil => rfl
  | cons c rest ih =>
    have hc : c ≠ '#' := fun e => hm (by simp [e])
    have hr : '#' ∉ rest := fun m => hm (List.mem_cons_of_mem _ m)
    simp only [commentsOfAux, hc, if_false]
    exact ih hr

theorem noComment_commentsOf (w : List Char) (h : noComment w = true) : commentsOf w = [] :=
  commentsOfAux_no_hash w (by simpa [noComment] using h)

/-- flattening does not change the erased program beyond replacing the one-array argument list by the
array's own argument list: the function name and everything outside the call are untouched -/
theorem files_flatten_erase (fl : Nat) (tx : List Char) (nm lp inner rp : Tree) (ws : List Char) :
    erase (.node .func fl tx [nm, lp, inner, rp] ws) =
      [.node .func false tx (erase nm ++ erase lp ++ erase inner ++ erase rp)] := by
  simp [erase, eraseList]

/-! ### `sort_files` -/

/-- sorting is a permutation of the arguments (for every key function) -/
theorem sort_is_permutation {α : Type} (key : α → List Nat) (l : List α) : (sortByKey key l).Perm l :=
  List.mergeSort_perm l _

/-- the result is ordered by the key -/
theorem sort_sorted {α : Type} (key : α → List Nat) (l : List α) :
    (sortByKey key l).Pairwise (fun a b => keyLe (key a) (key b) = true) :=
  List.pairwise_mergeSort (fun a b c => keyLe_trans (key a) (key b) (key c))
    (fun a b => keyLe_total (key a) (key b)) l

/-- sorting twice is sorting once -/
theorem sort_idempotent {α : Type} (key : α → List Nat) (l : List α) :
    sortByKey key (sortByKey key l) = sortByKey key l :=
  List.mergeSort_of_pairwise (sort_sorted key l)

/-- non-vacuity: the natural order `d/a < a9 < a10 < b` (directories first, digit runs by value) is a fixed point -/
example : sortByKey (fun s => argKey (some s)) ["d/a".toList, "a9".toList, "a10".toList, "b".toList] =
    ["d/a".toList, "a9".toList, "a10".toList, "b".toList] :=
  List.mergeSort_of_pairwise (by decide)
example : keyLe (pathKey "a10".toList) (pathKey "a9".toList) = false := by decide

/-! ### skeleton equality ignores trivia -/

/-- rewriting every whitespace node (spaces, newlines, comments, continuations) arbitrarily does not
change the erased program -/
theorem erase_ignores_whitespace (f : List Char → List Char) (t : Tree) : erase (mapWs f t) = erase t :=
  erase_mapWs f t

/-- a punctuation symbol contributes nothing, so a redundant trailing comma is invisible -/
theorem erase_ignores_trailing_comma (k : Kind) (fl fl' : Nat) (tx tx' : List Char) (kids kids' : List Tree)
    (ws ws' : List Char) (hk : k ≠ .symbol ∧ k ≠ .pre ∧ k ≠ .paren ∧ k ≠ .string ∧ k ≠ .number) :
    erase (.node k fl tx (kids ++ [.node .symbol fl' tx' kids' ws']) ws) = erase (.node k fl tx kids ws) := by
  obtain ⟨h1, h2, h3, h4, h5⟩ := hk
  simp [erase, h1, h2, h3, h4, h5, eraseList_append, eraseList]

/-- parentheses are transparent: `( e )` erases to what `e` erases to -/
theorem erase_ignores_parentheses (fl fl1 fl2 : Nat) (tx t1 t2 : List Char) (k1 k2 : List Tree)
    (inner : Tree) (ws w1 w2 : List Char) :
    erase (.node .paren fl tx [.node .symbol fl1 t1 k1 w1, inner, .node .symbol fl2 t2 k2 w2] ws) = erase inner := by
  simp [erase, eraseList]

/-- the checker is reflexive on programs (sanity: a formatter that returns its input passes) -/
theorem sameProgram_refl (s : Bool) (t : Tree) : sameProgram s t t = true := by
  simp [sameProgram]

theorem sameProgram_ignores_whitespace (s : Bool) (f : List Char → List Char) (t : Tree) :
    sameProgram s t (mapWs f t) = true := by
  simp [sameProgram, erase_mapWs]

/-! ### argument-list layout (`MesonModel/Fmt/Layout.lean`)

The layout decision of the three formatter passes on abstract argument lists: `files([...])` flattening,
`sort_files`, the multi-line detector (comment, triple-quoted string that stays, trailing comma except the one
`no_single_comma_function` removes, `kwargs_force_multiline`), the trailing-comma rule.  Quantified over every
node (calls, method calls, arrays, dicts, nested to any depth) and every configuration; the tie to the real
formatter is the `layout` correspondence stream of `harness/c16.py` (model of the abstracted input = abstraction of
the real output, layout included).  Line-length splitting is outside this model. -/

open MesonModel.Fmt.Layout in
/-- **idempotence of the layout**: formatting a formatted argument list changes nothing — items, order, trailing
commas — for every node and every configuration -/
theorem layout_idempotent (cfg : Cfg) (n : Node) : fmt cfg (fmt cfg n) = fmt cfg n :=
  fmt_idempotent cfg n

open MesonModel.Fmt.Layout in
/-- **the layout decided is the layout read back**: `is_multiline` as `TrimWhitespaces` decides it in the run that
formats the text (detector on the not yet formatted items of the flattened list) is what the detector says on the
formatted list, i.e. what a second run decides.  This is the statement that failed before the repairs e587c4a /
f78386e (`g(files([x,]))` with `no_single_comma_function`). -/
theorem layout_decided_is_read_back (cfg : Cfg) (c : Cont) (co : Bool) (items : List Node) (tr ci : Bool) :
    decided cfg c co items tr ci = multiline cfg (fmt cfg (.coll c items tr ci co)) := by
  simp only [multiline, fmt]; exact decided_eq_readback cfg c co items tr ci

open MesonModel.Fmt.Layout in
/-- a second run therefore lays every list out as the first did -/
theorem layout_second_run_same_layout (cfg : Cfg) (c : Cont) (co : Bool) (items : List Node) (tr ci : Bool) :
    multiline cfg (fmt cfg (fmt cfg (.coll c items tr ci co))) = decided cfg c co items tr ci := by
  rw [layout_idempotent, layout_decided_is_read_back]

open MesonModel.Fmt.Layout in
/-- **the argument sequence is preserved up to the documented rewrites**: the leaves of the formatted node are a
permutation of the leaves of the node (flattening keeps them all; only `sort_files` moves any) -/
theorem layout_preserves_arguments (cfg : Cfg) (n : Node) : (leaves (fmt cfg n)).Perm (leaves n) :=
  ((leaves_fmt_both cfg).1 n).1

open MesonModel.Fmt.Layout in
/-- … and with `sort_files` off it is the same sequence -/
theorem layout_preserves_argument_order (cfg : Cfg) (h : cfg.sortFiles = false) (n : Node) :
    leaves (fmt cfg n) = leaves n :=
  ((leaves_fmt_both cfg).1 n).2 h

open MesonModel.Fmt.Layout in
/-- formatting creates no reason for a multi-line layout of the enclosing list, and with
`no_single_comma_function` loses none -/
theorem layout_detector_stable (cfg : Cfg) (h : cfg.noSingle = true) (n : Node) :
    det cfg false (fmt cfg n) = det cfg false n := by
  cases hd : det cfg false n with
  | true => exact detB cfg n h hd
  | false =>
    cases hf : det cfg false (fmt cfg n) with
    | true => rw [detA cfg n hf] at hd; exact absurd hd (by simp)
    | false => rfl

/-- non-vacuity: `g(files([x,]))` with `no_single_comma_function` becomes `g(files(x))` on one line; without the
option the dropped comma makes the call multi-line and the added trailing comma keeps it so -/
example : Layout.fmt ⟨false, true, false, true⟩
    (.coll .func [.coll .files [.coll .array [.leaf 0] true false false] false false false] false false false) =
    .coll .func [.coll .files [.leaf 0] false false false] false false false := by
  simp [Layout.fmt, Layout.fmtArgs, Layout.fmtL, Layout.build, Layout.det, Layout.detL, Layout.continues, Layout.decided,
    Layout.trailingAfter, Layout.sortIf, Layout.hasCmtL, Layout.hasCmt, Layout.hasKw, Layout.isKw, Layout.isFn]
example : Layout.fmt ⟨false, false, false, true⟩
    (.coll .func [.coll .files [.coll .array [.leaf 0, .leaf 1] false false false] true false false] false false false) =
    .coll .func [.coll .files [.leaf 0, .leaf 1] false false false] true false false := by
  simp [Layout.fmt, Layout.fmtArgs, Layout.fmtL, Layout.build, Layout.det, Layout.detL, Layout.continues, Layout.decided,
    Layout.trailingAfter, Layout.sortIf, Layout.hasCmtL, Layout.hasCmt, Layout.hasKw, Layout.isKw, Layout.isFn]
example : Layout.decided ⟨false, false, false, true⟩ .func false
    [.coll .files [.coll .array [.leaf 0, .leaf 1] false false false] true false false] false false = true := by
  simp [Layout.fmt, Layout.fmtArgs, Layout.fmtL, Layout.build, Layout.det, Layout.detL, Layout.continues, Layout.decided,
    Layout.trailingAfter, Layout.sortIf, Layout.hasCmtL, Layout.hasCmt, Layout.hasKw, Layout.isKw, Layout.isFn]

/-! ### the key of `sort_files` never fails to compare (`MesonModel/Fmt/SortKey.lean`)

`pathname_sort_key` yields tuples of `int | str`; Python raises TypeError on `int < str`.  With the key as coded
(model shared with C17: `MesonModel.Rewrite.pathKey`) no two names ever get there, so `meson format` with
`sort_files` cannot die in the sort whatever the file names. -/

/-- **every pair of keys is comparable**: `pathname_sort_key(a) < pathname_sort_key(b)` never raises -/
theorem sort_key_comparison_never_fails (a b : List Char) : (SortKey.pathLt? a b).isSome = true :=
  SortKey.pathLt?_never_fails a b

/-- … and its value is the order of the C17 model of the same function (one model of the key, two users) -/
theorem sort_key_order_is_rewriter_order (a b : List Char) :
    SortKey.pathLt? a b = some (MesonModel.Rewrite.pathKeyLt a b) :=
  SortKey.pathLt?_eq a b

/-- a name is never smaller than itself: with a stable sort the result is a function of the keys -/
theorem sort_key_irreflexive (a : List Char) : SortKey.pathLt? a a = some false :=
  SortKey.pathLt?_irrefl a

/-- non-vacuity: the pairs on which a chunking without the empty texts fails — digit-leading against
letter-leading component — compare: numbers come first (`'' < 'main'`) -/
example : SortKey.pathLt? "7zip.c".toList "main.c".toList = some true := by decide
example : SortKey.pathLt? "src/main.c".toList "3rdparty/zlib/inflate.c".toList = some false := by decide

end MesonModel.Props.C16
