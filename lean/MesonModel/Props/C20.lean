/-
C20 — Cargo version requirements and cfg() expressions mean what Cargo says.
Property theorems only; helper lemmas live in `MesonModel/Cargo/*Lemmas.lean`, the independent
specification in `MesonModel/Cargo/Spec.lean`.
-/
import MesonModel.Cargo.SemverLemmas
import MesonModel.Cargo.CfgLemmas
import MesonModel.Cargo.BridgeLemmas
import MesonModel.Cargo.LexLemmas
import MesonModel.Cargo.CacheLemmas
import MesonModel.Cargo.CfgTableLemmas
import MesonModel.Generated.CargoCache

namespace MesonModel.Props.C20
open MesonModel.Cargo MesonModel.Cargo.Spec

/-! ## Requirements on release versions -/

/-- For every tag-free comparator with 1–3 components (all eight forms) and every release version,
what `cargo_parse` computes is Cargo's rule with the two pinned deviations. -/
theorem cargo_eq_spec (op : ReqOp) (cs : List Nat) (v : V)
    (h1 : 1 ≤ cs.length) (h3 : cs.length ≤ 3) (hw : op = .wildcard → cs.length ≤ 2) :
    compareWith (constraintsOf (toModelOp op) (SemVer.ofComps cs)) false (release v) = true ↔
      pinnedRule op cs v :=
  matches_iff op cs v h1 h3 hw

example : compareWith (constraintsOf (toModelOp .caret) (SemVer.ofComps [0, 2])) false (release (0, 2, 9)) = true := by
  decide
example : pinnedRule .caret [0, 2] (0, 2, 9) := by simp [pinnedRule, cargoRule, tle, tlt]

/-- the same on text: requirement `op I[.J[.K]]` and version `X.Y.Z` written as ASCII digit runs -/
theorem cargo_eq_spec_text (op : ReqOp) (ds : List (List Char)) (x y z : List Char)
    (h1 : 1 ≤ ds.length) (h3 : ds.length ≤ 3) (hw : op = .wildcard → ds.length ≤ 2)
    (hd : ∀ d, d ∈ ds → IsNum d) (hx : IsNum x) (hy : IsNum y) (hz : IsNum z) :
    compareWith (constraintsOf (toModelOp op) (SemVer.parse (dotted ds))) false
        (SemVer.parse (dotted [x, y, z])) = true ↔
      pinnedRule op (ds.map MesonModel.Py.natOfDigits)
        (MesonModel.Py.natOfDigits x, MesonModel.Py.natOfDigits y, MesonModel.Py.natOfDigits z) := by
  rw [parse_dotted ds h1 h3 hd,
    parse_dotted [x, y, z] (by simp) (by simp) (by intro d hd'; simp at hd'; rcases hd' with rfl | rfl | rfl <;> assumption)]
  simp only [List.map, ofComps_three]
  exact matches_iff op _ _ (by simpa using h1) (by simpa using h3) (by simpa using hw)

example : IsNum "10".toList ∧ dotted ["1".toList, "2".toList] = "1.2".toList := by
  refine ⟨⟨by decide, by decide⟩, by decide⟩

/-- outside the two named deviation clauses the pinned rule *is* Cargo's rule -/
theorem pinned_eq_cargo_off_deviations (op : ReqOp) (cs : List Nat) (v : V)
    (h : deviates op cs = false) : pinnedRule op cs v ↔ cargoRule op cs v := by
  unfold pinnedRule
  split <;> simp_all [deviates]

/-- the deviations are real: Cargo reads `=1` as `>=1.0.0, <2.0.0`, the project as `=1.0.0` -/
theorem deviation_exact_witness : cargoRule .exact [1] (1, 5, 0) ∧ ¬ pinnedRule .exact [1] (1, 5, 0) := by
  simp [cargoRule, pinnedRule, tle, tlt]

theorem deviation_caret_witness : ¬ cargoRule .caret [0, 0] (0, 5, 0) ∧ pinnedRule .caret [0, 0] (0, 5, 0) := by
  simp [cargoRule, pinnedRule, tle, tlt]

/-- a comma list is the conjunction of its comparators (release versions) -/
theorem comma_is_conjunction (c1 c2 : List (Op × List Char)) (ver : List Char)
    (hv : (SemVer.parse ver).hasPre = false) :
    matchSplit (c1 ++ c2) ver = (matchSplit c1 ver && matchSplit c2 ver) := by
  simp [matchSplit_release _ _ hv, List.map_append, List.flatMap_append, List.all_append]

/-- `split` cuts at every comma -/
theorem split_at_commas (a b : List Char) :
    splitOnChar ',' (a ++ ',' :: b) = splitOnChar ',' a ++ splitOnChar ',' b :=
  splitOnChar_append ',' a b

/-- `*` accepts exactly the versions without a pre-release tag -/
theorem star_matches_all_releases (ver : List Char) :
    cargoParse ['*'] ver = !(SemVer.parse ver).hasPre := by
  have : split ['*'] = [] := by decide
  simp [cargoParse, this, matchSplit]

example : cargoParse ['*'] "99.99".toList = true ∧ cargoParse ['*'] "1.0.0-alpha".toList = false := by decide

/-- `I.*` and `I.J.*` are canonicalised to the tilde form -/
theorem wildcard_is_tilde_examples :
    split "1.*".toList = split "~1".toList ∧ split "2.3.*".toList = split "~2.3".toList ∧
    split " 10.* ".toList = split "~ 10".toList := by decide

/-! ## SemVer section 11 order -/

/-- exactly one of `<`, `==`, `>` holds, for every pair of component lists (hence every pair of strings) -/
theorem trichotomy (a b : List Comp) :
    (vlt a b = true ∧ veq a b = false ∧ vgt a b = false) ∨
    (vlt a b = false ∧ veq a b = true ∧ vgt a b = false) ∨
    (vlt a b = false ∧ veq a b = false ∧ vgt a b = true) := by
  have ht := Lt.total a b
  have e1 : vlt a b = decide (Lt a b) := by rw [Bool.eq_iff_iff, vlt_iff]; simp
  have e2 : vgt a b = decide (Lt b a) := by rw [Bool.eq_iff_iff, vgt_iff]; simp
  have e3 : veq a b = decide (a = b) := rfl
  rw [e1, e2, e3]
  by_cases h1 : Lt a b <;> by_cases h2 : a = b <;> by_cases h3 : Lt b a <;>
    simp_all [Lt.irrefl] <;> exact absurd h3 (Lt.asymm h1)

theorem lt_trans (a b c : List Comp) : vlt a b = true → vlt b c = true → vlt a c = true := by
  simp only [vlt_iff]; exact Lt.trans

theorem le_trans (a b c : List Comp) : vle a b = true → vle b c = true → vle a c = true := by
  simp only [vle_iff]
  intro h1 h2 h3
  rcases Lt.total a b with h | h | h
  · exact h2 (Lt.trans h3 h)
  · subst h; exact h2 h3
  · exact h1 h

theorem le_iff_lt_or_eq (a b : List Comp) : vle a b = true ↔ (vlt a b = true ∨ veq a b = true) := by
  simp only [vle_iff, vlt_iff, veq_iff]
  have := Lt.total a b
  constructor
  · intro h; rcases this with h' | h' | h' <;> simp_all
  · rintro (h | h)
    · exact Lt.asymm h
    · subst h; exact Lt.irrefl a

theorem ge_iff_gt_or_eq (a b : List Comp) : vge a b = true ↔ (vgt a b = true ∨ veq a b = true) := by
  simp only [vge_iff, vgt_iff, veq_iff]
  have := Lt.total a b
  constructor
  · intro h; rcases this with h' | h' | h' <;> simp_all
  · rintro (h | h)
    · exact Lt.asymm h
    · subst h; exact Lt.irrefl a

theorem ne_iff_not_eq (a b : List Comp) : vne a b = !veq a b := rfl

theorem lt_iff_gt_swap (a b : List Comp) : vlt a b = vgt b a := by
  rw [Bool.eq_iff_iff, vlt_iff, vgt_iff]

/-- 11.3: a pre-release is below its release, whatever the identifiers -/
theorem prerelease_below_release (a b c : Int) (pre : List Comp) :
    vlt ([.int a, .int b, .int c, .int (-1)] ++ pre) [.int a, .int b, .int c, .int 0] = true := by
  simp [vlt, vcmp_cons_int]

/-- 11.4.3: at the first differing position a numeric identifier is below an alphanumeric one -/
theorem numeric_below_alnum (p r1 r2 : List Comp) (n : Int) (s : List Char) :
    vlt (p ++ .int n :: r1) (p ++ .str s :: r2) = true := by
  simp only [vlt, vcmp_append]
  simp [vcmp, MesonModel.Version.lexCmp, compCmp]

/-- 11.4.1: numeric identifiers compare numerically -/
theorem numeric_identifiers_numerically (p r1 r2 : List Comp) (m n : Int) (h : m < n) :
    vlt (p ++ .int m :: r1) (p ++ .int n :: r2) = true := by
  simp [vlt, vcmp_append, vcmp_cons_int, h]

/-- 11.4.4: a larger set of pre-release fields is higher when all preceding ones are equal -/
theorem longer_prerelease_higher (p : List Comp) (x : Comp) (r : List Comp) :
    vlt p (p ++ x :: r) = true := by
  have := vcmp_append p [] (x :: r)
  simp only [List.append_nil] at this
  simp [vlt, this, vcmp_nil_cons]

/-- build metadata is ignored: everything from the first `+` on does not reach the component list -/
theorem build_metadata_ignored (s t : List Char) : SemVer.parse (s ++ '+' :: t) = SemVer.parse s :=
  parse_plus s t

/-- On component lists that hold a version the way the specification reads it (numeric identifiers
as ints, alphanumeric ones as strs) the model's `<` is exactly SemVer section 11 precedence. -/
theorem model_order_eq_semver11 (a b : SV) : vlt (encode a) (encode b) = true ↔ Prec a b :=
  encode_lt_iff a b

example : Prec ⟨1, 0, 0, [.alnum "alpha".toList, .num 2]⟩ ⟨1, 0, 0, [.alnum "alpha".toList, .num 10]⟩ := by
  rw [← model_order_eq_semver11]; decide

/-- Parsing a SemVer text `M.m.p[-id.id…][+build]` (digit runs, identifiers over `[0-9A-Za-z-]`,
any build metadata) gives exactly the encoding of its fields as semver.org reads them: digit-only
identifiers numeric, all others alphanumeric, build metadata gone. -/
theorem semver_parse_text (t : SVText) (h : t.wf) : SemVer.parse t.render = ⟨encode t.fields, 3⟩ :=
  parse_render_text t h

/-- The full statement: on SemVer texts the implementation's `<` is section 11 precedence of the
fields. -/
theorem semver11_full_statement (t1 t2 : SVText) (h1 : t1.wf) (h2 : t2.wf) :
    vlt (SemVer.parse t1.render).v (SemVer.parse t2.render).v = true ↔ Prec t1.fields t2.fields := by
  rw [semver_parse_text t1 h1, semver_parse_text t2 h2]
  exact model_order_eq_semver11 _ _

/-- …and `==` is equality of the fields (build metadata plays no part) -/
theorem semver_eq_text (t1 t2 : SVText) (h1 : t1.wf) (h2 : t2.wf) (hf : t1.fields = t2.fields) :
    veq (SemVer.parse t1.render).v (SemVer.parse t2.render).v = true := by
  rw [semver_parse_text t1 h1, semver_parse_text t2 h2, hf]; simp [veq]

/-- 11.3 on text: a pre-release version is below the release with the same core -/
theorem prerelease_below_release_text (t : SVText) (h : t.wf) (hp : t.pre ≠ []) (b : Option (List Char)) :
    vlt (SemVer.parse t.render).v (SemVer.parse ({ t with pre := [], build := b } : SVText).render).v = true := by
  have h' : ({ t with pre := [], build := b } : SVText).wf := ⟨h.1, h.2.1, h.2.2.1, by intro i hi; simp at hi⟩
  rw [semver11_full_statement t _ h h']
  refine Or.inr ⟨rfl, Or.inl ⟨?_, rfl⟩⟩
  simpa [SVText.fields] using hp

example : (⟨"1".toList, "0".toList, "0".toList, ["2".toList], none⟩ : SVText).wf ∧
    (⟨"1".toList, "0".toList, "0".toList, ["2".toList], none⟩ : SVText).render = "1.0.0-2".toList := by
  refine ⟨⟨⟨by decide, by decide⟩, ⟨by decide, by decide⟩, ⟨by decide, by decide⟩, ?_⟩, by decide⟩
  intro i hi; simp at hi; subst hi; exact ⟨by decide, by decide⟩

/-- the orderings that were wrong before the repair of `SemVer.__init__` -/
theorem semver11_examples :
    vlt (SemVer.parse "1.0.0-2".toList).v (SemVer.parse "1.0.0-10".toList).v = true ∧
    vlt (SemVer.parse "1.0.0-1".toList).v (SemVer.parse "1.0.0--".toList).v = true ∧
    vlt (SemVer.parse "1.0.0-alpha.2".toList).v (SemVer.parse "1.0.0-alpha.1a".toList).v = true ∧
    SemVer.parse "1.2.3-rc.1+exp.sha".toList = ⟨encode ⟨1, 2, 3, [.alnum "rc".toList, .num 1]⟩, 3⟩ := by
  decide

/-! ## The pre-release gate -/

/-- a pre-release never satisfies a requirement that names no pre-release (any requirement text,
including `*` and the empty one) -/
theorem prerelease_gate_full (req ver : List Char) (hv : (SemVer.parse ver).hasPre = true)
    (hreq : ∀ c, c ∈ split req → (SemVer.parse c.2).hasPre = false) :
    cargoParse req ver = false := by
  unfold cargoParse matchSplit
  simp only [flatMap_constraints_isEmpty]
  by_cases hne : split req = []
  · simp [hne, hv]
  · have h1 : ((split req).map (fun c => (c.1, SemVer.parse c.2))).isEmpty = false := by
      cases h : split req with
      | nil => exact absurd h hne
      | cons a as => simp
    have h2 : ((split req).map (fun c => (c.1, SemVer.parse c.2))).any (fun c => c.2.hasPre) = false := by
      simp only [List.any_map, List.any_eq_false]
      intro c hc; simpa using hreq c hc
    simp [h1, h2, compareWith, hv]

example : split ">=1.0".toList ≠ [] ∧ (SemVer.parse "2.0.0-pre1".toList).hasPre = true ∧
    (SemVer.parse "1.0".toList).hasPre = false := by decide

/-! ## cfg() expressions -/

/-- every expression of the grammar is parsed back from its token rendering -/
theorem parse_render (e : IR) (hn : namesOk e) : parse (renderTokens e) = .ok e :=
  parse_complete e hn

/-- the parser accepts *only* token lists of the grammar: an accepted list is the rendering of the
returned tree.  (So `all(a b)`, trailing commas, missing parentheses, a string where a name is
expected and trailing tokens are all rejected.) -/
theorem parse_sound (ts : List Token) (e : IR) (h : parse ts = .ok e) :
    ts = renderTokens e ∧ namesOk e :=
  parse_sound' ts e h

/-- the model's recursion fuel is an artefact only: `parse` never runs out of it, so every token
list is either accepted or rejected with one of the implementation's errors -/
theorem parse_total (ts : List Token) : parse ts ≠ .error .fuel := parse_never_out_of_fuel ts

/-- accepted iff in the grammar -/
theorem parse_accepts_iff (ts : List Token) :
    (∃ e, parse ts = .ok e) ↔ (∃ e, namesOk e ∧ ts = renderTokens e) := by
  constructor
  · rintro ⟨e, h⟩; exact ⟨e, (parse_sound ts e h).2, (parse_sound ts e h).1⟩
  · rintro ⟨e, hn, rfl⟩; exact ⟨e, parse_render e hn⟩

example : namesOk (.all [.ident ['a'], .not (.equal ['b'] ['x']), .any []]) := by
  simp [namesOk, namesOkL]

/-- the error a parse ends in, if any -/
def errOf : Except PErr IR → Option PErr
  | .error e => some e
  | .ok _ => none

/-- the malformed shapes named in the property are rejected (each with a `MesonException`) -/
theorem malformed_examples_rejected :
    errOf (parseLexed (lexer "all(a b)".toList)) = some .expectedRParenComma ∧
    errOf (parseLexed (lexer "all(a,)".toList)) = some .unhandled ∧
    errOf (parseLexed (lexer "any(".toList)) = some .malformed ∧
    errOf (parseLexed (lexer "not(a".toList)) = some .malformed ∧
    errOf (parseLexed (lexer "a = b".toList)) = some .expectedString ∧
    errOf (parseLexed (lexer "a b".toList)) = some .trailing ∧
    errOf (parseLexed (lexer "".toList)) = some .malformed ∧
    errOf (parseLexed (lexer "all a".toList)) = some .expectedLParen := by decide

theorem eval_name (cfgs : Cfgs) (n : List Char) :
    evalIR cfgs (.ident n) = true ↔ ∃ kv, kv ∈ cfgs ∧ kv.1 = n := by
  simp [evalIR]

theorem eval_eq (cfgs : Cfgs) (n v : List Char) :
    evalIR cfgs (.equal n v) = true ↔ cfgs.lookup n = some v := by
  simp [evalIR]

theorem eval_not (cfgs : Cfgs) (e : IR) : evalIR cfgs (.not e) = !evalIR cfgs e := by
  simp [evalIR]

theorem eval_any_iff (cfgs : Cfgs) (as : List IR) :
    evalIR cfgs (.any as) = true ↔ ∃ a, a ∈ as ∧ evalIR cfgs a = true := by
  rw [evalIR]; exact evalAny_iff cfgs as

theorem eval_all_iff (cfgs : Cfgs) (as : List IR) :
    evalIR cfgs (.all as) = true ↔ ∀ a, a ∈ as → evalIR cfgs a = true := by
  rw [evalIR]; exact evalAll_iff cfgs as

/-- `eval_cfg` either rejects (error) or returns the value of the tree whose rendering is the
lexed token list — it never evaluates a token list outside the grammar, nor an unterminated literal -/
theorem evalCfg_sound (raw : List Char) (cfgs : Cfgs) (b : Bool) (h : evalCfg raw cfgs = .ok b) :
    (b = false ∧ ¬ (MesonModel.Py.startsWith raw "cfg(".toList && endsWith raw [')']) = true) ∨
    ∃ e, lexer ((raw.drop 4).dropLast) = ⟨renderTokens e, false⟩ ∧ namesOk e ∧ b = evalIR cfgs e := by
  unfold evalCfg at h
  split at h
  · split at h
    · simp at h
    · rename_i ir hp
      simp only [Except.ok.injEq] at h
      unfold parseLexed at hp
      split at hp
      · simp at hp
      · rename_i hu
        cases hl : lexer ((raw.drop 4).dropLast) with
        | mk toks u =>
          rw [hl] at hu hp
          have hs := parse_sound _ _ hp
          simp only [Bool.not_eq_true] at hu
          refine Or.inr ⟨ir, ?_, hs.2, h.symm⟩
          have h1 : toks = renderTokens ir := hs.1
          have h2 : u = false := hu
          rw [h1, h2]
  · rename_i hc
    simp only [Except.ok.injEq] at h
    exact Or.inl ⟨h.symm, by simpa using hc⟩

/-- a string literal that is never closed is rejected -/
theorem unterminated_rejected (raw : List Char) (cfgs : Cfgs)
    (he : (MesonModel.Py.startsWith raw "cfg(".toList && endsWith raw [')']) = true)
    (hu : (lexer ((raw.drop 4).dropLast)).unterminated = true) :
    evalCfg raw cfgs = .error .unterminated := by
  have he' : (MesonModel.Py.startsWith raw ['c', 'f', 'g', '('] && endsWith raw [')']) = true := he
  simp [evalCfg, he', parseLexed, hu]

example : (lexer "\"a".toList).unterminated = true ∧ (lexer "a = \"x\" \"".toList).unterminated = true := by
  decide

/-- The lexer maps the canonical text of every expression — names without separator characters that
are not keywords, values without `"` (blanks, parentheses, commas, `=` allowed) — to the token
rendering of the grammar. -/
theorem lex_render (e : IR) (h : lexOk e) : lexer (renderStr e) = ⟨renderTokens e, false⟩ :=
  lexer_renderStr e h

/-- what the lexer hands to the parser for a quoted literal is the literal, whatever it contains -/
theorem lexer_string_literal_full (v : List Char) (hv : '"' ∉ v) :
    lexer (['a', '=', '"'] ++ v ++ ['"']) = ⟨[.ident ['a'], .equal, .str v], false⟩ := by
  have hn : NameOk ['a'] := ⟨by decide, by decide, by decide, by decide, by decide⟩
  have := lex_render (.equal ['a'] v) ⟨hn, hv⟩
  simpa [renderStr, renderTokens] using this

example : lexer "a = \" x\"".toList = ⟨[.ident ['a'], .equal, .str [' ', 'x']], false⟩ := by decide

/-- end to end: `eval_cfg` of the text of an expression is the value of its structure -/
theorem evalCfg_render (e : IR) (h : lexOk e) (cfgs : Cfgs) :
    evalCfg ("cfg(".toList ++ renderStr e ++ [')']) cfgs = .ok (evalIR cfgs e) := by
  have e1 : "cfg(".toList = ['c', 'f', 'g', '('] := by decide
  have h1 : MesonModel.Py.startsWith (['c', 'f', 'g', '('] ++ renderStr e ++ [')']) ['c', 'f', 'g', '('] = true := by
    simp [MesonModel.Py.startsWith, List.isPrefixOf]
  have h2 : endsWith (['c', 'f', 'g', '('] ++ renderStr e ++ [')']) [')'] = true := by
    simp [endsWith, List.isPrefixOf]
  have h3 : ((['c', 'f', 'g', '('] ++ renderStr e ++ [')']).drop 4).dropLast = renderStr e := by
    simp [List.dropLast_concat]
  rw [e1]
  simp only [evalCfg, h1, h2, Bool.and_self, if_true, h3, lex_render e h, parseLexed,
    Bool.false_eq_true, if_false, parse_render e (lexOk_namesOk e h)]

/-- the lexer on the shapes the project's own tests pin -/
theorem lexer_examples :
    (lexer "all(target_arch = \"x86\", unix)".toList).toks =
      renderTokens (.all [.equal "target_arch".toList "x86".toList, .ident "unix".toList]) ∧
    (lexer "not( any( a ,b ) )".toList).toks = renderTokens (.not (.any [.ident ['a'], .ident ['b']])) := by
  decide

/-! ## Consumer objects: `manifest.Dependency` and its cached predicate -/

section Cache
open MesonModel.Cargo.Cache

/-- For every history of reading the lazy attributes and calling `update_version` on one
dependency object, every cached value was computed from the *current* requirement — provided
`update_version` has one `try` block per version-dependent lazy attribute (the table obligation). -/
theorem cache_coherent (blocks : List (List String)) (attrs : List String)
    (hok : blocksOk blocks attrs = true) (req : List Char) (ops : List Cache.Op) (how : OpsWithin attrs ops) :
    Coherent (run blocks (fresh req) ops) :=
  (run_invariant blocks attrs hok ops how (fresh req) (by intro e he; simp [fresh] at he)
    (by intro e he; simp [fresh] at he)).1

/-- …hence after any history `dep.accepts_version(v)` is the matcher of the current requirement
and `dep.api` is the api of the current requirement. -/
theorem reads_follow_current_requirement (blocks : List (List String)) (attrs : List String)
    (hok : blocksOk blocks attrs = true) (ha : "accepts_version" ∈ attrs) (hp : "api" ∈ attrs)
    (req : List Char) (ops : List Cache.Op) (how : OpsWithin attrs ops) (ver : List Char) :
    acceptsOut (run blocks (fresh req) ops) ver = cargoParse (run blocks (fresh req) ops).version ver ∧
    apiOut (run blocks (fresh req) ops) = api (run blocks (fresh req) ops).version := by
  have h := run_invariant blocks attrs hok ops how (fresh req) (by intro e he; simp [fresh] at he)
    (by intro e he; simp [fresh] at he)
  have h1 := (read_preserves attrs _ "accepts_version" ha h.1 h.2).2.2
  have h2 := (read_preserves attrs _ "api" hp h.1 h.2).2.2
  simp [acceptsOut, apiOut, h1, h2]

/-- the table obligation, re-checked on every run against the block structure and the lazy
attributes harvested from the current source of `manifest.Dependency` -/
theorem dependency_cache_table_ok :
    blocksOk MesonModel.Generated.CargoCache.updateBlocks MesonModel.Generated.CargoCache.lazyAttrs = true := by
  decide

/-- the code as it is: all histories -/
theorem dependency_reads_current (req : List Char) (ops : List Cache.Op)
    (how : OpsWithin MesonModel.Generated.CargoCache.lazyAttrs ops) (ver : List Char) :
    acceptsOut (run MesonModel.Generated.CargoCache.updateBlocks (fresh req) ops) ver =
      cargoParse (run MesonModel.Generated.CargoCache.updateBlocks (fresh req) ops).version ver :=
  (reads_follow_current_requirement _ _ dependency_cache_table_ok (by decide) (by decide) req ops how ver).1

/-- `update_version` installs the new requirement -/
theorem update_sets_version (blocks : List (List String)) (o : Obj) (v : List Char) :
    (update blocks o v).version = v := update_version blocks o v

/-- The variant with both `delattr`s in ONE `try` block is refuted: when `api` was never read, the
`AttributeError` of its `delattr` skips dropping the cached predicate, and after
`update_version('=1.2.3')` on a dependency declared `1.0` the object still accepts 1.5.0. -/
theorem merged_try_refuted :
    let o := run [["api", "accepts_version"]] (fresh "1.0".toList)
      [.read "accepts_version", .update "=1.2.3".toList]
    o.version = "=1.2.3".toList ∧ acceptsOut o "1.5.0".toList = true ∧
      cargoParse o.version "1.5.0".toList = false ∧
      blocksOk [["api", "accepts_version"]] ["accepts_version", "api"] = false := by
  decide

end Cache

/-! ## The target-cfg table: memoised `_get_cfgs` over the memoised `RustCompiler.get_cfgs` -/

section CfgTables
open MesonModel.Cargo.CfgTable

/-- no sequence of `_get_cfgs` calls (any keys, any `rust_args`) changes the list cached by the
compiler's `get_cfgs` -/
theorem cfg_table_base_invariant (rustArgs : Key → List Line) (host build : List Line) (ks : List Key) :
    (run true rustArgs ⟨host, build, []⟩ ks).baseHost = host ∧
    (run true rustArgs ⟨host, build, []⟩ ks).baseBuild = build := by
  have h := run_ok rustArgs ⟨host, build, []⟩ ks ⟨host, build, []⟩ ⟨rfl, rfl, by intro k t hm; simp at hm⟩
  exact ⟨h.1, h.2.1⟩

/-- after any history, the table returned for a key is built from exactly the compiler's cfgs and
that key's own `--cfg` flags: it depends on the key only -/
theorem cfg_table_depends_on_key_only (rustArgs : Key → List Line) (host build : List Line)
    (ks : List Key) (k : Key) :
    (getCfgs true rustArgs (run true rustArgs ⟨host, build, []⟩ ks) k).2 =
      mkTable ((if k.1 then build else host) ++ cfgFlags (rustArgs k)) := by
  have h := run_ok rustArgs ⟨host, build, []⟩ ks ⟨host, build, []⟩ ⟨rfl, rfl, by intro k t hm; simp at hm⟩
  have := (getCfgs_ok rustArgs ⟨host, build, []⟩ _ h k).2
  simpa [expected, State.base] using this

/-- …so a `cfg()` condition evaluated for that key has the value of its structure under exactly
`{rustc cfgs} ∪ {that subproject's --cfg flags}` -/
theorem cfg_eval_on_table (rustArgs : Key → List Line) (host build : List Line) (ks : List Key) (k : Key)
    (e : IR) :
    evalIR (getCfgs true rustArgs (run true rustArgs ⟨host, build, []⟩ ks) k).2 e =
      evalIR (mkTable ((if k.1 then build else host) ++ cfgFlags (rustArgs k))) e := by
  rw [cfg_table_depends_on_key_only]

/-- the table obligation, re-checked on every run: no memoised function of cargo/interpreter.py mutates
in place an object it got from another memoised callable -/
theorem no_aliased_mutation_of_memoised_results :
    MesonModel.Generated.CargoCache.aliasedMutations = [] := by decide

/-- The variant without `.copy()` is refuted on two calls: after the table of subproject 0
(`rust_args = --cfg foo`) has been built, `cfg(foo)` is true for subproject 1 whose configuration
has no `foo`, and the compiler's cached list has grown. -/
theorem no_copy_refuted :
    let rustArgs : Key → List Line := fun k => if k = (false, 0) then ["--cfg".toList, "foo".toList] else []
    let s := run false rustArgs ⟨["unix".toList], [], []⟩ [(false, 0)]
    evalIR (getCfgs false rustArgs s (false, 1)).2 (.ident "foo".toList) = true ∧
    evalIR (mkTable (["unix".toList] ++ cfgFlags (rustArgs (false, 1)))) (.ident "foo".toList) = false ∧
    s.baseHost ≠ ["unix".toList] := by
  decide

example : mkTable ["unix".toList, "target_os=\"linux\"".toList, "feature=\"a\"".toList] =
    [("unix".toList, []), ("target_os".toList, "linux".toList), ("feature".toList, ['a'])] := by decide

end CfgTables

end MesonModel.Props.C20
