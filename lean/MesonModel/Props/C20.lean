/-
C20 — Cargo version requirements and cfg() expressions mean what Cargo says.
Property theorems only; helper lemmas live in `MesonModel/Cargo/*Lemmas.lean`, the independent
specification in `MesonModel/Cargo/Spec.lean`.
-/
import MesonModel.Cargo.SemverLemmas
import MesonModel.Cargo.CfgLemmas
import MesonModel.Cargo.BridgeLemmas

namespace MesonModel.Props.C20
open MesonModel.Cargo MesonModel.Cargo.Spec

/-! ## Requirements on release versions -/

/-- For every tag-free comparator with 1–3 components (all eight forms) and every release version,
what `cargo_parse` computes is Cargo's rule with the two pinned deviations. -/
theorem cargo_eq_spec (op : ReqOp) (cs : List Nat) (v : V)
    (h1 : 1 ≤ cs.length) (h3 : cs.length ≤ 3) (hw : op = .wildcard → cs.length ≤ 2) :
    compareWith (constraintsOf (toModelOp op) (SemVer.ofComps cs)) false (release v) = true ↔
      pinnedRule op cs v :=
  matches_iff op cs v h1 h3 hw

example : compareWith (constraintsOf (toModelOp .caret) (SemVer.ofComps [0, 2])) false (release (0, 2, 9)) = true := by
  decide
example : pinnedRule .caret [0, 2] (0, 2, 9) := by simp [pinnedRule, cargoRule, tle, tlt]

/-- the same on text: requirement `op I[.J[.K]]` and version `X.Y.Z` written as ASCII digit runs -/
theorem cargo_eq_spec_text (op : ReqOp) (ds : List (List Char)) (x y z : List Char)
    (h1 : 1 ≤ ds.length) (h3 : ds.length ≤ 3) (hw : op = .wildcard → ds.length ≤ 2)
    (hd : ∀ d, d ∈ ds → IsNum d) (hx : IsNum x) (hy : IsNum y) (hz : IsNum z) :
    compareWith (constraintsOf (toModelOp op) (SemVer.parse (dotted ds))) false
        (SemVer.parse (dotted [x, y, z])) = true ↔
      pinnedRule op (ds.map MesonModel.Py.natOfDigits)
        (MesonModel.Py.natOfDigits x, MesonModel.Py.natOfDigits y, MesonModel.Py.natOfDigits z) := by
  rw [parse_dotted ds h1 h3 hd,
    parse_dotted [x, y, z] (by simp) (by simp) (by intro d hd'; simp at hd'; rcases hd' with rfl | rfl | rfl <;> assumption)]
  simp only [List.map, ofComps_three]
  exact matches_iff op _ _ (by simpa using h1) (by simpa using h3) (by simpa using hw)

example : IsNum "10".toList ∧ dotted ["1".toList, "2".toList] = "1.2".toList := by
  refine ⟨⟨by decide, by decide⟩, by decide⟩

/-- outside the two named deviation clauses the pinned rule *is* Cargo's rule -/
theorem pinned_eq_cargo_off_deviations (op : ReqOp) (cs : List Nat) (v : V)
    (h : deviates op cs = false) : pinnedRule op cs v ↔ cargoRule op cs v := by
  unfold pinnedRule
  split <;> simp_all [deviates]

/-- the deviations are real: Cargo reads `=1` as `>=1.0.0, <2.0.0`, the project as `=1.0.0` -/
theorem deviation_exact_witness : cargoRule .exact [1] (1, 5, 0) ∧ ¬ pinnedRule .exact [1] (1, 5, 0) := by
  simp [cargoRule, pinnedRule, tle, tlt]

theorem deviation_caret_witness : ¬ cargoRule .caret [0, 0] (0, 5, 0) ∧ pinnedRule .caret [0, 0] (0, 5, 0) := by
  simp [cargoRule, pinnedRule, tle, tlt]

/-- a comma list is the conjunction of its comparators (release versions) -/
theorem comma_is_conjunction (c1 c2 : List (Op × List Char)) (ver : List Char)
    (hv : (SemVer.parse ver).hasPre = false) :
    matchSplit (c1 ++ c2) ver = (matchSplit c1 ver && matchSplit c2 ver) := by
  simp [matchSplit_release _ _ hv, List.map_append, List.flatMap_append, List.all_append]

/-- `split` cuts at every comma -/
theorem split_at_commas (a b : List Char) :
    splitOnChar ',' (a ++ ',' :: b) = splitOnChar ',' a ++ splitOnChar ',' b := by
  induction a with
  | nil => simp [splitOnChar]
  | cons c cs ih =>
    by_cases h : c = ','
    · subst h; simp [splitOnChar, ih]
    · have hs : ∀ s, splitOnChar ',' s ≠ [] := by
        intro s; cases s with
        | nil => simp [splitOnChar]
        | cons d ds => simp only [splitOnChar]; split <;> (try split) <;> simp
      simp only [List.cons_append, splitOnChar, h, beq_iff_eq, if_false, ih]
      cases h1 : splitOnChar ',' cs with
      | nil => exact absurd h1 (hs cs)
      | cons p ps => simp

/-- `*` accepts every version string (see `prerelease_gate_counterexample` for the flip side) -/
theorem star_matches_all (ver : List Char) : cargoParse ['*'] ver = true := by
  have : split ['*'] = [] := by decide
  simp [cargoParse, this, matchSplit]

/-- `I.*` and `I.J.*` are canonicalised to the tilde form -/
theorem wildcard_is_tilde_examples :
    split "1.*".toList = split "~1".toList ∧ split "2.3.*".toList = split "~2.3".toList ∧
    split " 10.* ".toList = split "~ 10".toList := by decide

/-! ## SemVer section 11 order -/

/-- exactly one of `<`, `==`, `>` holds, for every pair of component lists (hence every pair of strings) -/
theorem trichotomy (a b : List Comp) :
    (vlt a b = true ∧ veq a b = false ∧ vgt a b = false) ∨
    (vlt a b = false ∧ veq a b = true ∧ vgt a b = false) ∨
    (vlt a b = false ∧ veq a b = false ∧ vgt a b = true) := by
  have ht := Lt.total a b
  have e1 : vlt a b = decide (Lt a b) := by rw [Bool.eq_iff_iff, vlt_iff]; simp
  have e2 : vgt a b = decide (Lt b a) := by rw [Bool.eq_iff_iff, vgt_iff]; simp
  have e3 : veq a b = decide (a = b) := rfl
  rw [e1, e2, e3]
  by_cases h1 : Lt a b <;> by_cases h2 : a = b <;> by_cases h3 : Lt b a <;>
    simp_all [Lt.irrefl] <;> exact absurd h3 (Lt.asymm h1)

theorem lt_trans (a b c : List Comp) : vlt a b = true → vlt b c = true → vlt a c = true := by
  simp only [vlt_iff]; exact Lt.trans

theorem le_trans (a b c : List Comp) : vle a b = true → vle b c = true → vle a c = true := by
  simp only [vle_iff]
  intro h1 h2 h3
  rcases Lt.total a b with h | h | h
  · exact h2 (Lt.trans h3 h)
  · subst h; exact h2 h3
  · exact h1 h

theorem le_iff_lt_or_eq (a b : List Comp) : vle a b = true ↔ (vlt a b = true ∨ veq a b = true) := by
  simp only [vle_iff, vlt_iff, veq_iff]
  have := Lt.total a b
  constructor
  · intro h; rcases this with h' | h' | h' <;> simp_all
  · rintro (h | h)
    · exact Lt.asymm h
    · subst h; exact Lt.irrefl a

theorem ge_iff_gt_or_eq (a b : List Comp) : vge a b = true ↔ (vgt a b = true ∨ veq a b = true) := by
  simp only [vge_iff, vgt_iff, veq_iff]
  have := Lt.total a b
  constructor
  · intro h; rcases this with h' | h' | h' <;> simp_all
  · rintro (h | h)
    · exact Lt.asymm h
    · subst h; exact Lt.irrefl a

theorem ne_iff_not_eq (a b : List Comp) : vne a b = !veq a b := rfl

theorem lt_iff_gt_swap (a b : List Comp) : vlt a b = vgt b a := by
  rw [Bool.eq_iff_iff, vlt_iff, vgt_iff]

/-- 11.3: a pre-release is below its release, whatever the identifiers -/
theorem prerelease_below_release (a b c : Int) (pre : List Comp) :
    vlt ([.int a, .int b, .int c, .int (-1)] ++ pre) [.int a, .int b, .int c, .int 0] = true := by
  simp [vlt, vcmp_cons_int]

/-- 11.4.3: at the first differing position a numeric identifier is below an alphanumeric one -/
theorem numeric_below_alnum (p r1 r2 : List Comp) (n : Int) (s : List Char) :
    vlt (p ++ .int n :: r1) (p ++ .str s :: r2) = true := by
  simp only [vlt, vcmp_append]
  simp [vcmp, MesonModel.Version.lexCmp, compCmp]

/-- 11.4.1: numeric identifiers compare numerically -/
theorem numeric_identifiers_numerically (p r1 r2 : List Comp) (m n : Int) (h : m < n) :
    vlt (p ++ .int m :: r1) (p ++ .int n :: r2) = true := by
  simp [vlt, vcmp_append, vcmp_cons_int, h]

/-- 11.4.4: a larger set of pre-release fields is higher when all preceding ones are equal -/
theorem longer_prerelease_higher (p : List Comp) (x : Comp) (r : List Comp) :
    vlt p (p ++ x :: r) = true := by
  have := vcmp_append p [] (x :: r)
  simp only [List.append_nil] at this
  simp [vlt, this, vcmp_nil_cons]

/-- build metadata is ignored: everything from the first `+` on does not reach the component list -/
theorem build_metadata_ignored (s t : List Char) : SemVer.parse (s ++ '+' :: t) = SemVer.parse s :=
  parse_plus s t

/-- On component lists that hold a version the way the specification reads it (numeric identifiers
as ints, alphanumeric ones as strs) the model's `<` is exactly SemVer section 11 precedence. -/
theorem model_order_eq_semver11 (a b : SV) : vlt (encode a) (encode b) = true ↔ Prec a b :=
  encode_lt_iff a b

example : Prec ⟨1, 0, 0, [.alnum "alpha".toList, .num 2]⟩ ⟨1, 0, 0, [.alnum "alpha".toList, .num 10]⟩ := by
  rw [← model_order_eq_semver11]; decide

/-- the full statement: parsing a SemVer string gives the encoding of its fields -/
def semver11_full_statement : Prop :=
  SemVer.parse "1.0.0-2".toList = ⟨encode ⟨1, 0, 0, [.num 2]⟩, 3⟩

/-- …which is false of the code: a numeric *first* pre-release identifier is kept as a `str`
(the regex alternative `[A-Za-z-][0-9A-Za-z-]*` swallows `-2`), so `1.0.0-10 < 1.0.0-2`. -/
theorem semver11_numeric_first_identifier_counterexample :
    ¬ semver11_full_statement ∧
    (SemVer.parse "1.0.0-2".toList).v = [.int 1, .int 0, .int 0, .int (-1), .str ['2']] ∧
    vlt (SemVer.parse "1.0.0-10".toList).v (SemVer.parse "1.0.0-2".toList).v = true ∧
    vlt (SemVer.parse "1.0.0--".toList).v (SemVer.parse "1.0.0-1".toList).v = true := by
  unfold semver11_full_statement; decide

/-- a digit-leading alphanumeric identifier after the first is split in two (`1a` → `1`, `a`) -/
theorem semver11_split_identifier_counterexample :
    (SemVer.parse "1.0.0-alpha.1a".toList).v =
      [.int 1, .int 0, .int 0, .int (-1), .str "alpha".toList, .int 1, .str ['a']] ∧
    vlt (SemVer.parse "1.0.0-alpha.1a".toList).v (SemVer.parse "1.0.0-alpha.2".toList).v = true := by
  decide

/-- where the parser does agree with the specification's reading (the examples of semver.org 11.4) -/
theorem semver11_partial_examples :
    SemVer.parse "1.0.0-alpha.1".toList = ⟨encode ⟨1, 0, 0, [.alnum "alpha".toList, .num 1]⟩, 3⟩ ∧
    SemVer.parse "1.0.0-rc.1+exp.sha".toList = ⟨encode ⟨1, 0, 0, [.alnum "rc".toList, .num 1]⟩, 3⟩ ∧
    SemVer.parse "1.2.3".toList = ⟨encode ⟨1, 2, 3, []⟩, 3⟩ := by
  decide

/-! ## The pre-release gate -/

/-- full statement: a pre-release never satisfies a requirement that names no pre-release -/
def prerelease_gate_full : Prop :=
  ∀ req ver : List Char, (SemVer.parse ver).hasPre = true →
    (∀ c, c ∈ split req → (SemVer.parse c.2).hasPre = false) → cargoParse req ver = false

/-- proved for every requirement that has at least one comparator -/
theorem prerelease_gate_partial (req ver : List Char) (hv : (SemVer.parse ver).hasPre = true)
    (hreq : ∀ c, c ∈ split req → (SemVer.parse c.2).hasPre = false) (hne : split req ≠ []) :
    cargoParse req ver = false := by
  unfold cargoParse matchSplit
  simp only [flatMap_constraints_isEmpty]
  have h1 : ((split req).map (fun c => (c.1, SemVer.parse c.2))).isEmpty = false := by
    cases h : split req with
    | nil => exact absurd h hne
    | cons a as => simp
  have h2 : ((split req).map (fun c => (c.1, SemVer.parse c.2))).any (fun c => c.2.hasPre) = false := by
    simp only [List.any_map, List.any_eq_false]
    intro c hc; simpa using hreq c hc
  simp [h1, h2, compareWith, hv]

example : split ">=1.0".toList ≠ [] ∧ (SemVer.parse "2.0.0-pre1".toList).hasPre = true := by decide

/-- the full statement is false of the code: with no comparator `cargo_parse` returns
`lambda v: True`, so `*` (and the empty requirement) accept pre-releases -/
theorem prerelease_gate_counterexample : ¬ prerelease_gate_full := by
  intro h
  have := h ['*'] "1.0.0-alpha".toList (by decide) (by decide)
  rw [star_matches_all] at this
  exact absurd this (by decide)

/-! ## cfg() expressions -/

/-- every expression of the grammar is parsed back from its token rendering -/
theorem parse_render (e : IR) (hn : namesOk e) : parse (renderTokens e) = .ok e :=
  parse_complete e hn

/-- the parser accepts *only* token lists of the grammar: an accepted list is the rendering of the
returned tree.  (So `all(a b)`, trailing commas, missing parentheses, a string where a name is
expected and trailing tokens are all rejected.) -/
theorem parse_sound (ts : List Token) (e : IR) (h : parse ts = .ok e) :
    ts = renderTokens e ∧ namesOk e :=
  parse_sound' ts e h

/-- the model's recursion fuel is an artefact only: `parse` never runs out of it, so every token
list is either accepted or rejected with one of the implementation's errors -/
theorem parse_total (ts : List Token) : parse ts ≠ .error .fuel := parse_never_out_of_fuel ts

/-- accepted iff in the grammar -/
theorem parse_accepts_iff (ts : List Token) :
    (∃ e, parse ts = .ok e) ↔ (∃ e, namesOk e ∧ ts = renderTokens e) := by
  constructor
  · rintro ⟨e, h⟩; exact ⟨e, (parse_sound ts e h).2, (parse_sound ts e h).1⟩
  · rintro ⟨e, hn, rfl⟩; exact ⟨e, parse_render e hn⟩

example : namesOk (.all [.ident ['a'], .not (.equal ['b'] ['x']), .any []]) := by
  simp [namesOk, namesOkL]

/-- the error a parse ends in, if any -/
def errOf : Except PErr IR → Option PErr
  | .error e => some e
  | .ok _ => none

/-- the malformed shapes named in the property are rejected (each with a `MesonException`) -/
theorem malformed_examples_rejected :
    errOf (parse (lexer "all(a b)".toList)) = some .expectedRParenComma ∧
    errOf (parse (lexer "all(a,)".toList)) = some .unhandled ∧
    errOf (parse (lexer "any(".toList)) = some .malformed ∧
    errOf (parse (lexer "not(a".toList)) = some .malformed ∧
    errOf (parse (lexer "a = b".toList)) = some .expectedString ∧
    errOf (parse (lexer "a b".toList)) = some .trailing ∧
    errOf (parse (lexer "".toList)) = some .malformed ∧
    errOf (parse (lexer "all a".toList)) = some .expectedLParen := by decide

theorem eval_name (cfgs : Cfgs) (n : List Char) :
    evalIR cfgs (.ident n) = true ↔ ∃ kv, kv ∈ cfgs ∧ kv.1 = n := by
  simp [evalIR]

theorem eval_eq (cfgs : Cfgs) (n v : List Char) :
    evalIR cfgs (.equal n v) = true ↔ cfgs.lookup n = some v := by
  simp [evalIR]

theorem eval_not (cfgs : Cfgs) (e : IR) : evalIR cfgs (.not e) = !evalIR cfgs e := by
  simp [evalIR]

theorem eval_any_iff (cfgs : Cfgs) (as : List IR) :
    evalIR cfgs (.any as) = true ↔ ∃ a, a ∈ as ∧ evalIR cfgs a = true := by
  rw [evalIR]; exact evalAny_iff cfgs as

theorem eval_all_iff (cfgs : Cfgs) (as : List IR) :
    evalIR cfgs (.all as) = true ↔ ∀ a, a ∈ as → evalIR cfgs a = true := by
  rw [evalIR]; exact evalAll_iff cfgs as

/-- `eval_cfg` either rejects (error) or returns the value of the tree whose rendering is the
lexed token list — it never evaluates a token list outside the grammar -/
theorem evalCfg_sound (raw : List Char) (cfgs : Cfgs) (b : Bool) (h : evalCfg raw cfgs = .ok b) :
    (b = false ∧ ¬ (MesonModel.Py.startsWith raw "cfg(".toList && endsWith raw [')']) = true) ∨
    ∃ e, lexer ((raw.drop 4).dropLast) = renderTokens e ∧ namesOk e ∧ b = evalIR cfgs e := by
  unfold evalCfg at h
  split at h
  · split at h
    · simp at h
    · rename_i ir hp
      simp only [Except.ok.injEq] at h
      exact Or.inr ⟨ir, (parse_sound _ _ hp).1, (parse_sound _ _ hp).2, h.symm⟩
  · rename_i hc
    simp only [Except.ok.injEq] at h
    exact Or.inl ⟨h.symm, by simpa using hc⟩

/-- the lexer on the shapes the project's own tests pin -/
theorem lexer_examples :
    lexer "all(target_arch = \"x86\", unix)".toList =
      renderTokens (.all [.equal "target_arch".toList "x86".toList, .ident "unix".toList]) ∧
    lexer "not( any( a ,b ) )".toList = renderTokens (.not (.any [.ident ['a'], .ident ['b']])) := by
  decide

/-- full statement for strings: what the lexer hands to the parser for a quoted literal is the
literal -/
def lexer_string_literal_full : Prop :=
  ∀ v : List Char, '"' ∉ v → lexer (['a', '=', '"'] ++ v ++ ['"']) = [.ident ['a'], .equal, .str v]

/-- …false of the code: separators inside an open literal still cut tokens, leading whitespace is
dropped, and a `"` that is never closed is silently ignored (so `cfg("a)` evaluates `a`). -/
theorem lexer_string_literal_counterexample :
    ¬ lexer_string_literal_full ∧
    lexer "a = \" x\"".toList = [.ident ['a'], .equal, .str ['x']] ∧
    lexer "\"a".toList = [.ident ['a']] ∧
    lexer "b\"=\"".toList = [.ident ['b'], .equal, .str []] := by
  refine ⟨fun h => ?_, by decide, by decide, by decide⟩
  have := h [' ', 'x'] (by decide)
  exact absurd this (by decide)

end MesonModel.Props.C20
