/-
C20 — Cargo version requirements and cfg() expressions mean what Cargo says.
Property theorems only; helper lemmas live in `MesonModel/Cargo/*Lemmas.lean`, the independent
specification in `MesonModel/Cargo/Spec.lean`.
-/
import MesonModel.Cargo.SemverLemmas
import MesonModel.Cargo.CfgLemmas
import MesonModel.Cargo.BridgeLemmas
import MesonModel.Cargo.LexLemmas
import MesonModel.Cargo.CacheLemmas
import MesonModel.Cargo.CfgTableLemmas
import MesonModel.Cargo.ResolveLemmas
import MesonModel.Generated.CargoCache

namespace MesonModel.Props.C20
open MesonModel.Cargo MesonModel.Cargo.Spec

/-! ## Requirements on release versions -/

/-- For every tag-free comparator with 1–3 components (all eight forms) and every release version,
what `cargo_parse` computes is Cargo's rule with the two pinned deviations. -/
theorem cargo_eq_spec (op : ReqOp) (cs : List Nat) (v : V)
    (h1 : 1 ≤ cs.length) (h3 : cs.length ≤ 3) (hw : op = .wildcard → cs.length ≤ 2) :
    compareWith (constraintsOf (toModelOp op) (SemVer.ofComps cs)) false (release v) = true ↔
      pinnedRule op cs v :=
  matches_iff op cs v h1 h3 hw

example : compareWith (constraintsOf (toModelOp .caret) (SemVer.ofComps [0, 2])) false (release (0, 2, 9)) = true := by
  decide
example : pinnedRule .caret [0, 2] (0, 2, 9) := by simp [pinnedRule, cargoRule, tle, tlt]

/-- the same on text: requirement `op I[.J[.K]]` and version `X.Y.Z` written as ASCII digit runs -/
theorem cargo_eq_spec_text (op : ReqOp) (ds : List (List Char)) (x y z : List Char)
    (h1 : 1 ≤ ds.length) (h3 : ds.length ≤ 3) (hw : op = .wildcard → ds.length ≤ 2)
    (hd : ∀ d, d ∈ ds → IsNum d) (hx : IsNum x) (hy : IsNum y) (hz : IsNum z) :
    compareWith (constraintsOf (toModelOp op) (SemVer.parse (dotted ds))) false
        (SemVer.parse (dotted [x, y, z])) = true ↔
      pinnedRule op (ds.map MesonModel.Py.natOfDigits)
        (MesonModel.Py.natOfDigits x, MesonModel.Py.natOfDigits y, MesonModel.Py.natOfDigits z) := by
  rw [parse_dotted ds h1 h3 hd,
    parse_dotted [x, y, z] (by simp) (by simp) (by intro d hd'; simp at hd'; rcases hd' with rfl | rfl | rfl <;> assumption)]
  simp only [List.map, ofComps_three]
  exact matches_iff op _ _ (by simpa using h1) (by simpa using h3) (by simpa using hw)

example : IsNum "10".toList ∧ dotted ["1".toList, "2".toList] = "1.2".toList := by
  refine ⟨⟨by decide, by decide⟩, by decide⟩

/-- outside the two named deviation clauses the pinned rule *is* Cargo's rule -/
theorem pinned_eq_cargo_off_deviations (op : ReqOp) (cs : List Nat) (v : V)
    (h : deviates op cs = false) : pinnedRule op cs v ↔ cargoRule op cs v := by
  unfold pinnedRule
  split <;> simp_all [deviates]

/-- the deviations are real: Cargo reads `=1` as `>=1.0.0, <2.0.0`, the project as `=1.0.0` -/
theorem deviation_exact_witness : cargoRule .exact [1] (1, 5, 0) ∧ ¬ pinnedRule .exact [1] (1, 5, 0) := by
  simp [cargoRule, pinnedRule, tle, tlt]

theorem deviation_caret_witness : ¬ cargoRule .caret [0, 0] (0, 5, 0) ∧ pinnedRule .caret [0, 0] (0, 5, 0) := by
  simp [cargoRule, pinnedRule, tle, tlt]

/-- a comma list is the conjunction of its comparators (release versions) -/
theorem comma_is_conjunction (c1 c2 : List (Op × List Char)) (ver : List Char)
    (hv : (SemVer.parse ver).hasPre = false) :
    matchSplit (c1 ++ c2) ver = (matchSplit c1 ver && matchSplit c2 ver) := by
  simp [matchSplit_release _ _ hv, List.map_append, List.flatMap_append, List.all_append]

/-- `split` cuts at every comma -/
theorem split_at_commas (a b : List Char) :
    splitOnChar ',' (a ++ ',' :: b) = splitOnChar ',' a ++ splitOnChar ',' b :=
  splitOnChar_append ',' a b

/-- `*` accepts exactly the versions without a pre-release tag -/
theorem star_matches_all_releases (ver : List Char) :
    cargoParse ['*'] ver = !(SemVer.parse ver).hasPre := by
  have : split ['*'] = [] := by decide
  simp [cargoParse, this, matchSplit]

example : cargoParse ['*'] "99.99".toList = true ∧ cargoParse ['*'] "1.0.0-alpha".toList = false := by decide

/-- `I.*` and `I.J.*` are canonicalised to the tilde form -/
theorem wildcard_is_tilde_examples :
    split "1.*".toList = split "~1".toList ∧ split "2.3.*".toList = split "~2.3".toList ∧
    split " 10.* ".toList = split "~ 10".toList := by decide

/-! ## SemVer section 11 order -/

/-- exactly one of `<`, `==`, `>` holds, for every pair of component lists (hence every pair of strings) -/
theorem trichotomy (a b : List Comp) :
    (vlt a b = true ∧ veq a b = false ∧ vgt a b = false) ∨
    (vlt a b = false ∧ veq a b = true ∧ vgt a b = false) ∨
    (vlt a b = false ∧ veq a b = false ∧ vgt a b = true) := by
  have ht := Lt.total a b
  have e1 : vlt a b = decide (Lt a b) := by rw [Bool.eq_iff_iff, vlt_iff]; simp
  have e2 : vgt a b = decide (Lt b a) := by rw [Bool.eq_iff_iff, vgt_iff]; simp
  have e3 : veq a b = decide (a = b) := rfl
  rw [e1, e2, e3]
  by_cases h1 : Lt a b <;> by_cases h2 : a = b <;> by_cases h3 : Lt b a <;>
    simp_all [Lt.irrefl] <;> exact absurd h3 (Lt.asymm h1)

theorem lt_trans (a b c : List Comp) : vlt a b = true → vlt b c = true → vlt a c = true := by
  simp only [vlt_iff]; exact Lt.trans

theorem le_trans (a b c : List Comp) : vle a b = true → vle b c = true → vle a c = true := by
  simp only [vle_iff]
  intro h1 h2 h3
  rcases Lt.total a b with h | h | h
  · exact h2 (Lt.trans h3 h)
  · subst h; exact h2 h3
  · exact h1 h

theorem le_iff_lt_or_eq (a b : List Comp) : vle a b = true ↔ (vlt a b = true ∨ veq a b = true) := by
  simp only [vle_iff, vlt_iff, veq_iff]
  have := Lt.total a b
  constructor
  · intro h; rcases this with h' | h' | h' <;> simp_all
  · rintro (h | h)
    · exact Lt.asymm h
    · subst h; exact Lt.irrefl a

theorem ge_iff_gt_or_eq (a b : List Comp) : vge a b = true ↔ (vgt a b = true ∨ veq a b = true) := by
  simp only [vge_iff, vgt_iff, veq_iff]
  have := Lt.total a b
  constructor
  · intro h; rcases this with h' | h' | h' <;> simp_all
  · rintro (h | h)
    · exact Lt.asymm h
    · subst h; exact Lt.irrefl a

theorem ne_iff_not_eq (a b : List Comp) : vne a b = !veq a b := rfl

theorem lt_iff_gt_swap (a b : List Comp) : vlt a b = vgt b a := by
  rw [Bool.eq_iff_iff, vlt_iff, vgt_iff]

/-- 11.3: a pre-release is below its release, whatever the identifiers -/
theorem prerelease_below_release (a b c : Int) (pre : List Comp) :
    vlt ([.int a, .int b, .int c, .int (-1)] ++ pre) [.int a, .int b, .int c, .int 0] = true := by
  simp [vlt, vcmp_cons_int]

/-- 11.4.3: at the first differing position a numeric identifier is below an alphanumeric one -/
theorem numeric_below_alnum (p r1 r2 : List Comp) (n : Int) (s : List Char) :
    vlt (p ++ .int n :: r1) (p ++ .str s :: r2) = true := by
  simp only [vlt, vcmp_append]
  simp [vcmp, MesonModel.Version.lexCmp, compCmp]

/-- 11.4.1: numeric identifiers compare numerically -/
theorem numeric_identifiers_numerically (p r1 r2 : List Comp) (m n : Int) (h : m < n) :
    vlt (p ++ .int m :: r1) (p ++ .int n :: r2) = true := by
  simp [vlt, vcmp_append, vcmp_cons_int, h]

/-- 11.4.4: a larger set of pre-release fields is higher when all preceding ones are equal -/
theorem longer_prerelease_higher (p : List Comp) (x : Comp) (r : List Comp) :
    vlt p (p ++ x :: r) = true := by
  have := vcmp_append p [] (x :: r)
  simp only [List.append_nil] at this
  simp [vlt, this, vcmp_nil_cons]

/-- build metadata is ignored: everything from the first `+` on does not reach the component list -/
theorem build_metadata_ignored (s t : List Char) : SemVer.parse (s ++ '+' :: t) = SemVer.parse s :=
  parse_plus s t

/-- On component lists that hold a version the way the specification reads it (numeric identifiers
as ints, alphanumeric ones as strs) the model's `<` is exactly SemVer section 11 precedence. -/
theorem model_order_eq_semver11 (a b : SV) : vlt (encode a) (encode b) = true ↔ Prec a b :=
  encode_lt_iff a b

example : Prec ⟨1, 0, 0, [.alnum "alpha".toList, .num 2]⟩ ⟨1, 0, 0, [.alnum "alpha".toList, .num 10]⟩ := by
  rw [← model_order_eq_semver11]; decide

/-- Parsing a SemVer text `M.m.p[-id.id…][+build]` (digit runs, identifiers over `[0-9A-Za-z-]`,
any build metadata) gives exactly the encoding of its fields as semver.org reads them: digit-only
identifiers numeric, all others alphanumeric, build metadata gone. -/
theorem semver_parse_text (t : SVText) (h : t.wf) : SemVer.parse t.render = ⟨encode t.fields, 3⟩ :=
  parse_render_text t h

/-- The full statement: on SemVer texts the implementation's `<` is section 11 precedence of the
fields. -/
theorem semver11_full_statement (t1 t2 : SVText) (h1 : t1.wf) (h2 : t2.wf) :
    vlt (SemVer.parse t1.render).v (SemVer.parse t2.render).v = true ↔ Prec t1.fields t2.fields := by
  rw [semver_parse_text t1 h1, semver_parse_text t2 h2]
  exact model_order_eq_semver11 _ _

/-- …and `==` is equality of the fields (build metadata plays no part) -/
theorem semver_eq_text (t1 t2 : SVText) (h1 : t1.wf) (h2 : t2.wf) (hf : t1.fields = t2.fields) :
    veq (SemVer.parse t1.render).v (SemVer.parse t2.render).v = true := by
  rw [semver_parse_text t1 h1, semver_parse_text t2 h2, hf]; simp [veq]

/-- 11.3 on text: a pre-release version is below the release with the same core -/
theorem prerelease_below_release_text (t : SVText) (h : t.wf) (hp : t.pre ≠ []) (b : Option (List Char)) :
    vlt (SemVer.parse t.render).v (SemVer.parse ({ t with pre := [], build := b } : SVText).render).v = true := by
  have h' : ({ t with pre := [], build := b } : SVText).wf := ⟨h.1, h.2.1, h.2.2.1, by intro i hi; simp at hi⟩
  rw [semver11_full_statement t _ h h']
  refine Or.inr ⟨rfl, Or.inl ⟨?_, rfl⟩⟩
  simpa [SVText.fields] using hp

example : (⟨"1".toList, "0".toList, "0".toList, ["2".toList], none⟩ : SVText).wf ∧
    (⟨"1".toList, "0".toList, "0".toList, ["2".toList], none⟩ : SVText).render = "1.0.0-2".toList := by
  refine ⟨⟨⟨by decide, by decide⟩, ⟨by decide, by decide⟩, ⟨by decide, by decide⟩, ?_⟩, by decide⟩
  intro i hi; simp at hi; subst hi; exact ⟨by decide, by decide⟩

/-- the orderings that were wrong before the repair of `SemVer.__init__` -/
theorem semver11_examples :
    vlt (SemVer.parse "1.0.0-2".toList).v (SemVer.parse "1.0.0-10".toList).v = true ∧
    vlt (SemVer.parse "1.0.0-1".toList).v (SemVer.parse "1.0.0--".toList).v = true ∧
    vlt (SemVer.parse "1.0.0-alpha.2".toList).v (SemVer.parse "1.0.0-alpha.1a".toList).v = true ∧
    SemVer.parse "1.2.3-rc.1+exp.sha".toList = ⟨encode ⟨1, 2, 3, [.alnum "rc".toList, .num 1]⟩, 3⟩ := by
  decide

/-! ## The pre-release gate -/

/-- a pre-release never satisfies a requirement that names no pre-release (any requirement text,
including `*` and the empty one) -/
theorem prerelease_gate_full (req ver : List Char) (hv : (SemVer.parse ver).hasPre = true)
    (hreq : ∀ c, c ∈ split req → (SemVer.parse c.2).hasPre = false) :
    cargoParse req ver = false := by
  unfold cargoParse matchSplit
  simp only [flatMap_constraints_isEmpty]
  by_cases hne : split req = []
  · simp [hne, hv]
  · have h1 : ((split req).map (fun c => (c.1, SemVer.parse c.2))).isEmpty = false := by
      cases h : split req with
      | nil => exact absurd h hne
      | cons a as => simp
    have h2 : ((split req).map (fun c => (c.1, SemVer.parse c.2))).any (fun c => c.2.hasPre) = false := by
      simp only [List.any_map, List.any_eq_false]
      intro c hc; simpa using hreq c hc
    simp [h1, h2, compareWith, hv]

example : split ">=1.0".toList ≠ [] ∧ (SemVer.parse "2.0.0-pre1".toList).hasPre = true ∧
    (SemVer.parse "1.0".toList).hasPre = false := by decide

/-! ## cfg() expressions -/

/-- every expression of the grammar is parsed back from its token rendering -/
theorem parse_render (e : IR) (hn : namesOk e) : parse (renderTokens e) = .ok e :=
  parse_complete e hn

/-- the parser accepts *only* token lists of the grammar: an accepted list is the rendering of the
returned tree.  (So `all(a b)`, trailing commas, missing parentheses, a string where a name is
expected and trailing tokens are all rejected.) -/
theorem parse_sound (ts : List Token) (e : IR) (h : parse ts = .ok e) :
    ts = renderTokens e ∧ namesOk e :=
  parse_sound' ts e h

/-- the model's recursion fuel is an artefact only: `parse` never runs out of it, so every token
list is either accepted or rejected with one of the implementation's errors -/
theorem parse_total (ts : List Token) : parse ts ≠ .error .fuel := parse_never_out_of_fuel ts

/-- accepted iff in the grammar -/
theorem parse_accepts_iff (ts : List Token) :
    (∃ e, parse ts = .ok e) ↔ (∃ e, namesOk e ∧ ts = renderTokens e) := by
  constructor
  · rintro ⟨e, h⟩; exact ⟨e, (parse_sound ts e h).2, (parse_sound ts e h).1⟩
  · rintro ⟨e, hn, rfl⟩; exact ⟨e, parse_render e hn⟩

example : namesOk (.all [.ident ['a'], .not (.equal ['b'] ['x']), .any []]) := by
  simp [namesOk, namesOkL]

/-- the error a parse ends in, if any -/
def errOf : Except PErr IR → Option PErr
  | .error e => some e
  | .ok _ => none

/-- the malformed shapes named in the property are rejected (each with a `MesonException`) -/
theorem malformed_examples_rejected :
    errOf (parseLexed (lexer "all(a b)".toList)) = some .expectedRParenComma ∧
    errOf (parseLexed (lexer "all(a,)".toList)) = some .unhandled ∧
    errOf (parseLexed (lexer "any(".toList)) = some .malformed ∧
    errOf (parseLexed (lexer "not(a".toList)) = some .malformed ∧
    errOf (parseLexed (lexer "a = b".toList)) = some .expectedString ∧
    errOf (parseLexed (lexer "a b".toList)) = some .trailing ∧
    errOf (parseLexed (lexer "".toList)) = some .malformed ∧
    errOf (parseLexed (lexer "all a".toList)) = some .expectedLParen := by decide

theorem eval_name (cfgs : Cfgs) (n : List Char) :
    evalIR cfgs (.ident n) = true ↔ ∃ kv, kv ∈ cfgs ∧ kv.1 = n := by
  simp [evalIR]

theorem eval_eq (cfgs : Cfgs) (n v : List Char) :
    evalIR cfgs (.equal n v) = true ↔ cfgs.lookup n = some v := by
  simp [evalIR]

theorem eval_not (cfgs : Cfgs) (e : IR) : evalIR cfgs (.not e) = !evalIR cfgs e := by
  simp [evalIR]

theorem eval_any_iff (cfgs : Cfgs) (as : List IR) :
    evalIR cfgs (.any as) = true ↔ ∃ a, a ∈ as ∧ evalIR cfgs a = true := by
  rw [evalIR]; exact evalAny_iff cfgs as

theorem eval_all_iff (cfgs : Cfgs) (as : List IR) :
    evalIR cfgs (.all as) = true ↔ ∀ a, a ∈ as → evalIR cfgs a = true := by
  rw [evalIR]; exact evalAll_iff cfgs as

/-- `eval_cfg` either rejects (error) or returns the value of the tree whose rendering is the
lexed token list — it never evaluates a token list outside the grammar, nor an unterminated literal -/
theorem evalCfg_sound (raw : List Char) (cfgs : Cfgs) (b : Bool) (h : evalCfg raw cfgs = .ok b) :
    (b = false ∧ ¬ (MesonModel.Py.startsWith raw "cfg(".toList && endsWith raw [')']) = true) ∨
    ∃ e, lexer ((raw.drop 4).dropLast) = ⟨renderTokens e, false⟩ ∧ namesOk e ∧ b = evalIR cfgs e := by
  unfold evalCfg at h
  split at h
  · split at h
    · simp at h
    · rename_i ir hp
      simp only [Except.ok.injEq] at h
      unfold parseLexed at hp
      split at hp
      · simp at hp
      · rename_i hu
        cases hl : lexer ((raw.drop 4).dropLast) with
        | mk toks u =>
          rw [hl] at hu hp
          have hs := parse_sound _ _ hp
          simp only [Bool.not_eq_true] at hu
          refine Or.inr ⟨ir, ?_, hs.2, h.symm⟩
          have h1 : toks = renderTokens ir := hs.1
          have h2 : u = false := hu
          rw [h1, h2]
  · rename_i hc
    simp only [Except.ok.injEq] at h
    exact Or.inl ⟨h.symm, by simpa using hc⟩

/-- a string literal that is never closed is rejected -/
theorem unterminated_rejected (raw : List Char) (cfgs : Cfgs)
    (he : (MesonModel.Py.startsWith raw "cfg(".toList && endsWith raw [')']) = true)
    (hu : (lexer ((raw.drop 4).dropLast)).unterminated = true) :
    evalCfg raw cfgs = .error .unterminated := by
  have he' : (MesonModel.Py.startsWith raw ['c', 'f', 'g', '('] && endsWith raw [')']) = true := he
  simp [evalCfg, he', parseLexed, hu]

example : (lexer "\"a".toList).unterminated = true ∧ (lexer "a = \"x\" \"".toList).unterminated = true := by
  decide

/-- The lexer maps the canonical text of every expression — names without separator characters that
are not keywords, values without `"` (blanks, parentheses, commas, `=` allowed) — to the token
rendering of the grammar. -/
theorem lex_render (e : IR) (h : lexOk e) : lexer (renderStr e) = ⟨renderTokens e, false⟩ :=
  lexer_renderStr e h

/-- what the lexer hands to the parser for a quoted literal is the literal, whatever it contains -/
theorem lexer_string_literal_full (v : List Char) (hv : '"' ∉ v) :
    lexer (['a', '=', '"'] ++ v ++ ['"']) = ⟨[.ident ['a'], .equal, .str v], false⟩ := by
  have hn : NameOk ['a'] := ⟨by decide, by decide, by decide, by decide, by decide⟩
  have := lex_render (.equal ['a'] v) ⟨hn, hv⟩
  simpa [renderStr, renderTokens] using this

example : lexer "a = \" x\"".toList = ⟨[.ident ['a'], .equal, .str [' ', 'x']], false⟩ := by decide

/-- end to end: `eval_cfg` of the text of an expression is the value of its structure -/
theorem evalCfg_render (e : IR) (h : lexOk e) (cfgs : Cfgs) :
    evalCfg ("cfg(".toList ++ renderStr e ++ [')']) cfgs = .ok (evalIR cfgs e) := by
  have e1 : "cfg(".toList = ['c', 'f', 'g', '('] := by decide
  have h1 : MesonModel.Py.startsWith (['c', 'f', 'g', '('] ++ renderStr e ++ [')']) ['c', 'f', 'g', '('] = true := by
    simp [MesonModel.Py.startsWith, List.isPrefixOf]
  have h2 : endsWith (['c', 'f', 'g', '('] ++ renderStr e ++ [')']) [')'] = true := by
    simp [endsWith, List.isPrefixOf]
  have h3 : ((['c', 'f', 'g', '('] ++ renderStr e ++ [')']).drop 4).dropLast = renderStr e := by
    simp [List.dropLast_concat]
  rw [e1]
  simp only [evalCfg, h1, h2, Bool.and_self, if_true, h3, lex_render e h, parseLexed,
    Bool.false_eq_true, if_false, parse_render e (lexOk_namesOk e h)]

/-- the lexer on the shapes the project's own tests pin -/
theorem lexer_examples :
    (lexer "all(target_arch = \"x86\", unix)".toList).toks =
      renderTokens (.all [.equal "target_arch".toList "x86".toList, .ident "unix".toList]) ∧
    (lexer "not( any( a ,b ) )".toList).toks = renderTokens (.not (.any [.ident ['a'], .ident ['b']])) := by
  decide

/-! ## Consumer objects: `manifest.Dependency` and its cached predicate -/

section Cache
open MesonModel.Cargo.Cache

/-- For every history of reading the lazy attributes and calling `update_version` on one
dependency object, every cached value was computed from the *current* requirement — provided
`update_version` has one `try` block per version-dependent lazy attribute (the table obligation). -/
theorem cache_coherent (blocks : List (List String)) (attrs : List String)
    (hok : blocksOk blocks attrs = true) (req : List Char) (ops : List Cache.Op) (how : OpsWithin attrs ops) :
    Coherent (run blocks (fresh req) ops) :=
  (run_invariant blocks attrs hok ops how (fresh req) (by intro e he; simp [fresh] at he)
    (by intro e he; simp [fresh] at he)).1

/-- …hence after any history `dep.accepts_version(v)` is the matcher of the current requirement
and `dep.api` is the api of the current requirement. -/
theorem reads_follow_current_requirement (blocks : List (List String)) (attrs : List String)
    (hok : blocksOk blocks attrs = true) (ha : "accepts_version" ∈ attrs) (hp : "api" ∈ attrs)
    (req : List Char) (ops : List Cache.Op) (how : OpsWithin attrs ops) (ver : List Char) :
    acceptsOut (run blocks (fresh req) ops) ver = cargoParse (run blocks (fresh req) ops).version ver ∧
    apiOut (run blocks (fresh req) ops) = api (run blocks (fresh req) ops).version := by
  have h := run_invariant blocks attrs hok ops how (fresh req) (by intro e he; simp [fresh] at he)
    (by intro e he; simp [fresh] at he)
  have h1 := (read_preserves attrs _ "accepts_version" ha h.1 h.2).2.2
  have h2 := (read_preserves attrs _ "api" hp h.1 h.2).2.2
  simp [acceptsOut, apiOut, h1, h2]

/-- the table obligation, re-checked on every run against the block structure and the lazy
attributes harvested from the current source of `manifest.Dependency` -/
theorem dependency_cache_table_ok :
    blocksOk MesonModel.Generated.CargoCache.updateBlocks MesonModel.Generated.CargoCache.lazyAttrs = true := by
  decide

/-- the code as it is: all histories -/
theorem dependency_reads_current (req : List Char) (ops : List Cache.Op)
    (how : OpsWithin MesonModel.Generated.CargoCache.lazyAttrs ops) (ver : List Char) :
    acceptsOut (run MesonModel.Generated.CargoCache.updateBlocks (fresh req) ops) ver =
      cargoParse (run MesonModel.Generated.CargoCache.updateBlocks (fresh req) ops).version ver :=
  (reads_follow_current_requirement _ _ dependency_cache_table_ok (by decide) (by decide) req ops how ver).1

/-- `update_version` installs the new requirement -/
theorem update_sets_version (blocks : List (List String)) (o : Obj) (v : List Char) :
    (update blocks o v).version = v := update_version blocks o v

/-- The variant with both `delattr`s in ONE `try` block is refuted: when `api` was never read, the
`AttributeError` of its `delattr` skips dropping the cached predicate, and after
`update_version('=1.2.3')` on a dependency declared `1.0` the object still accepts 1.5.0. -/
theorem merged_try_refuted :
    let o := run [["api", "accepts_version"]] (fresh "1.0".toList)
      [.read "accepts_version", .update "=1.2.3".toList]
    o.version = "=1.2.3".toList ∧ acceptsOut o "1.5.0".toList = true ∧
      cargoParse o.version "1.5.0".toList = false ∧
      blocksOk [["api", "accepts_version"]] ["accepts_version", "api"] = false := by
  decide

end Cache

/-! ## The target-cfg table: memoised `_get_cfgs` over the memoised `RustCompiler.get_cfgs` -/

section CfgTables
open MesonModel.Cargo.CfgTable

/-- no sequence of `_get_cfgs` calls (any keys, any `rust_args`) changes the list cached by the
compiler's `get_cfgs` -/
theorem cfg_table_base_invariant (rustArgs : Key → List Line) (host build : List Line) (ks : List Key) :
    (run true rustArgs ⟨host, build, []⟩ ks).baseHost = host ∧
    (run true rustArgs ⟨host, build, []⟩ ks).baseBuild = build := by
  have h := run_ok rustArgs ⟨host, build, []⟩ ks ⟨host, build, []⟩ ⟨rfl, rfl, by intro k t hm; simp at hm⟩
  exact ⟨h.1, h.2.1⟩

/-- after any history, the table returned for a key is built from exactly the compiler's cfgs and
that key's own `--cfg` flags: it depends on the key only -/
theorem cfg_table_depends_on_key_only (rustArgs : Key → List Line) (host build : List Line)
    (ks : List Key) (k : Key) :
    (getCfgs true rustArgs (run true rustArgs ⟨host, build, []⟩ ks) k).2 =
      mkTable ((if k.1 then build else host) ++ cfgFlags (rustArgs k)) := by
  have h := run_ok rustArgs ⟨host, build, []⟩ ks ⟨host, build, []⟩ ⟨rfl, rfl, by intro k t hm; simp at hm⟩
  have := (getCfgs_ok rustArgs ⟨host, build, []⟩ _ h k).2
  simpa [expected, State.base] using this

/-- …so a `cfg()` condition evaluated for that key has the value of its structure under exactly
`{rustc cfgs} ∪ {that subproject's --cfg flags}` -/
theorem cfg_eval_on_table (rustArgs : Key → List Line) (host build : List Line) (ks : List Key) (k : Key)
    (e : IR) :
    evalIR (getCfgs true rustArgs (run true rustArgs ⟨host, build, []⟩ ks) k).2 e =
      evalIR (mkTable ((if k.1 then build else host) ++ cfgFlags (rustArgs k))) e := by
  rw [cfg_table_depends_on_key_only]

/-- the table obligation, re-checked on every run: no memoised function of cargo/interpreter.py mutates
in place an object it got from another memoised callable -/
theorem no_aliased_mutation_of_memoised_results :
    MesonModel.Generated.CargoCache.aliasedMutations = [] := by decide

/-- The variant without `.copy()` is refuted on two calls: after the table of subproject 0
(`rust_args = --cfg foo`) has been built, `cfg(foo)` is true for subproject 1 whose configuration
has no `foo`, and the compiler's cached list has grown. -/
theorem no_copy_refuted :
    let rustArgs : Key → List Line := fun k => if k = (false, 0) then ["--cfg".toList, "foo".toList] else []
    let s := run false rustArgs ⟨["unix".toList], [], []⟩ [(false, 0)]
    evalIR (getCfgs false rustArgs s (false, 1)).2 (.ident "foo".toList) = true ∧
    evalIR (mkTable (["unix".toList] ++ cfgFlags (rustArgs (false, 1)))) (.ident "foo".toList) = false ∧
    s.baseHost ≠ ["unix".toList] := by
  decide

example : mkTable ["unix".toList, "target_os=\"linux\"".toList, "feature=\"a\"".toList] =
    [("unix".toList, []), ("target_os".toList, "linux".toList), ("feature".toList, ['a'])] := by decide

end CfgTables

/-! ## Consumers: api strings, Cargo.lock resolution, target-specific dependencies, system-deps versions -/

section Consumers
open MesonModel.Cargo.Resolve

/-- `_api_of` on a release (or partial) version written as digit runs is the documented api:
the major, `0.<minor>` below 1.0, `0` below 0.1 -/
theorem api_of_version_text (ds : List (List Char)) (hne : ds ≠ []) (hd : ∀ d, d ∈ ds → IsNum d) :
    apiOf (dotted ds) = .ok (apiText ds) := apiOf_dotted ds hne hd

example : apiOf "1.2.3".toList = .ok "1".toList ∧ apiOf "0.4.2".toList = .ok "0.4".toList ∧
    apiOf "0.0.7".toList = .ok "0".toList ∧ apiOf "0".toList = .ok "0".toList := by decide

/-- `Package.api` / `CargoLockPackage.api` (api of the bare version text) and `Dependency.api` after
`update_version('=' + that version)` are the same string: the `PackageKey` `_dep_package` asks
`_fetch_package` for is the key the package of that version is recorded under. -/
theorem pinned_requirement_has_package_api (ds : List (List Char)) (hne : ds ≠ [])
    (hd : ∀ d, d ∈ ds → IsNum d) :
    api ('=' :: dotted ds) = api (dotted ds) ∧ api (dotted ds) = .ok (apiText ds) := by
  have := api_version_text ds hne hd
  exact ⟨this.2.trans this.1.symm, this.1⟩

/-- the caret range of a version at or above 0.1.0 is exactly: same api, and at least that version -/
theorem caret_iff_same_api_and_ge (a b c : Nat) (v : V) (h : a ≠ 0 ∨ b ≠ 0) :
    pinnedRule .caret [a, b, c] v ↔ apiClass v = apiClass (a, b, c) ∧ tle (a, b, c) v :=
  caret_iff_class_ge a b c v h

example : pinnedRule .caret [0, 3, 1] (0, 3, 9) ∧ apiClass (0, 3, 9) = apiClass (0, 3, 1) := by
  simp [pinnedRule, cargoRule, tle, tlt, apiClass]

/-- a caret requirement never leaves the api of its version (all versions but 0.0.0, whose caret
range is the pinned deviation `< 1.0.0`) -/
theorem caret_stays_in_api (a b c : Nat) (v : V) (h : (a, b, c) ≠ (0, 0, 0))
    (hm : pinnedRule .caret [a, b, c] v) : apiClass v = apiClass (a, b, c) := by
  by_cases h2 : a ≠ 0 ∨ b ≠ 0
  · exact ((caret_iff_class_ge a b c v h2).mp hm).1
  · have ha : a = 0 := by omega
    have hb : b = 0 := by omega
    subst ha; subst hb
    obtain ⟨c', rfl⟩ : ∃ c', c = c' + 1 := ⟨c - 1, by
      have : c ≠ 0 := by intro e; subst e; exact h rfl
      omega⟩
    obtain ⟨x, y, z⟩ := v
    simp [pinnedRule, cargoRule, tle, tlt] at hm
    have hx : x = 0 := by omega
    have hy : y = 0 := by omega
    simp [apiClass, hx, hy]

/-- Two versions share an api (hence a subproject name `<crate>-<api>-rs`) iff the newer one lies in
the caret range of the older one — for every api except `0` (see `api_zero_lumps_witness`). -/
theorem same_api_iff_caret_compatible (v w : V) (hv : apiClass v ≠ .zero) (hw : w ≠ (0, 0, 0)) :
    apiClass v = apiClass w ↔
      (pinnedRule .caret [v.1, v.2.1, v.2.2] w ∨ pinnedRule .caret [w.1, w.2.1, w.2.2] v) := by
  obtain ⟨a, b, c⟩ := v
  obtain ⟨x, y, z⟩ := w
  have hab : a ≠ 0 ∨ b ≠ 0 := by
    by_cases ha : a = 0 <;> by_cases hb : b = 0 <;> simp_all [apiClass]
  constructor
  · intro he
    have hxy : x ≠ 0 ∨ y ≠ 0 := by
      by_cases hx : x = 0 <;> by_cases hy : y = 0 <;> simp_all [apiClass]
    by_cases hle : tle (a, b, c) (x, y, z)
    · exact Or.inl ((caret_iff_class_ge a b c (x, y, z) hab).mpr ⟨he.symm, hle⟩)
    · refine Or.inr ((caret_iff_class_ge x y z (a, b, c) hxy).mpr ⟨he, ?_⟩)
      simp only [tle, tlt, Prod.mk.injEq] at hle ⊢
      omega
  · rintro (h | h)
    · exact ((caret_iff_class_ge a b c (x, y, z) hab).mp h).1.symm
    · exact caret_stays_in_api x y z (a, b, c) hw h

/-- the api `0` lumps all of 0.0.z together although Cargo treats each 0.0.z as incompatible with
the others: same api string, neither caret range contains the other version -/
theorem api_zero_lumps_witness :
    apiOf "0.0.1".toList = apiOf "0.0.2".toList ∧
    ¬ pinnedRule .caret [0, 0, 1] (0, 0, 2) ∧ ¬ pinnedRule .caret [0, 0, 2] (0, 0, 1) := by
  refine ⟨by decide, ?_, ?_⟩ <;> simp [pinnedRule, cargoRule, tle, tlt]

/-- version texts with the same api string are in the same api class (so, by
`same_api_iff_caret_compatible`, caret compatible unless the api is `0`) -/
theorem same_api_text_same_class (x1 y1 z1 x2 y2 z2 : List Char)
    (h1 : IsNum x1) (h2 : IsNum y1) (h4 : IsNum x2) (h5 : IsNum y2)
    (he : apiText [x1, y1, z1] = apiText [x2, y2, z2]) :
    apiClass (MesonModel.Py.natOfDigits x1, MesonModel.Py.natOfDigits y1, MesonModel.Py.natOfDigits z1) =
      apiClass (MesonModel.Py.natOfDigits x2, MesonModel.Py.natOfDigits y2, MesonModel.Py.natOfDigits z2) := by
  have nodot : ∀ x : List Char, IsNum x → ∀ r, x ≠ '0' :: '.' :: r := by
    intro x hx r e; subst e
    have := hx.2 '.' (by simp); exact absurd this (by decide)
  have zero : ∀ x : List Char, x = ['0'] → MesonModel.Py.natOfDigits x = 0 := by
    intro x e; subst e; decide
  simp only [apiText, apiClass] at he ⊢
  by_cases a1 : MesonModel.Py.natOfDigits x1 = 0 <;> by_cases a2 : MesonModel.Py.natOfDigits x2 = 0 <;>
    by_cases b1 : MesonModel.Py.natOfDigits y1 = 0 <;> by_cases b2 : MesonModel.Py.natOfDigits y2 = 0 <;>
    simp [a1, a2, b1, b2] at he ⊢
  all_goals first
    | (subst he; simp_all; done)
    | exact absurd he (nodot _ h4 _)
    | exact absurd he.symm (nodot _ h4 _)
    | exact absurd he (nodot _ h1 _)
    | exact absurd he.symm (nodot _ h1 _)
    | exact absurd (zero _ he) a1
    | exact absurd (zero _ he.symm) a2
    | (subst he; omega)
    | skip

/-- `resolve_package(name, api)` reads the api string as a requirement: for an api `N` or `0.N`
(`N ≠ 0`) it accepts exactly the versions of that api; the api `0` accepts every 0.y.z -/
theorem api_string_as_requirement (n : Nat) (hn : n ≠ 0) (v : V) :
    (pinnedRule .caret [n] v ↔ apiClass v = .major n) ∧
    (pinnedRule .caret [0, n] v ↔ apiClass v = .zeroMinor n) ∧
    (pinnedRule .caret [0] v ↔ v.1 = 0) := by
  obtain ⟨x, y, z⟩ := v
  obtain ⟨n', rfl⟩ : ∃ n', n = n' + 1 := ⟨n - 1, by omega⟩
  refine ⟨?_, ?_, ?_⟩
  · simp [pinnedRule, cargoRule, tle, tlt, apiClass]
    by_cases hx : x = 0
    · by_cases hy : y = 0 <;> simp [hx, hy]
    · simp [hx]; omega
  · simp [pinnedRule, cargoRule, tle, tlt, apiClass]
    by_cases hx : x = 0 <;> by_cases hy : y = 0 <;> simp [hx, hy] <;> omega
  · simp only [pinnedRule, cargoRule, tle, tlt, Prod.mk.injEq]
    omega

/-! ### Cargo.lock resolution -/

/-- `_resolve_package` over `CargoLock.named` returns an accepted package of that name, and no
accepted package of that name in Cargo.lock has higher precedence (for ALL lock files, names and
predicates) -/
theorem lock_resolution_picks_newest_accepted (l : List LockPkg) (name : List Char)
    (acc : List Char → Bool) (p : LockPkg) (h : resolveWith (some l) name acc = some p) :
    p ∈ l ∧ p.name = name ∧ acc p.version = true ∧
      ∀ q, q ∈ l → q.name = name → acc q.version = true → vlt (key p) (key q) = false :=
  resolve_some l name acc p h

/-- … and it returns nothing exactly when Cargo.lock has no accepted package of that name -/
theorem lock_resolution_none_iff (l : List LockPkg) (name : List Char) (acc : List Char → Bool) :
    resolveWith (some l) name acc = none ↔ ∀ q, q ∈ l → q.name = name → acc q.version = false :=
  resolve_none l name acc

example : resolveWith (some [⟨['a'], "1.2.0".toList⟩, ⟨['b'], "9.0.0".toList⟩, ⟨['a'], "1.10.0".toList⟩,
      ⟨['a'], "2.0.0".toList⟩]) ['a'] (cargoParse "1".toList) = some ⟨['a'], "1.10.0".toList⟩ := by decide

/-- the sort is a stable descending sort: the listing has the same packages, never a newer one
after an older one -/
theorem lock_listing_sorted (l : List LockPkg) (name : List Char) :
    Desc (named l name) ∧ ∀ q, q ∈ named l name ↔ (q ∈ l ∧ q.name = name) := by
  refine ⟨sortDesc_desc _, fun q => ?_⟩
  simp [named, mem_sortDesc]

/-- `_dep_package` (registry branch): when Cargo.lock has an accepted version the requirement is
pinned to it and `_fetch_package` is asked for the api of exactly that version -/
theorem dep_pin_fetches_package_api (l : List LockPkg) (pkg req : List Char) (p : LockPkg)
    (ds : List (List Char)) (h : resolveWith (some l) pkg (cargoParse req) = some p)
    (hv : p.version = dotted ds) (hne : ds ≠ []) (hd : ∀ d, d ∈ ds → IsNum d) :
    depPin (some l) pkg req = ('=' :: p.version, .ok (apiText ds)) ∧ api p.version = .ok (apiText ds) := by
  have := api_version_text ds hne hd
  simp [depPin, h, hv, this.1, this.2]

/-- without an accepted lock entry (or without Cargo.lock) the requirement is left alone -/
theorem dep_pin_unresolved (lock : Option (List LockPkg)) (pkg req : List Char)
    (h : resolveWith lock pkg (cargoParse req) = none) : depPin lock pkg req = (req, api req) := by
  simp [depPin, h]

/-! ### `[target.'<condition>'.dependencies]` -/

/-- After the merge loop of `_prepare_package` the dependency table is the original table updated
with the tables of exactly the targets whose condition holds, in manifest order (a later enabled
table wins): for every dependency name, the entry comes from the last enabled target table naming
it, else from `[dependencies]`. -/
theorem target_dependencies_selected (triple : List Char) (cfgs : Cfgs) (ts : List (List Char × Deps))
    (d r : Deps) (h : mergeTargets triple cfgs d ts = .ok r) (k : List Char) :
    r.lookup k =
      ((((ts.filter (isEnabled triple cfgs)).flatMap (fun t => t.2)).reverse).lookup k).or (d.lookup k) := by
  rw [mergeTargets_ok triple cfgs ts d r h, dictUpdate_lookup]

/-- a malformed condition is never skipped or taken silently: the loop raises iff some condition
(other than the literal target triple) makes `eval_cfg` raise -/
theorem target_condition_error_iff (triple : List Char) (cfgs : Cfgs) (ts : List (List Char × Deps)) (d : Deps) :
    (∃ e, mergeTargets triple cfgs d ts = .error e) ↔
      ∃ t, t ∈ ts ∧ ∃ e, conditionHolds triple cfgs t.1 = .error e :=
  mergeTargets_error_iff triple cfgs ts d

/-- for the text of a cfg expression the condition is the value of its structure -/
theorem target_condition_of_cfg_text (triple : List Char) (cfgs : Cfgs) (e : IR) (h : lexOk e) :
    conditionHolds triple cfgs ("cfg(".toList ++ renderStr e ++ [')']) =
      .ok (decide ("cfg(".toList ++ renderStr e ++ [')'] = triple) || evalIR cfgs e) := by
  have hr := evalCfg_render e h cfgs
  unfold conditionHolds
  by_cases heq : "cfg(".toList ++ renderStr e ++ [')'] = triple
  · rw [if_pos heq, decide_eq_true heq]; rfl
  · rw [if_neg heq, hr, decide_eq_false heq]; rfl

/-- a condition that is not of the form `cfg(…)` only matches as the literal target triple -/
theorem target_condition_triple (triple : List Char) (cfgs : Cfgs) (cond : List Char)
    (h : MesonModel.Py.startsWith cond ['c', 'f', 'g', '('] = false) :
    conditionHolds triple cfgs cond = .ok (decide (cond = triple)) := by
  unfold conditionHolds
  split
  · rename_i heq; simp [heq]
  · rename_i hne; simp [evalCfg, h, hne]

/-- `_prepare_package` runs once per machine on the same manifest and updates it in place: the
second machine's table is the first machine's result updated with the second machine's targets -/
theorem target_merge_history_accumulates (d : Deps) (ts : List (List Char × Deps))
    (t1 t2 : List Char) (c1 c2 : Cfgs) (r1 r2 : Deps)
    (h : mergeHistory d ts [(t1, c1), (t2, c2)] = .ok [r1, r2]) :
    r1 = dictUpdate d ((ts.filter (isEnabled t1 c1)).flatMap (fun t => t.2)) ∧
    r2 = dictUpdate r1 ((ts.filter (isEnabled t2 c2)).flatMap (fun t => t.2)) := by
  simp only [mergeHistory] at h
  cases h1 : mergeTargets t1 c1 d ts with
  | error e => simp [h1] at h
  | ok x =>
    cases h2 : mergeTargets t2 c2 x ts with
    | error e => simp [h1, h2] at h
    | ok y =>
      simp [h1, h2] at h
      obtain ⟨rfl, rfl⟩ := h
      exact ⟨mergeTargets_ok _ _ _ _ _ h1, mergeTargets_ok _ _ _ _ _ h2⟩

/-- consequence on a witness: a dependency enabled only for the first machine (`cfg(windows)`) is
still in the table the second machine (`unix`) resolves from -/
theorem target_merge_second_machine_witness :
    mergeHistory [] [("cfg(windows)".toList, [("winapi".toList, "0.3".toList)])]
      [("x86_64-pc-windows-msvc".toList, [("windows".toList, [])]),
       ("x86_64-unknown-linux-gnu".toList, [("unix".toList, [])])] =
      .ok [[("winapi".toList, "0.3".toList)], [("winapi".toList, "0.3".toList)]] ∧
    mergeTargets "x86_64-unknown-linux-gnu".toList [("unix".toList, [])] []
      [("cfg(windows)".toList, [("winapi".toList, "0.3".toList)])] = .ok [] := by decide

/-! ### `SystemDependency.meson_version` -/

/-- a bare system-deps version is a minimum version under the meson version order (C19) -/
theorem system_dep_bare_version_is_minimum (p : List Char) (c : Char) (r v : List Char)
    (hs : MesonModel.Py.strip p = c :: r) (hc : isCmpStart c = false) :
    mesonVersionPiece p = .ok ('>' :: '=' :: c :: r) ∧
    MesonModel.Version.versionCompare v ('>' :: '=' :: c :: r) =
      MesonModel.Version.vge (MesonModel.Version.tokenize v) (MesonModel.Version.tokenize p) := by
  refine ⟨by simp [mesonVersionPiece, hs, hc], ?_⟩
  rw [versionCompare_ge', ← hs, MesonModel.Version.tokenize_strip]

/-- a piece that starts with `>`, `<` or `=` is passed to meson unchanged (stripped) -/
theorem system_dep_constraint_passed_through (p : List Char) (c : Char) (r : List Char)
    (hs : MesonModel.Py.strip p = c :: r) (hc : isCmpStart c = true) :
    mesonVersionPiece p = .ok (MesonModel.Py.strip p) := by
  simp [mesonVersionPiece, hs, hc]

/-- the found version is accepted iff every converted constraint holds; there is one constraint per
comma piece, in order -/
theorem system_dep_accepts_iff (version v : List Char) (b : Bool)
    (h : systemDepAccepts version v = .ok b) :
    ∃ cs, mesonVersion version = .ok cs ∧
      (b = true ↔ ∀ c, c ∈ cs → MesonModel.Version.versionCompare v c = true) := by
  unfold systemDepAccepts at h
  cases hm : mesonVersion version with
  | error e => simp [hm] at h
  | ok cs =>
    simp [hm] at h
    refine ⟨cs, rfl, ?_⟩
    subst h
    simp [MesonModel.Version.versionCompareMany, List.filter_eq_nil_iff]

theorem system_dep_pieces (version : List Char) (hne : version ≠ []) (cs : List (List Char))
    (h : mesonVersion version = .ok cs) :
    cs.length = (splitOnChar ',' version).length ∧
      ∀ i (hi : i < (splitOnChar ',' version).length) (hj : i < cs.length),
        mesonVersionPiece (splitOnChar ',' version)[i] = .ok cs[i] := by
  simp only [mesonVersion, hne, if_false] at h
  exact mesonVersionPieces_ok _ _ h

/-- QUIRK: a blank piece (`"1.2,"`, `" "`) is not rejected with a MesonException; `v[0]` raises
IndexError. The empty string is handled (no constraint). -/
theorem system_dep_blank_piece_raises (version : List Char) :
    mesonVersion version = .error .indexError ↔
      version ≠ [] ∧ ∃ p, p ∈ splitOnChar ',' version ∧ MesonModel.Py.strip p = [] := by
  unfold mesonVersion
  by_cases h : version = []
  · simp [h]
  · simp [h, mesonVersionPieces_error_iff]

example : mesonVersion "1.2, <2".toList = .ok [">=1.2".toList, "<2".toList] ∧
    mesonVersion [] = .ok [] ∧ mesonVersion "1.2,".toList = .error .indexError := by decide

end Consumers

end MesonModel.Props.C20
