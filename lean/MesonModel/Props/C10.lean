import MesonModel.DepPolicy.Lemmas
import MesonModel.DepPolicy.WrapLemmas
/-
C10 — Dependencies resolve by the documented fallback policy, from verified sources.

Part (a): theorems over `MesonModel.DepPolicy.lookup` (model of `DependencyFallbacksHolder.lookup`),
for every world, every request and every meaning `sat` of version constraints.
Part (b): theorems over `MesonModel.DepPolicy.Wrap.resolve` (model of `Resolver._resolve` for
wrap-file wraps), for every configuration, environment and *every fault function*.
-/
namespace MesonModel.Props.C10
open MesonModel.DepPolicy

section dep
variable (sat : Str → List Str → Bool)

theorem implicitFallback_names (w : World) (req : Bool) : ∀ ns h, (implicitFallback w req ns h).names = h.names := by
  intro ns
  induction ns with
  | nil => intro h; rfl
  | cons n rest ih =>
    intro h
    unfold implicitFallback
    simp only []
    repeat (first | split | rfl | exact ih _)

theorem alookup_append_of_some {β : Type} (k : Str) (v : β) :
    ∀ (l l' : List (Str × β)), alookup k l = some v → alookup k (l ++ l') = some v := by
  intro l
  induction l with
  | nil => intro l' h; simp [alookup] at h
  | cons p rest ih =>
    intro l' h
    rcases p with ⟨k', v'⟩
    simp only [List.cons_append, alookup] at h ⊢
    split
    · rename_i hk; simpa [hk] using h
    · rename_i hk; simp only [hk, if_false] at h; exact ih l' h

theorem alookup_addImplicit_of_some (k : Str) (v : Dep × Bool) (d : Dep) :
    ∀ (names : List Str) (ov : List (Str × Dep × Bool)), alookup k ov = some v →
      alookup k (addImplicit ov d names) = some v := by
  intro names
  induction names with
  | nil => intro ov h; simpa [addImplicit] using h
  | cons n rest ih =>
    intro ov h
    unfold addImplicit
    split
    · exact ih ov h
    · exact ih _ (alookup_append_of_some k v ov _ h)

theorem prepare_names (w : World) (r : Request) (h : Holder) : (prepare w r h).names = h.names := by
  unfold prepare
  simp only []
  split
  · rw [implicitFallback_names]
  · rfl

/-- **Forced fallback never consults the system.** Whenever `lookup` has determined that fallback is
forced (`wrap_mode=forcefallback`, or `force_fallback_for` naming the dependency or the subproject) and
a fallback subproject is designated (explicit `fallback:` or an admitted wrap `[provide]` entry), the
lookup performs no `find_external_dependency` call and no read of the system-dependency cache —
whatever the system offers, for every world and request. -/
theorem forced_never_consults_system (w : World) (r : Request) (h0 : Holder)
    (hm : mkHolder r = .ok h0) (hf : Forced (prepare w r h0)) :
    ∀ e ∈ (lookup sat w r).trace, e.isSystem = false := by
  unfold lookup
  rw [hm]
  simp only []
  split
  · intro e he; simp at he
  · exact loop_forced sat _ hf r.wanted r.required _ w [] (getCandidates_forced _ hf) (by intro e he; simp at he)

/-- the hypothesis of `forced_never_consults_system` spelled out for an explicit `fallback: [sp, ...]` -/
theorem forced_explicit (w : World) (r : Request) (h0 : Holder) (sp : Str) (hsp : h0.spName = some sp)
    (hne : sp ≠ [])
    (hforce : w.wrapMode = .forcefallback ∨ w.fff.contains sp = true ∨ h0.names.any (fun n => w.fff.contains n) = true) :
    Forced (prepare w r h0) := by
  have ht : truthy h0.spName = true := by
    rw [hsp]; cases sp with
    | nil => exact absurd rfl hne
    | cons a b => rfl
  have ht' : truthy (some sp) = true := by rw [← hsp]; exact ht
  unfold prepare
  simp only [hsp, ht']
  refine ⟨?_, ?_⟩
  · rcases hforce with h | h | h
    · simp [h]
    · have : sp ∈ w.fff := by simpa using h
      simp [this]
    · have : ∃ x, x ∈ h0.names ∧ x ∈ w.fff := by simpa using h
      simp [this]
  · simp [ht']

/-- **`wrap_mode=nofallback` never configures a subproject** (unless fallback is forced for this
dependency, which the documents give precedence): no call of `Interpreter.do_subproject` at all. -/
theorem nofallback_never_configures (w : World) (r : Request) (h0 : Holder)
    (hm : mkHolder r = .ok h0) (hn : NoFallback (prepare w r h0)) :
    ∀ e ∈ (lookup sat w r).trace, e.isSubproject = false := by
  unfold lookup
  rw [hm]
  simp only []
  split
  · intro e he; simp at he
  · exact loop_nofallback sat _ hn r.wanted r.required _ w [] (by intro e he; simp at he)

/-- **An overridden dependency wins.** If the first name has an override (from
`meson.override_dependency` or recorded by an earlier successful lookup) that is found and satisfies the
version constraint, `lookup` returns exactly it — whatever the system, the wrap mode, the fallback
arguments and `required` are — without any effect, and leaves the world as it was up to the implicit
overrides of the other names. -/
theorem override_wins (w : World) (r : Request) (h0 : Holder) (n : Str) (ns : List Str) (d : Dep) (ex : Bool)
    (hm : mkHolder r = .ok h0) (hn : h0.names = n :: ns)
    (ho : alookup n w.overrides = some (d, ex)) (hfound : d.found = true)
    (hv : checkVersion sat r.wanted d.version = true) :
    (lookup sat w r).out = .found d ∧ (lookup sat w r).trace = [] := by
  unfold lookup
  rw [hm]
  simp only []
  have hnames : (prepare w r h0).names = n :: ns := by rw [prepare_names, hn]
  have hc : ∃ rest, getCandidates (prepare w r h0) = Cand.cache n :: rest := by
    unfold getCandidates
    rw [hnames]
    exact ⟨_, rfl⟩
  rcases hc with ⟨rest, hc⟩
  rw [hc]
  simp [loop, runCand, getCachedDep, ho, hfound, hv]

/-- `override_wins` is what makes repeated lookups agree: after a successful lookup every name has an
override, and the first name's override is the answer of the next lookup with the same arguments. -/
theorem repeat_lookup_stable_partial (w : World) (r : Request) (h0 : Holder) (n : Str) (ns : List Str) (d : Dep) (ex : Bool)
    (hm : mkHolder r = .ok h0) (hn : h0.names = n :: ns)
    (ho : alookup n w.overrides = some (d, ex)) (hfound : d.found = true)
    (hv : checkVersion sat r.wanted d.version = true) :
    (lookup sat (lookup sat w r).world r).out = (lookup sat w r).out := by
  have h1 := (override_wins sat w r h0 n ns d ex hm hn ho hfound hv).1
  have hw : alookup n (lookup sat w r).world.overrides = some (d, ex) := by
    unfold lookup
    rw [hm]
    simp only []
    have hnames : (prepare w r h0).names = n :: ns := by rw [prepare_names, hn]
    have hc : ∃ rest, getCandidates (prepare w r h0) = Cand.cache n :: rest := by
      unfold getCandidates
      rw [hnames]
      exact ⟨_, rfl⟩
    rcases hc with ⟨rest, hc⟩
    rw [hc]
    simp [loop, runCand, getCachedDep, ho, hfound, hv]
    exact alookup_addImplicit_of_some n (d, ex) d _ _ ho
  rw [h1]
  exact (override_wins sat _ r h0 n ns d ex hm hn hw hfound hv).1

end dep

/-! ## Part (b): wrap acquisition -/
section wrap
open MesonModel.DepPolicy.Wrap

/-- **Hash gate.** On every run of the acquisition — URL, fallback URL, package cache, packagefiles;
source and patch; every fault function — an archive is handed to `unpack_archive` only if its
SHA-256 equals the hash the wrap file records for it. -/
theorem hash_gate (cfg : Cfg) (env : Env) (flt : Faults) (w : What) (sha h : Hash)
    (hused : Event.used w sha ∈ (resolve cfg env flt).st.trace)
    (hrec : (fileCfg cfg w).hash = some h) : sha = h := by
  have := resolve_gate cfg env flt _ hused
  exact this h hrec

/-- nothing with a wrong digest is ever put into the package cache either -/
theorem hash_gate_cache (cfg : Cfg) (env : Env) (flt : Faults) (w : What) (sha h : Hash)
    (hst : Event.cacheStore w sha ∈ (resolve cfg env flt).st.trace)
    (hrec : (fileCfg cfg w).hash = some h) : sha = h := by
  have := resolve_gate cfg env flt _ hst
  exact this h hrec

/-- **Nothing is fetched under `wrap_mode=nodownload`**: no download attempt from any URL. -/
theorem nodownload_no_fetch (cfg : Cfg) (env : Env) (flt : Faults) (hnd : cfg.nodownload = true)
    (w : What) (fb : Bool) : Event.fetch w fb ∉ (resolve cfg env flt).st.trace := by
  intro hmem
  have := resolve_gate cfg env flt _ hmem
  simp [GateEv, hnd] at this

/-- **A failed acquisition, unpack, patch or diff step removes the freshly created directory.** -/
theorem failed_step_removes_dir (cfg : Cfg) (env : Env) (flt : Faults)
    (hp : (resolve cfg env flt).phase = .patch ∨ (resolve cfg env flt).phase = .acquire) :
    (resolve cfg env flt).ok = false ∧ (resolve cfg env flt).st.dirExists = false ∧
    (resolve cfg env flt).st.dirBuild = false ∧ Event.rmtree ∈ (resolve cfg env flt).st.trace := by
  unfold resolve at hp ⊢
  simp only [] at hp ⊢
  have hfin : ∀ s, (finish s).phase = .final := by intro s; unfold finish; split <;> rfl
  split at hp
  · rcases hp with hp | hp <;> cases hp
  · split at hp
    · split at hp
      · rcases hp with hp | hp <;> cases hp
      · rw [hfin] at hp; rcases hp with hp | hp <;> cases hp
    · rename_i h1 h2
      simp only [h1, h2]
      generalize acquire cfg env flt (initSt env) = acq at hp ⊢
      rcases acq with ⟨u, s1⟩ | ⟨e, s1⟩
      · simp only [] at hp ⊢
        generalize patchPhase cfg env flt s1 = pr at hp ⊢
        rcases pr with ⟨u2, s2⟩ | ⟨e2, s2⟩
        · simp only [] at hp; rw [hfin] at hp; rcases hp with hp | hp <;> cases hp
        · simp [cleanup, St.log]
      · simp [cleanup, St.log]

/-- the statement of C10 for the patch/diff step -/
theorem failed_patch_removes_dir (cfg : Cfg) (env : Env) (flt : Faults)
    (hp : (resolve cfg env flt).phase = .patch) :
    (resolve cfg env flt).ok = false ∧ (resolve cfg env flt).st.dirExists = false ∧
    (resolve cfg env flt).st.dirBuild = false ∧ Event.rmtree ∈ (resolve cfg env flt).st.trace :=
  failed_step_removes_dir cfg env flt (Or.inl hp)

/-- every failed run that started without the directory ends without it: whatever step failed
(fetch, verify, unpack, patch, diff, or the missing build file is the only exception: nothing to accept) -/
theorem failed_run_leaves_nothing_acceptable (cfg : Cfg) (env : Env) (flt : Faults)
    (hne : env.dirExists = false) (hfail : (resolve cfg env flt).ok = false) :
    (resolve cfg env flt).st.dirBuild = false := by
  unfold resolve at hfail ⊢
  simp only [initSt, hne] at hfail ⊢
  simp at hfail ⊢
  generalize acquire cfg env flt _ = acq at hfail ⊢
  rcases acq with ⟨u, s1⟩ | ⟨e, s1⟩
  · simp only [] at hfail ⊢
    generalize patchPhase cfg env flt s1 = pr at hfail ⊢
    rcases pr with ⟨u2, s2⟩ | ⟨e2, s2⟩
    · simp only [] at hfail ⊢
      unfold finish at hfail ⊢
      split at hfail
      · rename_i hb
        have hb' : s2.dirBuild = false := by simpa using hb
        simp [hb']
      · simp at hfail
    · simp [cleanup, St.log]
  · simp [cleanup, St.log]

/-- ... so that no later run accepts a half-prepared subproject: after any failed run that started
without the directory, the next run (any faults) does not take the "directory with a build file is
already there" exit with success. -/
theorem failed_run_not_accepted_later (cfg : Cfg) (env : Env) (flt flt' : Faults)
    (hne : env.dirExists = false) (hfail : (resolve cfg env flt).ok = false) :
    ¬ ((resolve cfg (nextEnv env (resolve cfg env flt).st) flt').phase = .early ∧
       (resolve cfg (nextEnv env (resolve cfg env flt).st) flt').ok = true) := by
  have h := failed_run_leaves_nothing_acceptable cfg env flt hne hfail
  generalize (resolve cfg env flt).st = s at h
  have hfin : ∀ s, (finish s).phase = .final := by intro s; unfold finish; split <;> rfl
  unfold resolve
  simp only [initSt, nextEnv, h]
  simp
  by_cases hd : s.dirExists = true
  · simp only [hd, if_true]
    intro hph; rw [hfin] at hph; cases hph
  · simp only [hd, if_false]
    generalize acquire _ _ _ _ = acq
    rcases acq with ⟨u, s1⟩ | ⟨e, s1⟩
    · simp only []
      generalize patchPhase _ _ _ _ = pr
      rcases pr with ⟨u2, s2⟩ | ⟨e2, s2⟩
      · simp [hfin]
      · simp
    · simp

/-! non-vacuity: concrete runs -/

def goodC : Content := { sha := 1, unpackOk := true, createsDir := true, hasBuildfile := true }
def evilC : Content := { sha := 2, unpackOk := true, createsDir := true, hasBuildfile := true }
def noBuildC : Content := { sha := 5, unpackOk := true, createsDir := true, hasBuildfile := false }
def urlCfg (nd : Bool) : Cfg :=
  { nodownload := nd, source := { hasFilename := true, hasUrl := true, hasFallbackUrl := true, hash := some 1 },
    hasPatchFilename := false, patch := { hasFilename := false, hasUrl := false, hasFallbackUrl := false, hash := none },
    hasPatchDirectory := false, leadDirMissing := false }
def urlEnv (diffs : List DiffEnv) (src : Content) : Env :=
  { dirExists := false, dirIsDir := true, dirBuild := false, cachedDir := none,
    source := { cache := none, pkgfile := none, url := .ok evilC, fallbackUrl := .ok src },
    patch := { cache := none, pkgfile := none, url := .wrapFail, fallbackUrl := .wrapFail },
    patchDirExists := false, patchDirBuild := false, diffs := diffs }
def noFaults : Faults := fun _ => .none

/-- tampered primary URL, good mirror: the tampered archive is fetched but never used; the good one is -/
example : (resolve (urlCfg false) (urlEnv [] goodC) noFaults).ok = true
    ∧ (resolve (urlCfg false) (urlEnv [] goodC) noFaults).st.trace =
      (List.replicate 1 (Event.fetch .source false)) ++ [.fetch .source true, .cacheStore .source 1, .used .source 1] := by decide
/-- the same under nodownload: an error, and nothing fetched -/
example : (resolve (urlCfg true) (urlEnv [] goodC) noFaults).ok = false
    ∧ (resolve (urlCfg true) (urlEnv [] goodC) noFaults).st.trace = [.rmtree] := by decide
/-- a diff that does not apply: phase `patch`, directory removed -/
example : (resolve (urlCfg false) (urlEnv [⟨true, false⟩] goodC) noFaults).phase = .patch
    ∧ (resolve (urlCfg false) (urlEnv [⟨true, false⟩] goodC) noFaults).st.dirExists = false := by decide

end wrap

end MesonModel.Props.C10
