import MesonModel.DepPolicy.Lemmas
import MesonModel.DepPolicy.Repeat
import MesonModel.DepPolicy.RegisterLemmas
import MesonModel.DepPolicy.CacheLemmas
import MesonModel.Generated.DepCacheTable
import MesonModel.DepPolicy.WrapLemmas
import MesonModel.DepPolicy.WrapFileLemmas
/-
C10 — Dependencies resolve by the documented fallback policy, from verified sources.

Part (a): theorems over `MesonModel.DepPolicy.lookup` (model of `DependencyFallbacksHolder.lookup`),
for every world, every request and every meaning `sat` of version constraints.
Part (b): theorems over `MesonModel.DepPolicy.Wrap.resolve` (model of `Resolver._resolve` for
wrap-file wraps), for every configuration, environment and *every fault function*.
-/
namespace MesonModel.Props.C10
open MesonModel.DepPolicy

section dep
variable (sat : Str → List Str → Bool)

theorem implicitFallback_names (w : World) (req : Bool) : ∀ ns h, (implicitFallback w req ns h).names = h.names := by
  intro ns
  induction ns with
  | nil => intro h; rfl
  | cons n rest ih =>
    intro h
    unfold implicitFallback
    simp only []
    repeat (first | split | rfl | exact ih _)

theorem alookup_append_of_some {β : Type} (k : Str) (v : β) :
    ∀ (l l' : List (Str × β)), alookup k l = some v → alookup k (l ++ l') = some v := by
  intro l
  induction l with
  | nil => intro l' h; simp [alookup] at h
  | cons p rest ih =>
    intro l' h
    rcases p with ⟨k', v'⟩
    simp only [List.cons_append, alookup] at h ⊢
    split
    · rename_i hk; simpa [hk] using h
    · rename_i hk; simp only [hk, if_false] at h; exact ih l' h

theorem alookup_addImplicit_of_some (k : Str) (v : Dep × Bool) (d : Dep) :
    ∀ (names : List Str) (ov : List (Str × Dep × Bool)), alookup k ov = some v →
      alookup k (addImplicit ov d names) = some v := by
  intro names
  induction names with
  | nil => intro ov h; simpa [addImplicit] using h
  | cons n rest ih =>
    intro ov h
    unfold addImplicit
    split
    · exact ih ov h
    · exact ih _ (alookup_append_of_some k v ov _ h)

theorem prepare_names (w : World) (r : Request) (h : Holder) : (prepare w r h).names = h.names := by
  unfold prepare
  simp only []
  split
  · rw [implicitFallback_names]
  · rfl

/-- **Forced fallback never consults the system.** Whenever `lookup` has determined that fallback is
forced (`wrap_mode=forcefallback`, or `force_fallback_for` naming the dependency or the subproject) and
a fallback subproject is designated (explicit `fallback:` or an admitted wrap `[provide]` entry), the
lookup performs no `find_external_dependency` call and no read of the system-dependency cache —
whatever the system offers, for every world and request. -/
theorem forced_never_consults_system (w : World) (r : Request) (h0 : Holder)
    (hm : mkHolder r = .ok h0) (hf : Forced (prepare w r h0)) :
    ∀ e ∈ (lookup sat w r).trace, e.isSystem = false := by
  unfold lookup
  rw [hm]
  simp only []
  split
  · intro e he; simp at he
  · exact loop_forced sat _ hf r.wanted r.required _ w [] (getCandidates_forced _ hf) (by intro e he; simp at he)

/-- the hypothesis of `forced_never_consults_system` spelled out for an explicit `fallback: [sp, ...]` -/
theorem forced_explicit (w : World) (r : Request) (h0 : Holder) (sp : Str) (hsp : h0.spName = some sp)
    (hne : sp ≠ [])
    (hforce : w.wrapMode = .forcefallback ∨ w.fff.contains sp = true ∨ h0.names.any (fun n => w.fff.contains n) = true) :
    Forced (prepare w r h0) := by
  have ht : truthy h0.spName = true := by
    rw [hsp]; cases sp with
    | nil => exact absurd rfl hne
    | cons a b => rfl
  have ht' : truthy (some sp) = true := by rw [← hsp]; exact ht
  unfold prepare
  simp only [hsp, ht']
  refine ⟨?_, ?_⟩
  · rcases hforce with h | h | h
    · simp [h]
    · have : sp ∈ w.fff := by simpa using h
      simp [this]
    · have : ∃ x, x ∈ h0.names ∧ x ∈ w.fff := by simpa using h
      simp [this]
  · simp [ht']

/-- **`wrap_mode=nofallback` never configures a subproject** (unless fallback is forced for this
dependency, which the documents give precedence): no call of `Interpreter.do_subproject` at all. -/
theorem nofallback_never_configures (w : World) (r : Request) (h0 : Holder)
    (hm : mkHolder r = .ok h0) (hn : NoFallback (prepare w r h0)) :
    ∀ e ∈ (lookup sat w r).trace, e.isSubproject = false := by
  unfold lookup
  rw [hm]
  simp only []
  split
  · intro e he; simp at he
  · exact loop_nofallback sat _ hn r.wanted r.required _ w [] (by intro e he; simp at he)

/-- **An overridden dependency wins.** If the first name has an override (from
`meson.override_dependency` or recorded by an earlier successful lookup) that is found and satisfies the
version constraint, `lookup` returns exactly it — whatever the system, the wrap mode, the fallback
arguments and `required` are — without any effect, and leaves the world as it was up to the implicit
overrides of the other names. -/
theorem override_wins (w : World) (r : Request) (h0 : Holder) (n : Str) (ns : List Str) (d : Dep) (ex : Bool)
    (hm : mkHolder r = .ok h0) (hn : h0.names = n :: ns)
    (ho : alookup n w.overrides = some (d, ex)) (hfound : d.found = true)
    (hv : checkVersion sat r.wanted d.version = true) :
    (lookup sat w r).out = .found d ∧ (lookup sat w r).trace = [] := by
  unfold lookup
  rw [hm]
  simp only []
  have hnames : (prepare w r h0).names = n :: ns := by rw [prepare_names, hn]
  have hc : ∃ rest, getCandidates (prepare w r h0) = Cand.cache n :: rest := by
    unfold getCandidates
    rw [hnames]
    exact ⟨_, rfl⟩
  rcases hc with ⟨rest, hc⟩
  rw [hc]
  simp [loop, runCand, getCachedDep, ho, hfound, hv]

/-- **`lookup` is the documented decision table.** For every meaning `sat` of version constraints, every
world (overrides, cache, system, wrap `[provide]` tables, subprojects and what configuring them does,
`wrap_mode`, `force_fallback_for`) and every request (any number of names, constraint, `required`,
`allow_fallback`, `fallback`) whose names are lower case, the model of
`DependencyFallbacksHolder.lookup` returns the outcome `policy` prescribes (errors compared as "an
error") and leaves exactly the world `policy` prescribes.  `policy` (`DepPolicy/Policy.lean`) is written
from the documents with the readings R1–R3, independently of `lookup`. -/
theorem lookup_eq_policy (w : World) (r : Request) (hwf : WellFormed r) :
    (lookup sat w r).out.simplify = (policy sat w r).1 ∧ (lookup sat w r).world = (policy sat w r).2 := by
  have h := lookup_eq_policy_core sat w r hwf
  exact ⟨congrArg Prod.fst h, congrArg Prod.snd h⟩

/-- **Repeated lookups with the same arguments return the same dependency**: if a lookup (at least one
name, lower-case names) returns `found d`, the same lookup in the world it leaves returns `found d`. -/
theorem repeat_lookup_stable (w : World) (r : Request) (d : Dep) (hwf : WellFormed r) (hne : r.names ≠ [])
    (h : (lookup sat w r).out = .found d) :
    (lookup sat (lookup sat w r).world r).out = .found d := by
  have h1 := lookup_eq_policy sat w r hwf
  have hp : (policy sat w r).1 = .found d := by rw [← h1.1, h]; rfl
  have h2 := lookup_eq_policy sat (lookup sat w r).world r hwf
  rw [h1.2] at h2 ⊢
  have := policy_repeat sat w r d hne hp
  rw [this] at h2
  cases ho : (lookup sat (policy sat w r).2 r).out with
  | found d' => rw [ho] at h2; simp [Outcome.simplify] at h2; rw [h2.1]
  | notFound => rw [ho] at h2; simp [Outcome.simplify] at h2
  | error k => rw [ho] at h2; simp [Outcome.simplify] at h2

/-- a sequence of lookups is the sequence the policy prescribes -/
theorem lookupSeq_eq_policySeq : ∀ (rs : List Request) (w : World), (∀ r ∈ rs, WellFormed r) →
    (lookupSeq sat w rs).map (fun x => (x.out.simplify, x.world)) = policySeq sat w rs := by
  intro rs
  induction rs with
  | nil => intro w _; rfl
  | cons r rest ih =>
    intro w hwf
    have h1 := lookup_eq_policy sat w r (hwf r (by simp))
    have ih' := ih (lookup sat w r).world (fun q hq => hwf q (by simp [hq]))
    have hp : ((lookup sat w r).out.simplify, (lookup sat w r).world) = policy sat w r := Prod.ext h1.1 h1.2
    simp only [lookupSeq, policySeq]
    rw [← hp]
    have e1 : ∀ d, (Outcome.found d).simplify = POutcome.found d := fun _ => rfl
    have e2 : Outcome.notFound.simplify = POutcome.notFound := rfl
    have e3 : ∀ k, (Outcome.error k).simplify = POutcome.error := fun _ => rfl
    cases ho : (lookup sat w r).out <;> simp [ho, e1, e2, e3, ih']

/-! non-vacuity: a required `dependency('foo')` with `foo.wrap` providing it and nothing on the system
configures the subproject and returns its override; the second lookup returns the same object -/
def dFoo : Dep := { ident := "d".toList, found := true, version := "2.0".toList }
def w0 : World :=
  { wrapMode := .default, fff := [], overrides := [], cache := [], system := [],
    provides := [("foo".toList, "foosub".toList, none)],
    subs := [{ name := "foosub".toList, state := .no, configureOk := true,
               overrides := [("foo".toList, dFoo)], vars := [] }] }
def r0 : Request := { names := ["foo".toList], wanted := [], required := true, allowFallback := none, fallback := none }

example : WellFormed r0 := by
  intro n hn
  simp [r0] at hn
  subst hn
  decide
example : (lookup (fun _ _ => true) w0 r0).out = .found dFoo := by decide
example : (policy (fun _ _ => true) w0 r0).1 = .found dFoo := by decide


/-! non-vacuity of the precedence clause: `wrap_mode=nofallback`, `force_fallback_for=foo`, `foo` 1.0 on the system,
`foo.wrap`-style `[provide]` entry: the subproject is configured and answers; without `force_fallback_for` the
system's copy is returned and nothing is configured -/
def wNF (fff : List Str) : World :=
  { w0 with wrapMode := .nofallback, fff := fff, system := [("foo".toList, "1.0".toList)] }

example : (lookup (fun _ _ => true) (wNF ["foo".toList]) r0).out = .found dFoo
    ∧ Effect.configure "foosub".toList ∈ (lookup (fun _ _ => true) (wNF ["foo".toList]) r0).trace
    ∧ (policy (fun _ _ => true) (wNF ["foo".toList]) r0).1 = .found dFoo := by decide
example : (lookup (fun _ _ => true) (wNF ["foosub".toList]) r0).out = .found dFoo := by decide
example : (lookup (fun _ _ => true) (wNF []) r0).out = .found { ident := sysIdent "foo".toList "1.0".toList, found := true, version := "1.0".toList }
    ∧ (lookup (fun _ _ => true) (wNF []) r0).trace = [.cacheGet "foo".toList, .system "foo".toList] := by decide
/-- the variant with the `nofallback` test first (early return) is *not* the documented table: on the same world it
yields an error for the required lookup instead of the subproject's dependency -/
example : (plan (wNF ["foo".toList]) r0).forced = true ∧
    (if (wNF ["foo".toList]).wrapMode == .nofallback then (failure r0.required, wNF ["foo".toList])
     else fallbackStep (fun _ _ => true) (wNF ["foo".toList]) r0 (plan (wNF ["foo".toList]) r0) "foosub".toList none).1 = POutcome.error
    ∧ (fallbackStep (fun _ _ => true) (wNF ["foo".toList]) r0 (plan (wNF ["foo".toList]) r0) "foosub".toList none).1 = .found dFoo := by decide

/-! ### registration ∘ lookup: `meson.override_dependency()` then `dependency()` -/

/-- **Registration is the documented rule** ("if `static` is not given the override follows
`default_library`": `both` ⇒ it stands for the static and the shared flavour; a plain lookup finds every
override): see `register_covers` in `DepPolicy/RegisterLemmas.lean`, restated here for the audit. -/
theorem registration_follows_default_library (t : OvTable) (name : Str) (d : Dep) (s : Option Bool) (dl : DefLib)
    (nat : Bool) (hne : name ≠ []) (hfresh : ∀ σ, tlookup ⟨nat, name, σ⟩ t = none) :
    ∃ t', overrideDependency t name d s dl nat = some t' ∧
      (∀ σ, tlookup ⟨nat, name, σ⟩ t' = if covers s dl σ then some (d, true) else none) ∧
      (∀ k : Key, (k.native ≠ nat ∨ k.name ≠ name) → tlookup k t' = tlookup k t) :=
  register_covers t name d s dl nat hne hfresh

/-- **An overridden dependency wins, through the real registration path.** After
`meson.override_dependency(name, d, static: s)` made in a (sub)project with `default_library = dl` on a
fresh name, every host lookup whose first name is `name` and whose `static:` keyword `σ` is covered by the
documented rule returns `d`, with no effect at all (no system lookup, no cache read, no subproject) —
for every other content of the world, every wrap mode, every fallback argument. -/
theorem register_then_lookup_wins (t : OvTable) (name : Str) (d : Dep) (s : Option Bool) (dl : DefLib) (σ : Option Bool)
    (hne : name ≠ []) (hfresh : ∀ σ', tlookup ⟨false, name, σ'⟩ t = none) (hcov : covers s dl σ = true)
    (r : Request) (h0 : Holder) (ns : List Str) (hm : mkHolder r = .ok h0) (hn : h0.names = name :: ns)
    (hfound : d.found = true) (hv : checkVersion sat r.wanted d.version = true) :
    ∃ t', overrideDependency t name d s dl false = some t' ∧
      ∀ w : World, w.overrides = slice t' false σ →
        (lookup sat w r).out = .found d ∧ (lookup sat w r).trace = [] := by
  rcases register_covers t name d s dl false hne hfresh with ⟨t', h1, h2, _⟩
  refine ⟨t', h1, ?_⟩
  intro w hw
  have ho : alookup name w.overrides = some (d, true) := by
    rw [hw, alookup_slice, h2 σ, hcov]; rfl
  exact override_wins sat w r h0 name ns d true hm hn ho hfound hv

/-- the variant `if dl in {static, both} … elif dl in {shared, both}` is **not** the documented rule:
with `default_library=both` the shared flavour is never registered … -/
theorem register_elif_counterexample :
    ∃ t', overrideDependencyElif [] "foo".toList dFoo none .both false = some t' ∧
      covers none .both (some false) = true ∧ tlookup ⟨false, "foo".toList, some false⟩ t' = none := by
  refine ⟨_, rfl, rfl, ?_⟩
  decide

/-- … and `dependency('foo', static: false)` then returns the system's copy instead of the override -/
theorem register_elif_lookup_loses :
    ∃ t', overrideDependencyElif [] "foo".toList dFoo none .both false = some t' ∧
      (lookup (fun _ _ => true)
        { w0 with overrides := slice t' false (some false), system := [("foo".toList, "1.0".toList)], provides := [], subs := [] }
        { r0 with required := false }).out ≠ .found dFoo := by
  refine ⟨_, rfl, ?_⟩
  decide

/-- the real dispatch on the same input: the override is returned -/
example : ∃ t', overrideDependency [] "foo".toList dFoo none .both false = some t' ∧
      (lookup (fun _ _ => true)
        { w0 with overrides := slice t' false (some false), system := [("foo".toList, "1.0".toList)], provides := [], subs := [] }
        { r0 with required := false }).out = .found dFoo := by
  refine ⟨_, rfl, ?_⟩
  decide

/-! ### forced fallback takes precedence over `wrap_mode=nofallback`

docs/markdown/Subprojects.md: "`--force-fallback-for=list` … takes precedence over `--wrap-mode=nofallback`". -/

def stepTrace : Step → List Effect
  | .cont _ t => t
  | .hit _ _ t => t
  | .raise _ _ t => t

/-- the clause in the model of the code (`_do_subproject`): with `forcefallback` set the `nofallback` flag is not
looked at — `Interpreter.do_subproject` is entered whatever `wrap_mode` says … -/
theorem forced_enters_do_subproject (h : Holder) (wanted : List Str) (req : Bool) (w : World) (sp : Str)
    (hf : h.forcefallback = true) :
    Effect.doSubproject sp ∈ stepTrace (runCand sat h wanted req w (.subproject sp)) := by
  have hd : ∀ (x : Except ErrKind World × List Effect), x = doSubproject w sp req → Effect.doSubproject sp ∈ x.2 := by
    intro x hx
    subst hx
    unfold doSubproject
    repeat (first | split | simp)
  have h0 := hd _ rfl
  simp only [runCand, hf]
  simp only [Bool.not_true, Bool.false_and, Bool.false_eq_true, if_false]
  generalize doSubproject w sp req = x at h0
  rcases x with ⟨e, tr⟩
  cases e with
  | error k => simpa [stepTrace] using h0
  | ok w' =>
    simp only []
    split <;> simp only [stepTrace, List.mem_append] <;> exact Or.inl h0

/-- … while an unforced lookup under `nofallback` never gets there -/
theorem unforced_nofallback_skips_do_subproject (h : Holder) (wanted : List Str) (req : Bool) (w : World) (sp : Str)
    (hf : h.forcefallback = false) (hn : h.nofallback = true) :
    stepTrace (runCand sat h wanted req w (.subproject sp)) = [] := by
  simp [runCand, hf, hn, stepTrace]

/-- the same clause in the documented decision table: a forced lookup under `wrap_mode=nofallback` whose fallback
subproject can be configured is answered from that subproject … -/
theorem policy_forced_beats_nofallback (w w' : World) (r : Request) (p : Plan) (sp : Str) (var : Option Str) (s s' : Sub)
    (hf : p.forced = true) (hs : findSub w sp = some s) (hst : s.state = .no)
    (hc : configured w s = some w') (hs' : getSubproject w' sp = some s') :
    fallbackStep sat w r p sp var = fromSubproject sat w' r s' var := by
  simp [fallbackStep, hf, hs, hst, hc, hs']

/-- … and an unforced one is not: nothing suitable -/
theorem policy_unforced_nofallback (w : World) (r : Request) (p : Plan) (sp : Str) (var : Option Str)
    (hf : p.forced = false) (hn : w.wrapMode = .nofallback) :
    fallbackStep sat w r p sp var = (failure r.required, w) := by
  simp [fallbackStep, hf, hn]

/-- `force_fallback_for` naming the dependency makes the plan forced, whatever `wrap_mode` is -/
theorem fff_forces (w : World) (r : Request) (n : Str) (hn : n ∈ r.names) (hf : w.fff.contains n = true) :
    forced0 w r = true := by
  unfold forced0
  have : r.names.any (fun n => w.fff.contains n) = true := List.any_eq_true.mpr ⟨n, hn, hf⟩
  simp only [Bool.or_eq_true]
  exact Or.inl (Or.inr this)

end dep

/-! ## Part (c): the persistent cache of system dependencies (`CoreData.deps`) -/
section cache
open MesonModel.DepPolicy.Cache
open MesonModel.Generated

/-- **Obligation on the live source**: the type → option table written in
`DependencyCache.__calculate_subkey` (re-extracted on every run) is the documented relevance: pkg-config
results are keyed on `pkg_config_path`, CMake results on `cmake_prefix_path`, the others on neither. -/
theorem generated_table_is_documented : ∀ t, DepCacheTable.table t = relevant t := by
  intro t; cases t <;> rfl

/-- **A cache hit is sound, for every history**: after any sequence of option changes, `put`s, `get`s and
`clear`s on both machines — across any number of configurations — a dependency returned by `get` was
stored while the search-path option relevant to *its* type had the value it has now. -/
theorem cache_hit_sound (ops : List Op) (b : Bool) (ident : List Char) (d : CDep)
    (h : get DepCacheTable.table ((run DepCacheTable.table init ops).1.mc b) ident = some d) :
    Reusable ((run DepCacheTable.table init ops).1.mc b).paths d := by
  have ht : DepCacheTable.table = relevant := funext generated_table_is_documented
  rw [ht] at h ⊢
  have hinv := run_inv ops init init_inv
  have hm : Inv ((run relevant init ops).1.mc b) := by
    cases b
    · exact hinv.1
    · exact hinv.2
  exact get_sound _ hm ident d h

/-- **A cached result is reused only while the search path that produced it is unchanged** (and a change of
the other option does not invalidate it): for an identifier cached once. -/
theorem cache_reused_iff_path_unchanged (c : MCache) (i id : List Char) (t : CType) (p' : Paths)
    (hfresh : slookup i c.subs = none) :
    get DepCacheTable.table { put DepCacheTable.table c i id t with paths := p' } i =
      if p'.sel (relevant t) = c.paths.sel (relevant t) then some ({ id := id, type := t, storedAt := c.paths } : CDep) else none := by
  have ht : DepCacheTable.table = relevant := funext generated_table_is_documented
  rw [ht]
  exact fresh_put_get c i id t p' hfresh

/-- the table with the pkg-config entry reading `cmake_prefix_path` -/
def swappedTable : CType → PathSel
  | .pkgconfig => .cmake
  | .cmake => .cmake
  | .other => .none

/-- … is refuted: a pkg-config result cached under one `pkg_config_path` is served under another -/
theorem swapped_table_unsound :
    ∃ (ops : List Op) (d : CDep),
      get swappedTable (run swappedTable init ops).1.host "foo".toList = some d ∧
      ¬ Reusable (run swappedTable init ops).1.host.paths d := by
  refine ⟨[.setPkg false ["/a".toList], .put false "foo".toList "d1".toList .pkgconfig, .setPkg false ["/b".toList]],
          { id := "d1".toList, type := .pkgconfig, storedAt := ⟨["/a".toList], []⟩ }, by decide, ?_⟩
  unfold Reusable
  decide

end cache

/-! ## Part (b): wrap acquisition -/
section wrap
open MesonModel.DepPolicy.Wrap

/-- **Hash gate.** On every run of the acquisition — URL, fallback URL, package cache, packagefiles;
source and patch; every fault function — an archive is handed to `unpack_archive` only if its
SHA-256 equals the hash the wrap file records for it. -/
theorem hash_gate (cfg : Cfg) (env : Env) (flt : Faults) (w : What) (sha h : Hash)
    (hused : Event.used w sha ∈ (resolve cfg env flt).st.trace)
    (hrec : (fileCfg cfg w).hash = some h) : sha = h := by
  have := resolve_gate cfg env flt _ hused
  exact this h hrec

/-- nothing with a wrong digest is ever put into the package cache either -/
theorem hash_gate_cache (cfg : Cfg) (env : Env) (flt : Faults) (w : What) (sha h : Hash)
    (hst : Event.cacheStore w sha ∈ (resolve cfg env flt).st.trace)
    (hrec : (fileCfg cfg w).hash = some h) : sha = h := by
  have := resolve_gate cfg env flt _ hst
  exact this h hrec

/-- **Nothing is fetched under `wrap_mode=nodownload`**: no download attempt from any URL. -/
theorem nodownload_no_fetch (cfg : Cfg) (env : Env) (flt : Faults) (hnd : cfg.nodownload = true)
    (w : What) (fb : Bool) : Event.fetch w fb ∉ (resolve cfg env flt).st.trace := by
  intro hmem
  have := resolve_gate cfg env flt _ hmem
  simp [GateEv, hnd] at this

/-- **A failed acquisition, unpack, patch or diff step removes the freshly created directory.** -/
theorem failed_step_removes_dir (cfg : Cfg) (env : Env) (flt : Faults)
    (hp : (resolve cfg env flt).phase = .patch ∨ (resolve cfg env flt).phase = .acquire) :
    (resolve cfg env flt).ok = false ∧ (resolve cfg env flt).st.dirExists = false ∧
    (resolve cfg env flt).st.dirBuild = false ∧ Event.rmtree ∈ (resolve cfg env flt).st.trace := by
  unfold resolve at hp ⊢
  simp only [] at hp ⊢
  have hfin : ∀ s, (finish s).phase = .final := by intro s; unfold finish; split <;> rfl
  split at hp
  · rcases hp with hp | hp <;> cases hp
  · split at hp
    · split at hp
      · rcases hp with hp | hp <;> cases hp
      · rw [hfin] at hp; rcases hp with hp | hp <;> cases hp
    · rename_i h1 h2
      simp only [h1, h2]
      generalize acquire cfg env flt (initSt env) = acq at hp ⊢
      rcases acq with ⟨u, s1⟩ | ⟨e, s1⟩
      · simp only [] at hp ⊢
        generalize patchPhase cfg env flt s1 = pr at hp ⊢
        rcases pr with ⟨u2, s2⟩ | ⟨e2, s2⟩
        · simp only [] at hp; rw [hfin] at hp; rcases hp with hp | hp <;> cases hp
        · simp [cleanup, St.log]
      · simp [cleanup, St.log]

/-- the statement of C10 for the patch/diff step -/
theorem failed_patch_removes_dir (cfg : Cfg) (env : Env) (flt : Faults)
    (hp : (resolve cfg env flt).phase = .patch) :
    (resolve cfg env flt).ok = false ∧ (resolve cfg env flt).st.dirExists = false ∧
    (resolve cfg env flt).st.dirBuild = false ∧ Event.rmtree ∈ (resolve cfg env flt).st.trace :=
  failed_step_removes_dir cfg env flt (Or.inl hp)

/-- every failed run that started without the directory ends without it: whatever step failed
(fetch, verify, unpack, patch, diff, or the missing build file is the only exception: nothing to accept) -/
theorem failed_run_leaves_nothing_acceptable (cfg : Cfg) (env : Env) (flt : Faults)
    (hne : env.dirExists = false) (hfail : (resolve cfg env flt).ok = false) :
    (resolve cfg env flt).st.dirBuild = false := by
  unfold resolve at hfail ⊢
  simp only [initSt, hne] at hfail ⊢
  simp at hfail ⊢
  generalize acquire cfg env flt _ = acq at hfail ⊢
  rcases acq with ⟨u, s1⟩ | ⟨e, s1⟩
  · simp only [] at hfail ⊢
    generalize patchPhase cfg env flt s1 = pr at hfail ⊢
    rcases pr with ⟨u2, s2⟩ | ⟨e2, s2⟩
    · simp only [] at hfail ⊢
      unfold finish at hfail ⊢
      split at hfail
      · rename_i hb
        have hb' : s2.dirBuild = false := by simpa using hb
        simp [hb']
      · simp at hfail
    · simp [cleanup, St.log]
  · simp [cleanup, St.log]

/-- ... so that no later run accepts a half-prepared subproject: after any failed run that started
without the directory, the next run (any faults) does not take the "directory with a build file is
already there" exit with success. -/
theorem failed_run_not_accepted_later (cfg : Cfg) (env : Env) (flt flt' : Faults)
    (hne : env.dirExists = false) (hfail : (resolve cfg env flt).ok = false) :
    ¬ ((resolve cfg (nextEnv env (resolve cfg env flt).st) flt').phase = .early ∧
       (resolve cfg (nextEnv env (resolve cfg env flt).st) flt').ok = true) := by
  have h := failed_run_leaves_nothing_acceptable cfg env flt hne hfail
  generalize (resolve cfg env flt).st = s at h
  have hfin : ∀ s, (finish s).phase = .final := by intro s; unfold finish; split <;> rfl
  unfold resolve
  simp only [initSt, nextEnv, h]
  simp
  by_cases hd : s.dirExists = true
  · simp only [hd, if_true]
    intro hph; rw [hfin] at hph; cases hph
  · simp only [hd, if_false]
    generalize acquire _ _ _ _ = acq
    rcases acq with ⟨u, s1⟩ | ⟨e, s1⟩
    · simp only []
      generalize patchPhase _ _ _ _ = pr
      rcases pr with ⟨u2, s2⟩ | ⟨e2, s2⟩
      · simp [hfin]
      · simp
    · simp

/-! non-vacuity: concrete runs -/

def goodC : Content := { sha := 1, unpackOk := true, createsDir := true, hasBuildfile := true }
def evilC : Content := { sha := 2, unpackOk := true, createsDir := true, hasBuildfile := true }
def noBuildC : Content := { sha := 5, unpackOk := true, createsDir := true, hasBuildfile := false }
def urlCfg (nd : Bool) : Cfg :=
  { nodownload := nd, source := { hasFilename := true, hasUrl := true, hasFallbackUrl := true, hash := some 1 },
    hasPatchFilename := false, patch := { hasFilename := false, hasUrl := false, hasFallbackUrl := false, hash := none },
    hasPatchDirectory := false, leadDirMissing := false }
def urlEnv (diffs : List DiffEnv) (src : Content) : Env :=
  { dirExists := false, dirIsDir := true, dirBuild := false, cachedDir := none,
    source := { cache := none, pkgfile := none, url := .ok evilC, fallbackUrl := .ok src },
    patch := { cache := none, pkgfile := none, url := .wrapFail, fallbackUrl := .wrapFail },
    patchDirExists := false, patchDirBuild := false, diffs := diffs }
def noFaults : Faults := fun _ => .none

/-- tampered primary URL, good mirror: the tampered archive is fetched but never used; the good one is -/
example : (resolve (urlCfg false) (urlEnv [] goodC) noFaults).ok = true
    ∧ (resolve (urlCfg false) (urlEnv [] goodC) noFaults).st.trace =
      (List.replicate 1 (Event.fetch .source false)) ++ [.fetch .source true, .cacheStore .source 1, .used .source 1] := by decide
/-- the same under nodownload: an error, and nothing fetched -/
example : (resolve (urlCfg true) (urlEnv [] goodC) noFaults).ok = false
    ∧ (resolve (urlCfg true) (urlEnv [] goodC) noFaults).st.trace = [.rmtree] := by decide
/-- a diff that does not apply: phase `patch`, directory removed -/
example : (resolve (urlCfg false) (urlEnv [⟨true, false⟩] goodC) noFaults).phase = .patch
    ∧ (resolve (urlCfg false) (urlEnv [⟨true, false⟩] goodC) noFaults).st.dirExists = false := by decide

end wrap

/-! ## Part (d): wrap files → which subproject provides a dependency -/
section wrapfile
open MesonModel.DepPolicy.WrapFile

/-- **The provider table is a function.** For every file system, every directory listing (in any order) and every
`wrapdb.json`: if `Resolver.load_wraps` succeeds, two wraps that declare the same dependency name (file name,
`dependency_names`, `name = variable`, a bare directory's own name) are one and the same wrap … -/
theorem provider_table_is_function (fs : FS) (fuel : Nat) (base : Path) (files dirs : List Str)
    (wdb : List (Str × List Str × List Str)) (r : Resolver) (h : loadWraps fs fuel base files dirs wdb = .ok r)
    (e1 e2 : Str × PkgDef) (h1 : e1 ∈ r.wraps) (h2 : e2 ∈ r.wraps) (k : Str)
    (hk1 : k ∈ keys e1.2.providedDeps) (hk2 : k ∈ keys e2.2.providedDeps) : e1.2 = e2.2 := by
  have hl := loadWraps_loaded fs fuel base files dirs wdb r h
  have a := hl.provider e1 h1 k hk1
  have b := hl.provider e2 h2 k hk2
  rw [a] at b
  exact Option.some.inj b

/-- … in other words **a name declared by two different wraps makes the code raise** (`WrapException`
'Multiple wrap files provide …'), whatever the order in which the wraps are registered -/
theorem duplicate_provide_raises (ws : List PkgDef) (w1 w2 : PkgDef) (k : Str) (h1 : w1 ∈ ws) (h2 : w2 ∈ ws) (hne : w1 ≠ w2)
    (hk1 : k ∈ keys w1.providedDeps) (hk2 : k ∈ keys w2.providedDeps) :
    ∃ e, addAll ws ⟨[], []⟩ = .error e := by
  cases h : addAll ws ⟨[], []⟩ with
  | error e => exact ⟨e, rfl⟩
  | ok t =>
    have a := addAll_new ws _ t h w1 h1 k hk1
    have b := addAll_new ws _ t h w2 h2 k hk2
    rw [a] at b
    exact absurd (Option.some.inj b) hne

/-- **`find_dep_provider` names the wrap that declares the name** (lower-cased), with the variable that wrap gives:
for a resolver in the state `load_wraps` leaves (`Loaded`), without `wrapdb.json`. -/
theorem find_dep_provider_spec (r : Resolver) (hl : Loaded r) (hdb : r.wrapdbDeps = []) (n sp : Str) (v : Option Str) :
    WrapFile.findDepProvider r n = (some sp, v) ↔
      ∃ e ∈ r.wraps, e.2.name = sp ∧ lower n ∈ keys e.2.providedDeps ∧ v = getVar (lower n) e.2.providedDeps := by
  unfold WrapFile.findDepProvider
  simp only [hdb]
  constructor
  · intro h
    cases hp : alookup (lower n) r.providedDeps with
    | none => rw [hp] at h; simp [alookup] at h
    | some w =>
      rw [hp] at h
      simp only [Prod.mk.injEq, Option.some.injEq] at h
      rcases hl.sound _ _ hp with ⟨⟨e, he, hev⟩, hk⟩
      exact ⟨e, he, by rw [hev]; exact h.1, by rw [hev]; exact hk, by rw [hev]; exact h.2.symm⟩
  · rintro ⟨e, he, hname, hk, hv⟩
    rw [hl.provider e he _ hk]
    simp [hname, hv]

/-- **Implicit provide**: every wrap `load_wraps` knows — `foo.wrap`, or a bare directory `foo` — is the provider
of its own name (asked in any case: the query is lower-cased); and when the wrap file has nothing else to say
(no `[provide]` entries) the answer carries no variable name. -/
theorem implicit_provide (r : Resolver) (hl : Loaded r) (e : Str × PkgDef) (he : e ∈ r.wraps) (q : Str)
    (hq : lower q = lower e.1) :
    (WrapFile.findDepProvider r q).1 = some e.1 ∧
    (e.2.providedDeps = [(lower e.1, none)] → WrapFile.findDepProvider r q = (some e.1, none)) := by
  have ho := hl.own e he
  have hk : lower e.1 ∈ keys e.2.providedDeps := by
    have := ho.1; unfold OwnName at this; rw [ho.2] at this; exact this
  have hp := hl.provider e he _ hk
  unfold WrapFile.findDepProvider
  simp only [hq, hp, ho.2]
  refine ⟨trivial, ?_⟩
  intro hdeps
  simp [hdeps, getVar, alookup]

/-- a wrap file without a `[provide]` section (and not a redirect) declares exactly its own lower-cased name -/
theorem wrap_file_without_provide (fs : FS) (fuel : Nat) (dir : Path) (fname text ty : Str) (ini : Ini)
    (vals : List (Str × Str)) (p : PkgDef)
    (hr : readFile fs (dir ++ [fname]) = some text) (hp : parseWrap text = .ok (ini, ty, vals)) (hty : ty ≠ s "redirect")
    (hnp : alookup (s "provide") ini.sections = none)
    (h : fromWrapFile fs (fuel + 1) dir fname = .ok p) :
    p.name = fname.take (fname.length - 5) ∧ p.providedDeps = [(lower (fname.take (fname.length - 5)), none)] := by
  simp only [fromWrapFile, hr, hp, hty, if_false] at h
  split at h
  · cases h
  · rename_i q hq
    have hq' := mkPkg_own _ _ _ _ hq
    unfold parseProvideSection at h
    split at h
    · cases h
    · simp only [hnp] at h
      cases h
      exact ⟨hq'.1, hq'.2.1⟩

/-- **The lookup's view of the wrap files is the Resolver's**: in a world whose `[provide]` table is the one derived
from a loaded `Resolver`, `find_dep_provider` and `get_varname` as `DependencyFallbacksHolder.lookup` uses them answer
what the Resolver's methods answer. -/
theorem world_view_agrees (w : World) (r : Resolver) (hl : Loaded r) (hw : w.provides = providesOf r)
    (hdb : r.wrapdbDeps = []) :
    (∀ n, MesonModel.DepPolicy.findDepProvider w n = WrapFile.findDepProvider r n) ∧
    (∀ sp dep, MesonModel.DepPolicy.getVarname w sp dep = WrapFile.getVarname r sp dep) := by
  refine ⟨world_findDepProvider w r hw hdb, ?_⟩
  intro sp dep
  unfold MesonModel.DepPolicy.getVarname WrapFile.getVarname providesOf at *
  rw [hw, alookup_map]
  have hnone : ∀ p : PkgDef, alookup dep p.providedDeps = none → getVar dep p.providedDeps = none := by
    intro p hp; simp [getVar, hp]
  cases hd : alookup dep r.providedDeps with
  | none =>
    simp only [Option.map]
    cases hs : alookup sp r.wraps with
    | none => rfl
    | some p =>
      simp only []
      have hmem := alookup_mem sp p r.wraps hs
      cases hdp : alookup dep p.providedDeps with
      | none => exact (hnone p hdp).symm
      | some x =>
        have := hl.provider (sp, p) hmem dep (mem_keys_of_alookup dep x _ hdp)
        rw [hd] at this; cases this
  | some v0 =>
    simp only [Option.map]
    rcases hl.sound _ _ hd with ⟨⟨e, he, hev⟩, hk⟩
    have hoe := hl.own e he
    cases hs : alookup sp r.wraps with
    | none =>
      simp only []
      have : ¬ (v0.name = sp) := by
        intro hname
        have hkeys : sp ∈ keys r.wraps := by
          refine List.mem_map.mpr ⟨e, he, ?_⟩
          rw [← hoe.2, hev]; exact hname
        have := alookup_isSome_of_mem_keys sp r.wraps hkeys
        rw [hs] at this; cases this
      simp [this]
    | some p =>
      simp only []
      have hmem := alookup_mem sp p r.wraps hs
      have hop := hl.own (sp, p) hmem
      by_cases hname : v0.name = sp
      · -- both are stored under `sp`: the same wrap, since each provides its own name
        have hp1 : alookup (lower sp) r.providedDeps = some p := by
          apply hl.provider (sp, p) hmem
          have := hop.1; unfold OwnName at this; rw [hop.2] at this; exact this
        have hp2 : alookup (lower sp) r.providedDeps = some v0 := by
          have h2 := hl.provider e he (lower sp) (by
            have := hoe.1; unfold OwnName at this; rw [hev, hname] at this; rw [hev]; exact this)
          rw [hev] at h2; exact h2
        rw [hp1] at hp2
        have : p = v0 := Option.some.inj hp2
        simp [hname, this]
      · simp only [hname, if_false]
        cases hdp : alookup dep p.providedDeps with
        | none => exact (hnone p hdp).symm
        | some x =>
          have := hl.provider (sp, p) hmem dep (mem_keys_of_alookup dep x _ hdp)
          rw [hd] at this
          have hpv : v0 = p := Option.some.inj this
          exact absurd (by rw [hpv]; exact hop.2) hname

/-- **The fallback of the documented policy is the subproject named by the provider.** For wrap files that load, a
world that sees them, and a required `dependency(n)` without `fallback:`/`allow_fallback: false`: if the Resolver's
`find_dep_provider(n)` names `sp`, the plan of the decision table designates exactly `sp` (with the variable the wrap
file gives) … -/
theorem fallback_is_provider (w : World) (r : Resolver) (hw : w.provides = providesOf r) (hdb : r.wrapdbDeps = [])
    (q : Request) (n sp : Str) (v : Option Str) (hn : q.names = [n]) (hlow : lower n = n) (hfb : q.fallback = none)
    (hallow : q.allowFallback ≠ some false) (hreq : q.required = true)
    (hp : WrapFile.findDepProvider r n = (some sp, v)) (hne : sp ≠ []) :
    (plan w q).fallback = some (sp, v) := by
  have h1 := world_findDepProvider w r hw hdb n
  rw [hp] at h1
  unfold MesonModel.DepPolicy.findDepProvider at h1
  rw [hlow] at h1
  have h2 : alookup n w.provides = some (sp, v) := by
    cases ha : alookup n w.provides with
    | none => rw [ha] at h1; simp at h1
    | some x => rw [ha] at h1; rcases x with ⟨a, b⟩; simp at h1; rw [h1.1, h1.2]
  have hemp : sp.isEmpty = false := by cases sp with | nil => exact absurd rfl hne | cons a b => rfl
  have hal : (allowOf q == some false) = false := by
    unfold allowOf; simp [hfb]; exact hallow
  unfold plan explicitFallback
  simp only [hfb, hal, hn, firstProvider, h2, hemp, hreq]
  simp

/-- … and `DependencyFallbacksHolder.lookup` returns what the decision table prescribes with that plan
(`lookup_eq_policy`): the answer comes from the provider's subproject or — unless fallback is forced — the system. -/
theorem lookup_uses_provider (sat : Str → List Str → Bool) (w : World) (r : Resolver) (hw : w.provides = providesOf r)
    (hdb : r.wrapdbDeps = [])
    (q : Request) (n sp : Str) (v : Option Str) (hn : q.names = [n]) (hlow : lower n = n) (hfb : q.fallback = none)
    (hallow : q.allowFallback ≠ some false) (hreq : q.required = true) (hok : namesOk q.names = true)
    (hp : WrapFile.findDepProvider r n = (some sp, v)) (hne : sp ≠ []) :
    ∃ p : Plan, p.fallback = some (sp, v) ∧
      (lookup sat w q).out.simplify = (decide sat w q p).1 ∧ (lookup sat w q).world = (decide sat w q p).2 := by
  refine ⟨plan w q, fallback_is_provider w r hw hdb q n sp v hn hlow hfb hallow hreq hp hne, ?_⟩
  have hwf : WellFormed q := by intro x hx; rw [hn] at hx; simp at hx; rw [hx]; exact hlow
  have h := lookup_eq_policy sat w q hwf
  have hpol : policy sat w q = decide sat w q (plan w q) := by
    unfold policy fallbackArgOk
    simp [hok, hfb]
  rw [hpol] at h
  exact h

/-- **Wraps merged from a subproject's own `subprojects/` never displace an existing provider** (`merge_wraps`,
`ignore_dups=True`: the first wins) — except the entry of a bare directory that a merged wrap file now describes
(the documented replacement in `merge_wraps`). -/
theorem merged_wraps_never_displace (ws : List (Str × PkgDef)) (r r' : Resolver) (h : mergeWraps ws r = .ok r')
    (key : Str) (w : PkgDef) (hk : alookup key r.providedDeps = some w) (hne : ∀ e ∈ ws, key ≠ lower e.2.directory) :
    alookup key r'.providedDeps = some w :=
  mergeWraps_old ws r r' h key w hk hne

/-! non-vacuity, from file *texts*: `foosub.wrap` with a `[provide]` section, `bar.wrap` without -/

def fooWrapText : Str :=
  "[wrap-file]\ndirectory = foo-1.0\n# the archive\nsource_url = https://example.invalid/foo.tgz\n\n[provide]\ndependency_names = foo-1.0, Foo\nfoovar : foo_dep\nprogram_names = fooprog\n".toList
def barWrapText : Str := "[wrap-git]\nurl=https://example.invalid/bar.git\n".toList
def fs0 : FS := [(["foosub.wrap".toList], fooWrapText), (["bar.wrap".toList], barWrapText)]
def rv0 : Except WErr Resolver := loadWraps fs0 4 [] ["bar.wrap".toList, "foosub.wrap".toList, "README".toList] ["foo-1.0".toList, "extra".toList] []

example : (rv0.toOption.map (fun r => (keys r.wraps, keys r.providedDeps, keys r.providedPrograms)))
    = some (["bar".toList, "foosub".toList, "extra".toList],
            ["bar".toList, "foosub".toList, "foo-1.0".toList, "foo".toList, "foovar".toList, "extra".toList],
            ["fooprog".toList]) := by decide +kernel
example : rv0.toOption.map (fun r => (WrapFile.findDepProvider r "FOO".toList, WrapFile.findDepProvider r "foovar".toList))
    = some ((some "foosub".toList, none), (some "foosub".toList, some "foo_dep".toList)) := by decide +kernel
example : rv0.toOption.map (fun r => (WrapFile.findDepProvider r "bar".toList, WrapFile.findDepProvider r "nosuch".toList))
    = some ((some "bar".toList, none), (none, none)) := by decide +kernel
example : rv0.toOption.map (fun r => findProgramProvider r ["x".toList, "fooprog".toList]) = some (some "foosub".toList) := by
  decide +kernel
/-- two wrap files declaring `foo`: the load raises -/
example : (loadWraps ((["foo.wrap".toList], barWrapText) :: fs0) 4 [] ["foo.wrap".toList, "foosub.wrap".toList] [] []).toOption = none := by
  decide +kernel
/-- text → tables → world → `dependency('foo')`: the provider's subproject is configured and answers -/
example : rv0.toOption.map (fun r =>
      let res := lookup (fun _ _ => true) { w0 with provides := providesOf r } r0
      (res.out, res.trace)) =
    some (.found dFoo, [.cacheGet "foo".toList, .system "foo".toList, .doSubproject "foosub".toList, .configure "foosub".toList]) := by
  decide +kernel

end wrapfile

end MesonModel.Props.C10
