/-
C13 — Compiler argument lists honour the append/override/dedup contract.

Property theorems only; helper lemmas are in `MesonModel/ArgList/*Lemmas.lean`.
The lazy object (`_container`, `pre`, `post`, `needs_override_check`) is `State`, its operations
`Op`/`step`; the eager meaning is the same operations with a flush after each (`stepEager`), and
`specAdd` is the queue-free statement of what `+=` means.  All theorems quantify over every
classifier pair (`K.dd`, `K.pp`), every initial container and every operation list; the class
tables enter only through `tablesOk`, which is re-checked by `decide` on the tables regenerated
from the live Python classes on every run.
-/
import MesonModel.ArgList.SpecLemmas
import MesonModel.ArgList.NativeLemmas
import MesonModel.ArgList.ToNativeLemmas
import MesonModel.ArgList.AssembleLemmas
import MesonModel.ArgList.RefLemmas
import MesonModel.ArgList.RegexLemmas
import MesonModel.Generated.ArgTables

namespace MesonModel.Props.C13
open MesonModel.ArgList MesonModel.Generated

/-! ### the lazy object refines the eager list -/

/-- **Main theorem (one object).** For every class configuration, every initial container and every
sequence of `+=`/`append`/`extend`/`append_direct`/`extend_direct`/`extend_preserving_lflags`/
`insert`/`[]=`/`del`/`[]`/`list()`/`copy()`/`len()`/`== list`/`to_native`/`reverse`/`reversed`/`pop`/
`remove`/`index`/`count`/`in`/`clear` operations, in any interleaving, the outputs of the lazily
flushed object are those of the object that is flushed after every operation.  No operation is
excluded (since the repairs 936d363 and 936b1b4 `len()` and `==` flush too). -/
theorem lazy_refines_eager (cfg : Cfg) (init : List Arg) (ops : List Op) :
    runLazy cfg (mk init) ops = runEager cfg (mk init) ops := by
  have := runLazy_eq_runEager_flush cfg ops (mk init) (inv_mk init)
  rwa [flush_mk] at this

/-- the same from any state the object can be in -/
theorem lazy_refines_eager_from (cfg : Cfg) (s : State) (hi : Inv cfg.K s) (ops : List Op) :
    runLazy cfg s ops = runEager cfg (flush cfg.K s) ops :=
  runLazy_eq_runEager_flush cfg ops s hi

/-- the final list (what the backend writes to the command line) is the eager one -/
theorem lazy_final_eq_eager_final (cfg : Cfg) (init : List Arg) (ops : List Op) :
    finalLazy cfg (mk init) ops = finalEager cfg (mk init) ops := by
  have := finalLazy_eq_finalEager_flush cfg ops (mk init) (inv_mk init)
  rwa [flush_mk] at this

/-- every state reached from a constructed object satisfies the queue invariant -/
theorem reachable_inv (cfg : Cfg) (init : List Arg) (ops : List Op) :
    Inv cfg.K (ops.foldl (fun s op => (step cfg s op).1) (mk init)) := by
  suffices h : ∀ s, Inv cfg.K s → Inv cfg.K (ops.foldl (fun s op => (step cfg s op).1) s) from h _ (inv_mk init)
  induction ops with
  | nil => exact fun s h => h
  | cons op ops ih => exact fun s h => ih _ (inv_step cfg s op h)

/-- `copy()` reads exactly what `list()` reads -/
theorem copy_reads_flushed_list (cfg : Cfg) (s : State) :
    (step cfg s .copy).2 = (step cfg s .iter).2 := rfl

/-- `len()` is the length of what `list()` reads (the statement that was false before 936d363:
`['-Dx'] += ['-Dx']` gave 2) -/
theorem len_is_length_of_list (cfg : Cfg) (s : State) :
    (step cfg s .len).2 = .nat (flush cfg.K s).container.length ∧
    (step cfg s .iter).2 = .list (flush cfg.K s).container := ⟨rfl, rfl⟩

def cfgOf (T : Tables) : Cfg := { K := T.classify, always := T.alwaysDedupArgs, native := .plain }

/-- the former failing input of `len()`, on the live C-like tables -/
example : runLazy (cfgOf clikeTables) (mk [['-', 'D', 'x']]) [.iadd [['-', 'D', 'x']], .len] = [.none, .nat 1] := by
  decide

/-! ### several objects: copies, `a + b`, `list + a`, `a += b`, `Cls(compiler, a)`, `a == b`

A script (`HOp`) works on a heap of objects.  The eager meaning flushes *every* object after every
operation (`hstepEager`).  All heap operations are covered, including `a == b` between two objects
that both have pending arguments (stale before 936b1b4). -/

/-- **Main theorem (any number of objects, reads and copies in between).** -/
theorem heap_lazy_refines_eager (cfg : Cfg) (ops : List HOp) :
    hrun cfg [] ops = hrunEager cfg [] ops :=
  hrun_eq_hrunEager_flush cfg ops [] (by intro s hs; cases hs)

/-- from any heap whose objects satisfy the queue invariant -/
theorem heap_lazy_refines_eager_from (cfg : Cfg) (h : List State) (hh : HInv cfg.K h) (ops : List HOp) :
    hrun cfg h ops = hrunEager cfg (flushAll cfg.K h) ops :=
  hrun_eq_hrunEager_flush cfg ops h hh

/-- every heap reached by a script satisfies the invariant -/
theorem heap_reachable_inv (cfg : Cfg) (ops : List HOp) :
    HInv cfg.K (ops.foldl (fun h op => (hstep cfg h op).1) []) := by
  suffices h : ∀ g, HInv cfg.K g → HInv cfg.K (ops.foldl (fun h op => (hstep cfg h op).1) g) from
    h _ (by intro s hs; cases hs)
  induction ops with
  | nil => exact fun g h => h
  | cons op ops ih => exact fun g h => ih _ (hinv_hstep cfg g op h)

/-- `a == b` compares the two eager lists -/
theorem eq_objects_compares_eager_lists (cfg : Cfg) (h : List State) (i j : Nat) (si sj : State)
    (hi : h[i]? = some si) (hj : h[j]? = some sj) (hne : i ≠ j) :
    (hstep cfg h (.eqObj i j)).2 =
      .bool (decide ((flush cfg.K si).container = (flush cfg.K sj).container)) := by
  have : (h.set i (flush cfg.K si))[j]? = some sj := by
    rw [List.getElem?_set_ne hne]; exact hj
  simp [hstep, hi, this]

/-- the former failing input of `==`: `['-Dx','-O2'] == (['-Dx'] += ['-O2'])` -/
example : hrun (cfgOf clikeTables) []
    [.new [['-', 'D', 'x'], ['-', 'O', '2']], .new [['-', 'D', 'x']], .on 1 (.iadd [['-', 'O', '2']]), .eqObj 0 1] =
    [.none, .none, .none, .bool true] := by
  decide

/-! ### sharing: list objects as locations

`RefModel.lean` makes the Python list objects explicit: memory is a store of list cells, an object holds
the address of its `_container`, the caller's lists are addresses too, and operations write through
addresses (in place, or re-binding to a fresh cell -- for every policy `pol`).  `Sep m` says that all
these addresses are different.  With the constructor that copies (`alias = false`) the machine *is* the
value-level machine, so the theorems above apply to every location; with the constructor that keeps the
caller's list the property fails. -/

/-- **the reference-level machine is the value-level machine**, for every operation, write policy and
separated memory; separation is preserved -/
theorem ref_machine_is_value_machine (pol : State → Op → Bool) (cfg : Cfg) (m : RMem) (op : ROp) (hs : Sep m) :
    absM (rstep false pol cfg m op).1 = (vstep cfg (absM m) op).1 ∧
    (rstep false pol cfg m op).2 = (vstep cfg (absM m) op).2 ∧
    Sep (rstep false pol cfg m op).1 :=
  rstep_simulates pol cfg m op hs

/-- for whole scripts from the empty memory: constructors from caller-owned lists, caller-side changes
of those lists afterwards, operations fed with them, copies, in any interleaving -/
theorem ref_run_is_value_run (pol : State → Op → Bool) (cfg : Cfg) (ops : List ROp) :
    rrun false pol cfg emptyMem ops = vrun cfg (absM emptyMem) ops :=
  rrun_eq_vrun pol cfg ops emptyMem sep_empty

/-- **footprint**: an operation on object `i` leaves every other object and every caller-owned list as
it was -/
theorem ops_do_not_touch_other_locations (pol : State → Op → Bool) (cfg : Cfg) (m : RMem) (i : Nat) (op : Op)
    (hs : Sep m) :
    (∀ j, j ≠ i → (absM (rstep false pol cfg m (.on i op)).1).objs[j]? = (absM m).objs[j]?) ∧
    (absM (rstep false pol cfg m (.on i op)).1).xs = (absM m).xs := by
  rw [(rstep_simulates pol cfg m (.on i op) hs).1]
  simp only [vstep]
  cases (absM m).objs[i]? with
  | none => exact ⟨fun _ _ => rfl, rfl⟩
  | some s => exact ⟨fun j hj => by simp [List.getElem?_set_ne (Ne.symm hj)], rfl⟩

/-- the list handed to `+=`, `extend_direct`, `extend_preserving_lflags`, `==` is only read -/
theorem list_parameter_is_not_modified (pol : State → Op → Bool) (cfg : Cfg) (m : RMem) (i k : Nat) (lop : LOp)
    (hs : Sep m) :
    (∀ j, j ≠ i → (absM (rstep false pol cfg m (.onX i lop k)).1).objs[j]? = (absM m).objs[j]?) ∧
    (absM (rstep false pol cfg m (.onX i lop k)).1).xs = (absM m).xs := by
  rw [(rstep_simulates pol cfg m (.onX i lop k) hs).1]
  simp only [vstep]
  cases (absM m).objs[i]? with
  | none => exact ⟨fun _ _ => rfl, rfl⟩
  | some s =>
    cases (absM m).xs[k]? with
    | none => exact ⟨fun _ _ => rfl, rfl⟩
    | some l => exact ⟨fun j hj => by simp [List.getElem?_set_ne (Ne.symm hj)], rfl⟩

/-- constructing an object from the caller's list, and copying an object, leave all existing objects and
all caller-owned lists as they were, and the caller changing its list afterwards changes no object -/
theorem constructor_and_caller_frame (pol : State → Op → Bool) (cfg : Cfg) (m : RMem) (k : Nat) (a : Arg)
    (hs : Sep m) :
    (absM (rstep false pol cfg m (.newX k)).1).xs = (absM m).xs ∧
    (∀ j, j < m.objs.length → (absM (rstep false pol cfg m (.newX k)).1).objs[j]? = (absM m).objs[j]?) ∧
    (absM (rstep false pol cfg m (.xappend k a)).1).objs = (absM m).objs := by
  refine ⟨?_, ?_, ?_⟩
  · rw [(rstep_simulates pol cfg m (.newX k) hs).1]
    simp only [vstep]
    cases (absM m).xs[k]? <;> rfl
  · intro j hj
    rw [(rstep_simulates pol cfg m (.newX k) hs).1]
    simp only [vstep]
    cases (absM m).xs[k]? with
    | none => rfl
    | some l =>
      have : j < (absM m).objs.length := by simpa [absM] using hj
      simp [List.getElem?_append_left this]
  · rw [(rstep_simulates pol cfg m (.xappend k a) hs).1]
    simp only [vstep]
    cases (absM m).xs[k]? <;> rfl

/-- the script of the counterexample: one caller-owned list, an object built from it and extended, then a
second object built from the same list (what `BuildTarget.get_single_compile_base_args` does per source) -/
def sharedListScript : List ROp :=
  [.xlist [['-', 'O', '2'], ['-', 'g']], .newX 0, .on 0 (.iadd [['-', 'w']]), .on 0 .iter, .newX 0, .on 1 .iter]

/-- with the copying constructor the second object reads the caller's two arguments ... -/
theorem copying_constructor_on_witness :
    rrun false pyPolicy (cfgOf baseTables) emptyMem sharedListScript =
      [.none, .none, .none, .list [['-', 'O', '2'], ['-', 'g'], ['-', 'w']], .none, .list [['-', 'O', '2'], ['-', 'g']]] := by
  decide

/-- ... **with a constructor that keeps the caller's list the property fails**: the flush of the first
object writes into the shared list, the second object starts with the first one's argument ("an argument
is invented"), and the machine is no longer the value-level one -/
theorem aliasing_constructor_counterexample :
    rrun true pyPolicy (cfgOf baseTables) emptyMem sharedListScript =
      [.none, .none, .none, .list [['-', 'O', '2'], ['-', 'g'], ['-', 'w']], .none,
       .list [['-', 'O', '2'], ['-', 'g'], ['-', 'w']]] ∧
    rrun true pyPolicy (cfgOf baseTables) emptyMem sharedListScript ≠
      vrun (cfgOf baseTables) (absM emptyMem) sharedListScript := by
  decide

/-! ### the eager `+=` is the specification -/

/-- one eager `+=` on a flushed object computes `specAdd` -- for every class, without any condition
on the tables (since the repair 661f340 the once-only test also looks at the running batch) -/
theorem eager_add_eq_spec (cfg : Cfg) (L b : List Arg) :
    (stepEager cfg (mk L) (.iadd b)).1 = mk (specAdd cfg.K L b) := by
  have h := eager_iadd_container (K := cfg.K) L b
  simp only [stepEager, step]
  have h2 := flush_eq (K := cfg.K) _ (inv_iadd (mk L) b (inv_mk L))
  rw [h2] at h ⊢
  simp only [mk] at h ⊢
  rw [h]

/-- the list read after a single lazy `+=` is `specAdd` -/
theorem lazy_add_eq_spec (cfg : Cfg) (L b : List Arg) :
    finalLazy cfg (mk L) [.iadd b] = specAdd cfg.K L b := by
  simp only [finalLazy, step]
  exact eager_iadd_container L b

/-- `append` is `+= [a]` -/
theorem append_is_iadd (cfg : Cfg) (s : State) (a : Arg) : step cfg s (.append a) = step cfg s (.iadd [a]) := rfl

/-- a sufficient table condition for "no argument is both prepend-type and once-only" (no longer a
hypothesis of any theorem here; the harness still reports it per class) -/
theorem tablesOk_implies_noPrependUnique (T : Tables) (h : tablesOk T = true) : NoPrependUnique T.classify :=
  tablesOk_sound T h

/-- **per-run obligation on the regenerated C-like tables**: the kinds the property statement names --
`-I`/`-L` prepend- and override-type, `-D`/`-U`/`-isystem` override-type and appended, `-lfoo`, library
files and `-pthread` once-only, plain flags and objects never de-duplicated -/
theorem clike_statement_kinds :
    ([(['-', 'I', 'a'], true, Dedup.overridden), (['-', 'L', 'a'], true, .overridden),
      (['-', 'D', 'x'], false, .overridden), (['-', 'U', 'x'], false, .overridden),
      (['-', 'i', 's', 'y', 's', 't', 'e', 'm', '/', 'i'], false, .overridden),
      (['-', 'l', 'f', 'o', 'o'], false, .unique), (['x', '.', 'a'], false, .unique),
      (['/', 'l', 'i', 'b', 'y', '.', 's', 'o', '.', '1'], false, .unique),
      (['-', 'p', 't', 'h', 'r', 'e', 'a', 'd'], false, .unique),
      (['-', 'O', '2'], false, .noDedup), (['m', '.', 'o'], false, .noDedup)] :
        List (Arg × Bool × Dedup)).all
      (fun t => clikeTables.pp t.1 == t.2.1 && decide (clikeTables.dd t.1 = t.2.2)) = true := by
  decide

/-! ### consequences: what the specification guarantees (for every classifier) -/

variable (K : Classify)

/-- no argument is invented -/
theorem nothing_invented (L b : List Arg) (x : Arg) : x ∈ specAdd K L b → x ∈ L ∨ x ∈ b :=
  mem_specAdd_iff.mp

/-- no argument is lost (as a set) -/
theorem nothing_lost (L b : List Arg) (x : Arg) : x ∈ L ∨ x ∈ b → x ∈ specAdd K L b :=
  mem_specAdd_iff.mpr

/-- arguments that cannot be de-duplicated keep their relative order and their multiplicity: the
prepend-type ones of the batch in front, then those of the list, then the others of the batch -/
theorem nodedup_keep_order_and_multiplicity (L b : List Arg) :
    (specAdd K L b).filter (fun a => K.dd a = .noDedup) =
      (b.filter (fun a => K.pp a)).filter (fun a => K.dd a = .noDedup) ++
      L.filter (fun a => K.dd a = .noDedup) ++
      (b.filter (fun a => !K.pp a)).filter (fun a => K.dd a = .noDedup) := by
  have hp : ∀ x, (decide (K.dd x = .noDedup)) = true → K.dd x ≠ .overridden := by
    intro x hx; simp at hx; simp [hx]
  have hu : ∀ x, (decide (K.dd x = .noDedup)) = true → K.dd x ≠ .unique := by
    intro x hx; simp at hx; simp [hx]
  simp only [specAdd, List.filter_append]
  rw [filter_keepFirst_not_ov _ hp (by simp), filter_keepLast_not_ov _ hp]
  congr 1
  · congr 1
    · rw [List.filter_filter, List.filter_filter]
      have := filter_accept_of_not_unique (K := K) (fun a => decide (K.dd a = .noDedup) && K.pp a)
        (fun x hx => hu x (by simp at hx ⊢; exact hx.1)) L b
      simpa using this
    · rw [List.filter_filter]
      apply List.filter_congr
      intro x _
      by_cases h : K.dd x = .noDedup <;> simp [h, mem_ovOf]
  · rw [List.filter_filter, List.filter_filter]
    have := filter_accept_of_not_unique (K := K) (fun a => decide (K.dd a = .noDedup) && !K.pp a)
      (fun x hx => hu x (by simp at hx ⊢; exact hx.1)) L b
    simpa using this

/-- when no prepend-type argument is of the never-de-duplicated kind the statement is the plain one:
old ones first, then the new ones, order and multiplicity kept -/
theorem nodedup_appended_in_order (L b : List Arg) (h : ∀ a, K.pp a = true → K.dd a ≠ .noDedup) :
    (specAdd K L b).filter (fun a => K.dd a = .noDedup) =
      L.filter (fun a => K.dd a = .noDedup) ++ b.filter (fun a => K.dd a = .noDedup) := by
  rw [nodedup_keep_order_and_multiplicity]
  have h1 : (b.filter (fun a => K.pp a)).filter (fun a => K.dd a = .noDedup) = [] := by
    simp only [List.filter_filter, List.filter_eq_nil_iff]
    intro a _
    by_cases hp : K.pp a = true
    · simp [hp, h a hp]
    · simp [hp]
  have h2 : (b.filter (fun a => !K.pp a)).filter (fun a => K.dd a = .noDedup) =
      b.filter (fun a => K.dd a = .noDedup) := by
    rw [List.filter_filter]
    apply List.filter_congr
    intro a _
    by_cases hp : K.pp a = true
    · simp [hp, h a hp]
    · simp [hp]
  rw [h1, h2]
  simp

/-- of identical override-type arguments set by the batch exactly one survives -/
theorem override_survivor_unique (L b : List Arg) (x : Arg) (hx : K.dd x = .overridden) (hb : x ∈ b) :
    (specAdd K L b).count x = 1 := by
  have hacc : x ∈ accept K L b := mem_accept_of_not_unique (by rw [hx]; decide) hb
  have hmid : (L.filter (fun a => a ∉ ovOf K (accept K L b))).count x = 0 := by
    apply List.count_eq_zero.mpr
    intro hm
    have := (List.mem_filter.mp hm).2
    simp only [decide_eq_true_eq] at this
    exact this (mem_ovOf.mpr ⟨hacc, hx⟩)
  simp only [specAdd, List.count_append, hmid]
  cases hp : K.pp x
  · have h1 : (keepFirst K [] ((accept K L b).filter (fun a => K.pp a))).count x = 0 :=
      List.count_eq_zero.mpr (fun hm => by
        have := (List.mem_filter.mp (mem_keepFirst.mp hm).1).2
        simp [hp] at this)
    rw [h1, count_keepLast_ov hx (List.mem_filter.mpr ⟨hacc, by simp [hp]⟩)]
  · have h1 : (keepLast K ((accept K L b).filter (fun a => !K.pp a))).count x = 0 :=
      List.count_eq_zero.mpr (fun hm => by
        have := (List.mem_filter.mp (mem_keepLast.mp hm)).2
        simp [hp] at this)
    rw [h1, count_keepFirst_ov hx (by simp) (List.mem_filter.mpr ⟨hacc, by simp [hp]⟩)]

/-- a `-I`/`-L`-like (prepend- and override-type) argument of the batch survives in the front block:
the result is `front ++ rest`, `front` is made of prepend-type batch arguments in batch order and
holds the occurrence; nothing of it is left further back (in particular the old copy in the list is gone) -/
theorem override_survivor_position_front (L b : List Arg) (x : Arg) (hx : K.dd x = .overridden)
    (hp : K.pp x = true) (hb : x ∈ b) :
    ∃ front rest, specAdd K L b = front ++ rest ∧ front.Sublist b ∧ (∀ y ∈ front, K.pp y = true) ∧
      x ∈ front ∧ x ∉ rest := by
  have hacc : x ∈ accept K L b := mem_accept_of_not_unique (by rw [hx]; decide) hb
  refine ⟨keepFirst K [] ((accept K L b).filter (fun a => K.pp a)),
    L.filter (fun a => a ∉ ovOf K (accept K L b)) ++ keepLast K ((accept K L b).filter (fun a => !K.pp a)),
    by simp [specAdd], ?_, ?_, ?_, ?_⟩
  · exact ((keepFirst_sublist _ _).trans List.filter_sublist).trans (accept_sublist L b)
  · intro y hy
    exact (List.mem_filter.mp (mem_keepFirst.mp hy).1).2
  · exact mem_keepFirst.mpr ⟨List.mem_filter.mpr ⟨hacc, hp⟩, by simp⟩
  · intro hm
    rcases List.mem_append.mp hm with hm | hm
    · have := (List.mem_filter.mp hm).2
      simp only [decide_eq_true_eq] at this
      exact this (mem_ovOf.mpr ⟨hacc, hx⟩)
    · have := (List.mem_filter.mp (mem_keepLast.mp hm)).2
      simp [hp] at this

/-- a `-D`/`-U`/`-isystem`-like (override-type, not prepend-type) argument of the batch survives in the
back block, after everything that was in the list before: the result is `front ++ back`, `back` is
made of batch arguments in batch order and holds the one occurrence; `front` (which contains all that
is left of the old list) does not contain it -/
theorem override_survivor_position_back (L b : List Arg) (x : Arg) (hx : K.dd x = .overridden)
    (hp : K.pp x = false) (hb : x ∈ b) :
    ∃ front back, specAdd K L b = front ++ back ∧ back.Sublist b ∧ (∀ y ∈ back, K.pp y = false) ∧
      x ∈ back ∧ back.count x = 1 ∧ x ∉ front ∧ (∀ y ∈ L, y ∈ specAdd K L b → y ∈ front ∨ y ∈ b) := by
  have hacc : x ∈ accept K L b := mem_accept_of_not_unique (by rw [hx]; decide) hb
  refine ⟨keepFirst K [] ((accept K L b).filter (fun a => K.pp a)) ++ L.filter (fun a => a ∉ ovOf K (accept K L b)),
    keepLast K ((accept K L b).filter (fun a => !K.pp a)),
    by simp [specAdd], ?_, ?_, ?_, ?_, ?_, ?_⟩
  · exact ((keepLast_sublist _).trans List.filter_sublist).trans (accept_sublist L b)
  · intro y hy
    simpa using (List.mem_filter.mp (mem_keepLast.mp hy)).2
  · exact mem_keepLast.mpr (List.mem_filter.mpr ⟨hacc, by simp [hp]⟩)
  · exact count_keepLast_ov hx (List.mem_filter.mpr ⟨hacc, by simp [hp]⟩)
  · intro hm
    rcases List.mem_append.mp hm with hm | hm
    · have := (List.mem_filter.mp (mem_keepFirst.mp hm).1).2
      simp [hp] at this
    · have := (List.mem_filter.mp hm).2
      simp only [decide_eq_true_eq] at this
      exact this (mem_ovOf.mpr ⟨hacc, hx⟩)
  · intro y hy hin
    simp only [specAdd, List.mem_append] at hin
    rcases hin with (h | h) | h
    · exact Or.inl (List.mem_append.mpr (Or.inl h))
    · exact Or.inl (List.mem_append.mpr (Or.inr h))
    · exact Or.inr ((accept_sublist L b).subset (List.mem_filter.mp (mem_keepLast.mp h)).1)

/-- a repeat of a once-only argument is dropped: if it is already in the list its count does not
change; if it is new it appears exactly once however often the batch repeats it -/
theorem once_only_not_repeated (L b : List Arg) (x : Arg) (hx : K.dd x = .unique) :
    (x ∈ L → (specAdd K L b).count x = L.count x) ∧
    (x ∉ L → x ∈ b → (specAdd K L b).count x = 1) ∧
    (x ∉ L → (specAdd K L b).count x ≤ 1) := by
  have hne : K.dd x ≠ .overridden := by rw [hx]; decide
  have hmid : (L.filter (fun a => a ∉ ovOf K (accept K L b))).count x = L.count x := by
    rw [List.count_filter]
    simp only [decide_eq_true_eq]
    intro h
    exact hne (mem_ovOf.mp h).2
  have hsum : (specAdd K L b).count x = L.count x + (accept K L b).count x := by
    simp only [specAdd, List.count_append, hmid]
    rw [count_keepFirst_not_ov hne (by simp), count_keepLast_not_ov hne]
    have := count_filter_split (fun a => K.pp a) (accept K L b) x
    omega
  rw [hsum, count_accept_unique hx]
  refine ⟨?_, ?_, ?_⟩
  · intro h; simp [h]
  · intro h hb; simp [h, hb, List.count_eq_zero.mpr h]
  · intro h
    simp only [h, if_false, List.count_eq_zero.mpr h]
    split <;> omega

/-! ### which repeats are dropped: the classification decides, and a library file is once-only -/

/-- a never-de-duplicated argument repeated in a batch is kept twice -/
theorem nodedup_repeat_kept (L : List Arg) (a : Arg) (ha : K.dd a = .noDedup) (hL : a ∉ L) :
    (specAdd K L [a, a]).count a = 2 := by
  have h := nodedup_keep_order_and_multiplicity K L [a, a]
  have hnd : (decide (K.dd a = .noDedup)) = true := by simp [ha]
  have h1 : ((specAdd K L [a, a]).filter (fun x => K.dd x = .noDedup)).count a = (specAdd K L [a, a]).count a :=
    List.count_filter hnd
  have e1 : ((([a, a] : List Arg).filter (fun x => K.pp x)).filter (fun x => K.dd x = .noDedup)).count a =
      (([a, a] : List Arg).filter (fun x => K.pp x)).count a := List.count_filter hnd
  have e2 : (L.filter (fun x => K.dd x = .noDedup)).count a = L.count a := List.count_filter hnd
  have e3 : ((([a, a] : List Arg).filter (fun x => !K.pp x)).filter (fun x => K.dd x = .noDedup)).count a =
      (([a, a] : List Arg).filter (fun x => !K.pp x)).count a := List.count_filter hnd
  have hs := count_filter_split (fun x => K.pp x) [a, a] a
  have h0 : L.count a = 0 := List.count_eq_zero.mpr hL
  have h2 : ([a, a] : List Arg).count a = 2 := by simp
  rw [← h1, h, List.count_append, List.count_append, e1, e2, e3]
  omega

/-- **a repeated argument is dropped exactly when the classification says it can be de-duplicated** -/
theorem repeat_dropped_iff (L : List Arg) (a : Arg) (hL : a ∉ L) :
    (specAdd K L [a, a]).count a = 1 ↔ K.dd a ≠ .noDedup := by
  constructor
  · intro h hn
    rw [nodedup_repeat_kept K L a hn hL] at h
    omega
  · intro h
    cases hd : K.dd a with
    | noDedup => exact absurd hd h
    | unique => exact (once_only_not_repeated K L [a, a] a hd).2.1 hL (by simp)
    | overridden => exact override_survivor_unique K L [a, a] a hd (by simp)

/-- for the base class (live tables): the repeat is dropped exactly for library files -- a name with one
of the documented suffixes, or a path the recogniser of `dedup1_regex` accepts (per-run obligation on the
regenerated tables) -/
theorem base_repeat_dropped_iff_library_file (L : List Arg) (a : Arg) (hL : a ∉ L) :
    (specAdd baseTables.classify L [a, a]).count a = 1 ↔
      (endsWithAny baseTables.dedup1Suffixes a = true ∨ dedup1Regex a = true) := by
  rw [repeat_dropped_iff baseTables.classify L a hL]
  simp only [Tables.classify, Tables.dd, baseTables, startsWithAny, endsWithAny, List.any_nil, List.not_mem_nil,
    Bool.false_eq_true, false_or, or_self, if_false]
  split <;> simp_all

/-- **what the recogniser must accept**: every path `dir/libNAME.so[.N[.N[.N]]]` -- `lib` at the start of
a path component (after `/` or `\` or at the very start), no line break in the name, at most three
version components, each one or more digits *of any length* -- is once-only for the base class (and so for
every class that does not classify it earlier) -/
theorem versioned_library_is_once_only (dir name : List Char) (comps : List (List Char))
    (hd : DirOk dir) (hn : ∀ x ∈ name, x ≠ '\n') (hl : comps.length ≤ 3) (hc : ∀ c ∈ comps, NumComp c) :
    baseTables.dd (dir ++ ['l', 'i', 'b'] ++ name ++ ['.', 's', 'o'] ++ comps.flatMap (fun c => '.' :: c)) = .unique := by
  have h := versioned_so_accepted dir name comps hd hn hl hc
  simp only [Tables.dd, baseTables, startsWithAny, endsWithAny, List.any_nil, List.not_mem_nil,
    Bool.false_eq_true, false_or, or_self, if_false, h, or_true, if_true]

/-- the hypotheses are met by `/usr/lib64/libcrypto.so.10`, `libicuuc.so.74.2`, `libboost_system.so.1.83.0` -/
example : baseTables.dd "/usr/lib64/libcrypto.so.10".toList = .unique ∧ baseTables.dd "libicuuc.so.74.2".toList = .unique ∧
    baseTables.dd "libboost_system.so.1.83.0".toList = .unique := by decide

/-- and the other side of each alternative: four components, a trailing dot, a non-numeric component, no
`lib` at the start of a component, upper case, `.so` not at the end -/
example : baseTables.dd "libfoo.so.1.2.3.4".toList = .noDedup ∧ baseTables.dd "libfoo.so.1.".toList = .noDedup ∧
    baseTables.dd "libfoo.so.1a".toList = .noDedup ∧ baseTables.dd "xlibfoo.so.1".toList = .noDedup ∧
    baseTables.dd "LIBFOO.SO.1".toList = .noDedup ∧ baseTables.dd "libfoo.so.1.bar".toList = .noDedup ∧
    baseTables.dd "dir/foo.so.12".toList = .noDedup := by decide

/-! ### once-only arguments on the implementation's `+=`, every class

Until 661f340 `DCompilerArgs` (where `-Lx.a` is prepend-type *and* once-only) kept both copies of a repeat
inside one batch; the statement below was false for it and is now proved for every table. -/

/-- a new once-only argument appears at most once after `+=`, for every class tables -/
theorem once_only_holds (T : Tables) (L b : List Arg) (x : Arg) (hx : T.classify.dd x = .unique) (hL : x ∉ L) :
    ((stepEager (cfgOf T) (mk L) (.iadd b)).1.container).count x ≤ 1 := by
  rw [eager_add_eq_spec (cfgOf T) L b]
  exact (once_only_not_repeated T.classify L b x hx).2.2 hL

/-- the former failing input, for every classifier: a once-only argument added twice in ONE `+=` to an
empty list is kept once (`x = -Lx.a` on the D tables was F-ARG-D) -/
theorem repeat_in_one_batch_dropped (cfg : Cfg) (x : Arg) (hx : cfg.K.dd x = .unique) :
    (finalLazy cfg (mk []) [.iadd [x, x]]).count x = 1 := by
  rw [lazy_add_eq_spec]
  exact (once_only_not_repeated cfg.K [] [x, x] x hx).2.1 (by simp) (by simp)

/-- the D tables as of 661f340 (literal, so that the example does not depend on future table edits) -/
def dTablesLit : Tables where
  prependPrefixes := [['-', 'I'], ['-', 'L']]
  dedup2Prefixes := [['-', 'I']]
  dedup2Suffixes := []
  dedup2Args := []
  dedup1Prefixes := []
  dedup1Suffixes := [['.', 'l', 'i', 'b'], ['.', 'd', 'l', 'l'], ['.', 's', 'o'], ['.', 'd', 'y', 'l', 'i', 'b'], ['.', 'a']]
  dedup1Args := []
  alwaysDedupArgs := []

/-- the hypothesis is met by `-Lx.a` on the D tables (prepend-type and once-only), and the model computes
one copy -/
example : dTablesLit.classify.dd ['-', 'L', 'x', '.', 'a'] = .unique ∧ dTablesLit.pp ['-', 'L', 'x', '.', 'a'] = true ∧
    finalLazy (cfgOf dTablesLit) (mk []) [.iadd [['-', 'L', 'x', '.', 'a'], ['-', 'L', 'x', '.', 'a']]] =
      [['-', 'L', 'x', '.', 'a']] := by
  decide

/-! ### `to_native` -/

/-- **placement of `-Wl,--start-group` / `-Wl,--end-group`, for every list**: with fewer than two
library-like arguments nothing changes; otherwise, with `a` the first and `b` the last library-like
argument, the result is the same list with the start marker directly before `a` and the end marker
directly after `b` -- every library-like argument is inside the group, the group is contiguous,
nothing else moves -/
theorem to_native_group_placement (l : List Arg) :
    (addGroups l = l ∧ (l.filter groupFlags).length ≤ 1) ∨
    ∃ pre a mid b post, l = pre ++ (a :: (mid ++ (b :: post))) ∧
      groupFlags a = true ∧ groupFlags b = true ∧
      (∀ x ∈ pre, groupFlags x = false) ∧ (∀ x ∈ post, groupFlags x = false) ∧
      addGroups l = pre ++ (startGroup :: a :: (mid ++ (b :: endGroup :: post))) :=
  group_placement l

/-- both branches of the placement theorem occur -/
example : addGroups [['-', 'l', 'a'], ['x'], ['y', '.', 'a']] =
    [startGroup, ['-', 'l', 'a'], ['x'], ['y', '.', 'a'], endGroup] ∧ addGroups [['-', 'l', 'a'], ['x']] = [['-', 'l', 'a'], ['x']] := by
  decide


def groupMarkers : List Arg :=
  [['-', 'W', 'l', ',', '-', '-', 's', 't', 'a', 'r', 't', '-', 'g', 'r', 'o', 'u', 'p'],
   ['-', 'W', 'l', ',', '-', '-', 'e', 'n', 'd', '-', 'g', 'r', 'o', 'u', 'p']]

theorem filter_insertAt (p : Arg → Bool) (l : List Arg) (i : Int) (a : Arg) (h : p a = false) :
    (insertAt l i a).filter p = l.filter p := by
  simp only [insertAt, List.filter_append, List.filter_cons, h, Bool.false_eq_true, if_false]
  rw [← List.filter_append, List.take_append_drop]

/-- the group pass only inserts the two markers: without them the list is unchanged -/
theorem to_native_only_inserts_groups (l : List Arg) :
    (addGroups l).filter (fun a => a ∉ groupMarkers) = l.filter (fun a => a ∉ groupMarkers) := by
  unfold addGroups
  split
  · split
    · rw [filter_insertAt _ _ _ _ (by decide), filter_insertAt _ _ _ _ (by decide)]
    · rfl
  · rfl

/-- the default-include pass only removes elements -/
theorem to_native_strip_only_removes (dirs l : List Arg) : (stripDefaults dirs l).Sublist l := by
  unfold stripDefaults
  split
  · exact List.Sublist.refl _
  · generalize (badIdx dirs l 0).reverse = idx
    induction idx generalizing l with
    | nil => exact List.Sublist.refl _
    | cons i is ih => exact (ih (l.eraseIdx i)).trans (List.eraseIdx_sublist ..)

/-- without a GNU-like linker and without default directories `to_native` is the list itself -/
theorem to_native_plain (l : List Arg) : nativeList .plain l = l ∧ nativeList (.clike false []) l = l := by
  simp [nativeList, stripDefaults]


/-! ### `to_native` as a whole: flush, group markers, default-include stripping

`CLikeCompilerArgs.to_native` = `flush_pre_post`, then (GNU-like linkers) the group markers, then the removal
of `-isystem <default include dir>`, then `compiler.unix_args_to_native` (the identity copy of
`Compiler.unix_args_to_native` for every compiler the harness runs; MSVC-style translation is not modelled).
`DirsAbs dirs`: the default directories are absolute paths -- they are `os.path.realpath` results. -/

/-- **the index loop is the index-free pass `stripSpec`**: a bare `-isystem` followed by a default directory
goes together with the directory, a joined `-isystem<dir>`/`-isystem=<dir>` naming one goes, all else stays -/
theorem to_native_strip_is_spec (dirs l : List Arg) (hd : DirsAbs dirs) :
    stripDefaults dirs l = stripSpec dirs l :=
  stripDefaults_eq_stripSpec dirs (dirsOk_of_abs hd) l

/-- the hypothesis is needed: with a "directory" that itself looks like `-isystem` the index list repeats
an index and an unrelated argument is popped -/
example : stripDefaults [isys] [isys, isys, isys, ['k']] = [] ∧ stripSpec [isys] [isys, isys, isys, ['k']] = [isys, ['k']] := by
  decide

/-- **nothing is invented but the two markers, order is kept**: without the markers the result is a
sublist of the argument list (every class flavour, every directory list) -/
theorem to_native_nothing_invented (n : Native) (l : List Arg) :
    ((nativeList n l).filter (fun a => a ∉ groupMarkers)).Sublist l := by
  cases n with
  | plain => exact List.filter_sublist
  | clike gnu dirs =>
    simp only [nativeList]
    refine ((to_native_strip_only_removes dirs _).filter _).trans ?_
    cases gnu
    · exact List.filter_sublist
    · simp only [if_true]
      rw [to_native_only_inserts_groups]
      exact List.filter_sublist

/-- **nothing is lost but default-directory `-isystem` arguments**: the arguments that are not the bare word
`-isystem`, not a joined form naming a default directory, not a default directory and not a marker come
out exactly as they went in -- same order, same multiplicity -/
theorem to_native_nothing_lost (gnu : Bool) (dirs l : List Arg) (hd : DirsAbs dirs) (p : Arg → Bool)
    (hp : ∀ x, p x = true → survives dirs x = true ∧ x ∉ groupMarkers) :
    (nativeList (.clike gnu dirs) l).filter p = l.filter p := by
  rw [nativeList_clike gnu dirs l hd, stripSpec_filter dirs p (fun x hx => (hp x hx).1)]
  cases gnu
  · rfl
  · simp only [if_true]
    have h := congrArg (List.filter p) (to_native_only_inserts_groups l)
    rw [List.filter_filter, List.filter_filter] at h
    have e : ∀ m : List Arg, m.filter (fun a => p a && decide (a ∉ groupMarkers)) = m.filter p := by
      intro m
      apply List.filter_congr
      intro x _
      cases hx : p x
      · rfl
      · simp [(hp x hx).2]
    rwa [e, e] at h

/-- in particular every such argument keeps its multiplicity -/
theorem to_native_keeps_count (gnu : Bool) (dirs l : List Arg) (hd : DirsAbs dirs) (x : Arg)
    (hx : survives dirs x = true) (hm : x ∉ groupMarkers) :
    (nativeList (.clike gnu dirs) l).count x = l.count x := by
  have h := to_native_nothing_lost gnu dirs l hd (fun y => y == x)
    (by intro y hy; simp at hy; subst hy; exact ⟨hx, hm⟩)
  have e : ∀ m : List Arg, m.count x = (m.filter (fun y => y == x)).length := by
    intro m; simp [List.count, List.countP_eq_length_filter]
  rw [e, e, h]

/-- the hypotheses are met by ordinary arguments, and a joined default directory does not survive -/
example : survives [['/', 'u']] ['-', 'l', 'm'] = true ∧ survives [['/', 'u']] ['-', 'i', 's', 'y', 's', 't', 'e', 'm', '/', 'v'] = true ∧
    survives [['/', 'u']] ['-', 'i', 's', 'y', 's', 't', 'e', 'm', '/', 'u'] = false ∧ DirsAbs [['/', 'u']] := by
  refine ⟨by decide, by decide, by decide, ?_⟩
  intro d hd
  simp at hd
  subst hd
  rfl

/-- **the markers enclose every library argument** (GNU-like linker): with fewer than two library-like
arguments only the default-include pass runs; otherwise the result is `P ++ start :: M ++ end :: Q` where
`P`, `M`, `Q` are what is left of the part before the first library-like argument, of the span from the first to
the last one, and of the part after it -- no library-like argument is outside the markers -/
theorem to_native_markers_enclose_libraries (dirs l : List Arg) (hd : DirsAbs dirs) :
    ((l.filter groupFlags).length ≤ 1 ∧ nativeList (.clike true dirs) l = stripSpec dirs l) ∨
    ∃ pre span post, l = pre ++ span ++ post ∧ 2 ≤ (span.filter groupFlags).length ∧
      nativeList (.clike true dirs) l =
        stripSpec dirs pre ++ startGroup :: (stripSpec dirs span ++ endGroup :: stripSpec dirs post) ∧
      (∀ x ∈ stripSpec dirs pre, groupFlags x = false) ∧ (∀ x ∈ stripSpec dirs post, groupFlags x = false) := by
  rcases nativeList_gnu_shape dirs l hd with h | ⟨pre, a, mid, b, post, hl, ha, hb, hpre, hpost, hn⟩
  · exact Or.inl h
  · refine Or.inr ⟨pre, a :: (mid ++ [b]), post, by simp [hl], ?_, hn,
      fun x hx => hpre x (mem_stripSpec hx), fun x hx => hpost x (mem_stripSpec hx)⟩
    simp only [List.filter_cons, ha, if_true, List.filter_append, hb, List.filter_nil, List.length_cons,
      List.length_append, List.length_nil]
    omega

/-- **the markers appear at most once more than in the input**, and only as a pair, only for a GNU-like
linker with at least two library-like arguments -/
theorem to_native_markers_at_most_once (gnu : Bool) (dirs l : List Arg) (hd : DirsAbs dirs) :
    ((nativeList (.clike gnu dirs) l).count startGroup = l.count startGroup ∧
      (nativeList (.clike gnu dirs) l).count endGroup = l.count endGroup) ∨
    (gnu = true ∧ 2 ≤ (l.filter groupFlags).length ∧
      (nativeList (.clike gnu dirs) l).count startGroup = l.count startGroup + 1 ∧
      (nativeList (.clike gnu dirs) l).count endGroup = l.count endGroup + 1) := by
  have hs := survives_startGroup hd
  have he := survives_endGroup hd
  cases gnu
  · left
    rw [nativeList_clike false dirs l hd]
    exact ⟨stripSpec_count dirs l _ hs, stripSpec_count dirs l _ he⟩
  · rcases nativeList_gnu_shape dirs l hd with ⟨_, h⟩ | ⟨pre, a, mid, b, post, hl, ha, hb, hpre, hpost, hn⟩
    · left
      rw [h]
      exact ⟨stripSpec_count dirs l _ hs, stripSpec_count dirs l _ he⟩
    · right
      have hl' : l = pre ++ (a :: (mid ++ [b])) ++ post := by simp [hl]
      have h2 : 2 ≤ (l.filter groupFlags).length := by
        rw [hl]
        simp only [List.filter_cons, ha, if_true, List.filter_append, hb, List.length_cons, List.length_append]
        omega
      have e1 : (endGroup == startGroup) = false := by decide
      have e2 : (startGroup == endGroup) = false := by decide
      refine ⟨rfl, h2, ?_, ?_⟩
      · rw [hn, hl']
        simp only [List.count_append, List.count_cons, stripSpec_count dirs _ _ hs, beq_self_eq_true, if_true, e1,
          Bool.false_eq_true, if_false]
        omega
      · rw [hn, hl']
        simp only [List.count_append, List.count_cons, stripSpec_count dirs _ _ he, beq_self_eq_true, if_true, e2,
          Bool.false_eq_true, if_false]
        omega

/-- a list without markers gets each marker at most once -/
theorem to_native_markers_fresh (gnu : Bool) (dirs l : List Arg) (hd : DirsAbs dirs)
    (h1 : startGroup ∉ l) (h2 : endGroup ∉ l) :
    (nativeList (.clike gnu dirs) l).count startGroup ≤ 1 ∧ (nativeList (.clike gnu dirs) l).count endGroup ≤ 1 := by
  have c1 := List.count_eq_zero.mpr h1
  have c2 := List.count_eq_zero.mpr h2
  rcases to_native_markers_at_most_once gnu dirs l hd with ⟨a, b⟩ | ⟨_, _, a, b⟩ <;> omega

/-- a linker that is not GNU-like never gets markers: the result is the default-include pass alone -/
theorem to_native_non_gnu (dirs l : List Arg) (hd : DirsAbs dirs) :
    nativeList (.clike false dirs) l = stripSpec dirs l := by
  rw [nativeList_clike false dirs l hd]; rfl

/-- both branches on one list: GNU-like with default directories, and not GNU-like -/
example : nativeList (.clike true [['/', 'u']]) [['-', 'l', 'a'], isys, ['/', 'u'], ['x', '.', 'a'], isys ++ ['/', 'u'], ['m', '.', 'o']] =
      [startGroup, ['-', 'l', 'a'], ['x', '.', 'a'], endGroup, ['m', '.', 'o']] ∧
    nativeList (.clike false [['/', 'u']]) [['-', 'l', 'a'], isys, ['/', 'u'], ['x', '.', 'a'], isys ++ ['/', 'u'], ['m', '.', 'o']] =
      [['-', 'l', 'a'], ['x', '.', 'a'], ['m', '.', 'o']] := by
  decide

/-- **`to_native(copy=True)` does not modify the receiver**: the object is left flushed -- the same eager
list -- and every later operation sequence gives the outputs it would have given without the call -/
theorem to_native_copy_leaves_receiver (cfg : Cfg) (s : State) (hi : Inv cfg.K s) (ops : List Op) :
    (step cfg s (.toNative true)).1 = flush cfg.K s ∧
    runLazy cfg (step cfg s (.toNative true)).1 ops = runLazy cfg s ops ∧
    finalLazy cfg (step cfg s (.toNative true)).1 ops = finalLazy cfg s ops := by
  refine ⟨rfl, ?_, ?_⟩
  · show runLazy cfg (flush cfg.K s) ops = _
    rw [runLazy_eq_runEager_flush cfg ops _ (inv_flush s), flush_flush, ← runLazy_eq_runEager_flush cfg ops s hi]
  · show finalLazy cfg (flush cfg.K s) ops = _
    rw [finalLazy_eq_finalEager_flush cfg ops _ (inv_flush s), flush_flush, ← finalLazy_eq_finalEager_flush cfg ops s hi]

/-- whereas `copy=False` turns the receiver into the native list -/
theorem to_native_in_place (cfg : Cfg) (s : State) :
    (step cfg s (.toNative false)).1.container = nativeList cfg.native (flush cfg.K s).container := rfl

theorem finalLazy_eq_foldl (cfg : Cfg) (ops : List Op) (s : State) :
    finalLazy cfg s ops = (flush cfg.K (ops.foldl (fun s op => (step cfg s op).1) s)).container := by
  induction ops generalizing s with
  | nil => rfl
  | cons op ops ih => exact ih _

/-- **composition with the eager meaning**: after any operation sequence on a constructed object,
`to_native` returns the native form of the *eager* final list (the list of the object flushed after every
operation) -/
theorem to_native_of_lazy_is_native_of_eager (cfg : Cfg) (init : List Arg) (ops : List Op) (c : Bool) :
    (step cfg (ops.foldl (fun s op => (step cfg s op).1) (mk init)) (.toNative c)).2 =
      .list (nativeList cfg.native (finalEager cfg (mk init) ops)) := by
  rw [← lazy_final_eq_eager_final, finalLazy_eq_foldl]
  rfl

/-! ### the backend's assembly of one compile line

`Assemble.lean` spells out, group by group, what `_generate_single_compile_base_args`,
`generate_basic_compiler_args`, `_generate_single_compile_target_args` and `_generate_single_compile` add
and in which order (`Sources`: the abstract argument groups and the conditions the code tests). -/

/-- **the assembled lazy objects denote the eager fold**: the list the backend reads is the base-option list,
eagerly extended by the target list, which is itself the eager fold over the groups in the documented order
(with the `/Zi` fix after the `<lang>_args` option group) -/
theorem backend_assembly_is_eager (K : Classify) (src : Sources) : compileLine K src = compileSpec K src :=
  compileLine_eq src

/-- and `to_native` of the assembled object is the native form of that list -/
theorem to_native_of_compile_line (cfg : Cfg) (src : Sources) (c : Bool) :
    (step cfg (compileLazy cfg.K src) (.toNative c)).2 = .list (nativeList cfg.native (compileSpec cfg.K src)) := by
  rw [← backend_assembly_is_eager]
  rfl

/-- the documented order of the groups of the target list, for an executable with `werror`, one found
dependency, implicit include directories and one `include_directories` object -/
example (a b c d e f g h i j k : List Arg) :
    let src : Sources := {
      visibility := [], baseOpts := [], noStdlib := a, always := b, warn := c, werror := true, werrorArgs := d,
      optionCompile := [], optionStd := [], optimization := [], debug := [], project := e, globalArgs := f, ext := g,
      kind := .executable true, picArgs := [], pieArgs := h, deps := [⟨true, i, []⟩, ⟨false, k, k⟩], fortran := false, fortranIncs := [],
      showDep := [], implicitIncs := true, customTargetDirs := [], incDirs := [⟨[(j, k)], []⟩], extra := k, isD := false, dFeatures := [],
      srcDirInc := a, buildDirInc := b, privateDirInc := c }
    earlyGroups src ++ basicLateGroups src ++ ninjaGroups src =
      [a, b, c, d, [], [], [], [], e, f, g, h, i, [], [], [], j, k, k, a, b, c] := by
  intro src; rfl

/-- **a later-added setting wins** (`-D`/`-U`/`-isystem`-like: override-type, appended): if `y` is added by
group `g` and by no later group, and `x` is in the list by then and not added again from `g` on, then in the
assembled list `x` comes before `y`, and `y` occurs exactly once -- the compiler sees the later setting last -/
theorem later_setting_wins (K : Classify) (L0 : List Arg) (B : List (List Arg)) (g : List Arg) (C : List (List Arg))
    (x y : Arg) (hx : x ∈ assembleFrom K L0 B) (hxg : x ∉ g) (hxC : ∀ c ∈ C, x ∉ c)
    (hy : y ∈ g) (hyC : ∀ c ∈ C, y ∉ c) (hd : K.dd y = .overridden) (hp : K.pp y = false) :
    [x, y].Sublist (assembleFrom K L0 (B ++ g :: C)) ∧ (assembleFrom K L0 (B ++ g :: C)).count y = 1 := by
  have e : assembleFrom K L0 (B ++ g :: C) = assembleFrom K (specAdd K (assembleFrom K L0 B) g) C := by
    rw [assembleFrom_append]; rfl
  rw [e]
  constructor
  · apply sublist_assembleFrom_of_untouched
    · intro c hc z hz
      rcases List.mem_cons.mp hz with rfl | hz
      · exact hxC c hc
      · rcases List.mem_cons.mp hz with rfl | hz
        · exact hyC c hc
        · cases hz
    · exact pair_specAdd_back _ g x y hx hxg hy (by rw [hd]; decide) hp
  · rw [count_assembleFrom_of_untouched _ C y hyC]
    exact override_survivor_unique K _ g y hd hy

/-- **the `-I`/`-L` of a later group goes in front** (override- and prepend-type): under the same conditions
`y` comes before `x`, and occurs exactly once -- the later-added directory is searched first -/
theorem later_include_goes_in_front (K : Classify) (L0 : List Arg) (B : List (List Arg)) (g : List Arg)
    (C : List (List Arg)) (x y : Arg) (hx : x ∈ assembleFrom K L0 B) (hxg : x ∉ g) (hxC : ∀ c ∈ C, x ∉ c)
    (hy : y ∈ g) (hyC : ∀ c ∈ C, y ∉ c) (hd : K.dd y = .overridden) (hp : K.pp y = true) :
    [y, x].Sublist (assembleFrom K L0 (B ++ g :: C)) ∧ (assembleFrom K L0 (B ++ g :: C)).count y = 1 := by
  have e : assembleFrom K L0 (B ++ g :: C) = assembleFrom K (specAdd K (assembleFrom K L0 B) g) C := by
    rw [assembleFrom_append]; rfl
  rw [e]
  constructor
  · apply sublist_assembleFrom_of_untouched
    · intro c hc z hz
      rcases List.mem_cons.mp hz with rfl | hz
      · exact hyC c hc
      · rcases List.mem_cons.mp hz with rfl | hz
        · exact hxC c hc
        · cases hz
    · exact pair_specAdd_front _ g x y hx hxg hy (by rw [hd]; decide) hp
  · rw [count_assembleFrom_of_untouched _ C y hyC]
    exact override_survivor_unique K _ g y hd hy

/-- what "`x` is in the list by then" means: it was there at the start or an earlier group added it -/
theorem in_assembled_iff (K : Classify) (L0 : List Arg) (gs : List (List Arg)) (x : Arg) :
    x ∈ assembleFrom K L0 gs ↔ x ∈ L0 ∨ ∃ g ∈ gs, x ∈ g := mem_assembleFrom

/-- the last step of `_generate_single_compile`: a target-level setting wins over the base-option list, a
target-level `-I` goes in front of it -/
theorem target_list_over_base_list (K : Classify) (src : Sources) (x y : Arg)
    (hx : x ∈ assembleFrom K [] [src.visibility, src.baseOpts]) (hxT : x ∉ targetArgsSpec K src)
    (hy : y ∈ targetArgsSpec K src) (hd : K.dd y = .overridden) :
    (K.pp y = false → [x, y].Sublist (compileSpec K src)) ∧ (K.pp y = true → [y, x].Sublist (compileSpec K src)) :=
  ⟨fun hp => pair_specAdd_back _ _ x y hx hxT hy (by rw [hd]; decide) hp,
   fun hp => pair_specAdd_front _ _ x y hx hxT hy (by rw [hd]; decide) hp⟩

/-- **shape of every assembled list**: started from an empty list, the prepend-type arguments (`-I`, `-L`)
form a front block and everything else follows -/
theorem assembled_blocks (K : Classify) (gs : List (List Arg)) :
    ∃ A B, assembleFrom K [] gs = A ++ B ∧ (∀ a ∈ A, K.pp a = true) ∧ (∀ b ∈ B, K.pp b = false) :=
  assembleFrom_blocks gs [] [] [] rfl (by simp) (by simp)

/-- the three statements on the live C-like tables: project `-DX=1`, target `-DX=2` and `-DX=1` again in a
dependency; include directories of three groups -/
example :
    assembleFrom clikeTables.classify [] ["-DX=1".toList :: ["-Ia".toList], ["-O2".toList, "-Ib".toList], ["-DX=2".toList, "-Ia".toList]] =
      ["-Ia".toList, "-Ib".toList, "-DX=1".toList, "-O2".toList, "-DX=2".toList] := by
  decide

end MesonModel.Props.C13
