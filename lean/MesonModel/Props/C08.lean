import MesonModel.Life.UpdateLemmas
import MesonModel.Life.ParentCurrent
import MesonModel.Life.Invariant
import MesonModel.Life.Frame
import MesonModel.Life.Persist
/-
C08 — option state persists faithfully across the build-directory lifecycle.

Model: `MesonModel.Life` (`step : Dir → Cmd → Dir × Out` over coredata.dat / cmd_line.txt / the introspection file /
the two option files) on top of the C07 `OptionStore` model.  The statements below are about *every* directory
`d : Dir` (any store, any cmd_line.txt, any option files) and every command unless concrete data is named.

Seven of the nine defects found through this check are repaired in /repo (known_findings.txt, `fixed:` lines) and the
model mirrors the repaired code.  Two remain (`--wipe` that fails leaves the directory unconfigured; a removed
option that is still recorded in cmd_line.txt): for those clauses the file keeps the full statement as a
`def … : Prop`, proves its negation on a concrete history of the harness's test tree (`decide +kernel` evaluates the
model), and proves the part that does hold as `…_partial` / under the excluding hypothesis.
-/
namespace MesonModel.Props.C08
open MesonModel.Options MesonModel.Life

/-! ## failed commands -/

/-- the full clause: a command that fails leaves the persisted state exactly as it was -/
def failed_command_is_identity : Prop := ∀ (d : Dir) (c : Cmd), (step d c).2.isOk = false → (step d c).1 = d

/-- Every command except `--wipe` that fails — before the end of the interpretation (unknown option, invalid value,
error() in a build file, exception while reading an option, unused-option check) or *after* coredata.dat,
cmd_line.txt and the introspection file were rewritten (failing postconf script) — leaves coredata.dat, cmd_line.txt,
the introspection file and the option files exactly as they were. -/
theorem failed_command_is_identity_partial (d : Dir) (c : Cmd) (e : Err) (l : Bool) (hw : ∀ nd, c ≠ .wipe nd)
    (h : (step d c).2 = .failed e l) : (step d c).1 = d := by
  cases c with
  | setup nd =>
    simp only [step] at *
    cases hc : d.core with
    | none =>
      simp only [hc] at h ⊢
      split at h
      · rename_i hco; simp [hco]
      · rename_i hco; simp only [hco]; exact firstInvocation_failed _ _ _ _ h
    | some c => simp only [hc] at h ⊢; exact configure_failed _ _ _ _ h
  | configure args => exact configure_failed _ _ _ _ h
  | reconfigure nd =>
    simp only [step] at *
    cases hc : d.core with
    | none =>
      simp only [hc] at h ⊢
      exact firstInvocation_failed _ _ _ _ h
    | some c => simp only [hc] at h ⊢; exact reconfigure_failed _ _ _ _ _ h
  | wipe nd => exact absurd rfl (hw nd)
  | editSet b n sp => simp [step] at h
  | editRemove b n => simp [step] at h
  | corrupt => simp [step] at h
  | fileSet b f => simp [step] at h
  | extra p e => simp [step] at h

/-- every command of the history fails and none is a wipe -/
def AllFail : Dir → List Cmd → Prop
  | _, [] => True
  | d, c :: r => (∀ nd, c ≠ .wipe nd) ∧ (∃ e l, (step d c).2 = .failed e l) ∧ AllFail (step d c).1 r

/-- fault sequences, by induction over the history: any number of failing commands in a row is the identity -/
theorem failed_history_is_identity : ∀ (h : List Cmd) (d : Dir), AllFail d h → runHist d h = d
  | [], _, _ => rfl
  | c :: r, d, ⟨hw, ⟨e, l, he⟩, hr⟩ => by
    have h1 := failed_command_is_identity_partial d c e l hw he
    simp only [runHist]
    rw [h1] at hr ⊢
    exact failed_history_is_identity r d hr

/-- every command of the history is an option-file edit or fails (early or late), none is a wipe -/
def AllFailOrEdit : Dir → List Cmd → Prop
  | _, [] => True
  | d, c :: r => (∀ nd, c ≠ .wipe nd) ∧
      ((∃ e l, (step d c).2 = .failed e l) ∨ (∃ b n sp, c = .editSet b n sp) ∨ (∃ b n, c = .editRemove b n) ∨
        (∃ p e, c = .extra p e)) ∧
      AllFailOrEdit (step d c).1 r

/-- `value_persists`, the part that holds for every directory: through any sequence of option-file edits and
failing commands — including commands that fail *after* coredata.dat was rewritten — coredata.dat, hence every
effective option value, is exactly what it was (induction over the history; `value_persists` for histories with
successful commands is tied by the correspondence run, see manifest) -/
theorem value_persists_partial : ∀ (h : List Cmd) (d : Dir), AllFailOrEdit d h →
    (runHist d h).core = d.core ∧ ∀ proj name, (runHist d h).eff proj name = d.eff proj name
  | [], _, _ => ⟨rfl, fun _ _ => rfl⟩
  | c :: r, d, ⟨hw, hc, hr⟩ => by
    have h1 : (step d c).1.core = d.core := by
      rcases hc with ⟨e, l, he⟩ | ⟨b, n, sp, rfl⟩ | ⟨b, n, rfl⟩ | ⟨p, e, rfl⟩
      · rw [failed_command_is_identity_partial d c e l hw he]
      · cases b <;> rfl
      · cases b <;> rfl
      · rfl
    have ih := value_persists_partial r (step d c).1 hr
    simp only [runHist]
    refine ⟨ih.1.trans h1, fun proj name => ?_⟩
    rw [ih.2 proj name]
    simp only [Dir.eff, h1]

/-- editing an option file touches nothing in the build directory -/
theorem edit_keeps_build_directory (d : Dir) (b : Bool) (n : Str) (sp : Option ObjSpec) :
    let d' := (step d (match sp with | some s => .editSet b n s | none => .editRemove b n)).1
    d'.core = d.core ∧ d'.cmdline = d.cmdline ∧ d'.intro = d.intro := by
  cases sp <;> cases b <;> simp [step]

/-- … also the option file of any further subproject -/
theorem edit_extra_keeps_build_directory (d : Dir) (p : Str) (e : XEdit) :
    let d' := (step d (.extra p e)).1
    d'.core = d.core ∧ d'.cmdline = d.cmdline ∧ d'.intro = d.intro := by
  simp [step]

/-! ## `--wipe` -/

/-- `--wipe` reads nothing but cmd_line.txt and the current option files -/
theorem wipe_ignores_coredata (d : Dir) (nd : Dict) :
    step d (.wipe nd) = step { d with core := none, intro := none } (.wipe nd) := rfl

/-- `interpret` reads only the source tree -/
theorem interpret_congr (b : Bool) (c : Core) (d d' : Dir) (cmd : Dict)
    (h1 : d'.top = d.top) (h2 : d'.sub = d.sub) (h3 : d'.topFile = d.topFile) (h4 : d'.subFile = d.subFile)
    (h5 : d'.pdoTop = d.pdoTop) (h6 : d'.pdoSub = d.pdoSub) (h7 : d'.spcall = d.spcall) (h8 : d'.more = d.more) :
    interpret b c d' cmd = interpret b c d cmd := by
  simp only [interpret, Dir.topEff, Dir.subEff, h1, h2, h3, h4, h5, h6, h7, h8]

/-- `--wipe` = a fresh `meson setup` in an empty directory that is given the recorded command line: same outcome,
same coredata, same introspection data, and on success the same cmd_line.txt. -/
theorem wipe_eq_replay (d : Dir) (f : Dict) (hf : d.cmdline = some f) (hn : (f.map Prod.fst).Nodup) :
    let w := step d (.wipe [])
    let r := step d.emptied (.setup f)
    w.2 = r.2 ∧ w.1.core = r.1.core ∧ w.1.intro = r.1.intro ∧ (w.2.isOk = true → w.1.cmdline = r.1.cmdline) := by
  have hm : mergeCmd f [] = f := rfl
  cases d with
  | mk top sub topFile subFile pdoTop pdoSub spcall more core corrupt cmdline intro =>
    simp only at hf
    subst hf
    have e1 := interpret_congr true newCore (Dir.mk top sub topFile subFile pdoTop pdoSub spcall more none false none none)
      (Dir.mk top sub topFile subFile pdoTop pdoSub spcall more none false (some f) none) f rfl rfl rfl rfl rfl rfl rfl rfl
    simp only [step, Dir.emptied, firstInvocation, userOpts, hm, mergeCmd_self f hn, e1]
    generalize interpret true newCore (Dir.mk top sub topFile subFile pdoTop pdoSub spcall more none false none none) f = res
    cases res with
    | error e => simp [commitFirst, Out.isOk]
    | ok r =>
      simp only [commitFirst, Dir.known]
      split
      · simp [Out.isOk]
      · split <;> simp [Out.isOk]

/-! ## re-reading an option file (one entry of `update_project_options`, arbitrary store) -/

/-- a new option gets its default -/
theorem new_option_gets_default (sub : Str) (key : Key) (nobj : Obj) (s : Store)
    (hx : s.isCross = false) (hm : key.machine = .host) (hs : key.sub = some sub)
    (hk : alookup key s.options = none) (hp : alookup key s.pending = none) (ha : alookup key s.augments = none)
    (hy : nobj.yielding = false) (hpar : nobj.parent = none) :
    (updateOne sub (key, nobj) s).1 = .ok () ∧ getValueFor (updateOne sub (key, nobj) s).2 key = .ok nobj.value := by
  rw [updateOne_new sub key nobj s hx hm hs hk hp hy hpar]
  exact ⟨rfl, getValueFor_fresh s key nobj _ hx hm ha hy⟩

/-- a changed choice list (or integer range) keeps the old value when it is still valid and otherwise falls back
to the new default (an option that does not inherit) -/
theorem changed_choices_keep_or_reset (sub : Str) (key : Key) (nobj old : Obj) (s : Store) (oid : Nat)
    (hx : s.isCross = false) (hm : key.machine = .host) (hs : key.sub = some sub)
    (hk : alookup key s.options = some oid) (ho : s.heap[oid]? = some old) (ha : alookup key s.augments = none)
    (hc : old.kind.sameClass nobj.kind = true) (hd : old.kind.choicesDiffer nobj.kind = true)
    (hy : nobj.yielding = false) (hp : nobj.parent = none) :
    (∀ v, validate nobj.kind old.value = .ok v →
      (updateOne sub (key, nobj) s).1 = .ok () ∧ getValueFor (updateOne sub (key, nobj) s).2 key = .ok v) ∧
    (validate nobj.kind old.value = .error .meson →
      (updateOne sub (key, nobj) s).1 = .ok () ∧ getValueFor (updateOne sub (key, nobj) s).2 key = .ok nobj.value) := by
  have hr := updateOne_replace sub key nobj old s oid hx hm hs hk ho (by simp [hc, hd])
  rw [hr, hc]
  constructor
  · intro v hv
    exact replaceObj_plain key nobj old oid false s hx hm ha hy hp v (Or.inr (Or.inl ⟨rfl, hv⟩))
  · intro hv
    exact replaceObj_plain key nobj old oid false s hx hm ha hy hp nobj.value (Or.inr (Or.inr ⟨rfl, hv, rfl⟩))

/-- … and an *inheriting* subproject option whose choices change is linked to the registered top-level object again
and keeps reading it (before the repair: `yielding = True, parent = None`, AttributeError) -/
theorem changed_choices_inheriting_follows_parent (sub : Str) (key : Key) (nobj old p : Obj) (s : Store) (oid pid : Nat)
    (hx : s.isCross = false) (hm : key.machine = .host) (hs : key.sub = some sub) (hst : key.subTruthy = true)
    (hk : alookup key s.options = some oid) (ho : s.heap[oid]? = some old) (ha : alookup key s.augments = none)
    (hc : old.kind.sameClass nobj.kind = true) (hd : old.kind.choicesDiffer nobj.kind = true)
    (hy : nobj.yielding = true) (hold : old.yielding = true)
    (hpk : alookup key.asRoot s.options = some pid) (hp : s.heap[pid]? = some p) (hpp : p.parent = none)
    (hpc : p.kind.sameClass nobj.kind = true) (hpo : pid ≠ oid)
    (hv : ∃ e, validate nobj.kind old.value = .ok e ∨ validate nobj.kind old.value = .error .meson) :
    (updateOne sub (key, nobj) s).1 = .ok () ∧ getValueFor (updateOne sub (key, nobj) s).2 key = .ok p.value := by
  have hr := updateOne_replace sub key nobj old s oid hx hm hs hk ho (by simp [hc, hd])
  rw [hr, hc]
  exact replaceObj_inheriting key nobj old p oid pid s hx hm ha hy hst hpk hp hpp hpc hpo hold hv

/-- a changed *type* replaces the option: it starts from its new default -/
theorem changed_type_gets_new_default (sub : Str) (key : Key) (nobj old : Obj) (s : Store) (oid : Nat)
    (hx : s.isCross = false) (hm : key.machine = .host) (hs : key.sub = some sub)
    (hk : alookup key s.options = some oid) (ho : s.heap[oid]? = some old) (ha : alookup key s.augments = none)
    (hc : old.kind.sameClass nobj.kind = false) (hy : nobj.yielding = false) (hp : nobj.parent = none) :
    (updateOne sub (key, nobj) s).1 = .ok () ∧ getValueFor (updateOne sub (key, nobj) s).2 key = .ok nobj.value := by
  have hr := updateOne_replace sub key nobj old s oid hx hm hs hk ho (by simp [hc])
  rw [hr, hc]
  exact replaceObj_plain key nobj old oid true s hx hm ha hy hp nobj.value (Or.inl ⟨rfl, rfl⟩)

/-- a changed default alone (same type, same choices / range) changes nothing at all: the option keeps the value it
has, i.e. the last one the user gave it, else the default it was *created* with -/
theorem changed_default_keeps_value (sub : Str) (key : Key) (nobj old : Obj) (s : Store) (oid : Nat)
    (hx : s.isCross = false) (hm : key.machine = .host) (hs : key.sub = some sub)
    (hk : alookup key s.options = some oid) (ho : s.heap[oid]? = some old)
    (hc : old.kind.sameClass nobj.kind = true) (hd : old.kind.choicesDiffer nobj.kind = false) :
    updateOne sub (key, nobj) s = (.ok (), s) :=
  updateOne_same sub key nobj old s oid hx hm hs hk ho hc hd

/-- a removed option vanishes from the store when the option file is re-read … -/
theorem removed_option_vanishes_partial (sub : Str) (objs : List (Key × Obj)) (s s' : Store)
    (h : updateProjectOptions sub objs s = (.ok (), s')) (k : Key) (hs : k.sub = some sub)
    (hn : objs.any (fun p => p.1 == k) = false) : s'.isProjectOption k = false :=
  update_removes sub objs s s' h k hs hn

/-- … in particular when the new declaration list is EMPTY (the last option removed, the file left empty or with
comments only, or the file deleted): nothing is special-cased, every project option of that (sub)project is gone -/
theorem removed_option_vanishes_empty (sub : Str) (s s' : Store) (h : updateProjectOptions sub [] s = (.ok (), s'))
    (k : Key) (hs : k.sub = some sub) : s'.isProjectOption k = false :=
  update_removes sub [] s s' h k hs (by simp)

/-- re-reading an option file without declarations always succeeds -/
theorem empty_option_file_is_read (proj : Str) (s : Store) : (loadOptionFile proj [] s).1 = .ok () := by
  simp [loadOptionFile, fileObjs, mkObjs, bind, M.bind, M.ofExcept, M.pure, updateProjectOptions, M.forEach, M.get, M.modify,
    unlinkChildren]

/-- the seeded guard `if oi.options: update_project_options(...)`: the removal pass is skipped for a file without
declarations -/
def loadOptionFileGuarded (proj : Str) (defs : Defs) : M Unit :=
  if (fileObjs proj defs).isEmpty then M.pure () else loadOptionFile proj defs

/-- … refuted on a witness: with the guard the removed options stay registered, without it they vanish -/
theorem guarded_load_keeps_removed_options :
    sOverridden.isProjectOption kSub = true ∧
    (loadOptionFileGuarded "sub".toList [] sOverridden).2.isProjectOption kSub = true ∧
    (loadOptionFile "sub".toList [] sOverridden).2.isProjectOption kSub = false ∧
    (getValueFor (loadOptionFile "sub".toList [] sOverridden).2 kSub).toOption = none := by
  decide +kernel

/-! ## inheriting options and overrides -/

/-- an inheriting option reads the object its `parent` field points to; this is the *current* top-level option as
long as that object is the one registered under the top-level key -/
theorem yield_follows_current_parent_partial (s : Store) (k : Key) (id pid : Nat) (o p : Obj)
    (hx : s.isCross = false) (hm : k.machine = .host)
    (hk : alookup k s.options = some id) (ho : s.heap[id]? = some o) (ha : alookup k s.augments = none)
    (hy : o.yielding = true) (hp : o.parent = some pid)
    (hcur : alookup k.asRoot s.options = some pid) (hpo : s.heap[pid]? = some p) :
    getValueFor s k = .ok p.value ∧ (s.heap[pid]?.map (·.value)) = some p.value := by
  have he : ensureKey s k = k := ensureKey_host s k hx hm
  simp [getValueFor, getIdAndValue, resolveId, he, hk, ho, ha, hy, hp, hpo, Except.map]

/-- when the *parent's* choices change, the parent object is replaced and every child that yielded to the old object
reads the replacement (before the repair the child kept reading the replaced object) -/
theorem parent_replacement_repoints_children (sub : Str) (key ck : Key) (nobj old c : Obj) (oid cid : Nat) (s : Store)
    (hx : s.isCross = false) (hm : key.machine = .host) (hs : key.sub = some sub) (hcm : ck.machine = .host)
    (hk : alookup key s.options = some oid) (ho : s.heap[oid]? = some old)
    (hc : old.kind.sameClass nobj.kind = true) (hd : old.kind.choicesDiffer nobj.kind = true)
    (hy : nobj.yielding = false) (hp : nobj.parent = none)
    (ha : alookup ck s.augments = none) (hkk : key ≠ ck)
    (hck : alookup ck s.options = some cid) (hch : s.heap[cid]? = some c)
    (hcy : c.yielding = true) (hcp : c.parent = some oid) (hcc : nobj.kind.sameClass c.kind = true) (w : Val)
    (hw : validate nobj.kind old.value = .ok w ∨ (validate nobj.kind old.value = .error .meson ∧ w = nobj.value)) :
    getValueFor (updateOne sub (key, nobj) s).2 ck = .ok w := by
  have hr := updateOne_replace sub key nobj old s oid hx hm hs hk ho (by simp [hc, hd])
  rw [hr, hc]
  exact replaceObj_repoints_child key ck nobj old c oid cid s hx hcm ha hkk hy hp hck hch hcy hcp hcc w hw

/-- dropping the override of an inheriting project option (`-Usub:opt`): it yields again and reads its parent's
value — whatever that value is (before the repair: not when the parent was the boolean `false`) -/
theorem drop_override_returns_inherited (s : Store) (k : Key) (id pid : Nat) (o p : Obj)
    (hx : s.isCross = false) (hm : k.machine = .host)
    (ha : alookup k s.augments = none) (hk : alookup k s.options = some id) (ho : s.heap[id]? = some o)
    (hp : o.parent = some pid) (hpo : s.heap[pid]? = some p) (hne : pid ≠ id) :
    (configureOne (k, none) s).1 = .ok (!o.yielding) ∧ getValueFor (configureOne (k, none) s).2 k = .ok p.value :=
  configureOne_unset_yielding s k id pid o p hx hm ha hk ho hp hpo hne

/-- dropping a per-subproject override of a builtin option (`-Usub:opt`) removes the augment: the subproject reads
the global value again -/
theorem drop_builtin_override_returns_global (s : Store) (k : Key) (hk : ahas k s.augments = true) :
    configureOne (k, none) s = (.ok true, { s with augments := aerase k s.augments }) ∧
    alookup k (aerase k s.augments) = none := by
  constructor
  · simp [configureOne, bind, M.bind, M.get, M.modify, M.pure, hk]
  · simp [alookup_aerase]

/-! ## `ParentCurrent`: every parent pointer is the object registered under the top-level key -/

/-- `update_project_options` keeps the invariant: all children of a replaced object are re-pointed (yielding or
overridden), the children of a removed option are unlinked -/
theorem update_project_options_keeps_parentCurrent (sub : Str) (objs : List (Key × Obj)) (s : Store)
    (hw : Wf s) (hpc : ParentCurrent s) (hn : ∀ kv ∈ objs, kv.2.parent = none) :
    ParentCurrent (updateProjectOptions sub objs s).2 :=
  MesonModel.Options.update_project_options_keeps_parentCurrent sub objs s hw hpc hn

theorem update_entries_keep_parentCurrent (sub : Str) (objs : List (Key × Obj)) (s : Store) (hw : Wf s)
    (hpc : ParentCurrent s) (hn : ∀ kv ∈ objs, kv.2.parent = none) :
    Wf (M.forEach (updateOne sub) objs s).2 ∧ ParentCurrent (M.forEach (updateOne sub) objs s).2 :=
  updateLoop_keeps sub objs s hw hpc hn

/-- every way of setting or unsetting values (`-D`, `-U`, and on a first invocation the command line,
default_options and machine-file values) keeps it: no key is inserted, no parent pointer written -/
theorem setting_values_keeps_parentCurrent (s : Store) (hpc : ParentCurrent s) :
    (∀ args d, ParentCurrent (setFromConfigure args d s).2) ∧
    (∀ pdo cmd mf, ParentCurrent (initTop pdo cmd mf s).2) ∧
    (∀ sub sp pdo cmd mf, ParentCurrent (initSub sub sp pdo cmd mf s).2) :=
  ⟨fun args d => (PresPC.setFromConfigure args d).run s hpc, fun pdo cmd mf => (PresPC.initTop pdo cmd mf).run s hpc,
   fun sub sp pdo cmd mf => (PresPC.initSub sub sp pdo cmd mf).run s hpc⟩

/-- with the invariant, dropping the override of an inheriting option returns it to the value of the object that
`-Dname=…` sets: the one registered under the top-level key -/
theorem drop_override_returns_inherited_current (s : Store) (k : Key) (id pid : Nat) (o p : Obj)
    (hx : s.isCross = false) (hm : k.machine = .host) (hw : Wf s) (hpc : ParentCurrent s) (hst : k.subTruthy = true)
    (ha : alookup k s.augments = none) (hk : alookup k s.options = some id) (ho : s.heap[id]? = some o)
    (hp : o.parent = some pid) (hpo : s.heap[pid]? = some p) :
    alookup k.asRoot s.options = some pid ∧ getValueFor (configureOne (k, none) s).2 k = .ok p.value := by
  have hroot := hpc k id o pid hk ho hp
  have hne : pid ≠ id := by
    intro e; subst e
    exact asRoot_ne_of_subTruthy hst (hw.2 _ _ _ hroot hk)
  exact ⟨hroot, (configureOne_unset_yielding s k id pid o p hx hm ha hk ho hp hpo hne).2⟩

/-- the variant that re-points only the children that are *yielding* at the moment of the replacement breaks the
invariant for an overridden child; the defect shows when the parent is changed and the override dropped -/
theorem repointYieldingOnly_counterexample :
    ParentCurrent sOverridden ∧ ¬ ParentCurrent (replaceObjY kTop newParent oldParent 0 false sOverridden).2 ∧
    (getValueFor afterVariant kTop).toOption = some (.str "d".toList) ∧
    (getValueFor afterVariant kSub).toOption = some (.str "a".toList) ∧
    (getValueFor afterRepaired kSub).toOption = some (.str "d".toList) :=
  ⟨repointYieldingOnly_breaks_parentCurrent.1, repointYieldingOnly_breaks_parentCurrent.2,
   MesonModel.Options.repointYieldingOnly_counterexample.2.2.1, MesonModel.Options.repointYieldingOnly_counterexample.2.2.2,
   repaired_on_the_same_history.2.2⟩

/-! ## the directory invariant, at the level of `step` and of histories -/

/-- the well-formedness predicate on directory states is an invariant of `step` for EVERY command: setup,
reconfigure, configure, wipe, regeneration after a corrupt coredata.dat, option-file edits (also: last option removed,
file deleted / re-created / renamed), and all failing variants -/
theorem dirInv_step (d : Dir) (c : Cmd) (hd : DirInv d) : DirInv (step d c).1 :=
  step_inv d c hd

/-- `ParentCurrent`, lifted to histories: after any history from an unconfigured directory, distinct keys own
distinct objects and every parent pointer is the registered top-level object -/
theorem parentCurrent_of_history (h : List Cmd) (d : Dir) (hd : d.core = none)
    (c : Core) (hc : (runHist d h).core = some c) : Wf c.store ∧ ParentCurrent c.store :=
  runHist_inv h d (dirInv_empty d hd) c hc

/-- `yield_follows_current_parent` for ALL histories: an option that inherits reads the object registered under its
top-level key, i.e. the very object `-Dname=…` sets; when that object is itself plain (not inheriting, not
overridden) the two effective values are equal -/
theorem yield_follows_current_parent_hist (h : List Cmd) (d : Dir) (hd : d.core = none)
    (c : Core) (hc : (runHist d h).core = some c)
    (k : Key) (id pid : Nat) (o p : Obj) (hm : k.machine = .host)
    (hk : alookup k c.store.options = some id) (ho : c.store.heap[id]? = some o) (ha : alookup k c.store.augments = none)
    (hy : o.yielding = true) (hp : o.parent = some pid) (hpo : c.store.heap[pid]? = some p) :
    alookup k.asRoot c.store.options = some pid ∧ getValueFor c.store k = .ok p.value ∧
    (p.yielding = false → alookup k.asRoot c.store.augments = none → getValueFor c.store k.asRoot = getValueFor c.store k) := by
  obtain ⟨_, hpc⟩ := parentCurrent_of_history h d hd c hc
  have hroot := hpc k id o pid hk ho hp
  have he : ensureKey c.store k = k := ensureKey_of_host c.store k hm
  have hv : getValueFor c.store k = .ok p.value := by
    simp [getValueFor, getIdAndValue, resolveId, he, hk, ho, ha, hy, hp, hpo, Except.map]
  refine ⟨hroot, hv, ?_⟩
  intro hpy har
  have hmr : k.asRoot.machine = .host := by simpa [Key.asRoot] using hm
  have her : ensureKey c.store k.asRoot = k.asRoot := ensureKey_of_host c.store k.asRoot hmr
  rw [hv]
  simp [getValueFor, getIdAndValue, resolveId, her, hroot, hpo, har, hpy, Except.map]

/-- `drop_override_returns_inherited` for ALL histories: `-Usub:opt` on an option that has a parent returns it to the
value of the object registered under the top-level key -/
theorem drop_override_returns_inherited_hist (h : List Cmd) (d : Dir) (hd : d.core = none)
    (c : Core) (hc : (runHist d h).core = some c)
    (k : Key) (id pid : Nat) (o p : Obj) (hx : c.store.isCross = false) (hm : k.machine = .host) (hst : k.subTruthy = true)
    (ha : alookup k c.store.augments = none) (hk : alookup k c.store.options = some id) (ho : c.store.heap[id]? = some o)
    (hp : o.parent = some pid) (hpo : c.store.heap[pid]? = some p) :
    alookup k.asRoot c.store.options = some pid ∧ getValueFor (configureOne (k, none) c.store).2 k = .ok p.value := by
  obtain ⟨hw, hpc⟩ := parentCurrent_of_history h d hd c hc
  exact drop_override_returns_inherited_current c.store k id pid o p hx hm hw hpc hst ha hk ho hp hpo

/-- the command names option `n` (sets or drops it, edits it, or re-derives everything) -/
def Mentions (n : Str) : Cmd → Bool
  | .setup d => d.any (fun p => p.1.name == n)
  | .reconfigure d => d.any (fun p => p.1.name == n)
  | .configure a => a.any (fun p => p.1.name == n)
  | .wipe _ => true
  | .editSet _ m _ => m == n
  | .editRemove _ m => m == n
  | .corrupt => false
  | .fileSet _ _ => true
  | .extra _ (.set m _) => m == n
  | .extra _ (.remove m) => m == n
  | .extra _ (.file _) => true

/-- the full history-level clause, kept visible: a command that does not mention option `n` (and is not a `buildtype`
/ `prefix` assignment, which fan out), run on a well-formed directory whose option files hold no unread edit,
leaves the effective value of every option named `n` as it was.  Proved for `meson configure` / `setup` on a
configured directory / option-file edits (`value_persists_full_partial`, from the frame of
`set_from_configure_command`: `value_persists_set_from_configure`) and lifted to histories of configure commands
(`value_persists_configure_history`).  NOT proved for `setup --reconfigure` / `--wipe`: that needs the frame of
`initialize_*` for other names and "a re-read option file whose entry for `n` is unchanged leaves `n` alone" threaded
through `interpProg`. -/
def value_persists_full : Prop :=
  ∀ (d : Dir) (c : Cmd) (n : Str) (proj : Str), DirInv d → Mentions n c = false →
    Mentions sBuildtype c = false → Mentions sPrefix c = false →
    (∀ co, d.core = some co → NoUnread d co) →
    (step d c).2.isOk = true → (step d c).1.core.isSome = true → d.core.isSome = true →
    (step d c).1.eff proj n = d.eff proj n

/-! ## the test tree of harness/c08.py and the histories on which the pinned tree violates the property -/

def S (d : String) : ObjSpec := { kind := .string, default := .str d.toList }
def B (d : Bool) (y : Bool := false) : ObjSpec := { kind := .boolean, default := .bool d, yielding := y }
def C (c : List String) (d : String) (y : Bool := false) : ObjSpec :=
  { kind := .combo (c.map String.toList), default := .str d.toList, yielding := y }
def I (lo hi d : Int) : ObjSpec := { kind := .integer (some lo) (some hi), default := .int d }

def top0 : Defs := [("t_str".toList, S "ts0"), ("t_combo".toList, C ["a", "b", "c"] "a"), ("t_int".toList, I 0 10 3),
  ("shared".toList, C ["a", "b", "c"] "a"), ("flag".toList, B false), ("boom".toList, B false), ("boom_late".toList, B false)]
def sub0 : Defs := [("s_str".toList, S "ss0"), ("s_combo".toList, C ["x", "y", "z"] "x"),
  ("shared".toList, C ["a", "b", "c"] "b" true), ("flag".toList, B true true)]
def d0 : Dir := Dir.fresh top0 sub0

def gk (n : String) : Key := { name := n.toList, sub := none, machine := .host }
def sk (n : String) : Key := { name := n.toList, sub := some sSub, machine := .host }
def sv (v : String) : Val := .str v.toList
/-- every `setup` command of the harness passes `--backend=none` -/
def bn : Key × Val := (gk "backend", sv "none")

/-- effective value `get_option(name)` would return from the persisted store (`none`: absent or an exception) -/
def effOk (d : Dir) (proj : Str) (name : String) : Option Val := (d.eff proj name.toList).bind Except.toOption
def effErr (d : Dir) (proj : Str) (name : String) : Option Err :=
  match d.eff proj name.toList with
  | some (.error e) => some e
  | _ => none

/-- a `--wipe` that fails leaves the directory without configuration: here the recorded `t_combo=c` is no longer
among the choices (a reconfigure falls back to the new default, the wipe dies).  Still true of /repo (recorded
finding `failed-command-not-identity:wipe:core`). -/
def hWipe : List Cmd := [.setup [bn, (gk "t_combo", sv "c")], .editSet false "t_combo".toList (C ["a", "b"] "a"), .reconfigure [bn]]

theorem wipe_counterexample :
    effOk (runHist d0 hWipe) [] "t_combo" = some (sv "a") ∧
    (step (runHist d0 hWipe) (.wipe [bn])).2.isOk = false ∧
    (step (runHist d0 hWipe) (.wipe [bn])).1.core = none := by
  decide +kernel

theorem failed_command_is_identity_counterexample : ¬ failed_command_is_identity := by
  intro h
  have h1 := h (runHist d0 hWipe) (.wipe [bn]) (by decide +kernel)
  have h2 := congrArg (fun d => d.core.isSome) h1
  revert h2
  decide +kernel

/-- a removed option that was ever set with `-D` stays in cmd_line.txt, `check_unused_options` rejects it after the
interpretation, the rollback restores the old coredata — the option never vanishes and every reconfigure fails.
Still true of /repo (recorded finding `removed-option-still-recorded`). -/
def hRemoved : List Cmd := [.setup [bn, (gk "t_str", sv "u1")], .editRemove false "t_str".toList]

theorem removed_option_vanishes_counterexample :
    (step (runHist d0 hRemoved) (.reconfigure [bn])).2 = .failed .meson false ∧
    effOk (step (runHist d0 hRemoved) (.reconfigure [bn])).1 [] "t_str" = some (sv "u1") ∧
    (step (runHist d0 hRemoved) (.wipe [bn])).1.core = none := by
  decide +kernel

/-- full clause (not proved as a statement about all histories; tied by the correspondence run): an inheriting
subproject option follows the current value of the top-level option -/
def yield_follows_current_parent : Prop :=
  ∀ (h : List Cmd), (runHist d0 h).core.isSome = true → effErr (runHist d0 h) sSub "shared" = none →
    (sk "shared") ∉ ((runHist d0 h).core.map (fun c => c.store.augments.map (·.1))).getD [] →
    ((runHist d0 h).core.map (fun c => (c.projectKeys.filter (fun k => k == projKey sSub "shared".toList)).all
        (fun k => (alookup k c.store.options).any (fun id => (c.store.heap[id]?).any (·.yielding))))).getD true = true →
    effOk (runHist d0 h) sSub "shared" = effOk (runHist d0 h) [] "shared"

/-! ## the histories on which the tree violated the property before the repairs (regressions, now the good way) -/

/-- a failing postconf script (`boom_late`): everything is rolled back, also cmd_line.txt and the introspection file -/
def hLate : List Cmd := [.setup [bn], .reconfigure [bn, (gk "t_str", sv "late"), (gk "boom_late", sv "true")]]

theorem late_failure_is_identity :
    (step (runHist d0 [.setup [bn]]) (.reconfigure [bn, (gk "t_str", sv "late"), (gk "boom_late", sv "true")])).2
      = .failed .meson true ∧
    runHist d0 hLate = runHist d0 [.setup [bn]] ∧
    (step d0 (.setup [bn, (gk "t_str", sv "u1"), (gk "boom_late", sv "true")])).1 = d0 := by
  decide +kernel

/-- after the parent's choices changed in the top-level option file the child follows the new parent object -/
def hStale : List Cmd := [.setup [bn], .editSet false "shared".toList (C ["a", "b", "d"] "a"), .reconfigure [bn],
  .configure [(gk "shared", some (sv "d"))]]

theorem child_follows_replaced_parent :
    effOk (runHist d0 hStale) [] "shared" = some (sv "d") ∧ effOk (runHist d0 hStale) sSub "shared" = some (sv "d") := by
  decide +kernel

/-- the child is overridden while the parent object is replaced, then the parent changes and the override is dropped -/
def hOverriddenStale : List Cmd := [.setup [bn], .configure [(sk "shared", some (sv "c"))],
  .editSet false "shared".toList (C ["a", "b", "c", "n"] "a"), .reconfigure [bn], .configure [(gk "shared", some (sv "n"))],
  .configure [(sk "shared", none)]]

theorem overridden_child_follows_replaced_parent :
    effOk (runHist d0 (hOverriddenStale.take 5)) sSub "shared" = some (sv "c") ∧
    effOk (runHist d0 hOverriddenStale) [] "shared" = some (sv "n") ∧
    effOk (runHist d0 hOverriddenStale) sSub "shared" = some (sv "n") ∧
    ((runHist d0 hOverriddenStale).core.map (fun c => staleKeys c.store)) = some [] := by
  decide +kernel

/-- changed choices of a `yield: true` subproject option: the replacement is linked to the parent again -/
def hOrphan : List Cmd := [.setup [bn], .editSet true "shared".toList (C ["a", "b", "d"] "b" true), .configure [(gk "t_int", some (sv "5"))]]

theorem inheriting_option_survives_changed_choices :
    effOk (runHist d0 hOrphan) sSub "shared" = some (sv "a") ∧
    (step (runHist d0 hOrphan) (.reconfigure [bn])).2.isOk = true ∧
    effOk (step (runHist d0 hOrphan) (.configure [(gk "shared", some (sv "c"))])).1 sSub "shared" = some (sv "c") := by
  decide +kernel

/-- `-Usub:flag` on a yielding boolean option whose parent is `false` returns to the parent -/
def hUnset : List Cmd := [.setup [bn], .configure [(sk "flag", some (sv "false"))], .configure [(sk "flag", some (sv "true"))],
  .configure [(sk "flag", none)]]

theorem unset_boolean_override_returns_to_false_parent :
    effOk (runHist d0 (hUnset.take 3)) sSub "flag" = some (.bool true) ∧
    effOk (runHist d0 hUnset) [] "flag" = some (.bool false) ∧ effOk (runHist d0 hUnset) sSub "flag" = some (.bool false) := by
  decide +kernel

/-- `meson configure -Dsub:flag=true` where `true` is the hidden own value of the inheriting option is saved -/
def hLost : List Cmd := [.setup [bn], .configure [(sk "flag", some (sv "true"))]]

theorem override_equal_to_own_value_is_saved :
    effOk (runHist d0 [.setup [bn]]) sSub "flag" = some (.bool false) ∧
    effOk (runHist d0 hLost) sSub "flag" = some (.bool true) ∧
    (runHist d0 hLost).cmdline = some [bn, (sk "flag", sv "true")] := by
  decide +kernel

/-- the last option of the subproject removed (file present, no declarations) / the file deleted: after the next
reconfigure none of its options is registered, setting one is refused, and a child whose parent option was removed
from the top-level file reads its own value again -/
def hEmptySub : List Cmd := [.setup [bn], .editRemove true "s_str".toList, .editRemove true "s_combo".toList,
  .editRemove true "shared".toList, .editRemove true "flag".toList, .reconfigure [bn]]
def hDeletedSub : List Cmd := [.setup [bn], .fileSet true none, .reconfigure [bn]]
def hParentRemoved : List Cmd := [.setup [bn], .editRemove false "flag".toList, .reconfigure [bn]]

theorem emptied_option_file_removes_everything :
    ((runHist d0 hEmptySub).core.map (fun c => c.projectKeys.filter (fun k => k.sub == some sSub))) = some [] ∧
    (step (runHist d0 hEmptySub) (.configure [(sk "s_str", some (sv "x"))])).2.isOk = false ∧
    ((runHist d0 hDeletedSub).core.map (fun c => c.projectKeys.filter (fun k => k.sub == some sSub))) = some [] ∧
    effOk (runHist d0 [.setup [bn]]) sSub "flag" = some (.bool false) ∧
    effOk (runHist d0 hParentRemoved) sSub "flag" = some (.bool true) ∧
    ((runHist d0 hParentRemoved).core.map (fun c => staleKeys c.store)) = some [] := by
  decide +kernel

/-- a changed type: the option is replaced and starts from its new default -/
def hRetype : List Cmd := [.setup [bn, (gk "t_int", sv "7")], .editSet false "t_int".toList (S "seven"), .reconfigure [bn]]

theorem retyped_option_starts_from_new_default :
    (step (runHist d0 (hRetype.take 2)) (.reconfigure [bn])).2.isOk = true ∧
    effOk (runHist d0 hRetype) [] "t_int" = some (sv "seven") := by
  decide +kernel

/-! ## non-vacuity: the good paths on the same tree -/

/-- values survive configure / reconfigure / wipe; a new option gets its default; a dropped choice resets -/
example :
    let h : List Cmd := [.setup [bn, (gk "t_str", sv "u1"), (gk "t_combo", sv "c")], .configure [(gk "t_int", some (sv "7"))],
      .editSet false "extra".toList (S "e0"), .editSet false "t_combo".toList (C ["a", "b"] "b"), .reconfigure [bn]]
    effOk (runHist d0 h) [] "t_str" = some (sv "u1") ∧ effOk (runHist d0 h) [] "t_int" = some (.int 7) ∧
    effOk (runHist d0 h) [] "extra" = some (sv "e0") ∧ effOk (runHist d0 h) [] "t_combo" = some (sv "b") := by
  decide +kernel

/-- a failure (`boom`) after the store was mutated in memory is the identity (hypotheses of
`failed_command_is_identity_partial` are satisfiable) -/
example :
    let d := runHist d0 [.setup [bn]]
    (step d (.reconfigure [bn, (gk "t_str", sv "u2"), (gk "boom", sv "true")])).2 = .failed .meson false ∧
    (step d (.reconfigure [bn, (gk "t_str", sv "u2"), (gk "boom", sv "true")])).1 = d := by
  decide +kernel

/-- `AllFail` is satisfiable by a non-empty history -/
example : AllFail d0 [.configure [(gk "t_int", some (sv "4"))], .setup [bn, (gk "boom", sv "true")]] := by
  refine ⟨(by intro nd h; cases h), ⟨.meson, false, (by decide +kernel)⟩, ?_⟩
  have h1 : (step d0 (.configure [(gk "t_int", some (sv "4"))])).1 = d0 := by decide +kernel
  rw [h1]
  exact ⟨(by intro nd h; cases h), ⟨.meson, false, (by decide +kernel)⟩, trivial⟩

/-- `AllFailOrEdit` is satisfiable with a late failure and an edit after a real setup -/
example : AllFailOrEdit (runHist d0 [.setup [bn]])
    [.reconfigure [bn, (gk "t_str", sv "late"), (gk "boom_late", sv "true")], .editRemove true "s_str".toList] := by
  refine ⟨(by intro nd h; cases h), Or.inl ⟨.meson, true, (by decide +kernel)⟩, ?_⟩
  exact ⟨(by intro nd h; cases h), Or.inr (Or.inr (Or.inl ⟨true, _, rfl⟩)), trivial⟩

/-- the hypotheses of `yield_follows_current_parent_hist` are met by a non-trivial reachable state: after the parent
object was replaced while the child was overridden and the override was dropped, the child is a registered,
inheriting option whose parent pointer is the registered top-level object -/
example : d0.core = none ∧
    ((runHist d0 hOverriddenStale).core.map (fun c =>
      (alookup (sk "shared") c.store.options).any (fun id => (c.store.heap[id]?).any (fun o =>
        o.yielding && o.parent.isSome && (alookup (sk "shared") c.store.augments).isNone)))) = some true :=
  ⟨rfl, by decide +kernel⟩

/-- the recorded command line of a real history has distinct keys (hypothesis of `wipe_eq_replay`) -/
example : ((runHist d0 hWipe).cmdline.map (fun f => decide ((f.map Prod.fst).Nodup))) = some true := by
  decide +kernel

/-! ## identity, not equality, of option objects: the frame of `update_project_options` over object ids -/

/-- **for all stores, projects and declaration lists**: re-reading the option file of project `P` leaves every object
of the heap exactly as it was (value, yielding flag, parent link) unless its parent POINTER is an object registered
under a key of `P` (at entry, or allocated during the call) — i.e. parent links change only for the children of the
very objects that are replaced or removed; an object of another project with an equal definition is not one of them -/
theorem update_project_options_changes_only_children_of_own_objects (P : Str) (objs : List (Key × Obj)) (s : Store) :
    ∀ (i : Nat) (c : Obj), s.heap[i]? = some c →
      (updateProjectOptions P objs s).2.heap[i]? = some c ∨
      ∃ pid, c.parent = some pid ∧ ((∃ k, k.sub = some P ∧ (k, pid) ∈ s.options) ∨ s.heap.length ≤ pid) :=
  update_project_options_frame P objs s

/-- the children of an object held only by keys of OTHER projects are untouched -/
theorem update_project_options_keeps_children_of_other_projects (P : Str) (objs : List (Key × Obj)) (s : Store)
    (i pid : Nat) (c : Obj) (hc : s.heap[i]? = some c) (hp : c.parent = some pid) (hlt : pid < s.heap.length)
    (hother : ∀ k, (k, pid) ∈ s.options → k.sub ≠ some P) :
    (updateProjectOptions P objs s).2.heap[i]? = some c :=
  update_project_options_frame_other_project P objs s i pid c hc hp hlt hother

/-- on a well-formed store an update of a SUBPROJECT's options never touches an option that inherits from a
top-level option (of whatever subproject) -/
theorem subproject_update_keeps_children_of_top_level (P : Str) (objs : List (Key × Obj)) (s : Store)
    (hw : Wf s) (hpc : ParentCurrent s) (hnd : (s.options.map (·.1)).Nodup) (hP : P ≠ [])
    (ck : Key) (cid pid : Nat) (c : Obj) (hk : alookup ck s.options = some cid) (hc : s.heap[cid]? = some c)
    (hp : c.parent = some pid) :
    (updateProjectOptions P objs s).2.heap[cid]? = some c ∧
    (c.yielding = true → alookup ck s.augments = none → ck.machine = .host →
      alookup ck (updateProjectOptions P objs s).2.options = some cid →
      alookup ck (updateProjectOptions P objs s).2.augments = none →
      (updateProjectOptions P objs s).2.heap[pid]? = s.heap[pid]? →
      getValueFor (updateProjectOptions P objs s).2 ck = getValueFor s ck) := by
  have h1 := update_project_options_frame_child_of_top_level P objs s hw hpc hnd hP ck cid pid c hk hc hp
  refine ⟨h1, ?_⟩
  intro hy ha hm hk' ha' hpar
  have e1 := ensureKey_of_host s ck hm
  have e2 := ensureKey_of_host (updateProjectOptions P objs s).2 ck hm
  simp [getValueFor, getIdAndValue, resolveId, e1, e2, hk, hk', hc, h1, ha, ha', hy, hp, hpar]

/-- the variant that looks for the children by `==` on the definition, refuted on a three-project store -/
theorem equal_definitions_variant_counterexample :
    (getValueFor sTwins kSub).toOption = some (.str "b".toList) ∧
    (getValueFor (updateProjectOptions "alt".toList [] sTwins).2 kSub).toOption = some (.str "b".toList) ∧
    (getValueFor (updateProjectOptionsEq "alt".toList [] sTwins).2 kSub).toOption = some (.str "c".toList) ∧
    (getValueFor (updateProjectOptions "alt".toList altGrown sTwins).2 kSub).toOption = some (.str "b".toList) ∧
    (getValueFor (updateProjectOptionsEq "alt".toList altGrown sTwins).2 kSub).toOption = some (.str "c".toList) ∧
    (updateProjectOptions "alt".toList [] sTwins).2.heap[2]? = sTwins.heap[2]? ∧
    (updateProjectOptionsEq "alt".toList [] sTwins).2.heap[2]? ≠ sTwins.heap[2]? :=
  ⟨childrenOfEq_counterexample.1, childrenOfEq_counterexample.2.1, childrenOfEq_counterexample.2.2.2.1,
   childrenOfEq_counterexample.2.2.2.2.2.1, childrenOfEq_counterexample.2.2.2.2.2.2.2.1,
   childrenOfEq_breaks_frame.2.2.2.2.1, childrenOfEq_breaks_frame.2.2.2.2.2⟩

/-- the test tree with a second subproject `alt` whose `shared` / `flag` have the definition of the top-level ones -/
def alt0 : Extra := { name := "alt".toList, defs := [("a_str".toList, S "as0"), ("shared".toList, C ["a", "b", "c"] "c"),
  ("flag".toList, B true)] }
def d3 : Dir := { top := top0, sub := sub0, more := [alt0] }
def ak (n : String) : Key := { name := n.toList, sub := some "alt".toList, machine := .host }

/-- histories on the three-project tree: `alt` removes its twin of `shared` / gives it another choice list / deletes
its option file; the child in `sub` keeps following the top-level option, `alt`'s own value survives a re-declaration -/
def hTwinRemoved : List Cmd := [.setup [bn, (gk "shared", sv "c")], .extra "alt".toList (.remove "shared".toList), .reconfigure [bn],
  .configure [(gk "shared", some (sv "a"))]]
def hTwinReplaced : List Cmd := [.setup [bn, (gk "shared", sv "c"), (ak "shared", sv "b")],
  .extra "alt".toList (.set "shared".toList (C ["a", "b", "c", "d"] "c")), .reconfigure [bn], .configure [(gk "shared", some (sv "a"))]]
def hTwinFileDeleted : List Cmd := [.setup [bn, (gk "flag", sv "true")], .extra "alt".toList (.file none), .reconfigure [bn]]

theorem edit_of_one_subproject_keeps_the_children_of_another :
    effOk (runHist d3 (hTwinRemoved.take 3)) sSub "shared" = some (sv "c") ∧
    effOk (runHist d3 hTwinRemoved) sSub "shared" = some (sv "a") ∧
    effOk (runHist d3 hTwinRemoved) "alt".toList "shared" = none ∧
    effOk (runHist d3 (hTwinReplaced.take 3)) sSub "shared" = some (sv "c") ∧
    effOk (runHist d3 hTwinReplaced) sSub "shared" = some (sv "a") ∧
    effOk (runHist d3 hTwinReplaced) "alt".toList "shared" = some (sv "b") ∧
    effOk (runHist d3 hTwinFileDeleted) sSub "flag" = some (.bool true) ∧
    ((runHist d3 hTwinFileDeleted).core.map (fun c => c.projectKeys.filter (fun k => k.sub == some "alt".toList))) = some [] ∧
    ((runHist d3 hTwinReplaced).core.map (fun c => staleKeys c.store)) = some [] := by
  decide +kernel

/-! ## `value_persists` for successful `meson configure` commands -/

/-- **frame of `set_from_configure_command`, for every store and argument list**: an option whose NAME is not
addressed — directly (`-Dn`, `-Dsub:n`, `-Usub:n`), as a dependent of `buildtype`, or (directory options) through
`prefix` — keeps its effective value in the top-level project and in every subproject, whether it has its own value,
is overridden for a subproject, or inherits from a yielding parent -/
theorem value_persists_set_from_configure (s : Store) (hw : Wf s) (hpc : ParentCurrent s) (n : Str)
    (args : List (Key × Option Val)) (dirty : Bool) (hna : NotAddressed n args)
    (hnp : (Tables.nopfxTable.map (·.1)).contains n = false) :
    ∀ k : Key, k.name = n → getValueFor (setFromConfigure args dirty s).2 k = getValueFor s k :=
  (setFromConfigure_value_persists s hw hpc n args dirty hna hnp).2

/-- … and for `set_from_configure_command` itself, which applies every `buildtype` entry first -/
theorem value_persists_set_from_configure_command (s : Store) (hw : Wf s) (hpc : ParentCurrent s) (n : Str)
    (args : List (Key × Option Val)) (hna : NotAddressed n args)
    (hnp : (Tables.nopfxTable.map (·.1)).contains n = false) :
    ∀ k : Key, k.name = n → getValueFor (setFromConfigureCommand args s).2 k = getValueFor s k :=
  (setFromConfigure_value_persists s hw hpc n (buildtypeFirst args) false hna.buildtypeFirst hnp).2

/-- the command `meson configure -D… -U…` (failing, changing nothing, or saving) on a well-formed directory without
unread option-file edits -/
theorem value_persists_configure (d : Dir) (co : Core) (args : List (Key × Option Val)) (n : Str)
    (hd : DirInv d) (hc : d.core = some co) (hu : NoUnread d co) (hna : NotAddressed n args)
    (hnp : (Tables.nopfxTable.map (·.1)).contains n = false) (proj : Str) :
    ((step d (.configure args)).1.eff proj n).isSome = true ∧ (step d (.configure args)).1.eff proj n = d.eff proj n := by
  obtain ⟨co', hc', _, hv⟩ := configure_value_persists d co args n hd hc hu hna hnp
  simp only [step, Dir.eff, hc', hc, Option.map_some, Option.isSome_some, true_and]
  rw [hv (projKey proj n) rfl]

/-- lifted to histories, by induction: after any sequence of `meson configure` commands — successful or failing — none
of which addresses `n`, every option named `n` reads what it read before -/
theorem value_persists_configure_history (n : Str) (hnp : (Tables.nopfxTable.map (·.1)).contains n = false)
    (h : List Cmd) (d : Dir) (co : Core) (hd : DirInv d) (hc : d.core = some co) (hu : NoUnread d co)
    (hh : ConfigureHist n h) (proj : Str) : (runHist d h).eff proj n = d.eff proj n := by
  obtain ⟨co', hc', _, hv⟩ := value_persists_configure_hist n hnp h d co hd hc hu hh
  simp only [Dir.eff, hc', hc, Option.map_some]
  rw [hv (projKey proj n) rfl]

theorem notAddressed_of_mentions (n : Str) (args : List (Key × Option Val))
    (h1 : args.any (fun p => p.1.name == n) = false) (h2 : args.any (fun p => p.1.name == sBuildtype) = false) :
    NotAddressed n args := by
  intro a ha
  simp only [List.any_eq_false, beq_iff_eq] at h1 h2
  exact ⟨h1 a ha, fun e => absurd e (h2 a ha)⟩

/-- `value_persists_full`, the part that is proved: for `meson configure`, `meson setup` on a configured directory
(= configure) and every option-file edit, on a well-formed configured directory without unread option-file edits, a
command that does not mention `n` (nor `buildtype`) leaves the effective value of `n` in every project as it was.
(`n` is not one of the builtin directory options that follow `prefix`.)  What remains `_partial`: `setup
--reconfigure` and `--wipe`, which re-run the interpretation (`initialize_*`, and `update_project_options` for the
option files — whose frame over object ids is `update_project_options_changes_only_children_of_own_objects`; its
frame over NAMES, "an unchanged entry leaves its option alone", is `changed_default_keeps_value` per entry and is not
threaded through `interpProg`), and `meson configure` after an unread edit. -/
theorem value_persists_full_partial (d : Dir) (c : Cmd) (n proj : Str) (hd : DirInv d) (hm : Mentions n c = false)
    (hb : Mentions sBuildtype c = false) (hnp : (Tables.nopfxTable.map (·.1)).contains n = false)
    (hu : ∀ co, d.core = some co → NoUnread d co) (hcfg : d.core.isSome = true)
    (hk : (∃ a, c = .configure a) ∨ (∃ a, c = .setup a) ∨ (∃ b m sp, c = .editSet b m sp) ∨ (∃ b m, c = .editRemove b m) ∨
      (∃ p e, c = .extra p e)) :
    (step d c).1.eff proj n = d.eff proj n := by
  obtain ⟨co, hc⟩ := Option.isSome_iff_exists.mp hcfg
  rcases hk with ⟨a, rfl⟩ | ⟨a, rfl⟩ | ⟨b, m, sp, rfl⟩ | ⟨b, m, rfl⟩ | ⟨p, e, rfl⟩
  · exact (value_persists_configure d co a n hd hc (hu co hc) (notAddressed_of_mentions n a hm hb) hnp proj).2
  · have e : step d (.setup a) = step d (.configure (dArgs a)) := by simp [step, hc]
    rw [e]
    refine (value_persists_configure d co (dArgs a) n hd hc (hu co hc) (notAddressed_of_mentions n _ ?_ ?_) hnp proj).2
    · simpa [Mentions, dArgs, List.any_map] using hm
    · simpa [Mentions, dArgs, List.any_map] using hb
  · cases b <;> rfl
  · cases b <;> rfl
  · rfl

/-- the hypotheses are satisfiable on the test tree: a real setup leaves no unread edit, and a configure command
that sets other options is a `ConfigureHist` for `t_str` -/
example :
    ((runHist d3 [.setup [bn, (gk "t_str", sv "u1")]]).core.map (fun co =>
      decide (NoUnread (runHist d3 [.setup [bn, (gk "t_str", sv "u1")]]) co))) = some true ∧
    effOk (runHist d3 [.setup [bn, (gk "t_str", sv "u1")], .configure [(gk "t_int", some (sv "7")), (sk "shared", some (sv "c")), (sk "shared", none)]])
      [] "t_str" = some (sv "u1") := by
  decide +kernel

end MesonModel.Props.C08
