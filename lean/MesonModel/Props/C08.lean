import MesonModel.Life.UpdateLemmas
/-
C08 — option state persists faithfully across the build-directory lifecycle.

Model: `MesonModel.Life` (`step : Dir → Cmd → Dir × Out` over coredata.dat / cmd_line.txt / the introspection file /
the two option files) on top of the C07 `OptionStore` model.  The statements below are about *every* directory
`d : Dir` (any store, any cmd_line.txt, any option files) and every command unless concrete data is named.

The pinned tree violates the full property in several ways; for each clause the file keeps the full statement as a
`def … : Prop`, proves its negation on a concrete history of the harness's test tree (`decide +kernel` evaluates the
model), and proves the part that does hold as `…_partial` / under the excluding hypothesis.
-/
namespace MesonModel.Props.C08
open MesonModel.Options MesonModel.Life

/-! ## failed commands -/

/-- the full clause: a command that fails leaves the persisted state exactly as it was -/
def failed_command_is_identity : Prop := ∀ (d : Dir) (c : Cmd), (step d c).2.isOk = false → (step d c).1 = d

/-- Every command except `--wipe` that fails *before* the end of the interpretation (unknown option, invalid value,
error() in a build file, exception while reading an option, unused-option check) leaves coredata.dat, cmd_line.txt,
the introspection file and the option files exactly as they were. -/
theorem failed_command_is_identity_partial (d : Dir) (c : Cmd) (e : Err) (hw : ∀ nd, c ≠ .wipe nd)
    (h : (step d c).2 = .failed e false) : (step d c).1 = d := by
  cases c with
  | setup nd =>
    simp only [step] at *
    cases hc : d.core with
    | none => simp only [hc] at h ⊢; exact firstInvocation_early _ _ _ h
    | some c => simp only [hc] at h ⊢; exact configure_failed _ _ _ _ h
  | configure args => exact configure_failed _ _ _ _ h
  | reconfigure nd =>
    simp only [step] at *
    cases hc : d.core with
    | none => simp only [hc] at h ⊢; exact firstInvocation_early _ _ _ h
    | some c => simp only [hc] at h ⊢; exact reconfigure_early _ _ _ _ h
  | wipe nd => exact absurd rfl (hw nd)
  | editSet b n sp => simp [step] at h
  | editRemove b n => simp [step] at h

/-- `meson configure` that fails in any way is the identity (nothing is written before `set_from_configure_command`
has returned). -/
theorem failed_configure_is_identity (d : Dir) (args : List (Key × Option Val)) (e : Err) (l : Bool)
    (h : (step d (.configure args)).2 = .failed e l) : (step d (.configure args)).1 = d :=
  configure_failed _ _ _ _ h

/-- The rollback of msetup.py:340-348 does its job for coredata.dat: whatever way a `setup` / `setup --reconfigure`
fails — also *after* coredata.dat was rewritten — the persisted coredata and the option files are the old ones. -/
theorem failure_restores_coredata (d : Dir) (c : Cmd) (e : Err) (l : Bool) (hw : ∀ nd, c ≠ .wipe nd)
    (h : (step d c).2 = .failed e l) : (step d c).1.core = d.core := by
  cases c with
  | setup nd =>
    simp only [step] at *
    cases hc : d.core with
    | none => simp only [hc] at h ⊢; rw [firstInvocation_core_of_failed _ _ _ _ h, hc]
    | some c => simp only [hc] at h ⊢; rw [configure_failed _ _ _ _ h, hc]
  | configure args =>
    simp only [step] at *
    rw [configure_failed _ _ _ _ h]
  | reconfigure nd =>
    simp only [step] at *
    cases hc : d.core with
    | none => simp only [hc] at h ⊢; rw [firstInvocation_core_of_failed _ _ _ _ h, hc]
    | some c => simp only [hc] at h ⊢; rw [reconfigure_core_of_failed _ _ _ _ _ h, hc]
  | wipe nd => exact absurd rfl (hw nd)
  | editSet b n sp => simp [step] at h
  | editRemove b n => simp [step] at h

/-- every command of the history fails early and none is a wipe -/
def AllFailEarly : Dir → List Cmd → Prop
  | _, [] => True
  | d, c :: r => (∀ nd, c ≠ .wipe nd) ∧ (∃ e, (step d c).2 = .failed e false) ∧ AllFailEarly (step d c).1 r

/-- fault sequences, by induction over the history: any number of failing commands in a row is the identity -/
theorem failed_history_is_identity : ∀ (h : List Cmd) (d : Dir), AllFailEarly d h → runHist d h = d
  | [], _, _ => rfl
  | c :: r, d, ⟨hw, ⟨e, he⟩, hr⟩ => by
    have h1 := failed_command_is_identity_partial d c e hw he
    simp only [runHist]
    rw [h1] at hr ⊢
    exact failed_history_is_identity r d hr

/-- every command of the history is an option-file edit or fails (early or late), none is a wipe -/
def AllFailOrEdit : Dir → List Cmd → Prop
  | _, [] => True
  | d, c :: r => (∀ nd, c ≠ .wipe nd) ∧
      ((∃ e l, (step d c).2 = .failed e l) ∨ (∃ b n sp, c = .editSet b n sp) ∨ (∃ b n, c = .editRemove b n)) ∧
      AllFailOrEdit (step d c).1 r

/-- `value_persists`, the part that holds for every directory: through any sequence of option-file edits and
failing commands — including commands that fail *after* coredata.dat was rewritten — coredata.dat, hence every
effective option value, is exactly what it was (induction over the history) -/
theorem value_persists_partial : ∀ (h : List Cmd) (d : Dir), AllFailOrEdit d h →
    (runHist d h).core = d.core ∧ ∀ proj name, (runHist d h).eff proj name = d.eff proj name
  | [], _, _ => ⟨rfl, fun _ _ => rfl⟩
  | c :: r, d, ⟨hw, hc, hr⟩ => by
    have h1 : (step d c).1.core = d.core := by
      rcases hc with ⟨e, l, he⟩ | ⟨b, n, sp, rfl⟩ | ⟨b, n, rfl⟩
      · exact failure_restores_coredata d c e l hw he
      · cases b <;> rfl
      · cases b <;> rfl
    have ih := value_persists_partial r (step d c).1 hr
    simp only [runHist]
    refine ⟨ih.1.trans h1, fun proj name => ?_⟩
    rw [ih.2 proj name]
    simp only [Dir.eff, h1]

/-- editing an option file touches nothing in the build directory -/
theorem edit_keeps_build_directory (d : Dir) (b : Bool) (n : Str) (sp : Option ObjSpec) :
    let d' := (step d (match sp with | some s => .editSet b n s | none => .editRemove b n)).1
    d'.core = d.core ∧ d'.cmdline = d.cmdline ∧ d'.intro = d.intro := by
  cases sp <;> cases b <;> simp [step]

/-! ## `--wipe` -/

/-- `--wipe` reads nothing but cmd_line.txt and the current option files -/
theorem wipe_ignores_coredata (d : Dir) (nd : Dict) :
    step d (.wipe nd) = step { d with core := none, intro := none } (.wipe nd) := rfl

/-- `--wipe` = a fresh `meson setup` in an empty directory that is given the recorded command line: same outcome,
same coredata, same introspection data, and on success the same cmd_line.txt. -/
theorem wipe_eq_replay (d : Dir) (f : Dict) (hf : d.cmdline = some f) (hn : (f.map Prod.fst).Nodup) :
    let w := step d (.wipe [])
    let r := step (Dir.fresh d.top d.sub) (.setup f)
    w.2 = r.2 ∧ w.1.core = r.1.core ∧ w.1.intro = r.1.intro ∧ (w.2.isOk = true → w.1.cmdline = r.1.cmdline) := by
  have hm : mergeCmd f [] = f := rfl
  simp only [step, Dir.fresh, hf, firstInvocation, userOpts, hm, mergeCmd_self f hn]
  cases interpret true newCore d.top d.sub f with
  | error e => simp [commitFirst, Out.isOk]
  | ok r =>
    simp only [commitFirst]
    split
    · simp [Out.isOk]
    · split <;> simp [Out.isOk]

/-! ## re-reading an option file (one entry of `update_project_options`, arbitrary store) -/

/-- a new option gets its default -/
theorem new_option_gets_default (sub : Str) (key : Key) (nobj : Obj) (s : Store)
    (hx : s.isCross = false) (hm : key.machine = .host) (hs : key.sub = some sub)
    (hk : alookup key s.options = none) (hp : alookup key s.pending = none) (ha : alookup key s.augments = none)
    (hy : nobj.yielding = false) (hpar : nobj.parent = none) :
    (updateOne sub (key, nobj) s).1 = .ok () ∧ getValueFor (updateOne sub (key, nobj) s).2 key = .ok nobj.value := by
  rw [updateOne_new sub key nobj s hx hm hs hk hp hy hpar]
  exact ⟨rfl, getValueFor_fresh s key nobj _ hx hm ha hy⟩

/-- a changed choice list (or integer range) keeps the old value when it is still valid and otherwise falls back
to the new default — for an option that does not inherit -/
theorem changed_choices_keep_or_reset_partial (sub : Str) (key : Key) (nobj old : Obj) (s : Store) (oid : Nat)
    (hx : s.isCross = false) (hm : key.machine = .host) (hs : key.sub = some sub)
    (hk : alookup key s.options = some oid) (ho : s.heap[oid]? = some old) (ha : alookup key s.augments = none)
    (hc : old.kind.sameClass nobj.kind = true) (hd : old.kind.choicesDiffer nobj.kind = true)
    (hy : nobj.yielding = false) :
    (∀ v, validate nobj.kind old.value = .ok v →
      getValueFor (updateOne sub (key, nobj) s).2 key = .ok v) ∧
    (validate nobj.kind old.value = .error .meson →
      getValueFor (updateOne sub (key, nobj) s).2 key = .ok nobj.value) := by
  constructor
  · intro v hv
    rw [updateOne_choices_keep sub key nobj old s oid v hx hm hs hk ho hc hd hv]
    exact getValueFor_fresh s key { nobj with value := v } _ hx hm ha hy
  · intro hv
    rw [updateOne_choices_reset sub key nobj old s oid hx hm hs hk ho hc hd hv]
    exact getValueFor_fresh s key nobj _ hx hm ha hy

/-- a changed default alone (same type, same choices / range) changes nothing at all: the option keeps the value it
has, i.e. the last one the user gave it, else the default it was *created* with -/
theorem changed_default_keeps_value (sub : Str) (key : Key) (nobj old : Obj) (s : Store) (oid : Nat)
    (hx : s.isCross = false) (hm : key.machine = .host) (hs : key.sub = some sub)
    (hk : alookup key s.options = some oid) (ho : s.heap[oid]? = some old)
    (hc : old.kind.sameClass nobj.kind = true) (hd : old.kind.choicesDiffer nobj.kind = false) :
    updateOne sub (key, nobj) s = (.ok (), s) :=
  updateOne_same sub key nobj old s oid hx hm hs hk ho hc hd

/-- a changed *type* does not create a new option: the new default is assigned to the old object (and must pass the
old type's validation) -/
theorem changed_type_assigns_new_default_to_old_object (sub : Str) (key : Key) (nobj old : Obj) (s : Store) (oid : Nat)
    (hx : s.isCross = false) (hm : key.machine = .host) (hs : key.sub = some sub)
    (hk : alookup key s.options = some oid) (ho : s.heap[oid]? = some old)
    (hc : old.kind.sameClass nobj.kind = false) :
    updateOne sub (key, nobj) s =
      ((setOption key nobj.value false s).1.map (fun _ => ()), (setOption key nobj.value false s).2) :=
  updateOne_type_change sub key nobj old s oid hx hm hs hk ho hc

/-- a removed option vanishes from the store when the option file is re-read … -/
theorem removed_option_vanishes_partial (sub : Str) (objs : List (Key × Obj)) (s s' : Store)
    (h : updateProjectOptions sub objs s = (.ok (), s')) (k : Key) (hs : k.sub = some sub)
    (hn : objs.any (fun p => p.1 == k) = false) : s'.isProjectOption k = false :=
  update_removes sub objs s s' h k hs hn

/-! ## inheriting options and overrides -/

/-- an inheriting option reads the object its `parent` field points to; this is the *current* top-level option as
long as that object is the one registered under the top-level key -/
theorem yield_follows_current_parent_partial (s : Store) (k : Key) (id pid : Nat) (o p : Obj)
    (hx : s.isCross = false) (hm : k.machine = .host)
    (hk : alookup k s.options = some id) (ho : s.heap[id]? = some o) (ha : alookup k s.augments = none)
    (hy : o.yielding = true) (hp : o.parent = some pid)
    (hcur : alookup k.asRoot s.options = some pid) (hpo : s.heap[pid]? = some p) :
    getValueFor s k = .ok p.value ∧ (s.heap[pid]?.map (·.value)) = some p.value := by
  have he : ensureKey s k = k := ensureKey_host s k hx hm
  simp [getValueFor, getIdAndValue, resolveId, he, hk, ho, ha, hy, hp, hpo, Except.map]

/-- dropping a per-subproject override of a builtin option (`-Usub:opt`) removes the augment: the subproject reads
the global value again -/
theorem drop_override_returns_inherited_partial (s : Store) (k : Key) (hk : ahas k s.augments = true) :
    configureOne (k, none) s = (.ok true, { s with augments := aerase k s.augments }) ∧
    alookup k (aerase k s.augments) = none := by
  constructor
  · simp [configureOne, bind, M.bind, M.get, M.modify, M.pure, hk]
  · simp [alookup_aerase]

/-! ## the test tree of harness/c08.py and the histories on which the pinned tree violates the property -/

def S (d : String) : ObjSpec := { kind := .string, default := .str d.toList }
def B (d : Bool) (y : Bool := false) : ObjSpec := { kind := .boolean, default := .bool d, yielding := y }
def C (c : List String) (d : String) (y : Bool := false) : ObjSpec :=
  { kind := .combo (c.map String.toList), default := .str d.toList, yielding := y }
def I (lo hi d : Int) : ObjSpec := { kind := .integer (some lo) (some hi), default := .int d }

def top0 : Defs := [("t_str".toList, S "ts0"), ("t_combo".toList, C ["a", "b", "c"] "a"), ("t_int".toList, I 0 10 3),
  ("shared".toList, C ["a", "b", "c"] "a"), ("flag".toList, B false), ("boom".toList, B false), ("boom_late".toList, B false)]
def sub0 : Defs := [("s_str".toList, S "ss0"), ("s_combo".toList, C ["x", "y", "z"] "x"),
  ("shared".toList, C ["a", "b", "c"] "b" true), ("flag".toList, B true true)]
def d0 : Dir := Dir.fresh top0 sub0

def gk (n : String) : Key := { name := n.toList, sub := none, machine := .host }
def sk (n : String) : Key := { name := n.toList, sub := some sSub, machine := .host }
def sv (v : String) : Val := .str v.toList
/-- every `setup` command of the harness passes `--backend=none` -/
def bn : Key × Val := (gk "backend", sv "none")

/-- effective value `get_option(name)` would return from the persisted store (`none`: absent or an exception) -/
def effOk (d : Dir) (proj : Str) (name : String) : Option Val := (d.eff proj name.toList).bind Except.toOption
def effErr (d : Dir) (proj : Str) (name : String) : Option Err :=
  match d.eff proj name.toList with
  | some (.error e) => some e
  | _ => none

/-- a failing postconf script (`boom_late`): coredata.dat is rolled back, cmd_line.txt is not -/
def hLate : List Cmd := [.setup [bn], .reconfigure [bn, (gk "t_str", sv "late"), (gk "boom_late", sv "true")]]

theorem failed_command_is_identity_counterexample : ¬ failed_command_is_identity := by
  intro h
  have h1 := h (runHist d0 [.setup [bn]]) (.reconfigure [bn, (gk "t_str", sv "late"), (gk "boom_late", sv "true")])
  have hf : (step (runHist d0 [.setup [bn]]) (.reconfigure [bn, (gk "t_str", sv "late"), (gk "boom_late", sv "true")])).2.isOk = false := by
    decide +kernel
  have h2 := congrArg Dir.cmdline (h1 hf)
  revert h2
  decide +kernel

/-- … and the follow-up `--wipe` then configures with the values of the command that failed -/
theorem late_failure_then_wipe_uses_failed_values :
    effOk (step (runHist d0 hLate) (.wipe [bn])).1 [] "t_str" = none ∧
    (runHist d0 hLate).cmdline = some [bn, (gk "t_str", sv "late"), (gk "boom_late", sv "true")] ∧
    effOk (runHist d0 hLate) [] "t_str" = some (sv "ts0") := by
  decide +kernel

/-- a `--wipe` that fails leaves the directory without configuration: here the recorded `t_combo=c` is no longer
among the choices (a reconfigure falls back to the new default, the wipe dies) -/
def hWipe : List Cmd := [.setup [bn, (gk "t_combo", sv "c")], .editSet false "t_combo".toList (C ["a", "b"] "a"), .reconfigure [bn]]

theorem wipe_counterexample :
    effOk (runHist d0 hWipe) [] "t_combo" = some (sv "a") ∧
    (step (runHist d0 hWipe) (.wipe [bn])).2.isOk = false ∧
    (step (runHist d0 hWipe) (.wipe [bn])).1.core = none := by
  decide +kernel

/-- full clause: an inheriting subproject option follows the current value of the top-level option -/
def yield_follows_current_parent : Prop :=
  ∀ (h : List Cmd), (runHist d0 h).core.isSome = true → effErr (runHist d0 h) sSub "shared" = none →
    (sk "shared") ∉ ((runHist d0 h).core.map (fun c => c.store.augments.map (·.1))).getD [] →
    ((runHist d0 h).core.map (fun c => (c.projectKeys.filter (fun k => k == projKey sSub "shared".toList)).all
        (fun k => (alookup k c.store.options).any (fun id => (c.store.heap[id]?).any (·.yielding))))).getD true = true →
    effOk (runHist d0 h) sSub "shared" = effOk (runHist d0 h) [] "shared"

/-- after the parent's choices changed in the top-level option file the child keeps reading the replaced object -/
def hStale : List Cmd := [.setup [bn], .editSet false "shared".toList (C ["a", "b", "d"] "a"), .reconfigure [bn],
  .configure [(gk "shared", some (sv "d"))]]

theorem yield_follows_current_parent_counterexample : ¬ yield_follows_current_parent := by
  intro h
  have h1 := h hStale (by decide +kernel) (by decide +kernel) (by decide +kernel) (by decide +kernel)
  revert h1
  decide +kernel

/-- changed choices of a `yield: true` subproject option: the fresh object is installed with `yielding = true` and
no parent, and reading it raises AttributeError — in every later (re)configuration -/
def hOrphan : List Cmd := [.setup [bn], .editSet true "shared".toList (C ["a", "b", "d"] "b" true), .configure [(gk "t_int", some (sv "5"))]]

theorem changed_choices_keep_or_reset_counterexample :
    effErr (runHist d0 hOrphan) sSub "shared" = some .attribute ∧
    (step (runHist d0 hOrphan) (.reconfigure [bn])).2 = .failed .attribute false ∧
    -- undoing the edit does not help: the orphan is persisted
    (step (step (runHist d0 hOrphan) (.editSet true "shared".toList (C ["a", "b", "c"] "b" true))).1 (.reconfigure [bn])).2
      = .failed .attribute false := by
  decide +kernel

/-- `-Usub:flag` on a yielding boolean option whose parent is `false`: `bool(opt.parent)` is the parent's *value* -/
def hUnset : List Cmd := [.setup [bn], .configure [(sk "flag", some (sv "false"))], .configure [(sk "flag", some (sv "true"))],
  .configure [(sk "flag", none)]]

theorem drop_override_returns_inherited_counterexample :
    effOk (runHist d0 hUnset) [] "flag" = some (.bool false) ∧ effOk (runHist d0 hUnset) sSub "flag" = some (.bool true) ∧
    (runHist d0 hUnset).cmdline = some [bn] := by
  decide +kernel

/-- `meson configure -Dsub:flag=true` where `true` is the hidden own value of the inheriting option: `changed` is
false, nothing is saved, the subproject keeps reading the parent (`false`) although cmd_line.txt records the request -/
def hLost : List Cmd := [.setup [bn], .configure [(sk "flag", some (sv "true"))]]

theorem value_persists_counterexample :
    effOk (runHist d0 hLost) sSub "flag" = some (.bool false) ∧
    (runHist d0 hLost).cmdline = some [bn, (sk "flag", sv "true")] := by
  decide +kernel

/-- … but a removed option that was ever set with `-D` stays in cmd_line.txt, `check_unused_options` rejects it after
the interpretation, the rollback restores the old coredata — the option never vanishes and every reconfigure fails -/
def hRemoved : List Cmd := [.setup [bn, (gk "t_str", sv "u1")], .editRemove false "t_str".toList]

theorem removed_option_vanishes_counterexample :
    (step (runHist d0 hRemoved) (.reconfigure [bn])).2 = .failed .meson false ∧
    effOk (step (runHist d0 hRemoved) (.reconfigure [bn])).1 [] "t_str" = some (sv "u1") ∧
    (step (runHist d0 hRemoved) (.wipe [bn])).1.core = none := by
  decide +kernel

/-! ## non-vacuity: the good paths on the same tree -/

/-- values survive configure / reconfigure / wipe; a new option gets its default; a dropped choice resets -/
example :
    let h : List Cmd := [.setup [bn, (gk "t_str", sv "u1"), (gk "t_combo", sv "c")], .configure [(gk "t_int", some (sv "7"))],
      .editSet false "extra".toList (S "e0"), .editSet false "t_combo".toList (C ["a", "b"] "b"), .reconfigure [bn]]
    effOk (runHist d0 h) [] "t_str" = some (sv "u1") ∧ effOk (runHist d0 h) [] "t_int" = some (.int 7) ∧
    effOk (runHist d0 h) [] "extra" = some (sv "e0") ∧ effOk (runHist d0 h) [] "t_combo" = some (sv "b") := by
  decide +kernel

/-- an early failure (`boom`) after the store was mutated in memory is the identity (hypotheses of
`failed_command_is_identity_partial` are satisfiable) -/
example :
    let d := runHist d0 [.setup [bn]]
    (step d (.reconfigure [bn, (gk "t_str", sv "u2"), (gk "boom", sv "true")])).2 = .failed .meson false ∧
    (step d (.reconfigure [bn, (gk "t_str", sv "u2"), (gk "boom", sv "true")])).1 = d := by
  decide +kernel

/-- `AllFailEarly` is satisfiable by a non-empty history -/
example : AllFailEarly d0 [.configure [(gk "t_int", some (sv "4"))], .setup [bn, (gk "boom", sv "true")]] := by
  refine ⟨(by intro nd h; cases h), ⟨.meson, (by decide +kernel)⟩, ?_⟩
  have h1 : (step d0 (.configure [(gk "t_int", some (sv "4"))])).1 = d0 := by decide +kernel
  rw [h1]
  exact ⟨(by intro nd h; cases h), ⟨.meson, (by decide +kernel)⟩, trivial⟩

/-- `AllFailOrEdit` is satisfiable with a late failure and an edit after a real setup -/
example : AllFailOrEdit (runHist d0 [.setup [bn]])
    [.reconfigure [bn, (gk "t_str", sv "late"), (gk "boom_late", sv "true")], .editRemove true "s_str".toList] := by
  refine ⟨(by intro nd h; cases h), Or.inl ⟨.meson, true, (by decide +kernel)⟩, ?_⟩
  exact ⟨(by intro nd h; cases h), Or.inr (Or.inr ⟨true, _, rfl⟩), trivial⟩

/-- the recorded command line of a real history has distinct keys (hypothesis of `wipe_eq_replay`) -/
example : ((runHist d0 hWipe).cmdline.map (fun f => decide ((f.map Prod.fst).Nodup))) = some true := by
  decide +kernel

end MesonModel.Props.C08
